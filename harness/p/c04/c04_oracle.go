package c04

// C04 direct oracle: the property decided on the real loader.
//
// A case is a *target* compose document T together with a way of splitting the final value of one or more
// attributes into a base part and 1..3 override parts that the Compose override rules map back to it
// (replace, key-wise, append, append-with-duplicate, keyed later-wins, wholesale, !reset, !override; each side
// spelled as list or mapping / short or long syntax).  The real loader loads the parts (as several files, or
// as several `---` documents of one file) and the target document; the two projects must be equal.

import (
	"context"
	"encoding/json"
	"fmt"
	"os"
	"reflect"
	"regexp"
	"sort"
	"strconv"
	"strings"
	"time"

	"github.com/compose-spec/compose-go/v2/loader"
	"github.com/compose-spec/compose-go/v2/override"

	"verifharness/core"
)

type absentT struct{}

var c04Absent = absentT{}

func isAbsent(v any) bool { _, ok := v.(absentT); return ok }

// one attribute split: parts[0] is the base file's value, parts[1..] the overrides'; target is the expected final value.
type c04Split struct {
	Path   []string // e.g. services web environment
	Kind   string
	Parts  []any // raw values (may be *yDoc for tagged nodes) or c04Absent
	Target any   // raw value or c04Absent
	// extra top-level declarations the attribute needs to be valid, added to every document
	Needs map[string]any
	// input shapes on which the unchanged tree is known to break the property (findings/C04.txt); they become part
	// of the failure key so that a recorded finding never hides a failure on any other shape
	Labels []string
	Null   bool // some later part mentions the attribute as an explicit null (nothing to apply)
	// the recorded `!reset` / `!override` path goes through a KEY that contains a dot (reverse-DNS label, sysctl name):
	// tree.Path.Next escapes it when the path is recorded and when Apply walks the accumulated model
	DottedTag bool
}

type c04SplitInfo struct {
	Path   string   `json:"path"`
	Kind   string   `json:"kind"`
	Labels []string `json:"labels,omitempty"`
}

type c04SplitCase struct {
	Docs     []string       `json:"docs"`      // YAML text of base, override 1..n
	Target   string         `json:"target"`    // YAML text of the target document
	MultiDoc bool           `json:"multi_doc"` // one file with `---` documents instead of several files
	Attrs    []string       `json:"attrs"`     // attributes that were split (for the failure message)
	Splits   []c04SplitInfo `json:"splits"`
	// the service is named `x-web` instead of `web`: mergeMappings treats EVERY key starting with "x-" as an extension and
	// replaces its value as a whole, also where the key is a user-chosen name (recorded finding xprefix-name-replaced:services)
	XNamed bool `json:"x_named,omitempty"`
	// the service is named `web.v1`: every path below it (recorded tag paths, rule lookups, unicity paths) goes through a
	// key that contains the path separator
	DotNamed bool `json:"dot_named,omitempty"`
}

// labelAt: the known-defect label that explains a failure with key `base` at position `where`, if the splits that
// own that position carry it.  Each recorded finding pairs one failure key with one input shape; anything else
// keeps its bare key and is reported.
func (c c04SplitCase) labelAt(base, where string) string {
	want := ""
	switch {
	case strings.Contains(base, "must_be_a_list"), strings.Contains(base, "must_be_a_mapping"):
		want = "empty-collection"
	case strings.Contains(base, "must_be_unique"):
		want = "volume-labels-repeat"
	case strings.HasSuffix(base, ".ports"):
		want = "int-published"
	case strings.HasSuffix(base, "ipam.config"):
		want = "ipam-lossy"
	default:
		return ""
	}
	where = strings.TrimPrefix(where, ".") + "."
	for _, s := range c.Splits {
		p := s.Path + "."
		if strings.HasPrefix(where, p) || strings.HasPrefix(p, where) {
			for _, l := range s.Labels {
				if l == want {
					return ":" + l
				}
			}
		}
	}
	return ""
}

var c04ErrPath = regexp.MustCompile(`(services|networks|volumes|secrets|configs)\.[A-Za-z0-9_.\-]+`)

var c04OracleFiles = map[string]string{
	"a.env": "FROM_A=1\n", "b.env": "FROM_B=2\n", "c.env": "FROM_C=3\n",
}

func c04Load(docs []string, multi bool) any {
	files := map[string]string{}
	for k, v := range c04OracleFiles {
		files[k] = v
	}
	var cfgs []string
	if multi {
		files["compose.yaml"] = strings.Join(docs, "\n---\n") + "\n"
		cfgs = []string{"compose.yaml"}
	} else {
		for i, d := range docs {
			n := fmt.Sprintf("compose.%d.yaml", i)
			files[n] = d + "\n"
			cfgs = append(cfgs, n)
		}
	}
	return core.LoadOutcome(core.LoadReq{Files: files, ConfigFiles: cfgs, ProjectName: "p", Profiles: []string{"*"}})
}

// c04ModelFixpoint: the invariant of the fold proved in Props/C04Stage.lean (`loadFilesU_deduplicated`), observed on the
// real loader: the model accumulated over all files and documents (every stage of processRawYaml included; no
// normalisation / default values afterwards) is a fixed point of override.EnforceUnicity — every keyed list holds a
// single entry per key.  Returns "" or the first position at which EnforceUnicity still changes the model.
func c04ModelFixpoint(docs []string, multi bool) string {
	files := map[string]string{}
	for k, v := range c04OracleFiles {
		files[k] = v
	}
	var cfgs []string
	if multi {
		files["compose.yaml"] = strings.Join(docs, "\n---\n") + "\n"
		cfgs = []string{"compose.yaml"}
	} else {
		for i, d := range docs {
			n := fmt.Sprintf("compose.%d.yaml", i)
			files[n] = d + "\n"
			cfgs = append(cfgs, n)
		}
	}
	root, err := core.Materialize(files)
	defer os.RemoveAll(root)
	if err != nil {
		return ""
	}
	req := core.LoadReq{Files: files, ConfigFiles: cfgs}
	model, err := loader.LoadModelWithContext(context.Background(), req.Details(root), func(o *loader.Options) {
		o.SkipNormalization = true
		o.SkipDefaultValues = true
		o.SkipConsistencyCheck = true
		o.Profiles = []string{"*"}
		o.SetProjectName("p", true)
	})
	if err != nil {
		return "" // rejected splits are reported by the comparison with the target
	}
	before := core.EncodeVal(model)
	again, err := override.EnforceUnicity(model)
	if err != nil {
		return "error: " + c04ErrClass(err)
	}
	after := core.EncodeVal(again)
	bb, _ := json.Marshal(before)
	ab, _ := json.Marshal(after)
	if string(bb) == string(ab) {
		return ""
	}
	where, a, b := c04Diff("", core.DecodeVal(before), core.DecodeVal(after))
	return fmt.Sprintf("%s: the loaded model holds %s, EnforceUnicity makes it %s", where, c04Short(a), c04Short(b))
}

var c04ErrScrub = regexp.MustCompile(`compose\.\d+\.yaml|compose\.yaml|target\.yaml`)

func init() {
	core.Register("c04.split", &core.CheckDef{
		Timeout: 30 * time.Second,
		Real: func(raw json.RawMessage) any {
			var c c04SplitCase
			if err := json.Unmarshal(raw, &c); err != nil {
				return map[string]any{"bad": err.Error()}
			}
			return map[string]any{"split": c04Load(c.Docs, c.MultiDoc), "target": c04Load([]string{c.Target}, false), "fixpoint": c04ModelFixpoint(c.Docs, c.MultiDoc)}
		},
		Judge: func(args, real, _ json.RawMessage) *core.Verdict {
			if v := core.CrashVerdict(real); v != nil {
				return v
			}
			var c c04SplitCase
			json.Unmarshal(args, &c)
			var r struct {
				Split    map[string]any `json:"split"`
				Target   map[string]any `json:"target"`
				Fixpoint string         `json:"fixpoint"`
			}
			if err := json.Unmarshal(real, &r); err != nil || r.Split == nil || r.Target == nil {
				return core.Disagree("c04.split: unreadable outcome")
			}
			attrs := strings.Join(c.Attrs, "+")
			if r.Fixpoint != "" {
				where := strings.SplitN(r.Fixpoint, ":", 2)[0]
				return core.Fail("not-deduplicated:"+c04KeyOfPath(where), fmt.Sprintf("split %s: after the last file the accumulated model is not a fixed point of EnforceUnicity (a keyed list holds two entries for one key) at %s", attrs, r.Fixpoint))
			}
			tOk, tHas := r.Target["ok"]
			if !tHas {
				// the generated target is not a valid compose document: outside the domain
				return core.Skip(fmt.Sprintf("target does not load: %v", r.Target["err"]))
			}
			sOk, sHas := r.Split["ok"]
			if !sHas {
				et := fmt.Sprint(r.Split["err"])
				if c.XNamed && strings.Contains(et, "x-web") {
					return core.Fail("xprefix-name-replaced:services", fmt.Sprintf("service named x-web: the later file replaces the whole service instead of merging it key by key (%s): %v", attrs, r.Split["err"]))
				}
				return core.Fail("split-error:"+c04ErrKey(et)+c.labelAt(c04ErrKey(et), c04ErrPath.FindString(et)), fmt.Sprintf("the target document loads but its split (%s) is rejected: %v", attrs, r.Split["err"]))
			}
			c04SortIpam(sOk)
			c04SortIpam(tOk)
			if reflect.DeepEqual(sOk, tOk) {
				return nil
			}
			where, a, b := c04Diff("", sOk, tOk)
			if c.DotNamed {
				where = strings.Replace(where, ".services.web.v1", ".services.web", 1)
			}
			if c.XNamed && strings.HasPrefix(where, ".services.x-web") {
				return core.Fail("xprefix-name-replaced:services", fmt.Sprintf("service named x-web, split %s: at %s the merged files give %s but the target document gives %s (the later file replaced the whole service)", attrs, where, c04Short(a), c04Short(b)))
			}
			return core.Fail("split:"+c04KeyOfPath(where)+c.labelAt(c04KeyOfPath(where), where), fmt.Sprintf("split %s: at %s the merged files give %s but the target document gives %s", attrs, where, c04Short(a), c04Short(b)))
		},
	})
}

var (
	c04ErrFile = regexp.MustCompile(`\S*compose(\.\d+)?\.yaml:?\s*`)
	c04ErrNum  = regexp.MustCompile(`\d+`)
)

// c04ErrKey: a stable class for "the split is rejected": the error text without file names and indices
func c04ErrKey(e string) string {
	e = c04ErrFile.ReplaceAllString(e, "")
	e = c04ErrNum.ReplaceAllString(e, "N")
	e = strings.TrimPrefix(e, "validating ")
	if strings.HasSuffix(e, "must be a list") {
		return "must_be_a_list"
	}
	if strings.HasSuffix(e, "must be a mapping") {
		return "must_be_a_mapping"
	}
	if len(e) > 90 {
		e = e[:90]
	}
	return strings.ReplaceAll(strings.TrimSpace(e), " ", "_")
}

// the order of ipam pools carries no meaning (they are keyed by subnet): compare them as a set
func c04SortIpam(project any) {
	p, _ := project.(map[string]any)
	nets, _ := p["networks"].(map[string]any)
	for _, n := range nets {
		nm, _ := n.(map[string]any)
		ipam, _ := nm["ipam"].(map[string]any)
		cfg, _ := ipam["config"].([]any)
		sort.SliceStable(cfg, func(i, j int) bool {
			a, _ := json.Marshal(cfg[i])
			b, _ := json.Marshal(cfg[j])
			return string(a) < string(b)
		})
	}
}

func c04Short(v any) string {
	b, _ := json.Marshal(v)
	if len(b) > 300 {
		return string(b[:300]) + "…"
	}
	return string(b)
}

// c04Diff returns the first (in sorted key order) position at which two JSON trees differ.
func c04Diff(path string, a, b any) (string, any, any) {
	switch x := a.(type) {
	case map[string]any:
		y, ok := b.(map[string]any)
		if !ok {
			return path, a, b
		}
		keys := map[string]bool{}
		for k := range x {
			keys[k] = true
		}
		for k := range y {
			keys[k] = true
		}
		ks := make([]string, 0, len(keys))
		for k := range keys {
			ks = append(ks, k)
		}
		sort.Strings(ks)
		for _, k := range ks {
			xv, xo := x[k]
			yv, yo := y[k]
			if !xo || !yo {
				return path + "." + k, xv, yv
			}
			if !reflect.DeepEqual(xv, yv) {
				return c04Diff(path+"."+k, xv, yv)
			}
		}
	case []any:
		y, ok := b.([]any)
		if !ok || len(x) != len(y) {
			return path, a, b
		}
		for i := range x {
			if !reflect.DeepEqual(x[i], y[i]) {
				return c04Diff(path+"."+strconv.Itoa(i), x[i], y[i])
			}
		}
	}
	return path, a, b
}

// c04KeyOfPath: .services.web.build.args.A → services.*.build.args  (names starred, ≤ 4 components, indices dropped)
func c04KeyOfPath(p string) string {
	parts := strings.Split(strings.TrimPrefix(p, "."), ".")
	var out []string
	for i, s := range parts {
		if _, err := strconv.Atoi(s); err == nil {
			break
		}
		if i == 1 {
			s = "*"
		}
		out = append(out, s)
		if len(out) == 4 {
			break
		}
	}
	// keep the key at attribute level: services.*.<attr>[.<sub>] only for the nested containers
	if len(out) > 3 {
		switch out[2] {
		case "build", "deploy", "healthcheck", "ipam", "logging":
		default:
			out = out[:3]
		}
	}
	return strings.Join(out, ".")
}

// ---------------------------------------------------------------- assembling documents

func c04SetPath(doc map[string]any, path []string, v any) {
	cur := doc
	for i, k := range path {
		if i == len(path)-1 {
			cur[k] = v
			return
		}
		nx, ok := cur[k].(map[string]any)
		if !ok {
			nx = map[string]any{}
			cur[k] = nx
		}
		cur = nx
	}
}

func c04DelPath(doc map[string]any, path []string) {
	cur := doc
	for i, k := range path {
		if i == len(path)-1 {
			delete(cur, k)
			return
		}
		nx, ok := cur[k].(map[string]any)
		if !ok {
			return
		}
		cur = nx
	}
}

func c04Mentioned(s c04Split) bool {
	for _, p := range s.Parts {
		if !isAbsent(p) {
			return true
		}
	}
	return false
}

func c04DeepCopy(v any) any {
	switch x := v.(type) {
	case map[string]any:
		m := map[string]any{}
		for k, e := range x {
			m[k] = c04DeepCopy(e)
		}
		return m
	case []any:
		l := make([]any, len(x))
		for i, e := range x {
			l[i] = c04DeepCopy(e)
		}
		return l
	}
	return v
}

// the fixed context every file may rely on
func c04Context() map[string]any {
	return map[string]any{
		"services": map[string]any{
			"web":   map[string]any{"image": "nginx"},
			"db":    map[string]any{"image": "postgres"},
			"cache": map[string]any{"image": "redis"},
			"mq":    map[string]any{"image": "rabbitmq"},
		},
		"networks": map[string]any{"front": map[string]any{}, "back": map[string]any{}},
		"volumes":  map[string]any{"data": map[string]any{}, "vol": map[string]any{}},
		"secrets":  map[string]any{"s1": map[string]any{"environment": "S1"}, "s2": map[string]any{"environment": "S2"}},
		"configs":  map[string]any{"c1": map[string]any{"content": "x"}, "c2": map[string]any{"content": "y"}},
	}
}

// ---------------------------------------------------------------- split generators

type c04o struct {
	*c04g
	dups int // in-file duplicates generated so far (a key / entry repeated inside ONE part)
}

func (g *c04o) n() int { return 1 + g.r.Intn(3) } // number of overrides

// history: for `items` things and n+1 parts choose the part of the last mention (and maybe earlier mentions)
func (g *c04o) lastAndEarlier(nParts int) (last int, earlier []int) {
	last = g.r.Intn(nParts)
	for i := 0; i < last; i++ {
		if g.chance(1, 3) {
			earlier = append(earlier, i)
		}
	}
	return
}

var c04Scalars = map[string][]any{
	"image": {"nginx", "nginx:2", "busybox"}, "container_name": {"c1", "c2"}, "hostname": {"h1", "h2"}, "user": {"root", "1000:1000"},
	"working_dir": {"/app", "/srv"}, "restart": {"always", "no", "on-failure"}, "mem_limit": {"1g", "512m"}, "cpus": {0.5, 1.5, "2"},
	"privileged": {true, false}, "init": {true, false}, "read_only": {true, false}, "stop_signal": {"SIGTERM", "SIGINT"},
	"domainname": {"d1", "d2"}, "shm_size": {"64m", "1g"}, "tty": {true, false}, "stdin_open": {true, false}, "pull_policy": {"always", "never"},
	"platform": {"linux/amd64", "linux/arm64"}, "runtime": {"runc", "r2"}, "cpu_shares": {512, 1024}, "oom_score_adj": {100, -100},
	"stop_grace_period": {"10s", "1m30s"}, "mac_address": {"02:42:ac:11:00:03", "02:42:ac:11:00:04"}, "pid": {"host", "service:db"},
	"network_mode_absent": {nil},
}

func (g *c04o) splitScalar(n int) c04Split {
	names := []string{"image", "container_name", "hostname", "user", "working_dir", "restart", "mem_limit", "cpus", "privileged", "init", "read_only",
		"stop_signal", "domainname", "shm_size", "tty", "stdin_open", "pull_policy", "platform", "runtime", "cpu_shares", "oom_score_adj", "stop_grace_period"}
	name := g.str(names...)
	vals := c04Scalars[name]
	s := c04Split{Path: []string{"services", "web", name}, Kind: "scalar-replace", Target: c04Absent}
	for i := 0; i <= n; i++ {
		if g.chance(1, 2) || (i == n && isAbsent(s.Target)) {
			v := vals[g.r.Intn(len(vals))]
			s.Parts = append(s.Parts, v)
			s.Target = v
		} else {
			s.Parts = append(s.Parts, c04Absent)
		}
	}
	return s
}

// a nested mapping of scalar leaves, merged key by key recursively
func (g *c04o) splitDeep(n int) c04Split {
	type leaf struct {
		path []string
		vals []any
	}
	var (
		path   []string
		leaves []leaf
	)
	switch g.r.Intn(5) {
	case 0:
		path = []string{"services", "web", "healthcheck"}
		leaves = []leaf{{[]string{"interval"}, []any{"10s", "1m"}}, {[]string{"timeout"}, []any{"5s", "3s"}}, {[]string{"retries"}, []any{3, 5}},
			{[]string{"start_period"}, []any{"1s", "2s"}}, {[]string{"test"}, []any{[]any{"CMD", "true"}, "exit 0"}}}
	case 1:
		path = []string{"services", "web", "deploy"}
		leaves = []leaf{{[]string{"replicas"}, []any{1, 2}}, {[]string{"resources", "limits", "cpus"}, []any{"0.5", "1"}},
			{[]string{"resources", "limits", "memory"}, []any{"50M", "1G"}}, {[]string{"resources", "reservations", "memory"}, []any{"20M", "30M"}},
			{[]string{"restart_policy", "condition"}, []any{"on-failure", "any"}}, {[]string{"restart_policy", "max_attempts"}, []any{3, 4}},
			{[]string{"mode"}, []any{"replicated", "global"}}}
	case 2:
		path = []string{"networks", "front", "driver_opts"}
		leaves = []leaf{{[]string{"o1"}, []any{"a", "b"}}, {[]string{"o2"}, []any{"c", "1"}}, {[]string{"o3"}, []any{"x", "y"}}}
	case 3:
		path = []string{"volumes", "data", "driver_opts"}
		leaves = []leaf{{[]string{"type"}, []any{"nfs", "tmpfs"}}, {[]string{"o"}, []any{"addr=1", "addr=2"}}, {[]string{"device"}, []any{":/a", ":/b"}}}
	default:
		path = []string{"services", "web", "build"}
		leaves = []leaf{{[]string{"context"}, []any{".", "./dir"}}, {[]string{"dockerfile"}, []any{"Dockerfile", "D2"}}, {[]string{"target"}, []any{"prod", "dev"}},
			{[]string{"network"}, []any{"host", "none"}}, {[]string{"shm_size"}, []any{"64m", "1g"}}}
	}
	s := c04Split{Path: path, Kind: "map-deep"}
	parts := make([]map[string]any, n+1)
	target := map[string]any{}
	used := false
	for _, lf := range leaves {
		if g.chance(1, 3) {
			continue
		}
		last, earlier := g.lastAndEarlier(n + 1)
		final := lf.vals[g.r.Intn(len(lf.vals))]
		for _, i := range earlier {
			if parts[i] == nil {
				parts[i] = map[string]any{}
			}
			c04SetPath(parts[i], lf.path, lf.vals[g.r.Intn(len(lf.vals))])
		}
		if parts[last] == nil {
			parts[last] = map[string]any{}
		}
		c04SetPath(parts[last], lf.path, final)
		c04SetPath(target, lf.path, c04DeepCopy(final))
		used = true
	}
	for _, p := range parts {
		if p == nil {
			s.Parts = append(s.Parts, c04Absent)
		} else {
			s.Parts = append(s.Parts, p)
		}
	}
	if used {
		s.Target = target
	} else {
		s.Target = c04Absent
	}
	if path[2] == "build" {
		// a build section needs a context to be valid: the base always carries one
		base, _ := s.Parts[0].(map[string]any)
		if base == nil {
			base = map[string]any{}
		}
		if _, ok := base["context"]; !ok {
			// the base mentions context first; a later mention (if any) still wins
			base["context"] = "."
			if tm, ok := s.Target.(map[string]any); ok {
				if _, has := tm["context"]; !has {
					tm["context"] = "."
				} else {
					// was the final context set by an override? if only by the base slot we just overwrote nothing
				}
			} else {
				s.Target = map[string]any{"context": "."}
			}
		}
		s.Parts[0] = base
	}
	return s
}

var c04KVPaths = [][]string{
	{"services", "web", "environment"}, {"services", "web", "labels"}, {"services", "web", "annotations"}, {"services", "web", "sysctls"},
	{"services", "web", "build", "args"}, {"services", "web", "build", "labels"}, {"services", "web", "deploy", "labels"},
	{"services", "web", "build", "additional_contexts"},
	{"networks", "front", "labels"}, {"volumes", "data", "labels"},
}

// typed spelling of a string value inside a mapping
func (g *c04o) typedSpelling(v string) any {
	if !g.chance(1, 2) {
		return v
	}
	switch v {
	case "1":
		return 1
	case "true":
		return true
	case "1.5":
		return 1.5
	}
	return v
}

func (g *c04o) spellKV(keys []string, m map[string]*string, allowTyped bool) any {
	if g.chance(1, 2) {
		l := []any{}
		for _, k := range keys {
			// a key repeated inside ONE file: the later entry of the same file wins (so a key can make its first
			// appearance after another key's duplicate has been collapsed: [A=1, A=2, B=0, B=1])
			if g.chance(1, 4) {
				l = append(l, k+"=stale")
				g.dups++
			}
			if m[k] == nil {
				l = append(l, k)
			} else {
				l = append(l, k+"="+*m[k])
			}
		}
		return l
	}
	out := map[string]any{}
	for _, k := range keys {
		if m[k] == nil {
			out[k] = nil
		} else if allowTyped {
			out[k] = g.typedSpelling(*m[k])
		} else {
			out[k] = *m[k]
		}
	}
	return out
}

// KEY=VALUE attribute: merged by key, whichever spelling either side uses
func (g *c04o) splitKV(n int) c04Split {
	path := c04KVPaths[g.r.Intn(len(c04KVPaths))]
	isEnv := path[len(path)-1] == "environment"
	isCtx := path[len(path)-1] == "additional_contexts"
	keys := []string{"A", "B", "C", "D", "E_F"}
	vals := []string{"1", "v", "", "x y", "true", "1.5", "a=b"}
	if isCtx {
		// values are build contexts (paths or URLs); a non-string value is C01's absContextPath finding: keep strings
		vals = []string{"./ctx", "./other", "docker-image://alpine", "https://example.com/r.git", "/abs/ctx"}
	}
	parts := make([]map[string]*string, n+1)
	order := make([][]string, n+1)
	final := map[string]*string{}
	var finalKeys []string
	mention := func(i int, k string, v *string) {
		if parts[i] == nil {
			parts[i] = map[string]*string{}
		}
		if _, dup := parts[i][k]; !dup {
			order[i] = append(order[i], k)
		}
		parts[i][k] = v
	}
	val := func() *string {
		if isEnv && g.chance(1, 6) {
			return nil
		}
		v := vals[g.r.Intn(len(vals))]
		return &v
	}
	for _, k := range keys {
		if g.chance(1, 3) {
			continue
		}
		last, earlier := g.lastAndEarlier(n + 1)
		for _, i := range earlier {
			mention(i, k, val())
		}
		f := val()
		mention(last, k, f)
		final[k] = f
		finalKeys = append(finalKeys, k)
	}
	s := c04Split{Path: path, Kind: "kv-by-key"}
	for i := range parts {
		if parts[i] == nil {
			if g.chance(1, 4) {
				s.Parts = append(s.Parts, g.pick([]any{}, map[string]any{}))
			} else {
				s.Parts = append(s.Parts, c04Absent)
			}
			continue
		}
		s.Parts = append(s.Parts, g.spellKV(order[i], parts[i], !isCtx))
	}
	tm := map[string]any{}
	for _, k := range finalKeys {
		if final[k] == nil {
			tm[k] = nil
		} else {
			tm[k] = *final[k]
		}
	}
	allAbsent := true
	for _, p := range s.Parts {
		if !isAbsent(p) {
			allAbsent = false
		}
	}
	if allAbsent {
		s.Target = c04Absent
	} else {
		s.Target = tm
	}
	if path[2] == "build" {
		s.Needs = map[string]any{"build-context": true}
	}
	return s
}

type c04ListAttr struct {
	path   []string
	pool   []string
	single bool // a bare string is an accepted spelling
	ints   bool // numeric items may be spelled as integers
}

var c04UniqueLists = []c04ListAttr{
	{[]string{"services", "web", "dns"}, []string{"8.8.8.8", "1.1.1.1", "9.9.9.9", "8.8.4.4"}, true, false},
	{[]string{"services", "web", "dns_search"}, []string{"a.example", "b.example", "c.example"}, true, false},
	{[]string{"services", "web", "dns_opt"}, []string{"use-vc", "no-tld-query", "rotate"}, false, false},
	{[]string{"services", "web", "cap_add"}, []string{"ALL", "NET_ADMIN", "SYS_ADMIN", "CHOWN"}, false, false},
	{[]string{"services", "web", "cap_drop"}, []string{"ALL", "NET_ADMIN", "SYS_ADMIN", "CHOWN"}, false, false},
	{[]string{"services", "web", "links"}, []string{"db", "db:database", "cache", "cache:c"}, false, false},
	{[]string{"services", "web", "profiles"}, []string{"dev", "test", "prod"}, false, false},
	{[]string{"services", "web", "expose"}, []string{"80", "443", "8000-8010", "9000"}, false, true},
	{[]string{"services", "web", "tmpfs"}, []string{"/run", "/tmp", "/var/x"}, true, false},
	{[]string{"services", "web", "build", "tags"}, []string{"t:1", "t:2", "u:1"}, false, false},
	{[]string{"services", "web", "networks", "front", "aliases"}, []string{"a1", "a2", "a3"}, false, false},
}

var c04PlainLists = []c04ListAttr{
	{[]string{"services", "web", "security_opt"}, []string{"label:disable", "seccomp:unconfined", "no-new-privileges:true"}, false, false},
	{[]string{"services", "web", "group_add"}, []string{"mail", "staff", "1001"}, false, false},
	{[]string{"services", "web", "external_links"}, []string{"x1", "x2:alias", "x3"}, false, false},
	{[]string{"services", "web", "device_cgroup_rules"}, []string{"c 1:3 mr", "a 7:* rmw"}, false, false},
	{[]string{"services", "web", "build", "cache_from"}, []string{"alpine:latest", "corp/web:cache"}, false, false},
	{[]string{"services", "web", "deploy", "placement", "constraints"}, []string{"node.role==manager", "engine.labels.os==ubuntu"}, false, false},
}

func (g *c04o) spellList(a c04ListAttr, items []string) any {
	if a.single && len(items) == 1 && g.chance(1, 2) {
		return items[0]
	}
	l := []any{}
	for _, it := range items {
		if a.ints && g.chance(1, 2) {
			if n, err := strconv.Atoi(it); err == nil {
				l = append(l, n)
				continue
			}
		}
		l = append(l, it)
	}
	return l
}

// sequences are appended; with unicity a repeated entry keeps its first position
func (g *c04o) splitList(n int, unique bool) c04Split {
	var a c04ListAttr
	if unique {
		a = c04UniqueLists[g.r.Intn(len(c04UniqueLists))]
	} else {
		a = c04PlainLists[g.r.Intn(len(c04PlainLists))]
	}
	s := c04Split{Path: a.path}
	var target []string
	seen := map[string]bool{}
	any_ := false
	for i := 0; i <= n; i++ {
		if g.chance(1, 4) {
			s.Parts = append(s.Parts, c04Absent)
			continue
		}
		any_ = true
		var items []string
		for k := g.r.Intn(5); k > 0; k-- {
			it := a.pool[g.r.Intn(len(a.pool))]
			if !unique {
				// plain sequences are appended as they are; the schema rejects repeated items, so keep them distinct
				if seen[it] {
					continue
				}
				seen[it] = true
				target = append(target, it)
				items = append(items, it)
				continue
			}
			if unique && !g.chance(1, 3) {
				// an entry repeated inside one file is also collapsed by unicity (it keeps its first position);
				// two times out of three keep a file's own entries distinct
				dup := false
				for _, x := range items {
					if x == it {
						dup = true
					}
				}
				if dup {
					continue
				}
			}
			for _, x := range items {
				if unique && x == it {
					g.dups++
				}
			}
			items = append(items, it)
		}
		for _, it := range items {
			if !unique || seen[it] {
				continue
			}
			seen[it] = true
			target = append(target, it)
		}
		s.Parts = append(s.Parts, g.spellList(a, items))
	}
	if unique {
		s.Kind = "append-with-duplicate"
	} else {
		s.Kind = "append"
	}
	if !any_ {
		s.Target = c04Absent
	} else {
		l := []any{}
		for _, it := range target {
			l = append(l, it)
		}
		s.Target = l
	}
	if a.path[2] == "build" {
		s.Needs = map[string]any{"build-context": true}
	}
	return s
}

// command / entrypoint / healthcheck.test are replaced wholesale
func (g *c04o) splitWholesale(n int) c04Split {
	path := [][]string{{"services", "web", "command"}, {"services", "web", "entrypoint"}, {"services", "web", "healthcheck", "test"}}[g.r.Intn(3)]
	var vals []any
	if path[len(path)-1] == "test" {
		vals = []any{[]any{"CMD", "true"}, []any{"CMD-SHELL", "exit 0"}, "curl -f http://x", []any{"CMD", "a", "b", "c"}, []any{"NONE"}}
	} else {
		vals = []any{"echo hi", []any{"echo", "hi"}, []any{"a", "b", "c"}, "sleep 1", []any{}, []any{"x"}}
	}
	s := c04Split{Path: path, Kind: "wholesale", Target: c04Absent}
	nullable := path[len(path)-1] != "test" // the schema accepts `command: null` / `entrypoint: null` (back to the image default)
	for i := 0; i <= n; i++ {
		if nullable && len(s.Parts) > 0 && !isAbsent(s.Target) && g.chance(1, 4) {
			// the later file sets the attribute to null: replaced wholesale, i.e. the attribute is gone
			s.Parts = append(s.Parts, nil)
			s.Target = c04Absent
			s.Kind = "wholesale+null"
			continue
		}
		if g.chance(1, 2) || (i == n && isAbsent(s.Target) && s.Kind == "wholesale") {
			v := c04DeepCopy(vals[g.r.Intn(len(vals))])
			s.Parts = append(s.Parts, v)
			s.Target = c04DeepCopy(v)
		} else {
			s.Parts = append(s.Parts, c04Absent)
		}
	}
	return s
}

// keyed lists: one entry per key, the later file wins, the entry keeps its first position
type c04Entry struct {
	raw any
	key string
}

func (g *c04o) portEntry() c04Entry {
	target := []int{80, 443, 8080}[g.r.Intn(3)]
	// "9000-9001" with a single target: a published RANGE that stays one entry (short and long syntax alike)
	published := []string{"", "8080", "8443", "9000", "9000-9001"}[g.r.Intn(5)]
	proto := g.str("tcp", "tcp", "udp")
	host := g.str("", "", "127.0.0.1")
	if published == "" {
		host = ""
	}
	key := fmt.Sprintf("%s:%s:%d/%s", host, published, target, proto)
	if g.chance(1, 2) {
		// short syntax
		s := ""
		if host != "" {
			s += host + ":"
		}
		if published != "" {
			s += published + ":"
		}
		s += strconv.Itoa(target)
		if proto != "tcp" || g.chance(1, 4) {
			s += "/" + proto
		}
		if published == "" && host == "" && proto == "tcp" && g.chance(1, 2) && !strings.Contains(s, "/") {
			return c04Entry{raw: target, key: key}
		}
		return c04Entry{raw: s, key: key}
	}
	m := map[string]any{"target": target}
	if g.chance(1, 4) {
		m["target"] = strconv.Itoa(target) // the schema also accepts the target as a string
	}
	if published != "" {
		if n, err := strconv.Atoi(published); err == nil && g.chance(1, 2) {
			m["published"] = n
		} else {
			m["published"] = published
		}
	}
	if proto != "tcp" || g.chance(1, 2) {
		m["protocol"] = proto
	}
	if host != "" {
		m["host_ip"] = host
	}
	if g.chance(1, 2) {
		m["mode"] = g.str("host", "ingress")
	}
	if g.chance(1, 3) {
		m["name"] = g.str("n1", "n2")
	}
	if g.chance(1, 4) {
		m["app_protocol"] = g.str("http", "grpc")
	}
	return c04Entry{raw: m, key: key}
}

func (g *c04o) volumeEntry() c04Entry {
	target := g.str("/data", "/cache", "/etc/x")
	if g.chance(1, 2) {
		src := g.str("data", "vol", "./src", "/abs")
		s := src + ":" + target
		if g.chance(1, 3) {
			s += ":" + g.str("ro", "rw", "z")
		}
		if g.chance(1, 6) {
			s = target // anonymous volume
		}
		return c04Entry{raw: s, key: target}
	}
	m := map[string]any{"target": target}
	switch g.r.Intn(3) {
	case 0:
		m["type"] = "volume"
		m["source"] = g.str("data", "vol")
		if g.chance(1, 3) {
			m["volume"] = map[string]any{"nocopy": true}
		}
	case 1:
		m["type"] = "bind"
		m["source"] = g.str("./src", "/abs")
		if g.chance(1, 3) {
			m["bind"] = map[string]any{"create_host_path": g.chance(1, 2)}
		}
	default:
		m["type"] = "tmpfs"
		if g.chance(1, 2) {
			m["tmpfs"] = map[string]any{"size": 1024}
		}
	}
	if g.chance(1, 3) {
		m["read_only"] = g.chance(1, 2)
	}
	return c04Entry{raw: m, key: target}
}

func (g *c04o) mountEntry(kind string) c04Entry {
	var pool []string
	dflt := ""
	if kind == "secrets" {
		pool = []string{"s1", "s2"}
		dflt = "/run/secrets"
	} else {
		pool = []string{"c1", "c2"}
	}
	src := g.str(pool...)
	if g.chance(1, 2) {
		return c04Entry{raw: src, key: dflt + "/" + src}
	}
	m := map[string]any{"source": src}
	key := dflt + "/" + src
	if g.chance(1, 2) {
		t := g.str(dflt+"/"+src, "/other", dflt+"/"+pool[0])
		m["target"] = t
		key = t
	}
	if g.chance(1, 3) {
		m["mode"] = g.pick(0o440, 0o400)
	}
	if g.chance(1, 4) {
		m["uid"] = g.str("100", "200")
	}
	return c04Entry{raw: m, key: key}
}

func (g *c04o) deviceEntry() c04Entry {
	src := g.str("/dev/a", "/dev/b")
	tgt := g.str("/dev/x", "/dev/y", "/dev/a")
	if g.chance(1, 2) {
		switch g.r.Intn(3) {
		case 0:
			return c04Entry{raw: src, key: src}
		case 1:
			return c04Entry{raw: src + ":" + tgt, key: tgt}
		}
		return c04Entry{raw: src + ":" + tgt + ":" + g.str("rwm", "r"), key: tgt}
	}
	m := map[string]any{"source": src, "target": tgt}
	if g.chance(1, 2) {
		m["permissions"] = g.str("rwm", "r")
	}
	return c04Entry{raw: m, key: tgt}
}

func (g *c04o) envFileEntry() c04Entry {
	p := g.str("a.env", "b.env", "c.env")
	if g.chance(1, 2) {
		return c04Entry{raw: p, key: p}
	}
	m := map[string]any{"path": p}
	if g.chance(1, 2) {
		m["required"] = g.chance(1, 2)
	}
	return c04Entry{raw: m, key: p}
}

// a short-syntax port range: one item in the file, one entry per port after canonicalisation (each of them keyed)
func (g *c04o) portRange() ([]any, []c04Entry) {
	lo := []int{8080, 9000}[g.r.Intn(2)]
	tlo := []int{80, 8080}[g.r.Intn(2)]
	w := 1 + g.r.Intn(2)
	proto := g.str("tcp", "tcp", "udp")
	raw := fmt.Sprintf("%d-%d:%d-%d", lo, lo+w, tlo, tlo+w)
	if proto != "tcp" {
		raw += "/" + proto
	}
	var es []c04Entry
	for i := 0; i <= w; i++ {
		one := fmt.Sprintf("%d:%d", lo+i, tlo+i)
		if proto != "tcp" {
			one += "/" + proto
		}
		es = append(es, c04Entry{raw: one, key: fmt.Sprintf(":%d:%d/%s", lo+i, tlo+i, proto)})
	}
	return []any{raw}, es
}

func (g *c04o) splitKeyed(n int) c04Split {
	type kd struct {
		path []string
		gen  func() ([]any, []c04Entry)
	}
	one := func(f func() c04Entry) func() ([]any, []c04Entry) {
		return func() ([]any, []c04Entry) { e := f(); return []any{e.raw}, []c04Entry{e} }
	}
	kinds := []kd{
		{[]string{"services", "web", "ports"}, func() ([]any, []c04Entry) {
			if g.chance(1, 5) {
				return g.portRange()
			}
			return one(g.portEntry)()
		}},
		{[]string{"services", "web", "volumes"}, one(g.volumeEntry)},
		{[]string{"services", "web", "secrets"}, one(func() c04Entry { return g.mountEntry("secrets") })},
		{[]string{"services", "web", "configs"}, one(func() c04Entry { return g.mountEntry("configs") })},
		{[]string{"services", "web", "devices"}, one(g.deviceEntry)},
		{[]string{"services", "web", "env_file"}, one(g.envFileEntry)},
	}
	k := kinds[g.r.Intn(len(kinds))]
	s := c04Split{Path: k.path, Kind: "keyed-later-wins"}
	var order []string
	final := map[string]any{}
	ranged := map[string]bool{}
	any_ := false
	for i := 0; i <= n; i++ {
		if g.chance(1, 4) {
			s.Parts = append(s.Parts, c04Absent)
			continue
		}
		any_ = true
		l := []any{}
		own := map[string]bool{}
		for c := g.r.Intn(5); c > 0; c-- {
			raws, es := k.gen()
			clash := false
			for _, e := range es {
				if own[e.key] {
					clash = true
				}
			}
			// mostly one entry per key inside a single file; a single (non-range) entry may repeat a key of its own
			// file, then the later entry of the file wins and keeps the first position
			if clash && (len(es) > 1 || ranged[es[0].key] || !g.chance(1, 2)) {
				continue
			}
			if clash {
				g.dups++
			}
			if len(es) > 1 {
				s.Kind = "keyed-later-wins+port-range"
				for _, e := range es {
					ranged[e.key] = true
				}
			}
			l = append(l, raws...)
			for _, e := range es {
				own[e.key] = true
				if _, seen := final[e.key]; !seen {
					order = append(order, e.key)
				}
				final[e.key] = c04DeepCopy(e.raw)
			}
		}
		s.Parts = append(s.Parts, l)
	}
	if !any_ {
		s.Target = c04Absent
		return s
	}
	t := []any{}
	for _, key := range order {
		t = append(t, final[key])
	}
	s.Target = t
	return s
}

// `x-` extensions are replaced as a whole by the later file (never merged key by key)
func (g *c04o) splitExtension(n int) c04Split {
	path := [][]string{{"services", "web", "x-ext"}, {"x-top"}, {"networks", "front", "x-net"}, {"services", "web", "deploy", "x-deploy"}}[g.r.Intn(4)]
	vals := []any{map[string]any{"a": 1, "l": []any{1, 2}}, map[string]any{"a": 2, "b": map[string]any{"c": "d"}}, []any{"p", "q"}, "s", 3,
		map[string]any{"b": map[string]any{"e": "f"}}, []any{"r"}}
	s := c04Split{Path: path, Kind: "extension-replace", Target: c04Absent}
	for i := 0; i <= n; i++ {
		if g.chance(1, 2) || (i == n && isAbsent(s.Target)) {
			v := c04DeepCopy(vals[g.r.Intn(len(vals))])
			s.Parts = append(s.Parts, v)
			s.Target = c04DeepCopy(v)
		} else {
			s.Parts = append(s.Parts, c04Absent)
		}
	}
	return s
}

// depends_on: list ≡ mapping with the default condition; merged per service, per field
func (g *c04o) splitDependsOn(n int) c04Split {
	s := c04Split{Path: []string{"services", "web", "depends_on"}, Kind: "depends_on"}
	final := map[string]map[string]any{}
	any_ := false
	// targeted shape (seeded change C04-1: the default mapping shared by all names of a list-spelled override):
	// a base that already has depends_on, an override adding two NEW dependencies as a list, a later override
	// changing only one of them through the mapping spelling
	pool := []string{"db", "cache", "mq"}
	g.r.Shuffle(len(pool), func(i, j int) { pool[i], pool[j] = pool[j], pool[i] })
	shape := n >= 2 && g.chance(1, 3)
	for i := 0; i <= n; i++ {
		if !shape && g.chance(1, 3) {
			s.Parts = append(s.Parts, c04Absent)
			continue
		}
		any_ = true
		names := []string{}
		for _, nm := range []string{"db", "cache", "mq"} {
			if g.chance(1, 2) {
				names = append(names, nm)
			}
		}
		asList := g.chance(1, 2)
		if shape {
			switch i {
			case 0:
				names = pool[:1]
			case 1:
				names, asList = pool[1:], true
			case 2:
				names, asList = pool[1:2], false
			default:
				s.Parts = append(s.Parts, c04Absent)
				continue
			}
		}
		if asList {
			l := []any{}
			for _, nm := range names {
				l = append(l, nm)
				if final[nm] == nil {
					final[nm] = map[string]any{}
				}
				final[nm]["condition"] = "service_started"
				final[nm]["required"] = true
			}
			s.Parts = append(s.Parts, l)
			continue
		}
		m := map[string]any{}
		for _, nm := range names {
			e := map[string]any{"condition": g.str("service_started", "service_healthy", "service_completed_successfully")}
			if g.chance(1, 2) {
				e["required"] = g.chance(1, 2)
			}
			if g.chance(1, 3) {
				e["restart"] = g.chance(1, 2)
			}
			m[nm] = e
			if final[nm] == nil {
				final[nm] = map[string]any{}
			}
			for k, v := range e {
				final[nm][k] = v
			}
		}
		s.Parts = append(s.Parts, m)
	}
	if !any_ {
		s.Target = c04Absent
		return s
	}
	t := map[string]any{}
	for k, v := range final {
		t[k] = v
	}
	s.Target = t
	return s
}

// service networks: list ≡ mapping with empty settings; merged per network, per field
func (g *c04o) splitSvcNetworks(n int) c04Split {
	s := c04Split{Path: []string{"services", "web", "networks"}, Kind: "service-networks"}
	final := map[string]map[string]any{}
	any_ := false
	for i := 0; i <= n; i++ {
		if g.chance(1, 3) {
			s.Parts = append(s.Parts, c04Absent)
			continue
		}
		any_ = true
		names := []string{}
		for _, nm := range []string{"front", "back"} {
			if g.chance(1, 2) {
				names = append(names, nm)
			}
		}
		if g.chance(1, 2) {
			l := []any{}
			for _, nm := range names {
				l = append(l, nm)
				if _, ok := final[nm]; !ok {
					final[nm] = nil
				}
			}
			s.Parts = append(s.Parts, l)
			continue
		}
		m := map[string]any{}
		for _, nm := range names {
			if g.chance(1, 3) {
				m[nm] = nil
				if _, ok := final[nm]; !ok {
					final[nm] = nil
				}
				continue
			}
			e := map[string]any{}
			if g.chance(1, 2) {
				e["ipv4_address"] = g.str("10.0.0.2", "10.0.0.3")
			}
			if g.chance(1, 2) {
				e["priority"] = g.r.Intn(3)
			}
			if g.chance(1, 3) {
				e["mac_address"] = g.str("02:42:ac:11:00:03", "02:42:ac:11:00:04")
			}
			m[nm] = e
			if final[nm] == nil {
				final[nm] = map[string]any{}
			}
			for k, v := range e {
				final[nm][k] = v
			}
		}
		s.Parts = append(s.Parts, m)
	}
	if !any_ {
		s.Target = c04Absent
		return s
	}
	t := map[string]any{}
	for k, v := range final {
		if v == nil {
			t[k] = nil
		} else {
			t[k] = v
		}
	}
	s.Target = t
	return s
}

// extra_hosts: entries are appended unless already present
func (g *c04o) splitExtraHosts(n int) c04Split {
	path := [][]string{{"services", "web", "extra_hosts"}, {"services", "web", "build", "extra_hosts"}}[g.r.Intn(2)]
	s := c04Split{Path: path, Kind: "extra-hosts"}
	ips := map[string]string{"h1": "10.0.0.1", "h2": "10.0.0.2", "h3": "10.0.0.3"}
	var order []string
	seen := map[string]bool{}
	any_ := false
	for i := 0; i <= n; i++ {
		if g.chance(1, 3) {
			s.Parts = append(s.Parts, c04Absent)
			continue
		}
		any_ = true
		var hs []string
		for _, h := range []string{"h1", "h2", "h3"} {
			if g.chance(1, 2) {
				hs = append(hs, h)
			}
		}
		for _, h := range hs {
			if !seen[h] {
				seen[h] = true
				order = append(order, h)
			}
		}
		if g.chance(1, 2) {
			l := []any{}
			for _, h := range hs {
				l = append(l, h+"="+ips[h])
			}
			s.Parts = append(s.Parts, l)
		} else {
			m := map[string]any{}
			for _, h := range hs {
				m[h] = ips[h]
			}
			s.Parts = append(s.Parts, m)
		}
	}
	if !any_ {
		s.Target = c04Absent
		return s
	}
	t := map[string]any{}
	for _, h := range order {
		t[h] = ips[h]
	}
	s.Target = t
	if path[2] == "build" {
		s.Needs = map[string]any{"build-context": true}
	}
	return s
}

// build: a string is the context of a mapping
func (g *c04o) splitBuild(n int) c04Split {
	s := c04Split{Path: []string{"services", "web", "build"}, Kind: "build-string-or-map"}
	final := map[string]any{}
	for i := 0; i <= n; i++ {
		if i > 0 && g.chance(1, 3) {
			s.Parts = append(s.Parts, c04Absent)
			continue
		}
		if g.chance(1, 2) || i == 0 && g.chance(1, 2) {
			c := g.str(".", "./dir", "./other")
			s.Parts = append(s.Parts, c)
			final["context"] = c
			continue
		}
		m := map[string]any{}
		if i == 0 || g.chance(1, 2) {
			m["context"] = g.str(".", "./dir")
		}
		if g.chance(1, 2) {
			m["dockerfile"] = g.str("Dockerfile", "D2")
		}
		if g.chance(1, 2) {
			m["target"] = g.str("prod", "dev")
		}
		for k, v := range m {
			final[k] = v
		}
		s.Parts = append(s.Parts, m)
	}
	s.Target = final
	return s
}

// logging: options merge when the driver is the same (or one side names none); another driver replaces the section
func (g *c04o) splitLogging(n int) c04Split {
	s := c04Split{Path: []string{"services", "web", "logging"}, Kind: "logging", Target: c04Absent}
	var cur map[string]any
	for i := 0; i <= n; i++ {
		if g.chance(1, 3) {
			s.Parts = append(s.Parts, c04Absent)
			continue
		}
		m := map[string]any{}
		if g.chance(2, 3) {
			m["driver"] = g.str("json-file", "syslog")
		}
		if g.chance(2, 3) {
			o := map[string]any{}
			for c := 1 + g.r.Intn(2); c > 0; c-- {
				o[g.str("max-size", "max-file", "tag")] = g.str("10m", "3", "t")
			}
			m["options"] = o
		}
		s.Parts = append(s.Parts, c04DeepCopy(m))
		if cur == nil {
			cur = m
			continue
		}
		d1, ok1 := cur["driver"]
		d2, ok2 := m["driver"]
		if ok1 && ok2 && d1 != d2 {
			cur = m
			continue
		}
		if ok2 {
			cur["driver"] = d2
		}
		if o2, ok := m["options"].(map[string]any); ok {
			o1, _ := cur["options"].(map[string]any)
			if o1 == nil {
				o1 = map[string]any{}
			}
			for k, v := range o2 {
				o1[k] = v
			}
			cur["options"] = o1
		}
	}
	if cur != nil {
		s.Target = cur
	}
	return s
}

// ulimits: per limit name, the later file's value replaces the earlier one
func (g *c04o) splitUlimits(n int) c04Split {
	s := c04Split{Path: []string{"services", "web", "ulimits"}, Kind: "ulimits", Target: c04Absent}
	final := map[string]any{}
	any_ := false
	for i := 0; i <= n; i++ {
		if g.chance(1, 3) {
			s.Parts = append(s.Parts, c04Absent)
			continue
		}
		any_ = true
		m := map[string]any{}
		for _, nm := range []string{"nofile", "nproc"} {
			if g.chance(1, 2) {
				continue
			}
			var v any
			if g.chance(1, 2) {
				v = g.pick(1024, 65535)
			} else {
				v = map[string]any{"soft": g.pick(1024, 2048), "hard": g.pick(4096, 8192)}
			}
			m[nm] = v
			final[nm] = c04DeepCopy(v)
		}
		s.Parts = append(s.Parts, m)
	}
	if any_ {
		s.Target = final
	}
	return s
}

// ipam pools: merged by subnet, new pools appended, pools the override does not mention preserved
func (g *c04o) splitIpam(n int) c04Split {
	s := c04Split{Path: []string{"networks", "front", "ipam", "config"}, Kind: "ipam-by-subnet", Target: c04Absent}
	subnets := []string{"10.0.0.0/24", "10.0.1.0/24", "10.0.2.0/24"}
	var order []string
	final := map[string]map[string]any{}
	any_ := false
	for i := 0; i <= n; i++ {
		if g.chance(1, 3) {
			s.Parts = append(s.Parts, c04Absent)
			continue
		}
		any_ = true
		l := []any{}
		own := map[string]bool{}
		for c := 1 + g.r.Intn(2); c > 0; c-- {
			sn := subnets[g.r.Intn(len(subnets))]
			if own[sn] {
				continue
			}
			own[sn] = true
			p := map[string]any{"subnet": sn}
			if g.chance(1, 2) {
				p["gateway"] = strings.Replace(sn, "0/24", g.str("1", "254"), 1)
			}
			if g.chance(1, 3) {
				p["ip_range"] = strings.Replace(sn, "0/24", "0/25", 1)
			}
			l = append(l, c04DeepCopy(p))
			if final[sn] == nil {
				final[sn] = map[string]any{}
				order = append(order, sn)
			}
			for k, v := range p {
				final[sn][k] = v
			}
		}
		s.Parts = append(s.Parts, l)
	}
	if any_ {
		t := []any{}
		for _, sn := range order {
			t = append(t, final[sn])
		}
		s.Target = t
	}
	return s
}

// !reset removes the attribute, !override replaces it without merging
func (g *c04o) splitTagged(n int) c04Split {
	var inner c04Split
	switch g.r.Intn(6) {
	case 0:
		inner = g.splitKV(n)
	case 1:
		inner = g.splitList(n, true)
	case 2:
		inner = g.splitList(n, false)
	case 3:
		inner = g.splitKeyed(n)
	case 4:
		inner = g.splitDeep(n)
	default:
		inner = g.splitScalar(n)
	}
	if len(inner.Path) > 3 && inner.Path[2] == "build" && inner.Path[len(inner.Path)-1] != "build" {
		// fine: build.<x> under an untouched build section
	}
	// pick the override that carries the tag (not the base: a tag in the first file has nothing to reset)
	i := 1 + g.r.Intn(n)
	// the base must mention the attribute for the tag to matter; make sure some earlier part does
	if isAbsent(inner.Parts[0]) {
		return inner
	}
	if inner.Kind == "map-deep" && inner.Path[2] == "build" {
		return inner // resetting a build section would leave the service without image? (it has one) – keep build out: context is required
	}
	if g.chance(1, 2) {
		// !reset: everything before is dropped; later parts start from nothing
		inner.Parts[i] = tagged("reset", nil)
		inner.Kind = "reset+" + inner.Kind
		inner.Target = c04ReplayFrom(inner, i+1, c04Absent)
	} else {
		v := inner.Parts[i]
		if isAbsent(v) {
			v = inner.Parts[0]
		}
		if s, ok := v.(string); ok {
			_ = s
		} else if _, ok := v.([]any); ok {
		} else if _, ok := v.(map[string]any); ok {
		} else {
			return inner // yaml.v3 turns a tagged non-string scalar into a string: outside the modelled fragment
		}
		inner.Parts[i] = tagged("override", c04DeepCopy(v))
		inner.Kind = "override+" + inner.Kind
		inner.Target = c04ReplayFrom(inner, i+1, c04DeepCopy(v))
	}
	return inner
}

var c04EntryPaths = [][]string{
	{"services", "web", "labels"}, {"services", "web", "annotations"}, {"services", "web", "sysctls"},
	{"services", "web", "deploy", "labels"}, {"networks", "front", "labels"}, {"volumes", "data", "labels"},
	{"networks", "front", "driver_opts"}, {"volumes", "data", "driver_opts"},
}

// a tag on ONE entry of a mapping (labels, annotations, sysctls, driver_opts: keys are reverse-DNS names as often as
// not): `!reset` removes that entry only, `!override` sets it; the entries the later file does not mention stay, and a
// part after the tagged one may define the entry again.  Expected value = the parts replayed entry by entry.
func (g *c04o) splitTaggedEntry(n int) c04Split {
	path := c04EntryPaths[g.r.Intn(len(c04EntryPaths))]
	kvAttr := path[len(path)-1] != "driver_opts" // KEY=VALUE attributes accept the list spelling too
	keys := []string{"com.example.role", "tier", "net.core.somaxconn", "a.b", "plain"}
	vals := []string{"1", "v", "x y", "frontend", "1024"}
	val := func() string { return vals[g.r.Intn(len(vals))] }
	state := map[string]string{}
	s := c04Split{Path: path, Kind: "tag-entry"}
	// base: "plain" (never tagged, so the attribute never becomes empty) and at least two other keys
	base := map[string]*string{}
	var order []string
	for _, k := range keys {
		if k == "plain" || len(order) < 2 || g.chance(2, 3) {
			v := val()
			base[k] = &v
			order = append(order, k)
			state[k] = v
		}
	}
	// The base is spelled as a mapping, and for the KEY=VALUE attributes no part between the base and the tagged one
	// mentions the attribute: mergeToSequence turns the accumulated value into a LIST of `K=V` strings at the first merge
	// (and keeps a list-spelled base a list), and ResetProcessor.Apply has no removal from sequences ("TODO(ndeloof)
	// support removal from sequence" in loader/reset.go) — an entry-level `!reset` after that is silently ignored.  That
	// limitation is recorded in design/C04.md and proved on the model (Neg/C04Whole.lean); the oracle stays inside the
	// domain in which the code has something to delete.
	{
		m := map[string]any{}
		for k, v := range base {
			m[k] = *v
		}
		s.Parts = append(s.Parts, m)
	}
	ti := 1 + g.r.Intn(n) // the part that carries the tag
	for i := 1; i <= n; i++ {
		part := map[string]any{}
		if i == ti {
			var present []string
			for _, k := range keys {
				if _, ok := state[k]; ok && k != "plain" {
					present = append(present, k)
				}
			}
			k := present[g.r.Intn(len(present))]
			if g.chance(2, 3) {
				part[k] = tagged("reset", nil)
				delete(state, k)
				s.Kind = "reset-entry"
			} else {
				v := val()
				part[k] = tagged("override", v)
				state[k] = v
				s.Kind = "override-entry"
			}
			if strings.Contains(k, ".") {
				s.DottedTag = true
			}
			if g.chance(1, 2) {
				// the same file also sets an untagged entry
				o := keys[g.r.Intn(len(keys))]
				if o != k {
					v := val()
					part[o] = v
					state[o] = v
				}
			}
		} else if (i > ti || !kvAttr) && g.chance(1, 2) {
			for _, k := range keys {
				if g.chance(1, 3) {
					v := val()
					part[k] = v
					state[k] = v
				}
			}
		}
		if len(part) == 0 {
			s.Parts = append(s.Parts, c04Absent)
		} else {
			s.Parts = append(s.Parts, part)
		}
	}
	t := map[string]any{}
	for k, v := range state {
		t[k] = v
	}
	s.Target = t
	return s
}

// c04ReplayFrom: expected value when parts[from..] are applied on `start` — only defined when no later part
// mentions the attribute (otherwise the later parts are dropped from the case).
func c04ReplayFrom(s c04Split, from int, start any) any {
	for i := from; i < len(s.Parts); i++ {
		s.Parts[i] = c04Absent
	}
	return start
}

// kinds for which a null in a later file means "nothing to apply" (the value so far is kept)
var c04NullKeeps = map[string]bool{
	"scalar-replace": true, "map-deep": true, "kv-by-key": true, "append": true, "append-with-duplicate": true,
	"keyed-later-wins": true, "keyed-later-wins+port-range": true,
}

// oneSplit: one attribute split; one time out of six a part that does not mention the attribute (after a part that
// gave it a value) mentions it as an explicit null instead — except for the wholesale attributes (see splitWholesale)
// the later file then has nothing to apply and the expected final value is the same.
func (g *c04o) oneSplit(n int) c04Split {
	s := g.oneSplit0(n)
	if !c04NullKeeps[s.Kind] || !g.chance(1, 6) {
		return s
	}
	var cand []int
	seenValue := false
	for i, p := range s.Parts {
		if isAbsent(p) {
			if seenValue && i > 0 {
				cand = append(cand, i)
			}
			continue
		}
		if _, tagged := p.(*yDoc); tagged {
			return s
		}
		seenValue = true
	}
	if len(cand) == 0 {
		return s
	}
	s.Parts[cand[g.r.Intn(len(cand))]] = nil
	s.Null = true
	return s
}

func (g *c04o) oneSplit0(n int) c04Split {
	switch k := g.r.Intn(20); {
	case k < 2:
		return g.splitScalar(n)
	case k < 4:
		return g.splitDeep(n)
	case k < 7:
		return g.splitKV(n)
	case k < 9:
		return g.splitList(n, true)
	case k < 10:
		return g.splitList(n, false)
	case k < 11:
		return g.splitWholesale(n)
	case k < 14:
		return g.splitKeyed(n)
	case k < 15:
		return g.splitDependsOn(n)
	case k < 16:
		if g.chance(1, 2) {
			return g.splitSvcNetworks(n)
		}
		return g.splitExtraHosts(n)
	case k < 17:
		switch g.r.Intn(3) {
		case 0:
			return g.splitBuild(n)
		case 1:
			return g.splitLogging(n)
		}
		return g.splitUlimits(n)
	case k < 18:
		if g.chance(1, 2) {
			return g.splitExtension(n)
		}
		return g.splitIpam(n)
	default:
		if g.chance(1, 3) {
			return g.splitTaggedEntry(n)
		}
		return g.splitTagged(n)
	}
}

func pathKey(p []string) string { return strings.Join(p, ".") }

// c04Labels recognises the input shapes of the recorded findings (see findings/C04.txt, design/C04.md)
func c04Labels(s c04Split) []string {
	var ls []string
	add := func(l string) {
		for _, x := range ls {
			if x == l {
				return
			}
		}
		ls = append(ls, l)
	}
	pk := pathKey(s.Path)
	// (a) loader.OmitEmpty turns `[]` into a nil slice, and mergeToSequence / mergeExtraHosts turn two empty
	// collections into a nil slice; the next schema validation sees `null` and rejects the model
	for _, p := range s.Parts {
		if l, ok := p.([]any); ok && len(l) == 0 {
			add("empty-collection")
		}
		if m, ok := p.(map[string]any); ok && len(m) == 0 {
			add("empty-collection")
		}
		if d, ok := p.(*yDoc); ok && ((d.Kind == "seq" && len(d.Seq) == 0) || (d.Kind == "map" && len(d.Keys) == 0)) {
			add("empty-collection")
		}
	}
	// (b) override.unique has no row for volumes.*.labels: a label repeated by a later file stays twice in the list
	if strings.HasPrefix(pk, "volumes.") && strings.HasSuffix(pk, ".labels") {
		cnt := map[string]int{}
		for _, p := range s.Parts {
			for k := range c04KVKeys(p) {
				cnt[k]++
			}
		}
		for _, n := range cnt {
			if n > 1 {
				add("volume-labels-repeat")
			}
		}
	}
	// (c) portIndexer formats `published` with %s: an integer never collides with the same port written as a string
	if strings.HasSuffix(pk, ".ports") {
		for _, p := range s.Parts {
			var l []any
			switch x := p.(type) {
			case []any:
				l = x
			case *yDoc:
				for _, e := range x.Seq {
					if e.Kind == "map" {
						for i, k := range e.Keys {
							if _, isInt := e.Vals[i].Scalar.(int); isInt && k == "published" {
								add("int-published")
							}
						}
					}
				}
			}
			for _, e := range l {
				if m, ok := e.(map[string]any); ok {
					if _, isInt := m["published"].(int); isInt {
						add("int-published")
					}
				}
			}
		}
	}
	// (d) mergeIPAMConfig loses pools unless the base has at most one pool and the override names its subnet
	if strings.HasSuffix(pk, "ipam.config") {
		cur := map[string]bool{}
		for _, p := range s.Parts {
			l, ok := p.([]any)
			if !ok {
				continue
			}
			mentioned := map[string]bool{}
			for _, e := range l {
				if m, ok := e.(map[string]any); ok {
					mentioned[fmt.Sprint(m["subnet"])] = true
				}
			}
			if len(cur) >= 2 {
				add("ipam-lossy")
			}
			for sn := range cur {
				if !mentioned[sn] {
					add("ipam-lossy")
				}
			}
			for sn := range mentioned {
				cur[sn] = true
			}
		}
	}
	sort.Strings(ls)
	return ls
}

func c04KVKeys(p any) map[string]bool {
	out := map[string]bool{}
	switch x := p.(type) {
	case []any:
		for _, e := range x {
			if s, ok := e.(string); ok {
				k, _, _ := strings.Cut(s, "=")
				out[k] = true
			}
		}
	case map[string]any:
		for k := range x {
			out[k] = true
		}
	case *yDoc:
		for _, k := range x.Keys {
			out[k] = true
		}
		for _, e := range x.Seq {
			if s, ok := e.Scalar.(string); ok {
				k, _, _ := strings.Cut(s, "=")
				out[k] = true
			}
		}
	}
	return out
}

// build one oracle case out of 1..k attribute splits sharing the number of overrides
func (g *c04o) splitCase(k int) (c04SplitCase, []c04Split) {
	n := g.n()
	var splits []c04Split
	used := map[string]bool{}
	for len(splits) < k {
		s := g.oneSplit(n)
		// two splits must not touch the same attribute (or an attribute and its container)
		clash := false
		for u := range used {
			a, b := u+".", pathKey(s.Path)+"."
			if strings.HasPrefix(a, b) || strings.HasPrefix(b, a) {
				clash = true
			}
		}
		if clash {
			continue
		}
		used[pathKey(s.Path)] = true
		splits = append(splits, s)
	}
	docs := make([]map[string]any, n+1)
	for i := range docs {
		docs[i] = map[string]any{}
	}
	docs[0] = c04Context()
	target := c04Context()
	// frame: attributes only the base mentions must come out unchanged
	frame := map[string]any{"hostname": "frame-host", "labels": map[string]any{"frame": "kept"}, "dns": []any{"9.9.9.9"}}
	for k, v := range frame {
		if !used["services.web."+k] {
			c04SetPath(docs[0], []string{"services", "db", k}, c04DeepCopy(v))
			c04SetPath(target, []string{"services", "db", k}, c04DeepCopy(v))
		}
	}
	var attrs []string
	var infos []c04SplitInfo
	for _, s := range splits {
		an := pathKey(s.Path)
		if len(s.Path) > 2 {
			an = strings.Join(s.Path[2:], ".")
		}
		attrs = append(attrs, an+"["+s.Kind+"]")
		infos = append(infos, c04SplitInfo{Path: pathKey(s.Path), Kind: s.Kind, Labels: c04Labels(s)})
		if s.Needs["build-context"] != nil && !used["services.web.build"] {
			c04SetPath(docs[0], []string{"services", "web", "build", "context"}, ".")
			c04SetPath(target, []string{"services", "web", "build", "context"}, ".")
		}
		for i, p := range s.Parts {
			if !isAbsent(p) {
				c04SetPath(docs[i], s.Path, p)
			}
		}
		if !isAbsent(s.Target) {
			c04SetPath(target, s.Path, s.Target)
		} else if c04Mentioned(s) {
			// the attribute ends up removed / never set, but the mappings around it were mentioned and stay
			c04SetPath(target, s.Path, nil)
			c04DelPath(target, s.Path)
		}
	}
	c := c04SplitCase{Attrs: attrs, Splits: infos, MultiDoc: g.chance(1, 3)}
	if g.chance(1, 15) {
		// a user-chosen NAME that happens to start with "x-": names are not extensions
		c.XNamed = true
		rename := func(d map[string]any) {
			if svcs, ok := d["services"].(map[string]any); ok {
				if w, ok := svcs["web"]; ok {
					delete(svcs, "web")
					svcs["x-web"] = w
				}
			}
		}
		for _, d := range docs {
			rename(d)
		}
		rename(target)
		for i := range c.Splits {
			if strings.HasPrefix(c.Splits[i].Path, "services.web") {
				c.Splits[i].Path = "services.x-web" + strings.TrimPrefix(c.Splits[i].Path, "services.web")
			}
		}
	}
	if !c.XNamed && g.chance(1, 10) {
		// a user-chosen NAME that contains the path separator: `web.v1`
		c.DotNamed = true
		rename := func(d map[string]any) {
			if svcs, ok := d["services"].(map[string]any); ok {
				if w, ok := svcs["web"]; ok {
					delete(svcs, "web")
					svcs["web.v1"] = w
				}
			}
		}
		for _, d := range docs {
			rename(d)
		}
		rename(target)
	}
	for _, d := range docs {
		c.Docs = append(c.Docs, yDocOf(d).yaml())
	}
	c.Target = yDocOf(target).yaml()
	return c, splits
}

// anyTagged: does some part of the split carry a `!reset` / `!override` tag (at the attribute or on an entry)?
func anyTagged(s c04Split) (string, bool) {
	for _, p := range s.Parts {
		if d, ok := p.(*yDoc); ok && d.Tag != "" {
			return d.Tag, true
		}
		if m, ok := p.(map[string]any); ok {
			for _, e := range m {
				if d, ok := e.(*yDoc); ok && d.Tag != "" {
					return d.Tag, true
				}
			}
		}
	}
	return "", false
}

func runC04Oracle(ctx *core.Ctx, gg *c04g) {
	g := &c04o{c04g: gg}
	for i := 0; i < ctx.Pick(2000, 50000); i++ {
		k := 1
		if i%10 >= 7 {
			k = 2 + ctx.Rng.Intn(3)
		}
		d0 := g.dups
		c, splits := g.splitCase(k)
		if g.dups > d0 {
			ctx.Count("split-with-in-file-duplicate")
		}
		for _, s := range splits {
			ctx.Count("split:" + s.Kind)
			if s.Null {
				ctx.Count("split-null-mention:" + s.Kind)
			}
			if s.DottedTag {
				ctx.Count("split-tag-under-dotted-key")
			}
			if c.DotNamed && len(s.Path) > 1 && s.Path[0] == "services" && s.Path[1] == "web" {
				if d, ok := anyTagged(s); ok {
					ctx.Count("split-tag-under-dotted-service-name:" + d)
				}
			}
		}
		if c.XNamed {
			ctx.Count("split-x-named-service")
		}
		if c.DotNamed {
			ctx.Count("split-dot-named-service")
		}
		if c.MultiDoc {
			ctx.Count("split-as-documents")
		} else {
			ctx.Count("split-as-files")
		}
		ctx.Add("c04.split", c)
	}
}
