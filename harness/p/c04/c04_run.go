package c04

import (
	"os"
	"strings"

	"verifharness/core"
)

// every pattern of override.mergeSpecials and override.unique (rule tables), plus paths that take the default rules
var c04Patterns = []string{
	"networks.*.ipam.config", "networks.*.labels", "volumes.*.labels", "services.*.annotations", "services.*.build",
	"services.*.build.args", "services.*.build.additional_contexts", "services.*.build.extra_hosts", "services.*.build.labels",
	"services.*.command", "services.*.depends_on", "services.*.deploy.labels", "services.*.dns", "services.*.dns_opt",
	"services.*.dns_search", "services.*.entrypoint", "services.*.env_file", "services.*.label_file", "services.*.environment",
	"services.*.extra_hosts", "services.*.healthcheck.test", "services.*.labels", "services.*.logging", "services.*.networks",
	"services.*.sysctls", "services.*.tmpfs", "services.*.ulimits.*",
	"networks.*.ipam.options", "services.*.build.platform", "services.*.build.tags", "services.*.cap_add", "services.*.cap_drop",
	"services.*.devices", "services.*.configs", "services.*.expose", "services.*.links", "services.*.networks.*.aliases",
	"services.*.networks.*.link_local_ips", "services.*.ports", "services.*.profiles", "services.*.secrets", "services.*.volumes",
	// default rules
	"services.*.image", "services.*.security_opt", "services.*.healthcheck", "services.*.x-ext", "services.*.deploy.resources.limits",
	"volumes.*.driver_opts", "secrets.*", "x-top", "services.*", "services",
}

// nest builds {k1: {k2: … v}} for a pattern, "*" replaced by a concrete key
func c04Nest(pattern string, star string, v any) map[string]any {
	parts := strings.Split(pattern, ".")
	var cur any = v
	for i := len(parts) - 1; i >= 0; i-- {
		k := parts[i]
		if k == "*" {
			k = star
		}
		cur = map[string]any{k: cur}
	}
	return cur.(map[string]any)
}

func c04Wire(v any) any { return core.EncodeVal(v) }

func c04Merge(base any, overs []any, unicity, extend bool) map[string]any {
	ol := make([]any, len(overs))
	for i, o := range overs {
		ol[i] = c04Wire(o)
	}
	return map[string]any{"base": c04Wire(base), "overs": ol, "unicity": unicity, "extend": extend}
}

func runC04(ctx *core.Ctx) {
	g := &c04g{r: ctx.Rng}
	if os.Getenv("C04_STREAM") == "oracle" { // development aid: only the direct oracle
		runC04Oracle(ctx, g)
		return
	}
	if os.Getenv("C04_STREAM") == "loop" { // development aid: only the unicity-loop stream
		runC04Loop(ctx, g)
		return
	}

	// ---- 1. tree.Path: exhaustive key sequences × patterns
	pkeys := []string{"a", "a.b", "*", "", "services", "👻", "a👻b", "x.y.z", "[0]", "labels"}
	ppats := []string{"services.*.labels", "*", "a.*", "services.*", "", "a.b", "*.*.*", "a.b.*", "a👻b.*", "services.a👻b.labels", "*.[0]"}
	var seqs [][]string
	var rec func(cur []string, n int)
	rec = func(cur []string, n int) {
		seqs = append(seqs, append([]string(nil), cur...))
		if n == 0 {
			return
		}
		for _, k := range pkeys {
			rec(append(cur, k), n-1)
		}
	}
	rec(nil, 3)
	for _, s := range seqs {
		for _, p := range ppats {
			ctx.Count("path-exhaustive")
			ctx.Add("c04.pathNext", map[string]any{"keys": s, "pattern": p})
		}
	}

	// ---- 2. format.ParseVolume target: exhaustive short specs
	valpha := []string{"a", ":", "/", "c", ".", "é", "\x00", "1"}
	var vrec func(prefix string, n int)
	vrec = func(prefix string, n int) {
		ctx.Count("volume-spec-exhaustive")
		ctx.Add("c04.parseVolume", map[string]any{"spec": prefix})
		if n == 0 {
			return
		}
		for _, a := range valpha {
			vrec(prefix+a, n-1)
		}
	}
	vrec("", ctx.Pick(4, 5))
	for _, s := range c04VolSpecs {
		ctx.Count("volume-spec-listed")
		ctx.Add("c04.parseVolume", map[string]any{"spec": s})
	}

	// ---- 3. every rule-table path × node kind of the base × node kind of the override (malformed stream, exhaustive over kinds)
	for _, pat := range c04Patterns {
		for _, kb := range core.Kinds {
			for _, ko := range core.Kinds {
				for _, uni := range []bool{false, true} {
					b := c04Nest(pat, "a", core.KindValue(kb, ctx.Rng))
					o := c04Nest(pat, "a", core.KindValue(ko, ctx.Rng))
					ctx.Count("merge-kinds:" + pat)
					ctx.Add("c04.mergeSeq", c04Merge(b, []any{o}, uni, false))
				}
			}
		}
		// the override does not mention the attribute / mentions only a sibling
		b := c04Nest(pat, "a", core.KindValue("map", ctx.Rng))
		ctx.Add("c04.mergeSeq", c04Merge(b, []any{map[string]any{}}, true, false))
		ctx.Add("c04.mergeSeq", c04Merge(b, []any{c04Nest(pat, "b", "v")}, true, false))
	}
	// ExtendService: service-level attributes × kinds
	for _, pat := range c04Patterns {
		if !strings.HasPrefix(pat, "services.*.") {
			continue
		}
		rel := strings.TrimPrefix(pat, "services.*.")
		for _, kb := range core.Kinds {
			for _, ko := range core.Kinds {
				ctx.Count("extend-kinds")
				ctx.Add("c04.mergeSeq", c04Merge(c04Nest(rel, "n", core.KindValue(kb, ctx.Rng)), []any{c04Nest(rel, "n", core.KindValue(ko, ctx.Rng))}, false, true))
			}
		}
	}
	ctx.Res.Exhaustive = true

	// ---- 4. attribute-aware values: every attribute generator against itself (all spellings meet), 1..3 overrides
	nAttr := ctx.Pick(120, 2500)
	for _, a := range c04SvcAttrs {
		for i := 0; i < nAttr; i++ {
			n := 1 + ctx.Rng.Intn(3)
			if i%3 != 0 {
				n = 1
			}
			overs := make([]any, n)
			for j := range overs {
				overs[j] = map[string]any{"services": map[string]any{"web": map[string]any{a: g.svcAttr(a)}}}
			}
			base := map[string]any{"services": map[string]any{"web": map[string]any{a: g.svcAttr(a)}}}
			ctx.Count("merge-attr:" + a)
			ctx.Add("c04.mergeSeq", c04Merge(base, overs, i%4 != 0, false))
		}
	}
	for i := 0; i < ctx.Pick(1500, 40000); i++ {
		overs := make([]any, 1+ctx.Rng.Intn(2))
		for j := range overs {
			overs[j] = map[string]any{"networks": map[string]any{"front": g.network()}}
		}
		ctx.Count("merge-attr:network")
		ctx.Add("c04.mergeSeq", c04Merge(map[string]any{"networks": map[string]any{"front": g.network()}}, overs, true, false))
	}

	// ---- 5. whole documents (mostly valid) + a malformed stream (one position replaced by a random node kind)
	for i := 0; i < ctx.Pick(6000, 150000); i++ {
		base := g.document()
		overs := make([]any, 1+ctx.Rng.Intn(3))
		for j := range overs {
			overs[j] = g.document()
		}
		kind := "merge-documents"
		if i%4 == 0 {
			kind = "merge-documents-malformed"
			if g.chance(1, 3) {
				if m, ok := g.mutateKind(base, 0).(map[string]any); ok {
					base = m
				}
			} else {
				j := ctx.Rng.Intn(len(overs))
				if m, ok := g.mutateKind(overs[j], 0).(map[string]any); ok {
					overs[j] = m
				}
			}
		}
		ctx.Count(kind)
		ctx.Add("c04.mergeSeq", c04Merge(base, overs, i%5 != 0, false))
	}
	for i := 0; i < ctx.Pick(2000, 50000); i++ {
		ctx.Count("extend-services")
		ctx.Add("c04.mergeSeq", c04Merge(g.service(), []any{g.service()}, false, true))
	}

	// ---- 6. random untyped trees over the rule-table key alphabet
	for i := 0; i < ctx.Pick(6000, 200000); i++ {
		b, ok1 := g.tree(4).(map[string]any)
		o, ok2 := g.tree(4).(map[string]any)
		if !ok1 || !ok2 {
			continue
		}
		ctx.Count("merge-random-trees")
		ctx.Add("c04.mergeSeq", c04Merge(b, []any{o}, i%2 == 0, false))
	}

	// ---- 7. EnforceUnicity alone
	for i := 0; i < ctx.Pick(3000, 80000); i++ {
		var v any
		switch i % 3 {
		case 0:
			v = g.document()
		case 1:
			v = g.mutateKind(g.document(), 0)
		default:
			v = g.tree(4)
		}
		if _, ok := v.(map[string]any); !ok {
			continue
		}
		ctx.Count("unicity")
		ctx.Add("c04.unicity", map[string]any{"v": c04Wire(v)})
	}

	// ---- 8. !reset / !override: decode + recorded paths, and the per-document step
	for i := 0; i < ctx.Pick(3000, 80000); i++ {
		d := g.tagDoc(yDocOf(g.document()), 0, false)
		ctx.Count("reset-decode")
		ctx.Add("c04.reset", map[string]any{"doc": d.wire()})
	}
	for i := 0; i < ctx.Pick(4000, 100000); i++ {
		base := g.document()
		n := 1 + ctx.Rng.Intn(3)
		docs := make([]any, n)
		for j := range docs {
			docs[j] = g.tagDoc(yDocOf(g.document()), 0, false).wire()
		}
		ctx.Count("docs-stream")
		ctx.Add("c04.docs", map[string]any{"base": c04Wire(base), "docs": docs})
	}

	// ---- 8b. ResetProcessor.Apply on arbitrary recorded-path lists (wildcards, sequence positions, any order)
	runC04Apply(ctx, g)

	// ---- 9. the seq / keys loop of enforceUnicity as written: keyed lists repeating keys in every order
	runC04Loop(ctx, g)

	// ---- 10. direct oracle: split a target document into base + overrides and load both with the real loader
	runC04Oracle(ctx, g)
}

// tagDoc sprinkles !reset / !override tags over a document (never on the root, never inside an !override node;
// !override only on strings and collections: yaml.v3 decodes any other scalar carrying a custom tag as a string).
func (g *c04g) tagDoc(d *yDoc, depth int, inSeq bool) *yDoc {
	if depth > 0 && g.chance(1, 9) {
		c := *d
		if g.chance(1, 2) {
			c.Tag = "reset"
			return &c
		}
		isStr := false
		if d.Kind == "scalar" {
			_, isStr = d.Scalar.(string)
		}
		if d.Kind != "scalar" || isStr {
			c.Tag = "override"
			return &c
		}
	}
	switch d.Kind {
	case "seq":
		c := &yDoc{Kind: "seq"}
		for _, x := range d.Seq {
			c.Seq = append(c.Seq, g.tagDoc(x, depth+1, true))
		}
		return c
	case "map":
		c := &yDoc{Kind: "map", Keys: d.Keys}
		for _, x := range d.Vals {
			c.Vals = append(c.Vals, g.tagDoc(x, depth+1, false))
		}
		return c
	}
	return d
}
