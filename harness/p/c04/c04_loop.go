package c04

// c04.unicityLoop — the seq / keys loop of override.enforceUnicity, as it is written.
//
// Real:   override.EnforceUnicity on a document whose keyed lists repeat keys in every order (so that a key makes its
//         first appearance after another key's duplicate was collapsed, is repeated again, …).
// Model:  Unicity.enforceTopL .outLen — the loop with its two variables (output slice, key ↦ position in the output)
//         and an index expression that can go out of range (Model/UnicityLoop.lean; refinement to `dedup` proved in
//         Props/C04Loop.lean).
// Judge:  besides model = real, the property's clause is decided directly on the real result with a specification
//         written independently in Go (c04LastWins): one entry per key, the entry is the LAST one carrying the key, at
//         the position of the key's FIRST appearance.  A panic or any other result is a failure of the property
//         (`unicity:<path pattern>`), with the document as the failing input.

import (
	"encoding/json"
	"fmt"
	"sort"
	"strconv"
	"strings"

	"github.com/compose-spec/compose-go/v2/override"

	"verifharness/core"
)

// one keyed list of the stream: where it lives and how an entry for (key, version) is spelled
type c04LoopAttr struct {
	path  []string
	entry func(key, ver int) any
	key   func(e any) string // the property's key of an entry (independent re-statement, not the Go indexer)
}

func kvCutKey(e any) string {
	s, _ := e.(string)
	k, _, _ := strings.Cut(s, "=")
	return k
}

var c04LoopKeys = []string{"A", "B", "C", "D"}

var c04LoopAttrs = []c04LoopAttr{
	{[]string{"services", "web", "environment"}, func(k, v int) any { return c04LoopKeys[k] + "=" + strconv.Itoa(v) }, kvCutKey},
	{[]string{"services", "web", "labels"}, func(k, v int) any { return c04LoopKeys[k] + "=" + strconv.Itoa(v) }, kvCutKey},
	{[]string{"services", "web", "build", "args"}, func(k, v int) any {
		if v%3 == 0 {
			return c04LoopKeys[k] // bare key
		}
		return c04LoopKeys[k] + "=" + strconv.Itoa(v)
	}, kvCutKey},
	{[]string{"networks", "front", "labels"}, func(k, v int) any { return c04LoopKeys[k] + "=" + strconv.Itoa(v) }, kvCutKey},
	{[]string{"volumes", "data", "labels"}, func(k, v int) any { return c04LoopKeys[k] + "=" + strconv.Itoa(v) }, kvCutKey},
	// whole-string keys: every repeat is the identical entry
	{[]string{"services", "web", "dns"}, func(k, _ int) any { return "10.0.0." + strconv.Itoa(k) }, kvCutKey},
	{[]string{"services", "web", "cap_add"}, func(k, _ int) any { return c04LoopKeys[k] }, kvCutKey},
	// ports keyed by host:published:target/protocol; the version only changes a field outside the key
	{[]string{"services", "web", "ports"}, func(k, v int) any {
		return map[string]any{"target": 80 + k, "published": strconv.Itoa(8080 + k), "mode": []string{"host", "ingress"}[v%2], "name": "v" + strconv.Itoa(v)}
	}, func(e any) string {
		m, _ := e.(map[string]any)
		return fmt.Sprintf("0.0.0.0:%v:%v/tcp", m["published"], m["target"])
	}},
	// volumes / secrets keyed by target
	{[]string{"services", "web", "volumes"}, func(k, v int) any {
		return map[string]any{"type": "volume", "source": "src" + strconv.Itoa(v), "target": "/t" + strconv.Itoa(k)}
	}, func(e any) string { m, _ := e.(map[string]any); return fmt.Sprint(m["target"]) }},
	{[]string{"services", "web", "secrets"}, func(k, v int) any {
		return map[string]any{"source": "s" + strconv.Itoa(v), "target": "/run/secrets/t" + strconv.Itoa(k)}
	}, func(e any) string { m, _ := e.(map[string]any); return fmt.Sprint(m["target"]) }},
}

// c04LastWins: the property's clause for one keyed list, stated on its own: one entry per key, in the order of the
// keys' first appearance; the entry kept is the last one carrying the key.
func c04LastWins(l []any, key func(any) string) []any {
	last := map[string]any{}
	var order []string
	for _, e := range l {
		k := key(e)
		if _, seen := last[k]; !seen {
			order = append(order, k)
		}
		last[k] = e
	}
	out := []any{}
	for _, k := range order {
		out = append(out, last[k])
	}
	return out
}

// c04LoopShape classifies a key sequence by what the loop has to do on it
func c04LoopShape(ks []int) string {
	seen := map[int]bool{}
	collapsed := false           // some duplicate has been folded into an earlier position already
	firstAfter := map[int]bool{} // keys first seen after a collapse
	shape := "no-repeat"
	for _, k := range ks {
		if seen[k] {
			if firstAfter[k] {
				return "repeat-of-key-first-seen-after-collapse"
			}
			collapsed = true
			shape = "repeat"
			continue
		}
		seen[k] = true
		if collapsed {
			firstAfter[k] = true
		}
	}
	return shape
}

type c04LoopArgs struct {
	V     json.RawMessage `json:"v"`
	Lists [][]string      `json:"lists"` // paths of the keyed lists in the document
}

func c04GetPath(v any, path []string) any {
	for _, k := range path {
		m, ok := v.(map[string]any)
		if !ok {
			return nil
		}
		v = m[k]
	}
	return v
}

func c04LoopAttrOf(path []string) *c04LoopAttr {
	for i := range c04LoopAttrs {
		if strings.Join(c04LoopAttrs[i].path, ".") == strings.Join(path, ".") {
			return &c04LoopAttrs[i]
		}
	}
	return nil
}

func c04StarPath(path []string) string {
	p := append([]string(nil), path...)
	if len(p) > 1 {
		p[1] = "*"
	}
	return strings.Join(p, ".")
}

func init() {
	core.Register("c04.unicityLoop", &core.CheckDef{
		Real: func(raw json.RawMessage) any {
			var a c04LoopArgs
			json.Unmarshal(raw, &a)
			m, ok := asMap(core.DecodeValRaw(a.V))
			if !ok {
				return map[string]any{"err": "top-level"}
			}
			u, err := override.EnforceUnicity(m)
			if err != nil {
				return map[string]any{"err": c04ErrClass(err)}
			}
			return map[string]any{"ok": core.EncodeVal(u)}
		},
		DriverOp: "c04.unicityLoop",
		Judge: func(args, real, drv json.RawMessage) *core.Verdict {
			var a c04LoopArgs
			json.Unmarshal(args, &a)
			in := core.DecodeValRaw(a.V)
			// 1. the property, decided on the real result
			if v := core.CrashVerdict(real); v != nil {
				return v
			}
			var r struct {
				Ok  json.RawMessage `json:"ok"`
				Err *string         `json:"err"`
			}
			json.Unmarshal(real, &r)
			if r.Ok != nil {
				out := core.DecodeValRaw(r.Ok)
				for _, path := range a.Lists {
					at := c04LoopAttrOf(path)
					l, isList := c04GetPath(in, path).([]any)
					if at == nil || !isList {
						continue
					}
					want, _ := json.Marshal(core.EncodeVal(c04LastWins(l, at.key)))
					got, _ := json.Marshal(core.EncodeVal(c04GetPath(out, path)))
					if !core.CanonEqual(want, got) {
						return core.Fail("unicity:"+c04StarPath(path), fmt.Sprintf("keyed list %s: one entry per key with the later one winning (at the key's first position) is %s, EnforceUnicity gives %s",
							strings.Join(path, "."), c04Short(c04LastWins(l, at.key)), c04Short(c04GetPath(out, path))))
					}
				}
			} else if r.Err != nil {
				return core.Fail("unicity-error:"+*r.Err, "EnforceUnicity rejects a document whose keyed lists are well-formed: "+*r.Err)
			}
			// 2. the tie: the loop as written (model) = the real function
			return c04Judge("unicity loop")(args, real, drv)
		},
	})
}

// runC04Loop: exhaustive key sequences up to length 5 over 3 keys for one attribute per sequence, then random longer
// sequences over 4 keys with 1–3 keyed lists per document
func runC04Loop(ctx *core.Ctx, g *c04g) {
	mk := func(at c04LoopAttr, ks []int) []any {
		l := []any{}
		for i, k := range ks {
			l = append(l, at.entry(k, i+1))
		}
		return l
	}
	emit := func(doc map[string]any, lists [][]string, shapes []string) {
		sort.Strings(shapes)
		for _, s := range shapes {
			ctx.Count("unicity-loop:" + s)
		}
		ctx.Add("c04.unicityLoop", map[string]any{"v": c04Wire(doc), "lists": lists})
	}
	var seqs [][]int
	var rec func(cur []int, n int)
	rec = func(cur []int, n int) {
		seqs = append(seqs, append([]int(nil), cur...))
		if n == 0 {
			return
		}
		for k := 0; k < 3; k++ {
			rec(append(cur, k), n-1)
		}
	}
	rec(nil, ctx.Pick(5, 7))
	for i, ks := range seqs {
		at := c04LoopAttrs[i%len(c04LoopAttrs)]
		doc := map[string]any{}
		c04SetPath(doc, at.path, mk(at, ks))
		emit(doc, [][]string{at.path}, []string{c04LoopShape(ks)})
	}
	for i := 0; i < ctx.Pick(1500, 40000); i++ {
		doc := map[string]any{}
		var lists [][]string
		var shapes []string
		used := map[string]bool{}
		for n := 1 + g.r.Intn(3); n > 0; n-- {
			at := c04LoopAttrs[g.r.Intn(len(c04LoopAttrs))]
			if used[strings.Join(at.path, ".")] {
				continue
			}
			used[strings.Join(at.path, ".")] = true
			ks := make([]int, g.r.Intn(10))
			for j := range ks {
				ks[j] = g.r.Intn(len(c04LoopKeys))
			}
			c04SetPath(doc, at.path, mk(at, ks))
			lists = append(lists, at.path)
			shapes = append(shapes, c04LoopShape(ks))
		}
		emit(doc, lists, shapes)
	}
}
