package c19

// C19 — the mutex-guarded package-level state of the loader (`versionWarning`, `versionWarningMu`).
//
// check "warnLock": 2..16 goroutines call the real critical section `(*Options).warnObsoleteVersion` (through the
// verif hook loader.VerifWarnObsoleteVersion) free-running behind a start barrier, each for its own list of files;
// the lists overlap, so the `Contains` test and the append of different goroutines meet on the same entries.
// The Lean model (Model/Locked.lean, op `locked.warn`) runs the same programs under a pseudo-random interleaving of
// its four primitive steps lock / read / write / unlock.
//   tie:     the multiset of files recorded and the set of files warned about are equal on both sides
//            (by `version_warning_no_lost_append` / `version_warning_logged_once` they do not depend on the schedule);
//   oracle:  (independent of the model) every call's append is present — no lost update; each goroutine's files appear
//            in its program order; every distinct file is warned about exactly once.
// Keys: `lost-update@loader.warnObsoleteVersion`, `order@loader.warnObsoleteVersion`,
//       `duplicate-warning@loader.warnObsoleteVersion`, `missing-warning@loader.warnObsoleteVersion`.

import (
	"encoding/json"
	"fmt"
	"io"
	"runtime"
	"sort"
	"strings"
	"sync"
	"time"

	"github.com/sirupsen/logrus"

	"github.com/compose-spec/compose-go/v2/loader"

	"verifharness/core"
)

type warnArgs struct {
	Files [][]string `json:"files"` // per goroutine
	Seed  int64      `json:"seed"`
	Tag   string     `json:"tag"`   // makes the file names of this case unique in the process-wide list
	Yield int        `json:"yield"` // every Yield-th call is preceded by runtime.Gosched() (0 = never)
}

type warnReal struct {
	W      []string `json:"w"`      // what this case appended to versionWarning, in order, tag removed
	Logged []string `json:"logged"` // files a warning was logged for, in order, tag removed
	Calls  int      `json:"calls"`
}

type warnHook struct {
	mu   sync.Mutex
	tag  string
	seen []string
}

func (h *warnHook) Levels() []logrus.Level { return []logrus.Level{logrus.WarnLevel} }
func (h *warnHook) Fire(e *logrus.Entry) error {
	const marker = ": the attribute `version` is obsolete"
	i := strings.Index(e.Message, marker)
	if i < 0 || !strings.HasPrefix(e.Message, h.tag) {
		return nil
	}
	h.mu.Lock()
	h.seen = append(h.seen, strings.TrimPrefix(e.Message[:i], h.tag))
	h.mu.Unlock()
	return nil
}

var warnSerial sync.Mutex // one case at a time in this process: the hook list of logrus is global
var warnExec int         // executions in this process: a case that is run again must not meet its own earlier entries

func runWarn(a warnArgs) warnReal {
	warnSerial.Lock()
	defer warnSerial.Unlock()
	logrus.SetOutput(io.Discard)
	warnExec++
	a.Tag = fmt.Sprintf("%sx%d/", a.Tag, warnExec)
	hook := &warnHook{tag: a.Tag}
	old := logrus.StandardLogger().ReplaceHooks(logrus.LevelHooks{})
	logrus.AddHook(hook)
	defer logrus.StandardLogger().ReplaceHooks(old)

	start := make(chan struct{})
	var wg sync.WaitGroup
	calls := 0
	for g, fs := range a.Files {
		calls += len(fs)
		wg.Add(1)
		go func(g int, fs []string) {
			defer wg.Done()
			<-start
			for i, f := range fs {
				if a.Yield > 0 && (i+g)%a.Yield == 0 {
					runtime.Gosched()
				}
				loader.VerifWarnObsoleteVersion(a.Tag + f)
			}
		}(g, fs)
	}
	close(start)
	wg.Wait()
	out := warnReal{W: []string{}, Logged: []string{}, Calls: calls}
	for _, f := range loader.VerifVersionWarnings() {
		if strings.HasPrefix(f, a.Tag) {
			out.W = append(out.W, strings.TrimPrefix(f, a.Tag))
		}
	}
	hook.mu.Lock()
	out.Logged = append(out.Logged, hook.seen...)
	hook.mu.Unlock()
	return out
}

func sortedCopy(l []string) []string {
	c := append([]string{}, l...)
	sort.Strings(c)
	return c
}

func judgeWarn(rawArgs, rawReal, rawDrv json.RawMessage) *core.Verdict {
	if v := core.CrashVerdict(rawReal); v != nil {
		return v
	}
	var a warnArgs
	var r warnReal
	json.Unmarshal(rawArgs, &a)
	if err := json.Unmarshal(rawReal, &r); err != nil {
		return core.Disagree("warnLock: unreadable real outcome: " + string(rawReal))
	}
	// ---- oracle on the real code
	var all []string
	for _, fs := range a.Files {
		all = append(all, fs...)
	}
	if len(r.W) != len(all) || fmt.Sprint(sortedCopy(r.W)) != fmt.Sprint(sortedCopy(all)) {
		return core.Fail("lost-update@loader.warnObsoleteVersion",
			fmt.Sprintf("%d goroutines made %d calls of warnObsoleteVersion; versionWarning holds %d of them: %v (expected a permutation of %v)", len(a.Files), len(all), len(r.W), r.W, all))
	}
	// program order of every goroutine: its files are a subsequence … decidable because a file names its goroutines only
	// up to overlap, so check the weaker necessary condition per goroutine with a greedy scan over a private copy
	for g, fs := range a.Files {
		k := 0
		for _, f := range r.W {
			if k < len(fs) && f == fs[k] {
				k++
			}
		}
		if k != len(fs) {
			return core.Fail("order@loader.warnObsoleteVersion", fmt.Sprintf("the files of goroutine %d (%v) are not a subsequence of versionWarning %v", g, fs, r.W))
		}
	}
	seen := map[string]int{}
	for _, f := range r.Logged {
		seen[f]++
	}
	distinct := map[string]bool{}
	for _, f := range all {
		distinct[f] = true
	}
	for f := range distinct {
		if seen[f] > 1 {
			return core.Fail("duplicate-warning@loader.warnObsoleteVersion", fmt.Sprintf("the obsolete-version warning for %q was logged %d times by %d concurrent loads (once per process is the contract of versionWarning)", f, seen[f], len(a.Files)))
		}
		if seen[f] == 0 {
			return core.Fail("missing-warning@loader.warnObsoleteVersion", fmt.Sprintf("no warning was logged for %q (logged: %v)", f, r.Logged))
		}
	}
	// ---- tie to the model
	var d struct {
		W         []string `json:"w"`
		Logged    []string `json:"logged"`
		Hist      []int    `json:"hist"`
		Quiescent bool     `json:"quiescent"`
	}
	if err := json.Unmarshal(rawDrv, &d); err != nil {
		return core.Disagree("warnLock: unreadable driver outcome: " + string(rawDrv))
	}
	if !d.Quiescent || len(d.Hist) != len(all) {
		return core.Disagree(fmt.Sprintf("warnLock: the model's run stopped before every section ran (hist %v, %d calls)", d.Hist, len(all)))
	}
	if fmt.Sprint(sortedCopy(d.W)) != fmt.Sprint(sortedCopy(r.W)) {
		return core.Disagree(fmt.Sprintf("warnLock: versionWarning as a multiset: model %v, real %v", d.W, r.W))
	}
	if fmt.Sprint(sortedCopy(d.Logged)) != fmt.Sprint(sortedCopy(r.Logged)) {
		return core.Disagree(fmt.Sprintf("warnLock: warned files: model %v, real %v", d.Logged, r.Logged))
	}
	return nil
}

var warnCaseNo int

func runC19Lock(ctx *core.Ctx) {
	add := func(files [][]string, yield int) {
		warnCaseNo++
		total := 0
		for _, fs := range files {
			total += len(fs)
		}
		b := total
		if b > 24 {
			b = 24
		}
		ctx.Count(fmt.Sprintf("warnLock:goroutines=%d", len(files)))
		ctx.Count(fmt.Sprintf("warnLock:calls<=%d", (b+7)/8*8))
		ctx.Add("warnLock", warnArgs{Files: files, Seed: ctx.Rng.Int63n(1 << 30), Tag: fmt.Sprintf("c%d-%d/", ctx.Rng.Int63n(1<<40), warnCaseNo), Yield: yield})
	}
	// every goroutine count 2..16, all on ONE file (the `Contains` test of each meets the append of every other)
	for n := 2; n <= 16; n++ {
		files := make([][]string, n)
		for g := range files {
			files[g] = []string{"compose.yaml"}
		}
		ctx.Count("warnLock:shape:one-file")
		add(files, 0)
	}
	k := ctx.Pick(240, 4000)
	for i := 0; i < k; i++ {
		n := 2 + ctx.Rng.Intn(15)
		pool := 1 + ctx.Rng.Intn(5)
		maxLen := 1 + ctx.Rng.Intn(6)
		files := make([][]string, n)
		shape := []string{"overlap", "disjoint", "repeat"}[ctx.Rng.Intn(3)]
		for g := range files {
			l := 1 + ctx.Rng.Intn(maxLen)
			for j := 0; j < l; j++ {
				switch shape {
				case "overlap":
					files[g] = append(files[g], fmt.Sprintf("f%d.yml", ctx.Rng.Intn(pool)))
				case "disjoint":
					files[g] = append(files[g], fmt.Sprintf("g%d-f%d.yml", g, j))
				case "repeat": // the same file again and again (include of one file by many)
					files[g] = append(files[g], fmt.Sprintf("f%d.yml", g%pool))
				}
			}
		}
		ctx.Count("warnLock:shape:" + shape)
		add(files, ctx.Rng.Intn(4))
	}
}

func init() {
	core.Register("warnLock", &core.CheckDef{
		Real: func(raw json.RawMessage) any {
			var a warnArgs
			json.Unmarshal(raw, &a)
			if len(a.Files) > 64 {
				return map[string]any{"bad": "too many goroutines"}
			}
			return runWarn(a)
		},
		DriverOp: "locked.warn",
		Judge:    judgeWarn,
		Timeout:  60 * time.Second,
	})
}
