package c19

// C19 (round 6) — the dependency-ordered traversal under the race detector: check "travRace".
//
// One case = one helper process (harness/c19race, `go build -race -tags verif`, file trav.go) walking ONE explicit graph
// with the options WithRootNodesAndDown / InReverseOrder / WithMaxConcurrency, a visitor that takes a little time (sibling
// workers overlap) and optionally one failing visitor, a few rounds, 1 / 2 / 4 walks of the SAME project value at once.  Graph shapes: fan (a middle service with 0..2
// dependencies of its own and 2..8 dependents that become ready together), diamond (k parallel branches between a
// bottom and a top, optionally on a base chain), ladder (two chains with rungs), random DAGs.  Root selections: none / the
// middle / a leaf / two services / every service.  Failing input = the case itself (graph, options), key
// `race-write@<function of the racing write>` or `traversal:race-run:<class>` for a wrong outcome decided by the helper.

import (
	"encoding/json"
	"fmt"
	"strings"
	"time"

	"verifharness/core"
)

type travRaceCase struct {
	N       int      `json:"n"`
	Edges   [][2]int `json:"edges"`
	Roots   []int    `json:"roots"`
	Limit   int      `json:"limit"`
	Reverse bool     `json:"reverse"`
	FailAt  int      `json:"fail_at"`
	Rounds  int      `json:"rounds"`
	Collect bool     `json:"collect"`
	Par     int      `json:"par"` // walks of the SAME project value at once (1 = one walk)
}

type travRaceJob struct {
	Procs int          `json:"procs"`
	Seed  int64        `json:"seed"`
	Trav  travRaceCase `json:"trav"`
	Shape string       `json:"shape"` // documentation of the generator's choice (ignored by the helper)
}

func fanGraph(deps, dependents int) (int, [][2]int, int) {
	// services 0..deps-1: the dependencies of the middle; deps: the middle; then the dependents
	mid := deps
	var e [][2]int
	for d := 0; d < deps; d++ {
		e = append(e, [2]int{mid, d})
	}
	for k := 0; k < dependents; k++ {
		e = append(e, [2]int{mid + 1 + k, mid})
	}
	return deps + 1 + dependents, e, mid
}

func diamondGraph(base, width int) (int, [][2]int, int) {
	// a chain of `base` services, the bottom of the diamond on top of it, `width` branches, one top
	var e [][2]int
	for i := 1; i <= base; i++ {
		e = append(e, [2]int{i, i - 1})
	}
	bottom := base
	for k := 0; k < width; k++ {
		e = append(e, [2]int{bottom + 1 + k, bottom})
	}
	top := bottom + 1 + width
	for k := 0; k < width; k++ {
		e = append(e, [2]int{top, bottom + 1 + k})
	}
	return top + 1, e, bottom
}

func ladderGraph(rungs int) (int, [][2]int, int) {
	// two chains a_i = 2i, b_i = 2i+1; a_{i+1} and b_{i+1} both depend on a_i and b_i
	var e [][2]int
	for i := 1; i < rungs; i++ {
		for _, x := range []int{2 * i, 2*i + 1} {
			e = append(e, [2]int{x, 2 * (i - 1)}, [2]int{x, 2*(i-1) + 1})
		}
	}
	return 2 * rungs, e, 2
}

func runC19TravRace(ctx *core.Ctx) {
	if _, err := ensureRaceHelperIn(ctx.Scratch, ctx.RepoDir); err != nil {
		return // reported once by runC19Race (raceHelperBuild / race:unavailable)
	}
	n := ctx.Pick(120, 2400)
	for i := 0; i < n; i++ {
		var j travRaceJob
		j.Seed = ctx.Rng.Int63()
		j.Procs = []int{1, 2, 4, 8}[ctx.Rng.Intn(4)]
		c := &j.Trav
		c.FailAt = -1
		c.Rounds = 2 + ctx.Rng.Intn(2)
		c.Collect = ctx.Rng.Intn(3) != 0
		var mid int
		switch i % 4 {
		case 0:
			j.Shape = "fan"
			c.N, c.Edges, mid = fanGraph(ctx.Rng.Intn(3), 2+ctx.Rng.Intn(7))
		case 1:
			j.Shape = "diamond"
			c.N, c.Edges, mid = diamondGraph(ctx.Rng.Intn(3), 2+ctx.Rng.Intn(4))
		case 2:
			j.Shape = "ladder"
			c.N, c.Edges, mid = ladderGraph(2 + ctx.Rng.Intn(3))
			if mid >= c.N {
				mid = 0
			}
		default:
			j.Shape = "random"
			c.N = 3 + ctx.Rng.Intn(6)
			for a := 1; a < c.N; a++ {
				for b := 0; b < a; b++ {
					if ctx.Rng.Intn(3) == 0 {
						c.Edges = append(c.Edges, [2]int{a, b})
					}
				}
			}
			mid = ctx.Rng.Intn(c.N)
		}
		rootSel := []string{"mid", "mid", "mid", "none", "leaf", "two", "all"}[ctx.Rng.Intn(7)]
		switch rootSel {
		case "mid":
			c.Roots = []int{mid}
		case "leaf":
			c.Roots = []int{c.N - 1}
		case "two":
			c.Roots = []int{mid, ctx.Rng.Intn(c.N)}
		case "all":
			for v := 0; v < c.N; v++ {
				c.Roots = append(c.Roots, v)
			}
		}
		c.Limit = []int{0, 0, 1, 2, 3}[ctx.Rng.Intn(5)]
		c.Reverse = ctx.Rng.Intn(3) == 0
		if ctx.Rng.Intn(6) == 0 {
			c.FailAt = ctx.Rng.Intn(c.N)
		}
		c.Par = []int{1, 1, 1, 2, 4}[ctx.Rng.Intn(5)]
		ctx.Count(fmt.Sprintf("travRace:walks-at-once=%d", c.Par))
		ctx.Count("travRace:shape:" + j.Shape)
		ctx.Count("travRace:roots:" + rootSel)
		ctx.Count(fmt.Sprintf("travRace:limit=%d", c.Limit))
		ctx.Count(fmt.Sprintf("travRace:reverse=%v", c.Reverse))
		ctx.Count(fmt.Sprintf("travRace:fails=%v", c.FailAt >= 0))
		ctx.Count(fmt.Sprintf("travRace:collect=%v", c.Collect))
		ctx.Add("travRace", j)
	}
}

func judgeTravRace(args, real, _ json.RawMessage) *core.Verdict {
	if v := core.CrashVerdict(real); v != nil {
		v.Key = "race:" + v.Key
		return v
	}
	var r raceReal
	if json.Unmarshal(real, &r) != nil {
		return core.Disagree("malformed race exchange")
	}
	if r.Skipped {
		return core.Skip("this lane already saw three walks that did not return")
	}
	if r.Unavailable != "" {
		if raceToolchainLimit(r.Unavailable) {
			return core.Skip("race detector unavailable: " + r.Unavailable)
		}
		return core.Disagree("the race helper could not be built / started (not a toolchain limitation): " + r.Unavailable)
	}
	var j travRaceJob
	json.Unmarshal(args, &j)
	desc := fmt.Sprintf("traversal of %d services, edges (a depends on b) %v, WithRootNodesAndDown%v, WithMaxConcurrency(%d), reverse=%v, failing visitor %d, %d walk(s) of the same project at once, GOMAXPROCS=%d",
		j.Trav.N, j.Trav.Edges, j.Trav.Roots, j.Trav.Limit, j.Trav.Reverse, j.Trav.FailAt, max(j.Trav.Par, 1), j.Procs)
	if len(r.Races) > 0 {
		return core.Fail(r.Races[0], fmt.Sprintf("data race inside the library's own parallel operation: %s: %v\n%s", desc, r.Races, r.RaceText))
	}
	if r.Fatal != "" {
		return core.Fail("race:fatal:"+strings.ReplaceAll(r.Fatal, " ", "-"), "the process died during the traversal: "+r.Fatal+": "+desc)
	}
	if r.Hang {
		return core.Fail("traversal:race-run:deadlock", "the helper did not finish: "+desc)
	}
	var o struct {
		Problems []string `json:"trav_problems"`
		Walks    int      `json:"walks"`
	}
	if json.Unmarshal(r.Out, &o) != nil {
		return core.Disagree("malformed helper output")
	}
	if len(o.Problems) > 0 {
		class := o.Problems[0]
		if i := strings.IndexByte(class, ':'); i > 0 {
			class = class[:i]
		}
		return core.Fail("traversal:race-run:"+class, o.Problems[0]+": "+desc)
	}
	if o.Walks == 0 {
		return core.Disagree("the helper ran no walk: " + desc)
	}
	return nil
}

// travRaceStuck counts the walks of this lane that did not return (each costs the helper's 25 s watchdog); after the third
// the failure is established and the remaining cases of the lane are skipped
var travRaceStuck int

func runTravRaceJob(raw json.RawMessage) any {
	if travRaceStuck >= 3 {
		return raceReal{Skipped: true, Races: []string{}}
	}
	res := runRaceJob(raw)
	if r, ok := res.(raceReal); ok && (r.Hang || strings.Contains(string(r.Out), "\"deadlock:")) {
		travRaceStuck++
	}
	return res
}

func init() {
	core.Register("travRace", &core.CheckDef{
		Real:    runTravRaceJob,
		Judge:   judgeTravRace,
		Timeout: 6 * time.Minute,
	})
}
