package c19

// C19 (c) — concurrent loads under the race detector.
//
// The harness itself is built with CGO_ENABLED=0, so the race-enabled code lives in a separate helper
// (harness/c19race, package main) that this file builds once per run with
// `go build -race -tags verif` against $VERIF_REPO into $VERIF_SCRATCH.  One case = one helper process:
// 2..16 goroutines load generated inputs (equal inputs, different inputs, one shared environment map),
// every result is compared with the result of the same load run alone, and the race detector's reports on
// stderr become failure keys `race-write@<innermost compose-go function of the racing write>`.

import (
	"bytes"
	"encoding/json"
	"fmt"
	"os"
	"os/exec"
	"path/filepath"
	"regexp"
	"runtime"
	"sort"
	"strings"
	"syscall"
	"time"

	"verifharness/core"
)

type raceJob struct {
	Inputs     []core.LoadReq `json:"inputs"`
	Assign     []int          `json:"assign"`
	Rounds     int            `json:"rounds"`
	ShareEnv   bool           `json:"share_env"`
	Procs      int            `json:"procs"`
	Seed       int64          `json:"seed"`
	Transform  int            `json:"transform"`
	TransformE int            `json:"transform_e"`
	SeqFirst   bool           `json:"seq_first"`
	// round 7 (see harness/c19race/main.go): the loads share ONE ConfigDetails / []ConfigFile (file names only) and ONE
	// options-function list per input; the project name is a guess, so that the loader looks for `name:` in the files
	ShareInputs bool `json:"share_inputs,omitempty"`
	GuessName   bool `json:"guess_name,omitempty"`
}

type raceReal struct {
	Unavailable string          `json:"unavailable,omitempty"`
	Skipped     bool            `json:"skipped,omitempty"`
	Exit        int             `json:"exit"`
	Races       []string        `json:"races"` // keys
	RaceText    string          `json:"race_text,omitempty"`
	Fatal       string          `json:"proc_fatal,omitempty"`
	Hang        bool            `json:"proc_hang,omitempty"`
	Out         json.RawMessage `json:"out,omitempty"`
	// for the evidence histogram (core.Class): "ok" = every input loads alone, "err" = some input is rejected alone
	AllOk   *int `json:"ok,omitempty"`
	SomeErr *int `json:"err,omitempty"`
}

// harnessSrcDir is the root of the harness module (the directory with go.mod above this source file).
func harnessSrcDir() string {
	_, file, _, _ := runtime.Caller(0)
	dir := filepath.Dir(file)
	for i := 0; i < 6; i++ {
		if _, err := os.Stat(filepath.Join(dir, "go.mod")); err == nil {
			if _, err := os.Stat(filepath.Join(dir, "c19race", "main.go")); err == nil {
				return dir
			}
		}
		dir = filepath.Dir(dir)
	}
	return filepath.Dir(file)
}

// ensureRaceHelper builds the helper once per scratch directory (several lanes may ask at the same time).
func ensureRaceHelper() (string, error) {
	return ensureRaceHelperIn(os.Getenv("VERIF_SCRATCH"), os.Getenv("VERIF_REPO"))
}

func ensureRaceHelperIn(scratch, repo string) (string, error) {
	if scratch == "" {
		scratch = os.TempDir()
	}
	if repo == "" {
		repo = "/repo"
	}
	bin := filepath.Join(scratch, "c19race.bin")
	okMark, failMark := bin+".ok", bin+".fail"
	lock, err := os.OpenFile(bin+".lock", os.O_CREATE|os.O_RDWR, 0o644)
	if err != nil {
		return "", err
	}
	defer lock.Close()
	if err := syscall.Flock(int(lock.Fd()), syscall.LOCK_EX); err != nil {
		return "", err
	}
	defer syscall.Flock(int(lock.Fd()), syscall.LOCK_UN)
	if _, err := os.Stat(okMark); err == nil {
		return bin, nil
	}
	if b, err := os.ReadFile(failMark); err == nil {
		return "", fmt.Errorf("%s", b)
	}
	src := harnessSrcDir()
	mod, err := os.ReadFile(filepath.Join(src, "go.mod"))
	if err != nil {
		os.WriteFile(failMark, []byte(err.Error()), 0o644)
		return "", err
	}
	abs, _ := filepath.Abs(repo)
	alt := filepath.Join(scratch, "c19race.mod")
	os.WriteFile(alt, bytes.ReplaceAll(mod, []byte("=> /repo"), []byte("=> "+abs)), 0o644)
	if sum, err := os.ReadFile(filepath.Join(abs, "go.sum")); err == nil {
		os.WriteFile(filepath.Join(scratch, "c19race.sum"), sum, 0o644)
	}
	cmd := exec.Command("go", "build", "-race", "-tags", "verif", "-modfile", alt, "-o", bin, "./c19race")
	cmd.Dir = src
	cmd.Env = append(os.Environ(), "CGO_ENABLED=1", "GOFLAGS=-mod=mod", "GOPROXY=off", "GOSUMDB=off", "GOTOOLCHAIN=local", "GOMAXPROCS=4")
	var buf bytes.Buffer
	cmd.Stdout, cmd.Stderr = &buf, &buf
	done := make(chan error, 1)
	if err := cmd.Start(); err != nil {
		os.WriteFile(failMark, []byte(err.Error()), 0o644)
		return "", err
	}
	go func() { done <- cmd.Wait() }()
	select {
	case err = <-done:
	case <-time.After(8 * time.Minute):
		cmd.Process.Kill()
		err = fmt.Errorf("timeout building the race helper")
	}
	if err != nil {
		msg := fmt.Sprintf("go build -race failed: %v: %s", err, lastBytes(buf.String(), 600))
		os.WriteFile(failMark, []byte(msg), 0o644)
		return "", fmt.Errorf("%s", msg)
	}
	os.WriteFile(okMark, []byte("ok"), 0o644)
	return bin, nil
}

func lastBytes(s string, n int) string {
	if len(s) > n {
		return s[len(s)-n:]
	}
	return s
}

const composePrefix = "github.com/compose-spec/compose-go/v2/"

var closureRe = regexp.MustCompile(`(\.func\d+|\.\d+|\.gowrap\d+)+$`)

// type arguments of generic functions (`vertex[go.shape.…]`) are not part of a stable key
var typeArgsRe = regexp.MustCompile(`\[[^\]]*\]`)

// raceKeys extracts one stable key per race report: the innermost compose-go function of the racing WRITE access(es).
func raceKeys(stderr string) ([]string, map[string]string) {
	seen := map[string]string{}
	for _, rep := range strings.Split(stderr, "WARNING: DATA RACE")[1:] {
		if i := strings.Index(rep, "=================="); i >= 0 {
			rep = rep[:i]
		}
		var writes []string
		for _, block := range strings.Split(rep, "\n\n") {
			lines := strings.Split(strings.TrimSpace(block), "\n")
			if len(lines) == 0 {
				continue
			}
			head := strings.ToLower(lines[0])
			if !strings.Contains(head, "write at") && !strings.Contains(head, "write by") {
				continue
			}
			site := "outside-compose-go"
			for _, l := range lines[1:] {
				l = strings.TrimSpace(l)
				if strings.HasPrefix(l, composePrefix) {
					fn := strings.TrimPrefix(l, composePrefix)
					if j := strings.LastIndex(fn, "("); j > 0 {
						fn = fn[:j]
					}
					site = typeArgsRe.ReplaceAllString(closureRe.ReplaceAllString(fn, ""), "")
					break
				}
			}
			writes = append(writes, site)
		}
		sort.Strings(writes)
		key := "race-write@outside-compose-go"
		if len(writes) > 0 {
			key = "race-write@" + writes[0]
			if len(writes) > 1 && writes[1] != writes[0] {
				key += "+" + writes[1]
			}
		}
		if _, dup := seen[key]; !dup {
			seen[key] = "WARNING: DATA RACE" + rep
		}
	}
	var keys []string
	for k := range seen {
		keys = append(keys, k)
	}
	sort.Strings(keys)
	return keys, seen
}

// raceHangs counts helper processes of this child that had to be killed; after the first one the budget per job shrinks,
// after the third the remaining jobs of this lane are skipped (the failure is established)
var raceHangs int

func runRaceJob(raw json.RawMessage) any {
	if raceHangs >= 3 {
		return raceReal{Skipped: true, Races: []string{}}
	}
	bin, err := ensureRaceHelper()
	if err != nil {
		return raceReal{Unavailable: err.Error()}
	}
	cmd := exec.Command(bin)
	cmd.Stdin = bytes.NewReader(raw)
	var so, se bytes.Buffer
	cmd.Stdout, cmd.Stderr = &so, &se
	cmd.Env = append(os.Environ(), "GORACE=halt_on_error=0 exitcode=66 history_size=3 atexit_sleep_ms=0", "GOMEMLIMIT=3GiB")
	if err := cmd.Start(); err != nil {
		return raceReal{Unavailable: err.Error()}
	}
	done := make(chan error, 1)
	go func() { done <- cmd.Wait() }()
	res := raceReal{Races: []string{}}
	select {
	case <-done:
	case <-time.After(raceJobBudget()):
		cmd.Process.Kill()
		<-done
		res.Hang = true
		raceHangs++
	}
	if cmd.ProcessState != nil {
		res.Exit = cmd.ProcessState.ExitCode()
	}
	stderr := se.String()
	keys, texts := raceKeys(stderr)
	res.Races = append(res.Races, keys...)
	if len(keys) > 0 {
		t := texts[keys[0]]
		res.RaceText = t[:min(len(t), 3500)]
	}
	if i := strings.Index(stderr, "fatal error:"); i >= 0 {
		line := stderr[i:]
		if j := strings.IndexByte(line, '\n'); j >= 0 {
			line = line[:j]
		}
		res.Fatal = strings.TrimSpace(strings.TrimPrefix(line, "fatal error:"))
	}
	if b := bytes.TrimSpace(so.Bytes()); len(b) > 0 && json.Valid(b) {
		res.Out = b
		var o struct {
			Seq []string `json:"seq"`
		}
		json.Unmarshal(b, &o)
		nerr := 0
		for _, c := range o.Seq {
			if c != "ok" {
				nerr++
			}
		}
		if nerr == 0 && res.Fatal == "" && !res.Hang {
			k := len(o.Seq)
			res.AllOk = &k
		} else if res.Fatal == "" && !res.Hang {
			res.SomeErr = &nerr
		}
	} else if res.Fatal == "" && !res.Hang && len(res.Races) == 0 {
		res.Fatal = "no output: " + lastBytes(stderr, 300)
	}
	return res
}

func raceJobBudget() time.Duration {
	if raceHangs > 0 {
		return 45 * time.Second
	}
	return 240 * time.Second
}

func judgeRace(args, real, _ json.RawMessage) *core.Verdict {
	if v := core.CrashVerdict(real); v != nil {
		v.Key = "race:" + v.Key
		return v
	}
	var r raceReal
	if json.Unmarshal(real, &r) != nil {
		return core.Disagree("malformed race exchange")
	}
	if r.Skipped {
		return core.Skip("this lane already killed three hanging helper processes")
	}
	if r.Unavailable != "" {
		if raceToolchainLimit(r.Unavailable) {
			return core.Skip("race detector unavailable: " + r.Unavailable)
		}
		return core.Disagree("the race helper could not be built / started (not a toolchain limitation): " + r.Unavailable)
	}
	var j raceJob
	json.Unmarshal(args, &j)
	shared := ""
	if j.ShareEnv {
		shared = ":shared-environment"
	}
	// round 7: a shared input value (other than the environment map) that differs after the loads is reported first: it is
	// deterministic, and the racing pair it causes may sit in the same function as the recorded environment-map write
	var om struct {
		Mutated []string `json:"mutated"`
	}
	if len(r.Out) > 0 {
		json.Unmarshal(r.Out, &om)
	}
	envMutation := ""
	for _, m := range om.Mutated {
		what, _, _ := strings.Cut(m, ":")
		if what == "environment" {
			envMutation = m
			continue
		}
		return core.Fail("input-mutated:"+what, fmt.Sprintf("a load wrote to an input value that concurrent loads share by reference: %v; races reported: %v\n%s", om.Mutated, r.Races, r.RaceText))
	}
	if len(r.Races) > 0 {
		key := r.Races[0]
		if !j.ShareEnv && key == "race-write@loader.projectName" {
			// the recorded finding under that key is the store into a SHARED environment map; here every load has its own
			key += ":environment-not-shared"
		}
		if j.ShareEnv {
			// one root cause (the store into the caller's environment map) shows up as several racing pairs; name it first,
			// but only after every key that is NOT a consequence of it
			rest := []string{}
			for _, k := range r.Races {
				if k != "race-write@loader.projectName" && k != "race-write@loader.NormalizeProjectName" {
					rest = append(rest, k)
				}
			}
			if len(rest) > 0 {
				key = rest[0]
			} else {
				key = "race-write@loader.projectName"
			}
		}
		return core.Fail(key, fmt.Sprintf("data race between concurrent uses of the library (%d distinct): %v\n%s", len(r.Races), r.Races, r.RaceText))
	}
	if r.Fatal != "" {
		return core.Fail("race:fatal:"+strings.ReplaceAll(r.Fatal, " ", "-")+shared, "the process died during concurrent loads: "+r.Fatal)
	}
	if r.Hang {
		return core.Fail("race:hang", "concurrent loads did not finish")
	}
	var o struct {
		Mismatches []struct {
			G, Round, Input int
			Want, Got       string
		} `json:"mismatches"`
		Panics         []string `json:"panics"`
		TransformWrong []string `json:"transform_wrong"`
	}
	if json.Unmarshal(r.Out, &o) != nil {
		return core.Disagree("malformed helper output")
	}
	if len(o.Panics) > 0 {
		return core.Fail("race:panic-only-when-concurrent", "a load panicked when run next to others: "+o.Panics[0])
	}
	if len(o.Mismatches) > 0 {
		m := o.Mismatches[0]
		key := "concurrent-result-differs" + shared
		return core.Fail(key, fmt.Sprintf("goroutine %d round %d input %d: result differs from the same load run alone: %s", m.G, m.Round, m.Input, m.Got))
	}
	if len(o.TransformWrong) > 0 {
		if strings.HasPrefix(o.TransformWrong[0], "traversal: deadlock") {
			return core.Fail("traversal:free-running:deadlock", o.TransformWrong[0])
		}
		if strings.HasPrefix(o.TransformWrong[0], "deadlock:") {
			return core.Fail("fanout:free-running:deadlock", o.TransformWrong[0])
		}
		if strings.HasPrefix(o.TransformWrong[0], "traversal:") {
			return core.Fail("traversal:free-running:wrong-order-or-count", o.TransformWrong[0])
		}
		return core.Fail("fanout:free-running:wrong-result", o.TransformWrong[0])
	}
	if envMutation != "" {
		if envMutation == "environment: +COMPOSE_PROJECT_NAME" {
			// the recorded defect (findings/C19.txt), seen without the race detector noticing a racing pair
			return core.Fail("race-write@loader.projectName", "the shared environment map was extended by a load: "+envMutation)
		}
		return core.Fail("input-mutated:environment", "the shared environment map differs after the loads: "+envMutation)
	}
	return nil
}

// raceToolchainLimit: the only reason for which the race oracle may be skipped quietly is a toolchain without race support.
func raceToolchainLimit(msg string) bool {
	m := strings.ToLower(msg)
	for _, w := range []string{"requires cgo", "-race is only supported", "c compiler", "cgo: ", "gcc\": executable file not found", "runtime/race"} {
		if strings.Contains(m, w) {
			return true
		}
	}
	return false
}

func init() {
	core.Register("raceHelperBuild", &core.CheckDef{
		Judge: func(args, _, _ json.RawMessage) *core.Verdict {
			var a struct {
				Err string `json:"err"`
			}
			json.Unmarshal(args, &a)
			return core.Disagree("the race helper could not be built (not a toolchain limitation), the concurrent-load oracle did not run: " + a.Err)
		},
	})
	core.Register("race", &core.CheckDef{
		Real:    func(raw json.RawMessage) any { return runRaceJob(raw) },
		Judge:   judgeRace,
		Timeout: 12 * time.Minute,
	})
}
