package c19

// C19 — generator of compose projects for the concurrent-load oracle: small directory trees using `version:`,
// extends (same file / other file), include (with its own .env), env_file, interpolation, override files,
// profiles, top-level resources; plus a malformed stream (the error must be the same alone and together).

import (
	"fmt"
	"math/rand"
	"strings"

	"verifharness/core"
)

type c19Features struct {
	Version, Extends, ExtendsFile, Include, EnvFile, Interp, Override, Profiles, Resources, NoServices, Named bool
	ResetTag bool // round 7: the override file uses !reset / !override (document-specific paths in the reset processor)
}

func (f c19Features) String() string {
	var s []string
	add := func(b bool, n string) {
		if b {
			s = append(s, n)
		}
	}
	add(f.Version, "version")
	add(f.Extends, "extends")
	add(f.ExtendsFile, "extends-file")
	add(f.Include, "include")
	add(f.EnvFile, "env_file")
	add(f.Interp, "interpolation")
	add(f.Override, "override")
	add(f.Profiles, "profiles")
	add(f.Resources, "resources")
	add(f.NoServices, "no-services")
	add(f.Named, "name")
	add(f.ResetTag, "reset-tags")
	return strings.Join(s, "+")
}

func genC19Project(rng *rand.Rand, tag string) (core.LoadReq, c19Features) {
	var f c19Features
	p := func(n int) bool { return rng.Intn(n) == 0 }
	f.Version, f.Extends, f.ExtendsFile, f.Include, f.EnvFile = p(2), p(3), p(4), p(3), p(3)
	f.Interp, f.Override, f.Profiles, f.Resources, f.NoServices, f.Named = p(2), p(4), p(5), p(3), p(12), p(3)
	files := map[string]string{}
	env := map[string]string{"TAG": "v" + tag, "HOSTPORT": fmt.Sprint(8000 + rng.Intn(100))}
	var b strings.Builder
	if f.Version {
		fmt.Fprintf(&b, "version: %q\n", []string{"3.8", "2.4", "3"}[rng.Intn(3)])
	}
	if f.Named {
		fmt.Fprintf(&b, "name: proj%s\n", tag)
	}
	if f.Include {
		b.WriteString("include:\n  - path: inc/compose.yaml\n")
		inc := "services:\n  included:\n    image: \"inc:${INCV:-none}\"\n    environment:\n      FROM: include\n"
		if f.Version {
			inc = "version: \"3.9\"\n" + inc
		}
		files["inc/compose.yaml"] = inc
		files["inc/.env"] = "INCV=i" + tag + "\n"
	}
	nsvc := 1 + rng.Intn(4)
	if f.NoServices {
		nsvc = 0
	}
	if nsvc > 0 {
		b.WriteString("services:\n")
	} else if !f.Include {
		f.Resources = true
	}
	if f.ExtendsFile && nsvc > 0 {
		base := "services:\n  base:\n    image: base:1\n    environment:\n      B: \"1\"\n    labels:\n      from: base\n"
		if f.Version {
			base = "version: \"3\"\n" + base
		}
		files["base.yaml"] = base
	}
	for i := 0; i < nsvc; i++ {
		fmt.Fprintf(&b, "  s%d:\n", i)
		switch {
		case f.Interp && i%2 == 0:
			fmt.Fprintf(&b, "    image: \"img%d:${TAG:-latest}\"\n", i)
		default:
			fmt.Fprintf(&b, "    image: img%d:%s\n", i, tag)
		}
		if f.Extends && i > 0 && p(2) {
			fmt.Fprintf(&b, "    extends:\n      service: s%d\n", rng.Intn(i))
		} else if f.ExtendsFile && p(2) {
			b.WriteString("    extends:\n      file: base.yaml\n      service: base\n")
		}
		if f.EnvFile && p(2) {
			b.WriteString("    env_file:\n      - a.env\n")
		}
		if p(2) {
			fmt.Fprintf(&b, "    environment:\n      K%d: \"%s\"\n", i, tag)
			if f.Interp {
				b.WriteString("      PN: \"${COMPOSE_PROJECT_NAME}\"\n")
			}
		}
		if p(3) {
			if f.Interp {
				fmt.Fprintf(&b, "    ports:\n      - \"${HOSTPORT}:%d\"\n", 80+i)
			} else {
				fmt.Fprintf(&b, "    ports:\n      - \"%d:%d\"\n", 9000+i, 80+i)
			}
		}
		if i > 0 && p(3) {
			fmt.Fprintf(&b, "    depends_on:\n      - s%d\n", rng.Intn(i))
		}
		if f.Profiles && i > 0 && p(2) {
			b.WriteString("    profiles: [extra]\n")
		}
		if f.Resources && p(2) {
			b.WriteString("    volumes:\n      - data:/data\n      - ./src:/src\n    networks:\n      - back\n")
		} else if f.Resources {
			b.WriteString("    networks:\n      - back\n")
		}
		if p(4) {
			b.WriteString("    build:\n      context: ./ctx\n")
		}
		if p(5) {
			fmt.Fprintf(&b, "    labels:\n      l%d: \"%s\"\n", i, tag)
		}
	}
	if f.Resources {
		b.WriteString("volumes:\n  data: {}\nnetworks:\n  back: {}\n")
	}
	if f.EnvFile {
		files["a.env"] = fmt.Sprintf("FROM_FILE=%s\nQUOTED=\"a b\"\n# comment\nREF=${TAG}\n", tag)
	}
	files["compose.yaml"] = b.String()
	req := core.LoadReq{Files: files, ConfigFiles: []string{"compose.yaml"}, Env: env}
	if f.Override && nsvc > 0 {
		o := fmt.Sprintf("services:\n  s0:\n    environment:\n      OVER: \"%s\"\n    labels:\n      over: \"1\"\n", tag)
		if f.ResetTag = p(2); f.ResetTag {
			o = fmt.Sprintf("services:\n  s0:\n    environment: !override\n      OVER: \"%s\"\n    labels: !reset null\n    ports: !override\n      - \"%d:80\"\n", tag, 7000+rng.Intn(100))
			if nsvc > 1 && p(2) {
				o += "  s1:\n    depends_on: !reset []\n    image: !override \"over:" + tag + "\"\n"
			}
		}
		if f.Version {
			o = "version: \"3.8\"\n" + o
		}
		files["compose.override.yaml"] = o
		req.ConfigFiles = append(req.ConfigFiles, "compose.override.yaml")
	}
	if f.Profiles && p(2) {
		req.Profiles = []string{"extra"}
	}
	if !f.Named {
		req.ProjectName = "given" + tag
	}
	return req, f
}

// genC19Malformed: inputs the loader must reject — with the same error alone and next to other loads.
func genC19Malformed(rng *rand.Rand, tag string) (core.LoadReq, string) {
	kinds := []string{"bad-yaml", "missing-include", "extends-cycle", "extends-missing", "unknown-key", "bad-name", "missing-env-file", "bad-type", "dep-cycle"}
	k := kinds[rng.Intn(len(kinds))]
	files := map[string]string{}
	req := core.LoadReq{Files: files, ConfigFiles: []string{"compose.yaml"}, Env: map[string]string{"TAG": tag}, ProjectName: "m" + tag}
	v := ""
	if rng.Intn(2) == 0 {
		v = "version: \"3.8\"\n"
	}
	switch k {
	case "bad-yaml":
		files["compose.yaml"] = v + "services:\n  a: [\n"
	case "missing-include":
		files["compose.yaml"] = v + "include:\n  - nowhere/compose.yaml\nservices:\n  a:\n    image: x\n"
	case "extends-cycle":
		files["compose.yaml"] = v + "services:\n  a:\n    image: x\n    extends:\n      service: b\n  b:\n    image: y\n    extends:\n      service: a\n"
	case "extends-missing":
		files["compose.yaml"] = v + "services:\n  a:\n    extends:\n      service: ghost\n"
	case "unknown-key":
		files["compose.yaml"] = v + "services:\n  a:\n    image: x\n    no_such_key: 1\n"
	case "bad-name":
		req.ProjectName = ""
		files["compose.yaml"] = v + "name: \"Bad Name " + tag + "\"\nservices:\n  a:\n    image: x\n"
	case "missing-env-file":
		files["compose.yaml"] = v + "services:\n  a:\n    image: x\n    env_file:\n      - gone.env\n"
	case "bad-type":
		files["compose.yaml"] = v + "services:\n  a:\n    image: x\n    ports: 80\n"
	case "dep-cycle":
		files["compose.yaml"] = v + "services:\n  a:\n    image: x\n    depends_on: [b]\n  b:\n    image: y\n    depends_on: [a]\n"
	}
	return req, k
}

func runC19Race(ctx *core.Ctx) {
	// the helper is built here, once, so that no case pays for it
	os := func() error { _, err := ensureRaceHelperIn(ctx.Scratch, ctx.RepoDir); return err }
	if err := os(); err != nil {
		ctx.Note("race detector unavailable (%v): the concurrent-load oracle is skipped", err)
		ctx.Count("race:unavailable")
		if !raceToolchainLimit(err.Error()) {
			ctx.Add("raceHelperBuild", map[string]string{"err": err.Error()})
		}
		return
	}
	n := ctx.Pick(126, 3600) // quick: 14 jobs of each of the nine shapes, every goroutine count 2..16 at least once
	for i := 0; i < n; i++ {
		var job raceJob
		job.Seed = ctx.Rng.Int63()
		job.Procs = []int{1, 2, 4, 8}[ctx.Rng.Intn(4)]
		g := 2 + ctx.Rng.Intn(15) // 2..16 goroutines
		if i < 15 {
			g = 2 + i // every goroutine count is used at least once
		}
		job.Rounds = 1 + ctx.Rng.Intn(3)
		shape := []string{"equal", "different", "mixed", "shared-env", "shared-env-different", "malformed-mix",
			"shared-inputs", "shared-inputs-different", "shared-inputs-env"}[i%9]
		tag := func() string { return fmt.Sprintf("%d", ctx.Rng.Intn(1000)) }
		switch shape {
		case "equal":
			in, f := genC19Project(ctx.Rng, tag())
			ctx.Count("race:features:" + f.String())
			job.Inputs = []core.LoadReq{in}
			job.Assign = make([]int, g)
		case "different", "mixed":
			k := g
			if shape == "mixed" {
				k = 1 + ctx.Rng.Intn(g)
			}
			for j := 0; j < k; j++ {
				in, f := genC19Project(ctx.Rng, tag())
				ctx.Count("race:features:" + f.String())
				job.Inputs = append(job.Inputs, in)
			}
			for j := 0; j < g; j++ {
				job.Assign = append(job.Assign, j%k)
			}
		case "shared-env":
			in, f := genC19Project(ctx.Rng, tag())
			ctx.Count("race:features:" + f.String())
			job.Inputs = []core.LoadReq{in}
			job.Assign = make([]int, g)
			job.ShareEnv = true
		case "shared-env-different":
			k := 2 + ctx.Rng.Intn(3)
			env := map[string]string{"TAG": "shared", "HOSTPORT": "8080"}
			for j := 0; j < k; j++ {
				in, f := genC19Project(ctx.Rng, tag())
				ctx.Count("race:features:" + f.String())
				in.Env = env
				job.Inputs = append(job.Inputs, in)
			}
			for j := 0; j < g; j++ {
				job.Assign = append(job.Assign, j%k)
			}
			job.ShareEnv = true
		case "shared-inputs", "shared-inputs-different", "shared-inputs-env":
			// round 7: what a caller does that prepares its arguments once (types.ToConfigFiles, one environment from
			// os.Environ, one option list) and then loads from several goroutines: the values are shared BY REFERENCE
			k := 1
			if shape == "shared-inputs-different" {
				k = 1 + ctx.Rng.Intn(3)
			}
			for j := 0; j < k; j++ {
				var in core.LoadReq
				var f c19Features
				if ctx.Rng.Intn(5) == 0 {
					var kind string
					in, kind = genC19Malformed(ctx.Rng, tag())
					ctx.Count("race:malformed:" + kind)
				} else {
					in, f = genC19Project(ctx.Rng, tag())
					ctx.Count("race:features:" + f.String())
				}
				job.Inputs = append(job.Inputs, in)
				nm := "name-guessed"
				if in.ProjectName == "" {
					nm = "name-from-file"
				}
				ctx.Count("race:shared-inputs:" + nm + fmt.Sprintf(":files=%d", len(in.ConfigFiles)))
			}
			for j := 0; j < g; j++ {
				job.Assign = append(job.Assign, j%k)
			}
			job.ShareInputs, job.GuessName = true, true
			job.ShareEnv = shape == "shared-inputs-env"
		case "malformed-mix":
			k := 2 + ctx.Rng.Intn(4)
			for j := 0; j < k; j++ {
				if j%2 == 0 {
					in, kind := genC19Malformed(ctx.Rng, tag())
					ctx.Count("race:malformed:" + kind)
					job.Inputs = append(job.Inputs, in)
				} else {
					in, f := genC19Project(ctx.Rng, tag())
					ctx.Count("race:features:" + f.String())
					job.Inputs = append(job.Inputs, in)
				}
			}
			for j := 0; j < g; j++ {
				job.Assign = append(job.Assign, j%k)
			}
		}
		if ctx.Rng.Intn(3) == 0 {
			job.Transform = 1 + ctx.Rng.Intn(7) // WithServicesTransform on 0..6 services, free running, next to the loads
			if ctx.Rng.Intn(3) == 0 {
				job.TransformE = 1
			}
		}
		job.SeqFirst = ctx.Rng.Intn(4) == 0 && !job.ShareInputs // shared inputs: always cold
		ctx.Count("race:shape:" + shape)
		ctx.Count(fmt.Sprintf("race:goroutines:%02d", g))
		ctx.Add("race", job)
	}
}
