package c19

// C19 (a) — the per-service fan-out types.(*Project).WithServicesTransform under a controlled scheduler.
//
// The `verif` build of compose-go calls types.VerifYield at the primitive steps of the fan-out
// (C.select / C.recv / C.ctxDone / C.exit, W.begin / W.return / W.exit, M.wait); the supplied function
// itself yields once more (W.fn).  The scheduler parks every goroutine at its yield and releases exactly
// one at a time, waiting until that goroutine parks again or has provably exited (its goroutine id is gone
// from runtime.Stack).  One released segment = one label of the Lean transition system Model/Fanout.lean,
// so a run is a label sequence; the driver op `fanout.replay` replays it through `step?` and returns the
// parked set the model expects after every label.
//
//	check "fanout"   correspondence (trace inclusion, parked-set agreement, final result = model's) AND the
//	                 direct oracle (result = {n ↦ fn n s} exactly / first error / no deadlock / no early return)

import (
	"bytes"
	"encoding/json"
	"fmt"
	"math/rand"
	"regexp"
	"runtime"
	"sort"
	"strconv"
	"strings"
	"sync"
	"time"

	"github.com/compose-spec/compose-go/v2/types"

	"verifharness/core"
)

type fanArgs struct {
	Res   []int    `json:"res"`            // res[v] >= 0: fn returns that value for service v; < 0: fn returns an error
	Plan  []string `json:"plan,omitempty"` // labels to follow (a run of the model) – the scheduler releases the actor of each
	Mode  string   `json:"mode"`           // "follow" (plan, then first-parked) | "rand" (uniform among parked, seeded)
	Seed  int64    `json:"seed,omitempty"`
	Probe bool     `json:"probe,omitempty"` // also release goroutines the model says are blocked, and watch that they stay blocked
}

type fanReal struct {
	Trace    []string       `json:"trace"`
	Pcs      []string       `json:"pcs"`
	Status   string         `json:"status"` // "ok" | "deadlock" | "hang:<what>" | "early-return"
	Services map[string]int `json:"services,omitempty"`
	Orig     bool           `json:"orig"` // the returned project still has the receiver's services
	Err      *int           `json:"err"`
	ErrText  string         `json:"err_text,omitempty"`
	Calls    map[string]int `json:"calls"`     // how often fn was called per service
	BadInput []string       `json:"bad_input"` // fn saw a service value that is not the receiver's
	Diverged bool           `json:"diverged,omitempty"`
}

type parkedG struct {
	step, key string
	gid       string
	release   chan struct{}
}

type fanSched struct {
	mu      sync.Mutex
	parked  map[string]*parkedG // "M", "C", "W<v>"
	arrive  chan struct{}
	abort   chan struct{}
	aborted bool
}

var gidRe = regexp.MustCompile(`^goroutine (\d+) `)

func curGid() string {
	var buf [64]byte
	n := runtime.Stack(buf[:], false)
	if m := gidRe.FindSubmatch(buf[:n]); m != nil {
		return string(m[1])
	}
	return "?"
}

func goroutineAlive(gid string) bool {
	buf := make([]byte, 1<<16)
	for {
		n := runtime.Stack(buf, true)
		if n < len(buf) {
			buf = buf[:n]
			break
		}
		buf = make([]byte, 2*len(buf))
	}
	return bytes.Contains(buf, []byte("goroutine "+gid+" ["))
}

func (s *fanSched) yield(step, key string) {
	who := "M"
	switch {
	case strings.HasPrefix(step, "C."):
		who = "C"
	case strings.HasPrefix(step, "W."):
		who = "W" + strings.TrimPrefix(key, "s")
	}
	s.mu.Lock()
	if s.aborted {
		s.mu.Unlock()
		return
	}
	p := &parkedG{step: step, key: key, gid: curGid(), release: make(chan struct{})}
	s.parked[who] = p
	s.mu.Unlock()
	select {
	case s.arrive <- struct{}{}:
	default:
	}
	select {
	case <-p.release:
	case <-s.abort:
	}
}

func (s *fanSched) get(who string) *parkedG {
	s.mu.Lock()
	defer s.mu.Unlock()
	return s.parked[who]
}

// waitPark waits until `who` is parked (at any yield).
func (s *fanSched) waitPark(who string, d time.Duration) *parkedG {
	deadline := time.Now().Add(d)
	for {
		if p := s.get(who); p != nil {
			return p
		}
		left := time.Until(deadline)
		if left <= 0 {
			return nil
		}
		select {
		case <-s.arrive:
		case <-time.After(minDur(left, 200*time.Microsecond)):
		}
	}
}

func minDur(a, b time.Duration) time.Duration {
	if a < b {
		return a
	}
	return b
}

func (s *fanSched) releaseG(who string) *parkedG {
	s.mu.Lock()
	p := s.parked[who]
	delete(s.parked, who)
	s.mu.Unlock()
	if p != nil {
		close(p.release)
	}
	return p
}

func waitGone(gid string, d time.Duration) bool {
	deadline := time.Now().Add(d)
	for i := 0; ; i++ {
		if !goroutineAlive(gid) {
			return true
		}
		if time.Now().After(deadline) {
			return false
		}
		if i < 50 {
			runtime.Gosched()
		} else {
			time.Sleep(50 * time.Microsecond)
		}
	}
}

var fanMu sync.Mutex

// fanStepTimeout: a goroutine released by the scheduler parks again within microseconds; the first time one does
// not, we wait long enough to rule out machine load, afterwards (a hang has already been reported by this process)
// a short wait suffices.
var fanStepTimeout = 20 * time.Second

func fanSawHang() { fanStepTimeout = 150 * time.Millisecond }

type fanRet struct {
	p   *types.Project
	err error
}

type fanErr struct{ v int }

func (e fanErr) Error() string { return "fn failed on s" + strconv.Itoa(e.v) }

func labelActor(l string) string {
	name, v, _ := strings.Cut(l, ":")
	switch name[0] {
	case 'm':
		return "M"
	case 'c':
		return "C"
	}
	return "W" + v
}

// fanStuck counts runs of this process that ended stuck (they leak goroutines blocked inside the real code); after
// a few of them the failure is established and further runs would only cost time
var fanStuck int

func runFanout(a fanArgs) fanReal {
	fanMu.Lock()
	defer fanMu.Unlock()
	if fanStuck >= 12 {
		return fanReal{Status: "skipped-after-repeated-hangs"}
	}
	n := len(a.Res)
	out := fanReal{Status: "ok", Calls: map[string]int{}, BadInput: []string{}, Trace: []string{}, Pcs: []string{}}
	sch := &fanSched{parked: map[string]*parkedG{}, arrive: make(chan struct{}, 1), abort: make(chan struct{})}
	defer func() {
		sch.mu.Lock()
		sch.aborted = true
		sch.mu.Unlock()
		close(sch.abort)
		types.VerifYield = nil
	}()
	types.VerifYield = sch.yield

	proj := &types.Project{Name: "p", Services: types.Services{}}
	for v := 0; v < n; v++ {
		name := "s" + strconv.Itoa(v)
		proj.Services[name] = types.ServiceConfig{Name: name, Image: "orig-" + name, Labels: types.Labels{"k": name}}
	}
	// goroutines of a run that ended stuck are released at the end and may still call fn: they must not touch `out`
	var cmu sync.Mutex
	closed := false
	defer func() {
		cmu.Lock()
		closed = true
		cmu.Unlock()
	}()
	// The spawn order of the real code is Go's map order; the model's `mSpawn v` may pick any service.  The services
	// are interchangeable up to what fn returns for them, so the scheduler BINDS the real service spawned k-th to the
	// model service the plan spawns k-th (bind: real index → model index) and fn answers for the model index.
	bind := make([]int, n)   // real j → model v (-1 = not yet spawned)
	unbind := make([]int, n) // model v → real j
	for i := range bind {
		bind[i], unbind[i] = -1, -1
	}
	fn := func(name string, svc types.ServiceConfig) (types.ServiceConfig, error) {
		sch.yield("W.fn", name)
		j, _ := strconv.Atoi(strings.TrimPrefix(name, "s"))
		cmu.Lock()
		v := -1
		if j >= 0 && j < n {
			v = bind[j]
		}
		if !closed {
			out.Calls["s"+strconv.Itoa(v)]++
			if svc.Name != name || svc.Image != "orig-"+name || svc.Labels["k"] != name {
				out.BadInput = append(out.BadInput, name)
			}
		}
		cmu.Unlock()
		if v < 0 || v >= n || a.Res[v] < 0 {
			return types.ServiceConfig{}, fanErr{v}
		}
		svc.Image = "r" + strconv.Itoa(a.Res[v])
		return svc, nil
	}
	retCh := make(chan fanRet, 1)
	go func() {
		p, err := proj.WithServicesTransform(fn)
		retCh <- fanRet{p, err}
	}()

	// ---- shadow of what the scheduler needs to know about blocking (indexed by REAL service index)
	wpc := make([]string, n) // idle, begin, fn, return, exit, gone
	for j := range wpc {
		wpc[j] = "idle"
	}
	cpc := "none" // none, select, recv, ctxDone, exit, inSelect, gone
	mpc := "read" // read, spawnC, spawn, wait, inWait, returned
	chCount, cancelled := 0, false
	var got *fanRet
	modelOf := func(name string) string { // "s<j>" → model index as text
		j, err := strconv.Atoi(strings.TrimPrefix(name, "s"))
		if err != nil || j < 0 || j >= n || bind[j] < 0 {
			return "?" + name
		}
		return strconv.Itoa(bind[j])
	}
	realW := func(v int) string { return "W" + strconv.Itoa(unbind[v]) } // scheduler key of model worker v

	pcs := func() string {
		parts := []string{"M=" + mpc}
		c := cpc
		if c == "inSelect" {
			c = "select"
		}
		if c == "recv" {
			if p := sch.get("C"); p != nil {
				c = "recv:" + modelOf(p.key)
			}
		}
		parts = append(parts, "C="+c)
		for v := 0; v < n; v++ {
			st := "idle"
			if unbind[v] >= 0 {
				st = wpc[unbind[v]]
			}
			parts = append(parts, fmt.Sprintf("W%d=%s", v, st))
		}
		return strings.Join(parts, " ")
	}
	logEv := func(l string) {
		out.Trace = append(out.Trace, l)
		out.Pcs = append(out.Pcs, pcs())
	}
	mParkState := func(p *parkedG) string {
		switch p.step {
		case "M.spawn":
			return "spawn"
		case "M.wait":
			return "wait"
		}
		return "?" + p.step
	}

	// ---- initial quiescence: the caller has read the field, started the collector and is parked before its first
	// spawn (or at M.wait when there is no service); these two steps are the only ones not observed one by one
	mp := sch.waitPark("M", fanStepTimeout)
	if mp == nil {
		select {
		case r := <-retCh:
			got = &r
			out.Status = "early-return"
		default:
			out.Status = "hang:start"
		}
		return finishFan(out, a, got, bind)
	}
	cp := sch.waitPark("C", fanStepTimeout)
	if cp == nil {
		out.Status = "hang:collector-start"
		return finishFan(out, a, got, bind)
	}
	mpc = "spawnC"
	logEv("mRead")
	mpc = mParkState(mp)
	cpc = strings.TrimPrefix(cp.step, "C.")
	logEv("mSpawnC")

	rng := rand.New(rand.NewSource(a.Seed))
	planPos := 0
	for _, l := range a.Plan { // skip the uncontrollable prefix of the plan
		if l == "mRead" || l == "mSpawnC" {
			planPos++
		} else {
			break
		}
	}
	allGone := func() bool {
		if cpc != "gone" {
			return false
		}
		for _, w := range wpc {
			if w != "gone" {
				return false
			}
		}
		return true
	}

	for steps := 0; steps < 20*n+40; steps++ {
		// the caller may have returned
		if got == nil {
			select {
			case r := <-retCh:
				got = &r
			default:
			}
		}
		if got != nil {
			prev := mpc
			mpc = "returned"
			logEv("mReturn")
			if prev != "inWait" || !allGone() {
				out.Status = "early-return"
			}
			break
		}
		// a sender that blocked (off-model: the buffer always has room) may have been unblocked by a receive
		inSend := 0
		for j := 0; j < n; j++ {
			if wpc[j] == "inSend" {
				if q := sch.get("W" + strconv.Itoa(j)); q != nil && q.step == "W.exit" {
					wpc[j] = "exit"
					chCount++
					logEv("wSend:" + strconv.Itoa(bind[j]))
				} else {
					inSend++
				}
			}
		}
		// a collector that was released into its select fires as soon as it can
		if cpc == "inSelect" && (chCount+inSend > 0 || cancelled) {
			p := sch.waitPark("C", fanStepTimeout)
			if p == nil {
				out.Status = "hang:select"
				break
			}
			switch p.step {
			case "C.recv":
				cpc = "recv"
				if chCount > 0 {
					chCount--
				} else { // rendezvous with a blocked sender: it parks at W.exit right away
					w := "W" + strings.TrimPrefix(p.key, "s")
					if v, err := strconv.Atoi(w[1:]); err == nil && v >= 0 && v < n && wpc[v] == "inSend" {
						if q := sch.waitPark(w, fanStepTimeout); q != nil && q.step == "W.exit" {
							wpc[v] = "exit"
						}
					}
				}
				logEv("cRecv")
			case "C.ctxDone":
				cpc = "ctxDone"
				logEv("cCtxDone")
			default:
				cpc = strings.TrimPrefix(p.step, "C.")
				logEv("c?" + p.step)
			}
			continue
		}
		if mpc == "inWait" && allGone() {
			select {
			case r := <-retCh:
				got = &r
				continue
			case <-time.After(fanStepTimeout):
				out.Status = "hang:wait"
			}
			break
		}
		// candidates
		var cand []string
		if mpc == "wait" || mpc == "spawn" {
			cand = append(cand, "M")
		}
		if cpc != "gone" && cpc != "inSelect" {
			if cpc != "select" || chCount+inSend > 0 || cancelled || a.Probe {
				cand = append(cand, "C")
			}
		}
		for v := 0; v < n; v++ { // by MODEL index, so that plan labels name them
			if j := unbind[v]; j >= 0 && wpc[j] != "gone" && wpc[j] != "inSend" {
				cand = append(cand, "W"+strconv.Itoa(v))
			}
		}
		if len(cand) == 0 && inSend > 0 && cpc == "inSelect" {
			continue // the select is about to take a blocked sender's value
		}
		if len(cand) == 0 {
			// nothing parked, nothing due: the real code is stuck (or the collector waits forever in its select)
			out.Status = "deadlock"
			break
		}
		var who string
		wantV := -1 // model service the plan wants spawned next
		if a.Mode == "rand" {
			who = cand[rng.Intn(len(cand))]
		} else {
			for who == "" && planPos < len(a.Plan) {
				l := a.Plan[planPos]
				planPos++
				if l == "mReturn" {
					continue
				}
				w := labelActor(l)
				if (l == "cRecv" || l == "cCtxDone") && cpc != "select" {
					continue // the select already fired (or is in progress)
				}
				if strings.HasPrefix(l, "mSpawn:") {
					if mpc != "spawn" {
						out.Diverged = true
						continue
					}
					if x, err := strconv.Atoi(l[7:]); err == nil && x >= 0 && x < n && unbind[x] < 0 {
						wantV = x
					}
				} else if l == "mWait" && mpc != "wait" {
					out.Diverged = true
					continue
				}
				for _, c := range cand {
					if c == w {
						who = w
					}
				}
				if who == "" {
					out.Diverged = true
				}
			}
			if who == "" {
				who = cand[0]
			}
		}
		// ---- release `who` and observe its next park / exit
		switch who[0] {
		case 'M':
			if mpc == "wait" {
				sch.releaseG("M")
				mpc = "inWait"
				logEv("mWait")
				break
			}
			// the caller spawns the worker of the service it is parked for, then parks again
			p := sch.get("M")
			j, err := strconv.Atoi(strings.TrimPrefix(p.key, "s"))
			if err != nil || j < 0 || j >= n || bind[j] >= 0 {
				out.Status = "hang:spawn-unknown-service"
				break
			}
			v := wantV
			if v < 0 {
				for x := 0; x < n; x++ {
					if unbind[x] < 0 {
						v = x
						break
					}
				}
			}
			cmu.Lock()
			bind[j], unbind[v] = v, j
			cmu.Unlock()
			sch.releaseG("M")
			q := sch.waitPark("M", fanStepTimeout)
			w := sch.waitPark("W"+strconv.Itoa(j), fanStepTimeout)
			if q == nil || w == nil || w.step != "W.begin" {
				out.Status = "hang:spawn"
				break
			}
			mpc = mParkState(q)
			wpc[j] = "begin"
			logEv("mSpawn:" + strconv.Itoa(v))
		case 'C':
			p := sch.releaseG("C")
			switch cpc {
			case "select":
				if chCount+inSend > 0 || cancelled {
					cpc = "inSelect" // handled at the top of the loop
				} else {
					// the model says the select blocks: watch that it does
					cpc = "inSelect"
					if q := sch.waitPark("C", 300*time.Microsecond); q != nil {
						if q.step == "C.recv" {
							cpc = "recv"
							logEv("cRecv")
						} else {
							cpc = strings.TrimPrefix(q.step, "C.")
							logEv("cCtxDone")
						}
					}
				}
			case "recv":
				q := sch.waitPark("C", fanStepTimeout)
				if q == nil {
					out.Status = "hang:store"
				} else {
					cpc = strings.TrimPrefix(q.step, "C.")
					logEv("cStore")
				}
			case "ctxDone", "exit":
				if !waitGone(p.gid, fanStepTimeout) {
					out.Status = "hang:collector-exit"
				} else if cpc == "ctxDone" {
					cpc = "gone"
					logEv("cReturn")
				} else {
					cpc = "gone"
					logEv("cExit")
				}
			}
		case 'W':
			mv, _ := strconv.Atoi(who[1:]) // model index
			v := unbind[mv]                // real index
			rw := realW(mv)
			p := sch.releaseG(rw)
			switch wpc[v] {
			case "begin":
				if q := sch.waitPark(rw, fanStepTimeout); q == nil || q.step != "W.fn" {
					out.Status = "hang:begin"
				} else {
					wpc[v] = "fn"
					logEv("wBegin:" + who[1:])
				}
			case "fn":
				if q := sch.waitPark(rw, fanStepTimeout); q == nil || q.step != "W.return" {
					out.Status = "hang:fn"
				} else {
					wpc[v] = "return"
					logEv("wReturn:" + who[1:])
				}
			case "return":
				if a.Res[mv] < 0 {
					if !waitGone(p.gid, fanStepTimeout) {
						out.Status = "hang:fail"
					} else {
						wpc[v] = "gone"
						cancelled = true
						logEv("wFail:" + who[1:])
					}
				} else {
					if q := sch.waitPark(rw, fanStepTimeout); q == nil || q.step != "W.exit" {
						// the send blocks although the buffer has room for every result: off-model; keep scheduling the
						// others – it is a property failure only if the call can no longer finish
						wpc[v] = "inSend"
						out.Diverged = true
						fanSawHang()
					} else {
						wpc[v] = "exit"
						chCount++
						logEv("wSend:" + who[1:])
					}
				}
			case "exit":
				if !waitGone(p.gid, fanStepTimeout) {
					out.Status = "hang:worker-exit"
				} else {
					wpc[v] = "gone"
					logEv("wExit:" + who[1:])
				}
			}
		}
		if out.Status != "ok" {
			break
		}
	}
	if out.Status == "ok" && got == nil {
		out.Status = "hang:steps"
	}
	return finishFan(out, a, got, bind)
}

// finishFan records what the call returned.
func finishFan(out fanReal, a fanArgs, got *fanRet, bind []int) fanReal {
	if strings.HasPrefix(out.Status, "hang") {
		fanSawHang()
	}
	if strings.HasPrefix(out.Status, "hang") || out.Status == "deadlock" {
		fanStuck++
	}
	if got == nil {
		return out
	}
	if got.err != nil {
		out.ErrText = got.err.Error()
		if fe, ok := got.err.(fanErr); ok {
			v := fe.v
			out.Err = &v
		} else {
			v := -1
			out.Err = &v
		}
	}
	if got.p == nil {
		out.ErrText += " (nil project)"
		return out
	}
	out.Services = map[string]int{}
	orig := len(got.p.Services) == len(a.Res)
	for name, svc := range got.p.Services {
		// report by MODEL index
		key := "?" + name
		if j, err := strconv.Atoi(strings.TrimPrefix(name, "s")); err == nil && j >= 0 && j < len(bind) && bind[j] >= 0 {
			key = strconv.Itoa(bind[j])
		}
		if strings.HasPrefix(svc.Image, "r") {
			r, err := strconv.Atoi(svc.Image[1:])
			if err != nil {
				r = -2
			}
			out.Services[key] = r
			orig = false
		} else {
			out.Services[key] = -1
			if svc.Image != "orig-"+name {
				orig = false
			}
		}
		if svc.Name != name {
			out.BadInput = append(out.BadInput, "result:"+name)
		}
	}
	out.Orig = orig
	return out
}

type fanDrv struct {
	Accepted int        `json:"accepted"`
	Refused  *string    `json:"refused"`
	Pcs      []string   `json:"pcs"`
	Enabled  [][]string `json:"enabled"`
	Final    struct {
		Terminal bool     `json:"terminal"`
		Services *[][]int `json:"services"`
		Err      *int     `json:"err"`
		Enabled  []string `json:"enabled"`
	} `json:"final"`
}

func judgeFanout(args, real, drv json.RawMessage) *core.Verdict {
	if v := core.CrashVerdict(real); v != nil {
		v.Key = "fanout:" + v.Key
		return v
	}
	var a fanArgs
	var r fanReal
	var d fanDrv
	if json.Unmarshal(args, &a) != nil || json.Unmarshal(real, &r) != nil {
		return core.Disagree("malformed fan-out exchange")
	}
	n := len(a.Res)
	if r.Status == "skipped-after-repeated-hangs" {
		return core.Skip("this lane already reported repeated hangs of the fan-out")
	}
	// ---------------- direct oracle: the property on the real outcome
	if r.Status == "deadlock" || strings.HasPrefix(r.Status, "hang") {
		return core.Fail("fanout:deadlock:"+r.Status, fmt.Sprintf("WithServicesTransform does not finish (%s) after %v", r.Status, r.Trace))
	}
	if r.Status == "early-return" {
		return core.Fail("fanout:early-return", fmt.Sprintf("WithServicesTransform returned while goroutines were still running: %v", r.Trace))
	}
	firstFail := -1
	for _, l := range r.Trace {
		if strings.HasPrefix(l, "wFail:") {
			firstFail, _ = strconv.Atoi(l[6:])
			break
		}
	}
	anyErr := false
	for _, x := range a.Res {
		if x < 0 {
			anyErr = true
		}
	}
	for name, c := range r.Calls {
		if c != 1 {
			return core.Fail("fanout:fn-call-count", fmt.Sprintf("fn called %d times for %s", c, name))
		}
	}
	if len(r.Calls) != n {
		return core.Fail("fanout:fn-call-count", fmt.Sprintf("fn called for %d of %d services", len(r.Calls), n))
	}
	if len(r.BadInput) > 0 {
		return core.Fail("fanout:wrong-input", fmt.Sprintf("fn received / result carries a service value that is not the receiver's for %v", r.BadInput))
	}
	if !anyErr {
		if r.Err != nil {
			return core.Fail("fanout:spurious-error", "no fn call failed but an error is returned: "+r.ErrText)
		}
		if len(r.Services) != n {
			return core.Fail("fanout:lost-result", fmt.Sprintf("result has %d services, want %d (%v)", len(r.Services), n, r.Trace))
		}
		for v := 0; v < n; v++ {
			if got, ok := r.Services[strconv.Itoa(v)]; !ok || got != a.Res[v] {
				return core.Fail("fanout:lost-result", fmt.Sprintf("service s%d: result %v, want fn's %d (%v)", v, got, a.Res[v], r.Trace))
			}
		}
	} else {
		if r.Err == nil {
			return core.Fail("fanout:error-swallowed", fmt.Sprintf("an fn call failed but no error is returned (%v)", r.Trace))
		}
		if *r.Err != firstFail {
			return core.Fail("fanout:wrong-error", fmt.Sprintf("returned the error of s%d, the first failing call was s%d (%v)", *r.Err, firstFail, r.Trace))
		}
	}
	// ---------------- correspondence with the Lean transition system
	if drv == nil || json.Unmarshal(drv, &d) != nil {
		return core.Disagree("no driver answer")
	}
	if d.Accepted != len(r.Trace) {
		why := ""
		if d.Refused != nil {
			why = *d.Refused
		}
		return core.Disagree(fmt.Sprintf("the real run is not a run of the model: %s (trace %v)", why, r.Trace))
	}
	for i := range r.Trace {
		if i >= len(d.Pcs) || d.Pcs[i] != r.Pcs[i] {
			return core.Disagree(fmt.Sprintf("parked goroutines differ after %v: real %q, model %q", r.Trace[:i+1], r.Pcs[i], d.Pcs[i]))
		}
	}
	if !d.Final.Terminal || len(d.Final.Enabled) != 0 {
		return core.Disagree("the real call returned in a state the model does not consider terminal")
	}
	if (d.Final.Err == nil) != (r.Err == nil) || (r.Err != nil && *d.Final.Err != *r.Err) {
		return core.Disagree("returned error differs from the model's firstErr")
	}
	if d.Final.Services == nil {
		if !r.Orig {
			return core.Disagree("model: services untouched; real: services replaced")
		}
	} else {
		if len(*d.Final.Services) != len(r.Services) {
			return core.Disagree("result service set differs from the model's")
		}
		for _, kv := range *d.Final.Services {
			if len(kv) != 2 || r.Services[strconv.Itoa(kv[0])] != kv[1] {
				return core.Disagree("result service value differs from the model's")
			}
		}
		if r.Orig && n > 0 {
			return core.Disagree("model: services replaced; real: untouched")
		}
	}
	return nil
}

func init() {
	core.Register("fanout", &core.CheckDef{
		Real: func(raw json.RawMessage) any {
			var a fanArgs
			json.Unmarshal(raw, &a)
			if len(a.Res) > 8 {
				return map[string]any{"bad": "too many services"}
			}
			return runFanout(a)
		},
		DriverOp: "fanout.replay",
		DriverArgs: func(args, real json.RawMessage) any {
			var a fanArgs
			var r fanReal
			json.Unmarshal(args, &a)
			json.Unmarshal(real, &r)
			return map[string]any{"res": a.Res, "trace": r.Trace}
		},
		Judge:   judgeFanout,
		Timeout: 120 * time.Second,
	})
}

var _ = sort.Strings
