package c19

// C19 — the dependency-ordered traversal (graph.InDependencyOrder, also with graph.InReverseOrder) must not deadlock:
// check "travLive" runs it free (no controlled scheduler: that is C13's correspondence) with a watchdog on generated
// DAGs × concurrency limits {unlimited, 1, 2, 3} × both directions × error positions, and decides on the real outcome:
// it returns; every service is visited exactly once (on success), after the services it has to wait for; with a
// limit and no error at most `limit` visitors run at once; the injected error is the one returned.
// Theorem side: Props/C19Traversal.lean (`traversal_deadlock_free`, `traversal_terminates`, `traversal_can_finish`).

import (
	"context"
	"encoding/json"
	"errors"
	"fmt"
	"runtime"
	"sort"
	"strconv"
	"sync"
	"time"

	"github.com/compose-spec/compose-go/v2/graph"
	"github.com/compose-spec/compose-go/v2/types"

	"verifharness/core"
)

type travArgs struct {
	N       int      `json:"n"`
	Edges   [][2]int `json:"edges"` // [a, b]: service a depends on service b (b < a, so the graph is acyclic)
	Limit   int      `json:"limit"` // 0 = no WithMaxConcurrency option
	Reverse bool     `json:"reverse"`
	FailAt  int      `json:"fail_at"` // -1 = no visitor fails
	Seed    int64    `json:"seed"`    // perturbation of visitor durations
}

type travReal struct {
	Status  string   `json:"status"` // ok | deadlock | skipped
	Err     string   `json:"err_text,omitempty"`
	IsInj   bool     `json:"injected"`
	Visits  []int    `json:"visits"` // visit count per service
	Order   []string `json:"order"`  // s<i> / f<i> events
	MaxRun  int      `json:"max_running"`
	Elapsed float64  `json:"elapsed_ms"`
}

var travStuck int
var travMu sync.Mutex

// the traversal of ≤ 7 services takes microseconds; the watchdog only has to tell "slow machine" from "never"
const travWatchdog = 25 * time.Second

type travInjected struct{ v int }

func (e travInjected) Error() string { return "visitor failed on s" + strconv.Itoa(e.v) }

func runTrav(a travArgs) travReal {
	travMu.Lock()
	defer travMu.Unlock()
	if travStuck >= 6 {
		return travReal{Status: "skipped"}
	}
	p := &types.Project{Name: "t", Services: types.Services{}}
	for v := 0; v < a.N; v++ {
		name := "s" + strconv.Itoa(v)
		p.Services[name] = types.ServiceConfig{Name: name, DependsOn: types.DependsOnConfig{}}
	}
	for _, e := range a.Edges {
		p.Services["s"+strconv.Itoa(e[0])].DependsOn["s"+strconv.Itoa(e[1])] = types.ServiceDependency{Condition: types.ServiceConditionStarted, Required: true}
	}
	var mu sync.Mutex
	closed := false
	out := travReal{Status: "ok", Visits: make([]int, a.N), Order: []string{}}
	running := 0
	visitor := func(_ context.Context, name string, _ types.ServiceConfig) error {
		v, _ := strconv.Atoi(name[1:])
		mu.Lock()
		if !closed && v >= 0 && v < a.N {
			out.Visits[v]++
			out.Order = append(out.Order, "s"+strconv.Itoa(v))
			running++
			if running > out.MaxRun {
				out.MaxRun = running
			}
		}
		mu.Unlock()
		switch (a.Seed + int64(v)*7) % 4 {
		case 0:
			runtime.Gosched()
		case 1:
			time.Sleep(time.Duration(20+(a.Seed+int64(v))%80) * time.Microsecond)
		}
		mu.Lock()
		if !closed {
			running--
			out.Order = append(out.Order, "f"+strconv.Itoa(v))
		}
		mu.Unlock()
		if v == a.FailAt {
			return travInjected{v}
		}
		return nil
	}
	var opts []func(*graph.Options)
	if a.Limit > 0 {
		opts = append(opts, graph.WithMaxConcurrency(a.Limit))
	}
	if a.Reverse {
		opts = append(opts, graph.InReverseOrder)
	}
	done := make(chan error, 1)
	t0 := time.Now()
	go func() {
		done <- graph.InDependencyOrder(context.Background(), p, visitor, opts...)
	}()
	select {
	case err := <-done:
		if err != nil {
			out.Err = err.Error()
			var inj travInjected
			out.IsInj = errors.As(err, &inj) && inj.v == a.FailAt
		}
	case <-time.After(travWatchdog):
		out.Status = "deadlock"
		travStuck++
	}
	out.Elapsed = float64(time.Since(t0).Microseconds()) / 1000
	mu.Lock()
	closed = true
	res := out
	res.Visits = append([]int{}, out.Visits...)
	res.Order = append([]string{}, out.Order...)
	mu.Unlock()
	return res
}

func judgeTrav(args, real, _ json.RawMessage) *core.Verdict {
	if v := core.CrashVerdict(real); v != nil {
		v.Key = "traversal:" + v.Key
		return v
	}
	var a travArgs
	var r travReal
	if json.Unmarshal(args, &a) != nil || json.Unmarshal(real, &r) != nil {
		return core.Disagree("malformed traversal exchange")
	}
	if r.Status == "skipped" {
		return core.Skip("this lane already reported repeated traversal deadlocks")
	}
	if r.Status == "deadlock" {
		return core.Fail(fmt.Sprintf("traversal:deadlock:limit=%d", a.Limit),
			fmt.Sprintf("the walk of %d services (edges %v, limit %d, reverse %v, failing visitor %d) did not return within %s; events so far %v", a.N, a.Edges, a.Limit, a.Reverse, a.FailAt, travWatchdog, r.Order))
	}
	// what each service has to wait for
	wait := map[int][]int{}
	for _, e := range a.Edges {
		if a.Reverse {
			wait[e[1]] = append(wait[e[1]], e[0])
		} else {
			wait[e[0]] = append(wait[e[0]], e[1])
		}
	}
	finished := map[int]bool{}
	for _, ev := range r.Order {
		v, _ := strconv.Atoi(ev[1:])
		if ev[0] == 'f' {
			finished[v] = true
			continue
		}
		for _, d := range wait[v] {
			if !finished[d] {
				return core.Fail("traversal:order", fmt.Sprintf("s%d was visited before s%d had finished (%v)", v, d, r.Order))
			}
		}
	}
	for v, c := range r.Visits {
		if c > 1 {
			return core.Fail("traversal:count", fmt.Sprintf("s%d visited %d times", v, c))
		}
	}
	if a.FailAt < 0 {
		if r.Err != "" {
			return core.Fail("traversal:spurious-error", "no visitor failed but the walk returned "+r.Err)
		}
		for v, c := range r.Visits {
			if c != 1 {
				return core.Fail("traversal:count", fmt.Sprintf("s%d visited %d times on a successful walk", v, c))
			}
		}
		if a.Limit > 0 && r.MaxRun > a.Limit {
			return core.Fail("traversal:over-limit", fmt.Sprintf("%d visitors ran at once under WithMaxConcurrency(%d)", r.MaxRun, a.Limit))
		}
	} else {
		if r.Visits[a.FailAt] == 1 && !r.IsInj {
			return core.Fail("traversal:wrong-error", fmt.Sprintf("the visitor of s%d failed but the walk returned %q", a.FailAt, r.Err))
		}
	}
	return nil
}

func travDAGs(n int) [][][2]int {
	var pairs [][2]int
	for a := 0; a < n; a++ {
		for b := 0; b < a; b++ {
			pairs = append(pairs, [2]int{a, b})
		}
	}
	var out [][][2]int
	for mask := 0; mask < 1<<len(pairs); mask++ {
		edges := [][2]int{}
		for i, p := range pairs {
			if mask&(1<<i) != 0 {
				edges = append(edges, p)
			}
		}
		out = append(out, edges)
	}
	return out
}

func runC19Trav(ctx *core.Ctx) {
	// exhaustive: every DAG on 1..3 (quick) / 1..4 (thorough) services × limits × directions × error positions
	maxN := ctx.Pick(3, 4)
	for n := 1; n <= maxN; n++ {
		for _, edges := range travDAGs(n) {
			for _, limit := range []int{0, 1, 2, 3} {
				for _, rev := range []bool{false, true} {
					for fail := -1; fail < n; fail++ {
						if n == 4 && fail >= 0 && limit == 0 {
							continue
						}
						ctx.Count(fmt.Sprintf("traversal:exhaustive:n=%d:limit=%d", n, limit))
						ctx.Add("travLive", travArgs{N: n, Edges: edges, Limit: limit, Reverse: rev, FailAt: fail, Seed: int64(len(edges)*31 + fail + 1)})
					}
				}
			}
		}
	}
	// seeded random DAGs on 4..7 services
	k := ctx.Pick(400, 6000)
	for i := 0; i < k; i++ {
		n := 4 + ctx.Rng.Intn(4)
		var edges [][2]int
		dens := 2 + ctx.Rng.Intn(3)
		for a := 0; a < n; a++ {
			for b := 0; b < a; b++ {
				if ctx.Rng.Intn(dens) == 0 {
					edges = append(edges, [2]int{a, b})
				}
			}
		}
		fail := -1
		if ctx.Rng.Intn(3) == 0 {
			fail = ctx.Rng.Intn(n)
		}
		limit := ctx.Rng.Intn(4)
		sort.Slice(edges, func(i, j int) bool {
			return edges[i][0] < edges[j][0] || (edges[i][0] == edges[j][0] && edges[i][1] < edges[j][1])
		})
		ctx.Count(fmt.Sprintf("traversal:random:limit=%d", limit))
		ctx.Add("travLive", travArgs{N: n, Edges: edges, Limit: limit, Reverse: ctx.Rng.Intn(2) == 0, FailAt: fail, Seed: ctx.Rng.Int63n(1 << 30)})
	}
}

func init() {
	core.Register("travLive", &core.CheckDef{
		Real: func(raw json.RawMessage) any {
			var a travArgs
			json.Unmarshal(raw, &a)
			if a.N > 12 {
				return map[string]any{"bad": "too many services"}
			}
			return runTrav(a)
		},
		Judge:   judgeTrav,
		Timeout: 60 * time.Second,
	})
}
