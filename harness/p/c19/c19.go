package c19

// C19 — the library is safe to use from concurrent goroutines.
//
//	fanout   (c19fanout.go)  WithServicesTransform under a controlled scheduler vs the Lean transition system + direct oracle
//	race     (c19race.go)    concurrent loads under the race detector vs sequential loads (separate -race helper binary)

import (
	"bytes"
	"encoding/json"
	"fmt"
	"os"
	"os/exec"
	"strconv"
	"strings"
	"time"

	"verifharness/core"
)

// askDriver runs one op of the Lean driver from the generator (the model itself enumerates the schedules to follow).
func askDriver(ctx *core.Ctx, op string, args any) (json.RawMessage, error) {
	a, _ := json.Marshal(args)
	line := fmt.Sprintf(`{"id":1,"op":%q,"args":%s}`+"\n\n", op, a)
	cmd := exec.Command(ctx.Driver)
	cmd.Stdin = bytes.NewReader([]byte(line))
	var out bytes.Buffer
	cmd.Stdout = &out
	done := make(chan error, 1)
	if err := cmd.Start(); err != nil {
		return nil, err
	}
	go func() { done <- cmd.Wait() }()
	select {
	case err := <-done:
		if err != nil {
			return nil, err
		}
	case <-time.After(120 * time.Second):
		cmd.Process.Kill()
		return nil, fmt.Errorf("driver timeout")
	}
	var w struct {
		Out json.RawMessage `json:"out"`
	}
	if err := json.Unmarshal(bytes.TrimSpace(out.Bytes()), &w); err != nil {
		return nil, err
	}
	return w.Out, nil
}

// fanPrefix: the two steps of the caller that precede its first yield (read of the field, start of the collector).
func fanPrefix() []string { return []string{"mRead", "mSpawnC"} }

// fanSpawnAll: the prefix followed by every spawn (in list order: the scheduler binds real services to model ones).
func fanSpawnAll(n int) []string {
	p := fanPrefix()
	for v := 0; v < n; v++ {
		p = append(p, "mSpawn:"+strconv.Itoa(v))
	}
	return p
}

// allRes enumerates every error position set on n services: res[v] = 10+v or -1.
func allRes(n int) [][]int {
	var out [][]int
	for mask := 0; mask < 1<<n; mask++ {
		res := make([]int, n)
		for v := 0; v < n; v++ {
			if mask&(1<<v) != 0 {
				res[v] = -1
			} else {
				res[v] = 10 + v
			}
		}
		out = append(out, res)
	}
	return out
}

func permutations(n int) [][]int {
	var out [][]int
	p := make([]int, n)
	for i := range p {
		p[i] = i
	}
	var rec func(k int)
	rec = func(k int) {
		if k == n {
			out = append(out, append([]int{}, p...))
			return
		}
		for i := k; i < n; i++ {
			p[k], p[i] = p[i], p[k]
			rec(k + 1)
			p[k], p[i] = p[i], p[k]
		}
	}
	rec(0)
	return out
}

// completionPlan: workers complete in the order `perm`; the collector runs eagerly / lazily / after every worker reached its send.
func completionPlan(res []int, perm []int, mode string) []string {
	n := len(res)
	plan := fanSpawnAll(n)
	if mode == "serial" || mode == "serial-lazy" {
		plan = fanPrefix()
	}
	step := func(v int, k int) {
		ls := []string{"wBegin", "wReturn", "wSend", "wExit"}
		if res[v] < 0 {
			ls = []string{"wBegin", "wReturn", "wFail"}
		}
		if k < len(ls) {
			plan = append(plan, ls[k]+":"+strconv.Itoa(v))
		}
	}
	switch mode {
	case "eager":
		for _, v := range perm {
			for k := 0; k < 4; k++ {
				step(v, k)
			}
			plan = append(plan, "cRecv", "cStore")
		}
	case "lazy":
		for _, v := range perm {
			for k := 0; k < 4; k++ {
				step(v, k)
			}
		}
	case "mid": // every fn call has returned before the first send / failure
		for _, v := range perm {
			step(v, 0)
			step(v, 1)
		}
		for _, v := range perm {
			step(v, 2)
			plan = append(plan, "cRecv", "cStore")
		}
	case "serial", "serial-lazy": // every worker finishes before the next one is even spawned
		for _, v := range perm {
			plan = append(plan, "mSpawn:"+strconv.Itoa(v))
			for k := 0; k < 4; k++ {
				step(v, k)
			}
			if mode == "serial" {
				plan = append(plan, "cRecv", "cStore", "cCtxDone", "cReturn")
			}
		}
	case "waitfirst":
		plan = append(plan, "mWait")
		for _, v := range perm {
			for k := 0; k < 3; k++ {
				step(v, k)
			}
		}
	}
	return plan
}

// VERIF_C19_ONLY=race,travrace,lock,trav,fanout (development aid) restricts a run to some of the streams; unset = all of them.
func c19Stream(name string) bool {
	only := os.Getenv("VERIF_C19_ONLY")
	if only == "" {
		return true
	}
	for _, s := range strings.Split(only, ",") {
		if s == name {
			return true
		}
	}
	return false
}

func runC19(ctx *core.Ctx) {
	if c19Stream("race") {
		runC19Race(ctx)
	}
	if c19Stream("travrace") {
		runC19TravRace(ctx)
	}
	if c19Stream("lock") {
		runC19Lock(ctx)
	}
	ctx.Wait()
	if c19Stream("trav") {
		runC19Trav(ctx)
	}
	if c19Stream("fanout") {
		runC19Fanout(ctx)
	}
}

func runC19Fanout(ctx *core.Ctx) {
	// ---- exhaustive small scope: every run of the MODEL on 0..1 (quick) / 0..2 (thorough) services and every
	// error position set is followed on the real code
	maxExh := ctx.Pick(1, 2)
	for n := 0; n <= maxExh; n++ {
		for _, res := range allRes(n) {
			out, err := askDriver(ctx, "fanout.enum", map[string]any{"res": res, "limit": 400000, "prefix": fanPrefix()})
			if err != nil {
				ctx.Note("fanout.enum failed: %v", err)
				continue
			}
			var runs struct {
				Runs [][]string `json:"runs"`
			}
			json.Unmarshal(out, &runs)
			for _, r := range runs.Runs {
				ctx.Count(fmt.Sprintf("fanout:model-run:n=%d", n))
				ctx.Add("fanout", fanArgs{Res: res, Plan: r, Mode: "follow"})
			}
		}
	}
	// ---- all completion orders × all error position sets × collector policies
	maxPerm := ctx.Pick(4, 6)
	for n := 0; n <= maxPerm; n++ {
		ress := allRes(n)
		if n >= 5 { // at most one / two failing positions beyond 4 services
			var few [][]int
			for _, r := range ress {
				c := 0
				for _, x := range r {
					if x < 0 {
						c++
					}
				}
				if c <= 7-n {
					few = append(few, r)
				}
			}
			ress = few
		}
		for _, perm := range permutations(n) {
			for _, res := range ress {
				for _, mode := range []string{"eager", "lazy", "mid", "waitfirst", "serial", "serial-lazy"} {
					if n >= 5 && (mode == "lazy" || mode == "waitfirst" || mode == "serial-lazy") {
						continue
					}
					ctx.Count("fanout:completion-order:" + mode)
					ctx.Add("fanout", fanArgs{Res: res, Plan: completionPlan(res, perm, mode), Mode: "follow"})
				}
			}
		}
	}
	ctx.Res.Exhaustive = true
	// ---- model-sampled runs on 2..6 services
	for n := 2; n <= 6; n++ {
		k := ctx.Pick(150, 1500)
		for i := 0; i < 4; i++ {
			res := make([]int, n)
			for v := range res {
				res[v] = 10 + v
				if ctx.Rng.Intn(4) == 0 {
					res[v] = -1
				}
			}
			out, err := askDriver(ctx, "fanout.sample", map[string]any{"res": res, "seed": ctx.Rng.Intn(1 << 30), "count": k, "prefix": fanPrefix()})
			if err != nil {
				ctx.Note("fanout.sample failed: %v", err)
				continue
			}
			var runs struct {
				Runs [][]string `json:"runs"`
			}
			json.Unmarshal(out, &runs)
			for _, r := range runs.Runs {
				ctx.Count(fmt.Sprintf("fanout:model-sample:n=%d", n))
				ctx.Add("fanout", fanArgs{Res: res, Plan: r, Mode: "follow"})
			}
		}
	}
	// ---- seeded random schedules chosen by the harness (with blocked-step probes)
	nr := ctx.Pick(3000, 60000)
	for i := 0; i < nr; i++ {
		n := ctx.Rng.Intn(7)
		res := make([]int, n)
		p := []int{0, 0, 6, 3, 2}[ctx.Rng.Intn(5)]
		for v := range res {
			res[v] = 100 + ctx.Rng.Intn(50)
			if p > 0 && ctx.Rng.Intn(p) == 0 {
				res[v] = -1
			}
		}
		ctx.Count(fmt.Sprintf("fanout:random:n=%d", n))
		ctx.Add("fanout", fanArgs{Res: res, Mode: "rand", Seed: ctx.Rng.Int63(), Probe: ctx.Rng.Intn(3) == 0})
	}
}

func init() {
	core.RegisterProp("C19", runC19)
}
