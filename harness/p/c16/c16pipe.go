package c16

// Round 6 — the composed pipeline (Model/Pipeline.lean, tied to loader.LoadModelWithContext by the check
// `pipeline.load` of harness/p/pipeline) driven with C16's input class: services whose `environment` (sequence form with
// `K=V` / bare `K` / elements whose whole text `K=V` is a variable of the project environment / non-string elements;
// mapping form with null entries), `labels`, `env_file` (short and long form, required / format) and `label_file`
// meet a project environment over the same keys, with and without normalization, in one or two documents.
// Props/C16Whole.lean (`pipeline_item`, `pipeline_service_env`, `pipeline_load_env_clause`, `normalize_item`,
// `pipeline_two_stages_seq`, `pipeline_normalize_map`) proves that the two stages of that pipeline that resolve value-less
// entries are C16's `resolveSeqEnv` / `normalizeEnv`; this stream measures that the pipeline is the real loader on the
// inputs those theorems talk about.

import (
	"fmt"
	"os"
	"strings"

	"verifharness/core"
)

func c16PipeStream(ctx *core.Ctx) {
	if only := os.Getenv("VERIF_C16_STREAMS"); only != "" && !strings.Contains(","+only+",", ",pipe,") {
		return
	}
	r := ctx.Rng
	keys := []string{"A", "B", "C", "D_1", "e"}
	n := ctx.Pick(600, 12000)
	for i := 0; i < n; i++ {
		env := map[string]string{}
		for _, k := range keys {
			switch r.Intn(5) {
			case 0, 1:
				env[k] = "P." + k
			case 2:
				env[k] = ""
			}
		}
		if r.Intn(6) == 0 {
			env["A=1"] = "whole-text" // `- A=1` is looked up as a whole (Neg.load_env_precedence_false_without_NoEqKeys)
			ctx.Count("c16-pipeline:penv-key-with-equals")
		}
		doc := func(layer int) map[string]any {
			svcs := map[string]any{}
			for s, ns := 0, 1+r.Intn(2); s < ns; s++ {
				svc := map[string]any{"image": "img"}
				switch r.Intn(4) {
				case 0, 1:
					items := []any{}
					for _, k := range keys {
						switch r.Intn(5) {
						case 0:
							items = append(items, k)
							ctx.Count("c16-pipeline:seq-bare")
						case 1:
							items = append(items, fmt.Sprintf("%s=v%d.%s", k, layer, k))
						case 2:
							items = append(items, k+"=")
						}
					}
					if r.Intn(5) == 0 {
						items = append(items, "A=1")
					}
					if r.Intn(12) == 0 {
						items = append(items, 1) // dropped by resolveServicesEnvironment (`continue`), rejected by the schema
						ctx.Count("c16-pipeline:seq-non-string")
					}
					svc["environment"] = items
					ctx.Count("c16-pipeline:environment-sequence")
				case 2:
					m := map[string]any{}
					for _, k := range keys {
						switch r.Intn(5) {
						case 0:
							m[k] = nil
							ctx.Count("c16-pipeline:map-null")
						case 1:
							m[k] = fmt.Sprintf("v%d.%s", layer, k)
						case 2:
							m[k] = ""
						}
					}
					svc["environment"] = m
					ctx.Count("c16-pipeline:environment-mapping")
				}
				switch r.Intn(4) {
				case 0:
					svc["labels"] = []any{"A=l" + fmt.Sprint(layer), "B", "A=again"}
				case 1:
					svc["labels"] = map[string]any{"A": "l" + fmt.Sprint(layer), "B": nil}
				}
				switch r.Intn(4) {
				case 0:
					svc["env_file"] = []any{"a.env", map[string]any{"path": "sub/b.env", "required": false}}
				case 1:
					svc["env_file"] = []any{map[string]any{"path": "c.env", "format": "raw", "required": r.Intn(2) == 0}, "a.env"}
				case 2:
					svc["env_file"] = "a.env"
				}
				if r.Intn(3) == 0 {
					svc["label_file"] = []any{"l1.lbl", "./sub/l2.lbl"}[:1+r.Intn(2)]
				}
				svcs[[]string{"s", "t"}[s]] = svc
			}
			return map[string]any{"services": svcs}
		}
		docs := []core.T{core.EncodeVal(doc(0))}
		if r.Intn(3) == 0 {
			docs = append(docs, core.EncodeVal(doc(1))) // an override file: env_file / label_file appended, environment merged by key
			ctx.Count("c16-pipeline:two-documents")
		}
		opts := map[string]any{"skipInterpolation": false, "skipValidation": r.Intn(6) == 0, "skipDefaultValues": false,
			"resolvePaths": r.Intn(4) != 0, "skipNormalization": r.Intn(3) == 0, "extends": false}
		if opts["skipNormalization"].(bool) {
			ctx.Count("c16-pipeline:skip-normalization")
		}
		ctx.Count("c16-pipeline:cases")
		wd := "/nonexistent-verif/proj"
		ctx.Add("pipeline.load", map[string]any{"docs": docs, "opts": opts, "env": env, "name": "c16", "wd": wd, "home": "/nonexistent-verif/home", "mainFile": wd + "/f0.yaml"})
	}
}

func init() {
	core.RegisterPropExtra("C16", c16PipeStream)
}
