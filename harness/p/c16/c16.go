package c16

// C16 — service environment and labels are layered with the documented precedence.
//
//	c16.resolve correspondence: Project.WithServicesEnvironmentResolved vs EnvLayers.resolveProjectEnv and
//	            Project.WithServicesLabelsResolved vs EnvLayers.resolveProjectLabels (same project, same tree)
//	c16.load    correspondence: environment/labels of a whole loader.LoadWithContext vs EnvLayers.loadProject
//	c16.oracle  direct oracle:  Project methods (discard on and off) and a whole load on a layer
//	            assignment vs the Lean *specification* (Spec/EnvLayers.lean: finalEnv / finalLabel)
//
// Env / label files are generated as tokenised simple lines (KEY=<literals and ${REF}s>, bare KEY, one
// rejected line) and rendered to text here; the dotenv lexical grammar itself is C18's.

import (
	"encoding/json"
	"errors"
	"fmt"
	"io"
	"os"
	"path/filepath"
	"regexp"
	"sort"
	"strconv"
	"strings"
	"sync/atomic"
	"time"

	"github.com/compose-spec/compose-go/v2/dotenv"
	"github.com/compose-spec/compose-go/v2/template"
	"github.com/compose-spec/compose-go/v2/types"

	"verifharness/core"
)

// c16Seg is one segment of a value in C07's wire format: literal, `$$`, `$NAME` / `${NAME}`, `${NAME<op>arg}`.
type c16Seg struct {
	Lit    *string  `json:"lit,omitempty"`
	Esc    *bool    `json:"esc,omitempty"`
	Var    *string  `json:"var,omitempty"`
	Braced bool     `json:"braced,omitempty"`
	Op     *string  `json:"op,omitempty"`
	O      string   `json:"o,omitempty"`
	Arg    []c16Seg `json:"arg,omitempty"`
}

func c16RenderSegs(l []c16Seg) string {
	var b strings.Builder
	for _, s := range l {
		switch {
		case s.Lit != nil:
			b.WriteString(*s.Lit)
		case s.Esc != nil:
			b.WriteString("$$")
		case s.Var != nil && s.Braced:
			b.WriteString("${" + *s.Var + "}")
		case s.Var != nil:
			b.WriteString("$" + *s.Var)
		case s.Op != nil:
			b.WriteString("${" + *s.Op + s.O + c16RenderSegs(s.Arg) + "}")
		}
	}
	return b.String()
}

type c16Line struct {
	K    *string  `json:"k,omitempty"`
	V    []c16Seg `json:"v,omitempty"`
	Bare *string  `json:"bare,omitempty"`
	Bad  bool     `json:"bad,omitempty"`
}

type c16Node struct {
	Lines  []c16Line `json:"lines"`
	Dir    bool      `json:"dir,omitempty"`
	NotDir bool      `json:"notdir,omitempty"` // nothing is created: a parent of the path is a regular file of the tree
}

type c16EnvFile struct {
	Path     string `json:"path"`
	Required bool   `json:"required"`
	Format   string `json:"format"`
}

type c16Item struct {
	K string  `json:"k"`
	V *string `json:"v,omitempty"`
}

type c16YEnv struct {
	List *[]c16Item    `json:"list,omitempty"`
	Map  *[][2]*string `json:"map,omitempty"`
}

type c16Service struct {
	Name        string       `json:"name"`
	Environment [][2]*string `json:"environment"`
	EnvFiles    []c16EnvFile `json:"env_files"`
	Labels      [][2]*string `json:"labels"`
	LabelFiles  []string     `json:"label_files"`
	YEnv        *c16YEnv     `json:"yenv,omitempty"`    // whole loads: the YAML form of `environment`
	YLabels     *c16YEnv     `json:"ylabels,omitempty"` // whole loads: the YAML form of `labels` (sequence `k=v` / `k`, mapping `k: v` / `k:`); replaces Labels
	ShortFiles  bool         `json:"short_files,omitempty"`
	// Extends (internal to the layouts, never part of a case): the service inherits `<Extends>` of base/b.yaml
	Extends string `json:"-"`
}

type c16Args struct {
	Penv                   map[string]string  `json:"penv"`
	Files                  map[string]c16Node `json:"files"`
	Services               []c16Service       `json:"services"`
	Discard                bool               `json:"discard"`
	SkipNormalization      bool               `json:"skip_normalization,omitempty"`
	SkipResolveEnvironment bool               `json:"skip_resolve_environment,omitempty"`
	// Extra (c16.resolve): also run the second caller, Project.WithServicesEnabled, with and without a name, and on the
	// already resolved project (`twice`)
	Extra bool `json:"extra,omitempty"`
	// Layout (c16.load): where the services are written.  "" = the main file; "include" = inc/compose.yaml, included by
	// the main file, env / label files under inc/ and listed relative to it; "extends" = every service is inherited with
	// `extends: {file: base/b.yaml, service: <name>}`, files under base/; "extends-split" = the first half of the
	// env_file / label_file lists (and, for odd services, `environment` / `labels`) is in the base service, the rest in
	// the main file (files exist in both directories).  The model is the same in all layouts (`relocation_env/labels`).
	Layout string `json:"layout,omitempty"`
	// Methods (c16.load): the second call site — load with SkipResolveEnvironment, then
	// project.WithServicesEnvironmentResolved(discard) on the loaded project (model: `loadThenResolveY`)
	Methods bool `json:"methods,omitempty"`
}

func sp(s string) *string { return &s }

func c16RenderLines(ls []c16Line) string {
	var b strings.Builder
	for _, l := range ls {
		switch {
		case l.Bare != nil:
			b.WriteString(*l.Bare + "\n")
		case l.K != nil:
			b.WriteString(*l.K + "=" + c16RenderSegs(l.V) + "\n")
		default:
			b.WriteString("A B=1\n")
		}
	}
	return b.String()
}

// c16WriteTree materialises the file nodes under a fresh root.
// c16TreeBase: trees live on tmpfs when there is one (tens of thousands of tiny directory trees per run);
// the directory is named after the run's scratch directory and removed by runC16.
func c16TreeBase() string {
	scratch := os.Getenv("VERIF_SCRATCH")
	if scratch == "" {
		return ""
	}
	shm := "/dev/shm/" + filepath.Base(scratch)
	if err := os.MkdirAll(shm, 0o755); err == nil {
		return shm
	}
	return scratch
}

// c16RemoveTree removes a tree and, when it was the last one, the tmpfs base directory (so that replays,
// which do not go through runC16, leave nothing behind either).
func c16RemoveTree(root string) {
	if root == "" {
		return
	}
	os.RemoveAll(root)
	if base := filepath.Dir(root); strings.HasPrefix(base, "/dev/shm/") {
		os.Remove(base) // fails while other lanes have trees there
	}
}

func c16WriteTree(files map[string]c16Node) (string, error) {
	var root string
	var err error
	for try := 0; try < 8; try++ { // another lane may remove the empty base between MkdirAll and MkdirTemp
		if root, err = os.MkdirTemp(c16TreeBase(), "c16-"); err == nil {
			break
		}
	}
	if err != nil {
		return "", err
	}
	if r, err := filepath.EvalSymlinks(root); err == nil {
		root = r
	}
	for name, nd := range files {
		p := filepath.Join(root, name)
		if nd.NotDir {
			continue
		}
		if nd.Dir {
			if err := os.MkdirAll(p, 0o755); err != nil {
				return root, err
			}
			continue
		}
		if err := os.MkdirAll(filepath.Dir(p), 0o755); err != nil {
			return root, err
		}
		if err := os.WriteFile(p, []byte(c16RenderLines(nd.Lines)), 0o644); err != nil {
			return root, err
		}
	}
	return root, nil
}

var c16ErrClasses = []struct {
	re    *regexp.Regexp
	class string
}{
	{regexp.MustCompile(`(env|label) file .* not found`), "notFound"},
	{regexp.MustCompile(`unsupported env_file format`), "format"},
	{regexp.MustCompile(`is a directory|not a directory`), "read"},
	{regexp.MustCompile(`^line \d+: `), "parse"},
	{regexp.MustCompile(`key cannot contain a space|unexpected character`), "parse"},
}

func c16ErrClass(err error) string {
	var inv *template.InvalidTemplateError
	var req *template.MissingRequiredError
	if errors.As(err, &inv) || errors.As(err, &req) {
		return "template"
	}
	t := err.Error()
	for _, c := range c16ErrClasses {
		if c.re.MatchString(t) {
			return c.class
		}
	}
	return "other:" + t
}

func c16MWE(l [][2]*string) types.MappingWithEquals {
	if l == nil {
		return nil
	}
	m := types.MappingWithEquals{}
	for _, kv := range l {
		if kv[1] == nil {
			m[*kv[0]] = nil
		} else {
			v := *kv[1]
			m[*kv[0]] = &v
		}
	}
	return m
}

func c16Project(a c16Args, root string) *types.Project {
	p := &types.Project{Name: "c16", WorkingDir: root, Environment: types.Mapping{}, Services: types.Services{}}
	for k, v := range a.Penv {
		p.Environment[k] = v
	}
	for _, s := range a.Services {
		sc := types.ServiceConfig{Name: s.Name, Environment: c16MWE(s.Environment)}
		for _, f := range s.EnvFiles {
			sc.EnvFiles = append(sc.EnvFiles, types.EnvFile{Path: filepath.Join(root, f.Path), Required: f.Required, Format: f.Format})
		}
		if s.Labels != nil {
			sc.Labels = types.Labels{}
			for _, kv := range s.Labels {
				if kv[1] != nil {
					sc.Labels[*kv[0]] = *kv[1]
				}
			}
		}
		for _, f := range s.LabelFiles {
			sc.LabelFiles = append(sc.LabelFiles, filepath.Join(root, f))
		}
		p.Services[s.Name] = sc
	}
	return p
}

func c16Rel(root, p string) string {
	if r, err := filepath.Rel(root, p); err == nil {
		return r
	}
	return p
}

// c16Observe = Services[*].Environment, Labels, EnvFiles, LabelFiles of a project (the observation of the property)
func c16Observe(p *types.Project, root string) map[string]any {
	out := map[string]any{}
	for name, s := range p.Services {
		env := map[string]any{}
		for k, v := range s.Environment {
			if v == nil {
				env[k] = nil
			} else {
				env[k] = *v
			}
		}
		labels := map[string]any{}
		for k, v := range s.Labels {
			labels[k] = v
		}
		efs := []any{}
		for _, f := range s.EnvFiles {
			efs = append(efs, map[string]any{"path": c16Rel(root, f.Path), "required": f.Required, "format": f.Format})
		}
		lfs := []any{}
		for _, f := range s.LabelFiles {
			lfs = append(lfs, c16Rel(root, f))
		}
		out[name] = map[string]any{"environment": env, "labels": labels, "env_files": efs, "label_files": lfs}
	}
	return out
}

// c16Aliased reports a pair of keys of one resolved Environment that share their *string cell, or a cell shared with
// the project the method was called on ("It returns a new Project instance … and keep the original Project unchanged").
func c16Aliased(np, orig *types.Project) string {
	old := map[*string]string{}
	for name, s := range orig.Services {
		for k, v := range s.Environment {
			if v != nil {
				old[v] = name + "." + k
			}
		}
	}
	for name, s := range np.Services {
		seen := map[*string]string{}
		for k, v := range s.Environment {
			if v == nil {
				continue
			}
			if o, ok := seen[v]; ok {
				if o > k {
					o, k = k, o
				}
				return "two keys of " + name + " share one cell: " + o + ", " + k
			}
			seen[v] = k
			if o, ok := old[v]; ok {
				return name + "." + k + " shares its cell with the input's " + o
			}
		}
	}
	return ""
}

func c16Outcome(np *types.Project, err error, root string) any {
	if err != nil {
		return map[string]any{"err": c16ErrClass(err)}
	}
	return map[string]any{"ok": c16Observe(np, root)}
}

// both Project methods, each on the same fresh project and tree; with Extra also the second caller of environment
// resolution, Project.WithServicesEnabled.  Every call is followed by a look at its receiver: it must be unchanged.
func c16RealResolve(raw json.RawMessage) any {
	var a c16Args
	if err := json.Unmarshal(raw, &a); err != nil {
		return map[string]any{"bad": err.Error()}
	}
	root, err := c16WriteTree(a.Files)
	defer c16RemoveTree(root)
	if err != nil {
		return map[string]any{"bad": err.Error()}
	}
	out := map[string]any{}
	var mutated, aliased []string
	legs := []string{"env", "labels"}
	if a.Extra && len(a.Services) > 0 {
		legs = append(legs, "enabled", "enabled_none", "twice")
	}
	var resolved *types.Project
	for _, leg := range legs {
		recv := c16Project(a, root)
		if leg == "twice" {
			if resolved == nil {
				continue
			}
			recv = resolved
		}
		before, _ := json.Marshal(c16Observe(recv, root))
		var np *types.Project
		switch leg {
		case "env":
			np, err = recv.WithServicesEnvironmentResolved(a.Discard)
			if err == nil {
				resolved = np
			}
		case "labels":
			np, err = recv.WithServicesLabelsResolved(a.Discard)
		case "enabled", "twice":
			np, err = recv.WithServicesEnabled(a.Services[0].Name)
		case "enabled_none":
			np, err = recv.WithServicesEnabled()
		}
		after, _ := json.Marshal(c16Observe(recv, root))
		if !core.CanonEqual(before, after) {
			mutated = append(mutated, leg)
		}
		if err == nil && leg != "labels" {
			if what := c16Aliased(np, recv); what != "" {
				aliased = append(aliased, leg+": "+what)
			}
		}
		out[leg] = c16Outcome(np, err, root)
	}
	if mutated != nil {
		out["mutated"] = mutated
	}
	if aliased != nil {
		out["aliased"] = aliased
	}
	return out
}

// ---------------------------------------------------------------- whole loads

func yq(s string) string { return strconv.Quote(s) }

func c16Yaml(a c16Args) string {
	var b strings.Builder
	b.WriteString("services:\n")
	for _, s := range a.Services {
		b.WriteString("  " + s.Name + ":\n    image: img\n")
		if s.Extends != "" {
			b.WriteString("    extends:\n      file: base/b.yaml\n      service: " + s.Extends + "\n")
		}
		if s.YEnv != nil && s.YEnv.List != nil {
			b.WriteString("    environment:\n")
			for _, it := range *s.YEnv.List {
				if it.V != nil {
					b.WriteString("      - " + yq(it.K+"="+*it.V) + "\n")
				} else {
					b.WriteString("      - " + yq(it.K) + "\n")
				}
			}
		} else if s.YEnv != nil && s.YEnv.Map != nil {
			b.WriteString("    environment:\n")
			for _, kv := range *s.YEnv.Map {
				if kv[1] != nil {
					b.WriteString("      " + yq(*kv[0]) + ": " + yq(*kv[1]) + "\n")
				} else {
					b.WriteString("      " + yq(*kv[0]) + ":\n")
				}
			}
		}
		if len(s.EnvFiles) > 0 {
			b.WriteString("    env_file:\n")
			for _, f := range s.EnvFiles {
				if s.ShortFiles && f.Required && f.Format == "" {
					b.WriteString("      - " + yq(f.Path) + "\n")
					continue
				}
				b.WriteString("      - path: " + yq(f.Path) + "\n        required: " + strconv.FormatBool(f.Required) + "\n")
				if f.Format != "" {
					b.WriteString("        format: " + yq(f.Format) + "\n")
				}
			}
		}
		if s.YLabels != nil && s.YLabels.List != nil {
			b.WriteString("    labels:\n")
			for _, it := range *s.YLabels.List {
				if it.V != nil {
					b.WriteString("      - " + yq(it.K+"="+*it.V) + "\n")
				} else {
					b.WriteString("      - " + yq(it.K) + "\n")
				}
			}
			if len(*s.YLabels.List) == 0 {
				b.WriteString("      []\n")
			}
		} else if s.YLabels != nil && s.YLabels.Map != nil {
			b.WriteString("    labels:\n")
			for _, kv := range *s.YLabels.Map {
				if kv[1] != nil {
					b.WriteString("      " + yq(*kv[0]) + ": " + yq(*kv[1]) + "\n")
				} else {
					b.WriteString("      " + yq(*kv[0]) + ":\n")
				}
			}
			if len(*s.YLabels.Map) == 0 {
				b.WriteString("      {}\n")
			}
		} else if len(s.Labels) > 0 {
			b.WriteString("    labels:\n")
			for _, kv := range s.Labels {
				b.WriteString("      " + yq(*kv[0]) + ": " + yq(*kv[1]) + "\n")
			}
		}
		if len(s.LabelFiles) > 0 {
			b.WriteString("    label_file:\n")
			for _, f := range s.LabelFiles {
				b.WriteString("      - " + yq(f) + "\n")
			}
		}
	}
	return b.String()
}

func c16LoadReq(a c16Args) core.LoadReq {
	files := []string{"compose.yaml"}
	if a.Layout == "merge" {
		files = append(files, "compose.override.yaml")
	}
	return core.LoadReq{ConfigFiles: files, Env: a.Penv, ProjectName: "c16",
		SkipNormalization: a.SkipNormalization, SkipResolveEnvironment: a.SkipResolveEnvironment, DiscardEnvFiles: a.Discard}
}

func c16LayoutPrefix(layout string) string {
	switch layout {
	case "include":
		return "inc/"
	case "extends", "extends-split":
		return "base/"
	}
	return ""
}

// c16Docs: the YAML documents of a layout (path under the root → text); compose.yaml is the file handed to the loader
func c16Docs(a c16Args) map[string]string {
	switch a.Layout {
	case "include":
		return map[string]string{"compose.yaml": "include:\n  - inc/compose.yaml\n", "inc/compose.yaml": c16Yaml(a)}
	case "extends", "extends-split", "merge":
		base, main := a, a
		base.Services, main.Services = nil, nil
		for i, s := range a.Services {
			b, m := s, c16Service{Name: s.Name, Extends: s.Name, ShortFiles: s.ShortFiles}
			if a.Layout == "merge" {
				m.Extends = ""
			}
			if a.Layout == "extends-split" || a.Layout == "merge" {
				ne, nl := (len(s.EnvFiles)+1)/2, (len(s.LabelFiles)+1)/2
				b.EnvFiles, m.EnvFiles = s.EnvFiles[:ne], s.EnvFiles[ne:]
				b.LabelFiles, m.LabelFiles = s.LabelFiles[:nl], s.LabelFiles[nl:]
				if i%2 == 0 {
					m.YEnv, m.YLabels, m.Labels = s.YEnv, s.YLabels, s.Labels
					b.YEnv, b.YLabels, b.Labels = nil, nil, nil
				}
			}
			base.Services = append(base.Services, b)
			main.Services = append(main.Services, m)
		}
		if a.Layout == "merge" {
			// round 7: base + override, two config files of one directory; override.mergeToSequence appends the
			// overriding lists to the base lists, then override.EnforceUnicity runs over the merged service
			return map[string]string{"compose.yaml": c16Yaml(base), "compose.override.yaml": c16Yaml(main)}
		}
		return map[string]string{"compose.yaml": c16Yaml(main), "base/b.yaml": c16Yaml(base)}
	}
	return map[string]string{"compose.yaml": c16Yaml(a)}
}

func c16RealLoad(a c16Args) any {
	prefix := c16LayoutPrefix(a.Layout)
	files := a.Files
	if prefix != "" {
		files = map[string]c16Node{}
		for p, nd := range a.Files {
			files[prefix+p] = nd
			if a.Layout == "extends-split" {
				files[p] = nd
			}
		}
	}
	root, err := c16WriteTree(files)
	defer c16RemoveTree(root)
	if err != nil {
		return map[string]any{"bad": err.Error()}
	}
	for p, text := range c16Docs(a) {
		if err := os.MkdirAll(filepath.Dir(filepath.Join(root, p)), 0o755); err != nil {
			return map[string]any{"bad": err.Error()}
		}
		if err := os.WriteFile(filepath.Join(root, p), []byte(text), 0o644); err != nil {
			return map[string]any{"bad": err.Error()}
		}
	}
	req := c16LoadReq(a)
	if a.Methods {
		req.SkipResolveEnvironment = true
	}
	p, err := req.LoadIn(root)
	if err == nil && a.Methods {
		// the second call site: what a caller of cli.WithoutEnvironmentResolution does later
		p, err = p.WithServicesEnvironmentResolved(a.Discard)
	}
	if err != nil {
		return map[string]any{"err": c16ErrClass(err)}
	}
	obs := c16Observe(p, root)
	if prefix != "" {
		// references as written: the loader has made them relative to the directory of the included / extended file
		for _, o := range obs {
			m := o.(map[string]any)
			for _, f := range m["env_files"].([]any) {
				fm := f.(map[string]any)
				fm["path"] = strings.TrimPrefix(fm["path"].(string), prefix)
			}
			lfs := m["label_files"].([]any)
			for i, f := range lfs {
				lfs[i] = strings.TrimPrefix(f.(string), prefix)
			}
		}
	}
	return map[string]any{"ok": obs}
}

// ---------------------------------------------------------------- judges

// c16Corr: real ok ⇒ equal to the model; real err ⇒ its class is one of the model's failing services' classes.
func c16Corr(what string) func(args, real, drv json.RawMessage) *core.Verdict {
	return func(args, real, drv json.RawMessage) *core.Verdict {
		if v := core.CrashVerdict(real); v != nil {
			return v
		}
		var r struct {
			Err *string `json:"err"`
		}
		var d struct {
			Errs []string `json:"errs"`
		}
		json.Unmarshal(real, &r)
		json.Unmarshal(drv, &d)
		if r.Err != nil {
			for _, e := range d.Errs {
				if e == *r.Err {
					return nil
				}
			}
			return core.Disagree(what + ": real error class " + *r.Err + " not among the model's " + fmt.Sprint(d.Errs))
		}
		if !core.CanonEqual(real, drv) {
			return core.Disagree(what + ": model ≠ real")
		}
		return nil
	}
}

// ---------------------------------------------------------------- oracle

type c16Layer struct {
	Path     string    `json:"path"`
	Lines    []c16Line `json:"lines"`
	Present  bool      `json:"present"`
	Required bool      `json:"required"`
	// UnderFile (only with !Present): the path is Path + "/x" and Path itself is a regular file, so that
	// nothing exists at the listed path but os.Stat says ENOTDIR rather than ENOENT
	UnderFile bool `json:"under_file,omitempty"`
}

func (l c16Layer) listed() string {
	if l.UnderFile && !l.Present {
		return l.Path + "/x"
	}
	return l.Path
}

type c16OracleArgs struct {
	Penv        map[string]string `json:"penv"`
	EnvLayers   []c16Layer        `json:"env_layers"`
	LabelLayers []c16Layer        `json:"label_layers"`
	Environment [][2]*string      `json:"environment"`
	Labels      [][2]*string      `json:"labels"`
	Keys        []string          `json:"keys"`
	ListForm    bool              `json:"list_form"`
	Discard     bool              `json:"discard"`
	NoLoad      bool              `json:"no_load,omitempty"`
	// Sites: also the second call site (load with SkipResolveEnvironment + Project method) and the three layouts in
	// which the services are written in another directory (included file, extends.file whole / split)
	Sites bool `json:"sites,omitempty"`
	// SiteLayout: the one layout run with Sites ("" = all three; the generators rotate)
	SiteLayout string `json:"site_layout,omitempty"`
	// Merge (round 7): also the base + override layout (file lists split over two config files of one directory)
	Merge bool `json:"merge,omitempty"`
}

func (o c16OracleArgs) toArgs(discard bool) c16Args {
	a := c16Args{Penv: o.Penv, Files: map[string]c16Node{}, Discard: discard}
	s := c16Service{Name: "s", Environment: o.Environment, Labels: o.Labels, ShortFiles: true}
	for _, l := range o.EnvLayers {
		if l.Present || l.UnderFile {
			a.Files[l.Path] = c16Node{Lines: l.Lines}
		}
		s.EnvFiles = append(s.EnvFiles, c16EnvFile{Path: l.listed(), Required: l.Required})
	}
	for _, l := range o.LabelLayers {
		if l.Present {
			a.Files[l.Path] = c16Node{Lines: l.Lines}
		}
		s.LabelFiles = append(s.LabelFiles, l.Path)
	}
	// a sibling service with its own files, environment and labels over the same keys: nothing of it may show up in `s`.
	// After its own file (which defines every key differently) it lists **the same env / label files as `s`**, so that a
	// file shared by two services is read in two different contexts: its cross-references must be resolved per service
	// (`project_env_ok`: no state shared between services), whichever service Go's map range visits first.
	sib := c16Service{Name: "sibling", EnvFiles: []c16EnvFile{{Path: "sibling.env", Required: true}}, LabelFiles: []string{"sibling.lbl"}}
	for _, l := range o.EnvLayers {
		sib.EnvFiles = append(sib.EnvFiles, c16EnvFile{Path: l.listed(), Required: false})
	}
	for _, l := range o.LabelLayers {
		if l.Present {
			sib.LabelFiles = append(sib.LabelFiles, l.Path)
		}
	}
	var sl []c16Line
	for _, k := range append(append([]string{}, o.Keys...), "SIBLING") {
		sl = append(sl, c16Assign(k, c16Lit("leak."+k)))
		sib.Environment = append(sib.Environment, c16kv(k, sp("leak-env."+k)))
		sib.Labels = append(sib.Labels, c16kv(k, sp("leak-label."+k)))
	}
	a.Files["sibling.env"] = c16Node{Lines: sl}
	a.Files["sibling.lbl"] = c16Node{Lines: sl}
	sib.YEnv = &c16YEnv{Map: &sib.Environment}
	if len(o.Environment) > 0 {
		y := &c16YEnv{}
		if o.ListForm {
			items := []c16Item{}
			for _, kv := range o.Environment {
				items = append(items, c16Item{K: *kv[0], V: kv[1]})
			}
			y.List = &items
		} else {
			m := append([][2]*string{}, o.Environment...)
			y.Map = &m
		}
		s.YEnv = y
	}
	if o.ListForm && len(o.Labels) > 0 {
		// whole loads: `labels` in its sequence form, the first key once more in front as a bare element (the empty
		// value) — the later `k=v` element must win (Labels.DecodeMapstructure; the Project methods are given o.Labels)
		items := []c16Item{{K: *o.Labels[0][0]}}
		for _, kv := range o.Labels {
			if kv[1] == nil {
				items = nil
				break
			}
			if *kv[1] == "" {
				items = append(items, c16Item{K: *kv[0]}) // the empty value, written as a bare element
			} else {
				items = append(items, c16Item{K: *kv[0], V: kv[1]})
			}
		}
		if items != nil {
			s.YLabels = &c16YEnv{List: &items}
		}
	}
	a.Services = []c16Service{s, sib}
	return a
}

// the Project methods in the order modelToProject applies them
func c16RealDirect(a c16Args) any {
	root, err := c16WriteTree(a.Files)
	defer c16RemoveTree(root)
	if err != nil {
		return map[string]any{"bad": err.Error()}
	}
	p := c16Project(a, root)
	np, err := p.WithServicesEnvironmentResolved(a.Discard)
	if err != nil {
		return map[string]any{"err": c16ErrClass(err)}
	}
	np, err = np.WithServicesLabelsResolved(a.Discard)
	if err != nil {
		return map[string]any{"err": c16ErrClass(err)}
	}
	return map[string]any{"ok": c16Observe(np, root)}
}

func c16RealOracle(raw json.RawMessage) any {
	var o c16OracleArgs
	if err := json.Unmarshal(raw, &o); err != nil {
		return map[string]any{"bad": err.Error()}
	}
	out := map[string]any{
		"direct":         c16RealDirect(o.toArgs(false)),
		"direct_discard": c16RealDirect(o.toArgs(true)),
	}
	if !o.NoLoad {
		out["load"] = c16RealLoad(o.toArgs(o.Discard))
		if o.ListForm && len(o.Environment) > 0 {
			// the loader stage "resolve environment entries of the form `- VAR`" on its own:
			// no normalization, no Project method
			a := o.toArgs(false)
			a.SkipNormalization, a.SkipResolveEnvironment = true, true
			out["load_seq_only"] = c16RealLoad(a)
		}
		if o.Merge {
			a := o.toArgs(o.Discard)
			a.Layout = "merge"
			out["load_merge"] = c16RealLoad(a)
		}
		if o.Sites {
			a := o.toArgs(o.Discard)
			a.Methods = true
			out["load_methods"] = c16RealLoad(a)
			for _, layout := range []string{"include", "extends", "extends-split"} {
				if o.SiteLayout != "" && o.SiteLayout != layout {
					continue
				}
				a := o.toArgs(o.Discard)
				a.Layout = layout
				out["load_"+layout] = c16RealLoad(a)
			}
		}
	}
	return out
}

type c16Obs struct {
	Environment map[string]*string `json:"environment"`
	Labels      map[string]*string `json:"labels"`
	EnvFiles    []c16EnvFile       `json:"env_files"`
	LabelFiles  []string           `json:"label_files"`
}

type c16Out struct {
	Ok  map[string]c16Obs `json:"ok"`
	Err *string           `json:"err"`
	Bad *string           `json:"bad"`
}

// c16Sig names the layers in which key k occurs (the stable part of a failure key).
func c16Sig(o c16OracleArgs, k string, labels bool) string {
	var in []string
	has := func(ls []c16Line) bool {
		for _, l := range ls {
			if (l.K != nil && *l.K == k) || (l.Bare != nil && *l.Bare == k) {
				return true
			}
		}
		return false
	}
	if labels {
		for i, l := range o.LabelLayers {
			if l.Present && has(l.Lines) {
				in = append(in, fmt.Sprintf("lf%d", i+1))
			}
		}
		for _, kv := range o.Labels {
			if *kv[0] == k {
				in = append(in, "labels")
			}
		}
		return strings.Join(in, "+")
	}
	if _, ok := o.Penv[k]; ok {
		in = append(in, "penv")
	}
	for i, l := range o.EnvLayers {
		if l.Present && has(l.Lines) {
			in = append(in, fmt.Sprintf("f%d", i+1))
		}
	}
	for _, kv := range o.Environment {
		if *kv[0] == k {
			switch {
			case kv[1] == nil:
				in = append(in, "env-novalue")
			case *kv[1] == "":
				in = append(in, "env-empty")
			default:
				in = append(in, "env-value")
			}
		}
	}
	return strings.Join(in, "+")
}

func c16PStr(p *string) string {
	if p == nil {
		return "<no value>"
	}
	return strconv.Quote(*p)
}

func c16JudgeOracle(args, real, drv json.RawMessage) *core.Verdict {
	if v := core.CrashVerdict(real); v != nil {
		return v
	}
	var o c16OracleArgs
	json.Unmarshal(args, &o)
	var r map[string]json.RawMessage
	if json.Unmarshal(real, &r) != nil {
		return core.Disagree("malformed oracle outcome")
	}
	var spec struct {
		Err         *string            `json:"err"`
		Environment map[string]*string `json:"environment"`
		Labels      map[string]*string `json:"labels"`
		WF          *bool              `json:"wf"`
	}
	if json.Unmarshal(drv, &spec) == nil && spec.WF != nil && !*spec.WF {
		return core.Skip("a value is not an unambiguous template (outside the specification's domain)")
	}
	if json.Unmarshal(drv, &spec) != nil || (spec.Err == nil && spec.Environment == nil) {
		return core.Disagree("malformed spec outcome: " + string(drv))
	}
	outs := map[string]c16Out{}
	// round 7: a path listed twice.  override.EnforceUnicity de-duplicates `env_file` lists of a whole load by path (first
	// position, last entry): where that contradicts the written order it is the recorded finding
	// `repeated-path-first-position:env_file`; `label_file` lists are not de-duplicated and must follow the written order
	envListed, repEnv := []c16EnvFile{}, false
	for _, l := range o.EnvLayers {
		for _, f := range envListed {
			repEnv = repEnv || f.Path == l.listed()
		}
		envListed = append(envListed, c16EnvFile{Path: l.listed(), Required: l.Required})
	}
	envFail := func(via, key, what string) *core.Verdict {
		if repEnv && strings.HasPrefix(via, "load") {
			return core.Fail("repeated-path-first-position:env_file", "an env_file path listed twice: the list is de-duplicated by path keeping the first position, the written order is lost ("+via+": "+what+")")
		}
		return core.Fail(key, what)
	}
	for _, via := range []string{"direct", "direct_discard", "load", "load_merge", "load_methods", "load_include", "load_extends", "load_extends-split"} {
		raw, ok := r[via]
		if !ok {
			continue
		}
		if v := core.CrashVerdict(raw); v != nil {
			return v
		}
		var out c16Out
		json.Unmarshal(raw, &out)
		outs[via] = out
		if out.Bad != nil {
			return core.Disagree("harness: " + *out.Bad)
		}
		if spec.Err != nil {
			if out.Err == nil {
				return core.Fail("failing-file-accepted:"+*spec.Err+":"+via, "the specification says the load fails ("+*spec.Err+": a required env file / a label file is missing, or a line of a file fails) but the result is a project")
			}
			// at the second call site the label files are read before the env files (`second_call_site_fails_iff`: it fails
			// iff the loader's own resolution fails, possibly with the error of the other phase)
			if *out.Err != *spec.Err && via != "load_methods" {
				return core.Fail("failing-file-error-class:"+via+":"+*spec.Err+"/"+*out.Err, "the load must fail as "+*spec.Err+" (first failing file) but fails as "+*out.Err)
			}
			continue
		}
		if out.Err != nil {
			for _, l := range o.EnvLayers {
				if l.UnderFile && !l.Present && !l.Required && *out.Err == "read" {
					return core.Fail("missing-optional-not-skipped:enotdir", "an env file marked required:false whose path lies under a regular file is not skipped: "+*out.Err)
				}
			}
			return core.Fail("unexpected-error:"+via+":"+strings.SplitN(*out.Err, ":", 2)[0], "the property gives a value but the real code fails: "+*out.Err)
		}
		obs, ok := out.Ok["s"]
		if !ok {
			return core.Disagree("service s not in the outcome")
		}
		keys := append([]string{}, o.Keys...)
		sort.Strings(keys)
		for _, k := range keys {
			want, wok := spec.Environment[k]
			got, gok := obs.Environment[k]
			if wok != gok || (wok && (want == nil) != (got == nil)) || (wok && want != nil && *want != *got) {
				w, g := "absent", "absent"
				if wok {
					w = c16PStr(want)
				}
				if gok {
					g = c16PStr(got)
				}
				return envFail(via, "env-precedence:"+via+":"+c16Sig(o, k, false), fmt.Sprintf("environment[%s] = %s, the layering says %s", k, g, w))
			}
			wl, wlok := spec.Labels[k]
			gl, glok := obs.Labels[k]
			if wlok != glok || (wlok && *wl != *gl) {
				w, g := "absent", "absent"
				if wlok {
					w = c16PStr(wl)
				}
				if glok {
					g = c16PStr(gl)
				}
				return core.Fail("label-precedence:"+via+":"+c16Sig(o, k, true), fmt.Sprintf("labels[%s] = %s, the layering says %s", k, g, w))
			}
		}
		// nothing outside the key universe appears
		for k := range obs.Environment {
			if _, ok := spec.Environment[k]; !ok {
				return core.Fail("env-extra-key:"+via, "environment has unexpected key "+k)
			}
		}
		for k := range obs.Labels {
			if _, ok := spec.Labels[k]; !ok {
				return core.Fail("label-extra-key:"+via, "labels has unexpected key "+k)
			}
		}
		// file references: kept as written without discard, dropped with it
		discard := via == "direct_discard" || (strings.HasPrefix(via, "load") && o.Discard)
		if discard {
			if len(obs.EnvFiles) != 0 || len(obs.LabelFiles) != 0 {
				return core.Fail("discard-keeps-file-refs:"+via, "file references survive the discard option")
			}
		} else {
			if len(obs.LabelFiles) != len(o.LabelLayers) {
				return core.Fail("file-refs-changed:"+via, "label_file references changed without the discard option")
			}
			if len(obs.EnvFiles) != len(o.EnvLayers) {
				return envFail(via, "file-refs-changed:"+via, "env_file references changed without the discard option")
			}
			for i, l := range o.EnvLayers {
				if obs.EnvFiles[i].Path != l.listed() || obs.EnvFiles[i].Required != l.Required {
					return envFail(via, "file-refs-changed:"+via, "env_file reference changed without the discard option")
				}
			}
			for i, l := range o.LabelLayers {
				if obs.LabelFiles[i] != l.Path {
					return core.Fail("file-refs-changed:"+via, "label_file reference changed without the discard option")
				}
			}
		}
	}
	// sequence-form entries without value are resolved while loading, even with normalization and the Project method off
	if raw, ok := r["load_seq_only"]; ok && spec.Err == nil {
		if v := core.CrashVerdict(raw); v != nil {
			return v
		}
		var out c16Out
		json.Unmarshal(raw, &out)
		if out.Err != nil {
			return core.Fail("unexpected-error:load_seq_only:"+strings.SplitN(*out.Err, ":", 2)[0], "load without normalization fails: "+*out.Err)
		}
		obs := out.Ok["s"]
		for _, kv := range o.Environment {
			k := *kv[0]
			want := kv[1]
			if want == nil {
				if pv, ok := o.Penv[k]; ok {
					want = &pv
				}
			}
			got, gok := obs.Environment[k]
			if !gok || (want == nil) != (got == nil) || (want != nil && *want != *got) {
				g := "absent"
				if gok {
					g = c16PStr(got)
				}
				return core.Fail("valueless-not-resolved-while-loading:"+c16Sig(o, k, false), fmt.Sprintf("environment[%s] = %s after a load without normalization / resolution, expected %s", k, g, c16PStr(want)))
			}
		}
	}
	// metamorphic pair: discarding changes only the references
	a, b := outs["direct"], outs["direct_discard"]
	if (a.Err == nil) != (b.Err == nil) {
		return core.Fail("discard-changes-outcome", "discard option changes success/failure")
	}
	if a.Err == nil {
		ja, _ := json.Marshal(map[string]any{"e": a.Ok["s"].Environment, "l": a.Ok["s"].Labels})
		jb, _ := json.Marshal(map[string]any{"e": b.Ok["s"].Environment, "l": b.Ok["s"].Labels})
		if string(ja) != string(jb) {
			return core.Fail("discard-changes-values", "discard option changes environment or labels")
		}
	}
	return nil
}

// Watchdogs.  None of the modelled functions loops (finite lists, finite files); on a saturated machine (load average
// 100+) single cases have been seen not to answer within the default 10 s, so the deadlines are generous.  To report a
// change that makes the real code hang quickly all the same, the deadline is enforced *inside* the child process:
// the real phase runs in a goroutine; when it does not return within c16Soft the case is answered `{"hang": …}`
// (a property failure, key `hang`) and the goroutine is abandoned; after c16MaxHung abandoned goroutines the child
// answers every further case `{"storm": true}` at once, which the judges skip.  So a hanging input class costs about
// c16MaxHung × c16Soft per lane (lanes in parallel) however many cases are already queued; the engine's own watchdog
// (c16Timeout) and crash-storm limit (c16CrashLimit, set in runC16) remain behind it.
const (
	c16Soft       = 60 * time.Second
	c16Timeout    = 100 * time.Second
	c16MaxHung    = 2
	c16CrashLimit = 3
)

var c16Hung int32

func c16Guard(f func(json.RawMessage) any) func(json.RawMessage) any {
	return func(raw json.RawMessage) any {
		if atomic.LoadInt32(&c16Hung) >= c16MaxHung {
			return map[string]any{"storm": true}
		}
		ch := make(chan any, 1)
		go func() { ch <- core.SafeCall(func() any { return f(raw) }) }()
		select {
		case r := <-ch:
			return r
		case <-time.After(c16Soft):
			atomic.AddInt32(&c16Hung, 1)
			return map[string]any{"hang": ">" + c16Soft.String()}
		}
	}
}

// c16Judge skips the cases a child answered after it had given up (see c16Guard).
func c16Judge(j func(args, real, drv json.RawMessage) *core.Verdict) func(args, real, drv json.RawMessage) *core.Verdict {
	return func(args, real, drv json.RawMessage) *core.Verdict {
		var m map[string]json.RawMessage
		if json.Unmarshal(real, &m) == nil && m["storm"] != nil {
			return core.Skip("not run: the real code hung repeatedly in this lane")
		}
		return j(args, real, drv)
	}
}

// c16kv is a private env_file format registered in the (process-global) dotenv registry so that registered formats are
// exercised on the real code; the model's copy is `kvParser` (Model/EnvLayers.lean).  Every line `K=V` is taken
// literally at its first `=`, a line without `=` is inherited from the lookup.  The name `raw` stays unregistered.
func c16kvParser(r io.Reader, _ string, lookup func(string) (string, bool)) (map[string]string, error) {
	b, err := io.ReadAll(r)
	if err != nil {
		return nil, err
	}
	out := map[string]string{}
	for _, line := range strings.Split(string(b), "\n") {
		if line == "" {
			continue
		}
		if k, v, ok := strings.Cut(line, "="); ok {
			out[k] = v
		} else if v, ok := lookup(line); ok {
			out[line] = v
		}
	}
	return out, nil
}

func init() {
	dotenv.RegisterFormat("c16kv", c16kvParser)
	core.Register("c16.resolve", &core.CheckDef{
		Timeout:  c16Timeout,
		Real:     c16Guard(c16RealResolve),
		DriverOp: "c16.resolve",
		Judge: c16Judge(func(args, real, drv json.RawMessage) *core.Verdict {
			if v := core.CrashVerdict(real); v != nil {
				return v
			}
			var r, d map[string]json.RawMessage
			if json.Unmarshal(real, &r) != nil || json.Unmarshal(drv, &d) != nil || r["env"] == nil || d["env"] == nil {
				return core.Disagree("malformed exchange: " + string(real) + " / " + string(drv))
			}
			if m := r["mutated"]; m != nil {
				return core.Fail("receiver-project-mutated:"+strings.Trim(string(m), "[]\""), "the method changed the project it was called on: "+string(m))
			}
			if m := r["aliased"]; m != nil {
				var l []string
				json.Unmarshal(m, &l)
				leg, _, _ := strings.Cut(l[0], ":")
				return core.Fail("environment-values-aliased:"+leg, "resolved environment values share storage: "+string(m))
			}
			for _, leg := range [][2]string{{"env", "WithServicesEnvironmentResolved"}, {"labels", "WithServicesLabelsResolved"},
				{"enabled", "WithServicesEnabled(name)"}, {"enabled_none", "WithServicesEnabled()"}, {"twice", "WithServicesEnabled after WithServicesEnvironmentResolved"}} {
				if r[leg[0]] == nil && d[leg[0]] == nil {
					continue
				}
				if r[leg[0]] == nil || d[leg[0]] == nil {
					return core.Disagree(leg[1] + ": run by one side only: " + string(real) + " / " + string(drv))
				}
				if v := c16Corr(leg[1])(args, r[leg[0]], d[leg[0]]); v != nil {
					return v
				}
			}
			return nil
		}),
	})
	core.Register("c16.load", &core.CheckDef{
		Timeout: c16Timeout,
		Real: c16Guard(func(raw json.RawMessage) any {
			var a c16Args
			if err := json.Unmarshal(raw, &a); err != nil {
				return map[string]any{"bad": err.Error()}
			}
			return c16RealLoad(a)
		}),
		DriverOp: "c16.load",
		Judge:    c16Judge(c16Corr("LoadWithContext")),
	})
	core.Register("c16.oracle", &core.CheckDef{
		Timeout:  c16Timeout,
		Real:     c16Guard(c16RealOracle),
		DriverOp: "c16.spec",
		Judge:    c16Judge(c16JudgeOracle),
	})
	core.RegisterProp("C16", runC16)
}
