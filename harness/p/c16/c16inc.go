package c16

// Round 6 — value-less `environment` entries of a service written in an INCLUDED file whose include has an env file of
// its own (`env_file:` of the include, or the default `.env` beside the included file).  Model: `loadedEnvIncluded`
// (Model/EnvLayersSites.lean), op `c16.incenv`.  The same entries are written twice, in mapping form (service `map`) and in
// sequence form (service `seq`); the property does not distinguish the two spellings, the real loader does
// (finding `valueless-form-dependent:include-env-file`, Neg/C16Include.lean).

import (
	"encoding/json"
	"fmt"
	"os"
	"path/filepath"
	"sort"
	"strings"

	"verifharness/core"
)

type c16IncArgs struct {
	Penv              map[string]string `json:"penv"`
	Ifile             map[string]string `json:"ifile"`
	Entries           [][2]*string      `json:"entries"`
	SkipNormalization bool              `json:"skip_normalization"`
	// Explicit: the include names its env file (`env_file: inc/inc.env`); otherwise the default `.env` beside the included file
	Explicit bool `json:"explicit"`
}

func c16RealIncEnv(raw json.RawMessage) any {
	var a c16IncArgs
	if err := json.Unmarshal(raw, &a); err != nil {
		return map[string]any{"bad": err.Error()}
	}
	root, err := c16WriteTree(nil)
	defer c16RemoveTree(root)
	if err != nil {
		return map[string]any{"bad": err.Error()}
	}
	var mb, sb strings.Builder
	for _, kv := range a.Entries {
		if kv[1] != nil {
			mb.WriteString("      " + yq(*kv[0]) + ": " + yq(*kv[1]) + "\n")
			sb.WriteString("      - " + yq(*kv[0]+"="+*kv[1]) + "\n")
		} else {
			mb.WriteString("      " + yq(*kv[0]) + ":\n")
			sb.WriteString("      - " + yq(*kv[0]) + "\n")
		}
	}
	inc := "services:\n  map:\n    image: img\n    environment:\n" + mb.String() + "  seq:\n    image: img\n    environment:\n" + sb.String()
	envName, main := ".env", "include:\n  - inc/compose.yaml\n"
	if a.Explicit {
		envName, main = "inc.env", "include:\n  - path: inc/compose.yaml\n    env_file: inc/inc.env\n"
	}
	keys := []string{}
	for k := range a.Ifile {
		keys = append(keys, k)
	}
	sort.Strings(keys)
	var eb strings.Builder
	for _, k := range keys {
		eb.WriteString(k + "=" + a.Ifile[k] + "\n")
	}
	for p, text := range map[string]string{"compose.yaml": main, "inc/compose.yaml": inc, "inc/" + envName: eb.String()} {
		if err := os.MkdirAll(filepath.Dir(filepath.Join(root, p)), 0o755); err != nil {
			return map[string]any{"bad": err.Error()}
		}
		if err := os.WriteFile(filepath.Join(root, p), []byte(text), 0o644); err != nil {
			return map[string]any{"bad": err.Error()}
		}
	}
	req := core.LoadReq{ConfigFiles: []string{"compose.yaml"}, Env: a.Penv, ProjectName: "c16",
		SkipNormalization: a.SkipNormalization, SkipResolveEnvironment: true}
	p, err := req.LoadIn(root)
	if err != nil {
		return map[string]any{"err": c16ErrClass(err)}
	}
	obs := c16Observe(p, root)
	out := map[string]any{}
	for _, n := range []string{"map", "seq"} {
		if o, ok := obs[n].(map[string]any); ok {
			out[n] = o["environment"]
		}
	}
	return out
}

func c16JudgeIncEnv(args, real, drv json.RawMessage) *core.Verdict {
	if v := core.CrashVerdict(real); v != nil {
		return v
	}
	var r, d map[string]map[string]*string
	if json.Unmarshal(real, &r) != nil || r["map"] == nil || r["seq"] == nil {
		return core.Disagree("included file: unexpected real outcome " + string(real))
	}
	if json.Unmarshal(drv, &d) != nil || !core.CanonEqual(real, drv) {
		return core.Disagree("included file: model ≠ real: " + string(real) + " / " + string(drv))
	}
	keys := []string{}
	for k := range r["map"] {
		keys = append(keys, k)
	}
	sort.Strings(keys)
	for _, k := range keys {
		m, s := r["map"][k], r["seq"][k]
		if (m == nil) != (s == nil) || (m != nil && *m != *s) {
			return core.Fail("valueless-form-dependent:include-env-file", fmt.Sprintf(
				"included file with an include-level env file: environment[%s] = %s when written `%s:` and %s when written `- %s`", k, c16PStr(m), k, c16PStr(s), k))
		}
	}
	return nil
}

func c16IncEnvStream(ctx *core.Ctx) {
	if only := os.Getenv("VERIF_C16_STREAMS"); only != "" && !strings.Contains(","+only+",", ",incenv,") {
		return
	}
	entry := func(k string, st int) [][2]*string {
		switch st {
		case 1:
			return [][2]*string{c16kv(k, nil)}
		case 2:
			return [][2]*string{c16kv(k, sp("e."+k))}
		case 3:
			return [][2]*string{c16kv(k, sp(""))}
		}
		return nil
	}
	layer := func(m map[string]string, k, tag string, st int) {
		switch st {
		case 1:
			m[k] = tag + "." + k
		case 2:
			m[k] = ""
		}
	}
	add := func(a c16IncArgs, kind string) {
		if len(a.Entries) == 0 {
			return // an empty `environment:` is null: not an input of this stream
		}
		ctx.Count(kind)
		for _, kv := range a.Entries {
			_, inP := a.Penv[*kv[0]]
			_, inI := a.Ifile[*kv[0]]
			if kv[1] == nil && !inP && inI {
				ctx.Count("incenv:valueless-only-in-include-env")
			}
		}
		ctx.Add("c16.incenv", a)
	}
	// one key: entry state × project environment × include env file × normalization × explicit / default env file
	for st := 1; st <= 3; st++ {
		for ps := 0; ps < 3; ps++ {
			for is := 0; is < 3; is++ {
				for opt := 0; opt < 4; opt++ {
					a := c16IncArgs{Penv: map[string]string{}, Ifile: map[string]string{}, Entries: entry("K1", st), SkipNormalization: opt&1 == 1, Explicit: opt&2 == 2}
					layer(a.Penv, "K1", "p", ps)
					layer(a.Ifile, "K1", "i", is)
					add(a, "incenv:one-key-exhaustive")
				}
			}
		}
	}
	r := ctx.Rng
	for i, n := 0, ctx.Pick(150, 3000); i < n; i++ {
		a := c16IncArgs{Penv: map[string]string{}, Ifile: map[string]string{}, SkipNormalization: r.Intn(3) == 0, Explicit: r.Intn(2) == 0}
		for _, k := range []string{"K1", "K2", "K3"} {
			a.Entries = append(a.Entries, entry(k, r.Intn(4))...)
			layer(a.Penv, k, "p", r.Intn(3))
			layer(a.Ifile, k, "i", r.Intn(3))
		}
		add(a, "incenv:random")
	}
}

func init() {
	core.Register("c16.incenv", &core.CheckDef{
		Timeout:  c16Timeout,
		Real:     c16Guard(c16RealIncEnv),
		DriverOp: "c16.incenv",
		Judge:    c16Judge(c16JudgeIncEnv),
	})
	core.RegisterPropExtra("C16", c16IncEnvStream)
}
