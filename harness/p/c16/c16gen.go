package c16

// C16 generators: exhaustive small scope first, then seeded random; mostly-valid inputs plus a malformed stream.

import (
	"fmt"
	"math/rand"
	"os"
	"path/filepath"
	"strings"

	"verifharness/core"
)

func c16kv(k string, v *string) [2]*string { return [2]*string{sp(k), v} }

func c16Assign(k string, segs ...c16Seg) c16Line { return c16Line{K: sp(k), V: segs} }
func c16Lit(s string) c16Seg                     { return c16Seg{Lit: sp(s)} }
func c16Ref(s string) c16Seg                     { return c16Seg{Var: sp(s), Braced: true} }
func c16OpSeg(name, op string, arg ...c16Seg) c16Seg {
	return c16Seg{Op: sp(name), O: op, Arg: arg}
}
func c16Bare(k string) c16Line { return c16Line{Bare: sp(k)} }

// all files of ≤ maxLines lines over the two keys A, B; literals are tagged with file and line
func c16SmallFiles(tag string, maxLines int) [][]c16Line {
	mk := func(i int) []c16Line {
		lit := fmt.Sprintf("%sl%d", tag, i)
		return []c16Line{
			c16Assign("A", c16Lit(lit)), c16Assign("A", c16Ref("B")), c16Assign("A", c16Lit(lit), c16Ref("A")),
			c16Assign("B", c16Lit(lit)), c16Assign("B", c16Ref("A")), c16Bare("A"), c16Bare("B"),
		}
	}
	out := [][]c16Line{{}}
	var rec func(cur []c16Line, n int)
	rec = func(cur []c16Line, n int) {
		if n == maxLines {
			return
		}
		for _, l := range mk(n) {
			next := append(append([]c16Line{}, cur...), l)
			out = append(out, next)
			rec(next, n+1)
		}
	}
	rec(nil, 0)
	return out
}

func runC16(ctx *core.Ctx) {
	ctx.CrashLimit = c16CrashLimit
	defer func() {
		ctx.Wait()
		os.RemoveAll("/dev/shm/" + filepath.Base(ctx.Scratch)) // see c16TreeBase
	}()
	// VERIF_C16_STREAMS (development aid): comma-separated subset of corr-ex,oracle-ex,random,load,oracle
	only := os.Getenv("VERIF_C16_STREAMS")
	want := func(name string) bool { return only == "" || strings.Contains(","+only+",", ","+name+",") }
	if want("corr-ex") {
		c16Exhaustive(ctx)
	}
	if want("oracle-ex") {
		c16OracleExhaustive(ctx)
		c16OracleUnderFile(ctx)
		c16OracleOperators(ctx)
		c16OracleRepeated(ctx)
	}
	ctx.Res.Exhaustive = only == ""
	if want("random") {
		c16RandomResolve(ctx)
	}
	if want("load") {
		c16RandomLoad(ctx)
	}
	if want("oracle") {
		c16OracleRandom(ctx)
	}
}

// ---------------------------------------------------------------- correspondence, exhaustive

func c16Exhaustive(ctx *core.Ctx) {
	penvs := []map[string]string{{}, {"A": "pA"}, {"B": "pB"}, {"A": "pA", "B": ""}}
	envs := [][][2]*string{nil, {c16kv("A", sp("eA"))}, {c16kv("A", nil)}, {c16kv("A", sp(""))}, {c16kv("B", nil), c16kv("A", sp("eA"))}}
	f1s := c16SmallFiles("f1", 2)
	f2s := c16SmallFiles("f2", ctx.Pick(1, 2))
	i := 0
	for _, f1 := range f1s {
		for _, f2 := range f2s {
			for _, penv := range penvs {
				for _, env := range envs {
					i++
					a := c16Args{Penv: penv, Files: map[string]c16Node{"f1": {Lines: f1}, "f2": {Lines: f2}}, Discard: i%2 == 0,
						Services: []c16Service{{Name: "s", Environment: env,
							EnvFiles: []c16EnvFile{{Path: "f1", Required: true}, {Path: "f2", Required: i%3 == 0}}}}, Extra: i%4 == 1}
					ctx.Count("env-exhaustive-2files")
					ctx.Add("c16.resolve", a)
				}
			}
		}
	}
	// labels: the same files as label files, labels ∈ {∅, A, A empty, B}
	labs := [][][2]*string{nil, {c16kv("A", sp("lA"))}, {c16kv("A", sp(""))}, {c16kv("B", sp("lB"))}}
	f2l := c16SmallFiles("f2", 1)
	for _, f1 := range f1s {
		for _, f2 := range f2l {
			for j, lab := range labs {
				a := c16Args{Files: map[string]c16Node{"f1": {Lines: f1}, "f2": {Lines: f2}}, Discard: j%2 == 0,
					Services: []c16Service{{Name: "s", Labels: lab, LabelFiles: []string{"f1", "f2"}}}}
				ctx.Count("labels-exhaustive-2files")
				ctx.Add("c16.resolve", a)
			}
		}
	}
	// file states: present / missing / directory × required × format, three positions
	type st struct {
		node     *c16Node
		required bool
		format   string
	}
	file := &c16Node{Lines: []c16Line{c16Assign("A", c16Lit("x"), c16Ref("A")), c16Bare("B")}}
	badf := &c16Node{Lines: []c16Line{c16Assign("A", c16Lit("y")), {Bad: true}}}
	states := []st{{file, true, ""}, {file, false, ""}, {nil, true, ""}, {nil, false, ""}, {&c16Node{Dir: true}, true, ""},
		{file, true, "raw"}, {nil, false, "raw"}, {nil, true, "raw"}, {&c16Node{Dir: true}, false, "raw"}, {badf, false, ""},
		{&c16Node{NotDir: true}, false, ""}, {&c16Node{NotDir: true}, true, "raw"}, {file, true, "c16kv"}, {&c16Node{Dir: true}, false, "c16kv"}}
	for x, s1 := range states {
		for y, s2 := range states {
			for z, s3 := range states {
				a := c16Args{Penv: map[string]string{"B": "pB"}, Files: map[string]c16Node{}, Discard: (x+y+z)%2 == 0, Extra: true}
				svc := c16Service{Name: "s", Environment: [][2]*string{c16kv("C", nil)}}
				a.Files["reg"] = c16Node{}
				for n, s := range []st{s1, s2, s3} {
					p := fmt.Sprintf("p%d", n)
					if s.node != nil && s.node.NotDir {
						p = fmt.Sprintf("reg/p%d", n)
					}
					if s.node != nil {
						a.Files[p] = *s.node
					}
					svc.EnvFiles = append(svc.EnvFiles, c16EnvFile{Path: p, Required: s.required, Format: s.format})
					if s.format == "" {
						svc.LabelFiles = append(svc.LabelFiles, p)
					}
				}
				a.Services = []c16Service{svc}
				ctx.Count("file-states-exhaustive")
				c16Features(ctx, a)
				ctx.Add("c16.resolve", a)
				if (x+y+z)%ctx.Pick(5, 1) == 0 {
					ctx.Count("file-states-load")
					la := a
					la.Extra = false
					la.Services = []c16Service{svc}
					la.Services[0].YEnv = &c16YEnv{List: &[]c16Item{{K: "C"}}}
					la.Layout = []string{"", "include", "extends", "extends-split"}[(x+2*y+3*z)%4]
					la.Methods = (x+y)%2 == 0
					ctx.Count("file-states-load-layout-" + la.Layout)
					ctx.Add("c16.load", la)
				}
			}
		}
	}
}

// ---------------------------------------------------------------- correspondence, random

var c16Keys = []string{"A", "B", "C", "D_1", "e"}
var c16Lits = []string{"x", "1", "v-w", "a.b", "http://h:1/p", "", "Z_9"}

func c16RandLines(r *rand.Rand, keys []string, tag string, malformed bool) []c16Line {
	n := r.Intn(6)
	var ls []c16Line
	for i := 0; i < n; i++ {
		k := keys[r.Intn(len(keys))]
		switch x := r.Intn(20); {
		case x < 3:
			ls = append(ls, c16Bare(k))
		case x == 3 && malformed:
			ls = append(ls, c16Line{Bad: true})
		default:
			ls = append(ls, c16Assign(k, c16RandSegs(r, keys, tag, 2, malformed, true)...))
		}
	}
	return ls
}

var c16Ops = []string{":-", "-", ":+", "+", ":?", "?"}

// c16RandSegs: a value of the interpolation grammar whose rendering survives dotenv lexing unchanged (no white space,
// quote, backslash or newline).  `errs`: the error operators `:?` / `?` may occur; `malformed`: text that is not a
// rendering of any AST (`${`, `${1}`) may occur.
func c16RandSegs(r *rand.Rand, keys []string, tag string, depth int, malformed, errs bool) []c16Seg {
	var segs []c16Seg
	t := true
	for j, m := 0, r.Intn(4); j < m; j++ {
		switch x := r.Intn(16); {
		case x < 5:
			segs = append(segs, c16Lit(c16Lits[r.Intn(len(c16Lits))]+tag))
		case x < 9:
			segs = append(segs, c16Ref(keys[r.Intn(len(keys))]))
		case x == 9:
			// an unbraced reference must not run into a name character
			segs = append(segs, c16Seg{Var: sp(keys[r.Intn(len(keys))])}, c16Lit("-"+tag))
		case x == 10:
			segs = append(segs, c16Seg{Esc: &t})
		case x == 11 && malformed:
			segs = append(segs, c16Lit([]string{"${", "${1}", "$", "${A", "}"}[r.Intn(5)]))
		case depth > 0:
			op := c16Ops[r.Intn(4)]
			if errs && r.Intn(12) == 0 {
				op = c16Ops[4+r.Intn(2)] // `:?` / `?`: the whole file fails when unsatisfied
			}
			segs = append(segs, c16OpSeg(keys[r.Intn(len(keys))], op, c16RandSegs(r, keys, tag, depth-1, false, errs)...))
		default:
			segs = append(segs, c16Lit("z"))
		}
	}
	return segs
}

func c16RandPenv(r *rand.Rand, keys []string) map[string]string {
	m := map[string]string{}
	for _, k := range keys {
		switch r.Intn(4) {
		case 0:
			m[k] = "p" + k
		case 1:
			m[k] = ""
		}
	}
	return m
}

// distinct keys, each with value / without value / empty value
func c16RandEnv(r *rand.Rand, keys []string) [][2]*string {
	var out [][2]*string
	for _, i := range r.Perm(len(keys)) {
		switch r.Intn(6) {
		case 0:
			out = append(out, c16kv(keys[i], sp("e"+keys[i])))
		case 1:
			out = append(out, c16kv(keys[i], nil))
		case 2:
			out = append(out, c16kv(keys[i], sp("")))
		}
	}
	return out
}

func c16RandLabels(r *rand.Rand, keys []string) [][2]*string {
	var out [][2]*string
	for _, i := range r.Perm(len(keys)) {
		switch r.Intn(5) {
		case 0:
			out = append(out, c16kv(keys[i], sp("l"+keys[i])))
		case 1:
			out = append(out, c16kv(keys[i], sp("")))
		}
	}
	return out
}

func c16RandArgs(r *rand.Rand, malformed, forLoad bool) c16Args {
	a := c16Args{Penv: c16RandPenv(r, c16Keys), Files: map[string]c16Node{}, Discard: r.Intn(2) == 0}
	paths := []string{"a.env", "b.env", "sub/c.env", "d", "e.lbl", "f.lbl"}
	for _, p := range paths {
		switch x := r.Intn(20); {
		case x < 1 || (malformed && x < 3):
			// missing
		case x == 3 && malformed:
			a.Files[p] = c16Node{Dir: true}
		default:
			a.Files[p] = c16Node{Lines: c16RandLines(r, c16Keys, "@"+p[:1], malformed)}
		}
	}
	under := []string{}
	if malformed {
		// a path under a regular file of the tree (ENOTDIR) or under nothing / a directory (ENOENT)
		for _, p := range []string{"a.env", "d"} {
			q := p + "/x.env"
			if nd, ok := a.Files[p]; ok && !nd.Dir {
				a.Files[q] = c16Node{NotDir: true}
			}
			under = append(under, q)
		}
	}
	nsvc := 1 + r.Intn(3)
	for i := 0; i < nsvc; i++ {
		s := c16Service{Name: fmt.Sprintf("s%d", i), Environment: c16RandEnv(r, c16Keys), Labels: c16RandLabels(r, c16Keys), ShortFiles: r.Intn(2) == 0}
		perm := r.Perm(len(paths))
		used := map[string]bool{}
		for j, n := 0, r.Intn(5); j < n; j++ {
			p := paths[perm[j]]
			if !forLoad && r.Intn(8) == 0 {
				p = paths[r.Intn(len(paths))] // the same file may be listed twice
			}
			if malformed && r.Intn(10) == 0 {
				p = under[r.Intn(len(under))]
			}
			if forLoad && used[p] {
				continue // whole loads de-duplicate env_file entries by path (override.EnforceUnicity, C04)
			}
			used[p] = true
			f := c16EnvFile{Path: p, Required: r.Intn(3) != 0}
			if malformed && r.Intn(12) == 0 {
				f.Format = "raw" // never registered
			} else if r.Intn(14) == 0 {
				f.Format = "c16kv" // registered by this harness (c16kvParser / kvParser)
			}
			s.EnvFiles = append(s.EnvFiles, f)
		}
		perm = r.Perm(len(paths))
		for j, n := 0, r.Intn(4); j < n; j++ {
			s.LabelFiles = append(s.LabelFiles, paths[perm[j]])
		}
		if forLoad {
			// round 7: a path listed a second time after another file (`[a, b, a]`; the second entry with its own
			// `required` / `format`): override.EnforceUnicity de-duplicates env_file lists (first position, last entry) and
			// leaves label_file lists alone — the model applies `uniqBy` to the list as written
			if n := len(s.EnvFiles); n >= 2 && r.Intn(3) == 0 {
				f := s.EnvFiles[r.Intn(n-1)]
				f.Required = r.Intn(3) != 0
				if r.Intn(6) == 0 {
					f.Format = ""
				}
				at := n
				if r.Intn(3) == 0 {
					at = 1 + r.Intn(n)
				}
				s.EnvFiles = append(s.EnvFiles[:at:at], append([]c16EnvFile{f}, s.EnvFiles[at:]...)...)
			}
			if n := len(s.LabelFiles); n >= 2 && r.Intn(3) == 0 {
				s.LabelFiles = append(s.LabelFiles, s.LabelFiles[r.Intn(n-1)])
			}
			// the YAML form of `environment`
			if len(s.Environment) > 0 {
				y := &c16YEnv{}
				if r.Intn(2) == 0 {
					items := []c16Item{}
					for _, kv := range s.Environment {
						items = append(items, c16Item{K: *kv[0], V: kv[1]})
					}
					y.List = &items
				} else {
					m := append([][2]*string{}, s.Environment...)
					y.Map = &m
				}
				s.YEnv = y
			}
			s.Environment = nil
			// the YAML form of `labels`: typed mapping (as before), sequence (`k=v`, bare `k`, a key twice, `=` inside the
			// value), mapping with null values, empty sequence / mapping
			switch r.Intn(4) {
			case 0:
				items := []c16Item{}
				for _, kv := range s.Labels {
					items = append(items, c16Item{K: *kv[0], V: kv[1]})
					switch r.Intn(6) {
					case 0:
						items = append(items, c16Item{K: c16Keys[r.Intn(len(c16Keys))]}) // bare: the empty value
					case 1:
						items = append(items, c16Item{K: *kv[0], V: sp("again=" + *kv[0])}) // the key a second time
					case 2:
						items = append([]c16Item{{K: *kv[0]}}, items...) // … or first as a bare element
					}
				}
				s.YLabels, s.Labels = &c16YEnv{List: &items}, nil
			case 1:
				m := [][2]*string{}
				for _, kv := range s.Labels {
					if r.Intn(3) == 0 {
						m = append(m, c16kv(*kv[0], nil)) // `k:` null
					} else {
						m = append(m, kv)
					}
				}
				s.YLabels, s.Labels = &c16YEnv{Map: &m}, nil
			}
		}
		a.Services = append(a.Services, s)
	}
	if forLoad {
		a.SkipNormalization = r.Intn(5) == 0
		a.SkipResolveEnvironment = r.Intn(7) == 0
	}
	return a
}

// c16Features counts, per case of a correspondence stream, which branches of the model the input reaches
// (Model/EnvLayers.lean: loadEnvFile / loadLabelFile / loadMappingFile / parseWithFormat / parseLines / resolveMWE /
// resolveServiceLabels / collect).  A branch whose counter stays 0 in the evidence is a hole of the stream.
func c16Features(ctx *core.Ctx, a c16Args) {
	seen := map[string]bool{}
	hit := func(f string) {
		if !seen[f] {
			seen[f] = true
			ctx.Count("branch:" + f)
		}
	}
	failing := 0
	for _, s := range a.Services {
		fails := false
		for _, kv := range s.Environment {
			switch _, inPenv := a.Penv[*kv[0]]; {
			case kv[1] == nil && inPenv:
				hit("resolveMWE:valueless-found")
			case kv[1] == nil:
				hit("resolveMWE:valueless-not-found")
			default:
				hit("resolveMWE:has-value")
			}
		}
		listed := map[string]bool{}
		for _, f := range s.EnvFiles {
			if listed[f.Path] {
				hit("loadEnvFiles:same-file-twice")
			}
			listed[f.Path] = true
			nd, ok := a.Files[f.Path]
			switch {
			case (!ok || nd.NotDir) && f.Required:
				hit("loadEnvFile:missing-required")
				fails = true
			case !ok && !f.Required:
				hit("loadEnvFile:missing-optional-enoent")
			case nd.NotDir && !f.Required:
				hit("loadEnvFile:missing-optional-enotdir")
			case f.Format != "" && f.Format != "c16kv":
				hit("parseWithFormat:unregistered")
				fails = true
			case f.Format == "c16kv" && nd.Dir:
				hit("parseWithFormat:registered-dir")
				fails = true
			case f.Format == "c16kv":
				hit("parseWithFormat:registered-file")
			case nd.Dir:
				hit("loadMappingFile:dir")
				fails = true
			default:
				hit("loadMappingFile:file")
				for _, l := range nd.Lines {
					switch {
					case l.Bare != nil:
						hit("parseLines:bare")
					case l.K != nil:
						hit("parseLines:assign")
					default:
						hit("parseLines:bad")
						fails = true
					}
				}
			}
		}
		if len(s.EnvFiles) == 0 {
			hit("loadEnvFiles:none")
		}
		for _, f := range s.LabelFiles {
			nd, ok := a.Files[f]
			switch {
			case !ok || nd.NotDir:
				hit("loadLabelFile:missing")
			case nd.Dir:
				hit("loadLabelFile:dir")
			default:
				hit("loadLabelFile:file")
			}
		}
		if len(s.Labels) == 0 && len(s.LabelFiles) == 0 {
			hit("resolveServiceLabels:len0-branch")
		} else if len(s.Labels) > 0 && len(s.LabelFiles) > 0 {
			hit("resolveServiceLabels:labels-over-files")
		}
		if fails {
			failing++
		}
	}
	switch {
	case failing > 1:
		hit("collect:several-services-fail")
	case failing == 1 && len(a.Services) > 1:
		hit("collect:one-of-several-fails")
	}
	if a.Extra {
		hit("withServicesEnabled")
	}
}

func c16RandomResolve(ctx *core.Ctx) {
	n := ctx.Pick(40000, 250000)
	for i := 0; i < n; i++ {
		malformed := i%5 == 4
		a := c16RandArgs(ctx.Rng, malformed, false)
		if malformed {
			ctx.Count("random-malformed")
		} else {
			ctx.Count("random-valid")
		}
		if i%3 == 0 {
			a.Extra = true
			ctx.Count("random-with-WithServicesEnabled")
		}
		c16Features(ctx, a)
		ctx.Add("c16.resolve", a)
	}
}

func c16RandomLoad(ctx *core.Ctx) {
	n := ctx.Pick(6000, 40000)
	for i := 0; i < n; i++ {
		malformed := i%5 == 4
		a := c16RandArgs(ctx.Rng, malformed, true)
		if malformed {
			ctx.Count("load-random-malformed")
		} else {
			ctx.Count("load-random-valid")
		}
		if a.SkipNormalization {
			ctx.Count("load-skip-normalization")
		}
		if a.SkipResolveEnvironment {
			ctx.Count("load-skip-resolve-environment")
		}
		// round 6: where the services are written (main file / included file in inc/ / inherited from base/b.yaml, whole
		// or split), and the second call site of the resolution
		switch i % 8 {
		case 1:
			a.Layout = "include"
		case 3:
			a.Layout = "extends"
		case 5, 7:
			a.Layout = "extends-split"
		case 2, 6:
			a.Layout = "merge" // round 7: base + override, two config files of one directory
		}
		for _, s := range a.Services {
			rep := func(l []string) bool {
				seen := map[string]bool{}
				for _, p := range l {
					if seen[p] {
						return true
					}
					seen[p] = true
				}
				return false
			}
			var ef []string
			for _, f := range s.EnvFiles {
				ef = append(ef, f.Path)
			}
			if rep(ef) {
				ctx.Count("load-repeated-env-file-path")
				ctx.Count("load-repeated-env-file-path-layout-" + a.Layout)
			}
			if rep(s.LabelFiles) {
				ctx.Count("load-repeated-label-file-path")
				ctx.Count("load-repeated-label-file-path-layout-" + a.Layout)
			}
		}
		if i%3 == 0 && !a.SkipResolveEnvironment {
			a.Methods = true
			ctx.Count("load-second-call-site")
		}
		if a.Layout != "" {
			ctx.Count("load-layout-" + a.Layout)
			for _, s := range a.Services {
				for _, f := range s.EnvFiles {
					switch {
					case f.Format != "":
						ctx.Count("load-layout-env-file-format")
					case !f.Required:
						ctx.Count("load-layout-env-file-optional")
					}
				}
				if len(s.LabelFiles) > 1 {
					ctx.Count("load-layout-label-files>1")
				}
			}
		}
		for _, s := range a.Services {
			switch {
			case s.YLabels != nil && s.YLabels.List != nil:
				ctx.Count("load-labels-sequence-form")
			case s.YLabels != nil:
				ctx.Count("load-labels-mapping-with-nulls")
			}
		}
		ctx.Add("c16.load", a)
	}
}

// ---------------------------------------------------------------- oracle

// environment state of a key: 0 absent, 1 with value, 2 without value, 3 empty value
func c16EnvState(k string, st int) [][2]*string {
	switch st {
	case 1:
		return [][2]*string{c16kv(k, sp("E."+k))}
	case 2:
		return [][2]*string{c16kv(k, nil)}
	case 3:
		return [][2]*string{c16kv(k, sp(""))}
	}
	return nil
}

// how a file mentions a key: 0 not at all, 1 literal, 2 bare, 3 literal followed by a reference to `ref`,
// 4–6 operators of the interpolation grammar on `ref` (`:-`, `+`, `-`), 7–8 the error operators (`:?`, `?`)
func c16FileLine(tag, k string, kind int, ref string) []c16Line {
	switch kind {
	case 1:
		return []c16Line{c16Assign(k, c16Lit(tag+"."+k))}
	case 2:
		return []c16Line{c16Bare(k)}
	case 3:
		return []c16Line{c16Assign(k, c16Lit(tag+"."+k+"<"), c16Ref(ref), c16Lit(">"))}
	case 4: // default when unset or empty
		return []c16Line{c16Assign(k, c16Lit(tag+"."+k+"<"), c16OpSeg(ref, ":-", c16Lit("dflt."+tag)), c16Lit(">"))}
	case 5: // alternative when set, built from another reference
		return []c16Line{c16Assign(k, c16OpSeg(ref, "+", c16Lit("alt."+tag+"/"), c16Ref(k)), c16Seg{Var: sp(ref)})}
	case 6: // default when unset only; escaped dollar
		return []c16Line{c16Assign(k, c16Seg{Esc: new(bool)}, c16OpSeg(ref, "-", c16Ref(k), c16Lit(".d")))}
	case 7: // required, non-empty: the file fails unless `ref` has a non-empty value in this line's lookup chain
		return []c16Line{c16Assign(k, c16Lit(tag+"."+k+"!"), c16OpSeg(ref, ":?", c16Lit("msg."+tag)))}
	case 8: // required, may be empty
		return []c16Line{c16Assign(k, c16OpSeg(ref, "?", c16Lit("msg."+tag)), c16Lit("/"+tag))}
	}
	return nil
}

var c16SiteN int

// c16SiteLayout: a case with the Sites legs runs the second call site and one of the three layouts, in rotation
func c16SiteLayout(ctx *core.Ctx, o *c16OracleArgs) {
	c16SiteN++
	o.SiteLayout = []string{"include", "extends", "extends-split"}[c16SiteN%3]
	ctx.Count("oracle-sites-legs")
	ctx.Count("oracle-sites-layout-" + o.SiteLayout)
}

func c16OracleExhaustive(ctx *core.Ctx) {
	n := 0
	add := func(kind string, o c16OracleArgs) {
		n++
		o.Discard = n%2 == 0
		o.ListForm = n%3 == 0
		o.Sites = n%4 == 1 && !o.NoLoad
		ctx.Count(kind)
		if o.Sites {
			c16SiteLayout(ctx, &o)
		}
		ctx.Add("c16.oracle", o)
	}
	// E1: one key over {penv, f1, f2, f3} × environment state × how each file mentions it
	labelCfg := 0
	for penv := 0; penv < 3; penv++ { // absent, with a value, present with the empty value
		for kinds := 0; kinds < 64; kinds++ {
			for st := 0; st < 4; st++ {
				o := c16OracleArgs{Penv: map[string]string{}, Keys: []string{"K"}, Environment: c16EnvState("K", st)}
				if penv == 1 {
					o.Penv["K"] = "P.K"
				} else if penv == 2 {
					o.Penv["K"] = ""
				}
				for f := 0; f < 3; f++ {
					tag := fmt.Sprintf("F%d", f+1)
					o.EnvLayers = append(o.EnvLayers, c16Layer{Path: tag + ".env", Present: true, Required: true,
						Lines: c16FileLine(tag, "K", (kinds>>(2*f))&3, "K")})
				}
				// labels: two label files × labels state, cycling through the 48 configurations
				lc := labelCfg % 48
				labelCfg++
				for f := 0; f < 2; f++ {
					tag := fmt.Sprintf("LF%d", f+1)
					o.LabelLayers = append(o.LabelLayers, c16Layer{Path: tag + ".lbl", Present: true, Required: true,
						Lines: c16FileLine(tag, "K", (lc>>(2*f))&3, "K")})
				}
				switch lc / 16 {
				case 1:
					o.Labels = [][2]*string{c16kv("K", sp("L.K"))}
				case 2:
					o.Labels = [][2]*string{c16kv("K", sp(""))}
				}
				add("oracle-1key", o)
			}
		}
	}
	// E2: two keys over {penv, f1, f2} × environment state, literal or reference to the other key, both line orders
	other := map[string]string{"K1": "K2", "K2": "K1"}
	for c1 := 0; c1 < 72; c1++ {
		for c2 := 0; c2 < 72; c2++ {
			for order := 0; order < 2; order++ {
				o := c16OracleArgs{Penv: map[string]string{}, Keys: []string{"K1", "K2"}}
				cfg := map[string]int{"K1": c1, "K2": c2}
				ks := []string{"K1", "K2"}
				if order == 1 {
					ks = []string{"K2", "K1"}
				}
				for f := 0; f < 2; f++ {
					tag := fmt.Sprintf("F%d", f+1)
					ltag := fmt.Sprintf("LF%d", f+1)
					var ls, lls []c16Line
					for _, k := range ks {
						kind := (cfg[k] / []int{1, 3}[f]) % 3 // 0 absent, 1 literal, 2 reference
						if kind == 2 {
							kind = 3
						}
						ls = append(ls, c16FileLine(tag, k, kind, other[k])...)
						lls = append(lls, c16FileLine(ltag, k, kind, other[k])...)
					}
					o.EnvLayers = append(o.EnvLayers, c16Layer{Path: tag + ".env", Present: true, Required: true, Lines: ls})
					o.LabelLayers = append(o.LabelLayers, c16Layer{Path: ltag + ".lbl", Present: true, Required: true, Lines: lls})
				}
				for _, k := range []string{"K1", "K2"} {
					if (cfg[k]/9)%2 == 1 {
						o.Penv[k] = "P." + k
					}
					st := cfg[k] / 18
					o.Environment = append(o.Environment, c16EnvState(k, st)...)
					if st == 1 {
						o.Labels = append(o.Labels, c16kv(k, sp("L."+k)))
					}
				}
				o.NoLoad = (c1+c2+order)%ctx.Pick(6, 1) != 0
				add("oracle-2keys", o)
			}
		}
	}
	// E3: required flag × file presence over three files (and a missing label file)
	for pres := 0; pres < 27; pres++ {

		for st := 0; st < 4; st++ {
			for lmiss := 0; lmiss < 2; lmiss++ {
				o := c16OracleArgs{Penv: map[string]string{"K2": "P.K2"}, Keys: []string{"K1", "K2"}, Environment: c16EnvState("K1", st)}
				x := pres
				for f := 0; f < 3; f++ {
					tag := fmt.Sprintf("F%d", f+1)
					state := x % 3 // 0 present, 1 missing+required, 2 missing+optional
					x /= 3
					o.EnvLayers = append(o.EnvLayers, c16Layer{Path: tag + ".env", Present: state == 0, Required: state != 2,
						Lines: append(c16FileLine(tag, "K1", 3, "K1"), c16FileLine(tag, "K2", 3, "K1")...)})
				}
				o.LabelLayers = []c16Layer{{Path: "LF1.lbl", Present: true, Required: true, Lines: c16FileLine("LF1", "K1", 1, "")},
					{Path: "LF2.lbl", Present: lmiss == 0, Required: true, Lines: c16FileLine("LF2", "K1", 3, "K1")}}
				add("oracle-required-x-presence", o)
			}
		}
	}
}

// the repaired finding (Neg.missing_optional_skipped_false_pre): an env file under a regular file is missing —
// skipped when optional, "not found" when required
func c16OracleUnderFile(ctx *core.Ctx) {
	for pos := 0; pos < 3; pos++ {
		for st := 0; st < 4; st++ {
			for req := 0; req < 2; req++ {
				o := c16OracleArgs{Penv: map[string]string{"K2": "P.K2"}, Keys: []string{"K1", "K2"}, Environment: c16EnvState("K1", st), NoLoad: st%2 == 1, Discard: st >= 2}
				for f := 0; f < 3; f++ {
					tag := fmt.Sprintf("F%d", f+1)
					l := c16Layer{Path: tag + ".env", Present: true, Required: true, Lines: c16FileLine(tag, "K1", 3, "K2")}
					if f == pos {
						l.Present, l.Required, l.UnderFile = false, req == 1, true
					}
					o.EnvLayers = append(o.EnvLayers, l)
				}
				ctx.Count("oracle-env-file-under-regular-file")
				if o.Sites = !o.NoLoad; o.Sites {
					c16SiteLayout(ctx, &o)
				}
				ctx.Add("c16.oracle", o)
			}
		}
	}
}

// round 7: file lists in which a path occurs twice — every sequence of three entries over the files F1, F2, F3 with a
// repetition (21), as env_file list and as label_file list, with / without an `environment` / `labels` entry for the shared
// key, files of literals / with a reference to the shared key.  The written order decides ("entries in order, a later file
// overriding an earlier one"): through the Project methods, a whole load, base + override (`load_merge`: the list split
// over two config files), the second call site and one of include / extends / extends-split.
func c16OracleRepeated(ctx *core.Ctx) {
	n := 0
	for pat := 0; pat < 27; pat++ {
		idx := []int{pat % 3, pat / 3 % 3, pat / 9}
		if idx[0] != idx[1] && idx[1] != idx[2] && idx[0] != idx[2] {
			continue
		}
		for labels := 0; labels < 2; labels++ {
			for st := 0; st < 2; st++ {
				for ref := 0; ref < 2; ref++ {
					n++
					ext := []string{".env", ".lbl"}[labels]
					o := c16OracleArgs{Penv: map[string]string{"K2": "P.K2"}, Keys: []string{"K1", "K2", "U1", "U2", "U3"},
						Discard: n%4 == 0, ListForm: n%3 == 0, Merge: true, Sites: true}
					var ls []c16Layer
					for j, i := range idx {
						tag := fmt.Sprintf("F%d", i+1)
						lines := c16FileLine(tag, "K1", 1, "")
						if ref == 1 {
							lines = append(lines, c16FileLine(tag, "K2", 3, "K1")...)
						} else if i != 1 {
							lines = append(lines, c16FileLine(tag, "K2", 1, "")...)
						}
						lines = append(lines, c16FileLine(tag, fmt.Sprintf("U%d", i+1), 1, "")...)
						// the last entry of an env_file list is optional: an entry that replaces an earlier one shows in the references
						ls = append(ls, c16Layer{Path: tag + ext, Present: true, Required: labels == 1 || j != 2, Lines: lines})
					}
					plain := []c16Layer{{Path: "P" + []string{".lbl", ".env"}[labels], Present: true, Required: true, Lines: c16FileLine("P", "K1", 1, "")}}
					if labels == 1 {
						o.LabelLayers, o.EnvLayers = ls, plain
						if st == 1 {
							o.Labels = [][2]*string{c16kv("K1", sp("L.K1"))}
						}
						ctx.Count("oracle-repeated-label-file-path")
					} else {
						o.EnvLayers, o.LabelLayers = ls, plain
						o.Environment = c16EnvState("K1", st)
						ctx.Count("oracle-repeated-env-file-path")
					}
					c16SiteLayout(ctx, &o)
					ctx.Add("c16.oracle", o)
				}
			}
		}
	}
}

// operators of the interpolation grammar inside env / label files: `K=…${R:-d}…`, `${R+…}`, `${R-…}` with R unset,
// empty or set in the project environment, an earlier file or an earlier line
func c16OracleOperators(ctx *core.Ctx) {
	n := 0
	for kind := 4; kind <= 8; kind++ {
		for rstate := 0; rstate < 7; rstate++ {
			for _, st := range []int{0, 2} {
				n++
				o := c16OracleArgs{Penv: map[string]string{}, Keys: []string{"K", "R"}, Environment: c16EnvState("K", st),
					Discard: n%2 == 0, ListForm: n%3 == 0, NoLoad: n%2 == 1}
				var f1, f2 []c16Line
				switch rstate {
				case 1, 6:
					o.Penv["R"] = "P.R"
				case 2:
					o.Penv["R"] = ""
				case 3:
					f1 = append(f1, c16Assign("R", c16Lit("F1.R")))
				case 4:
					f1 = append(f1, c16Assign("R"))
				}
				if rstate >= 5 {
					f2 = append(f2, c16Assign("R", c16Lit("F2.R")))
				}
				f2 = append(f2, c16FileLine("F2", "K", kind, "R")...)
				o.EnvLayers = []c16Layer{{Path: "F1.env", Present: true, Required: true, Lines: f1}, {Path: "F2.env", Present: true, Required: true, Lines: f2}}
				o.LabelLayers = []c16Layer{{Path: "LF1.lbl", Present: true, Required: true, Lines: f1}, {Path: "LF2.lbl", Present: true, Required: true, Lines: f2}}
				ctx.Count("oracle-operators")
				if o.Sites = !o.NoLoad; o.Sites {
					c16SiteLayout(ctx, &o)
				}
				ctx.Add("c16.oracle", o)
			}
		}
	}
}

func c16OracleRandom(ctx *core.Ctx) {
	r := ctx.Rng
	n := ctx.Pick(5000, 60000)
	for i := 0; i < n; i++ {
		nk := 3 + r.Intn(2)
		keys := []string{"K1", "K2", "K3", "K4"}[:nk]
		o := c16OracleArgs{Penv: map[string]string{}, Keys: keys, Discard: r.Intn(2) == 0, ListForm: r.Intn(2) == 0}
		for _, k := range keys {
			switch r.Intn(6) {
			case 0, 1, 2:
				o.Penv[k] = "P." + k
			case 3:
				o.Penv[k] = ""
			}
			o.Environment = append(o.Environment, c16EnvState(k, r.Intn(4))...)
			switch r.Intn(4) {
			case 0:
				o.Labels = append(o.Labels, c16kv(k, sp("L."+k)))
			case 1:
				o.Labels = append(o.Labels, c16kv(k, sp("")))
			}
		}
		lines := func(tag string) []c16Line {
			var ls []c16Line
			for j, m := 0, r.Intn(6); j < m; j++ {
				k := keys[r.Intn(nk)]
				kind := 1 + r.Intn(6)
				if r.Intn(10) == 0 {
					kind = 7 + r.Intn(2) // which file fails is part of the specification (envFailureFrom)
				}
				l := c16FileLine(fmt.Sprintf("%s#%d", tag, j), k, kind, keys[r.Intn(nk)])
				ls = append(ls, l...)
			}
			return ls
		}
		for f := 0; f < 3; f++ {
			tag := fmt.Sprintf("F%d", f+1)
			state := 0
			if r.Intn(10) == 0 {
				state = 1 + r.Intn(2)
			}
			o.EnvLayers = append(o.EnvLayers, c16Layer{Path: tag + ".env", Present: state == 0, Required: state != 2, Lines: lines(tag)})
		}
		for f, m := 0, r.Intn(3); f < m; f++ {
			tag := fmt.Sprintf("LF%d", f+1)
			o.LabelLayers = append(o.LabelLayers, c16Layer{Path: tag + ".lbl", Present: r.Intn(25) != 0, Required: true, Lines: lines(tag)})
		}
		o.NoLoad = i%ctx.Pick(3, 2) != 0
		if o.Sites = !o.NoLoad && i%2 == 0; o.Sites {
			c16SiteLayout(ctx, &o)
		}
		ctx.Count(fmt.Sprintf("oracle-random-%dkeys", nk))
		ctx.Add("c16.oracle", o)
	}
}
