package c13

// C13 — dependency-ordered traversal (graph.InDependencyOrder / walk).
//
//	trav.sched   correspondence: real walk under the controlled scheduler (c13sched.go) vs the Lean LTS
//	             `Trav.step?` (driver op trav.replay): every real step must be enabled in the model and the
//	             goroutine views must agree at every quiescent point
//	trav.oracle  direct oracle on the same kind of runs: the property's observables (visitor entry/exit log,
//	             return value) decided in Go, independent of the model
//	trav.free    direct oracle, free-running (no yield control): real concurrency with jittering visitors
//	trav.proj    direct oracle for graph construction: cyclic graphs refused before any visit, project unmodified

import (
	"encoding/json"
	"fmt"
	"math/rand"
	"sort"
	"strings"
	"sync"
	"time"

	"verifharness/core"
)

type c13Args struct {
	c13Graph
	Errs   []int    `json:"errs,omitempty"`   // vertices whose visitor returns an error
	Mode   string   `json:"mode"`             // dfs | completion | random | pct | script
	Policy string   `json:"policy,omitempty"` // completion: first | last | random
	Seed   int64    `json:"seed,omitempty"`
	Budget int      `json:"budget"`
	Script []string `json:"script,omitempty"`
	// Expect: a behaviour the (scripted) runs must show — used by corpus witnesses of Neg/ theorems, so that a witness
	// that silently stops being reproduced on the real code is a disagreement
	Expect string `json:"expect,omitempty"`
}

// c13StartAfterErrorExit: does the trace enter a visitor after a worker whose visitor failed has exited (i.e. after the
// errgroup has recorded the error and cancelled the context)?
func c13StartAfterErrorExit(ev []string) bool {
	failed := map[string]bool{}
	exited := false
	for _, e := range ev {
		f := strings.Split(e, "|")
		if len(f) < 6 || f[0] != "W" {
			continue
		}
		switch {
		case f[1] == "visit" && f[5] == "err":
			failed[f[2]] = true
		case f[1] == "W.exit" && failed[f[2]]:
			exited = true
		case f[1] == "W.begin" && f[3] == "visit" && exited:
			return true
		}
	}
	return false
}

type c13Out struct {
	Runs     []*c13Run `json:"runs"`
	Complete bool      `json:"complete,omitempty"` // the DFS exhausted its space
}

func c13ErrSet(l []int) map[int]bool {
	m := map[int]bool{}
	for _, v := range l {
		m[v] = true
	}
	return m
}

func c13IndexOf(l []string, x string) int {
	for i, y := range l {
		if x == y {
			return i
		}
	}
	return -1
}

func c13Real(raw json.RawMessage) any {
	var a c13Args
	if err := json.Unmarshal(raw, &a); err != nil {
		return map[string]any{"bad": err.Error()}
	}
	if a.Budget <= 0 {
		a.Budget = 1
	}
	maxSteps := 40*a.N + 40
	errAt := c13ErrSet(a.Errs)
	out := &c13Out{}
	deadline := time.Now().Add(40 * time.Second)
	// a wedged run is evidence enough: stop the case there
	wedged := func() bool {
		if n := len(out.Runs); n > 0 && (out.Runs[n-1].Deadlock || out.Runs[n-1].Stuck != "" || out.Runs[n-1].Starved != "") {
			return true
		}
		return false
	}
	switch a.Mode {
	case "script":
		out.Runs = append(out.Runs, c13RunOne(a.c13Graph, errAt, c13ChooseScript(a.Script, c13ChooseFirst), maxSteps))
	case "random":
		for i := 0; i < a.Budget && time.Now().Before(deadline) && !wedged(); i++ {
			r := rand.New(rand.NewSource(a.Seed*7919 + int64(i)))
			out.Runs = append(out.Runs, c13RunOne(a.c13Graph, errAt, c13ChooseRandom(r), maxSteps))
		}
	case "pct":
		for i := 0; i < a.Budget && time.Now().Before(deadline) && !wedged(); i++ {
			r := rand.New(rand.NewSource(a.Seed*104729 + int64(i)))
			out.Runs = append(out.Runs, c13RunOne(a.c13Graph, errAt, c13ChoosePCT(r, 1+i%3, 14*a.N+6), maxSteps))
		}
	case "dfs":
		var prefix []string
		for n := 0; n < a.Budget && time.Now().Before(deadline) && !wedged(); n++ {
			run := c13RunOne(a.c13Graph, errAt, c13ChooseScript(prefix, c13ChooseFirst), maxSteps)
			out.Runs = append(out.Runs, run)
			i := len(run.Choices) - 1
			for ; i >= 0; i-- {
				k := c13IndexOf(run.Enabled[i], run.Choices[i])
				if k >= 0 && k+1 < len(run.Enabled[i]) {
					prefix = append(append([]string(nil), run.Choices[:i]...), run.Enabled[i][k+1])
					break
				}
			}
			if i < 0 {
				out.Complete = true
				break
			}
		}
	case "completion":
		var vprefix []string
		rr := rand.New(rand.NewSource(a.Seed))
		for n := 0; n < a.Budget && time.Now().Before(deadline) && !wedged(); n++ {
			var vch []string
			var ven [][]string
			visits := func(held []*c13G) *c13G {
				var en []string
				for _, h := range held {
					en = append(en, h.role)
				}
				pick := held[0]
				if len(vch) < len(vprefix) {
					if k := c13IndexOf(en, vprefix[len(vch)]); k >= 0 {
						pick = held[k]
					}
				}
				vch = append(vch, pick.role)
				ven = append(ven, en)
				return pick
			}
			var internal c13Chooser
			switch a.Policy {
			case "last":
				internal = func(_ int, p []*c13G) int { return len(p) - 1 }
			case "random":
				internal = c13ChooseRandom(rr)
			default:
				internal = c13ChooseFirst
			}
			run := c13RunOne(a.c13Graph, errAt, c13ChooseCompletion(internal, visits), maxSteps)
			out.Runs = append(out.Runs, run)
			i := len(vch) - 1
			for ; i >= 0; i-- {
				k := c13IndexOf(ven[i], vch[i])
				if k >= 0 && k+1 < len(ven[i]) {
					vprefix = append(append([]string(nil), vch[:i]...), ven[i][k+1])
					break
				}
			}
			if i < 0 {
				out.Complete = true
				break
			}
		}
	default:
		return map[string]any{"bad": "mode " + a.Mode}
	}
	return out
}

// ---------------------------------------------------------------- the direct oracle

// severity order: the first key in this list that occurs is reported (so a recorded finding never hides another failure)
var c13KeyOrder = []string{"stuck", "deadlock", "once:", "order:", "visit:", "return:", "result:", "bound:exceeded", "bound:max+1-after-error"}

func c13KeyRank(k string) int {
	for i, p := range c13KeyOrder {
		if strings.HasPrefix(k, p) {
			return i
		}
	}
	return -1
}

type c13Viol struct{ key, what string }

// c13Expected: the services the visitor must be called for (spec, computed independently of the model):
// all, or the roots and everything that transitively depends on one.
func c13Expected(g c13Graph) map[int]bool {
	x := map[int]bool{}
	if len(g.Roots) == 0 {
		for i := 0; i < g.N; i++ {
			x[i] = true
		}
		return x
	}
	for _, r := range g.Roots {
		if r >= 0 && r < g.N {
			x[r] = true
		}
	}
	for changed := true; changed; {
		changed = false
		for _, e := range g.Edges {
			if x[e[1]] && !x[e[0]] {
				x[e[0]] = true
				changed = true
			}
		}
	}
	return x
}

func c13Judge(g c13Graph, run *c13Run) []c13Viol {
	var vs []c13Viol
	add := func(k, w string, a ...any) { vs = append(vs, c13Viol{k, fmt.Sprintf(w, a...)}) }
	if run.Stuck != "" {
		add("stuck", "the traversal did not reach quiescence / did not finish: %s", run.Stuck)
	}
	if run.Deadlock {
		add("deadlock", "every goroutine of the traversal is blocked and walk has not returned")
	}
	exp := c13Expected(g)
	started, finished := map[int]int{}, map[int]int{}
	anyErr := false
	errOf := map[string]bool{}
	// what must have finished before v starts
	before := map[int][]int{}
	for _, e := range g.Edges {
		if g.Reverse {
			before[e[1]] = append(before[e[1]], e[0])
		} else {
			before[e[0]] = append(before[e[0]], e[1])
		}
	}
	for _, o := range run.Obs {
		switch o.Kind {
		case "start":
			started[o.V]++
			if started[o.V] > 1 {
				add("once:visited-twice", "visitor called twice for v%d", o.V)
			}
			if !exp[o.V] {
				add("visit:unexpected", "visitor called for v%d which is neither a root nor depends on one", o.V)
			}
			for _, d := range before[o.V] {
				if exp[d] && finished[d] == 0 {
					add("order:started-before-dependency-returned", "visit of v%d started before the visit of v%d returned", o.V, d)
				}
			}
		case "finish":
			finished[o.V]++
			if o.Err {
				anyErr = true
				errOf[fmt.Sprintf("E%d", o.V)] = true
			}
		}
	}
	if run.Done {
		for v, n := range started {
			if finished[v] < n {
				add("return:before-visit-returned", "walk returned while the visit of v%d had not returned", v)
			}
		}
		if run.Leftover > 0 {
			add("return:goroutines-left", "walk returned while %d of its goroutines were still alive", run.Leftover)
		}
		if !anyErr {
			if run.Ret != "nil" {
				add("result:error-without-visitor-error", "walk returned %s although no visitor failed", run.Ret)
			}
			for v := range exp {
				if run.ExtFired {
					break // the caller cancelled its own context: outside the property, nil with unvisited services is allowed
				}
				if started[v] != 1 {
					add("visit:missing", "walk returned nil but v%d was visited %d times", v, started[v])
				}
			}
		} else {
			if run.Ret == "nil" {
				add("result:nil-after-visitor-error", "a visitor failed but walk returned nil")
			} else if !errOf[run.Ret] {
				add("result:not-a-visitor-error", "walk returned %s which no visitor returned", run.Ret)
			} else if len(run.ErrExit) > 0 && run.Ret != fmt.Sprintf("E%d", run.ErrExit[0]) {
				add("result:not-first-error", "walk returned %s but the first failing visit handed to the errgroup was v%d", run.Ret, run.ErrExit[0])
			}
		}
	}
	if g.Limit > 0 && run.MaxRun > g.Limit {
		if run.OverAfterErr && run.MaxRun == g.Limit+1 {
			add("bound:max+1-after-error", "%d visitors ran at once under WithMaxConcurrency(%d) after a visitor error", run.MaxRun, g.Limit)
		} else {
			add("bound:exceeded", "%d visitors ran at once under WithMaxConcurrency(%d)", run.MaxRun, g.Limit)
		}
	}
	sort.SliceStable(vs, func(i, j int) bool { return c13KeyRank(vs[i].key) < c13KeyRank(vs[j].key) })
	return vs
}

func c13DecodeReal(real json.RawMessage) (*c13Out, *core.Verdict) {
	if v := core.CrashVerdict(real); v != nil {
		return nil, v
	}
	var o c13Out
	if err := json.Unmarshal(real, &o); err != nil || o.Runs == nil {
		return nil, core.Disagree("malformed real outcome: " + string(real))
	}
	return &o, nil
}

func c13OracleJudge(args, real, _ json.RawMessage) *core.Verdict {
	var a c13Args
	json.Unmarshal(args, &a)
	o, v := c13DecodeReal(real)
	if v != nil {
		return v
	}
	var best *c13Viol
	if c13Ctx != nil {
		c13Ctx.Count("case:" + a.Mode)
		for range o.Runs {
			c13Ctx.Count("real-runs:" + a.Mode)
		}
		if o.Complete {
			c13Ctx.Count("schedule-space-exhausted:" + a.Mode)
		}
	}
	starved := 0
	for _, r := range o.Runs {
		if r.Starved != "" {
			starved++
			continue
		}
		vs := c13Judge(a.c13Graph, r)
		if len(vs) > 0 && (best == nil || c13KeyRank(vs[0].key) < c13KeyRank(best.key)) {
			b := vs[0]
			best = &b
		}
	}
	if best != nil {
		return core.Fail(best.key, best.what)
	}
	if starved > 0 {
		if c13Ctx != nil {
			c13Ctx.Count("unjudgeable:starved-run")
		}
		return core.Skip("run not judged: the machine was too loaded to reach quiescence")
	}
	return nil
}

func init() {
	core.Register("trav.sched", &core.CheckDef{
		Real:     c13Real,
		DriverOp: "trav.replay",
		DriverArgs: func(args, real json.RawMessage) any {
			var a c13Args
			json.Unmarshal(args, &a)
			var o c13Out
			json.Unmarshal(real, &o)
			traces := [][]string{}
			for _, r := range o.Runs {
				traces = append(traces, r.Ev)
			}
			return map[string]any{"n": a.N, "edges": a.Edges, "reverse": a.Reverse, "limit": a.Limit, "roots": a.Roots, "traces": traces}
		},
		Judge: func(args, real, drv json.RawMessage) *core.Verdict {
			o, v := c13DecodeReal(real)
			if v != nil {
				return v
			}
			// the property's observables on the same runs: a failing input outranks a model disagreement
			if ov := c13OracleJudge(args, real, nil); ov != nil && ov.Kind == "fail" {
				return ov
			}
			var d struct {
				Traces int               `json:"traces"`
				NBad   int               `json:"nbad"`
				Bad    []json.RawMessage `json:"bad"`
				Labels [][]any           `json:"labels"`
			}
			if err := json.Unmarshal(drv, &d); err != nil || d.Traces != len(o.Runs) {
				return core.Disagree("malformed replay answer: " + string(drv))
			}
			c13LabelAdd(d.Labels)
			if d.NBad == 0 {
				var a c13Args
				json.Unmarshal(args, &a)
				if a.Expect == "start-after-error-exit" {
					for _, r := range o.Runs {
						if !c13StartAfterErrorExit(r.Ev) {
							return core.Disagree("witness not reproduced: no visitor was entered after a failed worker's exit (Neg/C13.lean error_stops_new_visits_false)")
						}
					}
					if c13Ctx != nil {
						c13Ctx.Count("witness:start-after-error-exit")
					}
				}
			}
			if d.NBad > 0 {
				return core.Disagree(fmt.Sprintf("%d of %d real traces are not traces of Trav.step?: %s", d.NBad, d.Traces, d.Bad[0]))
			}
			for _, r := range o.Runs {
				if r.Stuck != "" || r.Deadlock {
					return core.Disagree("real run stuck/deadlocked (see trav.oracle): " + r.Stuck)
				}
			}
			for _, r := range o.Runs {
				if r.Starved != "" {
					if c13Ctx != nil {
						c13Ctx.Count("unjudgeable:starved-run")
					}
					return core.Skip("a run could not be brought to quiescence within 10 s although every goroutine was runnable (overloaded machine): " + r.Starved)
				}
			}
			return nil
		},
		Timeout: 120 * time.Second,
	})
	core.Register("trav.oracle", &core.CheckDef{Real: c13Real, Judge: c13OracleJudge, Timeout: 120 * time.Second})
	core.RegisterProp("C13", runC13)
}

// ---------------------------------------------------------------- generators

// all DAGs on n vertices up to relabelling: edge a→b ("a depends on b") only for b < a
func c13AllDags(n int) [][][2]int {
	var pairs [][2]int
	for a := 0; a < n; a++ {
		for b := 0; b < a; b++ {
			pairs = append(pairs, [2]int{a, b})
		}
	}
	var res [][][2]int
	for mask := 0; mask < 1<<len(pairs); mask++ {
		es := [][2]int{}
		for i, p := range pairs {
			if mask&(1<<i) != 0 {
				es = append(es, p)
			}
		}
		res = append(res, es)
	}
	return res
}

func c13RandomDag(r *rand.Rand, n int) [][2]int {
	es := [][2]int{}
	p := []float64{0.2, 0.35, 0.5}[r.Intn(3)]
	perm := r.Perm(n)
	for a := 0; a < n; a++ {
		for b := 0; b < a; b++ {
			if r.Float64() < p {
				es = append(es, [2]int{perm[a], perm[b]})
			}
		}
	}
	return es
}

func c13Subsets(n, maxSize int) [][]int {
	var res [][]int
	for mask := 1; mask < 1<<n; mask++ {
		var l []int
		for i := 0; i < n; i++ {
			if mask&(1<<i) != 0 {
				l = append(l, i)
			}
		}
		if len(l) <= maxSize {
			res = append(res, l)
		}
	}
	return res
}

// shapes with a dependency shared by several dependents (edge [a,b]: a depends on b)
var c13SharedShapes = []struct {
	name  string
	n     int
	edges [][2]int
}{
	{"diamond", 4, [][2]int{{1, 0}, {2, 0}, {3, 1}, {3, 2}}},
	{"root-with-dependency-and-3-dependents", 5, [][2]int{{1, 0}, {2, 1}, {3, 1}, {4, 1}}},
	{"shared-before-root-branch", 4, [][2]int{{3, 0}, {3, 2}, {2, 0}, {2, 1}}},
	{"diamond-over-chain", 5, [][2]int{{1, 0}, {2, 1}, {3, 1}, {4, 2}, {4, 3}}},
	{"two-roots-fan", 5, [][2]int{{2, 0}, {2, 1}, {3, 0}, {3, 1}, {4, 2}, {4, 3}}},
}

var c13Ctx *core.Ctx

func runC13(ctx *core.Ctx) {
	c13Ctx = ctx
	// trav.sched judges the model tie AND the oracle on its runs; the quick tier runs the oracle a second time on an
	// independent execution (other map orders, other select choices), the thorough tier spends that time on volume
	both := func(a c13Args) {
		ctx.Add("trav.sched", a)
		if !ctx.Thorough() {
			ctx.Add("trav.oracle", a)
		}
	}
	limits := []int{0, 1, 2, 3}
	dirs := []bool{false, true}
	// 1. exhaustive small scope: every DAG shape × direction × limit; every visitor completion order,
	//    internal steps in canonical order / reversed / shuffled
	maxN := ctx.Pick(3, 4)
	for n := 0; n <= maxN; n++ {
		for _, es := range c13AllDags(n) {
			for _, rev := range dirs {
				for _, lim := range limits {
					if lim > n && lim > 1 {
						continue
					}
					g := c13Graph{N: n, Edges: es, Reverse: rev, Limit: lim}
					for _, pol := range []string{"first", "last", "random"} {
						both(c13Args{c13Graph: g, Mode: "completion", Policy: pol, Seed: ctx.Rng.Int63n(1 << 30), Budget: ctx.Pick(30, 130)})
					}
					ctx.Count(fmt.Sprintf("exhaustive-dag-n%d", n))
				}
			}
		}
	}
	// 1b. full DFS over every scheduling choice (all goroutines, all internal steps) on the smallest graphs
	for n := 1; n <= 2; n++ {
		for _, es := range c13AllDags(n) {
			for _, rev := range dirs {
				for _, lim := range []int{0, 1} {
					for _, errs := range [][]int{nil, {0}} {
						both(c13Args{c13Graph: c13Graph{N: n, Edges: es, Reverse: rev, Limit: lim}, Errs: errs, Mode: "dfs", Budget: ctx.Pick(200, 4000)})
						ctx.Count("full-dfs")
					}
					// the caller cancels its own context at every possible point (outside the property: only the model tie,
					// once / order / bound / return-after-all are judged)
					both(c13Args{c13Graph: c13Graph{N: n, Edges: es, Reverse: rev, Limit: lim, ExtCancel: true}, Mode: "dfs", Budget: ctx.Pick(150, 3000)})
					both(c13Args{c13Graph: c13Graph{N: n, Edges: es, Reverse: rev, Limit: lim, ExtCancel: true}, Mode: "random", Seed: ctx.Rng.Int63n(1 << 30), Budget: 10})
					ctx.Count("external-cancel")
				}
			}
		}
	}
	// 1c. error injection at each visit (and at all), roots selections: every DAG shape up to 3 (thorough 4)
	for n := 1; n <= maxN; n++ {
		for _, es := range c13AllDags(n) {
			for _, rev := range dirs {
				errSets := append(c13Subsets(n, 1), c13Subsets(n, n)[len(c13Subsets(n, n))-1])
				for _, errs := range errSets {
					for _, lim := range []int{0, 1, 2} {
						g := c13Graph{N: n, Edges: es, Reverse: rev, Limit: lim}
						both(c13Args{c13Graph: g, Errs: errs, Mode: "completion", Policy: "first", Budget: 12})
						both(c13Args{c13Graph: g, Errs: errs, Mode: "random", Seed: ctx.Rng.Int63n(1 << 30), Budget: 6})
						ctx.Count("error-injection")
					}
				}
				for _, roots := range c13Subsets(n, 2) {
					lim := []int{0, 1}[ctx.Rng.Intn(2)]
					g := c13Graph{N: n, Edges: es, Reverse: rev, Limit: lim, Roots: roots}
					both(c13Args{c13Graph: g, Mode: "completion", Policy: "random", Seed: ctx.Rng.Int63n(1 << 30), Budget: 8})
					both(c13Args{c13Graph: g, Mode: "pct", Seed: ctx.Rng.Int63n(1 << 30), Budget: 4})
					ctx.Count("roots")
				}
			}
		}
	}
	// 1d. root selections on shared-dependency shapes (4–5 services; skip() runs vertex.descendents in the worker
	//     goroutines): diamonds, a root that has a dependency of its own and several dependents that become ready
	//     together, a shared dependency that sorts before the branch leading to the root — every single root, both
	//     directions, unbounded and limit 2, completion orders + PCT + random schedules
	for _, sh := range c13SharedShapes {
		for _, rev := range dirs {
			for r := 0; r < sh.n; r++ {
				for _, lim := range []int{0, 2} {
					g := c13Graph{N: sh.n, Edges: sh.edges, Reverse: rev, Limit: lim, Roots: []int{r}}
					both(c13Args{c13Graph: g, Mode: "completion", Policy: "random", Seed: ctx.Rng.Int63n(1 << 30), Budget: ctx.Pick(3, 24)})
					both(c13Args{c13Graph: g, Mode: "pct", Seed: ctx.Rng.Int63n(1 << 30), Budget: ctx.Pick(2, 8)})
					ctx.Count("roots-shared-" + sh.name)
				}
				// the same selection free-running (no yield control, jittering visitors): the dependents of the root really
				// run skip() / vertex.descendents at the same time
				ctx.Add("trav.free", c13Args{c13Graph: c13Graph{N: sh.n, Edges: sh.edges, Reverse: rev, Roots: []int{r}}, Mode: "free", Seed: ctx.Rng.Int63n(1 << 30), Budget: ctx.Pick(10, 40)})
				ctx.Count("free-running-roots-shared")
			}
		}
	}
	ctx.Res.Exhaustive = true
	ctx.Wait()

	// 2. seeded random: larger DAGs, random options, random / PCT schedules
	bigN := ctx.Pick(5, 6)
	for i := 0; i < ctx.Pick(150, 4000); i++ {
		n := 4 + ctx.Rng.Intn(bigN-3)
		g := c13Graph{N: n, Edges: c13RandomDag(ctx.Rng, n), Reverse: ctx.Rng.Intn(2) == 0, Limit: limits[ctx.Rng.Intn(4)]}
		if ctx.Rng.Intn(4) == 0 {
			for k := 0; k <= ctx.Rng.Intn(2); k++ {
				g.Roots = append(g.Roots, ctx.Rng.Intn(n))
			}
		}
		var errs []int
		switch ctx.Rng.Intn(4) {
		case 0:
			errs = []int{ctx.Rng.Intn(n)}
		case 1:
			for v := 0; v < n; v++ {
				if ctx.Rng.Intn(2) == 0 {
					errs = append(errs, v)
				}
			}
		}
		if ctx.Rng.Intn(5) == 0 {
			g.ExtCancel = true
			ctx.Count("external-cancel")
		}
		mode := []string{"random", "pct", "completion"}[ctx.Rng.Intn(3)]
		both(c13Args{c13Graph: g, Errs: errs, Mode: mode, Policy: "random", Seed: ctx.Rng.Int63n(1 << 30), Budget: 8})
		ctx.Count(fmt.Sprintf("random-dag-n%d-%s", n, mode))
		if i%3 == 0 {
			ctx.Add("trav.free", c13Args{c13Graph: g, Errs: errs, Mode: "free", Seed: ctx.Rng.Int63n(1 << 30), Budget: 20})
			ctx.Count("free-running")
		}
	}
	// 3. malformed options: unknown / duplicate roots, non-positive limits, empty project
	for i := 0; i < ctx.Pick(40, 400); i++ {
		n := ctx.Rng.Intn(4)
		g := c13Graph{N: n, Edges: c13RandomDag(ctx.Rng, n), Reverse: ctx.Rng.Intn(2) == 0, Limit: []int{-1, -7, 0, 1}[ctx.Rng.Intn(4)]}
		switch ctx.Rng.Intn(3) {
		case 0:
			g.Roots = []int{n + 3}
		case 1:
			g.Roots = []int{ctx.Rng.Intn(n + 1), n + 1, ctx.Rng.Intn(n + 1)}
		}
		both(c13Args{c13Graph: g, Mode: "random", Seed: ctx.Rng.Int63n(1 << 30), Budget: 4})
		ctx.Count("malformed-options")
	}
	// 4. graph construction: every digraph with a cycle on up to 3 (thorough 4) nodes is refused before any visit;
	//    optional / required dependencies on missing or disabled services; the project is never modified
	names := []string{"a", "b", "c", "d"}
	maxC := ctx.Pick(3, 4)
	for n := 1; n <= maxC; n++ {
		var pairs [][2]int
		for x := 0; x < n; x++ {
			for y := 0; y < n; y++ {
				pairs = append(pairs, [2]int{x, y})
			}
		}
		for mask := 0; mask < 1<<len(pairs); mask++ {
			if n == 4 && mask%7 != int(ctx.Seed%7) && ctx.Rng.Intn(10) != 0 {
				continue // 65536 digraphs on 4 nodes: a seeded seventh plus a random tenth
			}
			svcs := make([]c13Svc, n)
			for x := range svcs {
				svcs[x].Name = names[x]
			}
			for i, p := range pairs {
				if mask&(1<<i) != 0 {
					svcs[p[0]].Deps = append(svcs[p[0]].Deps, c13Dep{D: names[p[1]], Req: true})
				}
			}
			ctx.Add("trav.proj", c13ProjArgs{Services: svcs, Reverse: mask%2 == 1, Cycle: mask%5 == 4})
			ctx.Count(fmt.Sprintf("digraph-n%d", n))
		}
	}
	// every project with up to 2 services whose depends_on draws on {a, b, ghost, off1}, each absent / required / optional
	pool4 := []string{"a", "b", "ghost", "off1"}
	for n := 1; n <= 2; n++ {
		total := 1
		for i := 0; i < 4*n; i++ {
			total *= 3
		}
		for code := 0; code < total; code++ {
			if n == 2 && !ctx.Thorough() && code%5 != int(ctx.Seed%5) {
				continue
			}
			c := code
			svcs := make([]c13Svc, n)
			for x := 0; x < n; x++ {
				svcs[x].Name = names[x]
				for _, d := range pool4 {
					switch c % 3 {
					case 1:
						svcs[x].Deps = append(svcs[x].Deps, c13Dep{D: d, Req: true})
					case 2:
						svcs[x].Deps = append(svcs[x].Deps, c13Dep{D: d, Req: false})
					}
					c /= 3
				}
			}
			ok := true
			for _, sv := range svcs {
				if len(sv.Deps) > 3 {
					ok = false
				}
			}
			if !ok {
				continue
			}
			ctx.Add("trav.proj", c13ProjArgs{Services: svcs, Disabled: []string{"off1"}, Cycle: code%4 == 3})
			ctx.Count(fmt.Sprintf("project-small-scope-n%d", n))
		}
	}
	for i := 0; i < ctx.Pick(300, 5000); i++ {
		n := 1 + ctx.Rng.Intn(4)
		svcs := make([]c13Svc, n)
		pool := append(append([]string{}, names[:n]...), "off1", "off2", "ghost")
		for x := range svcs {
			svcs[x].Name = names[x]
			for _, d := range pool {
				if ctx.Rng.Intn(4) == 0 {
					req := ctx.Rng.Intn(3) > 0
					if d == "off1" || d == "off2" || d == "ghost" {
						req = ctx.Rng.Intn(4) == 0
					}
					svcs[x].Deps = append(svcs[x].Deps, c13Dep{D: d, Req: req})
				}
			}
		}
		ctx.Add("trav.proj", c13ProjArgs{Services: svcs, Disabled: []string{"off1", "off2"}, Reverse: ctx.Rng.Intn(2) == 0, Cycle: ctx.Rng.Intn(5) == 0})
		ctx.Count("project-with-missing-dependencies")
	}
	// 5. the glue around walk (CollectInDependencyOrder): plan correspondence + oracle on general projects with options
	c13PlanCases(ctx)
	// 6. label coverage of the tie: every rule of Trav.step?, and every branch of the rules that have two, must have been
	//    taken by some real schedule that the model accepted; a branch never reached is a hole in the tie (soft: counted)
	ctx.Wait()
	c13LabelReport(ctx)
}

// ---------------------------------------------------------------- label coverage (filled by the trav.sched judge)

// the rules / branches of Trav.step? as Ops/C13.lean branchOf names them.  Not listed, because unreachable: the caller
// only tries vertices without prerequisite, which the coordinator never tries — `ready.M:not-ready`, `enter.M:lost`.
var c13LtsBranches = []string{
	"schedNext.M", "schedNext.C", "schedEnd.M", "schedEnd.C",
	"ready.M:ready", "ready.C:ready", "ready.C:not-ready",
	"enter.M:claimed", "enter.C:claimed", "enter.C:lost",
	"spawn.M", "spawn.C",
	"wBegin:visit", "wBegin:skipped", "wReturn:ok", "wReturn:err", "wDone", "wSend",
	"wExit:ok", "wExit:first-error", "wExit:later-error",
	"cRecv:continue", "cRecv:last", "cCtxDone", "extCancel",
}

var (
	c13LabelMu     sync.Mutex
	c13LabelCounts = map[string]int{}
)

func c13LabelAdd(rows [][]any) {
	c13LabelMu.Lock()
	defer c13LabelMu.Unlock()
	for _, r := range rows {
		if len(r) != 2 {
			continue
		}
		k, _ := r[0].(string)
		n, _ := r[1].(float64)
		c13LabelCounts[k] += int(n)
	}
}

func c13LabelReport(ctx *core.Ctx) {
	c13LabelMu.Lock()
	defer c13LabelMu.Unlock()
	known := map[string]bool{}
	for _, b := range c13LtsBranches {
		known[b] = true
		n := c13LabelCounts[b]
		if n == 0 {
			ctx.Count("lts-label-never-reached:" + b)
			ctx.Note("label coverage: no accepted real schedule took %s", b)
			continue
		}
		// the histogram is printed in steps (Count adds one at a time): thousands of steps per branch
		for i := 0; i < (n+999)/1000; i++ {
			ctx.Count("lts-label-ksteps:" + b)
		}
	}
	for k, n := range c13LabelCounts {
		if !known[k] && n > 0 {
			ctx.Count("lts-label-unexpected:" + k) // a branch the model documentation calls unreachable was taken
		}
	}
}
