package c13

// C13 — trav.plan: the glue of graph.CollectInDependencyOrder around walk (services.go / graph.go / the options), on
// general projects: optional / required dependencies on missing or disabled services, both directions, root selections
// (known, unknown, duplicate roots), positive / zero / negative limits.
//
//   real side   graph.VerifPlan (verif_c13.go): newGraph + newTraversal + options, then the traversal's own functions
//               are asked what they would do — ready (prerequisites, with the missing one absent *and* merely entered),
//               adjacentNodes, extremityNodes, skip — plus one free-running graph.InDependencyOrder with a recording
//               visitor on the same project and options;
//   model side  driver op trav.plan = TravProj.plan (Model/TravProj.lean), the function Props/C13Collect.lean speaks about;
//   oracle      an independent Go rendering of the property (dependencies that are enabled services; reachability to a
//               root): a plan or a run that differs from it is a failing input.

import (
	"context"
	"encoding/json"
	"fmt"
	"sort"
	"strings"
	"sync"
	"time"

	"github.com/compose-spec/compose-go/v2/graph"
	"github.com/compose-spec/compose-go/v2/types"

	"verifharness/core"
)

type c13PlanArgs struct {
	Services []c13Svc `json:"services"`
	Disabled []string `json:"disabled,omitempty"`
	Reverse  bool     `json:"reverse,omitempty"`
	Limit    int      `json:"limit,omitempty"`
	Roots    []string `json:"roots,omitempty"`
}

func (a c13PlanArgs) options() []func(*graph.Options) {
	var opts []func(*graph.Options)
	if a.Reverse {
		opts = append(opts, graph.InReverseOrder)
	}
	if a.Limit != 0 {
		opts = append(opts, graph.WithMaxConcurrency(a.Limit))
	}
	if a.Roots != nil {
		opts = append(opts, graph.WithRootNodesAndDown(a.Roots))
	}
	return opts
}

type c13PlanReal struct {
	Class    string               `json:"class"`
	View     *graph.VerifPlanView `json:"view,omitempty"`
	Log      [][2]string          `json:"log"` // ["s"|"f", service] in the order the visitor was entered / returned
	Ret      string               `json:"ret"`
	Modified bool                 `json:"modified"`
	Deadlock string               `json:"deadlock,omitempty"`
}

func c13PlanRealFn(raw json.RawMessage) any {
	var a c13PlanArgs
	if err := json.Unmarshal(raw, &a); err != nil {
		return map[string]any{"bad": err.Error()}
	}
	c13Mu.Lock()
	defer c13Mu.Unlock()
	graph.VerifYield = nil
	pa := c13ProjArgs{Services: a.Services, Disabled: a.Disabled}
	p := pa.project()
	before, _ := json.Marshal(p)
	out := &c13PlanReal{Log: [][2]string{}}
	view, err := graph.VerifPlan(p, a.options()...)
	out.Class = c13ErrClass(err)
	out.View = view
	var mu sync.Mutex
	done := make(chan error, 1)
	go func() {
		done <- graph.InDependencyOrder(context.Background(), p, func(_ context.Context, name string, _ types.ServiceConfig) error {
			mu.Lock()
			out.Log = append(out.Log, [2]string{"s", name})
			mu.Unlock()
			time.Sleep(50 * time.Microsecond)
			mu.Lock()
			out.Log = append(out.Log, [2]string{"f", name})
			mu.Unlock()
			return nil
		}, a.options()...)
	}()
	rerr, ok, why := c13Await(done, 20*time.Second)
	mu.Lock()
	defer mu.Unlock()
	if !ok {
		if strings.HasPrefix(why, "deadlock") {
			out.Deadlock = why
			return out
		}
		return map[string]any{"hang": "InDependencyOrder " + why}
	}
	out.Ret = c13ErrClass(rerr)
	after, _ := json.Marshal(p)
	out.Modified = string(before) != string(after)
	return out
}

func c13PlanNames(a c13PlanArgs) map[string]int {
	names := c13ProjNames(c13ProjArgs{Services: a.Services, Disabled: a.Disabled})
	for _, r := range a.Roots {
		if _, ok := names[r]; !ok {
			names[r] = len(names)
		}
	}
	return names
}

func c13PlanSmall(a c13PlanArgs) bool {
	return c13ProjSmall(c13ProjArgs{Services: a.Services})
}

func c13PlanDriverArgs(args, _ json.RawMessage) any {
	var a c13PlanArgs
	json.Unmarshal(args, &a)
	names := c13PlanNames(a)
	svcs := []any{}
	for _, s := range a.Services {
		deps := [][]any{}
		for _, d := range s.Deps {
			deps = append(deps, []any{names[d.D], d.Req})
		}
		svcs = append(svcs, map[string]any{"name": names[s.Name], "deps": deps})
	}
	dis := []int{}
	for _, d := range a.Disabled {
		dis = append(dis, names[d])
	}
	roots := []int{}
	for _, r := range a.Roots {
		roots = append(roots, names[r])
	}
	// the enumeration of all iteration orders (field "classes") is exponential: only asked for on small projects
	return map[string]any{"services": svcs, "disabled": dis, "reverse": a.Reverse, "limit": a.Limit, "roots": roots, "small": c13PlanSmall(a)}
}

// the property, rendered independently of the model
type c13PlanSpec struct {
	missingRequired, cyclic bool
	verts                   []string
	deps, pre, post         map[string][]string
	selected                map[string]bool
}

func c13PlanSpecOf(a c13PlanArgs) *c13PlanSpec {
	sp := &c13PlanSpec{deps: map[string][]string{}, pre: map[string][]string{}, post: map[string][]string{}, selected: map[string]bool{}}
	enabled := map[string]bool{}
	for _, s := range a.Services {
		enabled[s.Name] = true
		sp.verts = append(sp.verts, s.Name)
	}
	sort.Strings(sp.verts)
	dependents := map[string][]string{}
	for _, s := range a.Services {
		for _, d := range s.Deps {
			if enabled[d.D] {
				sp.deps[s.Name] = append(sp.deps[s.Name], d.D)
				dependents[d.D] = append(dependents[d.D], s.Name)
			} else if d.Req {
				sp.missingRequired = true
			}
		}
	}
	col := map[string]int{}
	var dfs func(v string) bool
	dfs = func(v string) bool {
		col[v] = 1
		for _, w := range sp.deps[v] {
			if col[w] == 1 || (col[w] == 0 && dfs(w)) {
				return true
			}
		}
		col[v] = 2
		return false
	}
	for _, v := range sp.verts {
		if col[v] == 0 && dfs(v) {
			sp.cyclic = true
		}
	}
	for _, v := range sp.verts {
		if a.Reverse {
			sp.pre[v], sp.post[v] = dependents[v], sp.deps[v]
		} else {
			sp.pre[v], sp.post[v] = sp.deps[v], dependents[v]
		}
		sort.Strings(sp.pre[v])
		sort.Strings(sp.post[v])
	}
	if !sp.cyclic {
		isRoot := map[string]bool{}
		for _, r := range a.Roots {
			isRoot[r] = true
		}
		var reach func(v string, seen map[string]bool) bool
		reach = func(v string, seen map[string]bool) bool {
			if isRoot[v] {
				return true
			}
			seen[v] = true
			for _, w := range sp.deps[v] {
				if !seen[w] && reach(w, seen) {
					return true
				}
			}
			return false
		}
		for _, v := range sp.verts {
			sp.selected[v] = len(a.Roots) == 0 || reach(v, map[string]bool{})
		}
	}
	return sp
}

func c13SameSet(a, b []string) bool {
	x := append([]string{}, a...)
	y := append([]string{}, b...)
	sort.Strings(x)
	sort.Strings(y)
	return strings.Join(x, "\x00") == strings.Join(y, "\x00") && len(x) == len(y)
}

func c13PlanJudge(args, real, drv json.RawMessage) *core.Verdict {
	if v := core.CrashVerdict(real); v != nil {
		return v
	}
	var a c13PlanArgs
	json.Unmarshal(args, &a)
	var r c13PlanReal
	if err := json.Unmarshal(real, &r); err != nil || r.Class == "" {
		return core.Disagree("malformed real outcome " + string(real))
	}
	sp := c13PlanSpecOf(a)
	count := func(k string) {
		if c13Ctx != nil {
			c13Ctx.Count(k)
		}
	}
	if r.Deadlock != "" {
		return core.Fail("deadlock", "InDependencyOrder never returns: "+r.Deadlock)
	}
	// ---- oracle: the property on this project and these options
	refusedExpected := sp.missingRequired || sp.cyclic
	if refusedExpected {
		if r.Class == "ok" || r.Ret == "ok" || len(r.Log) > 0 {
			key := "cycle-accepted:other"
			if sp.missingRequired {
				key = "missing-dependency:accepted"
			}
			return core.Fail(key, fmt.Sprintf("project must be refused before any visit: newGraph says %s, InDependencyOrder says %s after %d visitor events", r.Class, r.Ret, len(r.Log)))
		}
	} else {
		if r.Class != "ok" || r.Ret != "ok" {
			return core.Fail("acyclic-refused", fmt.Sprintf("acyclic project with every required dependency present: newGraph says %s, InDependencyOrder says %s", r.Class, r.Ret))
		}
	}
	if r.Modified {
		return core.Fail("project-modified:other", "the traversal modified the caller's project")
	}
	if !refusedExpected && r.View != nil && len(sp.verts) > 0 {
		v := r.View
		if !c13SameSet(v.Verts, sp.verts) {
			return core.Fail("plan:vertices", fmt.Sprintf("vertices %v, enabled services %v", v.Verts, sp.verts))
		}
		if !v.ReadyWhenAllVisited {
			return core.Fail("plan:never-ready", "ready() refuses a service although every service is visited")
		}
		var ext, skip []string
		for _, x := range sp.verts {
			if !c13SameSet(v.Pre[x], sp.pre[x]) {
				return core.Fail("plan:prerequisites", fmt.Sprintf("ready(%s) waits for %v, the property says %v (reverse=%v)", x, v.Pre[x], sp.pre[x], a.Reverse))
			}
			if !c13SameSet(v.PreEntered[x], sp.pre[x]) {
				return core.Fail("plan:ready-accepts-running-prerequisite", fmt.Sprintf("ready(%s) with one prerequisite still running waits for %v, the property says %v (reverse=%v)", x, v.PreEntered[x], sp.pre[x], a.Reverse))
			}
			if !c13SameSet(v.Post[x], sp.post[x]) {
				return core.Fail("plan:successors", fmt.Sprintf("after %s the coordinator tries %v, must try %v (reverse=%v)", x, v.Post[x], sp.post[x], a.Reverse))
			}
			if len(sp.pre[x]) == 0 {
				ext = append(ext, x)
			}
			if !sp.selected[x] {
				skip = append(skip, x)
			}
		}
		if !c13SameSet(v.Ext, ext) {
			return core.Fail("plan:extremities", fmt.Sprintf("walk starts from %v, the services without prerequisite are %v (reverse=%v)", v.Ext, ext, a.Reverse))
		}
		if !c13SameSet(v.Skip, skip) {
			return core.Fail("plan:root-selection", fmt.Sprintf("skip() = %v, roots %v select everything but %v", v.Skip, a.Roots, skip))
		}
		// a limit that is absent or larger than the configured one breaks the bound (a smaller one only differs from the
		// model: reported below as a disagreement)
		if a.Limit > 0 && (v.MaxConcurrency <= 0 || v.MaxConcurrency > a.Limit) {
			return core.Fail("plan:limit", fmt.Sprintf("WithMaxConcurrency(%d) gives limit %d", a.Limit, v.MaxConcurrency))
		}
	}
	if !refusedExpected {
		// the free-running visit log: once each, exactly the selected ones, after prerequisites
		started, finished := map[string]int{}, map[string]bool{}
		for _, e := range r.Log {
			if e[0] == "s" {
				started[e[1]]++
				if started[e[1]] > 1 {
					return core.Fail("once:visited-twice", "service "+e[1]+" visited twice")
				}
				for _, d := range sp.pre[e[1]] {
					if sp.selected[d] && !finished[d] {
						return core.Fail("order:started-before-dependency-returned", fmt.Sprintf("%s entered before the visit of %s returned (reverse=%v)", e[1], d, a.Reverse))
					}
				}
			} else {
				finished[e[1]] = true
			}
		}
		for _, x := range sp.verts {
			if sp.selected[x] && started[x] == 0 {
				return core.Fail("visit:missing", fmt.Sprintf("service %s (roots %v) was not visited", x, a.Roots))
			}
			if !sp.selected[x] && started[x] > 0 {
				return core.Fail("visit:unexpected", fmt.Sprintf("service %s is neither a root nor a dependent of a root %v but was visited", x, a.Roots))
			}
			if started[x] > 0 && !finished[x] {
				return core.Fail("return:before-visit-finished", "InDependencyOrder returned while the visit of "+x+" was running")
			}
		}
	}
	// ---- correspondence with TravProj.plan
	var d struct {
		Classes []string        `json:"classes"`
		Plan    string          `json:"plan"`
		Cls     string          `json:"cls"`
		Verts   []int           `json:"verts"`
		Pre     [][]interface{} `json:"pre"`
		Post    [][]interface{} `json:"post"`
		Ext     []int           `json:"ext"`
		Skip    []int           `json:"skip"`
		Limit   int             `json:"limit"`
	}
	if err := json.Unmarshal(drv, &d); err != nil || d.Plan == "" {
		return core.Disagree("malformed trav.plan answer: " + string(drv))
	}
	names := c13PlanNames(a)
	back := map[int]string{}
	for n, i := range names {
		back[i] = n
	}
	strs := func(l []int) []string {
		out := []string{}
		for _, i := range l {
			out = append(out, back[i])
		}
		return out
	}
	per := func(rows [][]interface{}) map[string][]string {
		m := map[string][]string{}
		for _, row := range rows {
			if len(row) != 2 {
				continue
			}
			k, _ := row[0].(float64)
			var l []int
			if arr, ok := row[1].([]interface{}); ok {
				for _, x := range arr {
					f, _ := x.(float64)
					l = append(l, int(f))
				}
			}
			m[back[int(k)]] = strs(l)
		}
		return m
	}
	dir := "forward"
	if a.Reverse {
		dir = "reverse"
	}
	rootsKind := "no-roots"
	if len(a.Roots) > 0 {
		rootsKind = "roots"
	}
	switch d.Plan {
	case "refused":
		count("plan-branch:refused-" + d.Cls)
		if c13PlanSmall(a) {
			found := false
			for _, c := range d.Classes {
				if c == r.Class {
					found = true
				}
			}
			if !found {
				return core.Disagree(fmt.Sprintf("real newGraph class %q is not among the model's classes %v", r.Class, d.Classes))
			}
		} else if r.Class == "ok" {
			return core.Disagree("model refuses (" + d.Cls + "), real newGraph accepts")
		}
		if r.Ret == "ok" || len(r.Log) > 0 {
			return core.Disagree("model refuses (" + d.Cls + "), real InDependencyOrder walked")
		}
	case "empty":
		count("plan-branch:empty")
		if r.Class != "ok" || r.Ret != "ok" || len(r.Log) > 0 || len(a.Services) > 0 {
			return core.Disagree("model plan is empty, real: " + string(real))
		}
	case "walk":
		lim := "unbounded"
		if d.Limit > 0 {
			lim = "limited"
		}
		count("plan-branch:walk-" + dir + "-" + rootsKind + "-" + lim)
		if r.Class != "ok" || r.View == nil {
			return core.Disagree("model plan is walk, real newGraph says " + r.Class)
		}
		v := r.View
		pre, post := per(d.Pre), per(d.Post)
		if !c13SameSet(v.Verts, strs(d.Verts)) {
			return core.Disagree(fmt.Sprintf("verts: real %v model %v", v.Verts, strs(d.Verts)))
		}
		for _, x := range v.Verts {
			if !c13SameSet(v.Pre[x], pre[x]) || !c13SameSet(v.PreEntered[x], pre[x]) {
				return core.Disagree(fmt.Sprintf("pre(%s): real %v / %v model %v", x, v.Pre[x], v.PreEntered[x], pre[x]))
			}
			if !c13SameSet(v.Post[x], post[x]) {
				return core.Disagree(fmt.Sprintf("post(%s): real %v model %v", x, v.Post[x], post[x]))
			}
		}
		if !c13SameSet(v.Ext, strs(d.Ext)) {
			return core.Disagree(fmt.Sprintf("extremities: real %v model %v", v.Ext, strs(d.Ext)))
		}
		if !c13SameSet(v.Skip, strs(d.Skip)) {
			return core.Disagree(fmt.Sprintf("skip: real %v model %v", v.Skip, strs(d.Skip)))
		}
		realLim := 0
		if v.MaxConcurrency > 0 {
			realLim = v.MaxConcurrency
		}
		if realLim != d.Limit {
			return core.Disagree(fmt.Sprintf("limit: real %d model %d", realLim, d.Limit))
		}
		if len(d.Skip) > 0 {
			count("plan-branch:walk-with-skipped-services")
		}
	default:
		return core.Disagree("unknown plan " + d.Plan)
	}
	return nil
}

func init() {
	core.Register("trav.plan", &core.CheckDef{Real: c13PlanRealFn, DriverOp: "trav.plan", DriverArgs: c13PlanDriverArgs, Judge: c13PlanJudge, Timeout: 60 * time.Second})
}

// generators for trav.plan (called from runC13)
func c13PlanCases(ctx *core.Ctx) {
	names := []string{"a", "b", "c", "d", "e"}
	limits := []int{0, 0, 1, 2, 5, -1}
	// every project with up to 2 services whose depends_on draws on {a, b, ghost, off1}, each absent / required / optional,
	// × direction × a root selection (none, each service, an unknown name)
	pool4 := []string{"a", "b", "ghost", "off1"}
	for n := 0; n <= 2; n++ {
		total := 1
		for i := 0; i < 4*n; i++ {
			total *= 3
		}
		for code := 0; code < total; code++ {
			if n == 2 && code%ctx.Pick(23, 3) != int(ctx.Seed)%ctx.Pick(23, 3) {
				continue
			}
			c := code
			svcs := make([]c13Svc, n)
			ok := true
			for x := 0; x < n; x++ {
				svcs[x].Name = names[x]
				for _, d := range pool4 {
					switch c % 3 {
					case 1:
						svcs[x].Deps = append(svcs[x].Deps, c13Dep{D: d, Req: true})
					case 2:
						svcs[x].Deps = append(svcs[x].Deps, c13Dep{D: d, Req: false})
					}
					c /= 3
				}
				if len(svcs[x].Deps) > 3 {
					ok = false
				}
			}
			if !ok {
				continue
			}
			rootSets := [][]string{nil, {"a"}, {"b"}, {"ghost"}, {}}
			for _, rev := range []bool{false, true} {
				roots := rootSets[(code+map[bool]int{false: 0, true: 2}[rev])%len(rootSets)]
				ctx.Add("trav.plan", c13PlanArgs{Services: svcs, Disabled: []string{"off1"}, Reverse: rev, Limit: limits[code%len(limits)], Roots: roots})
				ctx.Count(fmt.Sprintf("plan-small-scope-n%d", n))
			}
		}
	}
	// every *labelled* DAG on 3 and 4 services (all name orders of every shape: 25 + 543) × every single-root selection
	// (thorough: every pair of roots too).  Root selection walks vertex.descendents: shared dependencies reached along
	// several paths, in every order of the names, with the root below / beside / above the shared vertex.
	for n := 3; n <= 4; n++ {
		var pairs [][2]int
		for x := 0; x < n; x++ {
			for y := 0; y < n; y++ {
				if x != y {
					pairs = append(pairs, [2]int{x, y})
				}
			}
		}
		for mask := 0; mask < 1<<len(pairs); mask++ {
			adj := make([][]int, n)
			for i, pr := range pairs {
				if mask&(1<<i) != 0 {
					adj[pr[0]] = append(adj[pr[0]], pr[1])
				}
			}
			if c13HasCycle(n, adj) {
				continue
			}
			svcs := make([]c13Svc, n)
			for x := range svcs {
				svcs[x].Name = names[x]
				for _, y := range adj[x] {
					svcs[x].Deps = append(svcs[x].Deps, c13Dep{D: names[y], Req: true})
				}
			}
			rootSets := [][]string{}
			for x := 0; x < n; x++ {
				rootSets = append(rootSets, []string{names[x]})
				if ctx.Thorough() {
					for y := x + 1; y < n; y++ {
						rootSets = append(rootSets, []string{names[x], names[y]})
					}
				}
			}
			for k, roots := range rootSets {
				ctx.Add("trav.plan", c13PlanArgs{Services: svcs, Reverse: (mask+k)%2 == 1, Limit: limits[(mask+k)%len(limits)], Roots: roots})
				ctx.Count(fmt.Sprintf("plan-labelled-dag-n%d-rooted", n))
			}
		}
	}
	// seeded random: up to 5 services, mostly acyclic (edges towards earlier names) with an occasional back edge,
	// optional / required dependencies on disabled and unknown services, random roots and limits
	for i := 0; i < ctx.Pick(350, 6000); i++ {
		n := 1 + ctx.Rng.Intn(5)
		perm := ctx.Rng.Perm(n)
		svcs := make([]c13Svc, n)
		for x := range svcs {
			svcs[x].Name = names[x]
		}
		p := []float64{0.25, 0.4, 0.6}[ctx.Rng.Intn(3)]
		for x := 0; x < n; x++ {
			for y := 0; y < x; y++ {
				if ctx.Rng.Float64() < p {
					svcs[perm[x]].Deps = append(svcs[perm[x]].Deps, c13Dep{D: names[perm[y]], Req: ctx.Rng.Intn(3) > 0})
				}
			}
		}
		kind := "acyclic"
		switch ctx.Rng.Intn(8) {
		case 0:
			x, y := ctx.Rng.Intn(n), ctx.Rng.Intn(n)
			svcs[perm[y]].Deps = append(svcs[perm[y]].Deps, c13Dep{D: names[perm[x]], Req: true}) // may close a cycle
			kind = "back-edge"
		case 1:
			svcs[ctx.Rng.Intn(n)].Deps = append(svcs[ctx.Rng.Intn(n)].Deps, c13Dep{D: []string{"off1", "ghost"}[ctx.Rng.Intn(2)], Req: true})
			kind = "required-missing"
		}
		for x := range svcs {
			if ctx.Rng.Intn(3) == 0 {
				svcs[x].Deps = append(svcs[x].Deps, c13Dep{D: []string{"off1", "off2", "ghost"}[ctx.Rng.Intn(3)], Req: false})
			}
			// depends_on is a map: one entry per name
			seen := map[string]bool{}
			var ds []c13Dep
			for _, d := range svcs[x].Deps {
				if !seen[d.D] {
					seen[d.D] = true
					ds = append(ds, d)
				}
			}
			svcs[x].Deps = ds
		}
		var roots []string
		switch ctx.Rng.Intn(4) {
		case 0:
			roots = []string{names[ctx.Rng.Intn(n)]}
		case 1:
			for k := 0; k <= ctx.Rng.Intn(3); k++ {
				roots = append(roots, append(names[:n:n], "ghost", "off1")[ctx.Rng.Intn(n+2)])
			}
		}
		ctx.Add("trav.plan", c13PlanArgs{Services: svcs, Disabled: []string{"off1", "off2"}, Reverse: ctx.Rng.Intn(2) == 0, Limit: limits[ctx.Rng.Intn(len(limits))], Roots: roots})
		ctx.Count("plan-random-" + kind)
	}
}

// c13HasCycle: is there a closed walk in the digraph on 0..n-1 with adjacency adj (generator side only)
func c13HasCycle(n int, adj [][]int) bool {
	col := make([]int, n)
	var dfs func(v int) bool
	dfs = func(v int) bool {
		col[v] = 1
		for _, w := range adj[v] {
			if col[w] == 1 || (col[w] == 0 && dfs(w)) {
				return true
			}
		}
		col[v] = 2
		return false
	}
	for v := 0; v < n; v++ {
		if col[v] == 0 && dfs(v) {
			return true
		}
	}
	return false
}
