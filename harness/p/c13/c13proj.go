package c13

// C13 — free-running stress oracle and the graph-construction oracle (cycles refused before any visit,
// project not modified).

import (
	"context"
	"encoding/json"
	"fmt"
	"math/rand"
	"runtime"
	"sort"
	"strings"
	"sync"
	"time"

	"github.com/compose-spec/compose-go/v2/graph"
	"github.com/compose-spec/compose-go/v2/types"

	"verifharness/core"
)

// ---------------------------------------------------------------- trav.free

func c13FreeReal(raw json.RawMessage) any {
	var a c13Args
	if err := json.Unmarshal(raw, &a); err != nil {
		return map[string]any{"bad": err.Error()}
	}
	c13Mu.Lock()
	defer c13Mu.Unlock()
	graph.VerifYield = nil
	errAt := c13ErrSet(a.Errs)
	out := &c13Out{}
	for i := 0; i < a.Budget; i++ {
		s := &c13Sched{free: true, limit: a.Limit, ctx: context.Background()}
		var jmu sync.Mutex
		jr := rand.New(rand.NewSource(a.Seed*31 + int64(i)))
		jitter := func() int { jmu.Lock(); defer jmu.Unlock(); return jr.Intn(8) }
		visitor := func(_ context.Context, name string, _ types.ServiceConfig) error {
			v := c13Index(name)
			s.mu.Lock()
			s.obs = append(s.obs, c13Obs{Kind: "start", V: v})
			s.running++
			if s.running > s.maxRunning {
				s.maxRunning = s.running
			}
			if s.limit > 0 && s.running > s.limit && s.running-s.limit > s.overBy {
				if s.overBy == 0 {
					s.overAfterErr = s.errSeen
				}
				s.overBy = s.running - s.limit
			}
			s.mu.Unlock()
			switch j := jitter(); {
			case j < 3:
				for k := 0; k <= j; k++ {
					runtime.Gosched()
				}
			case j < 6:
				time.Sleep(time.Duration(j*20) * time.Microsecond)
			}
			var err error
			if errAt[v] {
				err = c13VisitErr{v}
			}
			s.mu.Lock()
			s.running--
			s.obs = append(s.obs, c13Obs{Kind: "finish", V: v, Err: err != nil})
			if err != nil {
				s.errSeen = true
			}
			s.mu.Unlock()
			return err
		}
		done := make(chan error, 1)
		go func() {
			done <- graph.InDependencyOrder(context.Background(), a.c13Graph.project(), visitor, a.c13Graph.options()...)
		}()
		run := &c13Run{}
		if err, ok, why := c13Await(done, 20*time.Second); ok {
			run.Done = true
			run.Ret = c13RetString(err)
		} else if strings.HasPrefix(why, "deadlock") {
			run.Deadlock = true
		} else {
			run.Stuck = "free-running walk " + why
		}
		c13Finalize(s, run)
		out.Runs = append(out.Runs, run)
		if run.Stuck != "" || run.Deadlock {
			break
		}
	}
	return out
}

// ---------------------------------------------------------------- trav.proj

type c13Dep struct {
	D   string `json:"d"`
	Req bool   `json:"req"`
}
type c13Svc struct {
	Name string   `json:"name"`
	Deps []c13Dep `json:"deps,omitempty"`
}
type c13ProjArgs struct {
	Services []c13Svc `json:"services"`
	Disabled []string `json:"disabled,omitempty"`
	Reverse  bool     `json:"reverse,omitempty"`
	Cycle    bool     `json:"checkCycleOnly,omitempty"` // call graph.CheckCycle instead of the traversal
}

func (a c13ProjArgs) project() *types.Project {
	p := &types.Project{Name: "c13", Services: types.Services{}, DisabledServices: types.Services{}}
	for _, s := range a.Services {
		sc := types.ServiceConfig{Name: s.Name, Image: "img"}
		if len(s.Deps) > 0 {
			sc.DependsOn = types.DependsOnConfig{}
			for _, d := range s.Deps {
				sc.DependsOn[d.D] = types.ServiceDependency{Condition: types.ServiceConditionStarted, Required: d.Req}
			}
		}
		p.Services[s.Name] = sc
	}
	for _, d := range a.Disabled {
		p.DisabledServices[d] = types.ServiceConfig{Name: d, Image: "img", Profiles: []string{"off"}}
	}
	return p
}

func c13ErrClass(err error) string {
	if err == nil {
		return "ok"
	}
	t := err.Error()
	switch {
	case strings.Contains(t, "dependency cycle detected"):
		return "cycle"
	case strings.Contains(t, "but is disabled"):
		return "disabled"
	case strings.Contains(t, "depends on unknown service"):
		return "unknown"
	}
	return "other"
}

func c13ProjReal(raw json.RawMessage) any {
	var a c13ProjArgs
	if err := json.Unmarshal(raw, &a); err != nil {
		return map[string]any{"bad": err.Error()}
	}
	c13Mu.Lock()
	defer c13Mu.Unlock()
	graph.VerifYield = nil
	p := a.project()
	before, _ := json.Marshal(p)
	var mu sync.Mutex
	visits := []string{}
	var err error
	if a.Cycle {
		err = graph.CheckCycle(p)
	} else {
		var opts []func(*graph.Options)
		if a.Reverse {
			opts = append(opts, graph.InReverseOrder)
		}
		done := make(chan error, 1)
		go func() {
			done <- graph.InDependencyOrder(context.Background(), p, func(_ context.Context, name string, _ types.ServiceConfig) error {
				mu.Lock()
				visits = append(visits, name)
				mu.Unlock()
				return nil
			}, opts...)
		}()
		var ok bool
		var why string
		if err, ok, why = c13Await(done, 20*time.Second); !ok {
			if strings.HasPrefix(why, "deadlock") {
				mu.Lock()
				defer mu.Unlock()
				return map[string]any{"class": "deadlock", "visits": append([]string{}, visits...), "modified": false, "changed": []string{}, "why": why}
			}
			return map[string]any{"hang": "InDependencyOrder " + why}
		}
	}
	after, _ := json.Marshal(p)
	changed := []string{}
	if string(before) != string(after) {
		q := a.project()
		for name, s := range q.Services {
			x, _ := json.Marshal(s)
			y, _ := json.Marshal(p.Services[name])
			if string(x) != string(y) {
				changed = append(changed, name)
			}
		}
		sort.Strings(changed)
	}
	mu.Lock()
	defer mu.Unlock()
	sort.Strings(visits)
	return map[string]any{"class": c13ErrClass(err), "visits": visits, "modified": string(before) != string(after), "changed": changed}
}

// names ↦ numbers for the Lean model; projects too large for an enumeration of all iteration orders are skipped
func c13ProjNames(a c13ProjArgs) map[string]int {
	names := map[string]int{}
	id := func(n string) {
		if _, ok := names[n]; !ok {
			names[n] = len(names)
		}
	}
	for _, s := range a.Services {
		id(s.Name)
	}
	for _, s := range a.Services {
		for _, d := range s.Deps {
			id(d.D)
		}
	}
	for _, d := range a.Disabled {
		id(d)
	}
	return names
}

func c13ProjSmall(a c13ProjArgs) bool {
	if len(a.Services) > 3 {
		return false
	}
	for _, s := range a.Services {
		if len(s.Deps) > 3 {
			return false
		}
	}
	return true
}

func c13ProjDriverArgs(args, _ json.RawMessage) any {
	var a c13ProjArgs
	json.Unmarshal(args, &a)
	if !c13ProjSmall(a) {
		return map[string]any{"services": []any{}}
	}
	names := c13ProjNames(a)
	svcs := []any{}
	for _, s := range a.Services {
		deps := [][]any{}
		for _, d := range s.Deps {
			deps = append(deps, []any{names[d.D], d.Req})
		}
		svcs = append(svcs, map[string]any{"name": names[s.Name], "deps": deps})
	}
	dis := []int{}
	for _, d := range a.Disabled {
		dis = append(dis, names[d])
	}
	return map[string]any{"services": svcs, "disabled": dis}
}

// the specification side, computed on the arguments only
func c13ProjJudge(args, real, drv json.RawMessage) *core.Verdict {
	if v := core.CrashVerdict(real); v != nil {
		return v
	}
	var a c13ProjArgs
	json.Unmarshal(args, &a)
	// a failure of the specification that is not one of the recorded quirk keys is reported first (failing input)
	if v := c13ProjSpec(a, real); v != nil && v.Kind == "fail" && !strings.Contains(v.Key, "self-dependency+optional-missing-dependency") {
		return v
	}
	// correspondence with Model/DepGraph.lean (collect mode: the real outcome must be reachable under some iteration order)
	if c13ProjSmall(a) {
		var r struct {
			Class   string   `json:"class"`
			Changed []string `json:"changed"`
		}
		json.Unmarshal(real, &r)
		if r.Class == "deadlock" {
			return c13ProjSpec(a, real)
		}
		names := c13ProjNames(a)
		var ch []int
		for _, c := range r.Changed {
			ch = append(ch, names[c])
		}
		sort.Ints(ch)
		var parts []string
		for _, c := range ch {
			parts = append(parts, fmt.Sprint(c))
		}
		got := r.Class + ":" + strings.Join(parts, " ")
		var outs []string
		if err := json.Unmarshal(drv, &outs); err != nil {
			return core.Disagree("malformed trav.newgraph answer: " + string(drv))
		}
		found := false
		for _, o := range outs {
			if o == got {
				found = true
			}
		}
		if !found {
			return core.Disagree(fmt.Sprintf("real outcome %q is not among the model's outcomes %v", got, outs))
		}
	}
	return c13ProjSpec(a, real)
}

func c13ProjSpec(a c13ProjArgs, real json.RawMessage) *core.Verdict {
	var r struct {
		Class    string   `json:"class"`
		Visits   []string `json:"visits"`
		Modified bool     `json:"modified"`
		Changed  []string `json:"changed"`
	}
	if err := json.Unmarshal(real, &r); err != nil || r.Class == "" {
		return core.Disagree("malformed real outcome " + string(real))
	}
	if r.Class == "deadlock" {
		return core.Fail("deadlock", "InDependencyOrder never returns: every goroutine of the traversal is blocked")
	}
	enabled := map[string]bool{}
	for _, s := range a.Services {
		enabled[s.Name] = true
	}
	missingRequired := false
	adj := map[string][]string{}
	// the recorded defect (DESIGN §10 #5): a service with a self-dependency and an optional dependency on a service that is not enabled
	quirk := map[string]bool{}
	for _, s := range a.Services {
		self, optMissing := false, false
		for _, d := range s.Deps {
			if enabled[d.D] {
				adj[s.Name] = append(adj[s.Name], d.D)
				if d.D == s.Name {
					self = true
				}
			} else if d.Req {
				missingRequired = true
			} else {
				optMissing = true
			}
		}
		if self && optMissing {
			quirk[s.Name] = true
		}
	}
	// cycle detection (colour DFS); also whether a cycle survives when the self-loops of quirk services are dropped
	hasCycle := func(dropQuirkLoops bool) bool {
		col := map[string]int{}
		var dfs func(v string) bool
		dfs = func(v string) bool {
			col[v] = 1
			for _, w := range adj[v] {
				if dropQuirkLoops && w == v && quirk[v] {
					continue
				}
				if col[w] == 1 || (col[w] == 0 && dfs(w)) {
					return true
				}
			}
			col[v] = 2
			return false
		}
		for _, s := range a.Services {
			if col[s.Name] == 0 && dfs(s.Name) {
				return true
			}
		}
		return false
	}
	switch {
	case missingRequired:
		if r.Class != "disabled" && r.Class != "unknown" || len(r.Visits) > 0 {
			return core.Fail("missing-dependency:accepted", fmt.Sprintf("a required dependency is missing but the outcome is %s with %d visits", r.Class, len(r.Visits)))
		}
	case hasCycle(false):
		if r.Class != "cycle" || len(r.Visits) > 0 {
			if !hasCycle(true) {
				return core.Fail("cycle-accepted:self-dependency+optional-missing-dependency", fmt.Sprintf("cyclic graph: outcome %s, %d visits", r.Class, len(r.Visits)))
			}
			return core.Fail("cycle-accepted:other", fmt.Sprintf("cyclic graph: outcome %s, %d visits", r.Class, len(r.Visits)))
		}
	default:
		if r.Class != "ok" {
			return core.Fail("acyclic-refused", "acyclic graph refused with "+r.Class)
		}
		if !a.Cycle && len(r.Visits) != len(a.Services) {
			return core.Fail("visit:missing", fmt.Sprintf("%d of %d services visited", len(r.Visits), len(a.Services)))
		}
	}
	if r.Modified {
		onlyQuirk := len(r.Changed) > 0
		for _, c := range r.Changed {
			if !quirk[c] {
				onlyQuirk = false
			}
		}
		if onlyQuirk {
			return core.Fail("project-modified:self-dependency+optional-missing-dependency", fmt.Sprintf("building the graph removed depends_on entries of %v from the caller's project", r.Changed))
		}
		return core.Fail("project-modified:other", fmt.Sprintf("the traversal modified the caller's project (services %v)", r.Changed))
	}
	return nil
}

func init() {
	core.Register("trav.free", &core.CheckDef{Real: c13FreeReal, Judge: c13OracleJudge, Timeout: 120 * time.Second})
	core.Register("trav.proj", &core.CheckDef{Real: c13ProjReal, DriverOp: "trav.newgraph", DriverArgs: c13ProjDriverArgs, Judge: c13ProjJudge, Timeout: 60 * time.Second})
}
