package c13

// C13 — controlled scheduler for graph.walk.
//
// graph.VerifYield (build tag verif) is called at the entry of every primitive step of the traversal.
// The scheduler parks every goroutine there (and inside the visitor callback), waits until the whole
// traversal is quiescent (every goroutine parked at a yield, or blocked inside a real blocking
// operation: eg.Go on a full semaphore, the coordinator's select, eg.Wait), then releases exactly one
// parked goroutine.  Quiescence is established from a stop-the-world goroutine dump (runtime.Stack),
// i.e. from the Go runtime's own view and not from any prediction by the model.
//
// One run yields: the sequence of completed steps (for the Lean replay), the abstract view of all
// goroutines at every quiescent point, and the visitor entry/exit log (for the direct oracle).

import (
	"bytes"
	"context"
	"errors"
	"fmt"
	"math/rand"
	"runtime"
	"sort"
	"strconv"
	"strings"
	"sync"
	"time"

	"github.com/compose-spec/compose-go/v2/graph"
	"github.com/compose-spec/compose-go/v2/types"
)

type c13Graph struct {
	N       int      `json:"n"`
	Edges   [][2]int `json:"edges"` // [a,b]: a depends on b
	Reverse bool     `json:"reverse"`
	Limit   int      `json:"limit"` // 0 = unbounded
	Roots   []int    `json:"roots,omitempty"`
	// ExtCancel: the caller's own context may be cancelled at any scheduling point (environment step "X")
	ExtCancel bool `json:"extcancel,omitempty"`
}

func c13Name(i int) string { return "v" + strconv.Itoa(i) }
func c13Index(name string) int {
	if n, err := strconv.Atoi(strings.TrimPrefix(name, "v")); err == nil && strings.HasPrefix(name, "v") {
		return n
	}
	return -1
}

func (g c13Graph) project() *types.Project {
	p := &types.Project{Name: "c13", Services: types.Services{}}
	for i := 0; i < g.N; i++ {
		p.Services[c13Name(i)] = types.ServiceConfig{Name: c13Name(i), Image: "img"}
	}
	for _, e := range g.Edges {
		s := p.Services[c13Name(e[0])]
		if s.DependsOn == nil {
			s.DependsOn = types.DependsOnConfig{}
		}
		s.DependsOn[c13Name(e[1])] = types.ServiceDependency{Condition: types.ServiceConditionStarted, Required: true}
		p.Services[c13Name(e[0])] = s
	}
	return p
}

func (g c13Graph) options() []func(*graph.Options) {
	var o []func(*graph.Options)
	if g.Reverse {
		o = append(o, graph.InReverseOrder)
	}
	if g.Limit > 0 {
		o = append(o, graph.WithMaxConcurrency(g.Limit))
	}
	if len(g.Roots) > 0 {
		var names []string
		for _, r := range g.Roots {
			names = append(names, c13Name(r))
		}
		o = append(o, graph.WithRootNodesAndDown(names))
	}
	return o
}

// ---------------------------------------------------------------- goroutine bookkeeping

func c13GID() int64 {
	var buf [64]byte
	n := runtime.Stack(buf[:], false)
	// "goroutine 123 [running]:"
	f := bytes.Fields(buf[:n])
	if len(f) >= 2 {
		id, _ := strconv.ParseInt(string(f[1]), 10, 64)
		return id
	}
	return -1
}

type c13GInfo struct {
	gid     int64
	state   string
	kind    string // park | spawn | select | wait | send | cwait | "" (not blocked)
	blocked bool
	waiting bool // raw runtime state: not running / runnable / syscall
}

// A goroutine counts as blocked only in one of the four places where the traversal can really wait.
// Everything else (running, runnable, waiting for the runtime: GC start, world semaphore, mutex …) is transient.
func c13BlockKind(state string, blk []byte) string {
	switch state {
	case "chan receive":
		if bytes.Contains(blk, []byte("c13Sched).arrive")) {
			return "park"
		}
		if bytes.Contains(blk, []byte("compose-go/v2/graph.walk")) {
			return "cwait" // the coordinator after ctx.Done(), waiting for the caller to leave the extremities loop
		}
	case "chan send":
		if bytes.Contains(blk, []byte("errgroup.(*Group).Go(")) {
			return "spawn"
		}
		if bytes.Contains(blk, []byte("compose-go/v2/graph.")) {
			return "send"
		}
	case "select":
		if bytes.Contains(blk, []byte("compose-go/v2/graph.walk")) {
			return "select"
		}
	case "semacquire", "sync.WaitGroup.Wait":
		if bytes.Contains(blk, []byte("sync.(*WaitGroup).Wait")) {
			return "wait"
		}
	}
	return ""
}

// c13Dump lists the goroutines that belong to the traversal under test.
func c13Dump(buf *[]byte) []c13GInfo {
	l, _ := c13DumpU(buf)
	return l
}

// c13DumpU also says whether the dump contains a goroutine whose stack the runtime could not print
// (then nothing can be concluded from the absence of a traversal goroutine).
func c13DumpU(buf *[]byte) ([]c13GInfo, bool) {
	for {
		n := runtime.Stack(*buf, true)
		if n < len(*buf) {
			b := (*buf)[:n]
			return c13ParseDump(b), bytes.Contains(b, []byte("stack unavailable"))
		}
		*buf = make([]byte, 2*len(*buf))
	}
}

func c13ParseDump(b []byte) []c13GInfo {
	var res []c13GInfo
	for _, blk := range bytes.Split(b, []byte("\n\n")) {
		if !bytes.HasPrefix(blk, []byte("goroutine ")) {
			continue
		}
		if !(bytes.Contains(blk, []byte("compose-go/v2/graph.")) || bytes.Contains(blk, []byte("errgroup.")) || bytes.Contains(blk, []byte("c13CallWalk"))) {
			continue
		}
		nl := bytes.IndexByte(blk, '\n')
		if nl < 0 {
			nl = len(blk)
		}
		head := string(blk[:nl])
		var gi c13GInfo
		rest := strings.TrimPrefix(head, "goroutine ")
		sp := strings.IndexByte(rest, ' ')
		if sp < 0 {
			continue
		}
		gi.gid, _ = strconv.ParseInt(rest[:sp], 10, 64)
		if o := strings.IndexByte(rest, '['); o >= 0 {
			st := rest[o+1:]
			if c := strings.IndexAny(st, ",]"); c >= 0 {
				st = st[:c]
			}
			gi.state = st
		}
		if c13IsLeaked(gi.gid) {
			continue
		}
		gi.kind = c13BlockKind(gi.state, blk)
		gi.blocked = gi.kind != ""
		// waiting for another goroutine (not for time, I/O or the runtime): only such a goroutine can be wedged
		gi.waiting = gi.state == "chan send" || gi.state == "chan receive" || gi.state == "select" ||
			gi.state == "semacquire" || gi.state == "sync.WaitGroup.Wait" || gi.state == "sync.Mutex.Lock" ||
			gi.state == "sync.RWMutex.Lock" || gi.state == "sync.RWMutex.RLock" || gi.state == "sync.Cond.Wait"
		res = append(res, gi)
	}
	return res
}

// ---------------------------------------------------------------- scheduler

type c13Park struct {
	gid  int64
	step string
	key  int
	seq  int
	wake chan error
}

type c13Obs struct {
	Kind string `json:"k"` // start | finish
	V    int    `json:"v"`
	Err  bool   `json:"e,omitempty"`
}

type c13G struct {
	gid       int64
	role      string
	cur       *c13Park // parked here (nil: running / blocked / gone)
	last      *c13Park // released from here
	blockedIn *c13Park // released from here and found blocked inside the step's blocking operation
	gone      bool
}

type c13Sched struct {
	mu       sync.Mutex
	free     bool
	parked   map[int64]*c13Park
	arrivals []*c13Park
	seq      int
	mGid     int64
	mDone    bool
	mRet     error

	obs        []c13Obs
	running    int
	maxRunning int
	overAfterErr bool // the first time running exceeded the limit, a visitor error had already been returned
	overBy       int
	errSeen      bool
	limit        int
	errAt        map[int]bool
	ctx          context.Context
}

var c13ErrVisitor = errors.New("visitor error")

type c13VisitErr struct{ v int }

func (e c13VisitErr) Error() string { return "E" + strconv.Itoa(e.v) }

func (s *c13Sched) arrive(step string, key int) error {
	s.mu.Lock()
	if s.free {
		s.mu.Unlock()
		return nil
	}
	gid := c13GID()
	if c13IsLeaked(gid) {
		s.mu.Unlock()
		return nil
	}
	p := &c13Park{gid: gid, step: step, key: key, seq: s.seq, wake: make(chan error)}
	s.seq++
	s.parked[p.gid] = p
	s.arrivals = append(s.arrivals, p)
	s.mu.Unlock()
	return <-p.wake
}

func (s *c13Sched) yield(step, key string) {
	s.arrive(step, c13Index(key))
}

func (s *c13Sched) visitor(_ context.Context, name string, _ types.ServiceConfig) error {
	v := c13Index(name)
	s.mu.Lock()
	s.obs = append(s.obs, c13Obs{Kind: "start", V: v})
	s.running++
	if s.running > s.maxRunning {
		s.maxRunning = s.running
	}
	if s.limit > 0 && s.running > s.limit && s.running-s.limit > s.overBy {
		if s.overBy == 0 {
			s.overAfterErr = s.errSeen
		}
		s.overBy = s.running - s.limit
	}
	s.mu.Unlock()
	err := s.arrive("visit", v)
	s.mu.Lock()
	s.running--
	s.obs = append(s.obs, c13Obs{Kind: "finish", V: v, Err: err != nil})
	if err != nil {
		s.errSeen = true
	}
	s.mu.Unlock()
	return err
}

//go:noinline
func c13CallWalk(s *c13Sched, g c13Graph) {
	err := graph.InDependencyOrder(s.ctx, g.project(), s.visitor, g.options()...)
	s.mu.Lock()
	s.mDone = true
	s.mRet = err
	s.mu.Unlock()
}

type c13Run struct {
	Ev       []string `json:"ev"`
	Obs      []c13Obs `json:"obs"`
	Ret      string   `json:"ret"`
	Done     bool     `json:"done"`
	Deadlock bool     `json:"deadlock,omitempty"`
	Stuck    string   `json:"stuck,omitempty"`
	Starved  string   `json:"starved,omitempty"` // could not be judged (machine overloaded): skipped, counted
	Leftover int      `json:"leftover,omitempty"` // traversal goroutines still alive when walk returned
	MaxRun   int      `json:"maxrun"`
	OverBy   int      `json:"overby,omitempty"`
	OverAfterErr bool `json:"overAfterErr,omitempty"`
	ErrExit  []int    `json:"errexit,omitempty"` // workers released from W.exit with an error, in order
	Choices  []string `json:"-"`
	Enabled  [][]string `json:"-"`
	Steps    int      `json:"steps"`
	ExtFired bool     `json:"extfired,omitempty"` // the caller's context was cancelled during the run
	Debug    string   `json:"debug,omitempty"`
}

func c13Min(a, b int) int {
	if a < b {
		return a
	}
	return b
}

// a chooser picks the index of the goroutine to release among the parked ones (sorted by role)
type c13Chooser func(step int, parked []*c13G) int

var c13Mu sync.Mutex // one controlled run at a time per process (graph.VerifYield is a package variable)

// goroutines of an earlier run that never finished (the real code deadlocked): ignored from then on
var (
	c13LeakMu sync.Mutex
	c13Leaked = map[int64]bool{}
)

func c13IsLeaked(gid int64) bool {
	c13LeakMu.Lock()
	defer c13LeakMu.Unlock()
	return c13Leaked[gid]
}

func c13RunOne(g c13Graph, errAt map[int]bool, choose c13Chooser, maxSteps int) *c13Run {
	c13Mu.Lock()
	defer c13Mu.Unlock()
	s := &c13Sched{parked: map[int64]*c13Park{}, limit: g.Limit, errAt: errAt}
	ctx, cancel := context.WithCancel(context.Background())
	defer cancel()
	s.ctx = ctx
	var xG *c13G // pseudo goroutine: the owner of the caller's context
	if g.ExtCancel {
		xG = &c13G{gid: -7, role: "X", cur: &c13Park{gid: -7, step: "extCancel", key: -1}}
	}
	xFired := false
	graph.VerifYield = s.yield
	defer func() { graph.VerifYield = nil }()
	run := &c13Run{}
	gs := map[int64]*c13G{}
	started := make(chan int64, 1)
	go func() {
		started <- c13GID()
		c13CallWalk(s, g)
	}()
	s.mGid = <-started
	gs[s.mGid] = &c13G{gid: s.mGid, role: "M"}
	var released *c13G
	erred := map[int]bool{}
	lastSeq := -1
	first := true
	buf := make([]byte, 1<<16)
	finish := func() {
		// let everything run to completion without control
		s.mu.Lock()
		s.free = true
		ps := s.parked
		s.parked = map[int64]*c13Park{}
		s.mu.Unlock()
		for _, p := range ps {
			var err error
			if p.step == "visit" && errAt[p.key] {
				err = c13VisitErr{p.key}
			}
			p.wake <- err
		}
		wait := 2 * time.Second
		if run.Deadlock || run.Stuck != "" {
			wait = 100 * time.Millisecond // already known to be wedged
		}
		if run.Starved != "" {
			wait = 20 * time.Second
		}
		dl := time.Now().Add(wait)
		var left []c13GInfo
		for time.Now().Before(dl) {
			if left = c13Dump(&buf); len(left) == 0 {
				return
			}
			time.Sleep(200 * time.Microsecond)
		}
		c13LeakMu.Lock()
		for _, gi := range left {
			c13Leaked[gi.gid] = true
		}
		c13LeakMu.Unlock()
		if run.Stuck == "" && !run.Deadlock && run.Starved == "" {
			run.Stuck = "cleanup: traversal goroutines never finished"
		}
	}
	for {
		// ---- wait for quiescence
		var dump []c13GInfo
		var reg map[int64]*c13Park
		var mDone bool
		deadline := time.Now().Add(10 * time.Second) // generous: the machine may be heavily loaded; a real wedge is rare
		spins := 0
		deadConfirm := 0
		// cheap wait first: the released goroutine normally reaches its next yield within microseconds
		for i := 0; i < 300; i++ {
			s.mu.Lock()
			moved := s.seq != lastSeq || s.mDone
			s.mu.Unlock()
			if moved {
				break
			}
			runtime.Gosched()
		}
		for {
			s.mu.Lock()
			reg = make(map[int64]*c13Park, len(s.parked))
			for k, v := range s.parked {
				reg[k] = v
			}
			mDone = s.mDone
			s.mu.Unlock()
			var uncertain bool
			dump, uncertain = c13DumpU(&buf)
			quiet := !uncertain
			mSeen := false
			for _, gi := range dump {
				if gi.gid == s.mGid {
					mSeen = true
				}
				if _, ok := reg[gi.gid]; ok {
					continue
				}
				if !gi.blocked {
					quiet = false
					break
				}
			}
			// the caller goroutine exists from the start: until it has set mDone it must be visible (parked, blocked or
			// running); it is invisible for a moment before it enters c13CallWalk and after it has left it
			if quiet && !mSeen && !mDone {
				quiet = false
			}
			// "nobody can move" is only believed when seen three times in a row
			if quiet && !mDone && len(reg) == 0 {
				s.mu.Lock()
				nreg := len(s.parked)
				s.mu.Unlock()
				if nreg == 0 && deadConfirm < 3 {
					deadConfirm++
					quiet = false
					time.Sleep(300 * time.Microsecond)
				}
			} else if quiet {
				deadConfirm = 0
			}
			if quiet {
				// the M goroutine leaves the dump only after it has set mDone; re-read to be sure
				s.mu.Lock()
				mDone = s.mDone
				for k, v := range s.parked {
					reg[k] = v
				}
				s.mu.Unlock()
				break
			}
			spins++
			if spins < 50 {
				runtime.Gosched()
			} else {
				time.Sleep(20 * time.Microsecond)
			}
			if time.Now().After(deadline) {
				var st []string
				starved := true
				for _, gi := range dump {
					if _, ok := reg[gi.gid]; !ok && !gi.blocked {
						st = append(st, fmt.Sprintf("g%d[%s]", gi.gid, gi.state))
						if gi.state != "running" && gi.state != "runnable" {
							starved = false // waiting for something the scheduler does not know: a real wedge
						}
					}
				}
				if starved {
					// every goroutine that kept the traversal from settling was runnable for 10 s: the machine is
					// overloaded (or the code spins; the free-running oracle decides that): cannot be judged
					run.Starved = "no quiescence: " + strings.Join(st, ",")
					run.Deadlock = false
					finish()
					return c13Finalize(s, run)
				}
				run.Stuck = "no quiescence: " + strings.Join(st, ",")
				finish()
				return c13Finalize(s, run)
			}
		}
		// ---- update the goroutine table
		alive := map[int64]c13GInfo{}
		for _, gi := range dump {
			alive[gi.gid] = gi
		}
		s.mu.Lock()
		arr := s.arrivals
		s.arrivals = nil
		s.mu.Unlock()
		for _, p := range arr {
			gr := gs[p.gid]
			if gr == nil {
				role := "?"
				switch {
				case strings.HasPrefix(p.step, "C."):
					role = "C"
				case strings.HasPrefix(p.step, "W.") || p.step == "visit":
					role = "W" + strconv.Itoa(p.key)
				}
				gr = &c13G{gid: p.gid, role: role}
				gs[p.gid] = gr
			}
			gr.cur = p
		}
		// ---- events: the released goroutine first, then goroutines that were blocked and got through
		type evt struct {
			g    *c13G
			from *c13Park
			seq  int
		}
		var evs []evt
		if first {
			first = false
			m := gs[s.mGid]
			if m.cur != nil {
				evs = append(evs, evt{m, &c13Park{step: "init", key: -1}, -1})
			} else if mDone {
				// empty project: walk returned at once
				evs = append(evs, evt{m, &c13Park{step: "M.wait", key: -1}, -1})
			}
		}
		if xFired {
			xFired = false
			evs = append(evs, evt{xG, &c13Park{step: "extCancel", key: -1}, -1})
		}
		if released != nil {
			gr := released
			_, isAlive := alive[gr.gid]
			switch {
			case gr.cur != nil:
				evs = append(evs, evt{gr, gr.last, -1})
			case gr.gid == s.mGid && mDone:
				evs = append(evs, evt{gr, gr.last, -1})
				gr.gone = true
			case !isAlive:
				gr.gone = true
				evs = append(evs, evt{gr, gr.last, -1})
			default:
				gr.blockedIn = gr.last
			}
		}
		var unblocked []evt
		for _, gr := range gs {
			if gr == released || gr.blockedIn == nil {
				continue
			}
			_, isAlive := alive[gr.gid]
			switch {
			case gr.cur != nil:
				unblocked = append(unblocked, evt{gr, gr.blockedIn, gr.cur.seq})
				gr.blockedIn = nil
			case gr.gid == s.mGid && mDone:
				unblocked = append(unblocked, evt{gr, gr.blockedIn, 1 << 30})
				gr.blockedIn = nil
				gr.gone = true
			case !isAlive:
				unblocked = append(unblocked, evt{gr, gr.blockedIn, 1 << 30})
				gr.blockedIn = nil
				gr.gone = true
			}
		}
		sort.Slice(unblocked, func(i, j int) bool { return unblocked[i].seq < unblocked[j].seq })
		evs = append(evs, unblocked...)
		// goroutines that vanished without being released (should not happen)
		for _, gr := range gs {
			if _, isAlive := alive[gr.gid]; !isAlive && !gr.gone && gr.cur == nil && gr.blockedIn == nil && !(gr.gid == s.mGid) {
				gr.gone = true
			}
		}
		view := ""
		if !mDone {
			view = c13View(gs, alive)
		}
		for i, e := range evs {
			next, nk, res := "", -1, ""
			if e.g.cur != nil && !e.g.gone {
				next, nk = e.g.cur.step, e.g.cur.key
			}
			if e.from.step == "visit" {
				res = "ok"
				if errAt[e.from.key] {
					res = "err"
				}
			}
			if e.from.step == "M.wait" {
				res = c13RetString(s.mRet)
			}
			role := e.g.role
			if strings.HasPrefix(role, "W") {
				role = "W"
			}
			v := ""
			if i == len(evs)-1 {
				v = view
			}
			run.Ev = append(run.Ev, strings.Join([]string{role, e.from.step, c13KeyStr(e.from.key), next, c13KeyStr(nk), res, v}, "|"))
		}
		if mDone {
			run.Done = true
			run.Ret = c13RetString(s.mRet)
			for _, gi := range dump {
				if gi.gid != s.mGid {
					run.Leftover++
				}
			}
			finish()
			return c13Finalize(s, run)
		}
		// ---- choose
		var parked []*c13G
		for _, gr := range gs {
			if gr.cur != nil && !gr.gone {
				parked = append(parked, gr)
			}
		}
		if xG != nil && xG.cur != nil {
			parked = append(parked, xG)
		}
		sort.Slice(parked, func(i, j int) bool { return c13RoleLess(parked[i].role, parked[j].role) })
		if len(parked) == 0 {
			run.Deadlock = true
			var st []string
			for _, gi := range dump {
				_, inReg := reg[gi.gid]
				st = append(st, fmt.Sprintf("g%d[%s]reg=%v", gi.gid, gi.state, inReg))
			}
			for _, gr := range gs {
				st = append(st, fmt.Sprintf("%s:g%d cur=%v blockedIn=%v gone=%v", gr.role, gr.gid, gr.cur != nil, gr.blockedIn != nil, gr.gone))
			}
			run.Debug = strings.Join(st, "; ") + "\n" + string(buf[:c13Min(len(buf), 6000)])
			finish()
			return c13Finalize(s, run)
		}
		if run.Steps >= maxSteps {
			run.Stuck = "step budget exhausted"
			finish()
			return c13Finalize(s, run)
		}
		var en []string
		for _, p := range parked {
			en = append(en, p.role)
		}
		k := choose(run.Steps, parked)
		if k < 0 || k >= len(parked) {
			k = 0
		}
		gr := parked[k]
		run.Enabled = append(run.Enabled, en)
		run.Choices = append(run.Choices, gr.role)
		run.Steps++
		p := gr.cur
		gr.last, gr.cur = p, nil
		if gr == xG {
			// the owner of the context cancels it: synchronous, nothing of the traversal runs inside
			s.mu.Lock()
			lastSeq = s.seq
			s.mu.Unlock()
			cancel()
			xFired = true
			run.ExtFired = true
			released = nil
			continue
		}
		var err error
		if p.step == "visit" && errAt[p.key] {
			err = c13VisitErr{p.key}
		}
		if p.step == "visit" && errAt[p.key] {
			erred[p.key] = true
		}
		if p.step == "W.exit" && erred[p.key] {
			run.ErrExit = append(run.ErrExit, p.key)
		}
		s.mu.Lock()
		delete(s.parked, p.gid)
		s.mu.Unlock()
		released = gr
		s.mu.Lock()
		lastSeq = s.seq
		s.mu.Unlock()
		p.wake <- err
	}
}

func c13Finalize(s *c13Sched, run *c13Run) *c13Run {
	s.mu.Lock()
	defer s.mu.Unlock()
	run.Obs = append([]c13Obs(nil), s.obs...)
	run.MaxRun = s.maxRunning
	run.OverBy = s.overBy
	run.OverAfterErr = s.overAfterErr
	if s.mDone && run.Ret == "" {
		run.Ret = c13RetString(s.mRet)
	}
	return run
}

func c13RetString(err error) string {
	if err == nil {
		return "nil"
	}
	var ve c13VisitErr
	if errors.As(err, &ve) {
		return ve.Error()
	}
	return "other:" + err.Error()
}

func c13KeyStr(k int) string {
	if k < 0 {
		return ""
	}
	return strconv.Itoa(k)
}

func c13RoleLess(a, b string) bool {
	ra, rb := c13RoleRank(a), c13RoleRank(b)
	if ra != rb {
		return ra < rb
	}
	if len(a) != len(b) {
		return len(a) < len(b)
	}
	return a < b
}

func c13RoleRank(r string) int {
	switch {
	case r == "C":
		return 0
	case r == "M":
		return 1
	case strings.HasPrefix(r, "W"):
		return 2
	}
	return 3
}

// c13View renders the real goroutines in the vocabulary of the model's view (Ops/C13.lean `view`).
func c13View(gs map[int64]*c13G, alive map[int64]c13GInfo) string {
	var l []*c13G
	for _, gr := range gs {
		if gr.gone {
			continue
		}
		l = append(l, gr)
	}
	sort.Slice(l, func(i, j int) bool { return c13RoleLess(l[i].role, l[j].role) })
	var out []string
	for _, gr := range l {
		p, flag := gr.cur, "?"
		if p == nil {
			p, flag = gr.blockedIn, "-"
		}
		if p == nil {
			out = append(out, gr.role+":lost")
			continue
		}
		switch p.step {
		case "ready", "enter":
			out = append(out, gr.role+":"+p.step+":"+c13KeyStr(p.key))
		case "spawn":
			out = append(out, gr.role+":spawn:"+c13KeyStr(p.key)+flag)
		case "C.select":
			out = append(out, gr.role+":select"+flag+"?")
		case "C.ctxDone":
			// parked: about to wait for `spawned`; blocked: the caller is still in its loop (model: m ≠ none)
			if flag == "-" {
				out = append(out, gr.role+":select+-")
			} else {
				out = append(out, gr.role+":select+?")
			}
		case "C.recv", "C.exit":
			out = append(out, gr.role+":select+?")
		case "M.wait":
			out = append(out, gr.role+":wait"+flag)
		case "W.begin":
			out = append(out, gr.role+":start")
		case "visit":
			out = append(out, gr.role+":running")
		case "W.done":
			out = append(out, gr.role+":returned")
		case "W.send":
			out = append(out, gr.role+":marked")
		case "W.exit":
			out = append(out, gr.role+":sent")
		default:
			out = append(out, gr.role+":"+p.step)
		}
	}
	return strings.Join(out, " ")
}

// ---------------------------------------------------------------- choosers

func c13ChooseFirst(_ int, _ []*c13G) int { return 0 }

func c13ChooseRandom(r *rand.Rand) c13Chooser {
	return func(_ int, parked []*c13G) int { return r.Intn(len(parked)) }
}

// PCT-style: every goroutine gets a random priority when first seen; the highest parked one runs;
// at d random steps the running goroutine's priority drops below all others.
func c13ChoosePCT(r *rand.Rand, d, horizon int) c13Chooser {
	prio := map[string]int{}
	change := map[int]bool{}
	for i := 0; i < d; i++ {
		change[r.Intn(horizon)] = true
	}
	low := 0
	return func(step int, parked []*c13G) int {
		best, bi := -1<<30, 0
		for i, p := range parked {
			if _, ok := prio[p.role]; !ok {
				prio[p.role] = 1000 + r.Intn(1000)
			}
			if prio[p.role] > best {
				best, bi = prio[p.role], i
			}
		}
		if change[step] {
			low--
			prio[parked[bi].role] = low
		}
		return bi
	}
}

// script of patterns "role@step" (either side may be empty; role "W" = any worker); after the script: fallback
func c13ChooseScript(script []string, fallback c13Chooser) c13Chooser {
	return func(step int, parked []*c13G) int {
		if step < len(script) {
			pat := script[step]
			role, st := pat, ""
			if i := strings.IndexByte(pat, '@'); i >= 0 {
				role, st = pat[:i], pat[i+1:]
			}
			for i, p := range parked {
				if role != "" && role != p.role && !(role == "W" && strings.HasPrefix(p.role, "W")) {
					continue
				}
				if st != "" && st != p.cur.step {
					continue
				}
				return i
			}
		}
		return fallback(step, parked)
	}
}

// internal steps first (policy picks among them); a held visitor is released only when nothing else can move,
// and which one is decided by `visits`
func c13ChooseCompletion(internal c13Chooser, visits func(held []*c13G) *c13G) c13Chooser {
	return func(step int, parked []*c13G) int {
		var in []*c13G
		var held []*c13G
		for _, p := range parked {
			if p.cur.step == "visit" {
				held = append(held, p)
			} else {
				in = append(in, p)
			}
		}
		var pick *c13G
		if len(in) > 0 {
			pick = in[internal(step, in)]
		} else {
			pick = visits(held)
		}
		for i, p := range parked {
			if p == pick {
				return i
			}
		}
		return 0
	}
}

// c13Await waits for an uncontrolled call of the real code (result on done).  It returns early when the traversal is
// certainly wedged: the same non-empty set of traversal goroutines, every one of them waiting, in four dumps 50 ms
// apart (no goroutine of the traversal ever waits for time or I/O, so nothing can wake them).  Otherwise it gives the
// call `max` (generous: the machine may be heavily loaded).
func c13Await(done <-chan error, max time.Duration) (err error, returned bool, why string) {
	deadline := time.After(max)
	buf := make([]byte, 1<<16)
	same, last := 0, ""
	tick := time.NewTimer(200 * time.Millisecond)
	defer tick.Stop()
	for {
		select {
		case err = <-done:
			return err, true, ""
		case <-deadline:
			return nil, false, fmt.Sprintf("did not return within %s", max)
		case <-tick.C:
			dump, uncertain := c13DumpU(&buf)
			var sig []string
			all := len(dump) > 0 && !uncertain
			for _, gi := range dump {
				if !gi.waiting {
					all = false
				}
				sig = append(sig, fmt.Sprintf("g%d[%s]", gi.gid, gi.state))
			}
			cur := strings.Join(sig, ",")
			if all && cur == last {
				same++
			} else {
				same = 0
			}
			last = cur
			if all && same >= 3 {
				// the goroutines stay behind: later controlled runs must ignore them
				c13LeakMu.Lock()
				for _, gi := range dump {
					c13Leaked[gi.gid] = true
				}
				c13LeakMu.Unlock()
				return nil, false, "deadlock: every goroutine of the traversal is blocked: " + cur
			}
			tick.Reset(50 * time.Millisecond)
		}
	}
}
