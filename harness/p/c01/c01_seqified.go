package c01

// C01 — the SEQIFIED stream of the whole-load oracle: a mapping replaced by the sequence of its values.
//
// Why: every table-driven walker of the pipeline (transform.Canonical, paths, defaults, validation) matches `*` in a
// pattern against ANY path step — including the `[]` step of a sequence — and descends into sequences, while
// override.enforceUnicity (whose indexers reject what the transformers assert) does not.  So when `services:` (or
// `networks:`, a service's `networks:`, …) is a LIST of what its values would be, the element at `services.[]` is
// treated as a service by some stages and never seen by others.  The (path × kind) stream keeps every container on the
// way to the path a mapping; this stream takes the same documents (and the valid ones) and turns one or two of the
// mappings on the way into the list of their values.  Found this way in round 5 (while trying to prove that
// `EnforceUnicity` shields `transformKeyValue`): `services: [{build: {additional_contexts: [1]}}]` with schema validation
// and extends skipped → panic in transform.transformKeyValue.
//
// Observation: as everywhere in C01 — a project xor an error, never a crash.

import (
	"fmt"
	"sort"

	"verifharness/core"
)

// The reverse confusion is in the same stream: a SEQUENCE replaced by the mapping index → element (`ports: {"0": "80:80"}`):
// patterns written for list items (`services.*.ports.*`, `…devices.*`) match the keys of such a mapping as well.

// listNodes lists the paths of all non-empty sequences.
func c01ListNodes(v any, cur []any, out *[][]any) {
	switch x := v.(type) {
	case M:
		for _, k := range sortedKeys(x) {
			c01ListNodes(x[k], append(cur, k), out)
		}
	case L:
		if len(x) > 0 {
			*out = append(*out, append([]any{}, cur...))
		}
		for i, e := range x {
			c01ListNodes(e, append(cur, i), out)
		}
	}
}

// mapifyAt returns a copy of doc in which the sequence at the given path is replaced by {"0": e0, "1": e1, …}.
func c01MapifyAt(doc any, path []any) any {
	if len(path) == 0 {
		l, ok := doc.(L)
		if !ok {
			return doc
		}
		m := M{}
		for i, e := range l {
			m[fmt.Sprint(i)] = c01DeepCopy(e)
		}
		return m
	}
	switch x := doc.(type) {
	case M:
		o := M{}
		for k, e := range x {
			if k == path[0] {
				o[k] = c01MapifyAt(e, path[1:])
			} else {
				o[k] = c01DeepCopy(e)
			}
		}
		return o
	case L:
		o := make(L, len(x))
		for i, e := range x {
			if i == path[0] {
				o[i] = c01MapifyAt(e, path[1:])
			} else {
				o[i] = c01DeepCopy(e)
			}
		}
		return o
	}
	return doc
}

// mapNodes lists the paths (key sequences) of all mappings strictly below the root, through mappings and sequences.
func c01MapNodes(v any, cur []any, out *[][]any) {
	switch x := v.(type) {
	case M:
		if len(cur) > 0 {
			*out = append(*out, append([]any{}, cur...))
		}
		for _, k := range sortedKeys(x) {
			c01MapNodes(x[k], append(cur, k), out)
		}
	case L:
		for i, e := range x {
			c01MapNodes(e, append(cur, i), out)
		}
	}
}

// seqifyAt returns a copy of doc in which the mapping at the given path is replaced by the list of its values.
func c01SeqifyAt(doc any, path []any) any {
	if len(path) == 0 {
		m, ok := doc.(M)
		if !ok {
			return doc
		}
		l := L{}
		for _, k := range sortedKeys(m) {
			l = append(l, c01DeepCopy(m[k]))
		}
		return l
	}
	switch x := doc.(type) {
	case M:
		o := M{}
		for k, e := range x {
			if k == path[0] {
				o[k] = c01SeqifyAt(e, path[1:])
			} else {
				o[k] = c01DeepCopy(e)
			}
		}
		return o
	case L:
		o := make(L, len(x))
		for i, e := range x {
			if i == path[0] {
				o[i] = c01SeqifyAt(e, path[1:])
			} else {
				o[i] = c01DeepCopy(e)
			}
		}
		return o
	}
	return doc
}

// option sets under which unvalidated shapes reach the late stages (bit 1 = schema validation skipped)
var c01SeqifiedOptionSets = []int{0, 1, 1 | 32, 1 | 32 | 64, 1 | 4 | 16 | 32 | 64, 1 | 2 | 32, 1 | 32 | 256, 1 | 8 | 32 | 128}

func c01Seqified(ctx *core.Ctx, sch *c01Schema, rich M) {
	emit := func(doc M, nodes [][]any, which []int, pos string, bits int, src string) {
		var d any = doc
		// deeper nodes first, so that earlier replacements do not move later paths
		sort.Slice(which, func(i, j int) bool { return len(nodes[which[i]]) > len(nodes[which[j]]) })
		depth := 0
		for _, w := range which {
			d = c01SeqifyAt(d, nodes[w])
			if len(nodes[w]) > depth {
				depth = len(nodes[w])
			}
		}
		dm, ok := d.(M)
		if !ok {
			return
		}
		req := c01Positioned(pos, dm, rich)
		if req == nil {
			return
		}
		applyOptionBits(req, bits)
		ctx.Count("seqified-src-" + src)
		ctx.Count(fmt.Sprintf("seqified-depth-%d", depth))
		ctx.Count("seqified-pos-" + pos)
		ctx.Add("c01load", c01Args{Req: *req, Delivery: c01DrawDelivery(ctx), Shape: fmt.Sprintf("seqified/%s/%s/%v", pos, src, nodes[which[0]])})
	}
	positions := []string{"single", "override", "base", "include"}
	drawBits := func() int {
		if ctx.Rng.Intn(6) == 0 {
			return ctx.Rng.Intn(1024) | 1
		}
		return c01SeqifiedOptionSets[ctx.Rng.Intn(len(c01SeqifiedOptionSets))]
	}
	// 1. the valid rich document: every mapping in it, alone, under every option set of the list
	var richNodes [][]any
	c01MapNodes(rich, nil, &richNodes)
	for i := range richNodes {
		for _, bits := range c01SeqifiedOptionSets {
			if !ctx.Thorough() && ctx.Rng.Intn(2) == 0 {
				continue
			}
			emit(rich, richNodes, []int{i}, positions[ctx.Rng.Intn(len(positions))], bits, "rich")
		}
	}
	// 1b. … and every non-empty sequence of it turned into a mapping
	emitMapified := func(doc M, src string) {
		var lists [][]any
		c01ListNodes(doc, nil, &lists)
		if len(lists) == 0 {
			return
		}
		at := lists[ctx.Rng.Intn(len(lists))]
		dm, ok := c01MapifyAt(doc, at).(M)
		if !ok {
			return
		}
		pos := positions[ctx.Rng.Intn(len(positions))]
		req := c01Positioned(pos, dm, rich)
		if req == nil {
			return
		}
		applyOptionBits(req, drawBits())
		ctx.Count("mapified-src-" + src)
		ctx.Add("c01load", c01Args{Req: *req, Shape: fmt.Sprintf("mapified/%s/%s/%v", pos, src, at)})
	}
	var richLists [][]any
	c01ListNodes(rich, nil, &richLists)
	for range richLists {
		for k := 0; k < ctx.Pick(3, 8); k++ {
			emitMapified(rich, "rich")
		}
	}
	// 2. the documents of the (path × kind) stream: one value of one kind at one schema path, one or two of the
	//    mappings on the way (or beside it) turned into lists
	paths := sch.paths(9)
	for _, p := range paths {
		for _, kv := range c01KindValues {
			if !ctx.Thorough() && ctx.Rng.Intn(3) != 0 {
				continue
			}
			doc := sch.place(p, kv.vals[ctx.Rng.Intn(len(kv.vals))])
			var nodes [][]any
			c01MapNodes(doc, nil, &nodes)
			if len(nodes) == 0 {
				continue
			}
			which := []int{ctx.Rng.Intn(len(nodes))}
			if ctx.Rng.Intn(4) == 0 {
				if w2 := ctx.Rng.Intn(len(nodes)); w2 != which[0] {
					which = append(which, w2)
				}
			}
			emit(doc, nodes, which, positions[ctx.Rng.Intn(len(positions))], drawBits(), "kind-"+kv.kind)
		}
	}
	// 3. combinations of valid attribute spellings
	keys := make([]string, 0, len(c01ServiceCatalogue))
	for k := range c01ServiceCatalogue {
		keys = append(keys, k)
	}
	sort.Strings(keys)
	for n := 0; n < ctx.Pick(400, 8000); n++ {
		svc := M{}
		for _, k := range keys {
			if ctx.Rng.Intn(6) == 0 {
				vs := c01ServiceCatalogue[k]
				svc[k] = c01DeepCopy(vs[ctx.Rng.Intn(len(vs))])
			}
		}
		doc := M{"services": M{"a": svc, "b": M{"image": "busybox"}}}
		for k, v := range c01NeededTop(svc) {
			doc[k] = M{"a": v}
		}
		var nodes [][]any
		c01MapNodes(doc, nil, &nodes)
		emit(doc, nodes, []int{ctx.Rng.Intn(len(nodes))}, positions[ctx.Rng.Intn(len(positions))], drawBits(), "valid")
		emitMapified(doc, "valid")
	}
}
