package c01

// C01 — correspondence for the COMPOSED stage models (Model/C01Pipeline.lean `Pipe.loadModel`):
//
//	c01pipe   loader.LoadModelWithContext on 1–3 files   vs   Pipe.loadModel (convert → fixEmpty → Merge → EnforceUnicity
//	          → Canonical → OmitEmpty → EnforceUnicity per document; then SetDefaultValues)
//
// Options: interpolation, extends, include off, paths not resolved, empty environment (so that the parameters of the
// composition are the identity and the whole function is in the model); SetDefaultValues, schema + validation.Validate
// (the model's schema verdict is C01Schema's `conforms`), Normalize each on or off.  Compared: the outcome class (ok / err / panic) and, when both load, the whole tree.
// A crash of the real loader is a violation of C01 with the files as failing input.
// Inputs: the valid rich document and catalogue combinations split over 1–3 files, (schema path × kind) placements,
// the same with a mapping turned into the list of its values, lists with repeated elements.

import (
	"context"
	"encoding/json"
	"fmt"
	"os"
	"sort"
	"strconv"
	"strings"

	"github.com/compose-spec/compose-go/v2/loader"
	"github.com/compose-spec/compose-go/v2/template"

	"verifharness/core"
)

type pipeArgs struct {
	Docs         []any    `json:"docs"` // wire format of Val
	SkipDefaults bool     `json:"skip_defaults"`
	Validate     bool     `json:"validate,omitempty"` // schema.Validate + validation.Validate on
	Normalize    bool     `json:"normalize,omitempty"` // loader.Normalize on
	Interpolate  bool              `json:"interpolate,omitempty"` // interpolation on, with Env
	ResolvePaths bool              `json:"resolve_paths,omitempty"` // paths.ResolveRelativePaths on (working directory = the materialised root)
	Env          map[string]string `json:"env,omitempty"`
	Pats         []string `json:"pats,omitempty"`
}

func init() {
	core.Register("c01pipe", &core.CheckDef{
		Real: func(raw json.RawMessage) any {
			var a struct {
				Docs         []json.RawMessage `json:"docs"`
				SkipDefaults bool              `json:"skip_defaults"`
				Validate     bool              `json:"validate"`
				Normalize    bool              `json:"normalize"`
				Interpolate  bool              `json:"interpolate"`
				ResolvePaths bool              `json:"resolve_paths"`
				Env          map[string]string `json:"env"`
			}
			if err := json.Unmarshal(raw, &a); err != nil {
				return map[string]any{"bad": err.Error()}
			}
			req := core.LoadReq{Files: map[string]string{}, ProjectName: "p", SkipValidation: !a.Validate, SkipInterpolation: !a.Interpolate, Env: a.Env, SkipNormalization: !a.Normalize,
				NoResolvePaths: !a.ResolvePaths, SkipExtends: true, SkipInclude: true, SkipDefaultValues: a.SkipDefaults, SkipConsistencyCheck: true}
			for i, d := range a.Docs {
				name := fmt.Sprintf("f%d.yml", i)
				req.Files[name] = toYAML(core.DecodeValRaw(d))
				req.ConfigFiles = append(req.ConfigFiles, name)
			}
			root, err := core.Materialize(req.Files)
			defer os.RemoveAll(root)
			if err != nil {
				return map[string]any{"bad": "materialize: " + err.Error()}
			}
			dict, err := loader.LoadModelWithContext(context.Background(), req.Details(root), c01Options(req))
			home, _ := os.UserHomeDir()
			if err != nil {
				return map[string]any{"err": "err", "wd": root, "home": home}
			}
			return map[string]any{"ok": core.EncodeVal(dict), "wd": root, "home": home}
		},
		DriverOp: "c01pipe",
		DriverArgs: func(args, real json.RawMessage) any {
			var a map[string]any
			json.Unmarshal(args, &a)
			var rr struct{ Wd, Home string }
			json.Unmarshal(real, &rr)
			a["wd"], a["home"] = rr.Wd, rr.Home // the working directory is the materialised root of THIS execution
			a["pats"] = loader.VerifOmitEmptyPatterns()
			// the float parser is an opaque parameter of C08's model: rendered here on every substituted string leaf
			env := map[string]string{}
			if e, ok := a["env"].(map[string]any); ok {
				for k, v := range e {
					env[k] = fmt.Sprint(v)
				}
			}
			lookup := func(k string) (string, bool) { v, ok := env[k]; return v, ok }
			f64, f32 := map[string]string{}, map[string]string{}
			if docs, ok := a["docs"].([]any); ok {
				for _, d := range docs {
					pipeFloatTables(core.DecodeVal(d), lookup, f64, f32)
				}
			}
			a["f64"], a["f32"] = f64, f32
			return a
		},
		Judge: func(args, real, drv json.RawMessage) *core.Verdict {
			if v := core.CrashVerdict(real); v != nil {
				return v
			}
			var r, d map[string]json.RawMessage
			json.Unmarshal(real, &r)
			json.Unmarshal(drv, &d)
			if b, ok := r["bad"]; ok {
				return core.Disagree("harness problem: " + string(b))
			}
			_, rok := r["ok"]
			_, dok := d["ok"]
			_, derr := d["err"]
			switch {
			case rok && dok:
				if strings.Contains(string(d["ok"]), "%!s(?)") {
					// C11's model of the defaulted mount target prints scalars only and says so with this marker
					return core.Skip("composite value under a %s verb of SetDefaultValues: outside C11's model")
				}
				if !core.CanonEqual(r["ok"], d["ok"]) {
					return core.Disagree("Pipe.loadModel ≠ LoadModelWithContext: different trees")
				}
			case !rok && derr:
			default:
				return core.Disagree(fmt.Sprintf("Pipe.loadModel ≠ LoadModelWithContext: real %s, model %s", core.Class(real), string(drv)[:min(len(drv), 80)]))
			}
			return nil
		},
	})
}

func pipeRefFloat(s string, bits int) (float64, bool) {
	plain := strings.ReplaceAll(s, "_", "")
	if i, err := strconv.ParseInt(plain, 0, 64); err == nil {
		return float64(i), true
	}
	if u, err := strconv.ParseUint(plain, 0, 64); err == nil {
		return float64(u), true
	}
	if f, err := strconv.ParseFloat(plain, bits); err == nil {
		return f, true
	}
	if f, err := strconv.ParseFloat(s, bits); err == nil {
		return f, true
	}
	return 0, false
}

// the same rendering of the float parser as C08's harness (harness/p/c08: refFloat / floatTables)
func pipeFloatTables(v any, lookup template.Mapping, f64, f32 map[string]string) {
	switch x := v.(type) {
	case string:
		s, err := template.Substitute(x, lookup)
		if err != nil {
			return
		}
		if f, ok := pipeRefFloat(s, 64); ok {
			f64[s] = strconv.FormatFloat(f, 'g', -1, 64)
		}
		if f, ok := pipeRefFloat(s, 32); ok {
			f32[s] = strconv.FormatFloat(float64(float32(f)), 'g', -1, 32)
		}
	case map[string]any:
		for _, e := range x {
			pipeFloatTables(e, lookup, f64, f32)
		}
	case []any:
		for _, e := range x {
			pipeFloatTables(e, lookup, f64, f32)
		}
	}
}

// split a document over n files: top-level sections and services dealt round-robin (merging them gives the document back)
func c01SplitDoc(ctx *core.Ctx, doc M, n int) []any {
	parts := make([]M, n)
	for i := range parts {
		parts[i] = M{}
	}
	for _, k := range sortedKeys(doc) {
		if svcs, ok := doc[k].(M); ok && len(svcs) > 0 && k == "services" {
			for _, sn := range sortedKeys(svcs) {
				svc, isMap := svcs[sn].(M)
				if !isMap || n == 1 {
					i := ctx.Rng.Intn(n)
					if parts[i]["services"] == nil {
						parts[i]["services"] = M{}
					}
					parts[i]["services"].(M)[sn] = svcs[sn]
					continue
				}
				// the attributes of one service dealt over the files
				for _, ak := range sortedKeys(svc) {
					i := ctx.Rng.Intn(n)
					if parts[i]["services"] == nil {
						parts[i]["services"] = M{}
					}
					ps := parts[i]["services"].(M)
					if ps[sn] == nil {
						ps[sn] = M{}
					}
					ps[sn].(M)[ak] = svc[ak]
				}
			}
			continue
		}
		parts[ctx.Rng.Intn(n)][k] = doc[k]
	}
	out := make([]any, 0, n)
	for _, p := range parts {
		out = append(out, core.EncodeVal(map[string]any(p)))
	}
	return out
}

func c01Pipe(ctx *core.Ctx, sch *c01Schema, rich M) {
	emit := func(doc M, src string) {
		n := 1 + ctx.Rng.Intn(3)
		skipDef := ctx.Rng.Intn(2) == 0
		ctx.Count("pipe-src-" + src)
		ctx.Count(fmt.Sprintf("pipe-files-%d", n))
		ctx.Count(fmt.Sprintf("pipe-skipDefaults-%v", skipDef))
		validate := ctx.Rng.Intn(3) == 0
		ctx.Count(fmt.Sprintf("pipe-validate-%v", validate))
		normalize := ctx.Rng.Intn(3) == 0
		ctx.Count(fmt.Sprintf("pipe-normalize-%v", normalize))
		interpolate := ctx.Rng.Intn(3) == 0
		var env map[string]string
		if interpolate {
			// only names that no `environment:` entry, secret or config of the generators refers to: ResolveEnvironment
			// (a parameter of the composition, the identity here) must have nothing to resolve
			env = []map[string]string{{}, {"V": "x"}, {"V": "1", "W": "w"}, {"V": ""}}[ctx.Rng.Intn(4)]
		}
		resolve := ctx.Rng.Intn(3) == 0
		ctx.Count(fmt.Sprintf("pipe-resolvePaths-%v", resolve))
		ctx.Count(fmt.Sprintf("pipe-interpolate-%v", interpolate))
		ctx.Add("c01pipe", pipeArgs{Docs: c01SplitDoc(ctx, doc, n), SkipDefaults: skipDef, Validate: validate, Normalize: normalize, Interpolate: interpolate, Env: env, ResolvePaths: resolve})
	}
	emit(c01DeepCopy(rich).(M), "rich")
	emit(c01DeepCopy(rich).(M), "rich")
	keys := make([]string, 0, len(c01ServiceCatalogue))
	for k := range c01ServiceCatalogue {
		keys = append(keys, k)
	}
	sort.Strings(keys)
	for n := 0; n < ctx.Pick(300, 6000); n++ {
		svc := M{}
		for _, k := range keys {
			if ctx.Rng.Intn(5) == 0 {
				vs := c01ServiceCatalogue[k]
				svc[k] = c01DeepCopy(vs[ctx.Rng.Intn(len(vs))])
			}
		}
		doc := M{"services": M{"a": svc, "b": M{"image": "busybox"}}}
		for k, v := range c01NeededTop(svc) {
			doc[k] = M{"a": c01DeepCopy(v)}
		}
		emit(doc, "valid")
	}
	paths := sch.paths(9)
	for n := 0; n < ctx.Pick(500, 10000); n++ {
		p := paths[ctx.Rng.Intn(len(paths))]
		kv := c01KindValues[ctx.Rng.Intn(len(c01KindValues))]
		if kv.kind == "float" {
			continue // float text forms are C02's business (Encode); here only the stages' structure
		}
		doc := sch.place(p, kv.vals[ctx.Rng.Intn(len(kv.vals))])
		src := "kind"
		if ctx.Rng.Intn(4) == 0 {
			var nodes [][]any
			c01MapNodes(doc, nil, &nodes)
			if len(nodes) > 0 {
				if d, ok := c01SeqifyAt(doc, nodes[ctx.Rng.Intn(len(nodes))]).(M); ok {
					doc, src = d, "kind-seqified"
				}
			}
		}
		emit(doc, src)
	}
	sites := c01ListSites()
	for n := 0; n < ctx.Pick(200, 4000); n++ {
		s := sites[ctx.Rng.Intn(len(sites))]
		if s.top != "" || len(s.pool) == 0 {
			continue
		}
		l := 2 + ctx.Rng.Intn(4)
		elems := make(L, l)
		for i := range elems {
			elems[i] = c01DeepCopy(s.pool[ctx.Rng.Intn(min(len(s.pool), 3))])
		}
		svc := M{s.attr: s.withList(elems)}
		doc := M{"services": M{"a": svc}}
		for k, v := range c01NeededTop(svc) {
			doc[k] = M{"a": c01DeepCopy(v)}
		}
		emit(doc, "repeat")
	}
}
