package c01

// C01 — correspondence for the COMPOSED stage models (Model/C01Pipeline.lean `Pipe.loadModel`):
//
//	c01pipe   loader.LoadModelWithContext on 1–3 files   vs   Pipe.loadModel (convert → fixEmpty → Merge → EnforceUnicity
//	          → Canonical → OmitEmpty → EnforceUnicity per document; then SetDefaultValues)
//
// Options: interpolation, extends, include off, paths not resolved, empty environment (so that the parameters of the
// composition are the identity and the whole function is in the model); SetDefaultValues, schema + validation.Validate
// (the model's schema verdict is C01Schema's `conforms`), Normalize each on or off.  Compared: the outcome class (ok / err / panic) and, when both load, the whole tree.
// A crash of the real loader is a violation of C01 with the files as failing input.
// Inputs: the valid rich document and catalogue combinations split over 1–3 files, (schema path × kind) placements,
// the same with a mapping turned into the list of its values, lists with repeated elements.

import (
	"context"
	"encoding/json"
	"fmt"
	"os"
	"sort"
	"strings"

	"github.com/compose-spec/compose-go/v2/loader"

	"verifharness/core"
)

type pipeArgs struct {
	Docs         []any    `json:"docs"` // wire format of Val
	SkipDefaults bool     `json:"skip_defaults"`
	Validate     bool     `json:"validate,omitempty"` // schema.Validate + validation.Validate on
	Normalize    bool     `json:"normalize,omitempty"` // loader.Normalize on
	Pats         []string `json:"pats,omitempty"`
}

func init() {
	core.Register("c01pipe", &core.CheckDef{
		Real: func(raw json.RawMessage) any {
			var a struct {
				Docs         []json.RawMessage `json:"docs"`
				SkipDefaults bool              `json:"skip_defaults"`
				Validate     bool              `json:"validate"`
				Normalize    bool              `json:"normalize"`
			}
			if err := json.Unmarshal(raw, &a); err != nil {
				return map[string]any{"bad": err.Error()}
			}
			req := core.LoadReq{Files: map[string]string{}, ProjectName: "p", SkipValidation: !a.Validate, SkipInterpolation: true, SkipNormalization: !a.Normalize,
				NoResolvePaths: true, SkipExtends: true, SkipInclude: true, SkipDefaultValues: a.SkipDefaults, SkipConsistencyCheck: true}
			for i, d := range a.Docs {
				name := fmt.Sprintf("f%d.yml", i)
				req.Files[name] = toYAML(core.DecodeValRaw(d))
				req.ConfigFiles = append(req.ConfigFiles, name)
			}
			root, err := core.Materialize(req.Files)
			defer os.RemoveAll(root)
			if err != nil {
				return map[string]any{"bad": "materialize: " + err.Error()}
			}
			dict, err := loader.LoadModelWithContext(context.Background(), req.Details(root), c01Options(req))
			if err != nil {
				return map[string]any{"err": "err"}
			}
			return map[string]any{"ok": core.EncodeVal(dict)}
		},
		DriverOp: "c01pipe",
		DriverArgs: func(args, _ json.RawMessage) any {
			var a map[string]any
			json.Unmarshal(args, &a)
			a["pats"] = loader.VerifOmitEmptyPatterns()
			return a
		},
		Judge: func(args, real, drv json.RawMessage) *core.Verdict {
			if v := core.CrashVerdict(real); v != nil {
				return v
			}
			var r, d map[string]json.RawMessage
			json.Unmarshal(real, &r)
			json.Unmarshal(drv, &d)
			if b, ok := r["bad"]; ok {
				return core.Disagree("harness problem: " + string(b))
			}
			_, rok := r["ok"]
			_, dok := d["ok"]
			_, derr := d["err"]
			switch {
			case rok && dok:
				if strings.Contains(string(d["ok"]), "%!s(?)") {
					// C11's model of the defaulted mount target prints scalars only and says so with this marker
					return core.Skip("composite value under a %s verb of SetDefaultValues: outside C11's model")
				}
				if !core.CanonEqual(r["ok"], d["ok"]) {
					return core.Disagree("Pipe.loadModel ≠ LoadModelWithContext: different trees")
				}
			case !rok && derr:
			default:
				return core.Disagree(fmt.Sprintf("Pipe.loadModel ≠ LoadModelWithContext: real %s, model %s", core.Class(real), string(drv)[:min(len(drv), 80)]))
			}
			return nil
		},
	})
}

// split a document over n files: top-level sections and services dealt round-robin (merging them gives the document back)
func c01SplitDoc(ctx *core.Ctx, doc M, n int) []any {
	parts := make([]M, n)
	for i := range parts {
		parts[i] = M{}
	}
	for _, k := range sortedKeys(doc) {
		if svcs, ok := doc[k].(M); ok && len(svcs) > 0 && k == "services" {
			for _, sn := range sortedKeys(svcs) {
				svc, isMap := svcs[sn].(M)
				if !isMap || n == 1 {
					i := ctx.Rng.Intn(n)
					if parts[i]["services"] == nil {
						parts[i]["services"] = M{}
					}
					parts[i]["services"].(M)[sn] = svcs[sn]
					continue
				}
				// the attributes of one service dealt over the files
				for _, ak := range sortedKeys(svc) {
					i := ctx.Rng.Intn(n)
					if parts[i]["services"] == nil {
						parts[i]["services"] = M{}
					}
					ps := parts[i]["services"].(M)
					if ps[sn] == nil {
						ps[sn] = M{}
					}
					ps[sn].(M)[ak] = svc[ak]
				}
			}
			continue
		}
		parts[ctx.Rng.Intn(n)][k] = doc[k]
	}
	out := make([]any, 0, n)
	for _, p := range parts {
		out = append(out, core.EncodeVal(map[string]any(p)))
	}
	return out
}

func c01Pipe(ctx *core.Ctx, sch *c01Schema, rich M) {
	emit := func(doc M, src string) {
		n := 1 + ctx.Rng.Intn(3)
		skipDef := ctx.Rng.Intn(2) == 0
		ctx.Count("pipe-src-" + src)
		ctx.Count(fmt.Sprintf("pipe-files-%d", n))
		ctx.Count(fmt.Sprintf("pipe-skipDefaults-%v", skipDef))
		validate := ctx.Rng.Intn(3) == 0
		ctx.Count(fmt.Sprintf("pipe-validate-%v", validate))
		normalize := ctx.Rng.Intn(3) == 0
		ctx.Count(fmt.Sprintf("pipe-normalize-%v", normalize))
		ctx.Add("c01pipe", pipeArgs{Docs: c01SplitDoc(ctx, doc, n), SkipDefaults: skipDef, Validate: validate, Normalize: normalize})
	}
	emit(c01DeepCopy(rich).(M), "rich")
	emit(c01DeepCopy(rich).(M), "rich")
	keys := make([]string, 0, len(c01ServiceCatalogue))
	for k := range c01ServiceCatalogue {
		keys = append(keys, k)
	}
	sort.Strings(keys)
	for n := 0; n < ctx.Pick(300, 6000); n++ {
		svc := M{}
		for _, k := range keys {
			if ctx.Rng.Intn(5) == 0 {
				vs := c01ServiceCatalogue[k]
				svc[k] = c01DeepCopy(vs[ctx.Rng.Intn(len(vs))])
			}
		}
		doc := M{"services": M{"a": svc, "b": M{"image": "busybox"}}}
		for k, v := range c01NeededTop(svc) {
			doc[k] = M{"a": c01DeepCopy(v)}
		}
		emit(doc, "valid")
	}
	paths := sch.paths(9)
	for n := 0; n < ctx.Pick(500, 10000); n++ {
		p := paths[ctx.Rng.Intn(len(paths))]
		kv := c01KindValues[ctx.Rng.Intn(len(c01KindValues))]
		if kv.kind == "float" {
			continue // float text forms are C02's business (Encode); here only the stages' structure
		}
		doc := sch.place(p, kv.vals[ctx.Rng.Intn(len(kv.vals))])
		src := "kind"
		if ctx.Rng.Intn(4) == 0 {
			var nodes [][]any
			c01MapNodes(doc, nil, &nodes)
			if len(nodes) > 0 {
				if d, ok := c01SeqifyAt(doc, nodes[ctx.Rng.Intn(len(nodes))]).(M); ok {
					doc, src = d, "kind-seqified"
				}
			}
		}
		emit(doc, src)
	}
	sites := c01ListSites()
	for n := 0; n < ctx.Pick(200, 4000); n++ {
		s := sites[ctx.Rng.Intn(len(sites))]
		if s.top != "" || len(s.pool) == 0 {
			continue
		}
		l := 2 + ctx.Rng.Intn(4)
		elems := make(L, l)
		for i := range elems {
			elems[i] = c01DeepCopy(s.pool[ctx.Rng.Intn(min(len(s.pool), 3))])
		}
		svc := M{s.attr: s.withList(elems)}
		doc := M{"services": M{"a": svc}}
		for k, v := range c01NeededTop(svc) {
			doc[k] = M{"a": c01DeepCopy(v)}
		}
		emit(doc, "repeat")
	}
}
