package c01

// C01 — stage-level correspondence: the Lean models of Model/C01Stages.lean and Model/C01Cycles.lean
// against the real functions.
//
//	c01convert     loader.convertToStringKeysRecursive            vs  C01.convert
//	c01fixEmpty    loader.fixEmptyNotNull                         vs  C01.fixEmpty
//	c01omitEmpty   loader.OmitEmpty / omitEmpty                   vs  C01.omitEmptyTop / omitEmpty
//	c01tracker     loader.cycleTracker.Add                        vs  C01.Tracker.add
//	c01extends     loader.ApplyExtends on a temp tree             vs  C01.Ext.applyExtends (all map orders)
//	c01include     loader.LoadModelWithContext on include graphs  vs  C01.Inc.loadModel
//	c01checkCycle  graph.CheckCycle                               vs  C01.Dep.checkCycle

import (
	"context"
	"encoding/json"
	"fmt"
	"os"
	"path/filepath"
	"regexp"
	"runtime/debug"
	"sort"
	"strconv"
	"strings"
	"time"

	"github.com/compose-spec/compose-go/v2/graph"
	"github.com/compose-spec/compose-go/v2/loader"
	"github.com/compose-spec/compose-go/v2/types"

	"verifharness/core"
)

// ---------------------------------------------------------------- GoVal codec (Val wire format + nil slice + non-string-keyed map)

func encGo(v any) any {
	switch x := v.(type) {
	case []any:
		if x == nil {
			return map[string]any{"nl": true}
		}
		l := make([]any, len(x))
		for i, e := range x {
			l[i] = encGo(e)
		}
		return map[string]any{"l": l}
	case map[string]any:
		ks := make([]string, 0, len(x))
		for k := range x {
			ks = append(ks, k)
		}
		sort.Strings(ks)
		l := make([]any, len(ks))
		for i, k := range ks {
			l[i] = []any{k, encGo(x[k])}
		}
		return map[string]any{"m": l}
	case map[any]any:
		type kv struct {
			s    string
			k, v any
		}
		var kvs []kv
		for k, e := range x {
			b, _ := json.Marshal(encGo(k))
			kvs = append(kvs, kv{string(b), encGo(k), encGo(e)})
		}
		sort.Slice(kvs, func(i, j int) bool { return kvs[i].s < kvs[j].s })
		l := make([]any, len(kvs))
		for i, e := range kvs {
			l[i] = []any{e.k, e.v}
		}
		return map[string]any{"im": l}
	default:
		return core.EncodeVal(v)
	}
}

func decGo(t any) any {
	m, ok := t.(map[string]any)
	if !ok {
		return core.DecodeVal(t)
	}
	if _, ok := m["nl"]; ok {
		return []any(nil)
	}
	if l, ok := m["l"]; ok {
		out := []any{}
		if l != nil {
			for _, e := range l.([]any) {
				out = append(out, decGo(e))
			}
		}
		return out
	}
	if l, ok := m["m"]; ok {
		out := map[string]any{}
		if l != nil {
			for _, e := range l.([]any) {
				kv := e.([]any)
				out[kv[0].(string)] = decGo(kv[1])
			}
		}
		return out
	}
	if l, ok := m["im"]; ok {
		out := map[any]any{}
		if l != nil {
			for _, e := range l.([]any) {
				kv := e.([]any)
				out[decGo(kv[0])] = decGo(kv[1])
			}
		}
		return out
	}
	return core.DecodeVal(t)
}

func decGoRaw(raw json.RawMessage) any {
	var t any
	if err := json.Unmarshal(raw, &t); err != nil {
		panic(err)
	}
	return decGo(t)
}

type treeArgs struct {
	Tree any      `json:"tree"`
	Pats []string `json:"pats,omitempty"`
}

func rawTree(raw json.RawMessage) any {
	var a struct {
		Tree json.RawMessage `json:"tree"`
	}
	json.Unmarshal(raw, &a)
	return decGoRaw(a.Tree)
}

// crashOr: a crash of the real code is a property failure; otherwise real and model must agree
func crashOr(what string) func(args, real, drv json.RawMessage) *core.Verdict {
	return func(args, real, drv json.RawMessage) *core.Verdict {
		if v := core.CrashVerdict(real); v != nil {
			return v
		}
		if !core.CanonEqual(real, drv) {
			return core.Disagree(what)
		}
		return nil
	}
}

// ---------------------------------------------------------------- extends

type extArgs struct {
	Main     string  `json:"main"`     // name under which the model knows the main file
	Services [][]any `json:"services"` // [[name, svc]…]; svc: null | "notmap" | {"plain":true} | {"ext":{"str":r}|{"other":true}|{"map":{"service":F,"file":F}}}
	Files    [][]any `json:"files"`    // [[path, "noServices"|"servicesNotMap"|services]…]
}

func fldYAML(f any, other any) (any, bool) {
	switch x := f.(type) {
	case nil:
		return nil, false
	case map[string]any:
		if s, ok := x["s"].(string); ok {
			return s, true
		}
	}
	return other, true
}

func svcYAML(s any) any {
	switch x := s.(type) {
	case nil:
		return nil
	case string:
		return 5
	case map[string]any:
		e, ok := x["ext"].(map[string]any)
		if !ok {
			return map[string]any{"image": "i"}
		}
		svc := map[string]any{"image": "i"}
		if r, ok := e["str"].(string); ok {
			svc["extends"] = r
		} else if m, ok := e["map"].(map[string]any); ok {
			ext := map[string]any{}
			if v, has := fldYAML(m["service"], []any{"x"}); has {
				ext["service"] = v
			}
			if v, has := fldYAML(m["file"], 3); has {
				ext["file"] = v
			}
			svc["extends"] = ext
		} else {
			svc["extends"] = 7
		}
		return svc
	}
	return nil
}

func servicesYAML(l []any) map[string]any {
	m := map[string]any{}
	for _, e := range l {
		kv := e.([]any)
		m[kv[0].(string)] = svcYAML(kv[1])
	}
	return m
}

var extErrClasses = []struct {
	re  *regexp.Regexp
	cls string
}{
	{regexp.MustCompile(`^Circular reference`), "circular"},
	{regexp.MustCompile(`extends\.service must be a string`), "extendsServiceNotString"},
	{regexp.MustCompile(`extends\.file must be a string`), "extendsFileNotString"},
	{regexp.MustCompile(`invalid type .* for extends`), "invalidExtendsType"},
	{regexp.MustCompile(`no services section`), "noServices"},
	{regexp.MustCompile(`cannot extend service .*: services must be a mapping`), "servicesNotMap"},
	{regexp.MustCompile(`cannot extend service .* not found in `), "notFoundInFile"},
	{regexp.MustCompile(`cannot extend service .* not found`), "notFound"},
	{regexp.MustCompile(`^services\..* must be a mapping`), "serviceNotMapping"},
	{regexp.MustCompile(`no such file or directory`), "fileNotFound"},
	{regexp.MustCompile(`^unexpected type `), "pathNotString"}, // paths.ResolveRelativePaths on the extended file: extends.file of a non-string kind
}

func realExtends(raw json.RawMessage) any {
	var a extArgs
	if err := json.Unmarshal(raw, &a); err != nil {
		return map[string]any{"bad": err.Error()}
	}
	debug.SetMaxStack(64 << 20)
	files := map[string]string{}
	for _, f := range a.Files {
		name := f[0].(string)
		switch c := f[1].(type) {
		case string:
			if c == "noServices" {
				files[name] = toYAML(map[string]any{"x-none": 1})
			} else {
				files[name] = toYAML(map[string]any{"services": []any{"a"}})
			}
		case []any:
			files[name] = toYAML(map[string]any{"services": servicesYAML(c)})
		}
	}
	root, err := core.Materialize(files)
	defer os.RemoveAll(root)
	if err != nil {
		return map[string]any{"bad": err.Error()}
	}
	var svcs []any
	for _, s := range a.Services {
		svcs = append(svcs, []any(s))
	}
	dict := map[string]any{"services": servicesYAML(svcs)}
	details := types.ConfigDetails{WorkingDir: root, Environment: map[string]string{}}
	opts := loader.VerifToOptions(&details, nil)
	err = loader.VerifApplyExtendsIn(context.Background(), filepath.Join(root, "$MAIN.yml"), dict, opts)
	if err == nil {
		return map[string]any{"class": "ok"}
	}
	for _, c := range extErrClasses {
		if c.re.MatchString(err.Error()) {
			return map[string]any{"class": "err:" + c.cls}
		}
	}
	return map[string]any{"class": "err:other", "text": core.ScrubErr(err, root)}
}

func judgeExtends(args, real, drv json.RawMessage) *core.Verdict {
	if why := nonTermination(real); why != "" {
		if again := confirmNonTermination("c01extends", args, 20*time.Second); again != nil && nonTermination(again) == "" {
			real = again
		} else {
			return core.Fail("hang@extends", "ApplyExtends does not return on this services graph ("+why+"); the model answers "+string(drv))
		}
	}
	if v := core.CrashVerdict(real); v != nil {
		return v
	}
	var r struct {
		Class string `json:"class"`
	}
	var d struct {
		Outcomes []string `json:"outcomes"`
	}
	if json.Unmarshal(real, &r) != nil || json.Unmarshal(drv, &d) != nil || r.Class == "" || len(d.Outcomes) == 0 {
		return core.Disagree("malformed extends exchange")
	}
	for _, o := range d.Outcomes {
		if o == r.Class {
			return nil
		}
	}
	if strings.Contains(string(real), "cannot override services") {
		// the `base == nil` short-cut hands a service that still carries `extends` to override.ExtendService:
		// an error of the merge stage (C04), outside this model
		return core.Skip("merge-stage error")
	}
	return core.Disagree(fmt.Sprintf("ApplyExtends gives %s, the model allows %v", r.Class, d.Outcomes))
}

// ---------------------------------------------------------------- include

type incArgs struct {
	Files   [][]any  `json:"files"` // [[name, [[path…]…]]…]
	Configs []string `json:"configs"`
}

func realInclude(raw json.RawMessage) any {
	var a incArgs
	if err := json.Unmarshal(raw, &a); err != nil {
		return map[string]any{"bad": err.Error()}
	}
	debug.SetMaxStack(64 << 20)
	files := map[string]string{}
	for _, f := range a.Files {
		name := f[0].(string)
		doc := map[string]any{"services": map[string]any{"s-" + strings.TrimSuffix(name, ".yml"): map[string]any{"image": "i"}}}
		var inc []any
		for _, e := range f[1].([]any) {
			inc = append(inc, map[string]any{"path": e})
		}
		if len(inc) > 0 {
			doc["include"] = inc
		}
		files[name] = toYAML(doc)
	}
	req := core.LoadReq{Files: files, ConfigFiles: a.Configs, ProjectName: "p"}
	root, err := core.Materialize(files)
	defer os.RemoveAll(root)
	if err != nil {
		return map[string]any{"bad": err.Error()}
	}
	_, err = loader.LoadModelWithContext(context.Background(), req.Details(root), c01Options(req))
	switch {
	case err == nil:
		return map[string]any{"class": "ok"}
	case strings.Contains(err.Error(), "include cycle detected"):
		return map[string]any{"class": "err:includeCycle"}
	case strings.Contains(err.Error(), "no such file or directory"):
		return map[string]any{"class": "err:fileNotFound"}
	}
	return map[string]any{"class": "err:other", "text": core.ScrubErr(err, root)}
}

func judgeInclude(args, real, drv json.RawMessage) *core.Verdict {
	var d struct {
		Class string `json:"class"`
	}
	json.Unmarshal(drv, &d)
	if why := nonTermination(real); why != "" {
		// the real loader does not return: a violation of the property whatever the model says
		if again := confirmNonTermination("c01include", args, 20*time.Second); again != nil && nonTermination(again) == "" {
			real = again
		} else {
			return core.Fail("hang@include", "include graph on which the loader does not return ("+why+") although the model answers "+d.Class)
		}
	}
	if v := core.CrashVerdict(real); v != nil {
		return v
	}
	var r struct {
		Class string `json:"class"`
	}
	json.Unmarshal(real, &r)
	if r.Class != d.Class {
		return core.Disagree(fmt.Sprintf("loader gives %s, Inc.loadModel gives %s", string(real), d.Class))
	}
	return nil
}

// ---------------------------------------------------------------- depends_on

type depArgs struct {
	Graph [][]any `json:"graph"` // [[name, [child…]]…] sorted by name, children sorted
}

var depCycleRe = regexp.MustCompile(`^dependency cycle detected: (.*)$`)

func realCheckCycle(raw json.RawMessage) any {
	var a depArgs
	json.Unmarshal(raw, &a)
	debug.SetMaxStack(64 << 20) // unbounded recursion must die quickly
	p := &types.Project{Services: types.Services{}}
	for _, e := range a.Graph {
		name := e[0].(string)
		s := types.ServiceConfig{Name: name, DependsOn: types.DependsOnConfig{}}
		for _, c := range e[1].([]any) {
			s.DependsOn[c.(string)] = types.ServiceDependency{Condition: types.ServiceConditionStarted, Required: true}
		}
		p.Services[name] = s
	}
	err := graph.CheckCycle(p)
	if err == nil {
		return map[string]any{"ok": true}
	}
	if m := depCycleRe.FindStringSubmatch(err.Error()); m != nil {
		return map[string]any{"cycle": strings.Split(m[1], " -> ")}
	}
	return map[string]any{"err": err.Error()}
}

// unsoundCycle returns "" when the real outcome is not a cycle report or the reported list is a closed walk of the graph.
func unsoundCycle(args, real json.RawMessage) string {
	var r struct {
		Cycle []string `json:"cycle"`
	}
	if json.Unmarshal(real, &r) != nil || r.Cycle == nil {
		return ""
	}
	var a depArgs
	json.Unmarshal(args, &a)
	edges := map[[2]string]bool{}
	for _, e := range a.Graph {
		for _, c := range e[1].([]any) {
			edges[[2]string{e[0].(string), c.(string)}] = true
		}
	}
	if len(r.Cycle) < 2 {
		return fmt.Sprintf("%v has no edge", r.Cycle)
	}
	if r.Cycle[0] != r.Cycle[len(r.Cycle)-1] {
		return fmt.Sprintf("%v does not end where it starts", r.Cycle)
	}
	for i := 0; i+1 < len(r.Cycle); i++ {
		if !edges[[2]string{r.Cycle[i], r.Cycle[i+1]}] {
			return fmt.Sprintf("%v: %s does not depend on %s", r.Cycle, r.Cycle[i], r.Cycle[i+1])
		}
	}
	return ""
}

// ---------------------------------------------------------------- registration

func init() {
	core.Register("c01convert", &core.CheckDef{
		Real: func(raw json.RawMessage) any {
			v, err := loader.VerifConvertToStringKeys(rawTree(raw))
			if err != nil {
				if strings.HasPrefix(err.Error(), "Non-string key") {
					return map[string]any{"err": "nonStringKey"}
				}
				return map[string]any{"err": "other:" + err.Error()}
			}
			return map[string]any{"ok": encGo(v)}
		},
		DriverOp: "c01convert", Judge: crashOr("convert ≠ convertToStringKeysRecursive"),
	})
	core.Register("c01fixEmpty", &core.CheckDef{
		Real: func(raw json.RawMessage) any {
			return map[string]any{"ok": encGo(loader.VerifFixEmptyNotNull(rawTree(raw)))}
		},
		DriverOp: "c01fixEmpty", Judge: crashOr("fixEmpty ≠ fixEmptyNotNull"),
	})
	core.Register("c01omitEmpty", &core.CheckDef{
		Real: func(raw json.RawMessage) any {
			t := rawTree(raw)
			if m, ok := t.(map[string]any); ok {
				return map[string]any{"ok": encGo(loader.OmitEmpty(m))}
			}
			return map[string]any{"ok": encGo(loader.VerifOmitEmpty(t))}
		},
		DriverOp: "c01omitEmpty", Judge: crashOr("omitEmpty ≠ loader.OmitEmpty"),
		DriverArgs: func(args, _ json.RawMessage) any {
			var a map[string]any
			json.Unmarshal(args, &a)
			a["pats"] = loader.VerifOmitEmptyPatterns() // the table as it is in the source now
			return a
		},
	})
	core.Register("c01tracker", &core.CheckDef{
		Real: func(raw json.RawMessage) any {
			var a struct {
				Refs [][2]string `json:"refs"`
			}
			json.Unmarshal(raw, &a)
			n, err := loader.VerifCycleTrackerRun(a.Refs)
			if err != nil {
				if strings.HasPrefix(err.Error(), "Circular reference") {
					return map[string]any{"err": "circular", "at": n}
				}
				return map[string]any{"err": err.Error()}
			}
			return map[string]any{"ok": n}
		},
		DriverOp: "c01tracker", Judge: crashOr("Tracker.add ≠ cycleTracker.Add"),
	})
	core.Register("c01extends", &core.CheckDef{Real: realExtends, DriverOp: "c01extends", Judge: judgeExtends, Timeout: 4 * time.Second})
	core.Register("c01include", &core.CheckDef{Real: realInclude, DriverOp: "c01include", Judge: judgeInclude, Timeout: 5 * time.Second})
	core.Register("c01checkCycle", &core.CheckDef{Real: realCheckCycle, DriverOp: "c01checkCycle", Timeout: 5 * time.Second,
		Judge: func(args, real, drv json.RawMessage) *core.Verdict {
			if why := nonTermination(real); why != "" {
				if again := confirmNonTermination("c01checkCycle", args, 20*time.Second); again != nil && nonTermination(again) == "" {
					real = again
				} else {
					return core.Fail("hang@checkCycle", "graph.CheckCycle does not return on this dependency graph ("+why+"); the model answers "+string(drv))
				}
			}
			// the statement of `dependsOn_reported_cycle_sound`, observed on the real code itself (not through the model):
			// the list in the error is a walk along edges of THIS graph from a vertex back to itself
			if why := unsoundCycle(args, real); why != "" {
				return core.Fail("cycle-report-unsound@graph.CheckCycle", "graph.CheckCycle reports a dependency cycle that is not one in the graph: "+why)
			}
			return crashOr("Dep.checkCycle ≠ graph.CheckCycle")(args, real, drv)
		}})
}

// ---------------------------------------------------------------- generators

var c01Keys = []string{"a", "b", "services", "dns", "x", "k.dot", "", "[]", "*"}

// random value as yaml.v3 may hand it to the loader
func genGoVal(ctx *core.Ctx, depth int, imaps bool) any {
	n := 12
	if depth <= 0 {
		n = 7
	}
	switch ctx.Rng.Intn(n) {
	case 0:
		return nil
	case 1:
		return ctx.Rng.Intn(2) == 0
	case 2:
		return ctx.Rng.Intn(5) - 2
	case 3:
		return []float64{0.5, -1.25}[ctx.Rng.Intn(2)]
	case 4, 5:
		return []string{"", "", "v", "1.1.1.1", "a.b"}[ctx.Rng.Intn(5)]
	case 6:
		return []any(nil)
	case 7, 8:
		l := []any{}
		for i := ctx.Rng.Intn(4); i > 0; i-- {
			l = append(l, genGoVal(ctx, depth-1, imaps))
		}
		return l
	case 9, 10:
		m := map[string]any{}
		for i := ctx.Rng.Intn(4); i > 0; i-- {
			m[c01Keys[ctx.Rng.Intn(len(c01Keys))]] = genGoVal(ctx, depth-1, imaps)
		}
		return m
	default:
		if !imaps {
			return map[string]any{}
		}
		m := map[any]any{}
		for i := ctx.Rng.Intn(4); i > 0; i-- {
			var k any = c01Keys[ctx.Rng.Intn(len(c01Keys))]
			if ctx.Rng.Intn(5) == 0 {
				k = []any{1, true, nil, 2.5, "1"}[ctx.Rng.Intn(5)]
			}
			m[k] = genGoVal(ctx, depth-1, imaps)
		}
		return m
	}
}

// trees around the one path of the omitempty table
func genDnsTree(ctx *core.Ctx) any {
	dns := func() any {
		switch ctx.Rng.Intn(4) {
		case 0:
			l := []any{}
			for i := ctx.Rng.Intn(4); i > 0; i-- {
				l = append(l, []any{"", nil, "1.1.1.1", 0, []any{}, map[string]any{"": ""}}[ctx.Rng.Intn(6)])
			}
			return l
		case 1:
			return map[string]any{"a": "", "b": nil, "c": "x", "d": []any{"", nil}}
		case 2:
			return ""
		}
		return genGoVal(ctx, 2, false)
	}
	svc := func() any {
		m := map[string]any{"image": "", "dns": dns()}
		if ctx.Rng.Intn(3) == 0 {
			m["dns_search"] = []any{"", nil}
		}
		return m
	}
	top := map[string]any{"services": map[string]any{"a": svc(), "b.c": svc(), "": svc()}}
	if ctx.Rng.Intn(4) == 0 {
		top["dns"] = []any{"", nil}
		top[""] = map[string]any{"services": map[string]any{"a": map[string]any{"dns": []any{"", "x"}}}} // Path.Next("") at the root
	}
	return top
}

func allExtVals() []any {
	flds := []any{nil, map[string]any{"s": "a"}, map[string]any{"s": "b"}, map[string]any{"s": "zz"}, "other"}
	files := []any{nil, map[string]any{"s": "o.yml"}, map[string]any{"s": "compose.yml"}, map[string]any{"s": "missing.yml"}, "other"}
	out := []any{map[string]any{"str": "a"}, map[string]any{"str": "b"}, map[string]any{"str": "zz"}, map[string]any{"other": true}}
	for _, s := range flds {
		for _, f := range files {
			out = append(out, map[string]any{"map": map[string]any{"service": s, "file": f}})
		}
	}
	return out
}

func c01Models(ctx *core.Ctx) {
	// ---- tree walkers: random trees (mostly well-shaped) + dns-shaped trees
	for i := 0; i < ctx.Pick(4000, 150000); i++ {
		t := genGoVal(ctx, 4, true)
		ctx.Count("model-convert")
		ctx.Add("c01convert", treeArgs{Tree: encGo(t)})
		u := genGoVal(ctx, 4, ctx.Rng.Intn(4) == 0)
		ctx.Count("model-fixEmpty")
		ctx.Add("c01fixEmpty", treeArgs{Tree: encGo(u)})
		var w any
		if ctx.Rng.Intn(3) == 0 {
			w = genGoVal(ctx, 4, false)
		} else {
			w = genDnsTree(ctx)
		}
		ctx.Count("model-omitEmpty")
		ctx.Add("c01omitEmpty", treeArgs{Tree: encGo(w)})
	}

	// ---- cycle tracker: exhaustive sequences of ≤ 5 references over a 2×2 universe, then random longer ones
	univ := [][2]string{{"f", "a"}, {"f", "b"}, {"g", "a"}, {"g", "b"}}
	var rec func(cur [][2]string, n int)
	rec = func(cur [][2]string, n int) {
		ctx.Count("model-tracker-exhaustive")
		ctx.Add("c01tracker", map[string]any{"refs": append([][2]string{}, cur...)})
		if n == 0 {
			return
		}
		for _, r := range univ {
			rec(append(cur, r), n-1)
		}
	}
	rec(nil, ctx.Pick(4, 5))
	for i := 0; i < ctx.Pick(500, 20000); i++ {
		var refs [][2]string
		for n := ctx.Rng.Intn(12); n > 0; n-- {
			refs = append(refs, [2]string{[]string{"f", "g", "h", ""}[ctx.Rng.Intn(4)], []string{"a", "b", "c", "d", ""}[ctx.Rng.Intn(5)]})
		}
		ctx.Count("model-tracker-random")
		ctx.Add("c01tracker", map[string]any{"refs": refs})
	}

	// ---- extends: (1) every shape of the `extends` value on service a, over a fixed two-file tree
	exts := allExtVals()
	other := []any{[]any{"a", map[string]any{"ext": map[string]any{"str": "b"}}}, []any{"b", map[string]any{"plain": true}}}
	for _, e := range exts {
		svcs := [][]any{{"a", map[string]any{"ext": e}}, {"b", map[string]any{"plain": true}}}
		mainOnDisk := []any{[]any{"a", map[string]any{"ext": e}}, []any{"b", map[string]any{"plain": true}}}
		ctx.Count("model-extends-shapes")
		ctx.Add("c01extends", extArgs{Main: "$MAIN", Services: svcs, Files: [][]any{{"o.yml", other}, {"compose.yml", mainOnDisk}}})
	}
	// (2) random graphs over ≤ 4 services in the main file and two other files
	names := []string{"a", "b", "c", "d"}
	fileNames := []string{"o.yml", "p.yml", "compose.yml"}
	rndSvc := func(inFile bool) any {
		switch k := ctx.Rng.Intn(20); {
		case k == 0:
			return nil
		case k == 1:
			return "notmap"
		case k < 7:
			return map[string]any{"plain": true}
		case k < 14:
			return map[string]any{"ext": map[string]any{"str": names[ctx.Rng.Intn(len(names))]}}
		case k == 14 && !inFile:
			return map[string]any{"ext": exts[ctx.Rng.Intn(len(exts))]}
		default:
			var file any
			if ctx.Rng.Intn(3) > 0 {
				file = map[string]any{"s": fileNames[ctx.Rng.Intn(len(fileNames))]}
			}
			return map[string]any{"ext": map[string]any{"map": map[string]any{"service": map[string]any{"s": names[ctx.Rng.Intn(len(names))]}, "file": file}}}
		}
	}
	rndServices := func(inFile bool) []any {
		var l []any
		for _, n := range names[:1+ctx.Rng.Intn(len(names))] {
			l = append(l, []any{n, rndSvc(inFile)})
		}
		return l
	}
	for i := 0; i < ctx.Pick(2500, 60000); i++ {
		mainSvcs := rndServices(false)
		var svcs [][]any
		for _, s := range mainSvcs {
			svcs = append(svcs, s.([]any))
		}
		files := [][]any{{"compose.yml", mainSvcs}}
		for _, f := range fileNames[:2] {
			switch ctx.Rng.Intn(12) {
			case 0: // absent
			case 1:
				files = append(files, []any{f, "noServices"})
			case 2:
				files = append(files, []any{f, "servicesNotMap"})
			default:
				files = append(files, []any{f, rndServices(true)})
			}
		}
		ctx.Count("model-extends-random")
		ctx.Add("c01extends", extArgs{Main: "$MAIN", Services: svcs, Files: files})
	}

	// ---- include: random graphs over ≤ 6 files, long-syntax entries with override paths anywhere
	for i := 0; i < ctx.Pick(700, 12000); i++ {
		n := 2 + ctx.Rng.Intn(4)
		fname := func(k int) string { return "f" + strconv.Itoa(k) + ".yml" }
		leaf := fname(n) // a file without includes
		files := [][]any{{leaf, []any{}}}
		for k := 0; k < n; k++ {
			var entries []any
			for e := ctx.Rng.Intn(3); e > 0; e-- {
				target := fname(ctx.Rng.Intn(n + 1))
				if ctx.Rng.Intn(15) == 0 {
					target = "missing.yml"
				}
				paths := []any{target}
				if ctx.Rng.Intn(4) == 0 { // override paths: any file, the parent included
					paths = append(paths, fname(ctx.Rng.Intn(n+1)))
				}
				entries = append(entries, paths)
			}
			if entries == nil {
				entries = []any{}
			}
			files = append(files, []any{fname(k), entries})
		}
		cfgs := []string{fname(0)}
		if ctx.Rng.Intn(4) == 0 {
			cfgs = append(cfgs, fname(ctx.Rng.Intn(n+1)))
		}
		ctx.Count("model-include-random")
		ctx.Add("c01include", incArgs{Files: files, Configs: cfgs})
	}

	// ---- depends_on: every digraph on ≤ 3 vertices (self loops included), then random ones on ≤ 7
	vn := []string{"a", "b", "c", "d", "e", "f", "g"}
	for n := 1; n <= 3; n++ {
		for mask := 0; mask < 1<<(n*n); mask++ {
			var g [][]any
			for i := 0; i < n; i++ {
				cs := []any{}
				for j := 0; j < n; j++ {
					if mask&(1<<(i*n+j)) != 0 {
						cs = append(cs, vn[j])
					}
				}
				g = append(g, []any{vn[i], cs})
			}
			ctx.Count("model-checkCycle-exhaustive")
			ctx.Add("c01checkCycle", depArgs{Graph: g})
		}
	}
	for i := 0; i < ctx.Pick(2000, 60000); i++ {
		n := 2 + ctx.Rng.Intn(6)
		dens := []int{8, 4, 3}[ctx.Rng.Intn(3)]
		var g [][]any
		for a := 0; a < n; a++ {
			cs := []any{}
			for b := 0; b < n; b++ {
				if ctx.Rng.Intn(dens) == 0 && (a != b || ctx.Rng.Intn(6) == 0) && (b > a || ctx.Rng.Intn(4) == 0) {
					cs = append(cs, vn[b])
				}
			}
			g = append(g, []any{vn[a], cs})
		}
		ctx.Count("model-checkCycle-random")
		ctx.Add("c01checkCycle", depArgs{Graph: g})
	}
}
