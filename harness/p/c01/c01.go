package c01

// C01 — loading is total: a project or an error, never a crash or a hang.
//
//	c01load   direct oracle on whole loads (child process, watchdog): outcome class must be ok xor err;
//	          reference cycles must be errors; a missing non-optional referenced file must be an error naming it.
//
// Streams: (attribute path × node kind × position), option lattice, missing-file subsets, reference cycles,
// byte-level mutations of valid documents.  Stage-level correspondence ops are in c01_models.go.

import (
	"bufio"
	"context"
	"encoding/json"
	"fmt"
	"os"
	"os/exec"
	"path/filepath"
	"runtime/debug"
	"sort"
	"strings"
	"time"

	"github.com/compose-spec/compose-go/v2/cli"
	"github.com/compose-spec/compose-go/v2/loader"

	"verifharness/core"
	"verifharness/p/schemacorr"
)

type c01Args struct {
	Req      core.LoadReq `json:"req"`
	Mode     string       `json:"mode,omitempty"`      // "" = loader.LoadWithContext | "model" = LoadModelWithContext | "cli" = cli.ProjectOptions.LoadProject
	EnvFiles []string     `json:"env_files,omitempty"` // cli mode: explicit --env-file list (relative)
	Delivery string       `json:"delivery,omitempty"`  // how the files reach the loader: "" = by name (read from disk) | "content" = bytes in memory | "config" = pre-parsed (loader.ParseYAML) | "config-shared" = pre-parsed, ONE map object handed in for every config file (aliasing on the heap; the loader merges in place)
	Shape    string       `json:"shape"`               // input class (distribution, hang keys)
	Expect   string       `json:"expect,omitempty"`    // "" | "ok" | "cycle:<kind>" | "missing:<kind>:<basename>[,<basename>…]"
}

func realC01Load(raw json.RawMessage) any {
	var a c01Args
	if err := json.Unmarshal(raw, &a); err != nil {
		return map[string]any{"bad": err.Error()}
	}
	// unbounded recursion must die quickly (fatal "stack overflow") instead of eating 1 GB first
	debug.SetMaxStack(64 << 20)
	root, err := core.Materialize(a.Req.Files)
	defer os.RemoveAll(root)
	if err != nil {
		return map[string]any{"bad": "materialize: " + err.Error()}
	}
	if a.Delivery != "" && a.Mode != "cli" {
		details := a.Req.Details(root)
		var shared map[string]any
		for i := range details.ConfigFiles {
			cf := &details.ConfigFiles[i]
			content, err := os.ReadFile(cf.Filename)
			if err != nil {
				continue // a missing file stays a name
			}
			cf.Content = content
			if a.Delivery == "content" {
				continue
			}
			if a.Delivery == "config-shared" && shared != nil {
				cf.Config, cf.Content = shared, nil
				continue
			}
			if m, err := loader.ParseYAML(content); err == nil && m != nil {
				cf.Config, cf.Content = m, nil
				if shared == nil {
					shared = m
				}
			}
		}
		if a.Mode == "model" {
			dict, err := loader.LoadModelWithContext(context.Background(), details, c01Options(a.Req))
			return c01Outcome(dict != nil, err, root)
		}
		p, err := loader.LoadWithContext(context.Background(), details, c01Options(a.Req))
		return c01Outcome(p != nil, err, root)
	}
	switch a.Mode {
	case "model":
		details := a.Req.Details(root)
		dict, err := loader.LoadModelWithContext(context.Background(), details, c01Options(a.Req))
		return c01Outcome(dict != nil, err, root)
	case "cli":
		var cfs, efs []string
		for _, f := range a.Req.ConfigFiles {
			cfs = append(cfs, filepath.Join(root, f))
		}
		for _, f := range a.EnvFiles {
			efs = append(efs, filepath.Join(root, f))
		}
		var env []string
		for k, v := range a.Req.Env {
			env = append(env, k+"="+v)
		}
		sort.Strings(env)
		fns := []cli.ProjectOptionsFn{cli.WithWorkingDirectory(filepath.Join(root, a.Req.WorkingDir)), cli.WithEnv(env),
			cli.WithEnvFiles(efs...), cli.WithDotEnv, cli.WithLoadOptions(c01Options(a.Req))}
		if a.Req.ProjectName != "" {
			fns = append(fns, cli.WithName(a.Req.ProjectName))
		}
		po, err := cli.NewProjectOptions(cfs, fns...)
		if err != nil {
			return c01Outcome(false, err, root)
		}
		p, err := po.LoadProject(context.Background())
		return c01Outcome(p != nil, err, root)
	default:
		p, err := a.Req.LoadIn(root)
		return c01Outcome(p != nil, err, root)
	}
}

// c01Options replays the option set of a LoadReq on loader.Options (the unexported LoadReq.options is for LoadIn only).
func c01Options(r core.LoadReq) func(*loader.Options) {
	return func(o *loader.Options) {
		o.SkipValidation = r.SkipValidation
		o.SkipInterpolation = r.SkipInterpolation
		o.SkipNormalization = r.SkipNormalization
		o.ResolvePaths = !r.NoResolvePaths
		o.SkipConsistencyCheck = r.SkipConsistencyCheck
		o.SkipExtends = r.SkipExtends
		o.SkipInclude = r.SkipInclude
		o.SkipResolveEnvironment = r.SkipResolveEnvironment
		o.SkipDefaultValues = r.SkipDefaultValues
		o.Profiles = r.Profiles
		if r.ProjectName != "" {
			o.SetProjectName(r.ProjectName, true)
		}
		if r.DiscardEnvFiles {
			loader.WithDiscardEnvFiles(o)
		}
	}
}

func c01Outcome(hasResult bool, err error, root string) any {
	switch {
	case err != nil && hasResult:
		return map[string]any{"err": core.ScrubErr(err, root), "also_result": true}
	case err != nil:
		return map[string]any{"err": core.ScrubErr(err, root)}
	case !hasResult:
		return map[string]any{"bad_neither": true}
	}
	return map[string]any{"ok": true}
}

func judgeC01Load(args, real, _ json.RawMessage) *core.Verdict {
	var a c01Args
	json.Unmarshal(args, &a)
	var r struct {
		Ok         bool    `json:"ok"`
		Err        *string `json:"err"`
		AlsoResult bool    `json:"also_result"`
		Neither    bool    `json:"bad_neither"`
		Bad        string  `json:"bad"`
		Hang       *string `json:"hang"`
	}
	json.Unmarshal(real, &r)
	if why := nonTermination(real); why != "" {
		// a watchdog that fires inside a busy batch is not evidence: confirm in isolation first
		check := "c01load"
		if strings.HasPrefix(a.Shape, "cycle/") {
			check = "c01cycle"
		}
		if again := confirmNonTermination(check, args, 30*time.Second); again != nil && nonTermination(again) == "" {
			real = again
			json.Unmarshal(real, &r)
			why = ""
		}
		if why != "" {
			return core.Fail("hang@"+hangCause(a), fmt.Sprintf("load does not return (%s; shape %s)", why, a.Shape))
		}
	}
	if v := core.CrashVerdict(real); v != nil {
		return v
	}
	switch {
	case r.Bad != "":
		return core.Disagree("harness problem: " + r.Bad)
	case r.Neither:
		return core.Fail("neither-result-nor-error@"+modeName(a.Mode), "load returned neither a result nor an error")
	case r.AlsoResult:
		return core.Fail("result-with-error@"+modeName(a.Mode), "load returned a result together with an error")
	case !r.Ok && r.Err == nil:
		return core.Disagree("unclassifiable real outcome " + string(real))
	}
	switch {
	case a.Expect == "ok":
		if !r.Ok {
			return core.Disagree("a document of the valid base set does not load: " + *r.Err)
		}
	case strings.HasPrefix(a.Expect, "cycle:"):
		if r.Ok {
			return core.Fail("cycle-accepted:"+strings.TrimPrefix(a.Expect, "cycle:"), "a reference cycle ("+a.Shape+") was loaded without error")
		}
	case strings.HasPrefix(a.Expect, "missing:"):
		parts := strings.SplitN(a.Expect, ":", 3)
		kind, names := parts[1], strings.Split(parts[2], ",")
		if r.Ok {
			return core.Fail("missing-file-accepted:"+kind, "referenced file(s) "+parts[2]+" absent, load succeeded")
		}
		named := false
		for _, n := range names {
			if strings.Contains(*r.Err, n) {
				named = true
			}
		}
		if !named {
			return core.Fail("missing-file-unnamed:"+kind, "referenced file(s) "+parts[2]+" absent, error does not name any of them: "+*r.Err)
		}
	}
	return nil
}

// nonTermination: the watchdog fired, or unbounded recursion ended in stack / memory exhaustion — the same
// defect seen on a slow or a fast machine, so both get the same key.
func nonTermination(real json.RawMessage) string {
	var m map[string]any
	if json.Unmarshal(real, &m) != nil {
		return ""
	}
	if h, ok := m["hang"]; ok {
		return fmt.Sprintf("no answer within %v", h)
	}
	if f, ok := m["fatal"].(string); ok && f != "concurrent-map-access" && f != "deadlock" {
		// stack / memory exhaustion; the runtime's message is at the head of a crash dump of which only the
		// tail is kept, so an unclassified death ("died: …") is the same thing
		return "process died: " + f
	}
	return ""
}

// confirmNonTermination re-executes one case alone in a fresh child process with a longer watchdog.  A watchdog
// that fires inside a busy batch on a loaded machine is not evidence; only an input that again fails to return
// in isolation is reported.  Returns the outcome of the second execution.
func confirmNonTermination(check string, args json.RawMessage, timeout time.Duration) json.RawMessage {
	self, err := os.Executable()
	if err != nil {
		return nil
	}
	cmd := exec.Command(self, "-serve")
	cmd.Env = append(os.Environ(), "GOMEMLIMIT=2GiB", "GOMAXPROCS=2")
	in, err1 := cmd.StdinPipe()
	out, err2 := cmd.StdoutPipe()
	if err1 != nil || err2 != nil || cmd.Start() != nil {
		return nil
	}
	defer func() { in.Close(); cmd.Process.Kill(); cmd.Wait() }()
	line, _ := json.Marshal(map[string]any{"id": 0, "op": check, "args": args})
	go in.Write(append(line, '\n'))
	res := make(chan json.RawMessage, 1)
	go func() {
		rd := bufio.NewReaderSize(out, 1<<20)
		for {
			l, err := rd.ReadBytes('\n')
			var w struct {
				ID  *int            `json:"id"`
				Out json.RawMessage `json:"out"`
			}
			if json.Unmarshal(l, &w) == nil && w.ID != nil && w.Out != nil {
				res <- w.Out
				return
			}
			if err != nil {
				b, _ := json.Marshal(map[string]any{"fatal": "died again when run alone"})
				res <- b
				return
			}
		}
	}()
	select {
	case r := <-res:
		return r
	case <-time.After(timeout):
		b, _ := json.Marshal(map[string]any{"hang": fmt.Sprintf(">%s (alone)", timeout)})
		return b
	}
}


// hangCause names the input class of a load that does not return: the named shape in the reference-cycle stream,
// the stream otherwise.  (The three non-terminations found in round 1 — merge key aliasing its own anchor, alias
// cycle through an `!override` node, include cycle through an override path — are repaired; none is expected.)
func hangCause(a c01Args) string {
	if strings.HasPrefix(a.Shape, "cycle/") {
		return a.Shape
	}
	return shapeClass(a.Shape)
}

func modeName(m string) string {
	if m == "" {
		return "load"
	}
	return m
}

// shapeClass keeps the stable prefix of a shape ("kind/override/services.a.pid/null" → "kind/override").
func shapeClass(s string) string {
	parts := strings.Split(s, "/")
	if len(parts) > 2 {
		parts = parts[:2]
	}
	return strings.Join(parts, "/")
}

func init() {
	core.Register("c01load", &core.CheckDef{Real: realC01Load, Judge: judgeC01Load, Timeout: 10 * time.Second})
	// same oracle, shorter watchdog: the reference-cycle stream contains inputs that are known not to return
	core.Register("c01cycle", &core.CheckDef{Real: realC01Load, Judge: judgeC01Load, Timeout: 5 * time.Second})
	core.RegisterProp("C01", runC01)
}

// ---------------------------------------------------------------- documents

func toYAML(v any) string {
	b, err := json.Marshal(v) // JSON is YAML; keys sorted
	if err != nil {
		panic(err)
	}
	return string(b)
}

type M = map[string]any
type L = []any

// a valid document that exercises most stages (merge specials, canonical transformers, defaults, normalisation)
func c01Rich() M {
	return M{
		"services": M{
			"a": M{
				"image":             "busybox",
				"command":           L{"sleep", "1"},
				"entrypoint":        "/bin/sh -c",
				"environment":       M{"K": "v", "N": nil},
				"labels":            L{"l=v"},
				"ports":             L{"8080:80", M{"target": 81, "published": "8081"}},
				"expose":            L{"90"},
				"volumes":           L{"a:/data", "./src:/src:ro", M{"type": "tmpfs", "target": "/t"}},
				"networks":          M{"a": M{"aliases": L{"x"}}},
				"depends_on":        L{"b"},
				"build":             M{"context": ".", "args": L{"A=1"}, "secrets": L{"a"}},
				"logging":           M{"driver": "json-file", "options": M{"max-size": "1m"}},
				"healthcheck":       M{"test": L{"CMD", "true"}, "interval": "1s"},
				"deploy":            M{"replicas": 1, "resources": M{"limits": M{"cpus": "0.5", "memory": "10M"}, "reservations": M{"devices": L{M{"capabilities": L{"gpu"}, "count": 1}}}}},
				"ulimits":           M{"nofile": M{"soft": 1, "hard": 2}, "nproc": 3},
				"secrets":           L{"a"},
				"configs":           L{M{"source": "a", "target": "/c"}},
				"extra_hosts":       L{"h:1.2.3.4"},
				"dns":               L{"1.1.1.1"},
				"cap_add":           L{"ALL"},
				"sysctls":           M{"net.core.somaxconn": 1},
				"tmpfs":             "/run",
				"devices":           L{"/dev/null:/dev/null"},
				"blkio_config":      M{"weight": 10, "device_read_bps": L{M{"path": "/dev/null", "rate": "1mb"}}},
				"develop":           M{"watch": L{M{"path": ".", "action": "rebuild"}}},
				"annotations":       M{"k": "v"},
				"pid":               "host",
				"mem_limit":         "10m",
				"stop_grace_period": "1s",
				"x-ext":             M{"k": L{1, 2}},
			},
			"b": M{"image": "busybox", "network_mode": "none"},
		},
		"networks": M{"a": M{"driver": "bridge", "ipam": M{"config": L{M{"subnet": "10.0.0.0/24"}}}, "labels": M{"l": "v"}}},
		"volumes":  M{"a": M{"driver_opts": M{"o": 1}}},
		"secrets":  M{"a": M{"environment": "S"}},
		"configs":  M{"a": M{"content": "x"}},
		"x-top":    M{"k": "v"},
	}
}

var c01Deliveries = []string{"", "content", "config", "config-shared"}

// c01DrawDelivery: most cases by file name (the historical default), one in five through one of the other doors
func c01DrawDelivery(ctx *core.Ctx) string {
	if ctx.Rng.Intn(5) != 0 {
		return ""
	}
	d := c01Deliveries[1+ctx.Rng.Intn(len(c01Deliveries)-1)]
	ctx.Count("delivery-" + d)
	return d
}

var c01OptionNames = []string{"skip_validation", "skip_interpolation", "skip_normalization", "no_resolve_paths", "skip_consistency_check",
	"skip_extends", "skip_include", "skip_resolve_environment", "skip_default_values", "discard_env_files"}

func applyOptionBits(r *core.LoadReq, bits int) {
	r.SkipValidation = bits&1 != 0
	r.SkipInterpolation = bits&2 != 0
	r.SkipNormalization = bits&4 != 0
	r.NoResolvePaths = bits&8 != 0
	r.SkipConsistencyCheck = bits&16 != 0
	r.SkipExtends = bits&32 != 0
	r.SkipInclude = bits&64 != 0
	r.SkipResolveEnvironment = bits&128 != 0
	r.SkipDefaultValues = bits&256 != 0
	r.DiscardEnvFiles = bits&512 != 0
}

// positions in which a (possibly malformed) document D = place(path, value) is loaded
var c01Positions = []string{"single", "override", "base", "extends-same", "extends-file", "extending", "include"}

// positioned returns the load request that puts doc in the given position (nil when the position does not apply).
func c01Positioned(pos string, doc M, rich M) *core.LoadReq {
	req := &core.LoadReq{ProjectName: "p", Env: map[string]string{"S": "secret"}}
	switch pos {
	case "single":
		req.Files = map[string]string{"compose.yml": toYAML(doc)}
		req.ConfigFiles = []string{"compose.yml"}
	case "override": // malformed override of a valid base
		req.Files = map[string]string{"compose.yml": toYAML(rich), "over.yml": toYAML(doc)}
		req.ConfigFiles = []string{"compose.yml", "over.yml"}
	case "base": // valid override of a malformed base
		req.Files = map[string]string{"compose.yml": toYAML(doc), "over.yml": toYAML(rich)}
		req.ConfigFiles = []string{"compose.yml", "over.yml"}
	case "extends-same", "extends-file", "extending":
		svcs, ok := doc["services"].(M)
		if !ok {
			return nil
		}
		svc, has := svcs["a"]
		if !has {
			return nil
		}
		switch pos {
		case "extends-same": // the malformed service is the base of an extends in the same file
			req.Files = map[string]string{"compose.yml": toYAML(M{"services": M{"base": svc, "c": M{"extends": "base", "command": "x"}}})}
		case "extends-file": // … in another file
			req.Files = map[string]string{
				"compose.yml":   toYAML(M{"services": M{"c": M{"extends": M{"file": "sub/other.yml", "service": "a"}, "labels": M{"k": "v"}}}}),
				"sub/other.yml": toYAML(doc)}
		case "extending": // the malformed service extends a valid rich base
			m, ok := svc.(M)
			if !ok {
				return nil
			}
			ext := M{}
			for k, v := range m {
				ext[k] = v
			}
			if _, has := ext["extends"]; !has {
				ext["extends"] = M{"file": "rich.yml", "service": "a"}
			}
			req.Files = map[string]string{"compose.yml": toYAML(M{"services": M{"a": ext}}), "rich.yml": toYAML(M{"services": rich["services"]})}
		}
		req.ConfigFiles = []string{"compose.yml"}
	case "include":
		req.Files = map[string]string{"compose.yml": toYAML(M{"include": L{"inc/inc.yml"}, "services": M{"main": M{"image": "busybox"}}}), "inc/inc.yml": toYAML(doc)}
		req.ConfigFiles = []string{"compose.yml"}
	}
	return req
}

// ---------------------------------------------------------------- generator

func runC01(ctx *core.Ctx) {
	sch, err := loadC01Schema(ctx.RepoDir)
	if err != nil {
		panic(err)
	}
	rich := c01Rich()

	// 0. the valid base set must load (sanity of the generators), in all three entry points
	for _, mode := range []string{"", "model", "cli"} {
		for _, pos := range []string{"single", "override", "include"} {
			if req := c01Positioned(pos, rich, rich); req != nil {
				ctx.Count("valid-base")
				ctx.Add("c01load", c01Args{Req: *req, Mode: mode, Shape: "valid/" + pos, Expect: "ok"})
			}
		}
	}

	for _, del := range c01Deliveries[1:] {
		for _, pos := range []string{"single", "override", "include", "extending"} {
			for _, bits := range []int{0, 1, 1 | 4 | 16} {
				if req := c01Positioned(pos, rich, rich); req != nil {
					applyOptionBits(req, bits)
					exp := ""
					if del != "config-shared" && pos != "extending" {
						exp = "ok" // (the extending position leaves the top-level resources of the rich document behind)
					}
					ctx.Count("delivery-" + del)
					ctx.Add("c01load", c01Args{Req: *req, Delivery: del, Shape: "valid-" + del + "/" + pos, Expect: exp})
				}
			}
		}
	}

	only := os.Getenv("VERIF_C01_ONLY") // development aid: run one family of streams
	if only == "" || only == "oracle" || only == "conc" {
		// several loads overlapping in one fresh process (c01_conc.go); early, because a process-wide defect found here
		// explains crashes everywhere else
		c01Concurrent(ctx)
		ctx.Wait()
	}
	if only == "" || only == "oracle" {
		// the named reference-cycle inputs first: if a cycle stops being detected, the replay should be a compose
		// file, and the engine stops feeding cases after a storm of crashes
		c01Cycles(ctx)
		ctx.Wait() // inputs that may not return stay in small batches of their own
	}
	if only == "" || only == "models" {
		c01ResetStream(ctx)
		ctx.Wait()
		c01Models(ctx) // stage-level correspondence (c01_models.go)
		c01UnicityLoop(ctx) // the seq / keys loop of enforceUnicity (c01_unicity.go)
		c01Pipe(ctx, sch, rich) // the composed stage models vs LoadModelWithContext (c01_pipe.go)
		c01Files(ctx)           // env_file / label_file resolution on a faulty disk (c01_files.go)
		c01FilesProject(ctx)    // … over all services of a project, any visit order (c01_files_project.go)
		c01PipeFS(ctx)          // the composed pipeline with cross-file extends vs LoadModelWithContext (c01_pipefs.go)
	}
	if only == "" || only == "schema" {
		schemacorr.Run(ctx) // gojsonschema vs Schema.conforms (harness/schema.go): the tie behind Props/C01Schema.lean
	}
	if only == "repeat" {
		c01Repeats(ctx)
	}
	if only == "kinds" {
		c01Kinds(ctx, sch, rich)
	}
	if only == "files" {
		c01Files(ctx)
		c01FilesProject(ctx)
	}
	if only == "pipefs" {
		c01PipeFS(ctx)
	}
	if only == "twice" {
		c01Twice(ctx)
	}
	if only == "unreadable" {
		c01Unreadable(ctx)
	}
	if only == "names" {
		c01Names(ctx, rich)
	}
	if only == "pipe" {
		c01Pipe(ctx, sch, rich)
	}
	if only == "seqified" {
		c01Seqified(ctx, sch, rich)
	}
	if only == "" || only == "oracle" {
		c01Repeats(ctx) // every list of the valid catalogue with repeated elements in every arrangement (c01_repeat.go)
		c01Valid(ctx)   // combinations of valid attribute spellings (c01_valid.go)
		c01Tags(ctx, rich)
		c01Names(ctx, rich)
		c01Missing(ctx)
		c01Twice(ctx) // one referenced file, several references: spellings × required flags × services (c01_twice.go)
		c01Unreadable(ctx)
		c01Kinds(ctx, sch, rich)
		c01Seqified(ctx, sch, rich) // a mapping on the way replaced by the list of its values (c01_seqified.go)
		c01OptionLattice(ctx, sch, rich)
		c01Bytes(ctx, rich)
	}
}

// the node kinds of the property with every representative value the shared KindValue can draw
var c01KindValues = []struct {
	kind string
	vals []any
}{
	{"null", []any{nil}},
	{"bool", []any{true, false}},
	{"int", []any{0, 1, -1, 42, 65536}},
	{"float", []any{0.5, 1.5, -2.25}},
	{"string", []any{"", "x", "a=b", "1", "true", "./p", "a:b:c", "${V}"}},
	{"emptyList", []any{L{}}},
	{"list", []any{L{"a", "b=c", 1}}},
	{"listOfMaps", []any{L{M{"k": "v"}, M{"target": "/t", "source": "s"}}}},
	{"emptyMap", []any{M{}}},
	{"map", []any{M{"k": "v", "n": 1}}},
}

// option sets tried systematically on every (path, kind, position): default, no schema validation,
// and no schema validation with the late stages switched off one by one (so that each stage sees unvalidated input)
// (+ interpolation skipped, alone and together with validation: uncast strings reach the typed stages —
// the `external: "true"` panic of validation.checkExternal was only reachable that way and was missed in round 1)
var c01OptionSets = []int{0, 1, 1 | 4 | 16, 1 | 32 | 64 | 256, 2, 1 | 2}

// c01MergeDocs: union of two placed documents (mappings merged key by key, lists element by element, b wins on leaves)
func c01MergeDocs(a, b any) any {
	switch x := a.(type) {
	case M:
		y, ok := b.(M)
		if !ok {
			return b
		}
		o := M{}
		for k, v := range x {
			o[k] = v
		}
		for k, v := range y {
			if old, has := o[k]; has {
				o[k] = c01MergeDocs(old, v)
			} else {
				o[k] = v
			}
		}
		return o
	case L:
		y, ok := b.(L)
		if !ok || len(y) != len(x) {
			return b
		}
		o := make(L, len(x))
		for i := range x {
			o[i] = c01MergeDocs(x[i], y[i])
		}
		return o
	}
	return b
}

// (attribute path × node kind × position)
func c01Kinds(ctx *core.Ctx, sch *c01Schema, rich M) {
	paths := sch.paths(9)
	ctx.Note("schema attribute paths enumerated: %d", len(paths))
	full := ctx.Thorough()
	add := func(p c01Path, kind string, v any, pos string, bits int) {
		doc := sch.place(p, v)
		req := c01Positioned(pos, doc, rich)
		if req == nil {
			return
		}
		applyOptionBits(req, bits)
		mode := ""
		switch ctx.Rng.Intn(12) {
		case 0:
			mode = "model"
		case 1:
			mode = "cli"
		}
		ctx.Count("kind-" + kind)
		ctx.Count("pos-" + pos)
		ctx.Count(fmt.Sprintf("optset-%d", bits))
		ctx.Add("c01load", c01Args{Req: *req, Mode: mode, Delivery: c01DrawDelivery(ctx), Shape: "kind/" + pos + "/" + p.String() + "/" + kind})
	}
	// related paths: the attribute's parent holds other attributes, and the stages compare / combine siblings (`name` with
	// `external.name`, `mem_limit` with `deploy.resources.limits.memory`, …).  One value at one path never gives two
	// siblings the same (odd) kind: place the same value at the path AND at a path that shares its parent or grandparent.
	byParent := map[string][]c01Path{}
	parentOf := func(p c01Path, up int) string {
		if len(p.Steps) <= up {
			return ""
		}
		return c01Path{Steps: p.Steps[:len(p.Steps)-up]}.String() + "|"
	}
	for _, p := range paths {
		byParent[parentOf(p, 1)] = append(byParent[parentOf(p, 1)], p)
	}
	for _, p := range paths {
		for _, kv := range c01KindValues {
			if !full && ctx.Rng.Intn(4) != 0 {
				continue
			}
			var cands []c01Path
			cands = append(cands, byParent[parentOf(p, 1)]...)
			if len(p.Steps) >= 2 {
				cands = append(cands, byParent[parentOf(p, 2)]...) // uncles: `x.name` next to `x.external.name`
			}
			if len(cands) < 2 {
				continue
			}
			q := cands[ctx.Rng.Intn(len(cands))]
			if q.String() == p.String() {
				continue
			}
			v := kv.vals[ctx.Rng.Intn(len(kv.vals))]
			doc, ok := c01MergeDocs(sch.place(p, v), sch.place(q, c01DeepCopy(v))).(M)
			if !ok {
				continue
			}
			pos := c01Positions[ctx.Rng.Intn(len(c01Positions))]
			req := c01Positioned(pos, doc, rich)
			if req == nil {
				continue
			}
			bits := c01OptionSets[ctx.Rng.Intn(len(c01OptionSets))]
			applyOptionBits(req, bits)
			ctx.Count("kind2-" + kv.kind)
			ctx.Add("c01load", c01Args{Req: *req, Delivery: c01DrawDelivery(ctx), Shape: "kind2/" + pos + "/" + p.String() + "+" + q.String() + "/" + kv.kind})
		}
	}
	for _, p := range paths {
		for _, kv := range c01KindValues {
			for pi, pos := range c01Positions {
				if full {
					// thorough: the whole product; every value variant and option set in the single position
					vals := kv.vals
					sets := c01OptionSets
					if pi >= 1 {
						vals = []any{kv.vals[ctx.Rng.Intn(len(kv.vals))]}
						sets = c01OptionSets[:2]
					}
					for _, v := range vals {
						for _, bits := range sets {
							add(p, kv.kind, v, pos, bits)
						}
					}
					continue
				}
				// quick: every path × kind about once (position and option set drawn at random)
				if ctx.Rng.Intn(len(c01Positions)) != 0 {
					continue
				}
				bits := c01OptionSets[ctx.Rng.Intn(len(c01OptionSets))]
				if ctx.Rng.Intn(8) == 0 {
					bits = ctx.Rng.Intn(1024)
				}
				add(p, kv.kind, kv.vals[ctx.Rng.Intn(len(kv.vals))], pos, bits)
			}
		}
	}
	if full {
		ctx.Res.Exhaustive = true
	}
}

// every combination of the Skip*/Resolve* options × a small set of documents
func c01OptionLattice(ctx *core.Ctx, sch *c01Schema, rich M) {
	type doc struct {
		name string
		req  *core.LoadReq
	}
	docs := []doc{
		{"rich", c01Positioned("single", rich, rich)},
		{"rich-extending", c01Positioned("extending", rich, rich)},
		{"rich-include", c01Positioned("include", rich, rich)},
		{"null-pid", c01Positioned("single", M{"services": M{"a": M{"image": "i", "pid": nil}}}, rich)},
		{"extends-no-service", c01Positioned("single", M{"services": M{"a": M{"image": "i", "extends": M{"file": "x.yml"}}}}, rich)},
		{"override-logging-string", c01Positioned("override", M{"services": M{"a": M{"logging": "x"}}}, rich)},
		{"services-list", c01Positioned("single", M{"services": L{"a"}}, rich)},
		{"dep-cycle", c01Positioned("single", M{"services": M{"a": M{"image": "i", "depends_on": L{"b"}}, "b": M{"image": "i", "depends_on": L{"a"}}}}, rich)},
		{"empty", c01Positioned("single", M{}, rich)},
	}
	step := 1
	if !ctx.Thorough() {
		step = 8
	}
	off := ctx.Rng.Intn(step)
	for _, d := range docs {
		for bits := off; bits < 1024; bits += step {
			r := *d.req
			applyOptionBits(&r, bits)
			ctx.Count("options-" + d.name)
			exp := ""
			if d.name == "rich" {
				exp = "ok"
			}
			ctx.Add("c01load", c01Args{Req: r, Shape: "options/" + d.name + "/" + fmt.Sprint(bits), Expect: exp})
		}
	}
}

// project name: unset / taken from the file / from COMPOSE_PROJECT_NAME / from the directory, valid or not — × the entry
// points × the options that decide where the name is looked at (normalisation and interpolation on or off).  Every other
// stream sets the name imperatively, so the "empty versus unset" branches of projectName() / load() were never entered.
func c01Names(ctx *core.Ctx, rich M) {
	inFile := []any{nil, "", "p", "UPPER", "-x", "a b", "${N}", "${UNSET}", 1, true, L{"p"}, M{"k": "v"}, 1.5}
	envs := []map[string]string{nil, {"COMPOSE_PROJECT_NAME": "envname"}, {"COMPOSE_PROJECT_NAME": ""}, {"COMPOSE_PROJECT_NAME": "Bad Name"}, {"N": "fromenv"}, {"N": ""}}
	dirs := []string{"", "proj", "UPPER Dir", "-", "..."}
	for i, nm := range inFile {
		for _, env := range envs {
			for _, dir := range dirs {
				for _, bits := range []int{0, 1, 2, 4, 1 | 2 | 4} {
					if !ctx.Thorough() && ctx.Rng.Intn(4) != 0 {
						continue
					}
					doc := M{"services": M{"a": M{"image": "busybox"}}}
					if i > 0 {
						doc["name"] = nm
					}
					file := "compose.yml"
					if dir != "" {
						file = dir + "/compose.yml"
					}
					req := core.LoadReq{Files: map[string]string{file: toYAML(doc)}, ConfigFiles: []string{file}, WorkingDir: dir, Env: env}
					applyOptionBits(&req, bits)
					mode := []string{"", "model", "cli"}[ctx.Rng.Intn(3)]
					ctx.Count("name-unset-imperative")
					ctx.Add("c01load", c01Args{Req: req, Mode: mode, Shape: fmt.Sprintf("name/%d/%s", i, modeName(mode))})
				}
			}
		}
	}
}

// ---------------------------------------------------------------- reference cycles

func c01Cycles(ctx *core.Ctx) {
	type cyc struct {
		name, kind string
		files      map[string]string
		configs    []string
	}
	one := func(s string) map[string]string { return map[string]string{"compose.yml": s} }
	cases := []cyc{
		// YAML aliases
		{"alias-self-map", "alias", one("services:\n  a: &x\n    image: i\n    labels:\n      l: *x\n"), nil},
		{"alias-self-seq", "alias", one("services:\n  a:\n    image: i\n    command: &x [a, *x]\n"), nil},
		{"alias-self-ext", "alias", one("x-a: &x\n  k: *x\nservices:\n  a:\n    image: i\n"), nil},
		{"alias-self-deep", "alias", one("x-a: &x\n  k:\n    l:\n      - m: *x\nservices:\n  a:\n    image: i\n"), nil},
		{"alias-self-merge", "alias", one("services:\n  a: &x\n    image: i\n    <<: *x\n"), nil},
		{"alias-self-merge-ext", "alias", one("x-a: &x\n  k: v\n  <<: *x\nservices:\n  a:\n    image: i\n"), nil},
		{"alias-self-merge-list", "alias", one("x-a: &x\n  k: v\n  <<: [*x]\nservices:\n  a:\n    image: i\n"), nil},
		{"alias-self-under-merge", "alias", one("x-a: &x\n  <<:\n    k: *x\nservices:\n  a:\n    image: i\n"), nil},
		{"alias-override-cycle", "alias", one("x-a: &a !override\n  b: &b\n    k: *a\nx-c: *b\nservices:\n  s:\n    image: i\n"), nil},
		{"alias-cross-services", "alias", one("services:\n  a: &x\n    image: i\n    labels:\n      l: v\n  b:\n    image: i\n    labels: &y\n      m: *y\n"), nil},
		// extends
		{"extends-self", "extends", one("services:\n  a:\n    image: i\n    extends: a\n"), nil},
		{"extends-2", "extends", one("services:\n  a:\n    extends: b\n  b:\n    extends: a\n"), nil},
		{"extends-3", "extends", one("services:\n  a:\n    extends: b\n  b:\n    extends:\n      service: c\n  c:\n    extends: a\n"), nil},
		{"extends-file-self", "extends", one("services:\n  a:\n    extends:\n      file: compose.yml\n      service: a\n"), nil},
		{"extends-cross-file", "extends", map[string]string{
			"compose.yml": "services:\n  a:\n    extends:\n      file: o.yml\n      service: b\n",
			"o.yml":       "services:\n  b:\n    extends:\n      file: compose.yml\n      service: a\n"}, nil},
		{"extends-cross-file-3", "extends", map[string]string{
			"compose.yml": "services:\n  a:\n    extends:\n      file: o.yml\n      service: b\n  c:\n    extends: a\n",
			"o.yml":       "services:\n  b:\n    extends: d\n  d:\n    extends:\n      file: compose.yml\n      service: c\n"}, nil},
		// include
		{"include-self", "include", one("include:\n  - compose.yml\nservices:\n  a:\n    image: i\n"), nil},
		{"include-2", "include", map[string]string{
			"compose.yml": "include:\n  - b.yml\nservices:\n  a:\n    image: i\n",
			"b.yml":       "include:\n  - compose.yml\nservices:\n  b:\n    image: i\n"}, nil},
		{"include-3-long", "include", map[string]string{
			"compose.yml": "include:\n  - path: sub/b.yml\nservices:\n  a:\n    image: i\n",
			"sub/b.yml":   "include:\n  - path: [c.yml]\nservices:\n  b:\n    image: i\n",
			"sub/c.yml":   "include:\n  - ../compose.yml\nservices:\n  c:\n    image: i\n"}, nil},
		{"include-override-position", "include", map[string]string{
			"compose.yml": "include:\n  - path: [b.yml, compose.yml]\nservices:\n  a:\n    image: i\n",
			"b.yml":       "services:\n  b:\n    image: i\n"}, nil},
		{"include-override-position-2", "include", map[string]string{
			"compose.yml": "include:\n  - path: [b.yml, c.yml]\nservices:\n  a:\n    image: i\n",
			"b.yml":       "services:\n  b:\n    image: i\n",
			"c.yml":       "include:\n  - compose.yml\nservices:\n  c:\n    image: i\n"}, nil},
		{"include-second-config", "include", map[string]string{
			"compose.yml": "services:\n  a:\n    image: i\n",
			"over.yml":    "include:\n  - over.yml\nservices:\n  a:\n    image: j\n"}, []string{"compose.yml", "over.yml"}},
		// depends_on
		{"depends-self", "depends_on", one("services:\n  a:\n    image: i\n    depends_on: [a]\n"), nil},
		{"depends-2", "depends_on", one("services:\n  a:\n    image: i\n    depends_on: [b]\n  b:\n    image: i\n    depends_on:\n      a:\n        condition: service_started\n"), nil},
		{"depends-3", "depends_on", one("services:\n  a:\n    image: i\n    depends_on: [b]\n  b:\n    image: i\n    depends_on: [c]\n  c:\n    image: i\n    depends_on: [a]\n  d:\n    image: i\n"), nil},
		// a cycle with a tail: the start vertex of the search (names are tried in order) is not on the cycle
		{"depends-lasso", "depends_on", one("services:\n  app:\n    image: i\n    depends_on: [db]\n  db:\n    image: i\n    depends_on: [cache]\n  cache:\n    image: i\n    depends_on: [db]\n"), nil},
		{"depends-lasso-long", "depends_on", one("services:\n  a:\n    image: i\n    depends_on: [b]\n  b:\n    image: i\n    depends_on: [x]\n  x:\n    image: i\n    depends_on: [y]\n  y:\n    image: i\n    depends_on: [z]\n  z:\n    image: i\n    depends_on: [x]\n"), nil},
		{"depends-lasso-implicit", "depends_on", one("services:\n  a:\n    image: i\n    links: [m]\n  m:\n    image: i\n    network_mode: service:n\n  n:\n    image: i\n    volumes_from: [m]\n"), nil},
		{"depends-optional-2", "depends_on", one("services:\n  a:\n    image: i\n    depends_on:\n      b: {condition: service_started, required: false}\n  b:\n    image: i\n    depends_on: [a]\n"), nil},
		{"depends-across-files", "depends_on", map[string]string{
			"compose.yml": "services:\n  a:\n    image: i\n    depends_on: [b]\n  b:\n    image: i\n",
			"over.yml":    "services:\n  b:\n    depends_on: [a]\n"}, []string{"compose.yml", "over.yml"}},
		{"depends-through-extends", "depends_on", one("services:\n  base:\n    image: i\n    depends_on: [a]\n  a:\n    extends: base\n"), nil},
	}
	for _, c := range cases {
		cfg := c.configs
		if cfg == nil {
			cfg = []string{"compose.yml"}
		}
		for _, mode := range []string{"", "model", "cli"} {
			if mode == "model" && c.kind == "depends_on" {
				continue // the dependency graph only exists once the model is bound to a project
			}
			ctx.Count("cycle-" + c.kind)
			ctx.Add("c01cycle", c01Args{Req: core.LoadReq{Files: c.files, ConfigFiles: cfg, ProjectName: "p"}, Mode: mode,
				Shape: "cycle/" + c.name, Expect: "cycle:" + c.kind})
		}
	}
	// generated families: rings of n services / files, reached through a tail of t more (a "lasso": the place where
	// the walk starts is not on the cycle; tail names sort before and after the ring's)
	for n := 1; n <= ctx.Pick(4, 7); n++ {
		for t := 0; t <= ctx.Pick(2, 3); t++ {
			for _, tailPrefix := range []string{"a", "z"} {
				if t == 0 && tailPrefix == "z" {
					continue
				}
				if n == 1 && t == 0 {
					continue // the self references are in the hand-written list
				}
				var ext, dep strings.Builder
				ext.WriteString("services:\n")
				dep.WriteString("services:\n")
				files := map[string]string{}
				// chain: tail_0 → … → tail_{t-1} → s0 → s1 → … → s_{n-1} → s0
				var chain []string
				for k := 0; k < t; k++ {
					chain = append(chain, fmt.Sprintf("%s%d", tailPrefix, k))
				}
				for k := 0; k < n; k++ {
					chain = append(chain, fmt.Sprintf("s%d", k))
				}
				fileOf := func(k int) string {
					if k == 0 {
						return "compose.yml"
					}
					return chain[k] + ".yml"
				}
				for k, name := range chain {
					next := k + 1
					if next == len(chain) {
						next = t // back to s0
					}
					fmt.Fprintf(&ext, "  %s:\n    image: i\n    extends: %s\n", name, chain[next])
					fmt.Fprintf(&dep, "  %s:\n    image: i\n    depends_on: [%s]\n", name, chain[next])
					files[fileOf(k)] = fmt.Sprintf("include:\n  - %s\nservices:\n  %s:\n    image: i\n", fileOf(next), name)
				}
				shape := fmt.Sprintf("ring-%d-tail-%s%d", n, tailPrefix, t)
				ctx.Count("cycle-extends")
				ctx.Add("c01cycle", c01Args{Req: core.LoadReq{Files: one(ext.String()), ConfigFiles: []string{"compose.yml"}, ProjectName: "p"}, Shape: "cycle/extends-" + shape, Expect: "cycle:extends"})
				ctx.Count("cycle-depends_on")
				ctx.Add("c01cycle", c01Args{Req: core.LoadReq{Files: one(dep.String()), ConfigFiles: []string{"compose.yml"}, ProjectName: "p"}, Shape: "cycle/depends-" + shape, Expect: "cycle:depends_on"})
				ctx.Count("cycle-include")
				ctx.Add("c01cycle", c01Args{Req: core.LoadReq{Files: files, ConfigFiles: []string{"compose.yml"}, ProjectName: "p"}, Shape: "cycle/include-" + shape, Expect: "cycle:include"})
			}
		}
	}
}

// ---------------------------------------------------------------- !reset / !override tags and merge keys in odd places

func c01Tags(ctx *core.Ctx, rich M) {
	docs := []string{
		"!reset\nservices:\n  a:\n    image: i\n",
		"--- !reset {}\n",
		"!reset x\n",
		"!override\nservices:\n  a:\n    image: i\n",
		"services: !reset\n  a:\n    image: i\n",
		"services: !reset null\n",
		"services:\n  a: !reset\n    image: i\n",
		"services:\n  a: !override\n    image: i\n",
		"services:\n  a:\n    image: !reset i\n",
		"services:\n  a:\n    image: i\n    command: [!reset a, b, !reset c]\n",
		"services:\n  a:\n    image: i\n    command: [!reset a]\n",
		"services:\n  a:\n    image: i\n    ports: !reset []\n    environment: !override {A: b}\n",
		"services:\n  a:\n    image: i\n    !reset environment: {A: b}\n",
		"x-a: &a !reset {k: v}\nservices:\n  a:\n    image: i\n    labels: *a\n",
		"x-a: &a {k: !reset v}\nservices:\n  a:\n    image: i\n    labels: *a\n    annotations: *a\n",
		"x-a: &a {k: v}\nservices:\n  a:\n    image: i\n    labels:\n      <<: *a\n      <<: *a\n",
		"x-a: &a {k: v}\nservices:\n  a:\n    image: i\n    labels:\n      <<: [*a, *a, {l: !reset w}]\n",
		"x-a: &a [1, 2]\nservices:\n  a:\n    image: i\n    labels:\n      <<: *a\n",
		"services:\n  a:\n    image: i\n    labels:\n      <<: 3\n",
		"services:\n  a:\n    image: i\n    <<: {command: x}\n  <<: {b: {image: j}}\n<<: {volumes: {v: {}}}\n",
		"services:\n  a:\n    image: i\n    labels: *nope\n",
		"services:\n  a: &x\n    image: i\n  b: *x\n  c:\n    <<: *x\n    extends: b\n",
		"? [a, b]\n: c\nservices:\n  a:\n    image: i\n",
		"services:\n  a:\n    image: i\n    ? {k: v}\n    : c\n",
		"services:\n  a:\n    image: i\n    labels:\n      1: a\n      true: b\n      ~: c\n      1.5: d\n",
		"1: 2\n",
		"- a\n- b\n",
		"just a string\n",
		"",
		"---\n---\n",
		"services:\n  a:\n    image: i\n---\nservices:\n  a: !reset null\n---\n!reset\n",
		"services:\n  a:\n    image: i\n    command: !!binary aGVsbG8=\n    container_name: !!int \"12\"\n    hostname: !!str 5\n    mem_limit: !!float 1\n",
		"services:\n  a:\n    image: i\n    labels: !!set {a, b}\n    environment: !!omap [a: 1]\n    cap_add: !!seq {}\n",
	}
	for i, d := range docs {
		for _, pos := range []string{"single", "override", "base"} {
			req := core.LoadReq{Files: map[string]string{"compose.yml": d}, ConfigFiles: []string{"compose.yml"}, ProjectName: "p", Env: map[string]string{"S": "s"}}
			switch pos {
			case "override":
				req.Files["base.yml"] = toYAML(rich)
				req.ConfigFiles = []string{"base.yml", "compose.yml"}
			case "base":
				req.Files["over.yml"] = toYAML(rich)
				req.ConfigFiles = []string{"compose.yml", "over.yml"}
			}
			for _, bits := range []int{0, 1} {
				applyOptionBits(&req, bits)
				ctx.Count("tags")
				ctx.Add("c01load", c01Args{Req: req, Shape: fmt.Sprintf("tags/%s/%d", pos, i)})
			}
		}
	}
}

// ---------------------------------------------------------------- missing referenced files

func c01Missing(ctx *core.Ctx) {
	all := map[string]string{
		"compose.yml": "include:\n  - path: inc/inc.yml\n    env_file: inc/inc.env\nservices:\n  a:\n    extends:\n      file: base/base.yml\n      service: base\n" +
			"    env_file:\n      - a.env\n      - path: opt.env\n        required: false\n    label_file:\n      - a.labels\n",
		"over.yml":      "services:\n  a:\n    environment:\n      X: y\n",
		"base/base.yml": "services:\n  base:\n    image: busybox\n",
		"inc/inc.yml":   "services:\n  inc:\n    image: busybox\n",
		"inc/inc.env":   "I=1\n",
		"a.env":         "A=1\n",
		"opt.env":       "O=1\n",
		"a.labels":      "l=v\n",
		"proj.env":      "P=1\n",
	}
	kindOf := map[string]string{"compose.yml": "compose", "over.yml": "compose", "base/base.yml": "extends", "inc/inc.yml": "include",
		"inc/inc.env": "include-env_file", "a.env": "env_file", "a.labels": "label_file", "proj.env": "dotenv", "opt.env": "optional-env_file"}
	names := make([]string, 0, len(all))
	for n := range all {
		names = append(names, n)
	}
	sort.Strings(names)
	for _, mode := range []string{"", "cli", "model"} {
		for mask := 0; mask < 1<<len(names); mask++ {
			files := map[string]string{}
			var gone []string
			kinds := map[string]bool{}
			for i, n := range names {
				if mask&(1<<i) != 0 {
					referenced := true
					switch {
					case n == "proj.env" && mode != "cli":
						referenced = false // only the cli entry point is given an explicit env file
					case n == "opt.env":
						referenced = false // optional: absence must be tolerated
					case mode == "model" && (n == "a.env" || n == "a.labels"):
						referenced = false // service env/label files are read when the model is bound to a project
					}
					if referenced {
						gone = append(gone, filepath.Base(n))
						kinds[kindOf[n]] = true
					}
					continue
				}
				files[n] = all[n]
			}
			exp := "ok"
			if len(gone) > 0 {
				var ks []string
				for k := range kinds {
					ks = append(ks, k)
				}
				sort.Strings(ks)
				exp = "missing:" + strings.Join(ks, "+") + ":" + strings.Join(gone, ",")
			}
			a := c01Args{Req: core.LoadReq{Files: files, ConfigFiles: []string{"compose.yml", "over.yml"}, ProjectName: "p"}, Mode: mode,
				Shape: fmt.Sprintf("missing/%s/%d", modeName(mode), mask), Expect: exp}
			if mode == "cli" {
				a.EnvFiles = []string{"proj.env"}
			}
			ctx.Count("missing-" + fmt.Sprint(len(gone)))
			ctx.Add("c01load", a)
		}
	}
	ctx.Note("missing-file stream: all %d subsets of %d referenced files × 3 entry points", 1<<len(names), len(names))
}

// unreadable rather than absent: a DIRECTORY where the referenced file should be (every referenced file, singly and in
// pairs; the optional env file included: it exists, so it is not excused), and a FILE where its parent directory should
// be (ENOTDIR: the loader's fileIsMissing counts that as absent).  Must be an error naming the path.
func c01Unreadable(ctx *core.Ctx) {
	all := map[string]string{
		"compose.yml": "include:\n  - path: inc/inc.yml\n    env_file: inc/inc.env\nservices:\n  a:\n    extends:\n      file: base/base.yml\n      service: base\n" +
			"    env_file:\n      - a.env\n      - path: opt.env\n        required: false\n    label_file:\n      - a.labels\n",
		"over.yml":      "services:\n  a:\n    environment:\n      X: y\n",
		"base/base.yml": "services:\n  base:\n    image: busybox\n",
		"inc/inc.yml":   "services:\n  inc:\n    image: busybox\n",
		"inc/inc.env":   "I=1\n",
		"a.env":         "A=1\n",
		"opt.env":       "O=1\n",
		"a.labels":      "l=v\n",
		"proj.env":      "P=1\n",
	}
	names := make([]string, 0, len(all))
	for n := range all {
		names = append(names, n)
	}
	sort.Strings(names)
	build := func(dirs []string, parentFile string) map[string]string {
		files := map[string]string{}
		for n, c := range all {
			files[n] = c
		}
		for _, d := range dirs {
			delete(files, d)
			files[d+"/.keep"] = ""
		}
		if parentFile != "" {
			for n := range files {
				if strings.HasPrefix(n, parentFile+"/") {
					delete(files, n)
				}
			}
			files[parentFile] = "not a directory\n"
		}
		return files
	}
	for _, mode := range []string{"", "cli", "model"} {
		relevant := func(n string) bool {
			switch {
			case n == "proj.env" && mode != "cli":
				return false
			case mode == "model" && (n == "a.env" || n == "a.labels" || n == "opt.env"):
				return false
			}
			return true
		}
		emit := func(files map[string]string, bad []string, what string) {
			var bases []string
			for _, b := range bad {
				if relevant(b) {
					bases = append(bases, filepath.Base(b))
				}
			}
			exp := "ok"
			if len(bases) > 0 {
				exp = "missing:unreadable-" + what + ":" + strings.Join(bases, ",")
			}
			a := c01Args{Req: core.LoadReq{Files: files, ConfigFiles: []string{"compose.yml", "over.yml"}, ProjectName: "p"}, Mode: mode,
				Shape: fmt.Sprintf("unreadable/%s/%s/%s", modeName(mode), what, strings.Join(bad, "+")), Expect: exp}
			if mode == "cli" {
				a.EnvFiles = []string{"proj.env"}
			}
			ctx.Count("unreadable-" + what)
			ctx.Add("c01load", a)
		}
		for i, n := range names {
			emit(build([]string{n}, ""), []string{n}, "dir")
			for _, m := range names[i+1:] {
				emit(build([]string{n, m}, ""), []string{n, m}, "dir")
			}
		}
		emit(build(nil, "inc"), []string{"inc/inc.yml", "inc/inc.env"}, "parent-is-file")
		emit(build(nil, "base"), []string{"base/base.yml"}, "parent-is-file")
	}
}

// ---------------------------------------------------------------- byte-level mutations

var c01Tokens = []string{"<<: *a", "&a ", "*a", "!reset ", "!override ", "!!binary ", "!!int ", "!!map ", "? ", "---\n", "...\n", "${X}", "${", "$$", "- ", ": ", "\t",
	"{", "}", "[", "]", ",", "'", "\"", "|", ">", "#", "%", "@", "`", "\x00", "\xff", "\xc3", "\r", "null", "~", "0x1F", "1e999", ".inf", "<<:", "extends: a\n", "include:\n"}

func c01Mutate(ctx *core.Ctx, s string) string {
	b := []byte(s)
	lines := func() [][]byte { return splitKeep(b) }
	for n := 1 + ctx.Rng.Intn(3); n > 0; n-- {
		if len(b) == 0 {
			b = []byte("a: 1\n")
		}
		switch ctx.Rng.Intn(9) {
		case 0: // delete a byte
			i := ctx.Rng.Intn(len(b))
			b = append(b[:i:i], b[i+1:]...)
		case 1: // replace a byte
			b[ctx.Rng.Intn(len(b))] = byte(ctx.Rng.Intn(256))
		case 2, 3: // insert a token
			i := ctx.Rng.Intn(len(b) + 1)
			t := c01Tokens[ctx.Rng.Intn(len(c01Tokens))]
			b = append(b[:i:i], append([]byte(t), b[i:]...)...)
		case 4: // duplicate a line
			ls := lines()
			i := ctx.Rng.Intn(len(ls))
			ls = append(ls[:i+1:i+1], append([][]byte{ls[i]}, ls[i+1:]...)...)
			b = joinLines(ls)
		case 5: // delete a line
			ls := lines()
			i := ctx.Rng.Intn(len(ls))
			ls = append(ls[:i:i], ls[i+1:]...)
			b = joinLines(ls)
		case 6: // swap two lines
			ls := lines()
			i, j := ctx.Rng.Intn(len(ls)), ctx.Rng.Intn(len(ls))
			ls[i], ls[j] = ls[j], ls[i]
			b = joinLines(ls)
		case 7: // truncate
			b = b[:ctx.Rng.Intn(len(b)+1)]
		case 8: // re-indent a line
			ls := lines()
			i := ctx.Rng.Intn(len(ls))
			if ctx.Rng.Intn(2) == 0 {
				ls[i] = append([]byte("  "), ls[i]...)
			} else if len(ls[i]) > 2 && ls[i][0] == ' ' {
				ls[i] = ls[i][1+ctx.Rng.Intn(2):]
			}
			b = joinLines(ls)
		}
	}
	return string(b)
}

func splitKeep(b []byte) [][]byte {
	var out [][]byte
	for len(b) > 0 {
		i := strings.IndexByte(string(b), '\n')
		if i < 0 {
			out = append(out, b)
			break
		}
		out = append(out, b[:i+1])
		b = b[i+1:]
	}
	if len(out) == 0 {
		out = [][]byte{{}}
	}
	return out
}

func joinLines(ls [][]byte) []byte {
	var b []byte
	for _, l := range ls {
		b = append(b, l...)
	}
	return b
}

func c01Bytes(ctx *core.Ctx, rich M) {
	var seeds []string
	// block-style rendering of the valid base set
	seeds = append(seeds, blockYAML(rich, 0), blockYAML(M{"services": M{"a": M{"image": "i", "extends": M{"service": "b"}}, "b": M{"image": "j", "environment": L{"A=1"}}},
		"x-anchors": M{"k": "v"}}, 0))
	seeds = append(seeds, "x-a: &a\n  k: v\nservices:\n  s:\n    image: i\n    labels:\n      <<: *a\n    environment: *a\n  t: &t\n    image: j\n    command: !override [x]\n    ports: !reset null\n")
	// the repository's own fixtures
	for _, dir := range []string{"loader/testdata", "loader/testdata/compose-include", "cli/testdata"} {
		ents, _ := os.ReadDir(filepath.Join(ctx.RepoDir, dir))
		for _, e := range ents {
			if strings.HasSuffix(e.Name(), ".yaml") || strings.HasSuffix(e.Name(), ".yml") {
				if b, err := os.ReadFile(filepath.Join(ctx.RepoDir, dir, e.Name())); err == nil && len(b) < 20000 {
					seeds = append(seeds, string(b))
				}
			}
		}
	}
	sort.Strings(seeds)
	ctx.Note("byte-mutation seeds: %d documents", len(seeds))
	for i := 0; i < ctx.Pick(3000, 40000); i++ {
		s := c01Mutate(ctx, seeds[ctx.Rng.Intn(len(seeds))])
		req := core.LoadReq{Files: map[string]string{"compose.yml": s}, ConfigFiles: []string{"compose.yml"}, ProjectName: "p"}
		if ctx.Rng.Intn(3) == 0 { // as an override of a valid base
			req.Files["base.yml"] = toYAML(rich)
			req.ConfigFiles = []string{"base.yml", "compose.yml"}
			req.Env = map[string]string{"S": "s"}
		}
		if ctx.Rng.Intn(6) == 0 {
			applyOptionBits(&req, ctx.Rng.Intn(1024))
		}
		ctx.Count("bytes")
		ctx.Add("c01load", c01Args{Req: req, Shape: "bytes"})
	}
}

// blockYAML renders a tree in block style (strings quoted as JSON, which YAML accepts).
func blockYAML(v any, indent int) string {
	pad := strings.Repeat("  ", indent)
	switch x := v.(type) {
	case M:
		if len(x) == 0 {
			return "{}\n"
		}
		var b strings.Builder
		b.WriteString("\n")
		for _, k := range sortedKeys(x) {
			b.WriteString(pad + k + ":")
			s := blockYAML(x[k], indent+1)
			if !strings.HasPrefix(s, "\n") {
				b.WriteString(" ")
			}
			b.WriteString(s)
		}
		if indent == 0 {
			return strings.TrimPrefix(b.String(), "\n")
		}
		return b.String()
	case L:
		if len(x) == 0 {
			return "[]\n"
		}
		var b strings.Builder
		b.WriteString("\n")
		for _, e := range x {
			s := blockYAML(e, indent+1)
			if strings.HasPrefix(s, "\n") {
				// nested container: put it on following lines under "-"
				b.WriteString(pad + "-" + strings.Replace(s, "\n"+pad+"  ", " ", 1))
			} else {
				b.WriteString(pad + "- " + s)
			}
		}
		return b.String()
	default:
		j, _ := json.Marshal(x)
		return string(j) + "\n"
	}
}
