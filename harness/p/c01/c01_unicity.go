package c01

// C01 — stage-level correspondence for the `seq` / `keys` loop of override.enforceUnicity (Model/C01Unicity.lean):
//
//	c01unicityLoop   override.EnforceUnicity on {services: {a: {<attr>: [K=v …]}}}   vs   C01.Uniq.run
//
// The model keeps the recorded indices and has a `panic` outcome for `seq[j] = entry` out of range; the theorem
// `unicityLoop_never_panics` says the outcome is unreachable.  A panic of the real function is a violation of C01 with
// the list as failing input; a different resulting list is a disagreement.
// Inputs: every list over {A=1, A=2, B=1, B=2, C} of length ≤ 4 (781), random lists of length ≤ 10 over ≤ 4 keys;
// the attribute drawn from the rows of the `unique` table that use keyValueIndexer.

import (
	"encoding/json"
	"fmt"

	"github.com/compose-spec/compose-go/v2/override"

	"verifharness/core"
)

type uniqArgs struct {
	Attr    []string `json:"attr"` // path below services.a
	Entries []string `json:"entries"`
}

var c01KeyValueAttrs = [][]string{{"environment"}, {"labels"}, {"annotations"}, {"build", "args"}, {"cap_add"}, {"dns"}, {"sysctls"}, {"tmpfs"},
	{"deploy", "labels"}, {"networks", "n", "aliases"}, {"profiles"}, {"links"}}

func init() {
	core.Register("c01unicityLoop", &core.CheckDef{
		Real: func(raw json.RawMessage) any {
			var a uniqArgs
			json.Unmarshal(raw, &a)
			list := make([]any, len(a.Entries))
			for i, e := range a.Entries {
				list[i] = e
			}
			var node any = list
			for i := len(a.Attr) - 1; i >= 0; i-- {
				node = map[string]any{a.Attr[i]: node}
			}
			out, err := override.EnforceUnicity(map[string]any{"services": map[string]any{"a": node}})
			if err != nil {
				return map[string]any{"err": err.Error()}
			}
			var cur any = out["services"].(map[string]any)["a"]
			for _, k := range a.Attr {
				cur = cur.(map[string]any)[k]
			}
			res := []string{}
			for _, e := range cur.([]any) {
				res = append(res, fmt.Sprint(e))
			}
			return map[string]any{"ok": res}
		},
		DriverOp: "c01unicityLoop", Judge: crashOr("Uniq.run ≠ enforceUnicity (seq / keys loop)"),
	})
}

func c01UnicityLoop(ctx *core.Ctx) {
	alpha := []string{"A=1", "A=2", "B=1", "B=2", "C"}
	add := func(entries []string) {
		seen := map[string]int{}
		repl := 0
		for _, e := range entries {
			k := e
			for i := 0; i < len(e); i++ {
				if e[i] == '=' {
					k = e[:i]
					break
				}
			}
			if seen[k]++; seen[k] > 1 {
				repl++
			}
		}
		multi := 0
		for _, c := range seen {
			if c > 1 {
				multi++
			}
		}
		switch {
		case len(entries) == 0:
			ctx.Count("uniq-empty")
		case repl == 0:
			ctx.Count("uniq-append-only")
		case multi == 1:
			ctx.Count("uniq-one-key-replaced")
		default:
			ctx.Count("uniq-several-keys-replaced")
		}
		ctx.Add("c01unicityLoop", uniqArgs{Attr: c01KeyValueAttrs[ctx.Rng.Intn(len(c01KeyValueAttrs))], Entries: entries})
	}
	var rec func(cur []string, n int)
	rec = func(cur []string, n int) {
		add(append([]string{}, cur...))
		if n == 0 {
			return
		}
		for _, x := range alpha {
			rec(append(cur, x), n-1)
		}
	}
	rec(nil, 4)
	for n := 0; n < ctx.Pick(300, 20000); n++ {
		l := 5 + ctx.Rng.Intn(6)
		nk := 1 + ctx.Rng.Intn(4)
		es := make([]string, l)
		for i := range es {
			k := string(rune('A' + ctx.Rng.Intn(nk)))
			switch ctx.Rng.Intn(4) {
			case 0:
				es[i] = k
			case 1:
				es[i] = k + "="
			default:
				es[i] = fmt.Sprintf("%s=%d", k, ctx.Rng.Intn(3))
			}
		}
		add(es)
	}
}
