package c01

// C01 — whole-load oracle, stream (c''): ONE referenced file, SEVERAL references (round 6).
//
// The missing-file streams (c), (c') name every referenced file exactly once.  Real projects share their files: two
// services list the same env file, a service lists it under two spellings (`./a.env`, `a.env`: both survive the
// unicity-by-path pass and resolve to one absolute path), one reference marked `required: false` and another not,
// two services extend the same base file.  Anything that remembers a file between references (a cache of parsed or of
// absent files, a "seen" set) is only exercised by that class.  The clause judged is unchanged and needs no model:
//
//	the file is absent  ∧  at least one reference to it is not marked optional   ⇒   an error naming it
//	every reference is optional, or the file is there                            ⇒   the load succeeds
//
// Spellings within one service are pairwise different (equal spellings are merged by EnforceUnicity before any file is
// read — which entry survives is C04's subject); across services and across override files every combination is drawn.

import (
	"fmt"
	"strings"

	"verifharness/core"
)

type twiceRef struct {
	svc      int // index of the service that holds the reference
	spelling int
	form     int // 0 short string (required) | 1 {path, required: true} | 2 {path} (required by default) | 3 {path, required: false}
}

var twiceSpellings = []string{"%s", "./%s", "sub/../%s"}

func (r twiceRef) required() bool { return r.form != 3 }

func (r twiceRef) envEntry(file string) any {
	p := fmt.Sprintf(twiceSpellings[r.spelling], file)
	switch r.form {
	case 0:
		return p
	case 1:
		return M{"path": p, "required": true}
	case 2:
		return M{"path": p}
	}
	return M{"path": p, "required": false}
}

// twiceDocs spreads the references over services s0, s1, … (all in the first file, or the services with an odd index in
// an override file when split) under the attribute attr ("env_file" | "label_file").
func twiceDocs(refs []twiceRef, attr, file string, split bool) (map[string]string, []string) {
	docs := []M{{"services": M{}}, {"services": M{}}}
	nsvc := 0
	for _, r := range refs {
		if r.svc+1 > nsvc {
			nsvc = r.svc + 1
		}
	}
	for i := 0; i < nsvc; i++ {
		docs[0]["services"].(M)[fmt.Sprintf("s%d", i)] = M{"image": "busybox"}
	}
	for _, r := range refs {
		d := docs[0]
		if split && r.svc%2 == 1 {
			d = docs[1]
		}
		name := fmt.Sprintf("s%d", r.svc)
		svc, _ := d["services"].(M)[name].(M)
		if svc == nil {
			svc = M{}
			d["services"].(M)[name] = svc
		}
		var entry any
		if attr == "env_file" {
			entry = r.envEntry(file)
		} else {
			entry = fmt.Sprintf(twiceSpellings[r.spelling], file)
		}
		l, _ := svc[attr].(L)
		svc[attr] = append(l, entry)
	}
	files := map[string]string{"compose.yml": toYAML(docs[0])}
	cfs := []string{"compose.yml"}
	if split && len(docs[1]["services"].(M)) > 0 {
		files["over.yml"] = toYAML(docs[1])
		cfs = append(cfs, "over.yml")
	}
	return files, cfs
}

func c01Twice(ctx *core.Ctx) {
	emit := func(refs []twiceRef, attr, file string, present, split bool, mode string) {
		files, cfs := twiceDocs(refs, attr, file, split)
		if present {
			files[file] = "T=1\n"
		}
		needed, pattern := false, make([]string, 0, len(refs))
		for _, r := range refs {
			req := r.required() || attr != "env_file"
			needed = needed || req
			if req {
				pattern = append(pattern, "req")
			} else {
				pattern = append(pattern, "opt")
			}
		}
		exp := "ok"
		if !present && needed {
			exp = "missing:" + attr + "-referenced-twice:" + file
		}
		same := "one-service"
		if refs[len(refs)-1].svc != refs[0].svc {
			same = "across-services"
		}
		// histogram: which references come first matters (an optional one BEFORE a required one is the class a cache keyed by path gets wrong)
		order := "all-required"
		switch first, last := strings.Index(strings.Join(pattern, ">"), "opt"), strings.LastIndex(strings.Join(pattern, ">"), "req"); {
		case first < 0:
		case last < 0:
			order = "all-optional"
		case first < last:
			order = "optional-before-required"
		default:
			order = "required-before-optional"
		}
		ctx.Count(fmt.Sprintf("twice-%s-%s-%s-present=%v", attr, same, order, present))
		ctx.Add("c01load", c01Args{Req: core.LoadReq{Files: files, ConfigFiles: cfs, ProjectName: "p"}, Mode: mode,
			Shape: fmt.Sprintf("twice/%s/%s/%s/present=%v", attr, same, strings.Join(pattern, ">"), present), Expect: exp})
	}
	forms := []int{0, 1, 2, 3}
	nsp := len(twiceSpellings)
	// two references — exhaustive: (one service, two different spellings) and (two services, any spellings; one file or an override) × forms² × present / absent
	for _, mode := range []string{"", "cli"} {
		for _, present := range []bool{false, true} {
			if present && mode == "cli" {
				continue
			}
			for s1 := 0; s1 < nsp; s1++ {
				for s2 := 0; s2 < nsp; s2++ {
					for _, f1 := range forms {
						for _, f2 := range forms {
							if s1 != s2 {
								emit([]twiceRef{{0, s1, f1}, {0, s2, f2}}, "env_file", "a.env", present, false, mode)
							}
							if f1 == 2 || f2 == 2 { // {path} ≡ {path, required: true}: not again across services
								continue
							}
							emit([]twiceRef{{0, s1, f1}, {1, s2, f2}}, "env_file", "a.env", present, (s1+s2+f1+f2)%2 == 1, mode)
						}
					}
					if s1 != s2 {
						emit([]twiceRef{{0, s1, 0}, {0, s2, 0}}, "label_file", "a.labels", present, false, mode)
					}
					emit([]twiceRef{{0, s1, 0}, {1, s2, 0}}, "label_file", "a.labels", present, (s1+s2)%2 == 1, mode)
				}
			}
		}
	}
	// three to five references over one to three services, drawn
	for n := 0; n < ctx.Pick(250, 6000); n++ {
		k := 3 + ctx.Rng.Intn(3)
		nsvc := 1 + ctx.Rng.Intn(3)
		used := map[[2]int]bool{}
		var refs []twiceRef
		for len(refs) < k {
			r := twiceRef{ctx.Rng.Intn(nsvc), ctx.Rng.Intn(nsp), forms[ctx.Rng.Intn(len(forms))]}
			if ctx.Rng.Intn(2) == 0 {
				r.form = 3 // optional references are the interesting ones: half of them
			}
			if used[[2]int{r.svc, r.spelling}] {
				if len(used) >= nsvc*nsp {
					break
				}
				continue
			}
			used[[2]int{r.svc, r.spelling}] = true
			refs = append(refs, r)
		}
		// services in index order in the lists (twiceDocs appends per service in the order of refs)
		mode := ""
		if ctx.Rng.Intn(4) == 0 {
			mode = "cli"
		}
		emit(refs, "env_file", "a.env", ctx.Rng.Intn(4) == 0, ctx.Rng.Intn(2) == 0, mode)
	}
	// two services extending one base file under two spellings; the file there or not
	for _, present := range []bool{false, true} {
		for s1 := 0; s1 < nsp; s1++ {
			for s2 := 0; s2 < nsp; s2++ {
				doc := M{"services": M{
					"s0": M{"extends": M{"file": fmt.Sprintf(twiceSpellings[s1], "base.yml"), "service": "base"}},
					"s1": M{"extends": M{"file": fmt.Sprintf(twiceSpellings[s2], "base.yml"), "service": "base"}},
				}}
				files := map[string]string{"compose.yml": toYAML(doc)}
				exp := "missing:extends-referenced-twice:base.yml"
				if present {
					files["base.yml"] = "services:\n  base:\n    image: busybox\n"
					exp = "ok"
				}
				ctx.Count(fmt.Sprintf("twice-extends-present=%v", present))
				ctx.Add("c01load", c01Args{Req: core.LoadReq{Files: files, ConfigFiles: []string{"compose.yml"}, ProjectName: "p"},
					Shape: fmt.Sprintf("twice/extends/present=%v", present), Expect: exp})
			}
		}
	}
}
