package c01

// C01 — enumeration of the attribute paths of schema/compose-spec.json and construction of documents that
// place an arbitrary YAML node at one of them (the "(attribute path × node kind)" product of the property).

import (
	"encoding/json"
	"fmt"
	"os"
	"path/filepath"
	"sort"
	"strings"
)

type jschema = map[string]any

type c01Schema struct {
	root jschema
	defs map[string]any
}

// one step of an attribute path: a mapping key or a list position
type c01Step struct {
	Key  string `json:"k,omitempty"`
	Item bool   `json:"i,omitempty"`
	// the object alternative the key was found in (for required siblings); not serialised
	obj jschema
	ref string // name of the definition the *container* came from ("" = inline)
}

type c01Path struct {
	Steps []c01Step
	Node  jschema // schema at the end of the path
}

func (p c01Path) String() string {
	var b strings.Builder
	for i, s := range p.Steps {
		if s.Item {
			b.WriteString("[]")
			continue
		}
		if i > 0 {
			b.WriteByte('.')
		}
		b.WriteString(s.Key)
	}
	return b.String()
}

func loadC01Schema(repo string) (*c01Schema, error) {
	b, err := os.ReadFile(filepath.Join(repo, "schema", "compose-spec.json"))
	if err != nil {
		return nil, err
	}
	var root jschema
	if err := json.Unmarshal(b, &root); err != nil {
		return nil, err
	}
	defs, _ := root["definitions"].(map[string]any)
	return &c01Schema{root: root, defs: defs}, nil
}

// deref follows $ref; returns the schema and the definition name ("" if inline)
func (s *c01Schema) deref(n jschema) (jschema, string) {
	name := ""
	for i := 0; i < 8; i++ {
		r, ok := n["$ref"].(string)
		if !ok {
			return n, name
		}
		r = strings.TrimPrefix(r, "#/definitions/")
		// nested reference "#/definitions/x/definitions/y" does not occur in this schema; handle plain names only
		d, ok := s.defs[r].(map[string]any)
		if !ok {
			// "#/definitions/deployment/..." style: walk the pointer
			cur := any(s.root)
			for _, part := range strings.Split(strings.TrimPrefix(n["$ref"].(string), "#/"), "/") {
				m, _ := cur.(map[string]any)
				cur = m[part]
			}
			d, _ = cur.(map[string]any)
			if d == nil {
				return jschema{}, r
			}
		}
		n, name = d, r
	}
	return n, name
}

// alternatives flattens oneOf / anyOf (after dereferencing)
func (s *c01Schema) alternatives(n jschema) []struct {
	n   jschema
	ref string
} {
	type alt = struct {
		n   jschema
		ref string
	}
	var out []alt
	var rec func(n jschema, ref string, depth int)
	rec = func(n jschema, ref string, depth int) {
		n, r := s.deref(n)
		if r != "" {
			ref = r
		}
		flat := true
		for _, k := range []string{"oneOf", "anyOf"} {
			if l, ok := n[k].([]any); ok && depth < 6 {
				flat = false
				for _, e := range l {
					if m, ok := e.(map[string]any); ok {
						rec(m, ref, depth+1)
					}
				}
			}
		}
		if flat || n["properties"] != nil || n["items"] != nil || n["patternProperties"] != nil {
			out = append(out, alt{n, ref})
		}
	}
	rec(n, "", 0)
	return out
}

func sampleKey(pattern string) string {
	if strings.HasPrefix(pattern, "^x-") {
		return "x-ext"
	}
	return "a"
}

func sortedKeys(m map[string]any) []string {
	ks := make([]string, 0, len(m))
	for k := range m {
		ks = append(ks, k)
	}
	sort.Strings(ks)
	return ks
}

// paths enumerates every attribute path (depth- and recursion-bounded: a definition is entered at most twice per path).
func (s *c01Schema) paths(maxDepth int) []c01Path {
	var out []c01Path
	seen := map[string]bool{}
	var walk func(n jschema, steps []c01Step, refs map[string]int)
	walk = func(n jschema, steps []c01Step, refs map[string]int) {
		p := c01Path{Steps: append([]c01Step(nil), steps...), Node: n}
		if len(steps) > 0 {
			key := p.String()
			if !seen[key] {
				seen[key] = true
				out = append(out, p)
			}
		}
		if len(steps) >= maxDepth {
			return
		}
		for _, a := range s.alternatives(n) {
			if a.ref != "" {
				if refs[a.ref] >= 2 {
					continue
				}
				refs[a.ref]++
			}
			if props, ok := a.n["properties"].(map[string]any); ok {
				for _, k := range sortedKeys(props) {
					if c, ok := props[k].(map[string]any); ok {
						walk(c, append(steps, c01Step{Key: k, obj: a.n, ref: a.ref}), refs)
					}
				}
			}
			if pp, ok := a.n["patternProperties"].(map[string]any); ok {
				for _, k := range sortedKeys(pp) {
					if c, ok := pp[k].(map[string]any); ok {
						walk(c, append(steps, c01Step{Key: sampleKey(k), obj: a.n, ref: a.ref}), refs)
					}
				}
			}
			if ap, ok := a.n["additionalProperties"].(map[string]any); ok {
				walk(ap, append(steps, c01Step{Key: "extra", obj: a.n, ref: a.ref}), refs)
			}
			if it, ok := a.n["items"].(map[string]any); ok {
				walk(it, append(steps, c01Step{Item: true, obj: a.n, ref: a.ref}), refs)
			}
			if a.ref != "" {
				refs[a.ref]--
			}
		}
	}
	walk(s.root, nil, map[string]int{})
	return out
}

// conform returns a small value conforming to the schema node (used for required siblings).
func (s *c01Schema) conform(n jschema, depth int) any {
	n, _ = s.deref(n)
	if e, ok := n["enum"].([]any); ok && len(e) > 0 {
		return e[0]
	}
	for _, k := range []string{"oneOf", "anyOf"} {
		if l, ok := n[k].([]any); ok && len(l) > 0 && depth < 6 {
			if m, ok := l[0].(map[string]any); ok {
				return s.conform(m, depth+1)
			}
		}
	}
	t := n["type"]
	if l, ok := t.([]any); ok && len(l) > 0 {
		t = l[0]
	}
	switch t {
	case "string":
		if n["format"] == "duration" {
			return "1s"
		}
		return "v"
	case "integer", "number":
		return 1
	case "boolean":
		return true
	case "array":
		return []any{}
	case "object":
		return s.fill(n, "", depth+1)
	case "null":
		return nil
	}
	return "v"
}

// fill builds the mapping that must surround a key inside object alternative obj: its required properties.
func (s *c01Schema) fill(obj jschema, ref string, depth int) map[string]any {
	m := map[string]any{}
	if obj == nil || depth > 6 {
		return m
	}
	props, _ := obj["properties"].(map[string]any)
	if req, ok := obj["required"].([]any); ok {
		for _, r := range req {
			k, _ := r.(string)
			if c, ok := props[k].(map[string]any); ok {
				m[k] = s.conform(c, depth+1)
			} else {
				m[k] = "v"
			}
		}
	}
	if ref == "service" {
		m["image"] = "busybox"
	}
	return m
}

// place builds the document that holds value v at path p, every container on the way carrying its required siblings.
func (s *c01Schema) place(p c01Path, v any) map[string]any {
	var build func(i int) any
	build = func(i int) any {
		if i == len(p.Steps) {
			return v
		}
		st := p.Steps[i]
		child := build(i + 1)
		if st.Item {
			return []any{child}
		}
		m := s.fill(st.obj, st.ref, 0)
		m[st.Key] = child
		return m
	}
	doc, ok := build(0).(map[string]any)
	if !ok {
		panic(fmt.Sprintf("path %s does not start with a key", p))
	}
	return doc
}
