package c01

// C01 — correspondence `c01reset`: yaml.Unmarshal into loader.ResetProcessor (alias expansion with !reset /
// !override recording, loader/reset.go) vs the Lean arena model Reset.run.  A document on which the real code
// does not return (stack exhaustion / watchdog) while the model runs out of fuel is a failure of the property.

import (
	"encoding/json"
	"fmt"
	"runtime/debug"
	"strings"
	"time"

	"github.com/compose-spec/compose-go/v2/loader"

	"verifharness/core"
)

type rNode struct {
	K       string  `json:"k"` // scalar | seq | map | alias
	Tag     string  `json:"tag,omitempty"`
	Items   []int   `json:"items,omitempty"`
	Entries [][]any `json:"entries,omitempty"` // [[key, idx]…]
	T       int     `json:"t,omitempty"`
}

type resetArgs struct {
	Nodes  []rNode `json:"nodes"`
	Root   int     `json:"root"`
	Anchor []int   `json:"anchor"` // nodes that carry an anchor (&n<i>)
}

// flow-style YAML rendering of the arena as a tree with anchors and aliases
func (a resetArgs) render() string {
	anch := map[int]bool{}
	for _, i := range a.Anchor {
		anch[i] = true
	}
	var b strings.Builder
	var rec func(i int)
	rec = func(i int) {
		n := a.Nodes[i]
		if n.K == "alias" {
			fmt.Fprintf(&b, "*n%d", n.T)
			return
		}
		if anch[i] {
			fmt.Fprintf(&b, "&n%d ", i)
		}
		if n.Tag != "" {
			b.WriteString(n.Tag + " ")
		}
		switch n.K {
		case "scalar":
			fmt.Fprintf(&b, "v%d", i)
		case "seq":
			b.WriteString("[")
			for k, c := range n.Items {
				if k > 0 {
					b.WriteString(", ")
				}
				rec(c)
			}
			b.WriteString("]")
		case "map":
			b.WriteString("{")
			for k, e := range n.Entries {
				if k > 0 {
					b.WriteString(", ")
				}
				key := e[0].(string)
				if key == "<<" {
					b.WriteString("<<: ")
				} else {
					fmt.Fprintf(&b, "%q: ", key)
				}
				rec(toInt(e[1]))
			}
			b.WriteString("}")
		}
	}
	rec(a.Root)
	b.WriteString("\n")
	return b.String()
}

func toInt(v any) int {
	switch x := v.(type) {
	case int:
		return x
	case float64:
		return int(x)
	}
	return 0
}

func init() {
	core.Register("c01reset", &core.CheckDef{
		Real: func(raw json.RawMessage) any {
			var a resetArgs
			if err := json.Unmarshal(raw, &a); err != nil {
				return map[string]any{"bad": err.Error()}
			}
			debug.SetMaxStack(64 << 20) // unbounded recursion must die quickly
			paths, err := loader.VerifResetResolve([]byte(a.render()))
			if paths == nil {
				paths = []string{}
			}
			if err != nil {
				if strings.HasPrefix(err.Error(), "cycle detected") {
					return map[string]any{"err": "cycle"}
				}
				return map[string]any{"ok": paths, "decode_err": err.Error()}
			}
			return map[string]any{"ok": paths}
		},
		DriverOp: "c01reset",
		Timeout:  5 * time.Second,
		Judge: func(args, real, drv json.RawMessage) *core.Verdict {
			var d map[string]json.RawMessage
			json.Unmarshal(drv, &d)
			if why := nonTermination(real); why != "" {
				// the model (resolveReset with its nesting guard, then checkAcyclic) always terminates: confirm in isolation
				if again := confirmNonTermination("c01reset", args, 20*time.Second); again != nil && nonTermination(again) == "" {
					real = again
				} else {
					return core.Fail("hang@reset", "alias expansion does not return on this document ("+why+") although the model answers "+string(drv))
				}
			}
			if v := core.CrashVerdict(real); v != nil {
				return v
			}
			var r map[string]json.RawMessage
			json.Unmarshal(real, &r)
			if _, bad := r["decode_err"]; bad {
				delete(r, "decode_err") // yaml.v3 refused the expanded tree (e.g. merge of a non-mapping): paths are still compared
			}
			rb, _ := json.Marshal(r)
			if !core.CanonEqual(rb, drv) {
				return core.Disagree("Reset.run ≠ ResetProcessor")
			}
			return nil
		},
	})
}

// genResetDoc builds a random node tree with anchors and aliases that point at anchors already opened
// (ancestors included: YAML allows it, and that is where cycles come from).
func genResetDoc(ctx *core.Ctx, selfMerge bool) resetArgs {
	var a resetArgs
	var anchors []int
	keys := []string{"a", "b", "services", "k", "x-a"}
	var build func(depth int, inMergeValue bool) int
	build = func(depth int, inMergeValue bool) int {
		idx := len(a.Nodes)
		a.Nodes = append(a.Nodes, rNode{})
		r := ctx.Rng.Intn(10)
		// alias?
		if len(anchors) > 0 && (r < 2 || (inMergeValue && r < 6)) {
			t := anchors[ctx.Rng.Intn(len(anchors))]
			if !inMergeValue || a.Nodes[t].K == "map" {
				a.Nodes[idx] = rNode{K: "alias", T: t}
				return idx
			}
		}
		tag := ""
		switch ctx.Rng.Intn(14) {
		case 0:
			tag = "!reset"
		case 1:
			tag = "!override"
		}
		anchored := ctx.Rng.Intn(3) == 0
		kind := "scalar"
		if depth > 0 {
			kind = []string{"scalar", "seq", "map", "map", "map"}[ctx.Rng.Intn(5)]
		}
		if inMergeValue {
			kind = "map"
			tag = ""
		}
		if anchored && (kind != "scalar" || ctx.Rng.Intn(3) == 0) {
			anchors = append(anchors, idx) // registered before the content: self references are possible
			a.Anchor = append(a.Anchor, idx)
		}
		a.Nodes[idx].K = kind
		a.Nodes[idx].Tag = tag
		switch kind {
		case "seq":
			var items []int
			for n := ctx.Rng.Intn(4); n > 0; n-- {
				items = append(items, build(depth-1, false))
			}
			a.Nodes[idx].Items = items
		case "map":
			var entries [][]any
			used := map[string]bool{}
			for n := ctx.Rng.Intn(4); n > 0; n-- {
				k := keys[ctx.Rng.Intn(len(keys))]
				if used[k] {
					continue
				}
				used[k] = true
				entries = append(entries, []any{k, build(depth-1, false)})
			}
			if ctx.Rng.Intn(5) == 0 && len(anchors) > 0 && (selfMerge || depth > 0) {
				entries = append(entries, []any{"<<", build(depth-1, true)})
			}
			a.Nodes[idx].Entries = entries
		}
		return idx
	}
	// root: a mapping
	a.Root = build(4+ctx.Rng.Intn(2), false)
	return a
}

// acyclicAliases reports whether no alias points at one of its own ancestors (such documents always terminate)
func (a resetArgs) selfRef() bool {
	var rec func(i int, anc map[int]bool) bool
	rec = func(i int, anc map[int]bool) bool {
		n := a.Nodes[i]
		if n.K == "alias" {
			return anc[n.T]
		}
		anc[i] = true
		defer delete(anc, i)
		for _, c := range n.Items {
			if rec(c, anc) {
				return true
			}
		}
		for _, e := range n.Entries {
			if rec(toInt(e[1]), anc) {
				return true
			}
		}
		return false
	}
	return rec(a.Root, map[int]bool{})
}

func c01ResetStream(ctx *core.Ctx) {
	// the inputs of the repaired defects: `<<: *self` (did not return) and a plain self reference (cycle error)
	ctx.Count("model-reset-witness")
	ctx.Add("c01reset", resetArgs{Nodes: []rNode{{K: "map", Entries: [][]any{{"a", 1}}}, {K: "map", Entries: [][]any{{"k", 2}, {"<<", 3}}}, {K: "scalar"}, {K: "alias", T: 1}}, Root: 0, Anchor: []int{1}})
	ctx.Add("c01reset", resetArgs{Nodes: []rNode{{K: "map", Entries: [][]any{{"a", 1}}}, {K: "map", Entries: [][]any{{"k", 2}}}, {K: "alias", T: 1}}, Root: 0, Anchor: []int{1}})
	// a plain self reference five levels down: {a: {b: {c: {d: &x {k: *x}}}}}
	ctx.Add("c01reset", resetArgs{Nodes: []rNode{{K: "map", Entries: [][]any{{"a", 1}}}, {K: "map", Entries: [][]any{{"b", 2}}}, {K: "map", Entries: [][]any{{"c", 3}}},
		{K: "map", Entries: [][]any{{"d", 4}}}, {K: "map", Entries: [][]any{{"k", 5}}}, {K: "alias", T: 4}}, Root: 0, Anchor: []int{4}})
	for i := 0; i < ctx.Pick(3000, 80000); i++ {
		a := genResetDoc(ctx, false)
		if len(a.Nodes) > 40 {
			continue
		}
		if a.Nodes[a.Root].K == "alias" {
			continue
		}
		if a.selfRef() {
			ctx.Count("model-reset-selfref")
		} else {
			ctx.Count("model-reset-acyclic")
		}
		ctx.Add("c01reset", a)
	}
}
