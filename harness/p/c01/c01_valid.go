package c01

// C01 — the VALID stream of the whole-load oracle: documents assembled from a catalogue of semantically valid
// attribute spellings (every service / network / volume / secret / config attribute in its short and long forms),
// each alone and then in random combinations.  The malformed streams of c01.go change one attribute of one fixed
// document; a crash of the typed stages (decode hooks, consistency checks, environment / label resolution) that needs
// a particular *combination* of valid attributes (seeded change C01-2: `mem_reservation` + `deploy.resources.limits`
// without `reservations` → nil dereference in checkConsistency) is only reachable this way.
//
// Observation: as everywhere in C01 — a project xor an error, never a crash; an attribute alone must load.

import (
	"fmt"
	"sort"

	"verifharness/core"
)

type c01Variants map[string][]any

var c01ServiceCatalogue = c01Variants{
	"annotations": {M{"a": "b"}, L{"a=b"}},
	"attach":      {false},
	"build": {".", M{"context": ".", "dockerfile": "D", "args": M{"A": "1", "B": nil}, "target": "t", "cache_from": L{"x"}, "cache_to": L{"y"},
		"labels": M{"a": "b"}, "network": "host", "shm_size": "1m", "ssh": L{"default"}, "secrets": L{"a"}, "tags": L{"t:1"}, "platforms": L{"linux/amd64"},
		"ulimits": M{"nofile": 1}, "extra_hosts": L{"h:1.2.3.4"}, "additional_contexts": M{"c": "./d"}, "no_cache": true, "pull": true, "privileged": false,
		"isolation": "default", "entitlements": L{"network.host"}},
		M{"dockerfile_inline": "FROM scratch\n", "args": L{"A=1"}, "ssh": M{"k": "./key"}, "additional_contexts": L{"c=./d"}, "labels": L{"a=b"}}},
	"blkio_config":   {M{"weight": 10, "weight_device": L{M{"path": "/dev/null", "weight": 10}}, "device_read_bps": L{M{"path": "/dev/null", "rate": "1mb"}}, "device_write_iops": L{M{"path": "/dev/null", "rate": 10}}}},
	"cap_add":        {L{"ALL"}},
	"cap_drop":       {L{"NET_ADMIN"}},
	"cgroup":         {"host", "private"},
	"cgroup_parent":  {"p"},
	"command":        {"echo a", L{"echo", "a"}, nil, L{}},
	"configs":        {L{"a"}, L{M{"source": "a", "target": "/c", "uid": "1", "gid": "1", "mode": 288}}},
	"container_name": {"c1"},
	"cpu_count":      {1},
	"cpu_percent":    {50},
	"cpu_shares":     {10, "10"},
	"cpu_period":     {1000, "1000"},
	"cpu_quota":      {1000},
	"cpu_rt_runtime": {400, "400"},
	"cpu_rt_period":  {1400},
	"cpus":           {0.5, "0.5"},
	"cpuset":         {"0"},
	"credential_spec": {M{"file": "f.json"}},
	"depends_on":      {L{"b"}, M{"b": M{"condition": "service_started", "restart": true, "required": false}}, M{"b": M{"condition": "service_healthy"}}},
	"deploy": {M{"replicas": 1}, M{"resources": M{"limits": M{"cpus": "0.5", "memory": "10M", "pids": 1}}},
		M{"resources": M{"reservations": M{"cpus": "0.2", "memory": "5M", "devices": L{M{"capabilities": L{"gpu"}, "count": "all", "driver": "nvidia", "options": M{"a": "b"}}}, "generic_resources": L{M{"discrete_resource_spec": M{"kind": "gpu", "value": 1}}}}}},
		M{"resources": M{"limits": M{"memory": "10M"}, "reservations": M{"memory": "5M", "devices": L{M{"capabilities": L{"gpu"}, "device_ids": L{"0"}}}}}},
		M{"mode": "global", "labels": M{"a": "b"}, "endpoint_mode": "vip", "update_config": M{"parallelism": 1, "delay": "1s", "order": "start-first", "failure_action": "pause", "monitor": "1s", "max_failure_ratio": 0.5},
			"rollback_config": M{"parallelism": 1}, "restart_policy": M{"condition": "on-failure", "delay": "1s", "max_attempts": 1, "window": "1s"},
			"placement": M{"constraints": L{"a==b"}, "preferences": L{M{"spread": "x"}}, "max_replicas_per_node": 1}},
		M{"resources": M{}}, M{}},
	"develop":             {M{"watch": L{M{"path": ".", "action": "sync", "target": "/t", "ignore": L{"x"}}, M{"path": "./p", "action": "rebuild"}}}},
	"device_cgroup_rules": {L{"c 1:3 mr"}},
	"devices":             {L{"/dev/null:/dev/null:rw"}, L{M{"source": "/dev/null", "target": "/dev/n", "permissions": "rw"}}},
	"dns":                 {"1.1.1.1", L{"1.1.1.1", "8.8.8.8"}},
	"dns_opt":             {L{"x"}},
	"dns_search":          {"s", L{"s"}},
	"domainname":          {"d"},
	"entrypoint":          {"/bin/sh -c", L{"/bin/sh", "-c"}, nil},
	"env_file":            {"a.env", L{"a.env", M{"path": "opt.env", "required": false}}},
	"environment":         {M{"K": "v", "N": nil, "I": 1, "B": true}, L{"K=v", "N"}},
	"expose":              {L{90, "91-92/udp"}},
	"external_links":      {L{"x:y"}},
	"extra_hosts":         {M{"h": "1.2.3.4", "g": L{"1.2.3.4", "::1"}}, L{"h=1.2.3.4", "g:::1"}},
	"gpus":                {L{M{"count": 1}, M{"device_ids": L{"0"}, "capabilities": L{"gpu"}}}},
	"group_add":           {L{"g", 1}},
	"healthcheck":         {M{"test": "true"}, M{"test": L{"CMD", "x"}, "interval": "1s", "timeout": "1s", "retries": 1, "start_period": "1s", "start_interval": "1s"}, M{"disable": true}, M{"test": L{"NONE"}}},
	"hostname":            {"h"},
	"init":                {true},
	"ipc":                 {"host", "service:b", "shareable"},
	"isolation":           {"default"},
	"labels":              {M{"a": "b", "n": 1, "e": nil}, L{"a=b", "c"}},
	"label_file":          {L{"a.labels"}},
	"links":               {L{"b"}, L{"b:alias"}},
	"logging":             {M{"driver": "json-file", "options": M{"max-size": "1m", "n": 1, "e": nil}}, M{}},
	"mac_address":         {"02:42:ac:11:00:02"},
	"mem_limit":           {"10m", 10485760},
	"mem_reservation":     {"5m", 5242880},
	"mem_swappiness":      {10},
	"memswap_limit":       {"20m", -1},
	"network_mode":        {"none", "host", "service:b", "bridge"},
	"networks":            {L{"a"}, M{"a": M{"aliases": L{"x"}, "ipv4_address": "10.0.0.2", "ipv6_address": "::2", "priority": 1, "link_local_ips": L{"169.254.0.1"}, "mac_address": "02:42:ac:11:00:03"}}, M{"a": nil, "default": nil}, M{}},
	"oom_kill_disable":    {true, "true"},
	"oom_score_adj":       {10},
	"pid":                 {"host", nil, "service:b"},
	"pids_limit":          {10, "10"},
	"platform":            {"linux/amd64"},
	"ports": {L{"80", 81}, L{"8080:80/tcp", "127.0.0.1:8081-8082:81-82/udp"},
		L{M{"target": 80, "published": "8080", "protocol": "tcp", "mode": "host", "name": "web", "app_protocol": "http", "host_ip": "127.0.0.1"}, M{"target": 81, "published": 8081}}},
	"post_start":        {L{M{"command": "echo"}, M{"command": L{"echo", "a"}, "user": "u", "privileged": true, "working_dir": "/w", "environment": M{"A": "b"}}}},
	"pre_stop":          {L{M{"command": "echo"}}},
	"privileged":        {true, "true"},
	"profiles":          {L{"p1"}},
	"pull_policy":       {"always", "if_not_present", "missing", "never", "build"},
	"read_only":         {true},
	"restart":           {"always", "on-failure:3", "no"},
	"runtime":           {"runc"},
	"scale":             {1, 2},
	"secrets":           {L{"a"}, L{M{"source": "a", "target": "s", "uid": "1", "gid": "1", "mode": 288}}},
	"security_opt":      {L{"label:disable"}},
	"shm_size":          {"1m", 1048576},
	"stdin_open":        {true},
	"stop_grace_period": {"1s", "1m30s"},
	"stop_signal":       {"SIGTERM"},
	"storage_opt":       {M{"size": "1G"}},
	"sysctls":           {M{"a": 1, "b": "c"}, L{"a=1"}},
	"tmpfs":             {"/run", L{"/run", "/tmp:size=1m"}},
	"tty":               {true},
	"ulimits":           {M{"nofile": M{"soft": 1, "hard": 2}, "nproc": 3}, M{"nofile": "1"}},
	"user":              {"u", "1000:1000"},
	"userns_mode":       {"host"},
	"uts":               {"host"},
	"volumes": {L{"a:/data", "./src:/src:ro", "/anon", "~/h:/h", "/abs:/abs:z"},
		L{M{"type": "bind", "source": "./s", "target": "/t", "read_only": true, "bind": M{"propagation": "rprivate", "create_host_path": true, "selinux": "z", "recursive": "enabled"}}},
		L{M{"type": "volume", "source": "a", "target": "/v", "volume": M{"nocopy": true, "subpath": "s"}, "consistency": "cached"}},
		L{M{"type": "tmpfs", "target": "/t", "tmpfs": M{"size": "1m", "mode": 493}}, M{"type": "volume", "target": "/anon2"}},
		L{M{"type": "npipe", "source": "\\\\.\\pipe\\x", "target": "\\\\.\\pipe\\x"}, M{"type": "cluster", "source": "c", "target": "/c"}}},
	"volumes_from": {L{"b"}, L{"b:ro"}, L{"container:x:rw"}},
	"working_dir":  {"/w"},
	"x-ext":        {M{"k": L{1, 2}}},
}

var c01TopCatalogue = map[string]c01Variants{
	"networks": {"a": {M{}, nil, M{"driver": "bridge", "driver_opts": M{"o": 1}, "ipam": M{"driver": "default", "config": L{M{"subnet": "10.0.0.0/24", "ip_range": "10.0.0.0/25", "gateway": "10.0.0.1", "aux_addresses": M{"h": "10.0.0.5"}}}, "options": M{"a": "b"}},
		"internal": true, "attachable": true, "enable_ipv6": false, "labels": M{"a": "b"}, "name": "net"}, M{"external": true, "name": "ext"}, M{"external": M{"name": "old"}}, M{"labels": L{"a=b"}}}},
	"volumes": {"a": {M{}, nil, M{"driver": "local", "driver_opts": M{"type": "none", "o": "bind", "device": "./d"}, "labels": M{"a": "b"}, "name": "vol"}, M{"external": true}, M{"external": "true"}, M{"external": M{"name": "old"}}}},
	"secrets": {"a": {M{"environment": "S"}, M{"file": "./s.txt"}, M{"external": true, "name": "n"}, M{"file": "./s.txt", "labels": M{"a": "b"}, "driver": "d", "driver_opts": M{"o": 1}, "template_driver": "t"}}},
	"configs": {"a": {M{"content": "x"}, M{"file": "./c.txt"}, M{"environment": "S"}, M{"external": true}, M{"content": "v=${S}"}}},
}

func c01ValidDoc(svc M, top map[string]any) *core.LoadReq {
	doc := M{"services": M{"a": svc, "b": M{"image": "busybox", "healthcheck": M{"test": "true"}}}}
	for k, v := range top {
		doc[k] = M{"a": v}
	}
	if _, ok := svc["image"]; !ok {
		if _, hasBuild := svc["build"]; !hasBuild {
			svc["image"] = "busybox"
		}
	}
	return &core.LoadReq{
		Files: map[string]string{"compose.yml": toYAML(doc), "a.env": "A=1\n", "opt.env": "O=1\n", "a.labels": "l=v\n", "s.txt": "s\n", "c.txt": "c\n"},
		ConfigFiles: []string{"compose.yml"}, ProjectName: "p", Env: map[string]string{"S": "secret"},
	}
}

// resources a service attribute refers to
func c01NeededTop(svc M) map[string]any {
	top := map[string]any{}
	need := func(kind string) {
		if _, ok := top[kind]; !ok {
			top[kind] = c01TopCatalogue[kind]["a"][0]
		}
	}
	for k := range svc {
		switch k {
		case "secrets":
			need("secrets")
		case "configs":
			need("configs")
		case "networks":
			need("networks")
		case "volumes":
			need("volumes")
		case "build":
			need("secrets")
		}
	}
	return top
}

func c01Valid(ctx *core.Ctx) {
	keys := make([]string, 0, len(c01ServiceCatalogue))
	for k := range c01ServiceCatalogue {
		keys = append(keys, k)
	}
	sort.Strings(keys)
	// 1. every spelling alone must load (a failure here is a wrong catalogue entry — or a defect: reported as a disagreement)
	for _, k := range keys {
		for i, v := range c01ServiceCatalogue[k] {
			svc := M{k: v}
			req := c01ValidDoc(svc, c01NeededTop(svc))
			ctx.Count("valid-single")
			ctx.Add("c01load", c01Args{Req: *req, Shape: fmt.Sprintf("valid1/%s/%d", k, i), Expect: "ok"})
		}
	}
	tops := []string{"configs", "networks", "secrets", "volumes"}
	for _, t := range tops {
		for i, v := range c01TopCatalogue[t]["a"] {
			svc := M{}
			req := c01ValidDoc(svc, map[string]any{t: v})
			ctx.Count("valid-single")
			ctx.Add("c01load", c01Args{Req: *req, Shape: fmt.Sprintf("valid1/top-%s/%d", t, i), Expect: "ok"})
		}
	}
	// 2. every pair of service attributes (first spellings in the quick tier, every pair of spellings in the thorough one)
	for i, k1 := range keys {
		for _, k2 := range keys[i+1:] {
			v1s, v2s := c01ServiceCatalogue[k1], c01ServiceCatalogue[k2]
			if !ctx.Thorough() {
				v1s, v2s = []any{v1s[ctx.Rng.Intn(len(v1s))]}, []any{v2s[ctx.Rng.Intn(len(v2s))]}
			}
			for _, v1 := range v1s {
				for _, v2 := range v2s {
					svc := M{k1: v1, k2: v2}
					req := c01ValidDoc(svc, c01NeededTop(svc))
					ctx.Count("valid-pair")
					ctx.Add("c01load", c01Args{Req: *req, Shape: "valid2/" + k1 + "+" + k2})
				}
			}
		}
	}
	// 3. random combinations: each attribute with probability 1/4, 1/8 or 1/2, random spellings, random top-level spellings
	for n := 0; n < ctx.Pick(1500, 40000); n++ {
		den := []int{4, 8, 2}[ctx.Rng.Intn(3)]
		svc := M{}
		for _, k := range keys {
			if ctx.Rng.Intn(den) == 0 {
				vs := c01ServiceCatalogue[k]
				svc[k] = vs[ctx.Rng.Intn(len(vs))]
			}
		}
		top := c01NeededTop(svc)
		for _, t := range tops {
			if _, ok := top[t]; ok || ctx.Rng.Intn(3) == 0 {
				vs := c01TopCatalogue[t]["a"]
				top[t] = vs[ctx.Rng.Intn(len(vs))]
			}
		}
		req := c01ValidDoc(svc, top)
		if ctx.Rng.Intn(5) == 0 {
			applyOptionBits(req, ctx.Rng.Intn(1024)&^1) // any options, schema validation kept
		}
		mode := ""
		switch ctx.Rng.Intn(8) {
		case 0:
			mode = "model"
		case 1:
			mode = "cli"
		}
		ctx.Count("valid-random")
		ctx.Add("c01load", c01Args{Req: *req, Mode: mode, Delivery: c01DrawDelivery(ctx), Shape: "validN"})
	}
}
