package c01

// C01 — env_file / label_file resolution over ALL services of a project (Model/C01Files.lean `resolveProject`, round 6):
//
//	c01filesProject   types.Project.WithServicesEnvironmentResolved + WithServicesLabelsResolved on a project of 2–3
//	                  services that SHARE their files   vs   Files.resolveProject for every visit order of the services
//
// The services are a Go map: the real code visits them in any order, so the model answers with its outcome for every
// permutation and the real outcome must be one of them (ok-ness is the same for all: `resolveProject_ok_perm`).
// Before that the property's clause is judged on the input alone, as in `c01files`: a required env file / a label file
// of ANY service that is not there, and the project resolved → failure with the input.

import (
	"encoding/json"
	"fmt"
	"os"
	"path/filepath"
	"strings"

	"github.com/compose-spec/compose-go/v2/types"

	"verifharness/core"
)

type filesSvc struct {
	EnvFiles   []filesEnv `json:"env_files"`
	LabelFiles []string   `json:"label_files"`
}

type filesProjectArgs struct {
	Disk     map[string]string `json:"disk"`
	Services []filesSvc        `json:"services"`
	SkipEnv  bool              `json:"skip_env"`
}

func filesMarker(p string) string { return "M_" + strings.NewReplacer("/", "_", ".", "_").Replace(p) }

func init() {
	core.Register("c01filesProject", &core.CheckDef{
		Real: func(raw json.RawMessage) any {
			var a filesProjectArgs
			if err := json.Unmarshal(raw, &a); err != nil {
				return map[string]any{"bad": err.Error()}
			}
			files := map[string]string{}
			for p, st := range a.Disk {
				switch st {
				case "file":
					files[p] = filesMarker(p) + "=1\n"
				case "badSyntax":
					files[p] = filesMarker(p) + "=1\nTHIS LINE=is not dotenv\n"
				case "directory":
					files[p+"/.keep"] = ""
				case "parentIsFile":
					files[filepath.Dir(p)] = "not a directory\n"
				}
			}
			root, err := core.Materialize(files)
			defer os.RemoveAll(root)
			if err != nil {
				return map[string]any{"bad": "materialize: " + err.Error()}
			}
			svcs := types.Services{}
			flat := filesArgs{Disk: a.Disk, SkipEnv: a.SkipEnv} // every entry of every service, for the error → culprit map
			for i, s := range a.Services {
				name := fmt.Sprintf("s%d", i)
				svc := types.ServiceConfig{Name: name}
				for _, e := range s.EnvFiles {
					svc.EnvFiles = append(svc.EnvFiles, types.EnvFile{Path: filepath.Join(root, e.Path), Required: e.Required})
				}
				for _, l := range s.LabelFiles {
					svc.LabelFiles = append(svc.LabelFiles, filepath.Join(root, l))
				}
				svcs[name] = svc
				flat.EnvFiles = append(flat.EnvFiles, s.EnvFiles...)
			}
			for _, s := range a.Services {
				flat.LabelFiles = append(flat.LabelFiles, s.LabelFiles...)
			}
			p := &types.Project{Name: "p", WorkingDir: root, Services: svcs, Environment: types.Mapping{}}
			if !a.SkipEnv {
				if p, err = p.WithServicesEnvironmentResolved(false); err != nil {
					return filesErr(err, root, flat)
				}
			}
			if p, err = p.WithServicesLabelsResolved(false); err != nil {
				return filesErr(err, root, flat)
			}
			loaded := []string{}
			for i, s := range a.Services {
				got := p.Services[fmt.Sprintf("s%d", i)]
				for _, e := range s.EnvFiles {
					if _, ok := got.Environment[filesMarker(e.Path)]; ok && !a.SkipEnv {
						loaded = append(loaded, e.Path)
					}
				}
				for _, l := range s.LabelFiles {
					if _, ok := got.Labels[filesMarker(l)]; ok {
						loaded = append(loaded, l)
					}
				}
			}
			return map[string]any{"ok": loaded}
		},
		DriverOp: "c01filesProject",
		Judge: func(args, real, drv json.RawMessage) *core.Verdict {
			if v := core.CrashVerdict(real); v != nil {
				return v
			}
			type out struct {
				Ok   []string `json:"ok"`
				Err  string   `json:"err"`
				Path string   `json:"path"`
			}
			var r struct {
				out
				Named *bool  `json:"named"`
				Text  string `json:"text"`
				Bad   string `json:"bad"`
			}
			var d struct {
				Outs []out `json:"outs"`
			}
			json.Unmarshal(real, &r)
			json.Unmarshal(drv, &d)
			if r.Bad != "" {
				return core.Disagree("harness problem: " + r.Bad)
			}
			var a filesProjectArgs
			json.Unmarshal(args, &a)
			if r.Err == "" {
				for i, s := range a.Services {
					if !a.SkipEnv {
						for _, e := range s.EnvFiles {
							if st := a.Disk[e.Path]; (st == "absent" || st == "parentIsFile") && e.Required {
								return core.Fail("missing-file-accepted:env_file", fmt.Sprintf("service s%d requires env file %s, which is %s on disk; the project (services %+v) resolved without error", i, e.Path, st, a.Services))
							}
						}
					}
					for _, l := range s.LabelFiles {
						if st := a.Disk[l]; st == "absent" || st == "parentIsFile" {
							return core.Fail("missing-file-accepted:label_file", fmt.Sprintf("service s%d lists label file %s, which is %s on disk; the project resolved without error", i, l, st))
						}
					}
				}
			}
			if len(d.Outs) == 0 {
				return core.Disagree("driver gave no outcome: " + string(drv))
			}
			for _, o := range d.Outs {
				if o.Err != r.Err {
					continue
				}
				if r.Err == "" {
					if fmt.Sprint(dedupSorted(r.Ok)) == fmt.Sprint(dedupSorted(o.Ok)) {
						return nil
					}
					continue
				}
				if o.Path == r.Path {
					if (r.Err == "notFound" || r.Err == "read" || r.Err == "open") && (r.Named == nil || !*r.Named) {
						return core.Fail("missing-file-unnamed:"+r.Err, "a missing / unreadable env or label file is reported without its path: "+r.Text)
					}
					return nil
				}
			}
			return core.Disagree(fmt.Sprintf("Files.resolveProject ≠ real for every visit order: real %q at %q (%s) ok=%v, model %+v", r.Err, r.Path, r.Text, r.Ok, d.Outs))
		},
	})
}

func c01FilesProject(ctx *core.Ctx) {
	states := []string{"absent", "parentIsFile", "directory", "file", "badSyntax"}
	paths := []string{"x/a.env", "d/b.env", "y/c.labels", "e/f.labels"}
	for n := 0; n < ctx.Pick(500, 15000); n++ {
		a := filesProjectArgs{Disk: map[string]string{}, SkipEnv: ctx.Rng.Intn(8) == 0}
		for _, p := range paths {
			st := "file"
			if ctx.Rng.Intn(3) == 0 {
				st = states[ctx.Rng.Intn(len(states))]
			}
			a.Disk[p] = st
		}
		nsvc := 2 + ctx.Rng.Intn(2)
		shared := map[string]int{}
		for s := 0; s < nsvc; s++ {
			var sv filesSvc
			for i, k := 0, ctx.Rng.Intn(3); i < k; i++ {
				e := filesEnv{Path: paths[ctx.Rng.Intn(2)], Required: ctx.Rng.Intn(2) == 0}
				sv.EnvFiles = append(sv.EnvFiles, e)
				shared[e.Path]++
			}
			for i, k := 0, ctx.Rng.Intn(2); i < k; i++ {
				l := paths[2+ctx.Rng.Intn(2)]
				sv.LabelFiles = append(sv.LabelFiles, l)
				shared[l]++
			}
			a.Services = append(a.Services, sv)
		}
		most := 0
		for _, c := range shared {
			if c > most {
				most = c
			}
		}
		ctx.Count(fmt.Sprintf("filesProject-services=%d-most-shared-path-x%d", nsvc, most))
		ctx.Add("c01filesProject", a)
	}
}
