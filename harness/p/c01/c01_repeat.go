package c01

// C01 — the REPEAT stream of the whole-load oracle: every list the valid catalogue contains (service attributes, nested
// lists, top-level resources) re-populated with *repeated* elements in every arrangement.
//
// Why: the other streams put one value at one path, or combine attributes each spelled once.  None of them ever
// produced a list in which an element (or the key a stage derives from it: the variable of `K=v`, the target of a
// mount, …) occurs more than once, let alone two different ones each occurring twice — the inputs on which the
// de-duplicating and index-keeping loops of the pipeline (override.enforceUnicity before and after transform.Canonical,
// the sequence mergers, the Mapping / HostsList decoders) do something other than append.  Seeded change C01-6
// (enforceUnicity records the input index instead of the output index → `seq[j]` out of range on [A=1 A=2 B=1 B=2]) was
// seen by C04's correspondence only.
//
// Class: for every list site, a pool of valid elements (the catalogue's own, plus for each of them variants that keep
// the textual key and change the rest, and the reverse); every arrangement of ≤ 4 elements up to renaming (restricted
// growth strings: 23 set partitions of the positions) and random longer ones; the list given whole in one file, split
// over 2–3 overriding files, or split over an extends chain of 2–3 services (same file and other file) — the merges
// concatenate sequences, so the pipeline sees the same arrangement assembled by different code.
//
// Observation: as everywhere in C01 — a project xor an error, never a crash.

import (
	"fmt"
	"sort"
	"strings"

	"verifharness/core"
)

// one list inside a catalogue spelling: attribute, steps from the attribute's value to the list, its elements
type c01ListSite struct {
	top   string // "" = service attribute; else the top-level section (networks, volumes, …)
	attr  string
	steps []any // string = map key, int = list index
	base  any   // the spelling the list was found in (deep-copied before use)
	pool  []any
}

func (s c01ListSite) name() string {
	var b strings.Builder
	if s.top != "" {
		b.WriteString(s.top + ".a.")
	}
	b.WriteString(s.attr)
	for _, st := range s.steps {
		fmt.Fprintf(&b, ".%v", st)
	}
	return b.String()
}

func c01DeepCopy(v any) any {
	switch x := v.(type) {
	case M:
		o := M{}
		for k, e := range x {
			o[k] = c01DeepCopy(e)
		}
		return o
	case L:
		o := make(L, len(x))
		for i, e := range x {
			o[i] = c01DeepCopy(e)
		}
		return o
	}
	return v
}

// variants of one list element: same textual key / different rest, different key / same rest
func c01ElementVariants(e any) []any {
	var out []any
	switch x := e.(type) {
	case string:
		if i := strings.IndexByte(x, '='); i >= 0 {
			out = append(out, x[:i]+"=zz", "ZZ"+x[i:], x[:i]) // same variable other value; other variable; bare variable
		} else if i := strings.IndexByte(x, ':'); i >= 0 {
			out = append(out, "zz"+x[i:], x[:i]+":/zz") // other source same target; same source other target
		} else if x != "" {
			out = append(out, x+"z")
		}
	case M:
		keys := sortedKeys(x)
		changed := 0
		for _, k := range keys {
			var nv any
			switch v := x[k].(type) {
			case string:
				nv = v + "z"
			case int:
				nv = v + 1
			case bool:
				nv = !v
			default:
				continue
			}
			c := c01DeepCopy(x).(M)
			c[k] = nv
			out = append(out, c)
			if changed++; changed == 3 {
				break
			}
		}
	case int:
		out = append(out, x+1)
	}
	return out
}

// c01ListSites walks the catalogue and returns every list with ≥ 1 element, pools merged per (attribute, steps).
func c01ListSites() []c01ListSite {
	byName := map[string]*c01ListSite{}
	var order []string
	var walk func(top, attr string, base any, v any, steps []any)
	walk = func(top, attr string, base any, v any, steps []any) {
		switch x := v.(type) {
		case M:
			for _, k := range sortedKeys(x) {
				walk(top, attr, base, x[k], append(append([]any{}, steps...), k))
			}
		case L:
			if len(x) == 0 {
				return
			}
			s := c01ListSite{top: top, attr: attr, steps: steps, base: base}
			n := s.name()
			have, ok := byName[n]
			if !ok {
				byName[n] = &s
				have = &s
				order = append(order, n)
			}
			for _, e := range x {
				have.pool = append(have.pool, e)
			}
			// lists inside the first element (develop.watch[0].ignore, deploy…devices[0].capabilities, …)
			walk(top, attr, base, x[0], append(append([]any{}, steps...), 0))
		}
	}
	attrs := make([]string, 0, len(c01ServiceCatalogue))
	for k := range c01ServiceCatalogue {
		attrs = append(attrs, k)
	}
	sort.Strings(attrs)
	for _, k := range attrs {
		for _, v := range c01ServiceCatalogue[k] {
			walk("", k, v, v, nil)
		}
	}
	for _, t := range []string{"configs", "networks", "secrets", "volumes"} {
		for _, v := range c01TopCatalogue[t]["a"] {
			if m, ok := v.(M); ok {
				for _, k := range sortedKeys(m) {
					walk(t, k, m[k], m[k], nil)
				}
			}
		}
	}
	var out []c01ListSite
	for _, n := range order {
		s := *byName[n]
		// pool: distinct catalogue elements, then their variants
		seen := map[string]bool{}
		var pool []any
		add := func(e any) {
			key := toYAML(e)
			if !seen[key] {
				seen[key] = true
				pool = append(pool, e)
			}
		}
		for _, e := range s.pool {
			add(e)
		}
		for _, e := range s.pool {
			for _, v := range c01ElementVariants(e) {
				add(v)
			}
		}
		s.pool = pool
		out = append(out, s)
	}
	return out
}

// withList returns a copy of the site's spelling in which the list is replaced by l.
func (s c01ListSite) withList(l L) any {
	if len(s.steps) == 0 {
		return l
	}
	root := c01DeepCopy(s.base)
	cur := root
	for i, st := range s.steps {
		last := i == len(s.steps)-1
		switch k := st.(type) {
		case string:
			m := cur.(M)
			if last {
				m[k] = l
			} else {
				cur = m[k]
			}
		case int:
			a := cur.(L)
			if last {
				a[k] = l
			} else {
				cur = a[k]
			}
		}
	}
	return root
}

// restricted growth strings of length n: every arrangement of n elements up to renaming ([0 0 1 1], [0 1 0 1], …)
func c01Arrangements(n int) [][]int {
	var out [][]int
	var rec func(cur []int, max int)
	rec = func(cur []int, max int) {
		if len(cur) == n {
			out = append(out, append([]int{}, cur...))
			return
		}
		for v := 0; v <= max+1; v++ {
			m := max
			if v > m {
				m = v
			}
			rec(append(cur, v), m)
		}
	}
	rec(nil, -1)
	return out
}

var c01RepeatPositions = []string{"single", "override-2", "override-3", "extends-2", "extends-3", "extends-file-3"}

// c01RepeatReq builds the load request that assembles the list `elems` at the site in the given position.
func c01RepeatReq(s c01ListSite, elems L, pos string, cuts [2]int) *core.LoadReq {
	// segments of the list, one per file / service of the chain
	var segs []L
	switch pos {
	case "single":
		segs = []L{elems}
	case "override-2", "extends-2":
		c := cuts[0] % (len(elems) + 1)
		segs = []L{elems[:c], elems[c:]}
	default:
		c1, c2 := cuts[0]%(len(elems)+1), cuts[1]%(len(elems)+1)
		if c1 > c2 {
			c1, c2 = c2, c1
		}
		segs = []L{elems[:c1], elems[c1:c2], elems[c2:]}
	}
	files := map[string]string{"a.env": "A=1\n", "opt.env": "O=1\n", "a.labels": "l=v\n", "s.txt": "s\n", "c.txt": "c\n"}
	req := &core.LoadReq{Files: files, ConfigFiles: []string{"compose.yml"}, ProjectName: "p", Env: map[string]string{"S": "secret"}}
	svcWith := func(seg L, withImage bool) M {
		svc := M{}
		if s.top == "" {
			svc[s.attr] = s.withList(append(L{}, seg...))
		}
		if withImage {
			if _, hasBuild := svc["build"]; !hasBuild {
				svc["image"] = "busybox"
			}
		}
		return svc
	}
	docWith := func(seg L, first bool) M {
		svc := svcWith(seg, first)
		doc := M{"services": M{"a": svc}}
		if first {
			doc["services"].(M)["b"] = M{"image": "busybox", "healthcheck": M{"test": "true"}}
			for k, v := range c01NeededTop(svc) {
				doc[k] = M{"a": v}
			}
		}
		if s.top != "" {
			res := M{s.attr: s.withList(append(L{}, seg...))}
			doc[s.top] = M{"a": res}
		}
		return doc
	}
	switch {
	case pos == "single" || strings.HasPrefix(pos, "override-"):
		req.ConfigFiles = nil
		for i, seg := range segs {
			name := fmt.Sprintf("f%d.yml", i)
			files[name] = toYAML(docWith(seg, i == 0))
			req.ConfigFiles = append(req.ConfigFiles, name)
		}
	default: // extends chains: the first segment is the root of the chain, the last one the service that is loaded
		if s.top != "" {
			return nil
		}
		svcs := M{"b": M{"image": "busybox", "healthcheck": M{"test": "true"}}}
		other := M{}
		for i, seg := range segs {
			svc := svcWith(seg, i == 0)
			name := fmt.Sprintf("s%d", i)
			if i == len(segs)-1 {
				name = "a"
			}
			prev := fmt.Sprintf("s%d", i-1)
			inOther := pos == "extends-file-3" && i < len(segs)-1
			if i > 0 {
				if pos == "extends-file-3" && i == len(segs)-1 {
					svc["extends"] = M{"file": "sub/other.yml", "service": prev}
				} else {
					svc["extends"] = M{"service": prev}
				}
			}
			if inOther {
				other[name] = svc
			} else {
				svcs[name] = svc
			}
		}
		doc := M{"services": svcs}
		for k, v := range c01NeededTop(svcWith(elems, true)) {
			doc[k] = M{"a": v}
		}
		files["compose.yml"] = toYAML(doc)
		if len(other) > 0 {
			files["sub/other.yml"] = toYAML(M{"services": other})
		}
	}
	return req
}

func c01Repeats(ctx *core.Ctx) {
	sites := c01ListSites()
	ctx.Note("repeat stream: %d list sites of the valid catalogue", len(sites))
	var arr [][]int
	for n := 2; n <= 4; n++ {
		arr = append(arr, c01Arrangements(n)...)
	}
	emit := func(s c01ListSite, a []int, pos string) {
		// injective choice of pool elements for the arrangement's letters
		perm := ctx.Rng.Perm(len(s.pool))
		elems := make(L, len(a))
		distinct := 0
		for i, v := range a {
			elems[i] = c01DeepCopy(s.pool[perm[v%len(perm)]])
			if v+1 > distinct {
				distinct = v + 1
			}
		}
		req := c01RepeatReq(s, elems, pos, [2]int{ctx.Rng.Intn(64), ctx.Rng.Intn(64)})
		if req == nil {
			return
		}
		if ctx.Rng.Intn(6) == 0 {
			applyOptionBits(req, ctx.Rng.Intn(1024))
		}
		mode := ""
		switch ctx.Rng.Intn(10) {
		case 0:
			mode = "model"
		case 1:
			mode = "cli"
		}
		rep := "all-distinct"
		switch {
		case distinct == 1:
			rep = "one-key-repeated"
		case len(a)-distinct >= 2 && distinct >= 2 && c01TwoRepeated(a):
			rep = "two-keys-repeated"
		case distinct < len(a):
			rep = "one-of-several-repeated"
		}
		ctx.Count("repeat-" + rep)
		ctx.Count("repeat-pos-" + pos)
		ctx.Add("c01load", c01Args{Req: *req, Mode: mode, Delivery: c01DrawDelivery(ctx), Shape: "repeat/" + pos + "/" + s.name() + "/" + fmt.Sprint(a)})
	}
	for _, s := range sites {
		if len(s.pool) == 0 {
			continue
		}
		for _, a := range arr {
			// every arrangement whole in one file; and once more in a position drawn at random (thorough: in every position)
			emit(s, a, "single")
			if ctx.Thorough() {
				for _, pos := range c01RepeatPositions[1:] {
					emit(s, a, pos)
				}
			} else {
				emit(s, a, c01RepeatPositions[1+ctx.Rng.Intn(len(c01RepeatPositions)-1)])
			}
		}
		// longer random arrangements over few letters
		for n := 0; n < ctx.Pick(6, 60); n++ {
			l := 5 + ctx.Rng.Intn(4)
			letters := 1 + ctx.Rng.Intn(3)
			a := make([]int, l)
			for i := range a {
				a[i] = ctx.Rng.Intn(letters)
			}
			emit(s, a, c01RepeatPositions[ctx.Rng.Intn(len(c01RepeatPositions))])
		}
	}
}

// at least two different letters each occur at least twice
func c01TwoRepeated(a []int) bool {
	cnt := map[int]int{}
	for _, v := range a {
		cnt[v]++
	}
	n := 0
	for _, c := range cnt {
		if c >= 2 {
			n++
		}
	}
	return n >= 2
}
