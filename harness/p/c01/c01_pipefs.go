package c01

// C01 — correspondence for the composed pipeline WITH cross-file extends (Model/C01PipelineFS.lean, round 6):
//
//	c01pipeFS   loader.LoadModelWithContext (main documents handed over as Config trees, base files written to a
//	            materialised directory, SkipInclude, extends ON)   vs   C01PipeFS.loadFS
//
// The model computes C05's file-system parameter itself: each base file goes through the per-document pipeline under
// `extendsOpts` and through `Paths.resolve` at its own directory.  Compared: the failing stage, or the WHOLE resulting
// dictionary (absolute paths included: the model is handed the materialised root as working directory).
// Input classes (ctx.Count `pipefs:*`): base in another file (same directory / sub-directory, two spellings), base that
// extends in turn (same file, other file), reference cycles across files, missing file, missing service, file without
// `services`, file whose own load fails (interpolation), same-file extends next to cross-file ones.

import (
	"context"
	"encoding/json"
	"fmt"
	"os"
	"path/filepath"
	"time"

	"github.com/compose-spec/compose-go/v2/loader"
	"github.com/compose-spec/compose-go/v2/types"

	"verifharness/core"
	"verifharness/p/pipeline"
)

type pipeFSBase struct {
	Name string `json:"name"` // relative to the working directory
	Doc  core.T `json:"doc"`
}

type pipeFSArgs struct {
	Docs  []core.T          `json:"docs"`
	Bases []pipeFSBase      `json:"bases"`
	Opts  pipeline.Opts     `json:"opts"`
	Env   map[string]string `json:"env"`
	Name  string            `json:"name"`
}

func realPipeFS(raw json.RawMessage) any {
	var a struct {
		Docs  []json.RawMessage `json:"docs"`
		Bases []struct {
			Name string          `json:"name"`
			Doc  json.RawMessage `json:"doc"`
		} `json:"bases"`
		Opts pipeline.Opts     `json:"opts"`
		Env  map[string]string `json:"env"`
		Name string            `json:"name"`
	}
	if err := json.Unmarshal(raw, &a); err != nil {
		return M{"bad": err.Error()}
	}
	os.Setenv("HOME", "/h")
	files := map[string]string{}
	for _, b := range a.Bases {
		t := core.DecodeValRaw(b.Doc)
		txt, err := json.Marshal(t) // JSON is YAML
		if err != nil {
			return M{"bad": err.Error()}
		}
		files[b.Name] = string(txt) + "\n"
	}
	root, err := core.Materialize(files)
	defer os.RemoveAll(root)
	if err != nil {
		return M{"bad": "materialize: " + err.Error()}
	}
	env := map[string]string{}
	for k, v := range a.Env {
		env[k] = v
	}
	details := types.ConfigDetails{WorkingDir: root, Environment: env}
	var trees []any
	for i, d := range a.Docs {
		t, ok := core.DecodeValRaw(d).(map[string]any)
		if !ok {
			return M{"bad": "document is not a mapping"}
		}
		trees = append(trees, core.DeepCopyVal(t))
		details.ConfigFiles = append(details.ConfigFiles, types.ConfigFile{Filename: fmt.Sprintf("%s/f%d.yaml", root, i), Config: t})
	}
	// the base files as yaml.v3 reads them back (what the model is given as their documents)
	read := M{}
	for _, b := range a.Bases {
		m, err := loader.ParseYAML([]byte(files[b.Name]))
		if err != nil {
			return M{"bad": "base file does not parse: " + err.Error()}
		}
		read[b.Name] = core.EncodeVal(m)
		trees = append(trees, core.DeepCopyVal(m))
	}
	dict, err := loader.LoadModelWithContext(context.Background(), details, func(o *loader.Options) {
		o.SkipExtends, o.SkipInclude = false, true
		o.SkipInterpolation = a.Opts.SkipInterpolation
		o.SkipValidation = a.Opts.SkipValidation
		o.SkipDefaultValues = a.Opts.SkipDefaultValues
		o.ResolvePaths = a.Opts.ResolvePaths
		o.SkipNormalization = a.Opts.SkipNormalization
		o.SetProjectName(a.Name, true)
	})
	out := pipeline.ModelInputs(trees, env)
	out["wd"], out["bases_read"] = root, read
	if err != nil {
		out["err"] = pipeline.StageOf(err.Error())
		out["text"] = err.Error()
		if pipeline.IsSchemaFormat(err.Error()) {
			out["format"] = true
		}
	} else {
		out["ok"] = core.EncodeVal(dict)
	}
	return out
}

func pipeFSDriverArgs(args, real json.RawMessage) any {
	var a map[string]json.RawMessage
	json.Unmarshal(args, &a)
	var r map[string]json.RawMessage
	json.Unmarshal(real, &r)
	out := M{}
	for k, v := range a {
		out[k] = v
	}
	for _, k := range []string{"env", "p64", "p32", "i64", "i32", "omit"} {
		if v, ok := r[k]; ok {
			out[k] = v
		}
	}
	var root string
	json.Unmarshal(r["wd"], &root)
	var read map[string]json.RawMessage
	json.Unmarshal(r["bases_read"], &read)
	var bases []pipeFSBase
	json.Unmarshal(a["bases"], &bases)
	var bs []M
	for _, b := range bases {
		doc, ok := read[b.Name]
		if !ok {
			continue
		}
		abs := filepath.Join(root, b.Name)
		// the reference strings under which the file can be named: as written (two spellings), and absolute — what
		// `ResolveRelativePaths` of an extended file turns a nested `extends.file` into
		// `loader.Dir(refPath)` of the local resource loader: the file's directory RELATIVE to the loader's working directory
		// (`.` or `sub`): the paths inside an extended file come out relative and are made absolute — or not, under
		// `ResolvePaths = false` — by the main pipeline
		reldir, err := filepath.Rel(root, filepath.Dir(abs))
		if err != nil {
			reldir = filepath.Dir(abs)
		}
		for _, ref := range []string{b.Name, "./" + b.Name, abs} {
			bs = append(bs, M{"ref": ref, "reldir": reldir, "docs": []json.RawMessage{doc}})
		}
	}
	out["bases"] = bs
	out["wd"], out["home"], out["mainFile"] = root, "/h", root+"/f0.yaml"
	out["remotes"] = []string{}
	o := M{}
	json.Unmarshal(a["opts"], &o)
	o["extends"] = true
	out["opts"] = o
	return out
}

func init() {
	core.Register("c01pipeFS", &core.CheckDef{
		Real:       realPipeFS,
		DriverOp:   "c01pipeFS",
		DriverArgs: pipeFSDriverArgs,
		Judge: func(args, real, drv json.RawMessage) *core.Verdict {
			v := pipeline.Judge(args, real, drv)
			if f := os.Getenv("VERIF_C01_TRACE"); f != "" { // development aid: the outcome histogram of the stream
				var r struct {
					Err  *string `json:"err"`
					Text string  `json:"text"`
				}
				json.Unmarshal(real, &r)
				line := "ok"
				if r.Err != nil {
					line = "err:" + *r.Err + " | " + r.Text
					if len(line) > 150 {
						line = line[:150]
					}
				}
				if h, err := os.OpenFile(f, os.O_APPEND|os.O_CREATE|os.O_WRONLY, 0o644); err == nil {
					fmt.Fprintf(h, "%v\t%s\n", v == nil, line)
					h.Close()
				}
			}
			return v
		},
		Timeout:    20 * time.Second,
	})
}

func c01PipeFS(ctx *core.Ctx) {
	r := ctx.Rng
	names := []string{"base0.yaml", "base1.yaml", "sub/base1.yaml"}
	spell := func(n string) string {
		if r.Intn(3) == 0 {
			return "./" + n
		}
		return n
	}
	svcOf := func(d M, n string) M {
		svcs, _ := d["services"].(M)
		if svcs == nil {
			svcs = M{}
			d["services"] = svcs
		}
		s, _ := svcs[n].(M)
		if s == nil {
			s = M{"image": "alpine"}
			svcs[n] = s
		}
		return s
	}
	for i := 0; i < ctx.Pick(500, 12000); i++ {
		var bases []M
		bn := []string{names[0], names[1+r.Intn(2)]}
		for range bn {
			bases = append(bases, pipeline.GenDoc(r, []string{"b", "c"}, 1+r.Intn(4)))
		}
		docs := make([]M, 1+r.Intn(2))
		for j := range docs {
			docs[j] = pipeline.GenDoc(r, []string{"a", "b"}, 1+r.Intn(4))
		}
		kind := []string{"cross-file", "cross-file", "cross-file", "nested-other-file", "nested-same-file", "cycle", "missing-file",
			"missing-service", "no-services", "base-load-fails", "with-same-file", "services-not-mapping"}[r.Intn(12)]
		k := r.Intn(2)
		ext := M{"file": spell(bn[k]), "service": "b"}
		svcOf(bases[k], "b")
		switch kind {
		case "nested-other-file":
			// the nested reference is written relative to the directory of the file that holds it
			rel, err := filepath.Rel(filepath.Dir(bn[k]), bn[1-k])
			if err != nil {
				rel = bn[1-k]
			}
			svcOf(bases[k], "b")["extends"] = M{"file": rel, "service": "c"}
			svcOf(bases[1-k], "c")
		case "nested-same-file":
			svcOf(bases[k], "b")["extends"] = []any{"c", M{"service": "c"}}[r.Intn(2)]
			svcOf(bases[k], "c")
		case "cycle":
			rel01, _ := filepath.Rel(filepath.Dir(bn[k]), bn[1-k])
			rel10, _ := filepath.Rel(filepath.Dir(bn[1-k]), bn[k])
			svcOf(bases[k], "b")["extends"] = M{"file": rel01, "service": "c"}
			svcOf(bases[1-k], "c")["extends"] = M{"file": rel10, "service": "b"}
		case "missing-file":
			ext["file"] = []string{"nope.yaml", "sub/nope.yaml", "./base9.yaml"}[r.Intn(3)]
		case "missing-service":
			ext["service"] = "zz"
		case "no-services":
			delete(bases[k], "services")
		case "base-load-fails":
			svcOf(bases[k], "b")["image"] = []any{"${", "${V:?needed}", "$x{"}[r.Intn(3)]
		case "with-same-file":
			svcOf(docs[0], "b")
			svcOf(docs[len(docs)-1], "c")["extends"] = "b"
		case "services-not-mapping":
			bases[k]["services"] = []any{L{}, "x", nil, L{M{"b": M{"image": "i"}}}}[r.Intn(4)]
		}
		svcOf(docs[r.Intn(len(docs))], "a")["extends"] = ext
		o := pipeline.GenOpts(r)
		o.Extends = true
		// relative paths inside the extended files, and the main pipeline not resolving paths: where the anchoring of an
		// extended file (its own directory, relative to the loader's) shows in the result
		anchoring := "plain"
		if r.Intn(2) == 0 {
			for j := range bases {
				for _, n := range []string{"b", "c"} {
					if svcs, ok := bases[j]["services"].(M); ok {
						if sv, ok := svcs[n].(M); ok && r.Intn(2) == 0 {
							switch r.Intn(3) {
							case 0:
								sv["build"] = []any{"./ctx", M{"context": "../up", "dockerfile": "D"}, "."}[r.Intn(3)]
							case 1:
								sv["env_file"] = []any{"e.env", L{"./e.env", M{"path": "../f.env", "required": false}}}[r.Intn(2)]
							default:
								sv["volumes"] = L{"./data:/data", M{"type": "bind", "source": "../src", "target": "/src"}}
							}
						}
					}
				}
			}
			anchoring = "base-has-relative-paths"
			if r.Intn(2) == 0 {
				o.ResolvePaths = false
				anchoring += "+noResolvePaths"
			}
		}
		ctx.Count("pipefs:anchoring:" + anchoring)
		a := pipeFSArgs{Docs: pipeline.EncDocs(docs), Opts: o, Env: pipeline.GenEnv(r), Name: "proj"}
		for j, n := range bn {
			a.Bases = append(a.Bases, pipeFSBase{Name: n, Doc: core.EncodeVal(bases[j])})
		}
		ctx.Count("pipefs:" + kind)
		ctx.Count("pipefs:" + pipeline.OptsKind(o))
		ctx.Add("c01pipeFS", a)
	}
}
