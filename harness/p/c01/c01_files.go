package c01

// C01 — correspondence for service env_file / label_file resolution (Model/C01Files.lean):
//
//	c01files   types.Project.WithServicesEnvironmentResolved + WithServicesLabelsResolved on a materialised directory
//	           vs  C01.Files.resolveService
//
// Disk states per path: absent, parent is a file (ENOTDIR), a directory in its place, a file that parses, a file with a
// syntax error.  (`unreadable` — Open fails on an existing file — is in the model only: the harness runs as root.)
// Compared: ok / error class; for the classes of the property's clause (not found, cannot be read) also that the error
// text names the culprit path.  Loaded files are compared through the variables they define (one marker per file).

import (
	"encoding/json"
	"fmt"
	"os"
	"path/filepath"
	"regexp"
	"sort"
	"strings"

	"github.com/compose-spec/compose-go/v2/types"

	"verifharness/core"
)

type filesEnv struct {
	Path     string `json:"path"`
	Required bool   `json:"required"`
}

type filesArgs struct {
	Disk       map[string]string `json:"disk"` // relative path → state
	EnvFiles   []filesEnv        `json:"env_files"`
	LabelFiles []string          `json:"label_files"`
	SkipEnv    bool              `json:"skip_env"`
}

var (
	reFilesNotFound = regexp.MustCompile(`^(env|label) file .* not found`)
	reFilesRead     = regexp.MustCompile(`is a directory`)
	reFilesOpen     = regexp.MustCompile(`^open `)
)

func init() {
	core.Register("c01files", &core.CheckDef{
		Real: func(raw json.RawMessage) any {
			var a filesArgs
			if err := json.Unmarshal(raw, &a); err != nil {
				return map[string]any{"bad": err.Error()}
			}
			files := map[string]string{}
			for p, st := range a.Disk {
				marker := strings.NewReplacer("/", "_", ".", "_").Replace(p)
				switch st {
				case "file":
					files[p] = "M_" + marker + "=1\n"
				case "badSyntax":
					files[p] = "M_" + marker + "=1\nTHIS LINE=is not dotenv\n"
				case "directory":
					files[p+"/.keep"] = ""
				case "parentIsFile":
					files[filepath.Dir(p)] = "not a directory\n"
				}
			}
			root, err := core.Materialize(files)
			defer os.RemoveAll(root)
			if err != nil {
				return map[string]any{"bad": "materialize: " + err.Error()}
			}
			svc := types.ServiceConfig{Name: "a"}
			for _, e := range a.EnvFiles {
				svc.EnvFiles = append(svc.EnvFiles, types.EnvFile{Path: filepath.Join(root, e.Path), Required: e.Required})
			}
			for _, l := range a.LabelFiles {
				svc.LabelFiles = append(svc.LabelFiles, filepath.Join(root, l))
			}
			p := &types.Project{Name: "p", WorkingDir: root, Services: types.Services{"a": svc}, Environment: types.Mapping{}}
			if !a.SkipEnv {
				if p, err = p.WithServicesEnvironmentResolved(false); err != nil {
					return filesErr(err, root, a)
				}
			}
			if p, err = p.WithServicesLabelsResolved(false); err != nil {
				return filesErr(err, root, a)
			}
			loaded := []string{}
			s := p.Services["a"]
			for _, e := range a.EnvFiles {
				if _, ok := s.Environment["M_"+strings.NewReplacer("/", "_", ".", "_").Replace(e.Path)]; ok && !a.SkipEnv {
					loaded = append(loaded, e.Path)
				}
			}
			for _, l := range a.LabelFiles {
				if _, ok := s.Labels["M_"+strings.NewReplacer("/", "_", ".", "_").Replace(l)]; ok {
					loaded = append(loaded, l)
				}
			}
			return map[string]any{"ok": loaded}
		},
		DriverOp: "c01files",
		Judge: func(args, real, drv json.RawMessage) *core.Verdict {
			if v := core.CrashVerdict(real); v != nil {
				return v
			}
			var r, d struct {
				Ok    []string `json:"ok"`
				Err   string   `json:"err"`
				Path  string   `json:"path"`
				Named *bool    `json:"named"`
				Text  string   `json:"text"`
				Bad   string   `json:"bad"`
			}
			json.Unmarshal(real, &r)
			json.Unmarshal(drv, &d)
			if r.Bad != "" {
				return core.Disagree("harness problem: " + r.Bad)
			}
			// the property's clause, judged on the input alone (no model): the real code answered ok although an entry that it
			// had to read is not there / cannot be read.  (An absent OPTIONAL env file is the one excuse; a syntax error is not
			// this clause and stays a correspondence matter.)
			if r.Err == "" {
				var a filesArgs
				json.Unmarshal(args, &a)
				if !a.SkipEnv {
					for i, e := range a.EnvFiles {
						switch st := a.Disk[e.Path]; {
						case (st == "absent" || st == "parentIsFile") && e.Required:
							return core.Fail("missing-file-accepted:env_file", fmt.Sprintf("required env file %s (entry %d of %v) is %s on disk, the service resolved without error", e.Path, i, a.EnvFiles, st))
						case st == "directory":
							return core.Fail("unreadable-file-accepted:env_file", fmt.Sprintf("env file %s (entry %d of %v) is a directory, the service resolved without error", e.Path, i, a.EnvFiles))
						}
					}
				}
				for i, l := range a.LabelFiles {
					switch st := a.Disk[l]; st {
					case "absent", "parentIsFile":
						return core.Fail("missing-file-accepted:label_file", fmt.Sprintf("label file %s (entry %d of %v) is %s on disk, the service resolved without error", l, i, a.LabelFiles, st))
					case "directory":
						return core.Fail("unreadable-file-accepted:label_file", fmt.Sprintf("label file %s (entry %d of %v) is a directory, the service resolved without error", l, i, a.LabelFiles))
					}
				}
			}
			if (r.Err == "") != (d.Err == "") || r.Err != d.Err {
				return core.Disagree(fmt.Sprintf("Files.resolveService ≠ real: real %q (%s), model %q at %s", r.Err, r.Text, d.Err, d.Path))
			}
			if r.Err == "" {
				// duplicates in the lists collapse in the observation (a marker is present or not)
				if fmt.Sprint(dedupSorted(r.Ok)) != fmt.Sprint(dedupSorted(d.Ok)) {
					return core.Disagree(fmt.Sprintf("files taken differ: real %v, model %v", r.Ok, d.Ok))
				}
				return nil
			}
			if r.Path != d.Path {
				return core.Disagree(fmt.Sprintf("culprit differs: real names %q, model %q (%s)", r.Path, d.Path, r.Text))
			}
			if (r.Err == "notFound" || r.Err == "read" || r.Err == "open") && (r.Named == nil || !*r.Named) {
				return core.Fail("missing-file-unnamed:"+r.Err, "a missing / unreadable env or label file is reported without its path: "+r.Text)
			}
			return nil
		},
	})
}

func dedupSorted(l []string) []string {
	m := map[string]bool{}
	for _, x := range l {
		m[x] = true
	}
	out := []string{}
	for x := range m {
		out = append(out, x)
	}
	sort.Strings(out)
	return out
}

// filesErr classifies an error and finds the list entry it is about (the first entry, in processing order, whose path occurs in the text;
// a parse error does not always carry the path: then the first entry whose file has the syntax error)
func filesErr(err error, root string, a filesArgs) any {
	text := strings.ReplaceAll(err.Error(), root+"/", "")
	cls := "parse"
	switch {
	case reFilesNotFound.MatchString(text):
		cls = "notFound"
	case reFilesRead.MatchString(text):
		cls = "read"
	case reFilesOpen.MatchString(text):
		cls = "open"
	}
	var order []string
	if !a.SkipEnv {
		for _, e := range a.EnvFiles {
			order = append(order, e.Path)
		}
	}
	order = append(order, a.LabelFiles...)
	path, named := "", false
	for _, p := range order {
		if strings.Contains(text, p) {
			path, named = p, true
			break
		}
	}
	if !named && cls == "parse" {
		for _, p := range order {
			if a.Disk[p] == "badSyntax" {
				path = p
				break
			}
		}
	}
	return map[string]any{"err": cls, "path": path, "named": named, "text": text}
}

func c01Files(ctx *core.Ctx) {
	states := []string{"absent", "parentIsFile", "directory", "file", "badSyntax"}
	paths := []string{"x/a.env", "d/b.env", "y/c.labels", "e/f.labels"} // one directory each: `parentIsFile` of one leaves the others alone
	for n := 0; n < ctx.Pick(600, 20000); n++ {
		a := filesArgs{Disk: map[string]string{}, SkipEnv: ctx.Rng.Intn(6) == 0}
		for _, p := range paths {
			// mostly present, so that later entries of the lists are reached
			st := "file"
			if ctx.Rng.Intn(3) == 0 {
				st = states[ctx.Rng.Intn(len(states))]
			}
			a.Disk[p] = st
			ctx.Count("files-state-" + st)
		}
		
		for i, k := 0, ctx.Rng.Intn(4); i < k; i++ {
			a.EnvFiles = append(a.EnvFiles, filesEnv{Path: paths[ctx.Rng.Intn(2)], Required: ctx.Rng.Intn(2) == 0})
		}
		for i, k := 0, ctx.Rng.Intn(3); i < k; i++ {
			a.LabelFiles = append(a.LabelFiles, paths[2+ctx.Rng.Intn(2)])
		}
		ctx.Add("c01files", a)
	}
}
