package c01

// C01 — whole-load oracle, stream (k): SEVERAL loads overlapping in time in ONE process (round 7).
//
// Every other stream of the property loads one project at a time: the serve child of a lane answers its cases one after
// the other.  "Loading never crashes" is a statement about the process, though, and a process that loads two projects
// from two goroutines — each load with its own ConfigDetails, environment and options, nothing shared by the caller —
// can die in a way no sequential run shows: the Go runtime ends it with the unrecoverable `fatal error: concurrent map
// writes` (`… map read and map write`, `… map iteration and map write`) when two loads store into one package-level map
// (a memo table, a lazily filled cache, a "seen" set).  No load returns a project or an error; recover() cannot catch it.
//
// The class, not one site:
//
//   - COLD START: the loads are the first loads of a FRESH process (a `-serve` grandchild started for the case), released
//     together from a barrier — whatever is initialised lazily on first use is initialised by several goroutines at once;
//   - documents with `!reset` / `!override` in an override file: those stages work with document-specific paths, which
//     are new to any process-wide table on every load, warm or not;
//   - DIFFERENT documents per goroutine (service names, attribute sets, option sets, entry points; a share of malformed
//     ones so that the error paths overlap too), each repeated a few times so that warm and cold loads overlap as well.
//
// Judged: the process survives (`fatal:<class>` otherwise, with the innermost compose-go frame of the dying goroutine in
// the message), no load panics, every load returns a project xor an error, and the concurrent outcome class (ok / err) of
// every load equals the class of the same load run alone afterwards in the same process (first three documents of a case;
// the others: equal to their own first round).  Replay = the list of loads.
//
// Source side of the same clause: Props/C01Conc.lean pins the regenerated list of post-init writes to package-level
// variables on the load path (Gen/Globals.lean).

import (
	"bufio"
	"bytes"
	"context"
	"encoding/json"
	"fmt"
	"math/rand"
	"os"
	"os/exec"
	"regexp"
	"runtime/debug"
	"sort"
	"strings"
	"sync"
	"time"

	"github.com/compose-spec/compose-go/v2/loader"

	"verifharness/core"
)

type concLoad struct {
	Req  core.LoadReq `json:"req"`
	Mode string       `json:"mode,omitempty"` // "" = loader.LoadWithContext | "model" = loader.LoadModelWithContext
}

type concArgs struct {
	Loads  []concLoad `json:"loads"`  // one goroutine each
	Repeat int        `json:"repeat"` // loads per goroutine (the first round is the cold one)
	Procs  int        `json:"procs"`  // GOMAXPROCS of the fresh process
	Shape  string     `json:"shape"`
}

const concInnerOp = "c01concInner"
const concRefLoads = 3

func init() {
	core.Register("c01conc", &core.CheckDef{Real: realConcOuter, Judge: judgeConc, Timeout: 60 * time.Second})
	// the body that runs inside the fresh process; never scheduled as a case of its own
	core.Register(concInnerOp, &core.CheckDef{Real: realConcInner, Judge: judgeConc, Timeout: 60 * time.Second})
}

// ---- inner: the loads, inside the fresh process

func concOne(l concLoad, root string) (res any) {
	return core.SafeCall(func() any {
		details := l.Req.Details(root)
		if l.Mode == "model" {
			dict, err := loader.LoadModelWithContext(context.Background(), details, c01Options(l.Req))
			return c01Outcome(dict != nil, err, root)
		}
		p, err := loader.LoadWithContext(context.Background(), details, c01Options(l.Req))
		return c01Outcome(p != nil, err, root)
	})
}

func concClass(v any) string {
	m, _ := v.(map[string]any)
	switch {
	case m == nil:
		return "bad"
	case m["panic"] != nil:
		return "panic"
	case m["also_result"] != nil:
		return "both"
	case m["bad_neither"] != nil:
		return "neither"
	case m["err"] != nil:
		return "err"
	case m["ok"] != nil:
		return "ok"
	}
	return "bad"
}

func realConcInner(raw json.RawMessage) any {
	var a concArgs
	if err := json.Unmarshal(raw, &a); err != nil {
		return map[string]any{"bad": err.Error()}
	}
	debug.SetMaxStack(64 << 20)
	roots := make([]string, len(a.Loads))
	for i, l := range a.Loads {
		root, err := core.Materialize(l.Req.Files)
		roots[i] = root
		defer os.RemoveAll(root)
		if err != nil {
			return map[string]any{"bad": "materialize: " + err.Error()}
		}
	}
	if a.Repeat < 1 {
		a.Repeat = 1
	}
	// nothing of compose-go has run in this process so far: the goroutines are released together
	out := make([][]any, len(a.Loads))
	start := make(chan struct{})
	var wg sync.WaitGroup
	for i := range a.Loads {
		wg.Add(1)
		go func(i int) {
			defer wg.Done()
			<-start
			for r := 0; r < a.Repeat; r++ {
				out[i] = append(out[i], concOne(a.Loads[i], roots[i]))
			}
		}(i)
	}
	close(start)
	wg.Wait()
	// the same loads alone, one after the other (reference classes)
	// (the first concRefLoads documents only: the reference runs are the larger part of the cost of a cold-only case;
	// the others are compared with their own first outcome)
	classes := make([]string, len(a.Loads))
	for i, rs := range out {
		alone := concClass(rs[0])
		if i < concRefLoads {
			alone = concClass(concOne(a.Loads[i], roots[i]))
		}
		classes[i] = alone
		for r, v := range rs {
			switch c := concClass(v); {
			case c == "panic":
				m := v.(map[string]any)
				m["load"], m["round"] = i, r
				return m
			case c == "both" || c == "neither" || c == "bad":
				return map[string]any{"broken": c, "load": i, "round": r}
			case c != alone:
				return map[string]any{"differs": fmt.Sprintf("%s concurrently, %s alone", c, alone), "load": i, "round": r, "outcome": v}
			}
		}
	}
	return map[string]any{"ok": true, "classes": classes}
}

// ---- outer: start the fresh process, watch it

var concFrameRe = regexp.MustCompile(`github\.com/compose-spec/compose-go/v2/([A-Za-z0-9_/]+\.[A-Za-z0-9_.()*]+)\(`)

func concFatal(stderr string) (class, site string) {
	class = "died"
	lines := strings.Split(stderr, "\n")
	at := -1
	for i, l := range lines {
		if strings.HasPrefix(l, "fatal error:") {
			class, at = strings.TrimSpace(strings.TrimPrefix(l, "fatal error:")), i
			break
		}
		if strings.HasPrefix(l, "runtime: goroutine stack exceeds") {
			class, at = "stack overflow", i
			break
		}
		if strings.HasPrefix(l, "panic:") && at < 0 {
			class, at = "unrecovered panic", i
		}
	}
	if at >= 0 {
		if m := concFrameRe.FindStringSubmatch(strings.Join(lines[at:], "\n")); m != nil {
			site = m[1]
		}
	}
	return class, site
}

func realConcOuter(raw json.RawMessage) any {
	var a concArgs
	if err := json.Unmarshal(raw, &a); err != nil {
		return map[string]any{"bad": err.Error()}
	}
	self, err := os.Executable()
	if err != nil {
		return map[string]any{"bad": err.Error()}
	}
	if a.Procs < 2 {
		a.Procs = 2
	}
	line, _ := json.Marshal(map[string]any{"id": 0, "op": concInnerOp, "args": json.RawMessage(raw)})
	ctx, cancel := context.WithTimeout(context.Background(), 40*time.Second)
	defer cancel()
	cmd := exec.CommandContext(ctx, self, "-serve")
	cmd.Env = append(os.Environ(), fmt.Sprintf("GOMAXPROCS=%d", a.Procs), "GOMEMLIMIT=2GiB", "GOTRACEBACK=all")
	cmd.Stdin = bytes.NewReader(append(line, '\n'))
	var stdout, stderr bytes.Buffer
	cmd.Stdout, cmd.Stderr = &stdout, &stderr
	runErr := cmd.Run()
	if ctx.Err() != nil {
		return map[string]any{"hang": ">40s"}
	}
	// the answer, if the process lived long enough to give one
	sc := bufio.NewScanner(&stdout)
	sc.Buffer(make([]byte, 1<<20), 64<<20)
	for sc.Scan() {
		var w struct {
			ID  int             `json:"id"`
			Out json.RawMessage `json:"out"`
		}
		if json.Unmarshal(sc.Bytes(), &w) == nil && w.Out != nil {
			var v any
			if json.Unmarshal(w.Out, &v) == nil {
				return v
			}
		}
	}
	class, site := concFatal(stderr.String())
	res := map[string]any{"fatal": class, "site": site}
	if runErr != nil {
		res["exit"] = runErr.Error()
	}
	return res
}

func judgeConc(args, real, _ json.RawMessage) *core.Verdict {
	var r map[string]any
	json.Unmarshal(real, &r)
	if _, ok := r["fatal"]; ok {
		return core.Fail(fmt.Sprintf("fatal:%v", r["fatal"]),
			fmt.Sprintf("the process that runs these loads concurrently dies: %v (in %v) — no load returns a project or an error", r["fatal"], r["site"]))
	}
	if v := core.CrashVerdict(real); v != nil {
		return v
	}
	if b, ok := r["broken"]; ok {
		return core.Fail(fmt.Sprintf("concurrent-load:%v", b), fmt.Sprintf("load %v (round %v) returns %v a project and an error when run beside the others", r["load"], r["round"], b))
	}
	if d, ok := r["differs"]; ok {
		return core.Fail("concurrent-load:differs", fmt.Sprintf("load %v (round %v): %v", r["load"], r["round"], d))
	}
	if r["ok"] != true {
		return core.Disagree("c01conc: unexpected outcome " + string(real))
	}
	return nil
}

// ---- generator

// concOverride: an override file for service `name` that resets / overrides some of the attributes of svc
func concOverride(ctx *core.Ctx, name string, svc M) (string, int) {
	keys := make([]string, 0, len(svc))
	for k := range svc {
		keys = append(keys, k)
	}
	sort.Strings(keys)
	var b strings.Builder
	fmt.Fprintf(&b, "services:\n  %s:\n", name)
	n := 0
	for _, k := range keys {
		switch ctx.Rng.Intn(4) {
		case 0:
			fmt.Fprintf(&b, "    %s: !reset null\n", k)
			n++
		case 1:
			fmt.Fprintf(&b, "    %s: !override %s\n", k, toYAML(svc[k]))
			n++
		case 2:
			// one level down, where the attribute is a mapping: the path is document-specific below the attribute
			if m, ok := svc[k].(M); ok && len(m) > 0 {
				sub := make([]string, 0, len(m))
				for sk := range m {
					sub = append(sub, sk)
				}
				sort.Strings(sub)
				fmt.Fprintf(&b, "    %s:\n      %q: !reset null\n", k, sub[ctx.Rng.Intn(len(sub))])
				n++
			}
		}
	}
	if n == 0 {
		fmt.Fprintf(&b, "    image: !override busybox\n")
		n = 1
	}
	return b.String(), n
}

func c01Concurrent(ctx *core.Ctx) {
	// the stream runs first but must not shift the draws of the streams behind it (their inputs per VERIF_SEED stay what
	// they were before round 7): it draws from a generator of its own, seeded from VERIF_SEED, installed as ctx.Rng while it runs
	saved := ctx.Rng
	ctx.Rng = rand.New(rand.NewSource(ctx.Seed*7919 + 701))
	defer func() { ctx.Rng = saved }()
	keys := make([]string, 0, len(c01ServiceCatalogue))
	for k := range c01ServiceCatalogue {
		keys = append(keys, k)
	}
	sort.Strings(keys)
	tops := []string{"configs", "networks", "secrets", "volumes"}
	// measured on a tree with an unsynchronised process-wide memo table (round 7): a case with >= 4 goroutines on >= 4
	// procs kills the fresh process in about half of the runs, whatever the number of repeats (the cold start does it);
	// 2 procs or 2-3 goroutines do so far less often — kept as a small share only
	for n := 0; n < ctx.Pick(30, 600); n++ {
		workers := []int{2, 4, 4, 6, 8, 8, 12}[ctx.Rng.Intn(7)]
		a := concArgs{Repeat: []int{1, 1, 1, 2, 3}[ctx.Rng.Intn(5)], Procs: []int{2, 4, 4, 8, 8, 8, 16}[ctx.Rng.Intn(7)]}
		resets, malformed := 0, 0
		same := ctx.Rng.Intn(6) == 0 // now and then every goroutine loads the SAME document (own copy on disk)
		var first *concLoad
		for w := 0; w < workers; w++ {
			if same && first != nil {
				a.Loads = append(a.Loads, *first)
				continue
			}
			den := []int{4, 8, 2}[ctx.Rng.Intn(3)]
			svc := M{}
			for _, k := range keys {
				if ctx.Rng.Intn(den) == 0 {
					vs := c01ServiceCatalogue[k]
					svc[k] = c01DeepCopy(vs[ctx.Rng.Intn(len(vs))])
				}
			}
			top := c01NeededTop(svc)
			for _, t := range tops {
				if _, ok := top[t]; ok || ctx.Rng.Intn(3) == 0 {
					vs := c01TopCatalogue[t]["a"]
					top[t] = vs[ctx.Rng.Intn(len(vs))]
				}
			}
			if ctx.Rng.Intn(8) == 0 && len(svc) > 0 {
				// a malformed share: one attribute gets a value of another kind (error paths overlap as well)
				ks := make([]string, 0, len(svc))
				for k := range svc {
					ks = append(ks, k)
				}
				sort.Strings(ks)
				kv := c01KindValues[ctx.Rng.Intn(len(c01KindValues))]
				svc[ks[ctx.Rng.Intn(len(ks))]] = kv.vals[ctx.Rng.Intn(len(kv.vals))]
				malformed++
			}
			req := c01ValidDoc(svc, top)
			// a different document per goroutine: the service is named after the worker
			name := fmt.Sprintf("w%d_%d", w, ctx.Rng.Intn(1000))
			doc := M{"services": M{name: svc, "b": M{"image": "busybox", "healthcheck": M{"test": "true"}}}}
			for k, v := range top {
				doc[k] = M{"a": v}
			}
			req.Files["compose.yml"] = toYAML(doc)
			if ctx.Rng.Intn(3) != 0 {
				over, k := concOverride(ctx, name, svc)
				req.Files["over.yml"] = over
				req.ConfigFiles = append(req.ConfigFiles, "over.yml")
				resets += k
			}
			if ctx.Rng.Intn(5) == 0 {
				applyOptionBits(req, ctx.Rng.Intn(1024))
			}
			l := concLoad{Req: *req}
			if ctx.Rng.Intn(6) == 0 {
				l.Mode = "model"
			}
			a.Loads = append(a.Loads, l)
			if first == nil {
				first = &a.Loads[0]
			}
		}
		a.Shape = fmt.Sprintf("conc/%d-goroutines", workers)
		ctx.Count(fmt.Sprintf("conc-goroutines-%d", workers))
		ctx.Count(fmt.Sprintf("conc-procs-%d", a.Procs))
		if same {
			ctx.Count("conc-same-document")
		} else {
			ctx.Count("conc-different-documents")
		}
		if resets > 0 {
			ctx.Count("conc-with-reset-override")
		} else {
			ctx.Count("conc-no-reset-override")
		}
		if malformed > 0 {
			ctx.Count("conc-with-malformed")
		}
		if a.Repeat > 1 {
			ctx.Count("conc-cold-then-warm")
		} else {
			ctx.Count("conc-cold-only")
		}
		ctx.Add("c01conc", a)
	}
}
