package c20

// C20 direct oracle: the property decided on the real code alone.
//
// One case = a compose model (1..3 files: single / override / include layouts) whose secrets and configs
// are of every source kind, an environment whose values are unique canaries, and the list of what was
// generated.  The real runner loads it, renders the project with every renderer × mode, and reports:
//   leak:*             a canary (searched by its alphanumeric core in the raw bytes, and by its full value
//                      in every key / string of the decoded output) occurs where it must not
//   content-inexact:*  with secret content requested, `secrets.<n>.content` is not exactly the value
//   config-source:*    an environment config does not render `environment: VAR` without `content`
//   *-value-unavailable the loaded project does not carry the value
//   mutated:*          rendering changed the project (deep dump before / after, unexported flag included)

import (
	"bytes"
	"context"
	"encoding/json"
	"fmt"
	"os"
	"reflect"
	"sort"
	"strings"
	"time"

	"github.com/compose-spec/compose-go/v2/loader"
	"github.com/compose-spec/compose-go/v2/types"
	"gopkg.in/yaml.v3"

	"verifharness/core"
)

type leakRes struct {
	Name string `json:"name"`
	Kind string `json:"kind"` // file | environment | content | external
	Var  string `json:"var,omitempty"`
	Inc  bool   `json:"inc,omitempty"` // declared in the included file: resolved with the include's own environment first
}

type leakArgs struct {
	Files           map[string]json.RawMessage `json:"files"`        // relative file name → tagged tree
	ConfigFiles     []string                   `json:"config_files"` // compose files given to the loader, in order
	Env             map[string]string          `json:"env"`
	Cores           map[string]string          `json:"cores"`               // variable → alphanumeric core of its value
	RawFiles        map[string]string          `json:"raw_files,omitempty"` // files written as they are (env files of an include)
	IncEnv          map[string]string          `json:"inc_env,omitempty"`   // what the include's env file (env_file: or .env of its project directory) defines
	IncCores        map[string]string          `json:"inc_cores,omitempty"` // variable → core of its value in the include's env file
	PName           string                     `json:"pname"`
	Secrets         []leakRes                  `json:"secrets"`
	Configs         []leakRes                  `json:"configs"`
	SkipValidation  bool                       `json:"skip_validation,omitempty"`
	SkipConsistency bool                       `json:"skip_consistency,omitempty"`
	Malformed       bool                       `json:"malformed,omitempty"`
	Opts            *loadOpts                  `json:"opts,omitempty"` // round 6: loader options that change what later stages see
	Pre             *preSpec                   `json:"pre,omitempty"`  // round 7: the compose files are handed over already parsed (types.ConfigFile.Config), with shared Go values
}

type leakFail struct {
	Key  string `json:"key"`
	What string `json:"what"`
}

// dumpValue writes a deterministic deep dump of v (maps sorted, pointers followed, unexported fields included).
func dumpValue(v reflect.Value, b *strings.Builder, depth int) {
	if depth > 40 {
		b.WriteString("<deep>")
		return
	}
	switch v.Kind() {
	case reflect.Invalid:
		b.WriteString("<invalid>")
	case reflect.Bool:
		fmt.Fprintf(b, "%t", v.Bool())
	case reflect.Int, reflect.Int8, reflect.Int16, reflect.Int32, reflect.Int64:
		fmt.Fprintf(b, "%d", v.Int())
	case reflect.Uint, reflect.Uint8, reflect.Uint16, reflect.Uint32, reflect.Uint64, reflect.Uintptr:
		fmt.Fprintf(b, "%d", v.Uint())
	case reflect.Float32, reflect.Float64:
		fmt.Fprintf(b, "%g", v.Float())
	case reflect.String:
		fmt.Fprintf(b, "%q", v.String())
	case reflect.Ptr, reflect.Interface:
		if v.IsNil() {
			b.WriteString("nil")
			return
		}
		b.WriteString("&")
		dumpValue(v.Elem(), b, depth+1)
	case reflect.Slice, reflect.Array:
		if v.Kind() == reflect.Slice && v.IsNil() {
			b.WriteString("nil[]")
			return
		}
		b.WriteString("[")
		for i := 0; i < v.Len(); i++ {
			dumpValue(v.Index(i), b, depth+1)
			b.WriteString(",")
		}
		b.WriteString("]")
	case reflect.Map:
		if v.IsNil() {
			b.WriteString("nil{}")
			return
		}
		type kv struct {
			k string
			v reflect.Value
		}
		var l []kv
		it := v.MapRange()
		for it.Next() {
			var kb strings.Builder
			dumpValue(it.Key(), &kb, depth+1)
			l = append(l, kv{kb.String(), it.Value()})
		}
		sort.Slice(l, func(i, j int) bool { return l[i].k < l[j].k })
		b.WriteString("{")
		for _, e := range l {
			b.WriteString(e.k)
			b.WriteString(":")
			dumpValue(e.v, b, depth+1)
			b.WriteString(",")
		}
		b.WriteString("}")
	case reflect.Struct:
		b.WriteString(v.Type().Name())
		b.WriteString("{")
		for i := 0; i < v.NumField(); i++ {
			b.WriteString(v.Type().Field(i).Name)
			b.WriteString(":")
			dumpValue(v.Field(i), b, depth+1)
			b.WriteString(",")
		}
		b.WriteString("}")
	default:
		fmt.Fprintf(b, "<%s>", v.Kind())
	}
}

func dumpProject(p *types.Project) string {
	var b strings.Builder
	dumpValue(reflect.ValueOf(p), &b, 0)
	return b.String()
}

// treeHas reports whether s occurs in a key or a string leaf of the decoded output.
func treeHas(v any, s string) bool {
	switch x := v.(type) {
	case string:
		return strings.Contains(x, s)
	case map[string]any:
		for k, e := range x {
			if strings.Contains(k, s) || treeHas(e, s) {
				return true
			}
		}
	case []any:
		for _, e := range x {
			if treeHas(e, s) {
				return true
			}
		}
	}
	return false
}

func lookupPath(v any, path ...string) (any, bool) {
	for _, k := range path {
		m, ok := v.(map[string]any)
		if !ok {
			return nil, false
		}
		v, ok = m[k]
		if !ok {
			return nil, false
		}
	}
	return v, true
}

type rendering struct {
	name     string // yaml | json | yaml-direct | json-direct
	content  bool
	bytes    []byte
	tree     any
	parseErr error
}

// yamlV3Loses reports whether yaml.v3 alone fails to carry the multi-line string v through an
// encode / decode round trip at the position and indentation Project.MarshalYAML uses
// (upstream encoder defects with block scalars: a leading newline is dropped, a first line made of
// a tab yields text the decoder rejects).  Single-line strings always survive.
func yamlV3Loses(v string) bool {
	if !strings.Contains(v, "\n") {
		return false
	}
	var buf bytes.Buffer
	enc := yaml.NewEncoder(&buf)
	enc.SetIndent(2)
	if err := enc.Encode(map[string]any{"secrets": map[string]any{"s": map[string]any{"content": v}}}); err != nil {
		return true
	}
	var back map[string]map[string]map[string]any
	if err := yaml.Unmarshal(buf.Bytes(), &back); err != nil {
		return true
	}
	return back["secrets"]["s"]["content"] != v
}

func renderAll(p *types.Project, direct bool) ([]rendering, error) {
	var out []rendering
	for _, asJSON := range []bool{false, true} {
		for _, content := range []bool{false, true} {
			b, err := renderProject(p, asJSON, content)
			if err != nil {
				return nil, fmt.Errorf("marshal: %w", err)
			}
			n := "yaml"
			if asJSON {
				n = "json"
			}
			out = append(out, rendering{name: n, content: content, bytes: b})
		}
	}
	// history: a plain rendering made after the ones with content requested must be as clean as the first
	for _, asJSON := range []bool{false, true} {
		b, err := renderProject(p, asJSON, false)
		if err != nil {
			return nil, fmt.Errorf("marshal: %w", err)
		}
		n := "yaml-after-content"
		if asJSON {
			n = "json-after-content"
		}
		out = append(out, rendering{name: n, bytes: b})
	}
	if direct {
		if b, err := yaml.Marshal(p); err == nil {
			out = append(out, rendering{name: "yaml-direct", bytes: b})
		}
		if b, err := json.Marshal(p); err == nil {
			out = append(out, rendering{name: "json-direct", bytes: b})
		}
	}
	for i := range out {
		var err error
		if strings.HasPrefix(out[i].name, "json") {
			out[i].tree, err = jsonToTree(out[i].bytes)
		} else {
			out[i].tree, err = yamlToTree(out[i].bytes)
		}
		out[i].parseErr = err
	}
	return out, nil
}

func modeName(content bool) string {
	if content {
		return "with-content"
	}
	return "default"
}

func realLeak(raw json.RawMessage) any {
	var a leakArgs
	if err := json.Unmarshal(raw, &a); err != nil {
		return map[string]any{"bad": err.Error()}
	}
	files := map[string]string{}
	for n, t := range a.Files {
		d := core.DecodeValRaw(t)
		text, err := yaml.Marshal(d)
		if err != nil {
			return map[string]any{"bad": "yaml emit: " + err.Error()}
		}
		back, err := yamlToTree(text)
		if err != nil || !reflect.DeepEqual(back, normTree(d)) {
			return map[string]any{"bad": "yaml emit/parse round trip differs"}
		}
		files[n] = string(text)
	}
	for n, t := range a.RawFiles {
		files[n] = t
	}
	req := core.LoadReq{Files: files, ConfigFiles: a.ConfigFiles, Env: a.Env, ProjectName: a.PName,
		SkipValidation: a.SkipValidation, SkipConsistencyCheck: a.SkipConsistency}
	root, err := core.Materialize(req.Files)
	defer os.RemoveAll(root)
	if err != nil {
		return map[string]any{"bad": "materialize: " + err.Error()}
	}
	details := req.Details(root)
	// round 7: the model as a program builds it — already parsed, one Go map / slice value placed at several positions
	var callerDicts []map[string]any
	var callerBefore []string
	if a.Pre != nil {
		for i, f := range a.ConfigFiles {
			var d map[string]any
			if err := yaml.Unmarshal([]byte(files[f]), &d); err != nil {
				return map[string]any{"bad": "pre-parse: " + err.Error()}
			}
			if i == 0 {
				if err := a.Pre.share(d); err != nil {
					return map[string]any{"bad": "pre-parse: " + err.Error()}
				}
			}
			details.ConfigFiles[i].Config = d
			callerDicts = append(callerDicts, d)
			callerBefore = append(callerBefore, dumpTree(d))
		}
	}
	callerUnchanged := func() (string, bool) {
		for i, d := range callerDicts {
			if after := dumpTree(d); after != callerBefore[i] {
				return fmt.Sprintf("the caller's parsed model of %s was modified by the load: before %s, after %s", a.ConfigFiles[i], callerBefore[i], after), false
			}
		}
		return "", true
	}
	p, err := loader.LoadWithContext(context.Background(), details, func(o *loader.Options) {
		o.SkipValidation = a.SkipValidation
		o.SkipConsistencyCheck = a.SkipConsistency
		o.ResolvePaths = true
		if a.PName != "" {
			o.SetProjectName(a.PName, true)
		}
		a.Opts.apply(o)
	})
	if err != nil {
		// an error message is a rendering too: the loader must not quote a resolved value in it
		if !a.Malformed {
			for v, c := range a.Cores {
				if strings.Contains(err.Error(), c) {
					return map[string]any{"ok": map[string]any{"fails": []leakFail{{"leak:error-message", fmt.Sprintf("the load error quotes the value of %q: %s", v, core.ScrubErr(err, root))}}}}
				}
			}
			for v, c := range a.IncCores {
				if strings.Contains(err.Error(), c) {
					return map[string]any{"ok": map[string]any{"fails": []leakFail{{"leak:error-message", fmt.Sprintf("the load error quotes the value of %q (include env file): %s", v, core.ScrubErr(err, root))}}}}
				}
			}
		}
		if what, ok := callerUnchanged(); !ok && !a.Malformed {
			return map[string]any{"ok": map[string]any{"fails": inPlaceKeys(&a, []leakFail{{"mutated:caller-model", what}})}}
		}
		return map[string]any{"err": "rejected", "class": classifyLoadErr(err.Error()), "text": core.ScrubErr(err, root)}
	}
	var fails []leakFail
	add := func(key, format string, args ...any) {
		for _, f := range fails {
			if f.Key == key {
				return
			}
		}
		fails = append(fails, leakFail{key, fmt.Sprintf(format, args...)})
	}

	// the value a resource is resolved with: the loader's environment first; a resource declared in an included
	// file falls back on what the include's own env file defines (include.go: environment.Clone().Merge(envFromFile),
	// and the second resolution by the including model keeps a value it cannot resolve itself)
	effective := func(r leakRes) (val string, set bool, scope string) {
		if v, ok := a.Env[r.Var]; ok {
			return v, true, "top"
		}
		if r.Inc {
			if v, ok := a.IncEnv[r.Var]; ok {
				return v, true, "inc"
			}
		}
		return "", false, ""
	}
	// what was generated, by variable
	kindOfVar := map[string]string{}  // var → secret | config
	nSecretsOfVar := map[string]int{} // scope:var → number of secrets carrying that value
	for _, s := range a.Secrets {
		if s.Kind == "environment" {
			kindOfVar[s.Var] = "secret"
			if _, set, scope := effective(s); set {
				nSecretsOfVar[scope+":"+s.Var]++
			}
		}
	}
	for _, c := range a.Configs {
		if c.Kind == "environment" {
			if _, dup := kindOfVar[c.Var]; !dup {
				kindOfVar[c.Var] = "config"
			}
		}
	}
	type canaryUse struct{ v, scope, core, val string }
	var uses []canaryUse
	for v, c := range a.Cores {
		uses = append(uses, canaryUse{v, "top", c, a.Env[v]})
	}
	for v, c := range a.IncCores {
		uses = append(uses, canaryUse{v, "inc", c, a.IncEnv[v]})
	}
	sort.Slice(uses, func(i, j int) bool {
		if uses[i].scope != uses[j].scope {
			return uses[i].scope > uses[j].scope
		}
		return uses[i].v < uses[j].v
	})
	suffix := func(v string) string {
		if v == "" {
			return ":empty-variable-name"
		}
		return ""
	}
	kindOf := func(v string) string {
		if k, ok := kindOfVar[v]; ok {
			return k
		}
		return "unused"
	}

	// 1. the value is available on the loaded project
	if !a.Malformed {
		for _, s := range a.Secrets {
			if s.Kind != "environment" {
				continue
			}
			want, set, scope := effective(s)
			got, ok := p.Secrets[s.Name]
			if !ok {
				add("secret-missing", "secret %q is not on the loaded project", s.Name)
			} else if s.Var == "" && got.Content != "" {
				add("secret-value-invented:empty-variable-name", "Secrets[%q].Content = %q although its source variable is the empty name", s.Name, got.Content)
			} else if s.Var != "" && set && got.Content != want {
				key := "secret-value-unavailable"
				if scope == "inc" {
					key += ":included"
				}
				add(key, "Secrets[%q].Content = %q, environment[%q] = %q (%s)", s.Name, got.Content, s.Var, want, scope)
			} else if !set && got.Content != "" {
				add("secret-value-invented", "Secrets[%q].Content = %q but %q is unset", s.Name, got.Content, s.Var)
			}
			if ok && types.VerifSecretMarshallContent(got) {
				add("flag-set-on-load", "Secrets[%q] is loaded with marshallContent = true", s.Name)
			}
		}
		for _, c := range a.Configs {
			if c.Kind != "environment" {
				continue
			}
			// a config of an included file is resolved by the including model only (loadYamlModel leaves the configs
			// of an included model as written since repo a87ef4e): the include's env file does not reach it
			want, set := a.Env[c.Var]
			got, ok := p.Configs[c.Name]
			if !ok {
				add("config-missing", "config %q is not on the loaded project", c.Name)
			} else if c.Var == "" && got.Content != "" {
				// no variable has an empty name: nothing is resolved (fix of leak:config:empty-variable-name)
				add("config-value-invented:empty-variable-name", "Configs[%q].Content = %q although its source variable is the empty name", c.Name, got.Content)
			} else if c.Var != "" && set && got.Content != want {
				add("config-value-unavailable", "Configs[%q].Content = %q, environment[%q] = %q", c.Name, got.Content, c.Var, want)
			}
		}
	}

	before := dumpProject(p)
	check := func(p *types.Project, label string, direct bool) {
		rs, err := renderAll(p, direct)
		if err != nil {
			add("render-error"+label, "%v", err)
			return
		}
		for _, r := range rs {
			text := string(r.bytes)
			for _, u := range uses {
				v, core_, val := u.v, u.core, u.val
				n := strings.Count(text, core_)
				inTree := val != "" && treeHas(r.tree, val)
				kind := kindOf(v)
				allowed := 0
				if r.content && kind == "secret" {
					allowed = nSecretsOfVar[u.scope+":"+v]
				}
				if !r.content || kind != "secret" {
					if n > 0 || inTree {
						add(fmt.Sprintf("leak:%s:%s%s%s", kind, r.name, label, suffix(v)),
							"the value of %q (%s) occurs %d time(s) in the %s rendering (%s)", v, kind, n, r.name, modeName(r.content))
					}
				} else if n > allowed {
					add(fmt.Sprintf("leak:secret:%s:elsewhere%s", r.name, label),
						"with content requested the value of %q occurs %d times in the %s rendering, %d secret(s) carry it", v, n, r.name, allowed)
				}
			}
			if r.parseErr != nil {
				lossy := false
				for _, s := range a.Secrets {
					val, _, _ := effective(s)
					lossy = lossy || (s.Kind == "environment" && yamlV3Loses(val))
				}
				if r.content && r.name == "yaml" && lossy {
					add("content-inexact:yaml:yaml.v3-multiline-roundtrip", "the yaml rendering with content does not parse: %v", r.parseErr)
				} else if !a.Malformed {
					add("render-unparseable:"+r.name+label, "the %s rendering (%s) does not parse: %v", r.name, modeName(r.content), r.parseErr)
				}
				continue
			}
			if label != "" || a.Malformed || strings.HasSuffix(r.name, "-direct") || strings.HasSuffix(r.name, "-after-content") {
				continue
			}
			// exactness of requested content; source of environment configs
			for _, s := range a.Secrets {
				if s.Kind != "environment" {
					continue
				}
				want, set, _ := effective(s)
				got, has := lookupPath(r.tree, "secrets", s.Name, "content")
				switch {
				case r.content && set && want != "" && !has:
					add("content-missing:"+r.name, "secrets.%s.content is absent from the %s rendering although content was requested", s.Name, r.name)
				case r.content && set && want != "" && got != want && r.name == "yaml" && yamlV3Loses(want):
					add("content-inexact:yaml:yaml.v3-multiline-roundtrip", "secrets.%s.content = %q in the yaml rendering, value is %q (yaml.v3 block scalar)", s.Name, got, want)
				case r.content && set && want != "" && got != want:
					add("content-inexact:"+r.name, "secrets.%s.content = %q in the %s rendering, value is %q", s.Name, got, r.name, want)
				case r.content && (!set || want == "") && has && got != "":
					add("content-invented:"+r.name, "secrets.%s.content = %q but the variable is unset/empty", s.Name, got)
				case !r.content && has:
					add("content-rendered:"+r.name, "secrets.%s.content is present in the default %s rendering", s.Name, r.name)
				}
				if src, ok := lookupPath(r.tree, "secrets", s.Name, "environment"); s.Var != "" && (!ok || src != s.Var) {
					add("secret-source:"+r.name, "secrets.%s.environment = %v in the %s rendering, want %q", s.Name, src, r.name, s.Var)
				}
			}
			for _, c := range a.Configs {
				if c.Kind != "environment" {
					continue
				}
				if src, ok := lookupPath(r.tree, "configs", c.Name, "environment"); c.Var != "" && (!ok || src != c.Var) {
					add("config-source:"+r.name, "configs.%s.environment = %v in the %s rendering, want %q", c.Name, src, r.name, c.Var)
				}
				if got, has := lookupPath(r.tree, "configs", c.Name, "content"); has {
					add("config-source:"+r.name+suffix(c.Var), "configs.%s renders content %q next to its source variable %q (%s, %s)", c.Name, got, c.Var, r.name, modeName(r.content))
				}
			}
			for _, c := range a.Configs {
				if c.Kind != "content" {
					continue
				}
				if _, has := lookupPath(r.tree, "configs", c.Name, "content"); !has {
					add("inline-content-lost:"+r.name, "configs.%s (inline content) renders without content", c.Name)
				}
			}
		}
		if after := dumpProject(p); label == "" && after != before {
			add("mutated:render", "rendering modified the project (deep dump differs)")
		}
	}
	check(p, "", true)

	// 2. projects derived from the loaded one must not leak either
	if !a.Malformed {
		derive := []struct {
			name string
			f    func() (*types.Project, error)
		}{
			{"deepCopy", func() (*types.Project, error) { return types.VerifDeepCopy(p), nil }},
			{"WithoutUnnecessaryResources", func() (*types.Project, error) { return p.WithoutUnnecessaryResources(), nil }},
			{"WithServicesEnvironmentResolved", func() (*types.Project, error) { return p.WithServicesEnvironmentResolved(true) }},
			{"WithProfiles", func() (*types.Project, error) { return p.WithProfiles([]string{"*"}) }},
			{"WithSelectedServices", func() (*types.Project, error) {
				names := p.ServiceNames()
				if len(names) == 0 {
					return nil, fmt.Errorf("no service")
				}
				return p.WithSelectedServices(names[:1])
			}},
		}
		for _, d := range derive {
			q, err := d.f()
			if err != nil || q == nil {
				continue
			}
			check(q, ":derived:"+d.name, false)
		}
		if after := dumpProject(p); after != before {
			add("mutated:derive", "deriving / rendering derived projects modified the project")
		}
	}
	// 3. (round 7) the caller's parsed model is the caller's: neither the load nor anything after it writes into it
	// (no carrier key, no name, no content).  Checked last: a leak it causes is reported under the leak's own key.
	if what, ok := callerUnchanged(); !ok {
		add("mutated:caller-model", "%s", what)
		fails = inPlaceKeys(&a, fails)
	}
	if fails == nil {
		fails = []leakFail{}
	}
	return map[string]any{"ok": map[string]any{"fails": fails, "secrets": len(p.Secrets), "configs": len(p.Configs)}}
}

func classifyLoadErr(s string) string {
	switch {
	case strings.Contains(s, "mutually exclusive"):
		return "exclusive"
	case strings.Contains(s, "must be set"), strings.Contains(s, "must declare"):
		return "no-source"
	case strings.Contains(s, "validating"):
		return "schema"
	case strings.Contains(s, "undefined"):
		return "undefined-ref"
	}
	return "other"
}

// ---- the assumption behind the raw search: the encoders only copy, replace or insert (Props/C20.lean
// `word_survives_only_where_it_was`).  For JSON this is proved of the model `Bytes.jsonRender`; for yaml.v3 (whose
// emitter — style selection, folding, block scalars — is not modelled) it is checked here on the real output.

const yamlOwnChars = "'\"\\ \n|>-+0123456789:?!&*#[]{},%@`abtnvfreN_LPxuUABCDEF"
const jsonOwnChars = "\"\\unrtbf0123456789acde{}[]:, \nls-.+E"

func yamlOwn(r rune) bool { return strings.ContainsRune(yamlOwnChars, r) }
func jsonOwn(r rune) bool { return strings.ContainsRune(jsonOwnChars, r) }

// rendOK decides the relation `Enc.Rend own src out`: out is src with every character copied or replaced by a
// non-empty word of own characters, and own words inserted anywhere.
func rendOK(src, out []rune, own func(rune) bool) bool {
	n := len(src)
	cur := make([]bool, n+1)
	cur[0] = true
	for _, y := range out {
		next := make([]bool, n+1)
		any := false
		for i, ok := range cur {
			if !ok {
				continue
			}
			if i < n && src[i] == y {
				next[i+1] = true
				any = true
			}
			if own(y) {
				next[i] = true // insertion (or continuation of a replacement)
				if i < n {
					next[i+1] = true // start of a replacement of src[i]
				}
				any = true
			}
		}
		if !any {
			return false
		}
		cur = next
	}
	return cur[n]
}

func realEncRend(raw json.RawMessage) any {
	var a struct {
		S string `json:"s"`
	}
	json.Unmarshal(raw, &a)
	doc := map[string]any{"secrets": map[string]any{"s": map[string]any{"content": a.S}}}
	src := []rune("secrets" + "s" + "content" + a.S)
	var buf bytes.Buffer
	enc := yaml.NewEncoder(&buf)
	enc.SetIndent(2)
	if err := enc.Encode(doc); err != nil {
		return map[string]any{"err": "yaml"}
	}
	jb, err := json.MarshalIndent(doc, "", "  ")
	if err != nil {
		return map[string]any{"err": "json"}
	}
	return map[string]any{"ok": map[string]any{"yaml": rendOK(src, []rune(buf.String()), yamlOwn), "json": rendOK(src, []rune(string(jb)), jsonOwn)}}
}

func registerC20Oracle() {
	core.Register("c20.encRend", &core.CheckDef{
		Real: realEncRend,
		Judge: func(args, real, drv json.RawMessage) *core.Verdict {
			var o struct {
				Ok *struct {
					YAML bool `json:"yaml"`
					JSON bool `json:"json"`
				} `json:"ok"`
			}
			if json.Unmarshal(real, &o) != nil || o.Ok == nil {
				return core.Skip("not encodable")
			}
			if !o.Ok.YAML {
				return core.Disagree("yaml.v3 output is not a copy/replace/insert rendering of the source over the YAML alphabet")
			}
			if !o.Ok.JSON {
				return core.Disagree("encoding/json output is not a copy/replace/insert rendering of the source over the JSON alphabet")
			}
			return nil
		},
	})
	core.Register("c20.leak", &core.CheckDef{
		Real:    realLeak,
		Timeout: 30 * time.Second,
		Judge: func(args, real, drv json.RawMessage) *core.Verdict {
			switch core.Class(real) {
			case "fatal", "hang":
				return core.CrashVerdict(real)
			case "panic":
				// a crash on a malformed model is property C01's business
				return core.Skip("panic while loading / rendering")
			}
			var o struct {
				Bad   string `json:"bad"`
				Err   string `json:"err"`
				Class string `json:"class"`
				Text  string `json:"text"`
				Ok    *struct {
					Fails []leakFail `json:"fails"`
				} `json:"ok"`
			}
			if json.Unmarshal(real, &o) != nil {
				return core.Disagree("malformed oracle outcome")
			}
			if o.Bad != "" {
				return core.Disagree("harness: " + o.Bad)
			}
			if o.Err != "" {
				if os.Getenv("C20_DEBUG") != "" && !bytes.Contains(args, []byte(`"malformed":true`)) {
					return core.Disagree("rejected " + o.Class + ": " + o.Text)
				}
				return core.Skip("rejected by the loader: " + o.Class)
			}
			if o.Ok == nil {
				return core.Disagree("malformed oracle outcome")
			}
			r := o.Ok
			// an unrecorded kind of failure is reported first; the two recorded defects have one key each,
			// whatever the number of symptoms (every renderer, every derived project) in the case
			var emptyVar, yamlV3 *leakFail
			for k := range r.Fails {
				f := &r.Fails[k]
				switch {
				case strings.HasSuffix(f.Key, ":empty-variable-name"):
					if emptyVar == nil {
						emptyVar = f
					}
				case strings.HasSuffix(f.Key, ":yaml.v3-multiline-roundtrip"):
					if yamlV3 == nil {
						yamlV3 = f
					}
				default:
					return core.Fail(f.Key, f.What)
				}
			}
			if emptyVar != nil {
				return core.Fail("leak:config:empty-variable-name", emptyVar.What)
			}
			if yamlV3 != nil {
				return core.Fail(yamlV3.Key, yamlV3.What)
			}
			return nil
		},
	})
}

// ---------------------------------------------------------------- round 7: models handed over already parsed

// preAlias places the Go value found at From (a mapping or a sequence of the parsed first compose file) at every path
// of To as well — the same map / slice value, not a copy.  Wrap puts it inside a one-element sequence at the target.
type preAlias struct {
	From []string   `json:"from"`
	To   [][]string `json:"to"`
	Wrap bool       `json:"wrap,omitempty"`
}

type preSpec struct {
	Aliases []preAlias `json:"aliases"`
}

func (s *preSpec) share(d map[string]any) error {
	for _, al := range s.Aliases {
		v, ok := lookupPath(d, al.From...)
		if !ok {
			continue // the layout moved that section to another file
		}
		switch v.(type) {
		case map[string]any, []any:
		default:
			return fmt.Errorf("alias source %v is a %T", al.From, v)
		}
		for _, to := range al.To {
			m := d
			for _, k := range to[:len(to)-1] {
				next, ok := m[k].(map[string]any)
				if !ok {
					if _, exists := m[k]; exists {
						return fmt.Errorf("alias target %v crosses a %T", to, m[k])
					}
					next = map[string]any{}
					m[k] = next
				}
				m = next
			}
			if al.Wrap {
				m[to[len(to)-1]] = []any{v}
			} else {
				m[to[len(to)-1]] = v
			}
		}
	}
	return nil
}

// dumpTree is a deterministic text of a parsed model (encoding/json sorts the keys; shared values are written at every place).
func dumpTree(d map[string]any) string {
	b, err := json.Marshal(d)
	if err != nil {
		return "unencodable: " + err.Error()
	}
	return string(b)
}

// Recorded finding (round 7): with SkipInterpolation nothing copies a model handed over already parsed — the loader
// works in place on the caller's ConfigFile.Config.  Only for that combination (pre-parsed ∧ SkipInterpolation ∧ the
// caller's model was in fact written to) the failures get the finding's two stable keys: a value found in a rendering,
// and the mutation itself.  With interpolation on (seed C20-9) the keys stay the unlisted `leak:…` / `mutated:caller-model`.
const (
	keyInPlaceLeak        = "leak:preparsed-in-place:skip-interpolation"
	keyInPlaceMutated     = "input-mutated:preparsed:skip-interpolation"
	keyInPlaceUnavailable = "secret-value-unavailable:preparsed-in-place:skip-interpolation"
)

func inPlaceKeys(a *leakArgs, fails []leakFail) []leakFail {
	if a.Pre == nil || a.Opts == nil || !a.Opts.SkipInterpolation {
		return fails
	}
	var out []leakFail
	seen := map[string]bool{}
	for _, f := range fails {
		switch {
		case f.Key == "mutated:caller-model":
			f.Key = keyInPlaceMutated
		case f.Key == "secret-value-unavailable":
			// two secrets defined by one map: the decoder hook of the first consumes the carrier of both
			f.Key = keyInPlaceUnavailable
		case strings.HasPrefix(f.Key, "leak:"):
			f.What = f.Key + ": " + f.What
			f.Key = keyInPlaceLeak
		}
		if !seen[f.Key] {
			seen[f.Key] = true
			out = append(out, f)
		}
	}
	return out
}
