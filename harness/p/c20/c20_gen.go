package c20

// C20 generators: exhaustive small scope first, then seeded random; mostly-valid structured models plus a malformed stream.

import (
	"encoding/json"
	"fmt"
	"math/rand"
	"reflect"
	"sort"
	"strings"

	"verifharness/core"
)

type tree = map[string]any

func enc(v any) json.RawMessage {
	b, err := json.Marshal(core.EncodeVal(v))
	if err != nil {
		panic(err)
	}
	return b
}

// decorations put around the alphanumeric core of a canary: YAML / JSON / template significant text
var c20Deco = [][2]string{
	{"", ""}, {"pre: ", " #post"}, {"'", "'"}, {"\"", "\""}, {"line1\n", "\nline3"}, {"${", "}"}, {"$", "$$"}, {"{", "}"}, {"[", "]"},
	{"- ", ""}, {"&a ", " *a"}, {"!!str ", ""}, {"| ", " >"}, {"%", "@"}, {"`", "`"}, {"\t", "\t"}, {"\\", "\\n"}, {"<", ">&"},
	{"é世", "😀"}, {" ", " "}, {"", "\n"}, {"\n", ""}, {"? ", ": "}, {"#", ""}, {"~", ""}, {"x-#value: ", ""}, {"content: ", ""},
	{"null ", ""}, {"\r\n", "\r"}, {"a:\n  b: ", "\n"}, {"\"'", "'\""}, {"\u2028", "\u0085"}, {strings.Repeat("long ", 60), strings.Repeat(" tail", 60)},
}

// coreLetters are letters neither encoding/json nor yaml.v3 ever writes by themselves (no hex digit of either case,
// no escape letter, no keyword letter): the class of words `word_survives_only_where_it_was` /
// `canary_absent_from_default_json_bytes` (Props/C20.lean) speak about.
const coreLetters = "GHIJKMOQRSTVWXYZ"

func coreNum(n int) string {
	if n == 0 {
		return coreLetters[:1]
	}
	var b []byte
	for ; n > 0; n /= len(coreLetters) {
		b = append([]byte{coreLetters[n%len(coreLetters)]}, b...)
	}
	return string(b)
}

func canary(i int, deco [2]string) (value, coreTok string) {
	coreTok = "QZ" + coreNum(i) + "ZY" + coreNum(i*7+3) + "ZQ"
	for _, r := range coreTok {
		if yamlOwn(r) || jsonOwn(r) {
			panic("canary core uses a character the encoders write by themselves")
		}
	}
	return deco[0] + coreTok + deco[1], coreTok
}

// ---------------------------------------------------------------- stage streams

func genResolve(ctx *core.Ctx) {
	// exhaustive small scope: section kind × object shape × environment state × which
	objs := []any{
		nil, "str", 3, []any{"environment"}, tree{},
		tree{"environment": "E"}, tree{"environment": "F"}, tree{"environment": ""}, tree{"environment": 3}, tree{"environment": nil},
		tree{"environment": []any{"E"}}, tree{"environment": tree{"E": "x"}},
		tree{"environment": "E", "x-#value": "old", "content": "old"}, tree{"environment": "E", "file": "./f", "x-foo": 1},
		tree{"file": "./f"}, tree{"external": true}, tree{"content": "c"}, tree{"Environment": "E"},
	}
	envs := []map[string]string{{}, {"E": "VAL"}, {"E": ""}, {"": "EMPTYNAME", "E": "VAL: #x"}, {"F": "other", "E": "a\nb"}}
	n := 0
	for _, which := range []string{"secrets", "configs", "both"} {
		for _, env := range envs {
			for _, sect := range []string{"absent", "null", "list", "str", "map"} {
				if sect != "map" {
					d := tree{"services": tree{"a": tree{"image": "i"}}}
					switch sect {
					case "null":
						d["secrets"], d["configs"] = nil, nil
					case "list":
						d["secrets"], d["configs"] = []any{tree{"environment": "E"}}, []any{}
					case "str":
						d["secrets"], d["configs"] = "x", "y"
					}
					ctx.Count("resolve-exh-section-" + sect)
					ctx.Add("c20.resolve", c20TreeArgs{Dict: enc(d), Env: env, Which: which})
					n++
					continue
				}
				for i, o1 := range objs {
					o2 := objs[(i*7+3)%len(objs)]
					d := tree{"secrets": tree{"s1": core.DeepCopyVal(o1), "s2": core.DeepCopyVal(o2)}, "configs": tree{"c1": core.DeepCopyVal(o1), "x-c": core.DeepCopyVal(o2)}}
					ctx.Count("resolve-exh-objects")
					ctx.Add("c20.resolve", c20TreeArgs{Dict: enc(d), Env: env, Which: which})
					n++
				}
			}
		}
	}
	// random
	for i := 0; i < ctx.Pick(3000, 60000); i++ {
		r := ctx.Rng
		d := tree{}
		env := map[string]string{}
		vars := []string{"E", "F", "G", "", "e"}
		for _, v := range vars {
			if r.Intn(2) == 0 {
				env[v] = fmt.Sprintf("V%d%s", r.Intn(100), c20Deco[r.Intn(len(c20Deco))][1])
			}
		}
		for _, sect := range []string{"secrets", "configs"} {
			switch r.Intn(8) {
			case 0:
			case 1:
				d[sect] = core.KindValue(core.Kinds[r.Intn(len(core.Kinds))], r)
			default:
				m := tree{}
				for j := 0; j < 1+r.Intn(4); j++ {
					name := []string{"s1", "s2", "x-s", "a.b", "Content", ""}[r.Intn(6)]
					if r.Intn(6) == 0 {
						m[name] = core.KindValue(core.Kinds[r.Intn(len(core.Kinds))], r)
						continue
					}
					o := tree{}
					switch r.Intn(5) {
					case 0:
						o["file"] = "./f"
					case 1:
						o["external"] = true
					case 2:
						o["environment"] = core.KindValue(core.Kinds[r.Intn(len(core.Kinds))], r)
					default:
						o["environment"] = vars[r.Intn(len(vars))]
					}
					if r.Intn(4) == 0 {
						o["x-#value"] = "user"
					}
					if r.Intn(4) == 0 {
						o["content"] = "user"
					}
					if r.Intn(4) == 0 {
						o["x-ext"] = tree{"k": "v"}
					}
					m[name] = o
				}
				d[sect] = m
			}
		}
		ctx.Count("resolve-random")
		ctx.Add("c20.resolve", c20TreeArgs{Dict: enc(d), Env: env, Which: []string{"secrets", "configs", "both"}[r.Intn(3)]})
	}
}

func genSetName(ctx *core.Ctx) {
	objs := []any{nil, tree{}, tree{"name": "given"}, tree{"name": nil}, tree{"external": true}, tree{"external": "true"}, tree{"external": "yes"},
		tree{"external": false}, tree{"external": 1}, tree{"external": tree{"name": "n"}}, tree{"external": true, "name": "n"}, tree{"environment": "E", "x-#value": "v"},
		"str", 3, []any{}, true}
	names := []any{"proj", nil, "absent", "p_1", 3}
	for _, nm := range names {
		for _, sect := range []string{"secrets", "configs", "networks", "volumes"} {
			for i, o := range objs {
				d := tree{sect: tree{"k": core.DeepCopyVal(o), "x-k": core.DeepCopyVal(objs[(i+5)%len(objs)])}}
				if nm != "absent" {
					d["name"] = nm
				}
				ctx.Count("setName-exh")
				ctx.Add("c20.setName", c20TreeArgs{Dict: enc(d)})
			}
			for _, bad := range []any{nil, "x", []any{}, 3} {
				d := tree{sect: bad, "name": "proj"}
				ctx.Count("setName-exh-bad-section")
				ctx.Add("c20.setName", c20TreeArgs{Dict: enc(d)})
			}
		}
	}
	for i := 0; i < ctx.Pick(2000, 40000); i++ {
		r := ctx.Rng
		d := tree{"name": []any{"proj", "p", "a_b"}[r.Intn(3)]}
		for _, sect := range []string{"secrets", "configs", "networks", "volumes"} {
			if r.Intn(3) == 0 {
				continue
			}
			m := tree{}
			for j := 0; j < r.Intn(4); j++ {
				o := core.DeepCopyVal(objs[r.Intn(len(objs))])
				if r.Intn(12) != 0 {
					if _, isMap := o.(tree); !isMap && o != nil {
						o = tree{"file": "f"}
					}
				}
				m[[]string{"k", "db", "x-k", "a.b"}[r.Intn(4)]] = o
			}
			d[sect] = m
		}
		ctx.Count("setName-random")
		ctx.Add("c20.setName", c20TreeArgs{Dict: enc(d)})
	}
}

var pxKeys = []string{"x-a", "x-#value", "secrets", "configs", "services", "depends_on", "networks", "volumes", "a.b", "#extensions", "k", "x-", "x", "X-up", "0", ""}

func randPxTree(r *rand.Rand, depth int) any {
	switch k := r.Intn(10); {
	case k < 2 || depth == 0:
		return []any{"v", 1, true, nil, "x-str"}[r.Intn(5)]
	case k < 4:
		n := r.Intn(3)
		l := make([]any, n)
		for i := range l {
			l[i] = randPxTree(r, depth-1)
		}
		return l
	default:
		m := tree{}
		for i := 0; i < r.Intn(4); i++ {
			m[pxKeys[r.Intn(len(pxKeys))]] = randPxTree(r, depth-1)
		}
		return m
	}
}

func genProcExt(ctx *core.Ctx) {
	// exhaustive: two-level trees over the key alphabet × leaf shapes
	leaves := []func() any{
		func() any { return "v" },
		func() any { return tree{"x-in": 1, "k": "v"} },
		func() any { return tree{"x-in": tree{"x-deep": 1}} },
		func() any { return []any{tree{"x-el": 1, "k": 2}, "s", []any{tree{"x-nested-list": 1}}} },
		func() any { return tree{"n": tree{"x-l3": "v", "depends_on": tree{"x-dep": 1}}} },
		func() any { return tree{"#extensions": "user", "x-over": 1} },
	}
	for _, k1 := range pxKeys {
		for _, k2 := range pxKeys {
			for li, leaf := range leaves {
				d := tree{k1: tree{k2: leaf(), "x-sib": li}, "x-top": "t"}
				ctx.Count("procExt-exh")
				ctx.Add("c20.procExt", c20TreeArgs{Dict: enc(d)})
			}
		}
	}
	// exhaustive: mapping elements of a sequence (their path omits the key of the sequence)
	for _, k1 := range pxKeys {
		for _, k2 := range pxKeys {
			for _, k3 := range []string{"depends_on", "k", "x-k"} {
				d := tree{k1: []any{tree{k2: tree{"x-deep": 1, "k": 2}, "x-el": 1}, "s"}}
				ctx.Count("procExt-exh-seq")
				ctx.Add("c20.procExt", c20TreeArgs{Dict: enc(d)})
				d = tree{k1: tree{k2: []any{tree{k3: tree{"x-deep": 1, "k": 2}, "x-el": 1}}}}
				ctx.Count("procExt-exh-seq")
				ctx.Add("c20.procExt", c20TreeArgs{Dict: enc(d)})
			}
		}
	}
	for i := 0; i < ctx.Pick(4000, 80000); i++ {
		d, _ := randPxTree(ctx.Rng, 4).(tree)
		if d == nil {
			d = tree{"secrets": tree{"s": tree{"x-#value": "v", "environment": "E"}}}
		}
		ctx.Count("procExt-random")
		ctx.Add("c20.procExt", c20TreeArgs{Dict: enc(d)})
	}
}

func randExtTree(r *rand.Rand, depth int) any {
	switch k := r.Intn(8); {
	case k < 4 || depth == 0:
		return []any{"v", 1, true, "x: y", "multi\nline"}[r.Intn(5)]
	case k < 5:
		return []any{"a", 2}
	default:
		return tree{"k": randExtTree(r, depth-1), "x-n": "n"}
	}
}

type decodeArgs struct {
	V    json.RawMessage `json:"v"`
	Kind string          `json:"kind"`
}

func randRawObj(r *rand.Rand, malformed bool) any {
	o := tree{}
	strs := []string{"", "v", "E1", "/abs/f", "a b", "x: #y", "é", "${X}"}
	for _, k := range []string{"name", "file", "environment", "content", "driver", "template_driver"} {
		if r.Intn(3) == 0 {
			o[k] = strs[r.Intn(len(strs))]
		}
	}
	if r.Intn(3) == 0 {
		o["external"] = r.Intn(2) == 0
	}
	for _, k := range []string{"labels", "driver_opts"} {
		if r.Intn(3) == 0 {
			m := tree{}
			for j := 0; j < r.Intn(3); j++ {
				m[[]string{"l1", "com.x", "k"}[r.Intn(3)]] = strs[r.Intn(len(strs))]
			}
			o[k] = m
		}
	}
	if r.Intn(2) == 0 {
		ext := tree{}
		if r.Intn(2) == 0 {
			ext["x-#value"] = strs[r.Intn(len(strs))]
		}
		for j := 0; j < r.Intn(3); j++ {
			ext[[]string{"x-a", "x-b", "x-#other"}[r.Intn(3)]] = randExtTree(r, 2)
		}
		o["#extensions"] = ext
	}
	if r.Intn(6) == 0 {
		o["Content"] = "capital"
	}
	if r.Intn(8) == 0 {
		o["unknown_key"] = "ignored"
	}
	// the wider domain the loader accepts: numbers in string fields (cast hook), booleans given as text,
	// labels with scalar values or as a list of key=value strings, numeric / null driver options
	if r.Intn(3) == 0 {
		switch r.Intn(6) {
		case 0:
			o[[]string{"name", "file", "environment", "content", "driver", "template_driver"}[r.Intn(6)]] = []any{0, 7, -3, 65536}[r.Intn(4)]
		case 1:
			o["external"] = []string{"true", "false", "yes", "No", "ON", "off", "y", "n", "maybe", "", "TRUE",
				"ＴＲＵＥ", "yeＳ", "\u212a", "o\u212a", "\u0130", "n\u0130", "é", "tru\u00e9", "ｙ"}[r.Intn(20)]
		case 2:
			o["labels"] = tree{"a": []any{1, true, nil, "v", 1.5, false}[r.Intn(6)], "b.c": "x: y"}
		case 3:
			o["labels"] = []any{"a=b", "c", "d=e=f", "a=z", "=v", 5, true, nil, "k=é"}[:1+r.Intn(9)]
		case 4:
			o["driver_opts"] = tree{"o": []any{1, nil, "s", -2}[r.Intn(4)], "p": "q"}
		case 5:
			o["labels"] = []any{"a=b", "a=c", "b", "a"}[r.Intn(4):]
		}
	}
	if malformed {
		ks := []string{"name", "file", "environment", "content", "external", "labels", "driver_opts", "#extensions", "NAME", "File"}
		k := ks[r.Intn(len(ks))]
		o[k] = core.KindValue(core.Kinds[r.Intn(len(core.Kinds))], r)
		if k == "#extensions" && r.Intn(2) == 0 {
			o[k] = tree{"x-#value": core.KindValue(core.Kinds[r.Intn(len(core.Kinds))], r), "x-a": 1}
		}
	}
	return o
}

func genDecode(ctx *core.Ctx) {
	// exhaustive: the hook's decision tree
	exts := []any{"absent", nil, "str", tree{}, tree{"x-#value": "VAL"}, tree{"x-#value": "VAL", "x-a": 1}, tree{"x-#value": 3}, tree{"x-#value": nil},
		tree{"x-#value": ""}, tree{"x-a": tree{"x-#value": "deep"}}, tree{"x-#value": []any{"VAL"}}}
	bases := []tree{{}, {"environment": "E"}, {"environment": "E", "content": "user"}, {"environment": "E", "Content": "capital"}, {"file": "/f", "name": "n", "external": true, "labels": tree{"a": "b"}}}
	for _, kind := range []string{"secret", "config"} {
		for _, e := range exts {
			for _, b := range bases {
				o := core.DeepCopyVal(b).(tree)
				if e != "absent" {
					o["#extensions"] = core.DeepCopyVal(e)
				}
				ctx.Count("decode-exh")
				ctx.Add("c20.decode", decodeArgs{V: enc(o), Kind: kind})
			}
		}
		ctx.Add("c20.decode", decodeArgs{V: enc(nil), Kind: kind})
	}
	// exhaustive: every node kind at every typed field
	kindVals := []any{nil, true, false, 0, 42, 1.5, "", "x", "true", "Yes", "no", "k=v", "ＴＲＵＥ", "\u212a", "\u0130", "ｙ", "oｎ", []any{}, []any{"a=b", "c", 3, nil, true}, []any{tree{"k": "v"}}, tree{}, tree{"k": "v", "n": 3, "z": nil, "b": true, "f": 0.5}, tree{"k": []any{"x"}}}
	for _, kind := range []string{"secret", "config"} {
		for _, f := range []string{"name", "file", "environment", "content", "Content", "external", "labels", "driver", "driver_opts", "template_driver", "#extensions"} {
			for _, v := range kindVals {
				ctx.Count("decode-exh-kinds")
				ctx.Add("c20.decode", decodeArgs{V: enc(tree{f: core.DeepCopyVal(v), "file": "/f"}), Kind: kind})
			}
		}
		for _, v := range kindVals {
			ctx.Count("decode-exh-kinds")
			ctx.Add("c20.decode", decodeArgs{V: enc(core.DeepCopyVal(v)), Kind: kind})
		}
	}
	for i := 0; i < ctx.Pick(4000, 80000); i++ {
		mal := ctx.Rng.Intn(5) == 0
		if mal {
			ctx.Count("decode-random-malformed")
		} else {
			ctx.Count("decode-random")
		}
		ctx.Add("c20.decode", decodeArgs{V: enc(randRawObj(ctx.Rng, mal)), Kind: []string{"secret", "config"}[ctx.Rng.Intn(2)]})
	}
}

type marshalArgs struct {
	Obj      c20Obj `json:"obj"`
	Kind     string `json:"kind"`
	Renderer string `json:"renderer"`
}

func randObj(r *rand.Rand) c20Obj {
	strs := []string{"", "", "v", "E1", "/abs/f", "x: #y", "multi\nline", "'q'", "${X}", "é世", " lead", "trail ", "true", "123", "null", "~"}
	s := func() string { return strs[r.Intn(len(strs))] }
	o := c20Obj{Name: s(), File: s(), Environment: s(), Content: s(), Flag: r.Intn(2) == 0, External: r.Intn(3) == 0, Driver: s(), TemplateDriver: s(),
		Labels: map[string]string{}, DriverOpts: map[string]string{}}
	for j := 0; j < r.Intn(3); j++ {
		o.Labels[[]string{"l1", "com.x", "k"}[r.Intn(3)]] = s()
	}
	for j := 0; j < r.Intn(3); j++ {
		o.DriverOpts[[]string{"o1", "opt"}[r.Intn(2)]] = s()
	}
	ext := tree{}
	for j := 0; j < r.Intn(3); j++ {
		ext[[]string{"x-a", "x-b", "x-#value"}[r.Intn(3)]] = randExtTree(r, 2)
	}
	o.Extensions = core.EncodeVal(ext)
	return o
}

func genMarshal(ctx *core.Ctx) {
	// exhaustive: content × environment × flag × kind × renderer
	for _, content := range []string{"", "CONTENT: #c"} {
		for _, envn := range []string{"", "E"} {
			for _, flag := range []bool{false, true} {
				for _, ext := range []any{tree{}, tree{"x-a": "b"}} {
					for _, kind := range []string{"secret", "config"} {
						for _, rd := range []string{"yaml", "json"} {
							o := c20Obj{Name: "n", Environment: envn, Content: content, Flag: flag, Labels: map[string]string{}, DriverOpts: map[string]string{}, Extensions: core.EncodeVal(ext)}
							ctx.Count("marshal-exh")
							ctx.Add("c20.marshal", marshalArgs{Obj: o, Kind: kind, Renderer: rd})
						}
					}
				}
			}
		}
	}
	for i := 0; i < ctx.Pick(4000, 80000); i++ {
		ctx.Count("marshal-random")
		ctx.Add("c20.marshal", marshalArgs{Obj: randObj(ctx.Rng), Kind: []string{"secret", "config"}[ctx.Rng.Intn(2)], Renderer: []string{"yaml", "json"}[ctx.Rng.Intn(2)]})
	}
}

func genApply(ctx *core.Ctx) {
	type applyArgs struct {
		Secrets [][2]any `json:"secrets"`
		Content bool     `json:"content"`
	}
	for n := 0; n <= 3; n++ {
		for flags := 0; flags < 1<<n; flags++ {
			for _, content := range []bool{false, true} {
				var l [][2]any
				for i := 0; i < n; i++ {
					l = append(l, [2]any{fmt.Sprintf("s%d", i), c20Obj{Name: "n", Environment: "E", Content: fmt.Sprintf("V%d", i), Flag: flags>>i&1 == 1,
						Labels: map[string]string{}, DriverOpts: map[string]string{}, Extensions: core.EncodeVal(tree{})}})
				}
				ctx.Count("apply-exh")
				ctx.Add("c20.apply", applyArgs{Secrets: l, Content: content})
			}
		}
	}
	for i := 0; i < ctx.Pick(1000, 20000); i++ {
		var l [][2]any
		names := []string{"a", "b", "c", "d", "x-e"}
		ctx.Rng.Shuffle(len(names), func(i, j int) { names[i], names[j] = names[j], names[i] })
		for _, n := range names[:ctx.Rng.Intn(5)] {
			l = append(l, [2]any{n, randObj(ctx.Rng)})
		}
		ctx.Count("apply-random")
		ctx.Add("c20.apply", applyArgs{Secrets: l, Content: ctx.Rng.Intn(2) == 0})
	}
}

// ---------------------------------------------------------------- whole models

type resSpec struct {
	config bool
	name   string
	kind   string // file | environment | content | external
	varn   string
	extras int // bit set: 1 labels, 2 driver opts, 4 x- extension, 8 explicit name, 16 nested extension
}

func (s resSpec) obj() tree {
	o := tree{}
	switch s.kind {
	case "file":
		o["file"] = "/abs/" + s.name + ".txt"
	case "environment":
		o["environment"] = s.varn
	case "content":
		o["content"] = "inline content of " + s.name
	case "external":
		o["external"] = true
	}
	if s.extras&1 != 0 {
		switch len(s.name) % 3 {
		case 0:
			o["labels"] = tree{"com.example.l": "v", "k": "x: y"}
		case 1:
			o["labels"] = tree{"n": 3, "b": true, "z": nil, "s": "v"}
		default:
			o["labels"] = []any{"com.example.l=v", "bare", "k=a=b"}
		}
	}
	if s.extras&2 != 0 {
		if !s.config { // the schema has no driver / driver_opts on configs
			o["driver_opts"] = tree{"o": "1", "n": 2}
			o["driver"] = "drv"
		}
		o["template_driver"] = "golang"
	}
	if s.extras&4 != 0 {
		o["x-note"] = "an extension"
	}
	if s.extras&8 != 0 {
		o["name"] = "explicit_" + s.name
	}
	if s.extras&16 != 0 {
		o["x-nested"] = tree{"k": []any{"a", tree{"x-in": 1}}, "x-#value": "not the carrier"}
	}
	return o
}

type modelSpec struct {
	secrets, configs []resSpec
	refs             int // 0 none, 1 short syntax, 2 long syntax, 3 build secrets too
	pname            string
}

func (m modelSpec) main() tree {
	svc := tree{"image": "img"}
	if m.refs > 0 {
		var ss, cs []any
		for _, s := range m.secrets {
			if m.refs == 1 {
				ss = append(ss, s.name)
			} else {
				ss = append(ss, tree{"source": s.name, "target": "/run/secrets/t_" + s.name})
			}
		}
		for _, c := range m.configs {
			if m.refs == 1 {
				cs = append(cs, c.name)
			} else {
				cs = append(cs, tree{"source": c.name, "target": "/etc/t_" + c.name})
			}
		}
		if len(ss) > 0 {
			svc["secrets"] = ss
		}
		if len(cs) > 0 {
			svc["configs"] = cs
		}
		if m.refs == 3 && len(m.secrets) > 0 {
			svc["build"] = tree{"context": "/abs/ctx", "secrets": []any{m.secrets[0].name}}
		}
	}
	d := tree{"services": tree{"app": svc, "other": tree{"image": "img2"}}}
	if len(m.secrets) > 0 {
		t := tree{}
		for _, s := range m.secrets {
			t[s.name] = s.obj()
		}
		d["secrets"] = t
	}
	if len(m.configs) > 0 {
		t := tree{}
		for _, c := range m.configs {
			t[c.name] = c.obj()
		}
		d["configs"] = t
	}
	return d
}

var secretKinds = []string{"file", "environment", "external"}
var configKinds = []string{"file", "environment", "content", "external"}

func genFlow(ctx *core.Ctx) {
	// exhaustive small scope: (secret kind × set?) × (config kind × set?) × extension × reference × canary decoration class
	decos := [][2]string{c20Deco[0], c20Deco[1], c20Deco[4], c20Deco[5], c20Deco[20]}
	for _, sk := range []string{"file", "environment", "environment-unset", "external", "none"} {
		for _, ck := range []string{"file", "environment", "environment-unset", "content", "external", "none"} {
			for _, extras := range []int{0, 4, 1 | 2 | 8, 16 | 4} {
				for refs := 0; refs <= 2; refs++ {
					for di, deco := range decos {
						m := modelSpec{refs: refs, pname: "proj"}
						env := map[string]string{}
						if sk != "none" {
							m.secrets = []resSpec{{name: "s1", kind: strings.TrimSuffix(sk, "-unset"), varn: "SVAR", extras: extras}}
							if sk == "environment" {
								env["SVAR"], _ = canary(1+di, deco)
							}
						}
						if ck != "none" {
							m.configs = []resSpec{{config: true, name: "c1", kind: strings.TrimSuffix(ck, "-unset"), varn: "CVAR", extras: extras}}
							if ck == "environment" {
								env["CVAR"], _ = canary(100+di, deco)
							}
						}
						ctx.Count("flow-exh")
						ctx.Add("c20.flow", c20TreeArgs{Dict: enc(m.main()), Env: env, PName: m.pname})
					}
				}
			}
		}
	}
	for i := 0; i < ctx.Pick(1000, 20000); i++ {
		m, env, _ := randModel(ctx.Rng, false)
		ctx.Count("flow-random")
		ctx.Add("c20.flow", c20TreeArgs{Dict: enc(m.main()), Env: env, PName: m.pname})
	}
	// round 6: the same pipeline under loader options that change what the later stages see
	for _, o := range optsExhaustive() {
		for _, extras := range []int{0, 4, 4 | 16, 31} {
			for refs := 0; refs <= 2; refs += 2 {
				for _, set := range []bool{true, false} {
					m := modelSpec{refs: refs, pname: "proj",
						secrets: []resSpec{{name: "s1", kind: "environment", varn: "SVAR", extras: extras}, {name: "s2", kind: "file", extras: extras}},
						configs: []resSpec{{config: true, name: "c1", kind: "environment", varn: "CVAR", extras: extras}}}
					env := map[string]string{}
					if set {
						env["SVAR"], _ = canary(1, c20Deco[1])
						env["CVAR"], _ = canary(2, c20Deco[4])
					}
					ctx.Count("flow-exh-opts-" + o.label())
					ctx.Add("c20.flow", c20TreeArgs{Dict: enc(m.main()), Env: env, PName: m.pname, Opts: o})
				}
			}
		}
	}
	for i := 0; i < ctx.Pick(600, 12000); i++ {
		m, env, _ := randModel(ctx.Rng, false)
		o := randOpts(ctx.Rng)
		countOpts(ctx, "flow-random-opt", o)
		ctx.Add("c20.flow", c20TreeArgs{Dict: enc(m.main()), Env: env, PName: m.pname, Opts: o})
	}
}

var resNames = []string{"s1", "db_pass", "x-sec", "a.b", "Content", "name", "tok-2", "UPPER", "environment", "x-value"}
var varNames = []string{"E1", "SECRET_2", "e_3", "DB_PASSWORD", "X", "E1_", "CONTENT"}

// randModel draws 1..4 secrets and configs of each source kind; environment values are unique canaries.
func randModel(r *rand.Rand, emptyVar bool) (modelSpec, map[string]string, map[string]string) {
	m := modelSpec{refs: r.Intn(4), pname: []string{"proj", "p", "my-app_1"}[r.Intn(3)]}
	env := map[string]string{}
	cores := map[string]string{}
	ci := r.Intn(1000) * 10
	vars := append([]string(nil), varNames...)
	r.Shuffle(len(vars), func(i, j int) { vars[i], vars[j] = vars[j], vars[i] })
	half := len(vars) / 2
	secVars, cfgVars := vars[:half], vars[half:]
	if emptyVar {
		cfgVars = append([]string{""}, cfgVars...)
	}
	setVar := func(v string) {
		if _, done := cores[v]; done {
			return
		}
		ci++
		val, c := canary(ci, c20Deco[r.Intn(len(c20Deco))])
		cores[v] = c
		if r.Intn(6) != 0 { // sometimes the variable is not set
			env[v] = val
		} else {
			delete(cores, v)
		}
	}
	names := append([]string(nil), resNames...)
	r.Shuffle(len(names), func(i, j int) { names[i], names[j] = names[j], names[i] })
	ni := 0
	for _, k := range secretKinds {
		for j := 0; j < r.Intn(3); j++ {
			if ni >= len(names) || len(m.secrets) >= 4 {
				break
			}
			s := resSpec{name: names[ni], kind: k, extras: r.Intn(32)}
			ni++
			if k == "environment" {
				s.varn = secVars[r.Intn(len(secVars))]
				setVar(s.varn)
			}
			m.secrets = append(m.secrets, s)
		}
	}
	if len(m.secrets) == 0 {
		v := secVars[0]
		setVar(v)
		m.secrets = append(m.secrets, resSpec{name: names[ni], kind: "environment", varn: v, extras: r.Intn(32)})
		ni++
	}
	names2 := append([]string(nil), resNames...)
	r.Shuffle(len(names2), func(i, j int) { names2[i], names2[j] = names2[j], names2[i] })
	ni = 0
	for _, k := range configKinds {
		for j := 0; j < r.Intn(3); j++ {
			if len(m.configs) >= 4 {
				break
			}
			c := resSpec{config: true, name: names2[ni], kind: k, extras: r.Intn(32)}
			ni++
			if k == "environment" {
				c.varn = cfgVars[r.Intn(len(cfgVars))]
				if emptyVar && j == 0 {
					c.varn = ""
				}
				setVar(c.varn)
			}
			m.configs = append(m.configs, c)
		}
	}
	if emptyVar {
		found := false
		for _, c := range m.configs {
			found = found || (c.kind == "environment" && c.varn == "")
		}
		if !found {
			setVar("")
			m.configs = append(m.configs, resSpec{config: true, name: "cfg_empty_var", kind: "environment", varn: ""})
		}
	}
	// an extra variable nobody references
	if r.Intn(2) == 0 {
		ci++
		val, c := canary(ci, c20Deco[r.Intn(len(c20Deco))])
		env["UNUSED_VAR"], cores["UNUSED_VAR"] = val, c
	}
	return m, env, cores
}

func (m modelSpec) leakArgs(env, cores map[string]string, layout string) leakArgs {
	return m.leakArgsTree(m.main(), env, cores, layout)
}

// leakArgsTree: the same with the main model given (round 7: the shared-value stream edits it first).
func (m modelSpec) leakArgsTree(d tree, env, cores map[string]string, layout string) leakArgs {
	a := leakArgs{Env: env, Cores: cores, PName: m.pname, Files: map[string]json.RawMessage{}}
	for _, s := range m.secrets {
		a.Secrets = append(a.Secrets, leakRes{Name: s.name, Kind: s.kind, Var: s.varn})
	}
	for _, c := range m.configs {
		a.Configs = append(a.Configs, leakRes{Name: c.name, Kind: c.kind, Var: c.varn})
	}
	switch layout {
	case "override":
		// resources declared in the first file, services (and an extension on one resource) in the second
		first := tree{"services": tree{"other": tree{"image": "img2"}}}
		second := tree{"services": d["services"]}
		for _, k := range []string{"secrets", "configs"} {
			if v, ok := d[k]; ok {
				first[k] = v
				over := tree{}
				for _, n := range sortedTreeKeys(v.(tree)) {
					if !strings.HasPrefix(n, "x-") { // override.Merge replaces (does not merge) keys that look like extensions
						over[n] = tree{"x-from-override": "o"}
						break
					}
				}
				second[k] = over
			}
		}
		a.Files["compose.yaml"], a.Files["override.yaml"] = enc(first), enc(second)
		a.ConfigFiles = []string{"compose.yaml", "override.yaml"}
	case "include":
		// secrets live in an included file (configs stay in the main file)
		inc := tree{}
		if v, ok := d["secrets"]; ok {
			inc["secrets"] = v
			delete(d, "secrets")
		}
		if len(inc) == 0 {
			inc["services"] = tree{"inc": tree{"image": "i"}}
		}
		d["include"] = []any{"inc.yaml"}
		a.Files["compose.yaml"], a.Files["inc.yaml"] = enc(d), enc(inc)
		a.ConfigFiles = []string{"compose.yaml"}
	default:
		a.Files["compose.yaml"] = enc(d)
		a.ConfigFiles = []string{"compose.yaml"}
	}
	return a
}

// dotenvQuote writes v as a single-quoted dotenv value (taken literally, may span lines; `\'` stands for a quote).
// Outside this encoding: a carriage return (the reader normalises line ends), a backslash before a quote or at the end.
func dotenvQuote(v string) (string, bool) {
	if strings.Contains(v, "\r") || strings.Contains(v, "\\'") || strings.HasSuffix(v, "\\") {
		return "", false
	}
	return "'" + strings.ReplaceAll(v, "'", "\\'") + "'", true
}

// leakArgsIncEnv: the include-env layout.  The secrets (all of them, or a random subset when r != nil) and, for
// cfgInc, the configs are declared in mod/compose.yaml, included with an environment of its own: `env_file:` of the
// include entry (long syntax) or the .env of the included project directory (short syntax).  Each variable of an
// included environment resource is defined at the top only, in the include's env file only (moved there), in both
// (the top value wins; the shadowed one must appear nowhere) or nowhere.  The included model resolves its secrets
// with top ∪ env file; the including model then resolves the imported secrets a second time with top alone.
func (m modelSpec) leakArgsIncEnv(env, cores map[string]string, modes func(v string) int, longSyntax, cfgInc bool, r *rand.Rand, count func(string)) leakArgs {
	env2, cores2 := map[string]string{}, map[string]string{}
	for k, v := range env {
		env2[k] = v
	}
	for k, v := range cores {
		cores2[k] = v
	}
	a := leakArgs{Env: env2, Cores: cores2, PName: m.pname, Files: map[string]json.RawMessage{}, RawFiles: map[string]string{},
		IncEnv: map[string]string{}, IncCores: map[string]string{}}
	d := m.main()
	inc := tree{}
	incN := 20000
	done := map[string]bool{}
	place := func(v string) {
		if done[v] || v == "" {
			return
		}
		done[v] = true
		mode := modes(v)
		if _, set := env2[v]; !set {
			if mode == 1 { // unset at the top, defined by the include only
				incN++
				a.IncEnv[v], a.IncCores[v] = canary(incN, c20Deco[(incN*7)%len(c20Deco)])
				count("leak-incenv-var-inc-only")
			} else {
				count("leak-incenv-var-unset")
			}
			return
		}
		switch mode {
		case 1: // moved to the include's env file
			a.IncEnv[v], a.IncCores[v] = env2[v], cores2[v]
			delete(env2, v)
			delete(cores2, v)
			count("leak-incenv-var-inc-only")
		case 2: // both: the top value wins
			incN++
			a.IncEnv[v], a.IncCores[v] = canary(incN, c20Deco[(incN*5)%len(c20Deco)])
			count("leak-incenv-var-both")
		default:
			count("leak-incenv-var-top-only")
		}
	}
	secs, _ := d["secrets"].(tree)
	incSecs := tree{}
	for _, s := range m.secrets {
		in := r == nil || r.Intn(4) != 0
		if in {
			incSecs[s.name] = secs[s.name]
			delete(secs, s.name)
			if s.kind == "environment" {
				place(s.varn)
			}
		}
		a.Secrets = append(a.Secrets, leakRes{Name: s.name, Kind: s.kind, Var: s.varn, Inc: in})
	}
	if len(secs) == 0 {
		delete(d, "secrets")
	}
	if len(incSecs) > 0 {
		inc["secrets"] = incSecs
	}
	cfgs, _ := d["configs"].(tree)
	incCfgs := tree{}
	for _, c := range m.configs {
		in := cfgInc && (r == nil || r.Intn(3) != 0)
		if in {
			incCfgs[c.name] = cfgs[c.name]
			delete(cfgs, c.name)
			if c.kind == "environment" {
				place(c.varn)
			}
		}
		a.Configs = append(a.Configs, leakRes{Name: c.name, Kind: c.kind, Var: c.varn, Inc: in})
	}
	if len(cfgs) == 0 {
		delete(d, "configs")
	}
	if len(incCfgs) > 0 {
		inc["configs"] = incCfgs
	}
	if len(inc) == 0 {
		inc["services"] = tree{"inc": tree{"image": "i"}}
	}
	// a variable only the include's env file defines and nobody names
	incN++
	a.IncEnv["INC_UNUSED"], a.IncCores["INC_UNUSED"] = canary(incN, c20Deco[(incN*3)%len(c20Deco)])
	var b strings.Builder
	b.WriteString("# environment of the included project\n")
	for _, v := range sortedKeys(a.IncEnv) {
		q, ok := dotenvQuote(a.IncEnv[v])
		if !ok { // keep the core, drop the decoration the dotenv syntax cannot carry
			a.IncEnv[v] = a.IncCores[v]
			q, _ = dotenvQuote(a.IncEnv[v])
			count("leak-incenv-value-undecorated")
		}
		b.WriteString(v + "=" + q + "\n")
	}
	if longSyntax {
		d["include"] = []any{tree{"path": "mod/compose.yaml", "env_file": "mod/mod.env"}}
		a.RawFiles["mod/mod.env"] = b.String()
	} else {
		d["include"] = []any{"mod/compose.yaml"}
		a.RawFiles["mod/.env"] = b.String()
	}
	a.Files["compose.yaml"], a.Files["mod/compose.yaml"] = enc(d), enc(inc)
	a.ConfigFiles = []string{"compose.yaml"}
	return a
}

// nestIncEnv turns an include-env case into a two-level one: compose.yaml includes mod/compose.yaml (environment:
// mod/.env), which includes mod/inner/compose.yaml (environment: inner/inner.env or inner/.env) where the resources are.
// Every variable of the include's env file goes to the middle file, the inner one, or both (the middle value wins; the
// shadowed inner value, a canary of its own, must appear nowhere).  The innermost model is resolved three times.
func nestIncEnv(a leakArgs, pick func(n int) int, count func(string)) leakArgs {
	txt, ok := a.RawFiles["mod/.env"]
	if !ok {
		txt = a.RawFiles["mod/mod.env"]
	}
	_ = txt
	main := core.DecodeValRaw(a.Files["compose.yaml"]).(map[string]any)
	main["include"] = []any{"mod/compose.yaml"}
	innerLong := pick(2) == 0
	mid := tree{}
	if innerLong {
		mid["include"] = []any{tree{"path": "inner/compose.yaml", "env_file": "inner/inner.env"}}
	} else {
		mid["include"] = []any{"inner/compose.yaml"}
	}
	var mb, ib strings.Builder
	shadowN := 30000
	for _, v := range sortedKeys(a.IncEnv) {
		q, _ := dotenvQuote(a.IncEnv[v])
		switch pick(3) {
		case 0:
			mb.WriteString(v + "=" + q + "\n")
			count("leak-nested-var-middle")
		case 1:
			ib.WriteString(v + "=" + q + "\n")
			count("leak-nested-var-inner")
		default:
			mb.WriteString(v + "=" + q + "\n")
			shadowN++
			sv, sc := canary(shadowN, c20Deco[0])
			ib.WriteString(v + "='" + sv + "'\n")
			a.IncEnv["shadow:"+v], a.IncCores["shadow:"+v] = sv, sc
			count("leak-nested-var-both")
		}
	}
	a.Files["mod/inner/compose.yaml"] = a.Files["mod/compose.yaml"]
	a.Files["compose.yaml"], a.Files["mod/compose.yaml"] = enc(main), enc(mid)
	a.RawFiles = map[string]string{"mod/.env": mb.String()}
	if innerLong {
		a.RawFiles["mod/inner/inner.env"] = ib.String()
	} else {
		a.RawFiles["mod/inner/.env"] = ib.String()
	}
	return a
}

func sortedTreeKeys(m tree) []string {
	l := make([]string, 0, len(m))
	for k := range m {
		l = append(l, k)
	}
	sort.Strings(l)
	return l
}

func sortedKeys(m map[string]string) []string {
	l := make([]string, 0, len(m))
	for k := range m {
		l = append(l, k)
	}
	sort.Strings(l)
	return l
}

// countOpts records one random option draw: the stream total and one counter per option that is on
func countOpts(ctx *core.Ctx, prefix string, o *loadOpts) {
	ctx.Count(prefix + "s")
	for _, f := range strings.Split(o.label(), "+") {
		ctx.Count(prefix + "-" + f)
	}
}

func genLeak(ctx *core.Ctx) {
	// exhaustive: every decoration × {secret, config} × reference mode, one environment resource of each kind
	for di, deco := range c20Deco {
		for refs := 0; refs <= 3; refs++ {
			m := modelSpec{refs: refs, pname: "proj",
				secrets: []resSpec{{name: "s_env", kind: "environment", varn: "SVAR", extras: refs * 5 % 32}, {name: "s_file", kind: "file"}, {name: "s_ext", kind: "external"}},
				configs: []resSpec{{config: true, name: "c_env", kind: "environment", varn: "CVAR", extras: refs * 3 % 32}, {config: true, name: "c_file", kind: "file"}, {config: true, name: "c_inline", kind: "content"}, {config: true, name: "c_ext", kind: "external"}}}
			sv, sc := canary(2*di+1, deco)
			cv, cc := canary(2*di+2, deco)
			env := map[string]string{"SVAR": sv, "CVAR": cv}
			cores := map[string]string{"SVAR": sc, "CVAR": cc}
			ctx.Count("leak-exh-decoration")
			ctx.Add("c20.leak", m.leakArgs(env, cores, "single"))
		}
	}
	// exhaustive: 1..4 resources of one kind each, all kinds
	for n := 1; n <= 4; n++ {
		for _, sk := range secretKinds {
			for _, ck := range configKinds {
				m := modelSpec{refs: n % 4, pname: "proj"}
				env, cores := map[string]string{}, map[string]string{}
				for i := 0; i < n; i++ {
					sv, cv := fmt.Sprintf("SV%d", i), fmt.Sprintf("CV%d", i)
					m.secrets = append(m.secrets, resSpec{name: fmt.Sprintf("s%d", i), kind: sk, varn: sv, extras: i * 7 % 32})
					m.configs = append(m.configs, resSpec{config: true, name: fmt.Sprintf("c%d", i), kind: ck, varn: cv, extras: i * 11 % 32})
					if sk == "environment" {
						env[sv], cores[sv] = canary(10+i, c20Deco[(i*5+n)%len(c20Deco)])
					}
					if ck == "environment" {
						env[cv], cores[cv] = canary(20+i, c20Deco[(i*3+n+7)%len(c20Deco)])
					}
				}
				for _, layout := range []string{"single", "override", "include"} {
					ctx.Count("leak-exh-kinds-" + layout)
					ctx.Add("c20.leak", m.leakArgs(env, cores, layout))
				}
				// the include has an environment of its own: every placement of the variables × syntax × configs included too
				if sk == "environment" || ck == "environment" {
					for mode := 0; mode < 4; mode++ {
						for v := 0; v < 4; v++ {
							mode := mode
							ctx.Count("leak-exh-kinds-include-env")
							modes := func(vn string) int {
								if mode == 3 { // mixed: by position
									return int(vn[len(vn)-1]-'0') % 3
								}
								return mode
							}
							ctx.Add("c20.leak", m.leakArgsIncEnv(env, cores, modes, v&1 == 1, v&2 == 2, nil, ctx.Count))
							if mode != 0 {
								k := n + v + mode
								ctx.Count("leak-exh-kinds-include-env-nested")
								ctx.Add("c20.leak", nestIncEnv(m.leakArgsIncEnv(env, cores, modes, v&1 == 1, v&2 == 2, nil, func(string) {}),
									func(n int) int { k++; return k % n }, ctx.Count))
							}
						}
					}
				}
			}
		}
	}
	// round 6: loader options that change the dynamic type / shape the later stages see × every renderer
	for _, o := range optsExhaustive() {
		for _, extras := range []int{0, 4, 4 | 16, 31} {
			for _, layout := range []string{"single", "override", "include", "include-env"} {
				m := modelSpec{refs: (extras + 1) % 4, pname: "proj",
					secrets: []resSpec{{name: "s_env", kind: "environment", varn: "SVAR", extras: extras}, {name: "s_file", kind: "file", extras: extras}},
					configs: []resSpec{{config: true, name: "c_env", kind: "environment", varn: "CVAR", extras: extras}, {config: true, name: "c_inline", kind: "content"}}}
				sv, sc := canary(31+extras, c20Deco[(extras+3)%len(c20Deco)])
				cv, cc := canary(32+extras, c20Deco[(extras+9)%len(c20Deco)])
				env := map[string]string{"SVAR": sv, "CVAR": cv}
				cores := map[string]string{"SVAR": sc, "CVAR": cc}
				var a leakArgs
				if layout == "include-env" {
					a = m.leakArgsIncEnv(env, cores, func(string) int { return 1 }, true, false, nil, func(string) {})
				} else {
					a = m.leakArgs(env, cores, layout)
				}
				a.Opts = o
				ctx.Count("leak-exh-opts-" + o.label())
				ctx.Add("c20.leak", a)
			}
		}
	}
	// the recorded finding: a config whose source variable is the empty name
	for i := 0; i < ctx.Pick(3, 40); i++ {
		m, env, cores := randModel(ctx.Rng, true)
		ctx.Count("leak-empty-variable-name")
		ctx.Add("c20.leak", m.leakArgs(env, cores, "single"))
	}
	// random models
	for i := 0; i < ctx.Pick(1400, 24000); i++ {
		m, env, cores := randModel(ctx.Rng, false)
		layout := []string{"single", "single", "override", "include", "include-env", "include-env"}[ctx.Rng.Intn(6)]
		ctx.Count("leak-random-" + layout)
		if layout == "include-env" {
			r := ctx.Rng
			a := m.leakArgsIncEnv(env, cores, func(string) int { return r.Intn(3) }, r.Intn(2) == 0, r.Intn(2) == 0, r, ctx.Count)
			if r.Intn(3) == 0 {
				ctx.Count("leak-random-include-env-nested")
				a = nestIncEnv(a, r.Intn, ctx.Count)
			}
			if r.Intn(3) == 0 {
				a.Opts = randOpts(r)
				countOpts(ctx, "leak-random-opt", a.Opts)
			}
			ctx.Add("c20.leak", a)
			continue
		}
		a := m.leakArgs(env, cores, layout)
		if layout != "include" && ctx.Rng.Intn(4) == 0 {
			// round 7: the same model handed over already parsed, with Go values shared between positions
			a = m.randShared(ctx.Rng, env, cores, layout, ctx.Count)
		}
		if ctx.Rng.Intn(3) == 0 {
			a.Opts = randOpts(ctx.Rng)
			if a.Pre != nil && a.Opts.SkipInterpolation {
				ctx.Count("leak-random-shared-nointerp") // the recorded in-place finding, see genLeakShared
			}
			countOpts(ctx, "leak-random-opt", a.Opts)
		}
		ctx.Add("c20.leak", a)
	}
	// malformed stream: random node kinds at resource positions, validation on or off
	for i := 0; i < ctx.Pick(400, 6000); i++ {
		r := ctx.Rng
		m, env, cores := randModel(r, false)
		a := m.leakArgs(env, cores, "single")
		d := m.main()
		for _, sect := range []string{"secrets", "configs"} {
			t, _ := d[sect].(tree)
			for n, o := range t {
				if r.Intn(3) != 0 {
					continue
				}
				ob := o.(tree)
				switch r.Intn(5) {
				case 0:
					ob[[]string{"file", "environment", "content", "external", "name", "labels", "x-#value", "#extensions", "Content"}[r.Intn(9)]] = core.KindValue(core.Kinds[r.Intn(len(core.Kinds))], r)
				case 1:
					ob["content"] = "user content"
				case 2:
					ob["x-#value"] = "user carrier"
				case 3:
					ob["#extensions"] = tree{"x-#value": "user ext carrier", "x-k": 1}
				case 4:
					t[n] = core.KindValue(core.Kinds[r.Intn(len(core.Kinds))], r)
				}
			}
		}
		a.Files["compose.yaml"] = enc(d)
		a.Malformed = true
		a.SkipValidation = r.Intn(2) == 0
		a.SkipConsistency = r.Intn(2) == 0
		ctx.Count("leak-malformed")
		ctx.Add("c20.leak", a)
	}
}

// strings for the byte-level model of the encoders: every escape class of encoding/json and yaml.v3
var byteAtoms = []string{"a", "Z", "CANARY", "0", " ", "\"", "\\", "/", "\n", "\r", "\t", "\b", "\f", "\x00", "\x01", "\x1f", "\x7f", "<", ">", "&", "'",
	"\u2028", "\u2029", "\u0085", "\u00a0", "é", "世", "😀", "\ufeff", ":", "#", "-", "{", "[", ",", "\u00ad", "\ufffd", "u", "n", "\\u003c"}

func randByteString(r *rand.Rand) string {
	var b strings.Builder
	for i := 0; i < r.Intn(6); i++ {
		b.WriteString(byteAtoms[r.Intn(len(byteAtoms))])
	}
	return b.String()
}

func randByteTree(r *rand.Rand, depth int) any {
	switch k := r.Intn(10); {
	case k < 4 || depth == 0:
		return []any{randByteString(r), randByteString(r), r.Intn(2000) - 1000, true, false, nil}[r.Intn(6)]
	case k < 6:
		l := make([]any, r.Intn(4))
		for i := range l {
			l[i] = randByteTree(r, depth-1)
		}
		return l
	default:
		m := tree{}
		for i := 0; i < r.Intn(4); i++ {
			m[randByteString(r)] = randByteTree(r, depth-1)
		}
		return m
	}
}

func genBytes(ctx *core.Ctx) {
	type bytesArgs struct {
		V json.RawMessage `json:"v"`
	}
	// exhaustive: every atom alone, as a value and as a key, at two depths; every pair of atoms
	for _, a := range byteAtoms {
		for _, v := range []any{a, tree{a: a}, []any{a, tree{"k": []any{a}}}, tree{"o": tree{a: tree{}, "z": []any{}}}} {
			ctx.Count("jsonBytes-exh")
			ctx.Add("c20.jsonBytes", bytesArgs{V: enc(v)})
		}
		for _, b := range byteAtoms {
			ctx.Count("jsonBytes-exh-pairs")
			ctx.Add("c20.jsonBytes", bytesArgs{V: enc(tree{"k": a + b})})
		}
	}
	for _, v := range []any{nil, true, false, 0, -7, 123456789, tree{}, []any{}, []any{nil, 1, "x"}, tree{"a": 1, "b": tree{"c": []any{tree{}, []any{}}}}} {
		ctx.Count("jsonBytes-exh")
		ctx.Add("c20.jsonBytes", bytesArgs{V: enc(v)})
	}
	for i := 0; i < ctx.Pick(3000, 60000); i++ {
		ctx.Count("jsonBytes-random")
		ctx.Add("c20.jsonBytes", bytesArgs{V: enc(randByteTree(ctx.Rng, 3))})
	}
}

func genEncRend(ctx *core.Ctx) {
	type a struct {
		S string `json:"s"`
	}
	for i, d := range c20Deco {
		v, _ := canary(i+1, d)
		ctx.Count("encRend-exh-decorations")
		ctx.Add("c20.encRend", a{S: v})
	}
	for _, x := range byteAtoms {
		for _, y := range byteAtoms {
			ctx.Count("encRend-exh-pairs")
			ctx.Add("c20.encRend", a{S: x + y})
			ctx.Add("c20.encRend", a{S: "QZG" + x + y + "ZQ"})
		}
	}
	words := []string{"QZGZQ", "a", "long", " ", "\n", "x: y", "#", "'", "\"", "\t", "-", "é", "\u2028", "  ", "\n\n", "tail "}
	for i := 0; i < ctx.Pick(3000, 60000); i++ {
		var b strings.Builder
		for j := 0; j < 1+ctx.Rng.Intn(40); j++ {
			b.WriteString(words[ctx.Rng.Intn(len(words))])
			if ctx.Rng.Intn(3) == 0 {
				b.WriteByte(' ')
			}
		}
		ctx.Count("encRend-random")
		ctx.Add("c20.encRend", a{S: b.String()})
	}
}

// the include path, stage level: section kinds of the including and the included model × object shapes (resolved or
// not, user-written carrier) × placement of the variable (top / env file / both / neither) × conflicts
func genIncResolve(ctx *core.Ctx) {
	objs := []any{
		nil, "str", tree{}, tree{"environment": "E"}, tree{"environment": "F"}, tree{"environment": ""}, tree{"environment": 3},
		tree{"environment": "E", "x-#value": "old", "content": "old"}, tree{"file": "./f"}, tree{"environment": "E", "x-foo": 1},
	}
	envPairs := [][2]map[string]string{
		{{}, {}}, {{"E": "TOP"}, {}}, {{}, {"E": "FILE"}}, {{"E": "TOP"}, {"E": "FILE"}}, {{"F": "TOPF"}, {"E": "FILE: #x", "F": "shadowed"}},
		{{"E": ""}, {"E": "FILE"}}, {{}, {"": "EMPTYNAME", "E": "a\nb"}},
	}
	sectKinds := []string{"absent", "null", "list", "str", "map"}
	mk := func(kind string, m tree) (any, bool) {
		switch kind {
		case "null":
			return nil, true
		case "list":
			return []any{tree{"environment": "E"}}, true
		case "str":
			return "x", true
		case "map":
			return m, true
		}
		return nil, false
	}
	for _, ep := range envPairs {
		for _, mk1 := range sectKinds {
			for _, mk2 := range sectKinds {
				for i := range objs {
					if (mk1 != "map" || mk2 != "map") && i > 1 {
						break
					}
					o1, o2, o3 := objs[i], objs[(i*3+1)%len(objs)], objs[(i*7+2)%len(objs)]
					main, inc := tree{}, tree{}
					// `both` is declared on the two sides: equal for even i (skipped), different for odd i (conflict)
					var o4 any = core.DeepCopyVal(o1)
					if i%2 == 1 {
						o4 = tree{"file": "./other"}
					}
					for _, sect := range []string{"secrets", "configs"} {
						if v, ok := mk(mk1, tree{"m1": core.DeepCopyVal(o2), "both": o4}); ok {
							main[sect] = v
						}
						if v, ok := mk(mk2, tree{"i1": core.DeepCopyVal(o1), "i2": core.DeepCopyVal(o3), "both": core.DeepCopyVal(o1)}); ok {
							inc[sect] = v
						}
					}
					ctx.Count("incResolve-exh-" + mk1 + "-" + mk2)
					ctx.Add("c20.incResolve", incArgs{Main: enc(main), Inc: enc(inc), Env: ep[0], IncEnv: ep[1]})
				}
			}
		}
	}
	for i := 0; i < ctx.Pick(1500, 30000); i++ {
		r := ctx.Rng
		vars := []string{"E", "F", "G", "", "e"}
		top, file := map[string]string{}, map[string]string{}
		for _, v := range vars {
			switch r.Intn(4) {
			case 0:
				top[v] = fmt.Sprintf("T%d%s", r.Intn(100), c20Deco[r.Intn(len(c20Deco))][1])
			case 1:
				file[v] = fmt.Sprintf("F%d%s", r.Intn(100), c20Deco[r.Intn(len(c20Deco))][1])
			case 2:
				top[v], file[v] = fmt.Sprintf("T%d", r.Intn(100)), fmt.Sprintf("F%d", r.Intn(100))
			}
		}
		randObj := func() any {
			if r.Intn(8) == 0 {
				return core.KindValue(core.Kinds[r.Intn(len(core.Kinds))], r)
			}
			o := tree{}
			switch r.Intn(5) {
			case 0:
				o["file"] = "./f"
			case 1:
				o["external"] = true
			case 2:
				o["environment"] = core.KindValue(core.Kinds[r.Intn(len(core.Kinds))], r)
			default:
				o["environment"] = vars[r.Intn(len(vars))]
			}
			if r.Intn(5) == 0 {
				o["x-#value"] = "user"
			}
			if r.Intn(5) == 0 {
				o["content"] = "user"
			}
			return o
		}
		main, inc := tree{}, tree{}
		for _, sect := range []string{"secrets", "configs"} {
			for _, d := range []tree{main, inc} {
				switch r.Intn(8) {
				case 0:
				case 1:
					d[sect] = core.KindValue(core.Kinds[r.Intn(len(core.Kinds))], r)
				default:
					m := tree{}
					for j := 0; j < 1+r.Intn(3); j++ {
						m[[]string{"s1", "s2", "x-s", "a.b", ""}[r.Intn(5)]] = randObj()
					}
					d[sect] = m
				}
			}
			// sometimes the same name on both sides, with the same definition
			if mm, ok := main[sect].(tree); ok && r.Intn(3) == 0 {
				if im, ok := inc[sect].(tree); ok {
					for n, o := range im {
						mm[n] = core.DeepCopyVal(o)
						break
					}
				}
			}
		}
		ctx.Count("incResolve-random")
		ctx.Add("c20.incResolve", incArgs{Main: enc(main), Inc: enc(inc), Env: top, IncEnv: file})
	}
}

// the include path, whole load: the models of the include-env layout of the oracle, against Secrets.loadDictInc
func genFlowInc(ctx *core.Ctx) {
	conv := func(a leakArgs, long bool) incArgs {
		main := core.DecodeValRaw(a.Files["compose.yaml"]).(map[string]any)
		delete(main, "include")
		txt := a.RawFiles["mod/.env"]
		if long {
			txt = a.RawFiles["mod/mod.env"]
		}
		return incArgs{Main: enc(main), Inc: a.Files["mod/compose.yaml"], Env: a.Env, IncEnv: a.IncEnv, PName: a.PName, Long: long, EnvTxt: txt}
	}
	decos := [][2]string{c20Deco[0], c20Deco[1], c20Deco[5], c20Deco[20]}
	for _, sk := range []string{"file", "environment", "external", "none"} {
		for _, ck := range []string{"file", "environment", "content", "none"} {
			if sk != "environment" && ck != "environment" {
				continue
			}
			for _, extras := range []int{0, 4, 1 | 2 | 8, 16 | 4} {
				for mode := 0; mode < 4; mode++ {
					for v := 0; v < 4; v++ {
						m := modelSpec{refs: (mode + v) % 3, pname: "proj"}
						env, cores := map[string]string{}, map[string]string{}
						deco := decos[(mode+v+extras)%len(decos)]
						if sk != "none" {
							m.secrets = []resSpec{{name: "s1", kind: sk, varn: "SVAR", extras: extras}}
							if sk == "environment" && mode != 3 {
								env["SVAR"], cores["SVAR"] = canary(1+v, deco)
							}
						}
						if ck != "none" {
							m.configs = []resSpec{{config: true, name: "c1", kind: ck, varn: "CVAR", extras: extras}}
							if ck == "environment" && mode != 3 {
								env["CVAR"], cores["CVAR"] = canary(100+v, deco)
							}
						}
						mode := mode
						ctx.Count("flowInc-exh")
						a := m.leakArgsIncEnv(env, cores, func(string) int { return mode % 3 }, v&1 == 1, v&2 == 2, nil, func(string) {})
						ctx.Add("c20.flowInc", conv(a, v&1 == 1))
					}
				}
			}
		}
	}
	for i := 0; i < ctx.Pick(500, 10000); i++ {
		r := ctx.Rng
		m, env, cores := randModel(r, false)
		long := r.Intn(2) == 0
		a := m.leakArgsIncEnv(env, cores, func(string) int { return r.Intn(3) }, long, r.Intn(2) == 0, r, func(string) {})
		ctx.Count("flowInc-random")
		ctx.Add("c20.flowInc", conv(a, long))
	}
}

func runC20(ctx *core.Ctx) {
	genIncResolve(ctx)
	genFlowInc(ctx)
	genBytes(ctx)
	genEncRend(ctx)
	genResolve(ctx)
	genSetName(ctx)
	genProcExt(ctx)
	genDecode(ctx)
	genMarshal(ctx)
	genApply(ctx)
	genFlow(ctx)
	genLeak(ctx)
	genLeakShared(ctx)
	ctx.Res.Exhaustive = true
}

// ---------------------------------------------------------------- round 7: models handed over already parsed, with shared values

// A program that builds its model in memory (types.ConfigFile.Config, public API) may place one Go map / slice value at
// several positions: the definition of a secret also under an `x-` key, the labels of one resource on another, …
// YAML text never does (yaml.v3 decodes every alias afresh).  Every in-place pass of the loader after interpolation
// (resolve*Environment: the carrier key; setNameFromKey: `name`; the decoder hook: `Content`) then writes through every
// position, unless something between the caller's value and those passes made the positions distinct values.
// With SkipInterpolation the loader works on the caller's value itself (no stage copies it): a recorded finding with
// its own two keys (inPlaceKeys in c20_oracle.go); with interpolation on nothing of the kind may happen.

const plainRef = "${C20_PLAIN_UNSET:-plain}" // a reference that interpolates to a text nobody searches for

type shareTarget struct {
	label string
	path  []string
	wrap  bool
	res   string // "secret" / "config": the target is a resource definition of its own
}

var shareTargets = []shareTarget{
	{"top-ext", []string{"x-shared"}, false, ""},
	{"top-ext-nested", []string{"x-deep", "inner"}, false, ""},
	{"top-ext-list", []string{"x-list"}, true, ""},
	{"svc-ext", []string{"services", "other", "x-shared"}, false, ""},
	{"res-ext", []string{"secrets", "s_file", "x-shared"}, false, ""},
	{"cfg-ext", []string{"configs", "c_inline", "x-shared"}, false, ""},
	{"secret", []string{"secrets", "s_alias"}, false, "secret"},
	{"config", []string{"configs", "c_alias"}, false, "config"},
}

// addDollar writes a `$` reference into the value at path (mapping: a new key; label list: a new entry).
func addDollar(d tree, path []string) bool {
	parent, ok := lookupPath(d, path[:len(path)-1]...)
	if !ok {
		return false
	}
	pm, ok := parent.(tree)
	if !ok {
		return false
	}
	last := path[len(path)-1]
	switch v := pm[last].(type) {
	case tree:
		if len(path) == 2 || last == "x-nested" {
			v["x-dollar"] = plainRef
		} else {
			v["d"] = plainRef
		}
		return true
	case []any:
		if last != "labels" {
			return false
		}
		pm[last] = append(v, "d="+plainRef)
		return true
	}
	return false
}

// resOf: the generated resource a path of length 2 names.
func (m modelSpec) resOf(path []string) (resSpec, bool) {
	if len(path) != 2 {
		return resSpec{}, false
	}
	l := m.secrets
	if path[0] == "configs" {
		l = m.configs
	} else if path[0] != "secrets" {
		return resSpec{}, false
	}
	for _, s := range l {
		if s.name == path[1] {
			return s, true
		}
	}
	return resSpec{}, false
}

// sharedArgs: model m with the value at src placed at the targets too; dollar: 0 no `$` near it, 1 inside the shared
// value, 2 in a sibling (the enclosing resource for a sub-value, another resource of the section for a definition).
func (m modelSpec) sharedArgs(env, cores map[string]string, layout string, src []string, targets []shareTarget, dollar int) (leakArgs, bool) {
	d := m.main()
	if v, ok := lookupPath(d, src...); !ok {
		return leakArgs{}, false
	} else if _, isMap := v.(tree); !isMap {
		if _, isList := v.([]any); !isList {
			return leakArgs{}, false
		}
	}
	if len(src) < 2 && dollar != 0 {
		return leakArgs{}, false
	}
	switch dollar {
	case 1:
		if !addDollar(d, src) {
			return leakArgs{}, false
		}
	case 2:
		sib := src[:2]
		if len(src) == 2 {
			sib = nil
			if sect, ok := d[src[0]].(tree); ok {
				for _, n := range sortedTreeKeys(sect) {
					if _, isMap := sect[n].(tree); isMap && n != src[1] {
						sib = []string{src[0], n}
						break
					}
				}
			}
		}
		if sib == nil || (sib[0] != "secrets" && sib[0] != "configs") || !addDollar(d, sib) {
			return leakArgs{}, false
		}
	}
	a := m.leakArgsTree(d, env, cores, layout)
	a.Pre = &preSpec{}
	res, isRes := m.resOf(src)
	var plain, wrapped [][]string
	for _, t := range targets {
		if t.res != "" && !isRes {
			continue // a labels mapping is not a resource definition
		}
		if _, taken := lookupPath(d, t.path...); taken {
			continue
		}
		if len(t.path) >= len(src) && reflect.DeepEqual(t.path[:len(src)], src) {
			continue // the value would contain itself
		}
		if len(t.path) == 3 {
			if _, ok := lookupPath(d, t.path[:2]...); !ok {
				continue
			}
		}
		switch t.res {
		case "secret":
			a.Secrets = append(a.Secrets, leakRes{Name: t.path[1], Kind: res.kind, Var: res.varn})
		case "config":
			a.Configs = append(a.Configs, leakRes{Name: t.path[1], Kind: res.kind, Var: res.varn})
		}
		if t.wrap {
			wrapped = append(wrapped, t.path)
		} else {
			plain = append(plain, t.path)
		}
	}
	if len(plain) > 0 {
		a.Pre.Aliases = append(a.Pre.Aliases, preAlias{From: src, To: plain})
	}
	if len(wrapped) > 0 {
		a.Pre.Aliases = append(a.Pre.Aliases, preAlias{From: src, To: wrapped, Wrap: true})
	}
	return a, len(a.Pre.Aliases) > 0
}

func genLeakShared(ctx *core.Ctx) {
	dollarName := []string{"no-dollar", "dollar-inside", "dollar-sibling"}
	mk := func(extras int) (modelSpec, map[string]string, map[string]string) {
		m := modelSpec{refs: (extras + 1) % 4, pname: "proj",
			secrets: []resSpec{{name: "s_env", kind: "environment", varn: "SVAR", extras: extras}, {name: "s_env_2", kind: "environment", varn: "SVAR2", extras: extras},
				{name: "s_file", kind: "file", extras: extras &^ 16}},
			configs: []resSpec{{config: true, name: "c_env1", kind: "environment", varn: "CVAR", extras: extras}, {config: true, name: "c_inline", kind: "content"}}}
		env, cores := map[string]string{}, map[string]string{}
		for i, v := range []string{"SVAR", "SVAR2", "CVAR"} {
			env[v], cores[v] = canary(61+3*extras+i, c20Deco[(extras+5*i)%len(c20Deco)])
		}
		return m, env, cores
	}
	srcs := [][]string{{"secrets", "s_env"}, {"secrets", "s_env_2"}, {"configs", "c_env1"}, {"secrets", "s_file"},
		{"secrets", "s_env", "labels"}, {"secrets", "s_env_2", "labels"}, {"configs", "c_env1", "labels"},
		{"secrets", "s_env", "driver_opts"}, {"secrets", "s_env", "x-nested"}, {"services", "app", "secrets"}, {"secrets"}}
	// exhaustive: every source × every single target and all of them at once × `$` placement × resource shape × layout
	for _, extras := range []int{0, 1 | 2 | 16, 31} {
		for _, src := range srcs {
			for ti := 0; ti <= len(shareTargets); ti++ {
				targets := shareTargets
				tl := "all"
				if ti < len(shareTargets) {
					targets, tl = shareTargets[ti:ti+1], shareTargets[ti].label
				}
				for dollar := 0; dollar < 3; dollar++ {
					for _, layout := range []string{"single", "override"} {
						m, env, cores := mk(extras)
						a, ok := m.sharedArgs(env, cores, layout, src, targets, dollar)
						if !ok {
							continue
						}
						ctx.Count("leak-shared-exh")
						ctx.Count("leak-shared-exh-target-" + tl)
						ctx.Count("leak-shared-exh-" + dollarName[dollar])
						ctx.Count("leak-shared-exh-src-" + strings.Join(src, "."))
						ctx.Add("c20.leak", a)
					}
				}
			}
		}
	}
	// the loader options of round 6 on a shared model (interpolation stays on)
	for _, o := range optsExhaustive() {
		for _, src := range [][]string{{"secrets", "s_env"}, {"configs", "c_env1"}, {"secrets", "s_env", "x-nested"}} {
			m, env, cores := mk(31)
			a, ok := m.sharedArgs(env, cores, "single", src, shareTargets, 0)
			if !ok {
				continue
			}
			a.Opts = o
			ctx.Count("leak-shared-exh-opts-" + o.label())
			ctx.Add("c20.leak", a)
		}
	}
	// SkipInterpolation (recorded finding `…:skip-interpolation`: the loader then works in place on the caller's value):
	// every source × every single target, with and without a `$` left as written
	for _, src := range srcs {
		for ti := range shareTargets {
			for dollar := 0; dollar < 2; dollar++ {
				m, env, cores := mk(31)
				a, ok := m.sharedArgs(env, cores, "single", src, shareTargets[ti:ti+1], dollar)
				if !ok {
					continue
				}
				a.Opts = &loadOpts{SkipInterpolation: true}
				ctx.Count("leak-shared-exh-nointerp")
				ctx.Add("c20.leak", a)
			}
		}
	}
}

// randShared: a random model with one or two of its mappings / sequences shared with random other positions.
func (m modelSpec) randShared(r *rand.Rand, env, cores map[string]string, layout string, count func(string)) leakArgs {
	d := m.main()
	var cands [][]string
	for _, sect := range []string{"secrets", "configs"} {
		t, _ := d[sect].(tree)
		for _, n := range sortedTreeKeys(t) {
			cands = append(cands, []string{sect, n})
			if o, ok := t[n].(tree); ok {
				for _, k := range sortedTreeKeys(o) {
					switch o[k].(type) {
					case tree, []any:
						cands = append(cands, []string{sect, n, k})
					}
				}
			}
		}
	}
	src := cands[r.Intn(len(cands))]
	var targets []shareTarget
	for i, t := range shareTargets {
		if r.Intn(3) == 0 {
			t.path = append([]string(nil), t.path...)
			if len(t.path) == 3 { // the extension goes on a resource / service of this model
				t.path[1] = "other"
				if t.path[0] != "services" {
					if sect, _ := d[t.path[0]].(tree); len(sect) > 0 {
						ks := sortedTreeKeys(sect)
						t.path[1] = ks[r.Intn(len(ks))]
					}
				}
			}
			t.path[len(t.path)-1] += fmt.Sprintf("_%d", i)
			targets = append(targets, t)
		}
	}
	if len(targets) == 0 {
		targets = shareTargets[:1]
	}
	dollar := r.Intn(3)
	a, ok := m.sharedArgs(env, cores, layout, src, targets, dollar)
	if !ok {
		a, ok = m.sharedArgs(env, cores, layout, src, targets, 0)
		dollar = 0
	}
	if !ok {
		count("leak-random-shared-none")
		return m.leakArgs(env, cores, layout)
	}
	count("leak-random-shared")
	count([]string{"leak-random-shared-no-dollar", "leak-random-shared-dollar-inside", "leak-random-shared-dollar-sibling"}[dollar])
	if len(src) == 2 {
		count("leak-random-shared-definition")
	} else {
		count("leak-random-shared-sub-value")
	}
	return a
}
