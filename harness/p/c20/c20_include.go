package c20

// C20, round 5 — the include path (Model/SecretsInclude.lean): an included model is resolved with the include's own
// environment (the including environment merged with the include's env file), imported, and resolved a second time
// by the including model.
//
//	c20.incResolve  types.Mapping.Clone().Merge + loader.resolveSecretsEnvironment (the included branch of
//	                loadYamlModel) + loader.importResources + loader.ResolveEnvironment   vs  Secrets.includeModel / resolveModel
//	c20.flowInc     loader.LoadWithContext of a model with one include entry (env_file: or the .env of the included
//	                project directory) + the four renderings                              vs  Secrets.loadDictInc / render

import (
	"encoding/json"
	"os"
	"strings"

	"github.com/compose-spec/compose-go/v2/loader"
	"github.com/compose-spec/compose-go/v2/types"
	"gopkg.in/yaml.v3"

	"verifharness/core"
)

type incArgs struct {
	Main   json.RawMessage   `json:"main"`
	Inc    json.RawMessage   `json:"inc"`
	Env    map[string]string `json:"env"`
	IncEnv map[string]string `json:"inc_env"`
	PName  string            `json:"pname,omitempty"`
	Long   bool              `json:"long,omitempty"`     // `env_file:` of the include entry; else the .env of the included project directory
	EnvTxt string            `json:"env_text,omitempty"` // the env file as written
}

func realIncResolve(raw json.RawMessage) any {
	var a incArgs
	json.Unmarshal(raw, &a)
	main, inc := c20Dict(a.Main), c20Dict(a.Inc)
	top := types.Mapping{}
	for k, v := range a.Env {
		top[k] = v
	}
	// ApplyInclude: Environment: environment.Clone().Merge(envFromFile)
	incEnv := top.Clone().Merge(types.Mapping(a.IncEnv))
	if len(top) != len(a.Env) {
		return map[string]any{"bad": "Clone().Merge modified the including environment"}
	}
	// loadYamlModel of the included file (len(included) > 0): its secrets are resolved, its configs are not
	loader.VerifResolveSecretsEnvironment(inc, incEnv)
	if err := loader.VerifImportResources(inc, main); err != nil {
		switch {
		case strings.Contains(err.Error(), "conflicts with imported resource"):
			return map[string]any{"err": "conflict"}
		case strings.Contains(err.Error(), "must be a mapping"):
			return map[string]any{"err": "must be a mapping"}
		}
		return map[string]any{"err": "other"}
	}
	// the including model
	loader.ResolveEnvironment(main, top)
	sect := func(k string) any {
		if v, ok := main[k]; ok {
			return core.EncodeVal(v)
		}
		return nil
	}
	return map[string]any{"ok": map[string]any{"secrets": sect("secrets"), "configs": sect("configs"), "merged": map[string]string(incEnv)}}
}

func realFlowInc(raw json.RawMessage) any {
	var a incArgs
	json.Unmarshal(raw, &a)
	main, inc := c20Dict(a.Main), c20Dict(a.Inc)
	files := map[string]string{}
	if a.Long {
		main["include"] = []any{map[string]any{"path": "mod/compose.yaml", "env_file": "mod/mod.env"}}
		files["mod/mod.env"] = a.EnvTxt
	} else {
		main["include"] = []any{"mod/compose.yaml"}
		files["mod/.env"] = a.EnvTxt
	}
	for n, d := range map[string]map[string]any{"compose.yaml": main, "mod/compose.yaml": inc} {
		text, err := yaml.Marshal(d)
		if err != nil {
			return map[string]any{"bad": "yaml emit: " + err.Error()}
		}
		files[n] = string(text)
	}
	req := core.LoadReq{Files: files, ConfigFiles: []string{"compose.yaml"}, Env: a.Env, ProjectName: a.PName}
	p, root, err := req.Load()
	defer os.RemoveAll(root)
	if err != nil {
		return map[string]any{"err": "load", "text": core.ScrubErr(err, root)}
	}
	lossy := false
	for _, e := range []map[string]string{a.Env, a.IncEnv} {
		for _, v := range e {
			lossy = lossy || yamlV3Loses(v)
		}
	}
	return flowOut(p, lossy)
}

func flowJudge(what string) func(args, real, drv json.RawMessage) *core.Verdict {
	return func(args, real, drv json.RawMessage) *core.Verdict {
		if isOutOfDomain(drv) {
			return core.Skip("outside the modelled domain")
		}
		switch core.Class(real) {
		case "fatal", "hang":
			return core.CrashVerdict(real)
		case "err":
			if os.Getenv("C20_DEBUG") != "" {
				return core.Disagree("rejected: " + string(real))
			}
			return core.Skip("rejected by the loader")
		}
		var r, d struct {
			Ok map[string]json.RawMessage `json:"ok"`
		}
		if json.Unmarshal(real, &r) == nil && json.Unmarshal(drv, &d) == nil && r.Ok != nil && d.Ok != nil && string(r.Ok["yaml1"]) == "null" {
			delete(r.Ok, "yaml1")
			delete(d.Ok, "yaml1")
			rb, _ := json.Marshal(r)
			db, _ := json.Marshal(d)
			real, drv = rb, db
		}
		if !core.CanonEqual(real, drv) {
			return core.Disagree(what)
		}
		return nil
	}
}

func init() {
	core.Register("c20.incResolve", &core.CheckDef{
		Real:     realIncResolve,
		DriverOp: "c20.incResolve",
		Judge:    corrJudge("Secrets.includeModel/resolveModel ≠ Merge + resolveSecretsEnvironment + importResources + ResolveEnvironment"),
	})
	core.Register("c20.flowInc", &core.CheckDef{
		Real:     realFlowInc,
		DriverOp: "c20.flowInc",
		Judge:    flowJudge("Secrets.loadDictInc/render ≠ LoadWithContext (include with its own env file) + Marshal{YAML,JSON}"),
	})
}
