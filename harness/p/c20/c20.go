package c20

// C20 — secret values taken from the environment never leak into rendered output.
//
// Correspondence (real code vs Lean model Model/Secrets.lean):
//	c20.resolve   loader.resolveSecretsEnvironment / resolveConfigsEnvironment
//	c20.setName   loader.setNameFromKey
//	c20.procExt   loader.processExtensions (no KnownExtensions)
//	c20.decode    loader.Transform into types.SecretConfig / types.ConfigObjConfig (hook + struct decode)
//	c20.marshal   yaml.Marshal / json.Marshal of types.SecretConfig / types.ConfigObjConfig
//	c20.apply     types.applyMarshallOptions (aliasing, receiver flags, result flags)
//	c20.flow      loader.LoadWithContext + Project.MarshalYAML/JSON (± WithSecretContent) vs Secrets.load/render
// Direct oracle on the real code (no model involved):
//	c20.leak      canary search over the whole output of every renderer × mode, exactness of the
//	              requested content, source of env configs, value availability, purity of rendering
//	              (see c20_oracle.go)

import (
	"context"
	"encoding/json"
	"fmt"
	"math/rand"
	"reflect"
	"sort"
	"strings"

	"github.com/compose-spec/compose-go/v2/loader"
	"github.com/compose-spec/compose-go/v2/types"
	"gopkg.in/yaml.v3"

	"verifharness/core"
)

// ---------------------------------------------------------------- wire helpers

type c20TreeArgs struct {
	Dict  json.RawMessage   `json:"dict"`
	Env   map[string]string `json:"env,omitempty"`
	Which string            `json:"which,omitempty"`
	PName string            `json:"pname,omitempty"`
	Opts  *loadOpts         `json:"opts,omitempty"`
}

func c20Dict(raw json.RawMessage) map[string]any {
	m, _ := core.DecodeValRaw(raw).(map[string]any)
	if m == nil {
		m = map[string]any{}
	}
	return m
}

type c20Obj struct {
	Name           string            `json:"name"`
	File           string            `json:"file"`
	Environment    string            `json:"environment"`
	Content        string            `json:"content"`
	Flag           bool              `json:"flag"`
	External       bool              `json:"external"`
	Labels         map[string]string `json:"labels"`
	Driver         string            `json:"driver"`
	DriverOpts     map[string]string `json:"driver_opts"`
	TemplateDriver string            `json:"template_driver"`
	Extensions     any               `json:"extensions"` // tagged tree (a mapping)
}

func nonNil(m map[string]string) map[string]string {
	if m == nil {
		return map[string]string{}
	}
	return m
}

func extTree(e types.Extensions) any {
	m := map[string]any{}
	for k, v := range e {
		m[k] = v
	}
	return core.EncodeVal(normTree(m))
}

func objOfFile(f types.FileObjectConfig, flag bool) c20Obj {
	return c20Obj{Name: f.Name, File: f.File, Environment: f.Environment, Content: f.Content, Flag: flag, External: bool(f.External),
		Labels: nonNil(f.Labels), Driver: f.Driver, DriverOpts: nonNil(f.DriverOpts), TemplateDriver: f.TemplateDriver, Extensions: extTree(f.Extensions)}
}

func objOfSecret(s types.SecretConfig) c20Obj {
	return objOfFile(types.FileObjectConfig(s), types.VerifSecretMarshallContent(s))
}
func objOfConfig(s types.ConfigObjConfig) c20Obj {
	return objOfFile(types.FileObjectConfig(s), types.VerifConfigMarshallContent(s))
}

func (o c20Obj) file() types.FileObjectConfig {
	f := types.FileObjectConfig{Name: o.Name, File: o.File, Environment: o.Environment, Content: o.Content, External: types.External(o.External),
		Driver: o.Driver, TemplateDriver: o.TemplateDriver}
	if len(o.Labels) > 0 {
		f.Labels = types.Labels(o.Labels)
	}
	if len(o.DriverOpts) > 0 {
		f.DriverOpts = o.DriverOpts
	}
	if o.Extensions != nil {
		if m, ok := core.DecodeVal(o.Extensions).(map[string]any); ok && len(m) > 0 {
			f.Extensions = types.Extensions(m)
		}
	}
	return f
}
func (o c20Obj) secret() types.SecretConfig {
	return types.VerifSecretWithMarshallContent(types.SecretConfig(o.file()), o.Flag)
}
func (o c20Obj) config() types.ConfigObjConfig {
	return types.VerifConfigWithMarshallContent(types.ConfigObjConfig(o.file()), o.Flag)
}

// normTree normalises what yaml.v3 / encoding/json decoders return to the harness's tree kinds.
func normTree(v any) any {
	switch x := v.(type) {
	case map[string]any:
		m := make(map[string]any, len(x))
		for k, e := range x {
			m[k] = normTree(e)
		}
		return m
	case map[any]any:
		m := make(map[string]any, len(x))
		for k, e := range x {
			m[fmt.Sprint(k)] = normTree(e)
		}
		return m
	case types.Extensions:
		m := make(map[string]any, len(x))
		for k, e := range x {
			m[k] = normTree(e)
		}
		return m
	case []any:
		l := make([]any, len(x))
		for i, e := range x {
			l[i] = normTree(e)
		}
		return l
	case float64:
		if x == float64(int64(x)) {
			return int(x)
		}
		return x
	}
	return v
}

func yamlToTree(b []byte) (any, error) {
	var v any
	if err := yaml.Unmarshal(b, &v); err != nil {
		return nil, err
	}
	return normTree(v), nil
}

func jsonToTree(b []byte) (any, error) {
	var v any
	if err := json.Unmarshal(b, &v); err != nil {
		return nil, err
	}
	return normTree(v), nil
}

// sections keeps the `secrets` and `configs` keys of a rendered project.
func sections(v any) any {
	out := map[string]any{}
	if m, ok := v.(map[string]any); ok {
		for _, k := range []string{"secrets", "configs"} {
			if e, ok := m[k]; ok {
				out[k] = e
			}
		}
	}
	return out
}

type namedObj struct {
	n string
	o c20Obj
}

func sortedObjs(l []namedObj) []any {
	sort.Slice(l, func(i, j int) bool { return l[i].n < l[j].n })
	out := make([]any, len(l))
	for i, e := range l {
		out[i] = []any{e.n, e.o}
	}
	return out
}

func secretsList(m types.Secrets) []any {
	var l []namedObj
	for n, s := range m {
		l = append(l, namedObj{n, objOfSecret(s)})
	}
	return sortedObjs(l)
}

func configsList(m types.Configs) []any {
	var l []namedObj
	for n, s := range m {
		l = append(l, namedObj{n, objOfConfig(s)})
	}
	return sortedObjs(l)
}

// c20Load loads a compose model given as a tree (rendered to YAML by yaml.v3 and checked by decoding it back).
func c20Load(files []map[string]any, env map[string]string, pname string, opt func(*loader.Options)) (*types.Project, error) {
	var cfs []types.ConfigFile
	for i, d := range files {
		text, err := yaml.Marshal(d)
		if err != nil {
			return nil, fmt.Errorf("harness: yaml emit: %w", err)
		}
		back, err := yamlToTree(text)
		if err != nil || !reflect.DeepEqual(back, normTree(d)) {
			return nil, fmt.Errorf("harness: yaml emit/parse round trip differs")
		}
		cfs = append(cfs, types.ConfigFile{Filename: fmt.Sprintf("/work/compose%d.yaml", i), Content: text})
	}
	e := map[string]string{}
	for k, v := range env {
		e[k] = v
	}
	return loader.LoadWithContext(context.Background(), types.ConfigDetails{WorkingDir: "/work", ConfigFiles: cfs, Environment: e}, func(o *loader.Options) {
		o.SetProjectName(pname, true)
		o.SkipInclude = true
		if opt != nil {
			opt(o)
		}
	})
}

func isOutOfDomain(drv json.RawMessage) bool {
	var m map[string]any
	return json.Unmarshal(drv, &m) == nil && m["err"] == "outOfDomain"
}

func corrJudge(what string) func(args, real, drv json.RawMessage) *core.Verdict {
	return func(args, real, drv json.RawMessage) *core.Verdict {
		if isOutOfDomain(drv) {
			return core.Skip("outside the modelled domain")
		}
		if c := core.Class(real); c == "fatal" || c == "hang" {
			return core.CrashVerdict(real)
		}
		if !core.CanonEqual(real, drv) {
			return core.Disagree(what)
		}
		return nil
	}
}

func init() {
	core.Register("c20.resolve", &core.CheckDef{
		Real: func(raw json.RawMessage) any {
			var a c20TreeArgs
			json.Unmarshal(raw, &a)
			d := c20Dict(a.Dict)
			env := types.Mapping(a.Env)
			switch a.Which {
			case "secrets":
				loader.VerifResolveSecretsEnvironment(d, env)
			case "configs":
				loader.VerifResolveConfigsEnvironment(d, env)
			default:
				loader.VerifResolveSecretsEnvironment(d, env)
				loader.VerifResolveConfigsEnvironment(d, env)
			}
			return map[string]any{"ok": core.EncodeVal(d)}
		},
		DriverOp: "c20.resolve",
		Judge:    corrJudge("Secrets.resolve*Env ≠ loader.resolve*Environment"),
	})
	core.Register("c20.setName", &core.CheckDef{
		Real: func(raw json.RawMessage) any {
			var a c20TreeArgs
			json.Unmarshal(raw, &a)
			d := c20Dict(a.Dict)
			if err := loader.VerifSetNameFromKeyErr(d); err != nil {
				// since the C01 repair a section / resource of the wrong kind is an error, no longer a panic
				return map[string]any{"err": "setNameFromKey"}
			}
			return map[string]any{"ok": core.EncodeVal(d)}
		},
		DriverOp: "c20.setName",
		Judge:    corrJudge("Secrets.setNameFromKey ≠ loader.setNameFromKey"),
	})
	core.Register("c20.procExt", &core.CheckDef{
		Real: func(raw json.RawMessage) any {
			var a c20TreeArgs
			json.Unmarshal(raw, &a)
			d := c20Dict(a.Dict)
			res, err := loader.VerifProcessExtensions(d, nil)
			if err != nil {
				return map[string]any{"err": "error"}
			}
			return map[string]any{"ok": core.EncodeVal(res)}
		},
		DriverOp: "c20.procExt",
		Judge:    corrJudge("Secrets.processExtensions ≠ loader.processExtensions"),
	})
	core.Register("c20.decode", &core.CheckDef{
		Real: func(raw json.RawMessage) any {
			var a struct {
				V    json.RawMessage `json:"v"`
				Kind string          `json:"kind"`
			}
			json.Unmarshal(raw, &a)
			v := core.DecodeValRaw(a.V)
			if a.Kind == "secret" {
				var s types.SecretConfig
				if err := loader.Transform(v, &s); err != nil {
					return map[string]any{"err": "decode"}
				}
				return map[string]any{"ok": objOfSecret(s)}
			}
			var s types.ConfigObjConfig
			if err := loader.Transform(v, &s); err != nil {
				return map[string]any{"err": "decode"}
			}
			return map[string]any{"ok": objOfConfig(s)}
		},
		DriverOp: "c20.decode",
		Judge:    corrJudge("Secrets.decodeSecret/decodeConfig ≠ loader.Transform"),
	})
	core.Register("c20.marshal", &core.CheckDef{
		Real: func(raw json.RawMessage) any {
			var a struct {
				Obj      c20Obj `json:"obj"`
				Kind     string `json:"kind"`
				Renderer string `json:"renderer"`
			}
			json.Unmarshal(raw, &a)
			var v any
			if a.Kind == "secret" {
				v = a.Obj.secret()
			} else {
				v = a.Obj.config()
			}
			var tree any
			var err error
			if a.Renderer == "json" {
				var b []byte
				if b, err = json.Marshal(v); err == nil {
					tree, err = jsonToTree(b)
				}
			} else {
				var b []byte
				if b, err = yaml.Marshal(v); err == nil {
					tree, err = yamlToTree(b)
				}
			}
			if err != nil {
				return map[string]any{"err": "marshal"}
			}
			if tree == nil {
				tree = map[string]any{}
			}
			return map[string]any{"ok": core.EncodeVal(tree)}
		},
		DriverOp: "c20.marshal",
		Judge:    corrJudge("Secrets.renderSecret/renderConfig ≠ Marshal{YAML,JSON}"),
	})
	core.Register("c20.apply", &core.CheckDef{
		Real: func(raw json.RawMessage) any {
			var a struct {
				Secrets [][2]json.RawMessage `json:"secrets"`
				Content bool                 `json:"content"`
			}
			json.Unmarshal(raw, &a)
			p := &types.Project{Name: "p", Services: types.Services{}, Secrets: types.Secrets{}}
			for _, e := range a.Secrets {
				var n string
				var o c20Obj
				json.Unmarshal(e[0], &n)
				json.Unmarshal(e[1], &o)
				p.Secrets[n] = o.secret()
			}
			q := types.VerifApplyMarshallOptions(p, a.Content)
			return map[string]any{"aliased": q == p, "receiver": secretsList(p.Secrets), "result": secretsList(q.Secrets)}
		},
		DriverOp: "c20.apply",
		DriverArgs: func(args, real json.RawMessage) any {
			// the model iterates in list order: give it the entries sorted by name, as the observation is
			var a struct {
				Secrets [][2]json.RawMessage `json:"secrets"`
				Content bool                 `json:"content"`
			}
			json.Unmarshal(args, &a)
			sort.SliceStable(a.Secrets, func(i, j int) bool { return string(a.Secrets[i][0]) < string(a.Secrets[j][0]) })
			return a
		},
		Judge: corrJudge("Secrets.applyHeap ≠ types.applyMarshallOptions"),
	})
	core.Register("c20.flow", &core.CheckDef{
		Real:     realFlow,
		DriverOp: "c20.flow",
		Judge: func(args, real, drv json.RawMessage) *core.Verdict {
			if isOutOfDomain(drv) {
				return core.Skip("outside the modelled domain")
			}
			switch core.Class(real) {
			case "fatal", "hang":
				return core.CrashVerdict(real)
			case "err":
				return core.Skip("rejected by the loader")
			}
			var r, d struct {
				Ok map[string]json.RawMessage `json:"ok"`
			}
			if json.Unmarshal(real, &r) == nil && json.Unmarshal(drv, &d) == nil && r.Ok != nil && d.Ok != nil && string(r.Ok["yaml1"]) == "null" {
				delete(r.Ok, "yaml1")
				delete(d.Ok, "yaml1")
				rb, _ := json.Marshal(r)
				db, _ := json.Marshal(d)
				real, drv = rb, db
			}
			if !core.CanonEqual(real, drv) {
				return core.Disagree("Secrets.load/render ≠ LoadWithContext + Marshal{YAML,JSON}")
			}
			return nil
		},
	})
	core.Register("c20.jsonBytes", &core.CheckDef{
		Real: func(raw json.RawMessage) any {
			var a struct {
				V json.RawMessage `json:"v"`
			}
			json.Unmarshal(raw, &a)
			b, err := json.MarshalIndent(core.DecodeValRaw(a.V), "", "  ")
			if err != nil {
				return map[string]any{"err": "marshal"}
			}
			return map[string]any{"ok": string(b)}
		},
		DriverOp: "c20.jsonBytes",
		Judge:    corrJudge("Bytes.jsonRender ≠ json.MarshalIndent"),
	})
	registerC20Oracle()
	core.RegisterProp("C20", runC20)
}

func realFlow(raw json.RawMessage) any {
	var a c20TreeArgs
	json.Unmarshal(raw, &a)
	d := c20Dict(a.Dict)
	p, err := c20Load([]map[string]any{d}, a.Env, a.PName, a.Opts.apply)
	if err != nil {
		if strings.HasPrefix(err.Error(), "harness:") {
			return map[string]any{"bad": err.Error()}
		}
		return map[string]any{"err": "load"}
	}
	lossy := false
	for _, v := range a.Env {
		lossy = lossy || yamlV3Loses(v)
	}
	return flowOut(p, lossy)
}

// flowOut: the typed secrets / configs of the loaded project and the two sections of its four renderings
func flowOut(p *types.Project, lossy bool) any {
	out := map[string]any{"secrets": secretsList(p.Secrets), "configs": configsList(p.Configs)}
	var err error
	for _, m := range []struct {
		key     string
		json    bool
		content bool
	}{{"yaml0", false, false}, {"yaml1", false, true}, {"json0", true, false}, {"json1", true, true}} {
		var b []byte
		b, err = renderProject(p, m.json, m.content)
		if err != nil {
			return map[string]any{"err": "marshal"}
		}
		var tree any
		if m.json {
			tree, err = jsonToTree(b)
		} else {
			tree, err = yamlToTree(b)
		}
		if m.key == "yaml1" && lossy {
			// yaml.v3 cannot carry one of the values (recorded finding, see c20_oracle.go): the bytes are not comparable
			out[m.key] = nil
			continue
		}
		if err != nil {
			return map[string]any{"bad": "rendered output does not parse: " + err.Error()}
		}
		out[m.key] = core.EncodeVal(sections(tree))
	}
	return map[string]any{"ok": out}
}

func renderProject(p *types.Project, asJSON, content bool) ([]byte, error) {
	switch {
	case asJSON && content:
		return p.MarshalJSON(types.WithSecretContent)
	case asJSON:
		return p.MarshalJSON()
	case content:
		return p.MarshalYAML(types.WithSecretContent)
	default:
		return p.MarshalYAML()
	}
}

// ---------------------------------------------------------------- round 6: loader options

// loadOpts: the loader options that change the dynamic type or the shape of what the stages after them see.
// The zero value (or nil) is the default load.
type loadOpts struct {
	KnownExt          []string `json:"known_ext,omitempty"` // x-* keys the caller registers a Go type for (Options.KnownExtensions)
	SkipInterpolation bool     `json:"skip_interpolation,omitempty"`
	SkipNormalization bool     `json:"skip_normalization,omitempty"`
	SkipValidation    bool     `json:"skip_validation,omitempty"`
	SkipConsistency   bool     `json:"skip_consistency,omitempty"`
	NoResolvePaths    bool     `json:"no_resolve_paths,omitempty"`
	Profiles          []string `json:"profiles,omitempty"`
}

type knownMagic struct {
	Foo string
	N   int `mapstructure:"n"`
}

// knownExtType: the Go value registered for a known extension key.  Keys the generated models use get the type of
// the value they carry there (so the load succeeds); any other key gets a struct.
func knownExtType(name string) any {
	switch name {
	case "x-note", "x-from-override":
		return ""
	case "x-nested":
		return map[string]any{}
	case "x-#value":
		// the private carrier of a secret's value, registered by the caller: a pointer type accepts any string
		return new(string)
	}
	return knownMagic{}
}

func (o *loadOpts) apply(lo *loader.Options) {
	if o == nil {
		return
	}
	if len(o.KnownExt) > 0 {
		lo.KnownExtensions = map[string]any{}
		for _, n := range o.KnownExt {
			lo.KnownExtensions[n] = knownExtType(n)
		}
	}
	lo.SkipInterpolation = lo.SkipInterpolation || o.SkipInterpolation
	lo.SkipNormalization = lo.SkipNormalization || o.SkipNormalization
	lo.SkipValidation = lo.SkipValidation || o.SkipValidation
	lo.SkipConsistencyCheck = lo.SkipConsistencyCheck || o.SkipConsistency
	if o.NoResolvePaths {
		lo.ResolvePaths = false
	}
	if len(o.Profiles) > 0 {
		lo.Profiles = o.Profiles
	}
}

func (o *loadOpts) label() string {
	if o == nil {
		return "default"
	}
	var l []string
	if len(o.KnownExt) > 0 {
		l = append(l, "known")
		for _, k := range o.KnownExt {
			if k == "x-#value" {
				l[len(l)-1] = "known-carrier"
			}
		}
	}
	for _, f := range []struct {
		on bool
		n  string
	}{{o.SkipInterpolation, "nointerp"}, {o.SkipNormalization, "nonorm"}, {o.SkipValidation, "noval"}, {o.SkipConsistency, "nocons"}, {o.NoResolvePaths, "nopaths"}, {len(o.Profiles) > 0, "profiles"}} {
		if f.on {
			l = append(l, f.n)
		}
	}
	if len(l) == 0 {
		return "default"
	}
	return strings.Join(l, "+")
}

var knownExtKeys = []string{"x-note", "x-nested", "x-from-override", "x-unused", "x-magic"}

// optsExhaustive: every single option alone, known extensions used / unused by the resources, and all together.
func optsExhaustive() []*loadOpts {
	return []*loadOpts{
		{KnownExt: []string{"x-unused"}},
		{KnownExt: []string{"x-note"}},
		{KnownExt: []string{"x-nested", "x-magic"}},
		{KnownExt: knownExtKeys},
		{KnownExt: []string{"x-#value"}},
		{SkipInterpolation: true},
		{SkipNormalization: true},
		{SkipValidation: true},
		{SkipConsistency: true},
		{NoResolvePaths: true},
		{Profiles: []string{"debug"}},
		{Profiles: []string{"*"}},
		{KnownExt: knownExtKeys, SkipInterpolation: true, SkipNormalization: true, SkipValidation: true, SkipConsistency: true, NoResolvePaths: true, Profiles: []string{"debug"}},
	}
}

func randOpts(r *rand.Rand) *loadOpts {
	o := &loadOpts{}
	if r.Intn(2) == 0 {
		for _, k := range knownExtKeys {
			if r.Intn(3) == 0 {
				o.KnownExt = append(o.KnownExt, k)
			}
		}
		if len(o.KnownExt) == 0 {
			o.KnownExt = []string{knownExtKeys[r.Intn(len(knownExtKeys))]}
		}
		if r.Intn(4) == 0 {
			o.KnownExt = append(o.KnownExt, "x-#value")
		}
	}
	o.SkipInterpolation = r.Intn(4) == 0
	o.SkipNormalization = r.Intn(4) == 0
	o.SkipValidation = r.Intn(4) == 0
	o.SkipConsistency = r.Intn(4) == 0
	o.NoResolvePaths = r.Intn(4) == 0
	if r.Intn(4) == 0 {
		o.Profiles = [][]string{{"debug"}, {"*"}, {"a", "b"}}[r.Intn(3)]
	}
	return o
}
