package c18

// Round 5: measured branch coverage of the Lean model by the `dotenv` correspondence.
//
// The driver op `dotenvT` runs `Dotenv.parseT` (Lean theorem `parseT_is_parse`: its first component IS the
// model `Dotenv.parse`) and returns, beside the outcome, a bit mask of the model branches the run went
// through (`Model/DotenvTrace.lean`).  Every case on which the model and dotenv.UnmarshalWithLookup AGREE
// adds its mask to the histogram below; at the end of the run the histogram lands in the evidence
// (`model-branch:<name>`) and a branch that no agreeing input reached is a disagreement of the check
// (`modelBranchCoverage`): a part of the model that the tie never exercised.

import (
	"encoding/json"
	"fmt"
	"strings"
	"sync"

	"verifharness/core"
)

// the names of the bits; cross-checked against the Lean list `Dotenv.tagNames` on every run (`dotenvTagNames`)
var c18TagNames = []string{
	"stmt:end-of-input", "stmt:comment-line-skipped", "stmt:leading-space-skipped",
	"export:stripped", "export:prefix-of-longer-key", "export:bare-word-at-eof",
	"scanKey:delim-eq-colon", "scanKey:delim-newline", "scanKey:noDelim", "scanKey:bad", "scanKey:space-skipped",
	"locateKey:zeroLength", "locateKey:unexpectedChar", "locateKey:bare-at-eof", "locateKey:delimited", "locateKey:key-right-trimmed",
	"parse:keySpace", "parse:inherited-found", "parse:inherited-missing", "parse:value-error", "parse:value-ok",
	"parse:later-assignment-overwrites",
	"value:unquoted", "value:unq-inline-comment-cut", "value:unq-right-trimmed", "value:unq-at-eof",
	"value:dq-closed", "value:sq-closed", "value:unterminated", "value:unterminated-multiline", "value:template-error",
	"quoted:escaped-quote", "quoted:backslash-pair-kept", "quoted:multiline",
	"esc:lone-trailing-backslash", "esc:simple", "esc:octal-accepted", "esc:octal-rejected", "esc:other-pair-kept", "esc:plain-char",
	"value:has-dollar", "value:dq-rest-nonempty", "value:empty",
}

var (
	c18BranchMu   sync.Mutex
	c18BranchHits = make([]int64, 64)
	c18Traced     int64
)

func c18RecordBranches(mask uint64) {
	c18BranchMu.Lock()
	c18Traced++
	for i := 0; mask != 0; i, mask = i+1, mask>>1 {
		if mask&1 != 0 {
			c18BranchHits[i]++
		}
	}
	c18BranchMu.Unlock()
}

// branches of the model that `parse` cannot reach (they exist because the function is modelled for all arguments):
// the text between double quotes that `quotedLoop` hands to `expandEscapes` consists of plain characters, `\c` pairs
// and bare quotes, so the regexp never sees a backslash that is the last character.  Reported in the histogram
// (count 0) but not demanded.
var c18Unreachable = map[string]bool{"esc:lone-trailing-backslash": true}

type tracedOut struct {
	Out json.RawMessage `json:"out"`
	Br  uint64          `json:"br"`
}

type coverageArgs struct {
	Traced  int64    `json:"traced"`
	Missing []string `json:"missing"`
}

func init() {
	core.Register("dotenvTagNames", &core.CheckDef{
		DriverOp: "dotenvTags",
		Judge: func(args, real, drv json.RawMessage) *core.Verdict {
			var names []string
			if err := json.Unmarshal(drv, &names); err != nil || strings.Join(names, "|") != strings.Join(c18TagNames, "|") {
				return core.Disagree(fmt.Sprintf("branch names of Model/DotenvTrace.lean and harness/p/c18/c18trace.go differ: %s", drv))
			}
			return nil
		},
	})
	core.Register("modelBranchCoverage", &core.CheckDef{
		Judge: func(args, real, drv json.RawMessage) *core.Verdict {
			var a coverageArgs
			json.Unmarshal(args, &a)
			if len(a.Missing) > 0 {
				return core.Disagree(fmt.Sprintf("branches of the Lean model that no agreeing correspondence input reached (%d traced cases): %s",
					a.Traced, strings.Join(a.Missing, ", ")))
			}
			return nil
		},
	})
}

// c18Coverage flushes the queue, writes the histogram into the evidence and judges it.
func c18Coverage(ctx *core.Ctx) {
	ctx.Add("dotenvTagNames", struct{}{})
	ctx.Wait()
	c18BranchMu.Lock()
	a := coverageArgs{Traced: c18Traced}
	hits := append([]int64(nil), c18BranchHits...)
	c18BranchMu.Unlock()
	for i, n := range c18TagNames {
		if hits[i] == 0 && !c18Unreachable[n] {
			a.Missing = append(a.Missing, n)
		}
	}
	ctx.Add("modelBranchCoverage", a)
	ctx.Wait()
	for i, n := range c18TagNames {
		ctx.Res.Distribution["model-branch:"+n] = int(hits[i])
	}
	ctx.Res.Distribution["model-branch-traced-cases"] = int(a.Traced)
}
