package c18

// Round 5: the tie of the parametricity theorems (`parse_parametric`, `template_parametric`) to the real code.
//
// The Lean model treats every code point outside Latin-1 ∪ {U+4E16, U+FEFF, U+017F, U+212A} as *generic* and the
// theorems say that it cannot observe an injective renaming of generic code points.  Here the real parser is held to
// the same statement on the part of that class where Go's tables agree that nothing is special (not a letter, not a
// number, not white space): the six representatives of the older streams are replaced by code points drawn from the
// WHOLE class (BMP symbols, punctuation, combining marks, private use, astral planes — 1-, 2-, 3- and 4-byte
// encodings next to one another, so that byte offsets move), and
//
//	dotenv        the model must agree with the real parser on these texts as well (the generic class of the model
//	              is tied to Go's classification over the whole pool, not to six samples);
//	dotenvRename  metamorphic, real code only: parsing the renamed text with the renamed lookup gives the renamed
//	              outcome (names, values, partial map; same error class).

import (
	"encoding/json"
	"fmt"
	"strings"
	"unicode"
	"unicode/utf8"

	"verifharness/core"
)

type renameArgs struct {
	Src    string            `json:"src"`
	Lookup map[string]string `json:"lookup"`
	From   []string          `json:"from"` // φ maps From[i] to To[i] (a cyclic shift of distinct generic code points)
	To     []string          `json:"to"`
}

func (a renameArgs) replacer() *strings.Replacer {
	var p []string
	for i := range a.From {
		p = append(p, a.From[i], a.To[i])
	}
	return strings.NewReplacer(p...)
}

func renameAny(r *strings.Replacer, v any) any {
	switch x := v.(type) {
	case string:
		return r.Replace(x)
	case map[string]string:
		o := map[string]string{}
		for k, s := range x {
			o[r.Replace(k)] = r.Replace(s)
		}
		return o
	case map[string]any:
		o := map[string]any{}
		for k, s := range x {
			o[r.Replace(k)] = renameAny(r, s)
		}
		return o
	}
	return v
}

// the generic code points: valid, outside the special set of the model, and unremarkable for Go's unicode tables
var c18GenericPool = func() []rune {
	var pool []rune
	add := func(lo, hi rune, step int) {
		for c := lo; c <= hi; c += rune(step) {
			if !utf8.ValidRune(c) || c < 0x100 || c == 0x4E16 || c == 0xFEFF || c == 0x17F || c == 0x212A {
				continue
			}
			if unicode.IsLetter(c) || unicode.IsNumber(c) || unicode.IsSpace(c) {
				continue
			}
			pool = append(pool, c)
		}
	}
	add(0x0100, 0x07FF, 1)     // two-byte encodings: combining marks, modifier symbols …
	add(0x0800, 0xFFFD, 7)     // three-byte: symbols, punctuation, private use, unassigned
	add(0x2000, 0x2BFF, 1)     // general punctuation, currency, arrows, mathematical operators, dingbats
	add(0x3000, 0x303F, 1)     // CJK punctuation (U+3000 is white space: filtered)
	add(0xE000, 0xE0FF, 1)     // private use
	add(0x10000, 0x10FFFF, 997) // four-byte
	add(0x1F300, 0x1F6FF, 1)   // emoji
	return pool
}()

func init() {
	core.Register("dotenvRename", &core.CheckDef{
		Real: func(raw json.RawMessage) any {
			var a renameArgs
			json.Unmarshal(raw, &a)
			r := a.replacer()
			direct := realDotenv(a.Src, a.Lookup)
			renamed := realDotenv(r.Replace(a.Src), renameAny(r, a.Lookup).(map[string]string))
			return map[string]any{"expected": renameAny(r, direct), "renamed": renamed}
		},
		Judge: func(args, real, drv json.RawMessage) *core.Verdict {
			if v := core.CrashVerdict(real); v != nil {
				return v
			}
			var r map[string]json.RawMessage
			json.Unmarshal(real, &r)
			if !core.CanonEqual(r["expected"], r["renamed"]) {
				return core.Fail("generic-code-point-renaming-observed",
					fmt.Sprintf("the parser distinguishes code points that are neither letters, numbers nor white space: renamed outcome of the text %s ≠ outcome of the renamed text %s",
						r["expected"], r["renamed"]))
			}
			return nil
		},
	})
}

func c18Rename(ctx *core.Ctx) {
	reps := []string{"\u20ac", "\u2192", "\U0001F600", "\u0301", "\u3001", "\ue000"}
	toks := []string{"A", "B", "Z", "=", "=", ":", " ", " ", "\n", "\n", "#", " #", "\"", "'", "\\", "\\n", "$A", "${Z}", "${A:-\u20ac}", "${Z?\u2192}", "$",
		"export ", "\t", "x", "1", "\u20ac", "\u20ac", "\u2192", "\U0001F600", "\u0301", "\u3001", "\ue000", "\u20ac\u2192", "A\u20ac"}
	n := ctx.Pick(6000, 150000)
	for i := 0; i < n; i++ {
		var src string
		lookup := genLookup(ctx)
		if i%3 == 0 {
			// grammar lines (the generators' alphabets contain the six representatives)
			var ls []dline
			for k := 1 + ctx.Rng.Intn(4); k > 0; k-- {
				ls = append(ls, genLine(ctx))
			}
			src = renderLines(ls, ctx.Rng.Intn(4) != 0)
		} else {
			var b strings.Builder
			for k := 3 + ctx.Rng.Intn(12); k > 0; k-- {
				b.WriteString(toks[ctx.Rng.Intn(len(toks))])
			}
			src = b.String()
		}
		if ctx.Rng.Intn(2) == 0 {
			lookup["Z"] = pick(ctx, []string{"\u20ac", "z\u2192 ", "\U0001F600${A}", "\u0301"})
		}
		// the six representatives become code points drawn from the whole generic class …
		perm := ctx.Rng.Perm(len(c18GenericPool))
		var from, to, pairs []string
		for j, rep := range reps {
			g := string(c18GenericPool[perm[j]])
			pairs = append(pairs, rep, g)
			from = append(from, g)
		}
		wide := strings.NewReplacer(pairs...)
		src = wide.Replace(src)
		lookup = renameAny(wide, lookup).(map[string]string)
		// … and φ shifts them cyclically, optionally through further code points that do not occur in the text
		for j := 0; j < ctx.Rng.Intn(3); j++ {
			from = append(from, string(c18GenericPool[perm[len(reps)+j]]))
		}
		to = append(append([]string(nil), from[1:]...), from[0])
		if !strings.ContainsAny(src, strings.Join(from, "")) {
			ctx.Count("rename-no-generic-code-point")
			continue
		}
		ctx.Count("rename-metamorphic")
		ctx.Add("dotenvRename", renameArgs{Src: src, Lookup: lookup, From: from, To: to})
		if i%2 == 0 {
			ctx.Count("model-wide-generic-code-points")
			ctx.Add("dotenv", dotenvArgs{Src: src, Lookup: lookup})
		}
	}
	ctx.Note("generic code point pool: %d code points", len(c18GenericPool))
}
