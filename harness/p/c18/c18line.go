package c18

// Round 6: the line counter `parser.line` (Model/DotenvLine.lean). The number in the three `line %d:` error messages
// of the real parser must be the one the model computes (`parseL`, proved to have the outcome of `parse`).

import (
	"encoding/json"
	"regexp"
	"strconv"
	"strings"

	"github.com/compose-spec/compose-go/v2/dotenv"

	"verifharness/core"
)

var reLineNo = regexp.MustCompile(`^line (\d+): `)

func init() {
	core.Register("dotenvLine", &core.CheckDef{
		Real: func(raw json.RawMessage) any {
			var a dotenvArgs
			json.Unmarshal(raw, &a)
			m, err := dotenv.UnmarshalWithLookup(a.Src, lookupFn(a.Lookup))
			line := -1
			if err != nil {
				if g := reLineNo.FindStringSubmatch(err.Error()); g != nil {
					line, _ = strconv.Atoi(g[1])
				}
			}
			return map[string]any{"out": dotenvOutcome(m, err), "line": line}
		},
		DriverOp: "dotenvL",
		Judge: func(args, real, drv json.RawMessage) *core.Verdict {
			if v := core.CrashVerdict(real); v != nil {
				return v
			}
			if !core.CanonEqual(real, drv) {
				return core.Disagree("Dotenv.parseL (outcome, line number of the message) ≠ dotenv.UnmarshalWithLookup")
			}
			return nil
		},
	})
}

// files whose LAST statement is an error with a line number, after 0–5 lines of every kind (blank, comment, bare key with and
// without trailing space, unquoted, multi-line quoted, inline comments, CRLF), with and without a final line feed
func c18Line(ctx *core.Ctx) {
	tails := []string{"A$=1", "A B=1", "A\tB=1", "A B", "A\tB", "A B\n", "A\tB\n", "A B\nX=1", "K='a", "K=\"a\nb\nc", "K='a\n\n", "K=\"a\\\"\n", "'x'=1", "export A$", "A\r\nB C\r\n", " A B \n", "A\t\nB$"}
	heads := []string{"", "\n", "\n\n", "# c\n", "  # c\n# d\n", "A=1\n", "A=1 # c\n", "A\n", "A \n", "A\t\n", "export A\n", "A='x\ny'\n", "A=\"x\ny\nz\" # c\n", "A='x' B\n", "A=1\r\n", "A: 1\n", "\r\n", "\u0085\n", "A='x'\n\n", "A=$B\n"}
	for _, h1 := range heads {
		for _, h2 := range heads {
			for _, t := range tails {
				ctx.Count("line-exhaustive-two-lines-then-error")
				ctx.Add("dotenvLine", dotenvArgs{Src: h1 + h2 + t, Lookup: c18Lookups[0]})
			}
		}
	}
	for i := 0; i < ctx.Pick(6000, 150000); i++ {
		n := ctx.Rng.Intn(6)
		ls := make([]dline, n)
		for j := range ls {
			ls[j] = genLine(ctx)
		}
		s := renderLines(ls, true)
		switch ctx.Rng.Intn(4) {
		case 0:
			s = mutate(ctx, []rune(s))
			ctx.Count("line-mutated-grammar-text")
		case 1:
			var b strings.Builder
			for k := ctx.Rng.Intn(4); k >= 0; k-- {
				b.WriteString(heads[ctx.Rng.Intn(len(heads))])
			}
			s = b.String() + s + tails[ctx.Rng.Intn(len(tails))]
			ctx.Count("line-heads+grammar+error-tail")
		default:
			s += tails[ctx.Rng.Intn(len(tails))]
			ctx.Count("line-grammar+error-tail")
		}
		ctx.Add("dotenvLine", dotenvArgs{Src: s, Lookup: genLookup(ctx)})
	}
}
