package c18

// Round 6: (a) the canonical printer of Spec/DotenvPrint.lean on the real parser — `parse (printCanon m) = m` under any
// lookup (theorem `parse_printCanon`), printed in Go and cross-checked against the Lean printer on every case;
// (b) the glue around the parser that no other stream touches: the format registry (`RegisterFormat` /
// `ParseWithFormat`), `ReadFile`, `Read`, `UnmarshalBytesWithLookup` with a lookup.

import (
	"encoding/json"
	"fmt"
	"io"
	"os"
	"path/filepath"
	"reflect"
	"strings"

	"github.com/compose-spec/compose-go/v2/dotenv"

	"verifharness/core"
)

type canonArgs struct {
	Keys   []string          `json:"keys"`
	Vals   []string          `json:"vals"`
	Lookup map[string]string `json:"lookup"`
}

// printCanonGo mirrors Dotenv.printCanon: KEY="…" with `$` doubled, then `"` ↦ `\"`, `\` ↦ `\\`, one line feed after each
func printCanonGo(keys, vals []string) string {
	var b strings.Builder
	for i, k := range keys {
		b.WriteString(k)
		b.WriteString(`="`)
		for _, r := range vals[i] {
			switch r {
			case '$':
				b.WriteString("$$")
			case '"':
				b.WriteString(`\"`)
			case '\\':
				b.WriteString(`\\`)
			default:
				b.WriteRune(r)
			}
		}
		b.WriteString("\"\n")
	}
	return b.String()
}

type glueArgs struct {
	Src    string            `json:"src"`
	Lookup map[string]string `json:"lookup"`
}

const c18Format = "c18dotenv"

var c18FormatCalls int

func realGlue(a glueArgs) any {
	want := stripEntry(realDotenv(strings.TrimPrefix(a.Src, "\uFEFF"), a.Lookup))
	res := map[string]any{}
	diff := func(name string, m map[string]string, err error) {
		if got := dotenvOutcome(m, err); !reflect.DeepEqual(mustRoundTrip(got), mustRoundTrip(want)) {
			res["differs:"+name] = got
		}
	}
	// format registry: a registered parser receives the reader, the file name and the lookup unchanged
	before := c18FormatCalls
	m, err := dotenv.ParseWithFormat(strings.NewReader(a.Src), "some/path.env", lookupFn(a.Lookup), c18Format)
	diff("ParseWithFormat", m, err)
	if c18FormatCalls != before+1 {
		res["differs:ParseWithFormat-calls"] = c18FormatCalls - before
	}
	// an unregistered format is an error with a nil map, never a call of some other parser
	m, err = dotenv.ParseWithFormat(strings.NewReader(a.Src), "some/path.env", lookupFn(a.Lookup), "c18-unregistered")
	if err == nil || m != nil || !strings.Contains(err.Error(), "unsupported env_file format") {
		res["differs:unregistered-format"] = fmt.Sprint(m, err)
	}
	m, err = dotenv.UnmarshalBytesWithLookup([]byte(strings.TrimPrefix(a.Src, "\uFEFF")), lookupFn(a.Lookup))
	diff("UnmarshalBytesWithLookup", m, err)
	// ReadFile: one file through ParseWithLookup
	dir := os.Getenv("VERIF_SCRATCH")
	if dir == "" {
		dir = os.TempDir()
	}
	f := filepath.Join(dir, fmt.Sprintf("g-%d.env", os.Getpid()))
	if werr := os.WriteFile(f, []byte(a.Src), 0o600); werr != nil {
		return map[string]any{"bad": werr.Error()}
	}
	defer os.Remove(f)
	m, err = dotenv.ReadFile(f, lookupFn(a.Lookup))
	diff("ReadFile", m, err)
	res["out"] = want
	return res
}

func init() {
	dotenv.RegisterFormat(c18Format, func(r io.Reader, filename string, lookup func(string) (string, bool)) (map[string]string, error) {
		c18FormatCalls++
		if filename != "some/path.env" {
			return nil, fmt.Errorf("file name not passed on: %q", filename)
		}
		return dotenv.ParseWithLookup(r, lookup)
	})
	core.Register("dotenvCanon", &core.CheckDef{
		Real: func(raw json.RawMessage) any {
			var a canonArgs
			json.Unmarshal(raw, &a)
			t := printCanonGo(a.Keys, a.Vals)
			return map[string]any{"text": t, "out": stripEntry(realDotenv(t, a.Lookup))}
		},
		DriverOp: "dotenvCanon",
		Judge: func(args, real, drv json.RawMessage) *core.Verdict {
			if v := core.CrashVerdict(real); v != nil {
				return v
			}
			var a canonArgs
			json.Unmarshal(args, &a)
			var r struct {
				Text string          `json:"text"`
				Out  json.RawMessage `json:"out"`
			}
			var d struct {
				Text      string          `json:"text"`
				Printable bool            `json:"printable"`
				Parse     json.RawMessage `json:"parse"`
			}
			if json.Unmarshal(real, &r) != nil || json.Unmarshal(drv, &d) != nil || d.Parse == nil {
				return core.Disagree(fmt.Sprintf("dotenvCanon: unreadable outcome %s / %s", real, drv))
			}
			if r.Text != d.Text {
				return core.Disagree(fmt.Sprintf("Go copy of the canonical printer ≠ Dotenv.printCanon: %q vs %q", r.Text, d.Text))
			}
			if !d.Printable {
				return core.Skip("not printable")
			}
			want := map[string]string{}
			for i, k := range a.Keys {
				want[k] = a.Vals[i]
			}
			wj, _ := json.Marshal(map[string]any{"ok": want})
			if !core.CanonEqual(r.Out, wj) {
				return core.Fail("canonical-text-not-parsed-back", fmt.Sprintf("the canonical text %q of %s parses to %s", r.Text, wj, r.Out))
			}
			if !core.CanonEqual(d.Parse, wj) {
				return core.Disagree("Dotenv.parse (printCanon m) ≠ m in the driver (contradicts parse_printCanon)")
			}
			return nil
		},
	})
	core.Register("dotenvGlue", &core.CheckDef{
		Real: func(raw json.RawMessage) any {
			var a glueArgs
			json.Unmarshal(raw, &a)
			return realGlue(a)
		},
		DriverOp: "dotenvPWL",
		Judge: func(args, real, drv json.RawMessage) *core.Verdict {
			if v := core.CrashVerdict(real); v != nil {
				return v
			}
			var r map[string]json.RawMessage
			json.Unmarshal(real, &r)
			for k, v := range r {
				if strings.HasPrefix(k, "differs:") {
					return core.Fail("entrypoints-differ:"+strings.TrimPrefix(k, "differs:"), fmt.Sprintf("%s gives %s, UnmarshalWithLookup gives %s", strings.TrimPrefix(k, "differs:"), v, r["out"]))
				}
			}
			if !core.CanonEqual(r["out"], drv) {
				return core.Disagree("Dotenv.parseWithFormat (dotenv parser registered) ≠ dotenv.ParseWithFormat / ParseWithLookup")
			}
			return nil
		},
	})
}

var canonKeys = []string{"A", "B", "N", "_x", "a.b", "K-1", "k[0]", "EXPORT", "exporter", "é", "世", "9", "x²"}
var canonBadKeys = []string{"", "export", "A B", "A$", "A", "A"} // not printable: skipped by the judge after the printer cross-check

var canonTokens = []string{"$", "$$", "${", "}", "${A}", "$A", "${A:-x}", "${A:?e}", `"`, `'`, `\`, `\\`, `\n`, `\$`, `\0`, "101", "\n", "\r\n", "\r", " ", "  ", "\t",
	" #", "#", " # c", "=", ":", "export ", "a", "b", "Z", "0", "é", "世", "€", "\u00a0", "\u0085", "\v", "\f", "\uFEFF", "→", "\U0001F600"}

func genCanonVal(ctx *core.Ctx) string {
	n := ctx.Rng.Intn(6)
	var b strings.Builder
	for i := 0; i < n; i++ {
		b.WriteString(canonTokens[ctx.Rng.Intn(len(canonTokens))])
	}
	return b.String()
}

func c18Canon(ctx *core.Ctx) {
	// exhaustive: one definition, every value of ≤ 2 tokens, two lookups (one that defines A: nothing may be interpolated)
	for _, t1 := range append([]string{""}, canonTokens...) {
		for _, t2 := range append([]string{""}, canonTokens...) {
			if t1 == "" && t2 != "" {
				continue
			}
			ctx.Count("canon-exhaustive-value")
			ctx.Add("dotenvCanon", canonArgs{Keys: []string{"K"}, Vals: []string{t1 + t2}, Lookup: c18Lookups[(len(t1)+len(t2))%2]})
		}
	}
	for i := 0; i < ctx.Pick(6000, 200000); i++ {
		n := 1 + ctx.Rng.Intn(4)
		perm := ctx.Rng.Perm(len(canonKeys))
		var ks, vs []string
		for j := 0; j < n; j++ {
			ks = append(ks, canonKeys[perm[j]])
			vs = append(vs, genCanonVal(ctx))
		}
		if ctx.Rng.Intn(12) == 0 {
			ks[ctx.Rng.Intn(n)] = canonBadKeys[ctx.Rng.Intn(len(canonBadKeys))]
			ctx.Count("canon-not-printable-candidate")
		} else {
			ctx.Count(fmt.Sprintf("canon-random-%d-definitions", n))
		}
		multi := false
		for _, v := range vs {
			if strings.Contains(v, "\n") {
				multi = true
			}
		}
		if multi {
			ctx.Count("canon-multi-line-value")
		}
		ctx.Add("dotenvCanon", canonArgs{Keys: ks, Vals: vs, Lookup: genLookup(ctx)})
	}
}

func c18Glue(ctx *core.Ctx) {
	for i := 0; i < ctx.Pick(3000, 60000); i++ {
		n := ctx.Rng.Intn(4)
		ls := make([]dline, n)
		for j := range ls {
			ls[j] = genLine(ctx)
		}
		s := renderLines(ls, ctx.Rng.Intn(5) != 0)
		kind := "glue-grammar-text"
		if ctx.Rng.Intn(6) == 0 {
			s = mutate(ctx, []rune(s))
			kind = "glue-mutated-text"
		}
		if ctx.Rng.Intn(8) == 0 {
			s = "\uFEFF" + s
			kind += "+bom"
		}
		ctx.Count(kind)
		ctx.Add("dotenvGlue", glueArgs{Src: s, Lookup: genLookup(ctx)})
	}
}
