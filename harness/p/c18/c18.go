package c18

// C18 — the env-file parser implements the dotenv grammar and never crashes.
//
//	dotenv      correspondence: dotenv.UnmarshalWithLookup (and ParseWithLookup, which must agree)
//	            vs the Lean model Dotenv.parse
//	dotenvSpec  direct oracle:  the real parser on the rendering of a well-formed list of grammar
//	            lines vs the Lean *specification* (Spec/Dotenv.lean: render / evalLines); with a
//	            "bad tail" (invalid key, unterminated quote) the grammar demands an error
//	dotenvRaw   no-crash observation on arbitrary bytes (invalid UTF-8 included): real code only,
//	            through UnmarshalWithLookup, ParseWithLookup and GetEnvFromFile
//	envFiles    correspondence: dotenv.GetEnvFromFile on 1–3 files vs Dotenv.fromFiles

import (
	"bytes"
	"encoding/json"
	"errors"
	"fmt"
	"os"
	"path/filepath"
	"reflect"
	"regexp"
	"sort"
	"strings"
	"unicode/utf8"

	"github.com/compose-spec/compose-go/v2/dotenv"
	"github.com/compose-spec/compose-go/v2/template"

	"verifharness/core"
)

type dotenvArgs struct {
	Src    string            `json:"src"`
	Lookup map[string]string `json:"lookup"`
}

var (
	reUnexpected   = regexp.MustCompile(`^line \d+: unexpected character `)
	reKeySpace     = regexp.MustCompile(`^line \d+: key cannot contain a space$`)
	reUnterminated = regexp.MustCompile(`^line \d+: unterminated quoted value `)
)

func dotenvErrClass(err error) string {
	var inv *template.InvalidTemplateError
	var req *template.MissingRequiredError
	switch {
	case errors.As(err, &inv):
		return "tmplInvalid"
	case errors.As(err, &req):
		return "tmplRequired"
	}
	t := err.Error()
	switch {
	case reUnexpected.MatchString(t):
		return "unexpectedChar"
	case reKeySpace.MatchString(t):
		return "keySpace"
	case reUnterminated.MatchString(t):
		return "unterminated"
	case t == "zero length string":
		return "zeroLength"
	}
	return "other:" + t
}

func lookupFn(m map[string]string) dotenv.LookupFn {
	return func(k string) (string, bool) { v, ok := m[k]; return v, ok }
}

func dotenvOutcome(m map[string]string, err error) map[string]any {
	if m == nil {
		m = map[string]string{}
	}
	if err != nil {
		return map[string]any{"err": dotenvErrClass(err), "map": m}
	}
	return map[string]any{"ok": m}
}

// realDotenv runs the two string/reader entry points; they must agree (ParseWithLookup only strips a BOM).
func stripEntry(out map[string]any) map[string]any {
	o := map[string]any{}
	for k, v := range out {
		if k != "entryDiffers" {
			o[k] = v
		}
	}
	return o
}

func realDotenv(src string, lookup map[string]string) map[string]any {
	m, err := dotenv.UnmarshalWithLookup(src, lookupFn(lookup))
	out := dotenvOutcome(m, err)
	if !strings.HasPrefix(src, "\uFEFF") {
		m2, err2 := dotenv.ParseWithLookup(strings.NewReader(src), lookupFn(lookup))
		if out2 := dotenvOutcome(m2, err2); !reflect.DeepEqual(out, out2) {
			out["entryDiffers"] = out2
		}
	}
	if len(lookup) == 0 {
		// round 5: the glue around the core — a nil LookupFn (replaced by noLookupFn inside parser.parse) through
		// UnmarshalWithLookup, UnmarshalBytesWithLookup and dotenv.Parse must be the empty lookup of the model
		m3, err3 := dotenv.UnmarshalWithLookup(src, nil)
		if out3 := dotenvOutcome(m3, err3); !reflect.DeepEqual(stripEntry(out), out3) {
			out["entryDiffers"] = map[string]any{"nilLookup": out3}
		}
		m4, err4 := dotenv.UnmarshalBytesWithLookup([]byte(src), nil)
		if out4 := dotenvOutcome(m4, err4); !reflect.DeepEqual(stripEntry(out), out4) {
			out["entryDiffers"] = map[string]any{"bytesNilLookup": out4}
		}
		if !strings.HasPrefix(src, "\uFEFF") {
			m5, err5 := dotenv.Parse(strings.NewReader(src))
			if out5 := dotenvOutcome(m5, err5); !reflect.DeepEqual(stripEntry(out), out5) {
				out["entryDiffers"] = map[string]any{"Parse": out5}
			}
		}
	}
	return out
}

// ---------------------------------------------------------------- grammar AST (mirrors Spec/Dotenv.lean)

type qitem struct {
	C *string `json:"c,omitempty"`
	E *string `json:"e,omitempty"`
	Q *bool   `json:"q,omitempty"`
}

type dvalue struct {
	T     string  `json:"t"` // unq | sq | dq
	S     string  `json:"s,omitempty"`
	Items []qitem `json:"items,omitempty"`
}

type dline struct {
	K      string  `json:"k"` // blank | comment | bare | assign
	Ws     string  `json:"ws,omitempty"`
	Text   string  `json:"text,omitempty"`
	Indent string  `json:"indent,omitempty"`
	HasExp bool    `json:"hasExp,omitempty"`
	Exp    string  `json:"exp,omitempty"`
	Key    string  `json:"key,omitempty"`
	Trail  string  `json:"trail,omitempty"`
	Ws1    string  `json:"ws1,omitempty"`
	Sep    string  `json:"sep,omitempty"`
	Ws2    string  `json:"ws2,omitempty"`
	V      *dvalue `json:"v,omitempty"`
	HasCmt bool    `json:"hasCmt,omitempty"`
	Cmt    string  `json:"cmt,omitempty"`
}

func renderItems(q string, items []qitem) string {
	var b strings.Builder
	for _, it := range items {
		switch {
		case it.C != nil:
			b.WriteString(*it.C)
		case it.E != nil:
			b.WriteString("\\" + *it.E)
		case it.Q != nil:
			b.WriteString("\\" + q)
		}
	}
	return b.String()
}

func (v *dvalue) render() string {
	switch v.T {
	case "sq":
		return "'" + renderItems("'", v.Items) + "'"
	case "dq":
		return `"` + renderItems(`"`, v.Items) + `"`
	}
	return v.S
}

func (l dline) render() string {
	exp := ""
	if l.HasExp {
		exp = "export" + l.Exp
	}
	switch l.K {
	case "blank":
		return l.Ws
	case "comment":
		return l.Ws + "#" + l.Text
	case "bare":
		return l.Indent + exp + l.Key + l.Trail
	}
	sep := "="
	if l.Sep == ":" {
		sep = ":"
	}
	cmt := ""
	if l.HasCmt {
		cmt = "#" + l.Cmt
	}
	return l.Indent + exp + l.Key + l.Ws1 + sep + l.Ws2 + l.V.render() + l.Trail + cmt
}

func renderLines(ls []dline, finalNL bool) string {
	var b strings.Builder
	for i, l := range ls {
		b.WriteString(l.render())
		if finalNL || i < len(ls)-1 {
			b.WriteByte('\n')
		}
	}
	return b.String()
}

type badTail struct {
	Kind    string   `json:"kind"`    // what is wrong with the tail (part of the failure key)
	Text    string   `json:"text"`    // appended after the rendered lines
	Classes []string `json:"classes"` // error classes the grammar accepts here
}

type dspecArgs struct {
	Lines  []dline           `json:"lines"`
	Lookup map[string]string `json:"lookup"`
	NoNL   bool              `json:"noNL,omitempty"` // render without the final line feed
	Bad    *badTail          `json:"bad,omitempty"`
}

func (a dspecArgs) src() string {
	s := renderLines(a.Lines, !a.NoNL)
	if a.Bad != nil {
		s += a.Bad.Text
	}
	return s
}

func dspecShape(a dspecArgs) string {
	seen := map[string]bool{}
	for _, l := range a.Lines {
		k := l.K
		if l.K == "assign" {
			k = l.V.T
			if l.HasCmt {
				k += "+cmt"
			}
		}
		if l.HasExp {
			k = "export-" + k
		}
		seen[k] = true
	}
	var ks []string
	for k := range seen {
		ks = append(ks, k)
	}
	sort.Strings(ks)
	return strings.Join(ks, ",")
}

// ---------------------------------------------------------------- raw bytes (no-crash)

type rawArgs struct {
	B      []byte            `json:"b"` // base64 on the wire: arbitrary bytes
	Lookup map[string]string `json:"lookup,omitempty"`
	File   bool              `json:"file,omitempty"` // also through GetEnvFromFile
}

func realRaw(a rawArgs) any {
	m1, e1 := dotenv.UnmarshalWithLookup(string(a.B), lookupFn(a.Lookup))
	m2, e2 := dotenv.ParseWithLookup(bytes.NewReader(a.B), lookupFn(a.Lookup))
	res := map[string]any{"class": "ok"}
	if e1 != nil {
		res["class"] = "err"
	}
	if m1 == nil || m2 == nil && e2 == nil {
		res["nilMap"] = true
	}
	if !bytes.HasPrefix(a.B, []byte("\uFEFF")) && ((e1 == nil) != (e2 == nil) || (e1 == nil && !reflect.DeepEqual(m1, m2))) {
		res["entryDiffers"] = true
	}
	if a.File {
		dir := os.Getenv("VERIF_SCRATCH")
		if dir == "" {
			dir = os.TempDir()
		}
		f := filepath.Join(dir, fmt.Sprintf("raw-%d.env", os.Getpid()))
		if os.WriteFile(f, a.B, 0o600) == nil {
			m3, e3 := dotenv.GetEnvFromFile(a.Lookup, []string{f})
			os.Remove(f)
			if (e3 == nil) != (e2 == nil) || (e3 == nil && !reflect.DeepEqual(m3, m2)) {
				res["fileDiffers"] = true
			}
		}
	}
	return res
}

// ---------------------------------------------------------------- GetEnvFromFile on several files

type filesArgs struct {
	Files  []string          `json:"files"` // contents, in order
	Lookup map[string]string `json:"lookup"`
}

func realFiles(a filesArgs) any {
	dir := os.Getenv("VERIF_SCRATCH")
	if dir == "" {
		dir = os.TempDir()
	}
	var names []string
	for i, c := range a.Files {
		f := filepath.Join(dir, fmt.Sprintf("f-%d-%d.env", os.Getpid(), i))
		if err := os.WriteFile(f, []byte(c), 0o600); err != nil {
			return map[string]any{"bad": err.Error()}
		}
		defer os.Remove(f)
		names = append(names, f)
	}
	m, err := dotenv.GetEnvFromFile(a.Lookup, names)
	res := envFilesOutcome(m, err)
	// metamorphic reference: the same files folded through the string entry point, the caller's
	// environment first, the variables of earlier files second
	acc := map[string]string{}
	var want map[string]any
	for _, c := range a.Files {
		fm, ferr := dotenv.UnmarshalWithLookup(strings.TrimPrefix(c, "\uFEFF"), func(k string) (string, bool) {
			if v, ok := a.Lookup[k]; ok {
				return v, true
			}
			v, ok := acc[k]
			return v, ok
		})
		if ferr != nil {
			want = map[string]any{"err": dotenvErrClass(ferr), "map": copyMap(acc)}
			break
		}
		for k, v := range fm {
			acc[k] = v
		}
	}
	if want == nil {
		want = map[string]any{"ok": acc}
	}
	if !reflect.DeepEqual(mustRoundTrip(res), mustRoundTrip(want)) {
		res["foldDiffers"] = want
	}
	return res
}

func copyMap(m map[string]string) map[string]string {
	c := map[string]string{}
	for k, v := range m {
		c[k] = v
	}
	return c
}

func mustRoundTrip(v any) any {
	b, _ := json.Marshal(v)
	var x any
	json.Unmarshal(b, &x)
	return x
}

func envFilesOutcome(m map[string]string, err error) map[string]any {
	if err != nil {
		// the wrapped parser error keeps its class; the map returned with an error is the one accumulated so far
		var inner error = err
		for errors.Unwrap(inner) != nil {
			inner = errors.Unwrap(inner)
		}
		cls := dotenvErrClass(err)
		if strings.HasPrefix(cls, "other:") {
			cls = dotenvErrClass(inner)
		}
		if m == nil {
			m = map[string]string{}
		}
		return map[string]any{"err": cls, "map": m}
	}
	return map[string]any{"ok": m}
}

// realRead: dotenv.ReadWithLookup on the same files (lookup function only; keys starting with a digit dropped)
func realRead(a filesArgs) any {
	dir := os.Getenv("VERIF_SCRATCH")
	if dir == "" {
		dir = os.TempDir()
	}
	var names []string
	for i, c := range a.Files {
		f := filepath.Join(dir, fmt.Sprintf("r-%d-%d.env", os.Getpid(), i))
		if err := os.WriteFile(f, []byte(c), 0o600); err != nil {
			return map[string]any{"bad": err.Error()}
		}
		defer os.Remove(f)
		names = append(names, f)
	}
	m, err := dotenv.ReadWithLookup(lookupFn(a.Lookup), names...)
	return envFilesOutcome(m, err)
}

// ---------------------------------------------------------------- registration

func init() {
	core.Register("dotenv", &core.CheckDef{
		Real: func(raw json.RawMessage) any {
			var a dotenvArgs
			json.Unmarshal(raw, &a)
			return realDotenv(a.Src, a.Lookup)
		},
		DriverOp: "dotenvT", // round 5: the traced model (outcome + branch mask); `parseT_is_parse` says the outcome is `Dotenv.parse`
		Judge: func(args, real, drvT json.RawMessage) *core.Verdict {
			if v := core.CrashVerdict(real); v != nil {
				return v
			}
			var r map[string]json.RawMessage
			json.Unmarshal(real, &r)
			if _, bad := r["entryDiffers"]; bad {
				return core.Fail("entrypoints-differ", fmt.Sprintf("UnmarshalWithLookup and ParseWithLookup disagree: %s", real))
			}
			var t tracedOut
			if err := json.Unmarshal(drvT, &t); err != nil || t.Out == nil {
				return core.Disagree(fmt.Sprintf("no traced outcome from the driver: %s", drvT))
			}
			if !core.CanonEqual(real, t.Out) {
				return core.Disagree("Dotenv.parse ≠ dotenv.UnmarshalWithLookup")
			}
			c18RecordBranches(t.Br)
			return nil
		},
	})
	core.Register("dotenvSpec", &core.CheckDef{
		Real: func(raw json.RawMessage) any {
			var a dspecArgs
			json.Unmarshal(raw, &a)
			s := a.src()
			return map[string]any{"rendered": s, "out": realDotenv(s, a.Lookup)}
		},
		DriverOp: "dotenvSpec",
		Judge:    judgeSpec,
	})
	core.Register("dotenvRaw", &core.CheckDef{
		Real: func(raw json.RawMessage) any {
			var a rawArgs
			json.Unmarshal(raw, &a)
			return realRaw(a)
		},
		Judge: func(args, real, drv json.RawMessage) *core.Verdict {
			if v := core.CrashVerdict(real); v != nil {
				return v
			}
			var r map[string]any
			json.Unmarshal(real, &r)
			if r["nilMap"] != nil {
				return core.Fail("nil-map", "a parse entry point returned neither a map nor an error")
			}
			if r["entryDiffers"] != nil {
				return core.Fail("entrypoints-differ", "UnmarshalWithLookup and ParseWithLookup disagree on raw bytes")
			}
			if r["fileDiffers"] != nil {
				return core.Fail("entrypoints-differ:file", "GetEnvFromFile and ParseWithLookup disagree on raw bytes")
			}
			return nil
		},
	})
	core.Register("envFiles", &core.CheckDef{
		Real: func(raw json.RawMessage) any {
			var a filesArgs
			json.Unmarshal(raw, &a)
			return realFiles(a)
		},
		DriverOp: "envFiles",
		Judge: func(args, real, drv json.RawMessage) *core.Verdict {
			if v := core.CrashVerdict(real); v != nil {
				return v
			}
			var r map[string]json.RawMessage
			json.Unmarshal(real, &r)
			if w, bad := r["foldDiffers"]; bad {
				return core.Fail("env-files:not-a-fold-of-parse", fmt.Sprintf("GetEnvFromFile = %s but folding UnmarshalWithLookup over the files (caller environment first, earlier files second) gives %s", real, w))
			}
			if !core.CanonEqual(real, drv) {
				return core.Disagree("Dotenv.fromFiles ≠ dotenv.GetEnvFromFile")
			}
			return nil
		},
	})
	core.Register("readFiles", &core.CheckDef{
		Real: func(raw json.RawMessage) any {
			var a filesArgs
			json.Unmarshal(raw, &a)
			return realRead(a)
		},
		DriverOp: "readFiles",
		Judge: func(args, real, drv json.RawMessage) *core.Verdict {
			if v := core.CrashVerdict(real); v != nil {
				return v
			}
			if !core.CanonEqual(real, drv) {
				return core.Disagree("Dotenv.readFiles ≠ dotenv.ReadWithLookup")
			}
			return nil
		},
	})
	core.RegisterProp("C18", runC18)
}

func judgeSpec(args, real, drv json.RawMessage) *core.Verdict {
	if v := core.CrashVerdict(real); v != nil {
		return v
	}
	var a dspecArgs
	json.Unmarshal(args, &a)
	var r struct {
		Rendered string          `json:"rendered"`
		Out      json.RawMessage `json:"out"`
	}
	var d struct {
		WF           bool            `json:"wf"`
		Rendered     string          `json:"rendered"`
		RenderedNoNL string          `json:"renderedNoNL"`
		Eval         json.RawMessage `json:"eval"`
	}
	if json.Unmarshal(real, &r) != nil || json.Unmarshal(drv, &d) != nil || d.Eval == nil {
		return core.Disagree("malformed spec-oracle exchange")
	}
	want := d.Rendered
	if a.NoNL {
		want = d.RenderedNoNL
	}
	if a.Bad != nil {
		want += a.Bad.Text
	}
	if r.Rendered != want {
		return core.Disagree("Go render ≠ Lean render")
	}
	if !d.WF {
		return core.Skip("not well-formed")
	}
	if v := core.CrashVerdict(r.Out); v != nil {
		return v
	}
	var ro map[string]json.RawMessage
	json.Unmarshal(r.Out, &ro)
	if _, bad := ro["entryDiffers"]; bad {
		return core.Fail("entrypoints-differ", fmt.Sprintf("UnmarshalWithLookup and ParseWithLookup disagree on %q", r.Rendered))
	}
	evalClass := core.Class(d.Eval)
	if a.Bad == nil || evalClass != "ok" {
		// the grammar fixes the whole outcome (an error of the prefix lines wins over the bad tail)
		if !core.CanonEqual(r.Out, d.Eval) {
			key := "grammar:" + dspecShape(a)
			if a.NoNL && len(a.Lines) > 0 && a.Lines[len(a.Lines)-1].K == "bare" {
				key = "bare-key-at-eof-not-inherited"
			}
			return core.Fail(key, fmt.Sprintf("parse(%q) = %s but the grammar says %s", r.Rendered, r.Out, d.Eval))
		}
		return nil
	}
	// bad tail after well-formed lines: the grammar demands an error
	if core.Class(r.Out) != "err" {
		return core.Fail(a.Bad.Kind+"-accepted", fmt.Sprintf("parse(%q) = %s but the tail %q must be rejected (%s)", r.Rendered, r.Out, a.Bad.Text, a.Bad.Kind))
	}
	var e struct {
		Err string          `json:"err"`
		Map json.RawMessage `json:"map"`
	}
	json.Unmarshal(r.Out, &e)
	ok := false
	for _, c := range a.Bad.Classes {
		ok = ok || c == e.Err
	}
	if !ok {
		return core.Fail(a.Bad.Kind+"-wrong-error", fmt.Sprintf("parse(%q) fails with %s, expected one of %v", r.Rendered, e.Err, a.Bad.Classes))
	}
	return nil
}

// ---------------------------------------------------------------- generators

var c18Lookups = []map[string]string{
	{},
	{"A": "v"},
	{"A": "", "B": "$A"},
}

func sp(s string) *string { return &s }

func runC18(ctx *core.Ctx) {
	c18Exhaustive(ctx)
	c18Grammar(ctx)
	c18Random(ctx)
	c18Raw(ctx)
	c18Files(ctx)
	c18Octal(ctx)
	c18Rename(ctx)
	c18Canon(ctx)
	c18Glue(ctx)
	c18Line(ctx)
	c18Coverage(ctx)
}

// round 5 (found by the branch histogram: no quick-tier correspondence input ever reached the accepted octal escape —
// `\0` + three digits needs five tokens, the exhaustive bodies stop at four): every `\0` + ≤ 4 digits over
// {0,1,3,7,8,9} between double quotes (accepted: three octal digits ≤ 255; kept: fewer digits, 8/9, > 255; a fourth
// digit is ordinary text), and the three-digit forms between single quotes and unquoted (no escape processing there)
func c18Octal(ctx *core.Ctx) {
	digs := []string{"0", "1", "3", "7", "8", "9"}
	var rec func(ds string, n int)
	rec = func(ds string, n int) {
		ctx.Count("model-octal-escape")
		ctx.Add("dotenv", dotenvArgs{Src: "B=\"\\0" + ds + "\"\n", Lookup: c18Lookups[0]})
		if len(ds) == 3 {
			ctx.Add("dotenv", dotenvArgs{Src: "B='\\0" + ds + "'\n", Lookup: c18Lookups[0]})
			ctx.Add("dotenv", dotenvArgs{Src: "A=x\nB=\\0" + ds + " # $A\n", Lookup: c18Lookups[0]})
			ctx.Add("dotenv", dotenvArgs{Src: "A=x\nB=\"$A\\0" + ds + "${A}\\\\\"", Lookup: c18Lookups[1]})
		}
		if n == 0 {
			return
		}
		for _, d := range digs {
			rec(ds+d, n-1)
		}
	}
	rec("", 4)
}

// 1. exhaustive small scope: every token string up to a length over two alphabets
func c18Exhaustive(ctx *core.Ctx) {
	structural := []string{"A", "=", ":", " ", "\n", "#", "\"", "'", "\\", "$", "export ", "\t", "B=", "\r"}
	var rec func(alpha []string, wrap func(string) string, tag, prefix string, n int)
	rec = func(alpha []string, wrap func(string) string, tag, prefix string, n int) {
		src := wrap(prefix)
		ctx.Add("dotenv", dotenvArgs{Src: src, Lookup: c18Lookups[0]})
		if strings.ContainsAny(src, "A$") {
			ctx.Add("dotenv", dotenvArgs{Src: src, Lookup: c18Lookups[1]})
		}
		if strings.Contains(src, "$") {
			// a variable the lookup reports as set to the empty string is set (it must not fall through to earlier lines)
			ctx.Add("dotenv", dotenvArgs{Src: src, Lookup: c18Lookups[2]})
		}
		ctx.Count(tag)
		if n == 0 {
			return
		}
		for _, a := range alpha {
			rec(alpha, wrap, tag, prefix+a, n-1)
		}
	}
	id := func(s string) string { return s }
	rec(structural, id, "exhaustive-structural", "", ctx.Pick(4, 5))
	// escape-heavy bodies inside the two quoting styles and after an unquoted separator
	esc := []string{"\\", "\"", "'", "$", "0", "1", "7", "8", "n", "A", "{", "}", "\n", " #"}
	L := ctx.Pick(4, 5)
	rec(esc, func(s string) string { return "A=x\nB=\"" + s + "\"\n" }, "exhaustive-dq-body", "", L)
	rec(esc, func(s string) string { return "A=x\nB='" + s + "'\n" }, "exhaustive-sq-body", "", L)
	rec(esc, func(s string) string { return "A=x\nB=" + s }, "exhaustive-unq-body", "", ctx.Pick(3, 4))
	ctx.Res.Exhaustive = true
}

// grammar pieces
var (
	c18Keys    = []string{"A", "B", "K_1", "a.b-c", "x[0]", "exportX", "ex", "9z", "_", "é²", "世"}
	c18NB      = []string{"", "", "", " ", "\t", "  ", " \t", "\r", "\u00a0", "\u0085", "\x0b", "\x0c"}
	c18ExpWs   = []string{" ", "\t", "  ", " \t", "\r", "\x0c", " \u00a0"}
	c18UnqToks = []string{"a", "b", "1", "$A", "${B}", "${A:-d}", "${Z-$A}", "$$", "#", "=", ":", "\\", "\\n", "\"", "'", "é", "-", "/", "${A:?m}", "$", "{", "}", "€", "→", "😀", "e\u0301", "、"}
	c18Chars   = []string{"a", "b", "A", "1", "0", "7", "8", "$", "{", "}", "#", " ", "=", ":", "\n", "\t", "-", "\r", "é", "\u00a0", "€", "😀", "\u0301", "\ue000"}
	c18Escs    = []string{"n", "t", "r", "a", "b", "f", "v", "\\", "$", "0", "1", "x", "u", " ", "\n", "{", "A"}
)

func pick(ctx *core.Ctx, l []string) string { return l[ctx.Rng.Intn(len(l))] }

func genItems(ctx *core.Ctx, q string, n int) []qitem {
	other := "'"
	if q == "'" {
		other = "\""
	}
	tru := true
	var items []qitem
	for i := 0; i < n; i++ {
		switch k := ctx.Rng.Intn(10); {
		case k < 5:
			items = append(items, qitem{C: sp(pick(ctx, c18Chars))})
		case k == 5:
			items = append(items, qitem{C: sp(other)})
		case k == 6:
			items = append(items, qitem{Q: &tru})
		case k == 7:
			items = append(items, qitem{E: sp(other)})
		default:
			items = append(items, qitem{E: sp(pick(ctx, c18Escs))})
		}
	}
	return items
}

func genUnq(ctx *core.Ctx) string {
	n := ctx.Rng.Intn(5)
	var b strings.Builder
	for i := 0; i < n; i++ {
		if i > 0 && ctx.Rng.Intn(6) == 0 {
			b.WriteString(" ")
		}
		b.WriteString(pick(ctx, c18UnqToks))
	}
	return b.String()
}

func genLine(ctx *core.Ctx) dline {
	switch k := ctx.Rng.Intn(12); {
	case k == 0:
		return dline{K: "blank", Ws: pick(ctx, c18NB)}
	case k == 1:
		return dline{K: "comment", Ws: pick(ctx, c18NB), Text: pick(ctx, []string{"", " c", "A=1", " \"", "'", "#", " $A ${"})}
	case k <= 3:
		l := dline{K: "bare", Indent: pick(ctx, c18NB), Key: pick(ctx, c18Keys), Trail: pick(ctx, c18NB)}
		if ctx.Rng.Intn(4) == 0 {
			l.HasExp, l.Exp = true, pick(ctx, c18ExpWs)
		}
		return l
	}
	l := dline{K: "assign", Indent: pick(ctx, c18NB), Key: pick(ctx, c18Keys), Ws1: pick(ctx, c18NB), Sep: pick(ctx, []string{"=", "=", ":"}),
		Ws2: pick(ctx, c18NB), Trail: pick(ctx, c18NB)}
	if ctx.Rng.Intn(5) == 0 {
		l.HasExp, l.Exp = true, pick(ctx, c18ExpWs)
	}
	switch ctx.Rng.Intn(3) {
	case 0:
		l.V = &dvalue{T: "unq", S: genUnq(ctx)}
	case 1:
		l.V = &dvalue{T: "sq", Items: genItems(ctx, "'", ctx.Rng.Intn(6))}
	default:
		l.V = &dvalue{T: "dq", Items: genItems(ctx, "\"", ctx.Rng.Intn(7))}
	}
	if ctx.Rng.Intn(4) == 0 {
		l.HasCmt, l.Cmt = true, pick(ctx, []string{"", " c", " B=2", "\"", "' x", " #"})
		if l.V.T == "unq" {
			l.Trail = pick(ctx, []string{" ", "  ", "\t ", " "})
		}
	}
	return l
}

func genLookup(ctx *core.Ctx) map[string]string {
	m := map[string]string{}
	for _, k := range []string{"A", "B", "K_1", "a.b-c", "Z"} {
		switch ctx.Rng.Intn(5) {
		case 0:
			m[k] = ""
		case 1:
			m[k] = "L" + k
		case 2:
			m[k] = "${" + k + ":-$$}"
		}
	}
	return m
}

func genBadTail(ctx *core.Ctx) *badTail {
	val := pick(ctx, []string{"v", "", "\"x\"", "'y'", "$A"})
	rest := pick(ctx, []string{"", "\n", "\nB=2\n"})
	switch ctx.Rng.Intn(7) {
	case 0: // a character outside the key alphabet
		bad := pick(ctx, []string{"$", "@", "!", "\"", "'", "/", "\\", "{", "}", "(", "%", ",", ";", "*", "&", "+", "~", "?", "€", "→", "😀", "\u0301", "、", "\ue000"})
		k := pick(ctx, c18Keys)
		i := ctx.Rng.Intn(len(k) + 1)
		return &badTail{Kind: "invalid-key:bad-char", Text: k[:i] + bad + k[i:] + "=" + val + rest, Classes: []string{"unexpectedChar", "keySpace"}}
	case 1: // a space inside the key
		return &badTail{Kind: "invalid-key:inner-space", Text: pick(ctx, c18Keys) + " " + pick(ctx, c18Keys) + pick(ctx, []string{"=", ":", " = "}) + val + rest, Classes: []string{"keySpace", "unexpectedChar"}}
	case 2: // other white space inside the key
		return &badTail{Kind: "invalid-key:inner-whitespace", Text: pick(ctx, c18Keys) + pick(ctx, []string{"\t", "\u00a0", "\r", "\x0c"}) + pick(ctx, c18Keys) + "=" + val + rest, Classes: []string{"keySpace", "unexpectedChar"}}
	case 3: // no key at all
		return &badTail{Kind: "invalid-key:empty", Text: pick(ctx, []string{"", " ", "export "}) + pick(ctx, []string{"=", ":", " ="}) + val + rest, Classes: []string{"unexpectedChar", "keySpace", "zeroLength"}}
	case 4: // bad character in a bare key
		return &badTail{Kind: "invalid-key:bad-char", Text: pick(ctx, c18Keys) + pick(ctx, []string{"$", "@", "\"", "'", "!", "/"}) + "\n" + rest, Classes: []string{"unexpectedChar"}}
	default: // unterminated quote
		q := pick(ctx, []string{"\"", "'"})
		body := ""
		for i, n := 0, ctx.Rng.Intn(6); i < n; i++ {
			body += pick(ctx, []string{"a", " ", "\\" + q, "\\\\", "\n", "#", "$A", "B=1", "\\n", "="})
		}
		if ctx.Rng.Intn(4) == 0 {
			body += "\\" + q // an escaped quote does not terminate
		}
		other := "'"
		if q == "'" {
			other = "\""
		}
		if ctx.Rng.Intn(4) == 0 {
			body += other
		}
		return &badTail{Kind: "unterminated-quote", Text: pick(ctx, c18Keys) + pick(ctx, []string{"=", ": ", " = "}) + q + body, Classes: []string{"unterminated"}}
	}
}

// 2. grammar-directed: the spec oracle, plus the same text through the model correspondence
func c18Grammar(ctx *core.Ctx) {
	tru := true
	// 2a. exhaustive single assignment lines: key shape × separator × quoting × small value alphabet
	seps := []struct{ ws1, sep, ws2 string }{{"", "=", ""}, {" ", "=", " "}, {"", ":", " "}, {"\t", ":", ""}}
	vals := []*dvalue{}
	for _, s := range []string{"", "a", "$A", "a b", "a#b", "${A:-d}", "\\n", "a\"b", "$$", "a'"} {
		vals = append(vals, &dvalue{T: "unq", S: s})
	}
	atoms := []qitem{{C: sp("a")}, {C: sp("$")}, {C: sp("A")}, {C: sp(" ")}, {C: sp("#")}, {C: sp("\n")}, {Q: &tru}, {E: sp("n")}, {E: sp("$")}, {E: sp("\\")}, {E: sp("0")}, {C: sp("1")}, {E: sp("x")}}
	for _, t := range []string{"sq", "dq"} {
		other := "\""
		if t == "dq" {
			other = "'"
		}
		as := append(append([]qitem{}, atoms...), qitem{C: sp(other)})
		vals = append(vals, &dvalue{T: t})
		for _, x := range as {
			vals = append(vals, &dvalue{T: t, Items: []qitem{x}})
			for _, y := range as {
				vals = append(vals, &dvalue{T: t, Items: []qitem{x, y}})
				if ctx.Thorough() {
					for _, z := range as {
						vals = append(vals, &dvalue{T: t, Items: []qitem{x, y, z}})
					}
				}
			}
		}
	}
	first := dline{K: "assign", Key: "A", Sep: "=", V: &dvalue{T: "unq", S: "one"}}
	for _, key := range []string{"A", "B", "exportX", "a.b-c"} {
		for _, sp3 := range seps {
			for _, v := range vals {
				for _, exp := range []bool{false, true} {
					for _, tail := range []struct {
						trail  string
						hasCmt bool
					}{{"", false}, {" ", false}, {" ", true}, {"\r", false}} {
						l := dline{K: "assign", Key: key, Ws1: sp3.ws1, Sep: sp3.sep, Ws2: sp3.ws2, V: v, Trail: tail.trail, HasCmt: tail.hasCmt, Cmt: " c"}
						if exp {
							l.HasExp, l.Exp = true, " "
						}
						for _, noNL := range []bool{false, true} {
							ctx.Count("spec-exhaustive-line")
							ctx.Add("dotenvSpec", dspecArgs{Lines: []dline{first, l}, Lookup: c18Lookups[ctx.Rng.Intn(2)], NoNL: noNL})
						}
					}
				}
			}
		}
	}
	// 2a'. precedence of the interpolation environment, exhaustively: every reference form × quoting ×
	// state of the name in the lookup (unset / set-but-empty / set) × an earlier line defining it or not
	refs := []string{"$N", "${N}", "${N-d}", "${N:-d}", "${N+a}", "${N:+a}", "${N?e}", "${N:?e}", "x$N.y", "${M:-$N}"}
	lookups := []map[string]string{{}, {"N": ""}, {"N": "L"}, {"N": "", "M": ""}}
	for _, ref := range refs {
		for _, quoted := range []bool{false, true} {
			for _, lk := range lookups {
				for _, earlier := range []int{0, 1, 2} {
					var ls []dline
					if earlier >= 1 {
						ls = append(ls, dline{K: "assign", Key: "N", Sep: "=", V: &dvalue{T: "unq", S: "early"}})
					}
					if earlier == 2 {
						ls = append(ls, dline{K: "assign", Key: "N", Sep: "=", V: &dvalue{T: "sq"}}) // later assignment: N=''
					}
					v := &dvalue{T: "unq", S: ref}
					if quoted {
						v = &dvalue{T: "dq"}
						for _, r := range ref {
							v.Items = append(v.Items, qitem{C: sp(string(r))})
						}
					}
					ls = append(ls, dline{K: "assign", Key: "K", Sep: "=", V: v}, dline{K: "bare", Key: "N"})
					ctx.Count("spec-precedence")
					ctx.Add("dotenvSpec", dspecArgs{Lines: ls, Lookup: lk})
				}
			}
		}
	}
	// 2b. random files of up to 6 lines
	for i := 0; i < ctx.Pick(60000, 1500000); i++ {
		n := 1 + ctx.Rng.Intn(6)
		ls := make([]dline, n)
		for j := range ls {
			ls[j] = genLine(ctx)
		}
		a := dspecArgs{Lines: ls, Lookup: genLookup(ctx), NoNL: ctx.Rng.Intn(4) == 0}
		switch {
		case ctx.Rng.Intn(5) == 0:
			a.NoNL = false
			a.Bad = genBadTail(ctx)
			ctx.Count("spec-random-bad-tail:" + a.Bad.Kind)
		case a.NoNL:
			ctx.Count("spec-random-file-no-final-newline")
		default:
			ctx.Count("spec-random-file")
		}
		ctx.Add("dotenvSpec", a)
		// the same text (and a one-character mutation of it) through the model correspondence
		src := a.src()
		ctx.Add("dotenv", dotenvArgs{Src: src, Lookup: a.Lookup})
		ctx.Count("model-grammar-text")
		if r := []rune(src); len(r) > 0 {
			ctx.Add("dotenv", dotenvArgs{Src: mutate(ctx, r), Lookup: a.Lookup})
			ctx.Count("model-mutated-grammar-text")
		}
	}
}

var c18Mut = []rune{'"', '\'', '\\', '\n', '=', ':', '#', '$', ' ', '{', '}', 'A', '0', '\r', '\u00a0', '\u0085', '\t', '€', '😀', '\u0301'}

func mutate(ctx *core.Ctx, r []rune) string {
	r = append([]rune(nil), r...)
	for k := 1 + ctx.Rng.Intn(2); k > 0 && len(r) > 0; k-- {
		i := ctx.Rng.Intn(len(r))
		switch ctx.Rng.Intn(4) {
		case 0: // delete
			r = append(r[:i], r[i+1:]...)
		case 1: // insert
			r = append(r[:i], append([]rune{c18Mut[ctx.Rng.Intn(len(c18Mut))]}, r[i:]...)...)
		case 2: // replace
			r[i] = c18Mut[ctx.Rng.Intn(len(c18Mut))]
		default: // truncate
			r = r[:i]
		}
	}
	return string(r)
}

// 3. random token strings over a wide alphabet (malformed stream)
func c18Random(ctx *core.Ctx) {
	wide := []string{"€", "→", "😀", "\u0301", "、", "A", "B", "=", "=", ":", " ", " ", "\n", "\n", "#", " #", "\"", "\"", "'", "'", "\\", "\\", "$", "$A", "${A}", "${B:-x}", "${", "}",
		"export ", "export", "\t", "\r\n", "\r", "\u00a0", "\u0085", "\x0b", "\x0c", "0", "1", "7", "9", "n", "x", "\\n", "\\0", "\\$", "_", ".", "-", "[", "]", "a", "é", "世", "²"}
	for i := 0; i < ctx.Pick(80000, 2500000); i++ {
		n := 1 + ctx.Rng.Intn(16)
		var b strings.Builder
		for j := 0; j < n; j++ {
			b.WriteString(wide[ctx.Rng.Intn(len(wide))])
		}
		ctx.Count("model-random-tokens")
		ctx.Add("dotenv", dotenvArgs{Src: b.String(), Lookup: genLookup(ctx)})
	}
}

// 4. arbitrary bytes: the no-crash side on the real code only
func c18Raw(ctx *core.Ctx) {
	alpha := []byte{0x00, '\n', '"', '\'', '\\', '=', 'A', ' ', '#', '$', 0xC2, 0x85, 0xA0, 0xFF, 0xEF, '{', '}', ':', '0'}
	var rec func(prefix []byte, n int)
	rec = func(prefix []byte, n int) {
		ctx.Count("raw-exhaustive-bytes")
		ctx.Add("dotenvRaw", rawArgs{B: append([]byte(nil), prefix...)})
		if n == 0 {
			return
		}
		for _, a := range alpha {
			rec(append(prefix, a), n-1)
		}
	}
	rec(nil, ctx.Pick(3, 5))
	// mutated corpora: the fixtures of the package and the test inputs, byte-level mutations
	var seeds [][]byte
	fx, _ := filepath.Glob(filepath.Join(ctx.RepoDir, "dotenv", "fixtures", "*"))
	sort.Strings(fx)
	for _, f := range fx {
		if b, err := os.ReadFile(f); err == nil {
			seeds = append(seeds, b)
		}
	}
	seeds = append(seeds, []byte("\uFEFFA=1\nB=\"x\\n\"\n"), []byte("export A='b' # c\nC: \"${A:-d}\"\nD\n"), []byte("K=\"\\0123\\$x\"\r\nL='a\\'b'\r\n"))
	for i := 0; i < ctx.Pick(30000, 1500000); i++ {
		b := append([]byte(nil), seeds[ctx.Rng.Intn(len(seeds))]...)
		if len(b) > 400 {
			o := ctx.Rng.Intn(len(b) - 300)
			b = b[o : o+300]
		}
		for k := 1 + ctx.Rng.Intn(4); k > 0 && len(b) > 0; k-- {
			j := ctx.Rng.Intn(len(b))
			switch ctx.Rng.Intn(5) {
			case 0:
				b = append(b[:j], b[j+1:]...)
			case 1:
				b[j] = byte(ctx.Rng.Intn(256))
			case 2:
				b = append(b[:j], append([]byte{alpha[ctx.Rng.Intn(len(alpha))]}, b[j:]...)...)
			case 3:
				b = b[:j]
			default:
				b[j] = alpha[ctx.Rng.Intn(len(alpha))]
			}
		}
		if utf8.Valid(b) {
			ctx.Count("raw-mutated-corpus-valid-utf8")
		} else {
			ctx.Count("raw-mutated-corpus-invalid-utf8")
		}
		ctx.Add("dotenvRaw", rawArgs{B: b, Lookup: c18Lookups[ctx.Rng.Intn(len(c18Lookups))], File: i%8 == 0})
	}
}

// 5. GetEnvFromFile on several files (later files see earlier ones; the caller's environment wins)
func c18Files(ctx *core.Ctx) {
	for i := 0; i < ctx.Pick(4000, 60000); i++ {
		nf := 1 + ctx.Rng.Intn(3)
		var files []string
		for f := 0; f < nf; f++ {
			n := ctx.Rng.Intn(4)
			ls := make([]dline, n)
			for j := range ls {
				ls[j] = genLine(ctx)
			}
			s := renderLines(ls, ctx.Rng.Intn(5) != 0)
			if ctx.Rng.Intn(10) == 0 {
				s = mutate(ctx, []rune(s))
			}
			if ctx.Rng.Intn(8) == 0 {
				s = "\uFEFF" + s
			}
			files = append(files, s)
		}
		ctx.Count(fmt.Sprintf("env-files-%d", nf))
		lk := genLookup(ctx)
		ctx.Add("envFiles", filesArgs{Files: files, Lookup: lk})
		if i%2 == 0 {
			ctx.Count("read-files")
			ctx.Add("readFiles", filesArgs{Files: files, Lookup: lk})
		}
	}
}
