package c05

// C05 direct oracles on the real loader (whole loads through core.LoadReq).
//
//	c05.flat    the chain source (extends across files / directories) and the same model with every chain flattened by
//	            hand into a single service (fold of the real override.ExtendService over the chain, base first, paths of
//	            inherited attributes rewritten to the base file's directory) load to the same services; no service keeps
//	            an `extends` attribute; repeated loads agree (the visit order of the services map is random per load)
//	c05.reject  cyclic chains (length 1..4, within and across files), missing bases and missing files are errors

import (
	"encoding/json"
	"fmt"
	"math/rand"
	"os"
	"path/filepath"
	"reflect"
	"sort"
	"strings"
	"time"

	"github.com/compose-spec/compose-go/v2/override"
	"gopkg.in/yaml.v3"

	"verifharness/core"
)

type c05FlatArgs struct {
	c05Tree
	// for every service of the main file: its chain from the deepest base to the service itself; every element is the
	// service as written, with relative paths rewritten relative to the working directory
	Chains map[string][]core.T `json:"chains"`
	Top    core.T              `json:"top"` // the rest of the main document (networks, volumes, …)
	Shape  string              `json:"shape"`
	Repeat int                 `json:"repeat"`
}

func c05Load(files map[string]string, main, wd string) (out map[string]any, cls string) {
	req := core.LoadReq{Files: files, ConfigFiles: []string{main}, WorkingDir: wd, ProjectName: "p"}
	root, err := c05Materialize(files)
	defer os.RemoveAll(root)
	if err != nil {
		return map[string]any{"err": err.Error()}, "err:materialize"
	}
	p, err := req.LoadIn(root)
	if err != nil {
		return map[string]any{"err": core.ScrubErr(err, root)}, "err:" + c05ErrClass(err)
	}
	v, err := core.ProjectJSON(p, root)
	if err != nil {
		return map[string]any{"marshal_err": err.Error()}, "marshal_err"
	}
	return map[string]any{"ok": v}, "ok"
}

func realC05Flat(raw json.RawMessage) any {
	var a c05FlatArgs
	if err := json.Unmarshal(raw, &a); err != nil {
		return map[string]any{"bad": err.Error()}
	}
	files := a.render()
	chain, ccls := c05Load(files, a.Main, a.WD)
	classes := []string{ccls}
	for i := 1; i < a.Repeat; i++ {
		_, c := c05Load(files, a.Main, a.WD)
		classes = append(classes, c)
	}
	// flatten by hand with the real override.ExtendService
	flatDoc, _ := core.DecodeVal(a.Top).(map[string]any)
	if flatDoc == nil {
		flatDoc = map[string]any{}
	}
	svcs := map[string]any{}
	for name, ch := range a.Chains {
		var acc map[string]any
		for _, el := range ch {
			own, _ := core.DecodeVal(el).(map[string]any)
			delete(own, "extends")
			if acc == nil {
				acc = own
				continue
			}
			m, err := override.ExtendService(acc, own)
			if err != nil {
				return map[string]any{"chain": chain, "classes": classes, "flat": map[string]any{"err": "ExtendService: " + err.Error()}}
			}
			acc = m
		}
		svcs[name] = acc
	}
	flatDoc["services"] = svcs
	b, err := yaml.Marshal(flatDoc)
	if err != nil {
		return map[string]any{"bad": err.Error()}
	}
	flatFiles := map[string]string{}
	for p, s := range files {
		if _, isDoc := a.Trees[p]; !isDoc {
			flatFiles[p] = s // auxiliary files (env files)
		}
	}
	flatFiles[a.Main] = string(b)
	flat, _ := c05Load(flatFiles, a.Main, a.WD)
	return map[string]any{"chain": chain, "classes": classes, "flat": flat, "flat_yaml": string(b)}
}

func servicesOf(out map[string]any) map[string]any {
	ok, _ := out["ok"].(map[string]any)
	s, _ := ok["services"].(map[string]any)
	return s
}

func judgeC05Flat(args, real, drv json.RawMessage) *core.Verdict {
	if v := core.CrashVerdict(real); v != nil {
		return v
	}
	var r struct {
		Chain   map[string]any `json:"chain"`
		Flat    map[string]any `json:"flat"`
		Classes []string       `json:"classes"`
		Bad     string         `json:"bad"`
	}
	if json.Unmarshal(real, &r) != nil || r.Chain == nil || r.Flat == nil {
		return core.Disagree("malformed c05.flat outcome: " + string(real))
	}
	var a c05FlatArgs
	json.Unmarshal(args, &a)
	cs := map[string]bool{}
	for _, c := range r.Classes {
		cs[c] = true
	}
	if len(cs) > 1 {
		var l []string
		for c := range cs {
			l = append(l, c)
		}
		sort.Strings(l)
		return core.Fail("nondeterministic-load:"+strings.Join(l, "|")+":"+a.trackerClash(), "repeated loads of one acyclic extends chain give different outcomes: "+strings.Join(r.Classes, ", "))
	}
	if _, ok := r.Flat["ok"]; !ok {
		return core.Skip(fmt.Sprintf("the flattened model is rejected: %v", r.Flat["err"]))
	}
	if _, ok := r.Chain["ok"]; !ok {
		return core.Fail("acyclic-rejected:"+strings.TrimPrefix(r.Classes[0], "err:")+":"+a.trackerClash(), fmt.Sprintf("an acyclic extends chain whose flattened form loads is rejected: %v", r.Chain["err"]))
	}
	cs1, fs1 := servicesOf(r.Chain), servicesOf(r.Flat)
	var bad []string
	left := false
	names := map[string]bool{}
	for n := range cs1 {
		names[n] = true
	}
	for n := range fs1 {
		names[n] = true
	}
	for n := range names {
		c, _ := cs1[n].(map[string]any)
		f, _ := fs1[n].(map[string]any)
		if c == nil || f == nil {
			bad = append(bad, "<service-set>")
			continue
		}
		if _, has := c["extends"]; has {
			left = true
		}
		keys := map[string]bool{}
		for k := range c {
			keys[k] = true
		}
		for k := range f {
			keys[k] = true
		}
		for k := range keys {
			if !reflect.DeepEqual(c[k], f[k]) {
				bad = append(bad, k)
			}
		}
	}
	if left {
		return core.Fail("extends-left", "a loaded service still carries an `extends` attribute")
	}
	if len(bad) > 0 {
		sort.Strings(bad)
		bad = uniq(bad)
		return core.Fail("flatten-mismatch:"+strings.Join(bad, ","), "chain source and hand-flattened model differ in "+strings.Join(bad, ","))
	}
	return nil
}

func uniq(l []string) []string {
	var out []string
	for i, s := range l {
		if i == 0 || s != l[i-1] {
			out = append(out, s)
		}
	}
	return out
}

// ---------------------------------------------------------------- c05.reject

type c05RejectArgs struct {
	c05Tree
	Expect string `json:"expect"` // cycle | missing-base | missing-file
	Shape  string `json:"shape"`
}

func realC05Reject(raw json.RawMessage) any {
	var a c05RejectArgs
	if err := json.Unmarshal(raw, &a); err != nil {
		return map[string]any{"bad": err.Error()}
	}
	out, cls := c05Load(a.render(), a.Main, a.WD)
	if cls == "ok" {
		return map[string]any{"class": cls, "services": servicesOf(out)}
	}
	return map[string]any{"class": cls, "err": out["err"]}
}

func judgeC05Reject(args, real, drv json.RawMessage) *core.Verdict {
	if v := core.CrashVerdict(real); v != nil {
		return v
	}
	var a c05RejectArgs
	json.Unmarshal(args, &a)
	var r struct {
		Class string `json:"class"`
		Err   string `json:"err"`
	}
	if json.Unmarshal(real, &r) != nil || r.Class == "" {
		return core.Disagree("malformed c05.reject outcome: " + string(real))
	}
	if r.Class == "ok" {
		return core.Fail(a.Expect+"-accepted:"+a.Shape, fmt.Sprintf("a model with a %s (%s) is accepted", a.Expect, a.Shape))
	}
	want := map[string][]string{"cycle": {"err:circular"}, "missing-base": {"err:notFound", "err:notFoundInFile"}, "missing-file": {"err:noFile"}}[a.Expect]
	for _, w := range want {
		if r.Class == w {
			return nil
		}
	}
	// rejected, but for another reason than the one planted: the generator is off (not a violation of the property)
	return core.Disagree(fmt.Sprintf("planted %s (%s) but the load fails with %s: %s", a.Expect, a.Shape, r.Class, r.Err))
}

func init() {
	core.Register("c05.flat", &core.CheckDef{Real: realC05Flat, Judge: judgeC05Flat, Timeout: 30 * time.Second})
	core.Register("c05.reject", &core.CheckDef{Real: realC05Reject, Judge: judgeC05Reject, Timeout: 30 * time.Second})
}

// ---------------------------------------------------------------- generators

// relDirFromWD is the directory of a tree file relative to the working directory.
func relDirFromWD(file string) string {
	r, err := filepath.Rel(c05WD, filepath.Dir(file))
	if err != nil {
		return "."
	}
	return r
}

// anchor rewrites a relative path written in `file` so that it means the same location when written in the main file.
func anchor(file, p string) string {
	d := relDirFromWD(file)
	if d == "." {
		return p
	}
	r := filepath.Join(d, p)
	if !strings.HasPrefix(r, "..") {
		r = "./" + r
	}
	return r
}

// attribute pool: value of attribute `k` at chain position i; `pa` rewrites relative paths (identity for the source spelling)
type c05Attr struct {
	key string
	gen func(r *rand.Rand, i int, pa func(string) string, aux map[string]string, file string) any
}

func c05AttrPool() []c05Attr {
	s := fmt.Sprint
	either := func(r *rand.Rand, a, b any) any {
		if r.Intn(2) == 0 {
			return a
		}
		return b
	}
	return []c05Attr{
		{"image", func(r *rand.Rand, i int, pa func(string) string, _ map[string]string, _ string) any {
			return "img-" + s(i)
		}},
		{"command", func(r *rand.Rand, i int, pa func(string) string, _ map[string]string, _ string) any {
			return either(r, []any{"run", s(i)}, "run "+s(i))
		}},
		{"entrypoint", func(r *rand.Rand, i int, pa func(string) string, _ map[string]string, _ string) any {
			return either(r, []any{"/ep-" + s(i)}, "/ep-"+s(i))
		}},
		{"environment", func(r *rand.Rand, i int, pa func(string) string, _ map[string]string, _ string) any {
			return either(r, map[string]any{"K_" + s(i): "v", "SHARED": "from-" + s(i)}, []any{"K_" + s(i) + "=v", "SHARED=from-" + s(i)})
		}},
		{"labels", func(r *rand.Rand, i int, pa func(string) string, _ map[string]string, _ string) any {
			return either(r, map[string]any{"l." + s(i): "v", "shared": "from-" + s(i)}, []any{"l." + s(i) + "=v", "shared=from-" + s(i)})
		}},
		{"ports", func(r *rand.Rand, i int, pa func(string) string, _ map[string]string, _ string) any {
			return either(r, []any{"80" + s(i) + ":80"}, []any{map[string]any{"target": 80 + i, "published": "81" + s(i)}})
		}},
		{"expose", func(r *rand.Rand, i int, pa func(string) string, _ map[string]string, _ string) any {
			return []any{"90" + s(i)}
		}},
		{"cap_add", func(r *rand.Rand, i int, pa func(string) string, _ map[string]string, _ string) any {
			return []any{"CAP_" + s(i)}
		}},
		{"dns", func(r *rand.Rand, i int, pa func(string) string, _ map[string]string, _ string) any {
			return either(r, "10.0.0."+s(i), []any{"10.0.0." + s(i)})
		}},
		{"volumes", func(r *rand.Rand, i int, pa func(string) string, _ map[string]string, _ string) any {
			return either(r, []any{pa("./d-"+s(i)) + ":/data-" + s(i)}, []any{map[string]any{"type": "bind", "source": pa("./l-" + s(i)), "target": "/l-" + s(i)}})
		}},
		{"build", func(r *rand.Rand, i int, pa func(string) string, _ map[string]string, _ string) any {
			return either(r, pa("./ctx-"+s(i)), map[string]any{"context": pa("./ctx-" + s(i)), "args": map[string]any{"A_" + s(i): "1", "SHARED": s(i)}})
		}},
		{"env_file", func(r *rand.Rand, i int, pa func(string) string, aux map[string]string, file string) any {
			aux[filepath.Join(filepath.Dir(file), "e-"+s(i)+".env")] = "EV_" + s(i) + "=val\nSHARED_EV=from-" + s(i) + "\n"
			p := pa("./e-" + s(i) + ".env")
			switch r.Intn(3) {
			case 0:
				return p
			case 1:
				return []any{p}
			}
			return []any{map[string]any{"path": p, "required": true}}
		}},
		{"healthcheck", func(r *rand.Rand, i int, pa func(string) string, _ map[string]string, _ string) any {
			return either(r, map[string]any{"test": []any{"CMD", "t-" + s(i)}, "interval": s(i+1) + "s"}, map[string]any{"retries": i + 1})
		}},
		{"ulimits", func(r *rand.Rand, i int, pa func(string) string, _ map[string]string, _ string) any {
			return either(r, map[string]any{"nofile": 100 + i}, map[string]any{"nofile": map[string]any{"soft": 1 + i, "hard": 10 + i}, "nproc": 5 + i})
		}},
		{"logging", func(r *rand.Rand, i int, pa func(string) string, _ map[string]string, _ string) any {
			return map[string]any{"driver": []string{"json-file", "syslog"}[r.Intn(2)], "options": map[string]any{"o-" + s(i): "v"}}
		}},
		{"deploy", func(r *rand.Rand, i int, pa func(string) string, _ map[string]string, _ string) any {
			return either(r, map[string]any{"resources": map[string]any{"limits": map[string]any{"cpus": "0." + s(i+1)}}}, map[string]any{"labels": map[string]any{"dl-" + s(i): "v"}, "replicas": i + 1})
		}},
		{"extra_hosts", func(r *rand.Rand, i int, pa func(string) string, _ map[string]string, _ string) any {
			return either(r, []any{"h-" + s(i) + ":10.0.0." + s(i)}, map[string]any{"h-" + s(i): "10.0.0." + s(i)})
		}},
		{"sysctls", func(r *rand.Rand, i int, pa func(string) string, _ map[string]string, _ string) any {
			return either(r, map[string]any{"net.s" + s(i): "1"}, []any{"net.s" + s(i) + "=1"})
		}},
		{"tmpfs", func(r *rand.Rand, i int, pa func(string) string, _ map[string]string, _ string) any {
			return either(r, "/t-"+s(i), []any{"/t-" + s(i)})
		}},
		{"networks", func(r *rand.Rand, i int, pa func(string) string, _ map[string]string, _ string) any {
			return either(r, []any{"n1"}, map[string]any{"n2": map[string]any{"aliases": []any{"al-" + s(i)}}})
		}},
		{"depends_on", func(r *rand.Rand, i int, pa func(string) string, _ map[string]string, _ string) any {
			return either(r, []any{"dep"}, map[string]any{"dep2": map[string]any{"condition": "service_healthy"}})
		}},
		{"hostname", func(r *rand.Rand, i int, pa func(string) string, _ map[string]string, _ string) any {
			return "h-" + s(i)
		}},
		{"shm_size", func(r *rand.Rand, i int, pa func(string) string, _ map[string]string, _ string) any {
			return s(64+i) + "m"
		}},
		{"privileged", func(r *rand.Rand, i int, pa func(string) string, _ map[string]string, _ string) any { return i%2 == 0 }},
		{"working_dir", func(r *rand.Rand, i int, pa func(string) string, _ map[string]string, _ string) any {
			return "/w-" + s(i)
		}},
		{"develop", func(r *rand.Rand, i int, pa func(string) string, _ map[string]string, _ string) any {
			return map[string]any{"watch": []any{map[string]any{"action": "rebuild", "path": pa("./w-" + s(i))}}}
		}},
		{"x-custom", func(r *rand.Rand, i int, pa func(string) string, _ map[string]string, _ string) any {
			return map[string]any{"k-" + s(i): "v", "shared": i}
		}},
		{"annotations", func(r *rand.Rand, i int, pa func(string) string, _ map[string]string, _ string) any {
			return either(r, map[string]any{"an." + s(i): "v"}, []any{"an." + s(i) + "=v"})
		}},
	}
}

// element i of a chain: the service as written in its file, and as it reads from the main file's directory
func chainElement(r *rand.Rand, pool []c05Attr, density float64, i int, file string, aux map[string]string) (written, anchored map[string]any) {
	written, anchored = map[string]any{}, map[string]any{}
	for _, at := range pool {
		if r.Float64() >= density {
			continue
		}
		seed := r.Int63()
		written[at.key] = at.gen(rand.New(rand.NewSource(seed)), i, func(p string) string { return p }, aux, file)
		anchored[at.key] = at.gen(rand.New(rand.NewSource(seed)), i, func(p string) string { return anchor(file, p) }, map[string]string{}, file)
	}
	return
}

var c05Top = map[string]any{"networks": map[string]any{"n1": map[string]any{}, "n2": map[string]any{}}}

func depServices() map[string]any {
	return map[string]any{"dep": map[string]any{"image": "dep"}, "dep2": map[string]any{"image": "dep2", "healthcheck": map[string]any{"test": []any{"CMD", "true"}}}}
}

// genFlat builds one flatten-oracle case.  pattern: same | other | dir | mixed; k bases; reuse: reuse service names across files.
func genFlat(ctx *core.Ctx, pattern string, k int, reuse bool, density float64, sibling bool) {
	r := ctx.Rng
	pool := c05AttrPool()
	others := []string{"proj/o.yaml", "proj/sub/p.yaml", "shared/q.yaml"}
	fileOf := func(i int) string {
		if i == 0 {
			return c05Main
		}
		switch pattern {
		case "same":
			return c05Main
		case "other":
			return "proj/o.yaml"
		case "dir":
			return others[1+(k+i)%2]
		}
		return c05Files[r.Intn(len(c05Files))]
	}
	type el struct {
		file, name        string
		written, anchored map[string]any
	}
	aux := map[string]string{}
	els := make([]el, k+1)
	used := map[string]bool{}
	for i := 0; i <= k; i++ {
		f := fileOf(i)
		name := fmt.Sprintf("s%d", i)
		if reuse && i > 0 && !used[f+"/svc"] {
			name = "svc"
		}
		if i == 0 && reuse {
			name = "svc"
		}
		used[f+"/"+name] = true
		w, a := chainElement(r, pool, density, i, f, aux)
		if i == k && w["image"] == nil {
			w["image"], a["image"] = "img-deepest", "img-deepest" // every flattened service needs an image or a build
		}
		els[i] = el{f, name, w, a}
	}
	docs := map[string]map[string]any{}
	doc := func(f string) map[string]any {
		if docs[f] == nil {
			docs[f] = map[string]any{"services": map[string]any{}}
		}
		return docs[f]["services"].(map[string]any)
	}
	for i := 0; i <= k; i++ {
		v := els[i].written
		if i < k {
			nx := els[i+1]
			switch {
			case nx.file == els[i].file && r.Intn(3) > 0:
				v["extends"] = nx.name
			case nx.file == els[i].file && r.Intn(2) == 0:
				v["extends"] = map[string]any{"service": nx.name}
			default:
				v["extends"] = map[string]any{"service": nx.name, "file": relRef(els[i].file, nx.file)}
			}
		}
		doc(els[i].file)[els[i].name] = v
	}
	chains := map[string][]core.T{}
	// every service of the main file that is on the chain gets its own flattened form
	for i := 0; i <= k; i++ {
		if els[i].file != c05Main {
			continue
		}
		var ch []core.T
		for j := k; j >= i; j-- {
			ch = append(ch, core.EncodeVal(els[j].anchored))
		}
		chains[els[i].name] = ch
	}
	if sibling && k >= 1 {
		// a second service of the main file extending the same first base with other attributes
		w, a := chainElement(r, pool, density, 7, c05Main, aux)
		nx := els[1]
		if nx.file == c05Main {
			w["extends"] = nx.name
		} else {
			w["extends"] = map[string]any{"service": nx.name, "file": relRef(c05Main, nx.file)}
		}
		doc(c05Main)["sib"] = w
		ch := []core.T{}
		for j := k; j >= 1; j-- {
			ch = append(ch, core.EncodeVal(els[j].anchored))
		}
		chains["sib"] = append(ch, core.EncodeVal(a))
	}
	for n, v := range depServices() {
		doc(c05Main)[n] = v
		chains[n] = []core.T{core.EncodeVal(v)}
	}
	for n, v := range c05Top {
		docs[c05Main][n] = v
	}
	t := c05Tree{Main: c05Main, WD: c05WD, Trees: map[string]core.T{}, Raw: aux}
	for f, d := range docs {
		t.Trees[f] = core.EncodeVal(d)
	}
	shape := fmt.Sprintf("%s/k%d", pattern, k)
	if reuse {
		shape += "/reuse"
	}
	ctx.Count("flat-" + shape)
	ctx.Add("c05.flat", c05FlatArgs{c05Tree: t, Chains: chains, Top: core.EncodeVal(c05Top), Shape: shape, Repeat: 3})
}

func genOracles(ctx *core.Ctx) {
	// ---- flatten oracle: every pattern × chain length, several attribute placements each
	for _, pattern := range []string{"same", "other", "dir", "mixed"} {
		for k := 1; k <= 4; k++ {
			for i := 0; i < ctx.Pick(25, 400); i++ {
				genFlat(ctx, pattern, k, false, []float64{0.15, 0.35, 0.6}[i%3], i%2 == 0)
			}
			for i := 0; i < ctx.Pick(4, 40); i++ {
				genFlat(ctx, pattern, k, true, 0.3, i%2 == 0)
			}
		}
	}
	// single-attribute placements: each attribute alone, at every subset of positions of a 3-element cross-directory chain
	genPlacements(ctx)
	// ---- inherited short-form depends_on, one entry overridden in long form: the others keep their defaults
	genDeps(ctx)
	// ---- cycles, missing bases, missing files
	genRejects(ctx)
}

// genPlacements: for each attribute, every non-empty subset of positions {0,1,2} of the chain main → sub/p.yaml → shared/q.yaml
func genPlacements(ctx *core.Ctx) {
	pool := c05AttrPool()
	files := []string{c05Main, "proj/sub/p.yaml", "shared/q.yaml"}
	for _, at := range pool {
		for mask := 1; mask < 8; mask++ {
			for variant := 0; variant < ctx.Pick(1, 4); variant++ {
				aux := map[string]string{}
				docs := map[string]map[string]any{}
				var anchored []map[string]any
				for i, f := range files {
					w, a := map[string]any{"image": fmt.Sprintf("img-%d", i)}, map[string]any{"image": fmt.Sprintf("img-%d", i)}
					if mask&(1<<i) != 0 {
						seed := ctx.Rng.Int63()
						w[at.key] = at.gen(rand.New(rand.NewSource(seed)), i, func(p string) string { return p }, aux, f)
						a[at.key] = at.gen(rand.New(rand.NewSource(seed)), i, func(p string) string { return anchor(f, p) }, map[string]string{}, f)
					}
					if i+1 < len(files) {
						w["extends"] = map[string]any{"service": fmt.Sprintf("s%d", i+1), "file": relRef(f, files[i+1])}
					}
					docs[f] = map[string]any{"services": map[string]any{fmt.Sprintf("s%d", i): w}}
					anchored = append(anchored, a)
				}
				chains := map[string][]core.T{"s0": {core.EncodeVal(anchored[2]), core.EncodeVal(anchored[1]), core.EncodeVal(anchored[0])}}
				for n, v := range depServices() {
					docs[c05Main]["services"].(map[string]any)[n] = v
					chains[n] = []core.T{core.EncodeVal(v)}
				}
				for n, v := range c05Top {
					docs[c05Main][n] = v
				}
				t := c05Tree{Main: c05Main, WD: c05WD, Trees: map[string]core.T{}, Raw: aux}
				for f, d := range docs {
					t.Trees[f] = core.EncodeVal(d)
				}
				ctx.Count("flat-placement-" + at.key)
				ctx.Add("c05.flat", c05FlatArgs{c05Tree: t, Chains: chains, Top: core.EncodeVal(c05Top), Shape: fmt.Sprintf("placement/%s/%d", at.key, mask), Repeat: 1})
			}
		}
	}
}

func genRejects(ctx *core.Ctx) {
	short := map[string]string{c05Main: "M", "proj/o.yaml": "O", "proj/sub/p.yaml": "P", "shared/q.yaml": "Q"}
	link := func(from c05Node, to c05Node, fileForm bool) c05Node {
		if from.File == to.File && !fileForm {
			from.Kind, from.Ref = 1, to.Name
		} else {
			from.Kind, from.Ref, from.RefFile = 3, to.Name, to.File
		}
		return from
	}
	emit := func(expect, shape string, nodes []c05Node, raw map[string]string) {
		t, _ := buildTree(nodes)
		for p, s := range raw {
			t.Raw[p] = s
		}
		ctx.Count("reject-" + expect)
		ctx.Add("c05.reject", c05RejectArgs{c05Tree: t, Expect: expect, Shape: shape})
	}
	img := func(i int) map[string]any { return map[string]any{"image": fmt.Sprintf("img-%d", i)} }
	// ---- all cyclic chains of length 1..4 over the four files (exhaustive in the file assignment), names distinct or reused
	for k := 1; k <= 4; k++ {
		total := 1
		for i := 0; i < k; i++ {
			total *= len(c05Files)
		}
		for code := 0; code < total; code++ {
			for variant := 0; variant < 3; variant++ { // 0: distinct names, string form inside a file; 1: file form everywhere; 2: names reused across files
				fs := make([]string, k)
				c := code
				shape := ""
				for i := 0; i < k; i++ {
					fs[i] = c05Files[c%len(c05Files)]
					c /= len(c05Files)
					shape += short[fs[i]]
				}
				nodes := make([]c05Node, k)
				seen := map[string]int{}
				for i := 0; i < k; i++ {
					name := fmt.Sprintf("c%d", i)
					if variant == 2 {
						name = fmt.Sprintf("c%d", seen[fs[i]])
						seen[fs[i]]++
					}
					nodes[i] = c05Node{File: fs[i], Name: name, Attrs: img(i)}
				}
				for i := 0; i < k; i++ {
					nodes[i] = link(nodes[i], nodes[(i+1)%k], variant == 1)
				}
				inMain := false
				for _, n := range nodes {
					if n.File == c05Main {
						inMain = true
					}
				}
				all := append([]c05Node(nil), nodes...)
				if !inMain || code%2 == 1 {
					// a tail in the main file leading into the cycle
					e := link(c05Node{File: c05Main, Name: "entry", Attrs: img(9)}, nodes[0], variant == 1)
					all = append(all, e)
					shape = "tail+" + shape
				}
				emit("cycle", fmt.Sprintf("len%d:%s:v%d", k, shape, variant), all, nil)
			}
		}
	}
	// ---- the main file referenced by its own absolute name ($ROOT is replaced when the tree is written): a chain that
	// re-enters the main file at another service is acyclic and must resolve; re-entering at the same service is a cycle
	absMain := "$ROOT/" + c05Main
	for _, via := range []string{"proj/o.yaml", "proj/sub/p.yaml"} {
		for variant := 0; variant < 2; variant++ {
			back := "b"
			if variant == 1 {
				back = "a" // a@main → x@via → a@main: a genuine cycle
			}
			a := link(c05Node{File: c05Main, Name: "a", Attrs: img(0)}, c05Node{File: via, Name: "x"}, true)
			b := c05Node{File: c05Main, Name: "b", Attrs: map[string]any{"image": "img-b", "hostname": "hb"}}
			x := c05Node{File: via, Name: "x", Attrs: map[string]any{"cap_add": []any{"CAP_X"}}, HasRaw: true,
				RawExt: map[string]any{"service": back, "file": absMain}}
			t, main := buildTree([]c05Node{a, b, x})
			ctx.Count("abs-main-reference")
			ctx.Add("c05.apply", c05ApplyArgs{c05Tree: t, Dict: core.EncodeVal(main)})
			ctx.Add("c05.order", c05ApplyArgs{c05Tree: t, Dict: core.EncodeVal(main)})
			if variant == 1 {
				ctx.Add("c05.reject", c05RejectArgs{c05Tree: t, Expect: "cycle", Shape: "abs-main:" + short[via]})
			} else {
				ctx.Add("c05.dep", c05DepArgs{c05Tree: t, Service: "a", Want: map[string]c05DepWant{}, Shape: "abs-main:" + short[via]})
			}
		}
	}
	// ---- missing base / missing file at the end of a chain of 0..3 good links
	for k := 0; k <= 3; k++ {
		total := 1
		for i := 0; i <= k; i++ {
			total *= len(c05Files)
		}
		for code := 0; code < total; code++ {
			fs := make([]string, k+1)
			c := code
			shape := ""
			for i := 0; i <= k; i++ {
				fs[i] = c05Files[c%len(c05Files)]
				c /= len(c05Files)
				shape += short[fs[i]]
			}
			if fs[0] != c05Main {
				continue
			}
			mk := func() []c05Node {
				nodes := make([]c05Node, k+1)
				for i := 0; i <= k; i++ {
					nodes[i] = c05Node{File: fs[i], Name: fmt.Sprintf("s%d", i), Attrs: img(i)}
				}
				for i := 0; i < k; i++ {
					nodes[i] = link(nodes[i], nodes[i+1], false)
				}
				return nodes
			}
			last := k
			// (a) missing service in the same file
			n := mk()
			n[last].Kind, n[last].Ref = 1, "ghost"
			emit("missing-base", shape+":same-file", n, nil)
			// (b) missing service in another, existing file
			n = mk()
			tgt := c05Files[(code+1)%len(c05Files)]
			n[last].Kind, n[last].Ref, n[last].RefFile = 3, "ghost", tgt
			n = append(n, c05Node{File: tgt, Name: "present", Attrs: img(8)})
			emit("missing-base", shape+":other-file", n, nil)
			// (c) missing file
			n = mk()
			n[last].Kind, n[last].Ref, n[last].RefFile = 3, "s0", "proj/ghost.yaml"
			emit("missing-file", shape+":ghost-file", n, nil)
			n = mk()
			n[last].Kind, n[last].Ref, n[last].RefFile = 3, "s0", "ghostdir/q.yaml"
			emit("missing-file", shape+":ghost-dir", n, nil)
		}
	}
}
