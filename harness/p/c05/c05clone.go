package c05

// c05.clone — loader.deepClone on the real heap vs Model/ExtendsClone.lean (`clone`)
//
// The Lean model proves, for trees of any size: the clone has the value of its argument, every container of the
// clone is a fresh object, a write through any container of the clone leaves the argument unchanged
// (Props/C05Clone.lean).  This stream decides the same three statements on the real heap, for the real function:
//
//   equal      the clone is deep-equal to the argument
//   shared     no map header / slice backing array of the clone is one of the argument's (pointer identity; the
//              argument's slices are built WITH SPARE CAPACITY, which is what a memoised base produced by an
//              earlier append looks like — an in-place "clone" of such a slice is invisible without it)
//   isolated   after writing through every container of the clone (new key into every mapping, every element of
//              every sequence overwritten, an append within capacity), the argument still has its old value
//
// and compares the number of fresh containers with the model's allocation count (`clone_allocates_one_per_container`).
// A real-side violation is a failing input (`clone-shares-structure:<kind>` / `clone-write-reaches-base` /
// `clone-changes-value`), not merely a disagreement.

import (
	"encoding/json"
	"fmt"
	"math/rand"
	"reflect"
	"sort"

	"github.com/compose-spec/compose-go/v2/loader"

	"verifharness/core"
)

type c05CloneArgs struct {
	V     core.T `json:"v"`
	Spare int    `json:"spare"` // extra capacity given to every sequence of the argument
}

// withSpare rebuilds every sequence with `spare` unused slots behind its elements.
func withSpare(v any, spare int) any {
	switch x := v.(type) {
	case map[string]any:
		for k, e := range x {
			x[k] = withSpare(e, spare)
		}
		return x
	case []any:
		l := make([]any, len(x), len(x)+spare)
		for i, e := range x {
			l[i] = withSpare(e, spare)
		}
		return l
	}
	return v
}

// containers lists the identity of every map header and every slice backing array (capacity > 0) with its path.
func containers(v any, path string, f func(p uintptr, kind, path string)) {
	switch x := v.(type) {
	case map[string]any:
		f(reflect.ValueOf(x).Pointer(), "map", path)
		keys := make([]string, 0, len(x))
		for k := range x {
			keys = append(keys, k)
		}
		sort.Strings(keys)
		for _, k := range keys {
			containers(x[k], path+"."+k, f)
		}
	case []any:
		if cap(x) > 0 {
			f(reflect.ValueOf(x).Pointer(), "seq", path)
		} else {
			f(0, "seq", path)
		}
		for i, e := range x {
			containers(e, fmt.Sprintf("%s[%d]", path, i), f)
		}
	}
}

// scribble writes through every container of the tree.
func scribble(v any) {
	switch x := v.(type) {
	case map[string]any:
		for _, e := range x {
			scribble(e)
		}
		x["\x00written"] = "W"
	case []any:
		for _, e := range x {
			scribble(e)
		}
		for i := range x {
			x[i] = "W"
		}
		if cap(x) > len(x) {
			_ = append(x, "APPENDED") // within capacity: lands in the backing array
			y := x[:len(x)+1]
			y[len(x)] = "APPENDED"
		}
	}
}

func realC05Clone(raw json.RawMessage) any {
	var a c05CloneArgs
	if err := json.Unmarshal(raw, &a); err != nil {
		return map[string]any{"bad": err.Error()}
	}
	v := withSpare(core.DecodeVal(a.V), a.Spare)
	snapshot, _ := json.Marshal(core.EncodeVal(v))
	// the slots behind the elements are part of the argument's state, too
	c := loader.VerifDeepClone(v)
	cj, _ := json.Marshal(core.EncodeVal(c))
	own := map[uintptr]string{}
	containers(v, "$", func(p uintptr, _, path string) {
		if p != 0 {
			own[p] = path
		}
	})
	shared := []string{}
	kinds := map[string]bool{}
	fresh := 0
	seen := map[uintptr]bool{}
	containers(c, "$", func(p uintptr, kind, path string) {
		if p == 0 {
			fresh++
			return
		}
		if at, ok := own[p]; ok {
			shared = append(shared, fmt.Sprintf("%s clone%s = argument%s", kind, path[1:], at[1:]))
			kinds[kind] = true
			return
		}
		if !seen[p] {
			seen[p] = true
			fresh++
		}
	})
	scribble(c)
	after, _ := json.Marshal(core.EncodeVal(v))
	ks := []string{}
	for k := range kinds {
		ks = append(ks, k)
	}
	sort.Strings(ks)
	return map[string]any{"equal": string(cj) == string(snapshot), "shared": shared, "sharedKinds": ks, "fresh": fresh,
		"isolated": string(after) == string(snapshot)}
}

func judgeC05Clone(args, real, drv json.RawMessage) *core.Verdict {
	if c := core.Class(real); c == "panic" || c == "fatal" || c == "hang" {
		return core.CrashVerdict(real)
	}
	var r struct {
		Equal       bool     `json:"equal"`
		Shared      []string `json:"shared"`
		SharedKinds []string `json:"sharedKinds"`
		Fresh       int      `json:"fresh"`
		Isolated    bool     `json:"isolated"`
		Bad         string   `json:"bad"`
	}
	if json.Unmarshal(real, &r) != nil || r.Bad != "" {
		return core.Disagree("malformed real outcome: " + string(real))
	}
	var d struct {
		Equal  bool `json:"equal"`
		Shared int  `json:"shared"`
		Fresh  int  `json:"fresh"`
	}
	if json.Unmarshal(drv, &d) != nil {
		return core.Disagree("malformed driver outcome: " + string(drv))
	}
	if !d.Equal || d.Shared != 0 {
		return core.Disagree("the model's clone is not an independent equal copy: " + string(drv))
	}
	if !r.Equal {
		return core.Fail("clone-changes-value", "deepClone returned a value different from its argument")
	}
	if len(r.Shared) > 0 {
		kind := "map"
		if len(r.SharedKinds) > 0 {
			kind = r.SharedKinds[0]
			for _, k := range r.SharedKinds[1:] {
				kind += "+" + k
			}
		}
		n := len(r.Shared)
		if n > 4 {
			r.Shared = r.Shared[:4]
		}
		return core.Fail("clone-shares-structure:"+kind, fmt.Sprintf("deepClone shares %d container(s) with its argument: %v", n, r.Shared))
	}
	if !r.Isolated {
		return core.Fail("clone-write-reaches-base", "writing through the clone changed the argument")
	}
	if r.Fresh != d.Fresh {
		return core.Disagree(fmt.Sprintf("fresh containers: real %d, model %d", r.Fresh, d.Fresh))
	}
	return nil
}

func init() {
	core.Register("c05.clone", &core.CheckDef{
		Real:     realC05Clone,
		DriverOp: "c05.clone",
		Judge:    judgeC05Clone,
	})
}

// genClone: exhaustive small shapes, service-shaped trees of the other streams, random deep trees; every tree with
// spare capacity 0..3 behind its sequences.
func genClone(ctx *core.Ctx) {
	add := func(kind string, v any, spare int) {
		ctx.Count(fmt.Sprintf("clone-%s-spare%d", kind, spare))
		ctx.Add("c05.clone", c05CloneArgs{V: core.EncodeVal(v), Spare: spare})
	}
	// 1. exhaustive: every tree of depth ≤ 2 over {scalar, sequence, mapping} with ≤ 2 children per container
	leaves := []func() any{func() any { return "s" }, func() any { return []any{} }, func() any { return map[string]any{} }}
	var shapes func(d int) []func() any
	shapes = func(d int) []func() any {
		if d == 0 {
			return leaves
		}
		sub := shapes(d - 1)
		out := append([]func() any{}, leaves...)
		for _, a := range sub {
			a := a
			out = append(out, func() any { return []any{a()} }, func() any { return map[string]any{"k": a()} })
			for _, b := range sub {
				b := b
				out = append(out, func() any { return []any{a(), b()} }, func() any { return map[string]any{"k": a(), "l": b()} },
					func() any { return map[string]any{"k": []any{a()}, "l": b()} })
			}
		}
		return out
	}
	for i, mk := range shapes(2) {
		add("exhaustive", mk(), i%2)
	}
	// 2. services as the other streams generate them (plain and rule attributes), in a services mapping
	for i := 0; i < ctx.Pick(300, 5000); i++ {
		r := ctx.Rng
		svcs := map[string]any{}
		for _, nm := range []string{"a", "b", "c"}[:1+r.Intn(3)] {
			at := plainAttrs(r, nm)
			for k, v := range ruleAttrs(r, nm) {
				at[k] = v
			}
			svcs[nm] = at
		}
		add("services", svcs, r.Intn(4))
	}
	// 3. random deep trees
	var tree func(r *rand.Rand, d int) any
	tree = func(r *rand.Rand, d int) any {
		switch k := r.Intn(10); {
		case k < 3 || d == 0:
			return []any{"s", "", 1, 2.5, true, nil}[r.Intn(6)]
		case k < 6:
			n := r.Intn(4)
			l := make([]any, 0, n)
			for i := 0; i < n; i++ {
				l = append(l, tree(r, d-1))
			}
			return l
		default:
			n := r.Intn(4)
			m := map[string]any{}
			for i := 0; i < n; i++ {
				m[[]string{"a", "b", "c", "d", "e"}[r.Intn(5)]] = tree(r, d-1)
			}
			return m
		}
	}
	for i := 0; i < ctx.Pick(400, 20000); i++ {
		d := 1 + ctx.Rng.Intn(6)
		v := tree(ctx.Rng, d)
		ctx.Count(fmt.Sprintf("clone-depth%d", d))
		add("random", v, ctx.Rng.Intn(4))
	}
}
