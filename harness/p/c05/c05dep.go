package c05

// c05.dep — oracle on the real loader with an expectation that does not go through override.ExtendService:
// a base whose `depends_on` is a short list of ≥ 2 services, an extending service (or a later link of the chain) that
// overrides ONE of them in the long form; the dependencies that were not overridden must keep the defaults
// (condition service_started, required true, no restart) and the overridden one must carry exactly the override.
// (Seeded change C05-4: convertIntoMapping handed every key of the short list the same default mapping, so overriding
// `db` also changed `cache` — invisible to the hand-flattening oracle, which folds the same ExtendService.)
// The same trees also go through c05.apply, where the flatten specification (Lean, C04 merge model) decides them.

import (
	"encoding/json"
	"fmt"
	"sort"
	"strings"
	"time"

	"verifharness/core"
)

type c05DepWant struct {
	Condition string `json:"condition"`
	Required  bool   `json:"required"`
	Restart   bool   `json:"restart"`
}

type c05DepArgs struct {
	c05Tree
	Service string                `json:"service"`
	Want    map[string]c05DepWant `json:"want"`
	Shape   string                `json:"shape"`
}

func realC05Dep(raw json.RawMessage) any {
	var a c05DepArgs
	if err := json.Unmarshal(raw, &a); err != nil {
		return map[string]any{"bad": err.Error()}
	}
	out, cls := c05Load(a.render(), a.Main, a.WD)
	if cls != "ok" {
		return map[string]any{"class": cls, "err": out["err"]}
	}
	svc, _ := servicesOf(out)[a.Service].(map[string]any)
	return map[string]any{"class": cls, "depends_on": svc["depends_on"]}
}

func judgeC05Dep(args, real, drv json.RawMessage) *core.Verdict {
	if v := core.CrashVerdict(real); v != nil {
		return v
	}
	var a c05DepArgs
	json.Unmarshal(args, &a)
	var r struct {
		Class string                    `json:"class"`
		Err   string                    `json:"err"`
		Deps  map[string]map[string]any `json:"depends_on"`
	}
	if json.Unmarshal(real, &r) != nil || r.Class == "" {
		return core.Disagree("malformed c05.dep outcome: " + string(real))
	}
	if r.Class != "ok" {
		return core.Fail("acyclic-rejected:"+strings.TrimPrefix(r.Class, "err:")+":dep", "a valid extends chain with depends_on is rejected: "+r.Err)
	}
	var bad []string
	for name, w := range a.Want {
		g, ok := r.Deps[name]
		if !ok {
			bad = append(bad, name+":missing")
			continue
		}
		cond, _ := g["condition"].(string)
		req, _ := g["required"].(bool)
		rst, _ := g["restart"].(bool)
		if cond != w.Condition || req != w.Required || rst != w.Restart {
			bad = append(bad, fmt.Sprintf("%s:{%s,%v,%v}≠{%s,%v,%v}", name, cond, req, rst, w.Condition, w.Required, w.Restart))
		}
	}
	for name := range r.Deps {
		if _, ok := a.Want[name]; !ok {
			bad = append(bad, name+":unexpected")
		}
	}
	if len(bad) == 0 {
		return nil
	}
	sort.Strings(bad)
	return core.Fail("depends_on-sibling-changed:"+a.Shape, "overriding one dependency of an inherited short-form depends_on list changed another: "+strings.Join(bad, "; "))
}

func init() {
	core.Register("c05.dep", &core.CheckDef{Real: realC05Dep, Judge: judgeC05Dep, Timeout: 30 * time.Second})
}

// genDeps: base in the same file (raw short list) or in another file (canonical by the time it is merged); the override
// in the extending service or one link later; each of condition / required / restart; 2 or 3 dependencies.
func genDeps(ctx *core.Ctx) {
	def := c05DepWant{Condition: "service_started", Required: true}
	overrides := []struct {
		name string
		val  map[string]any
		want c05DepWant
	}{
		{"condition", map[string]any{"condition": "service_healthy"}, c05DepWant{"service_healthy", true, false}},
		{"required", map[string]any{"condition": "service_started", "required": false}, c05DepWant{"service_started", false, false}},
		{"restart", map[string]any{"condition": "service_started", "restart": true}, c05DepWant{"service_started", true, true}},
		{"completed", map[string]any{"condition": "service_completed_successfully"}, c05DepWant{"service_completed_successfully", true, false}},
	}
	for _, baseFile := range []string{c05Main, "proj/o.yaml", "proj/sub/p.yaml"} {
		for ndeps := 2; ndeps <= 3; ndeps++ {
			for which := 0; which < ndeps; which++ {
				for _, ov := range overrides {
					for link := 0; link < 2; link++ { // 0: the extending service overrides; 1: a service extending that one does
						deps := []any{}
						var names []string
						for i := 0; i < ndeps; i++ {
							names = append(names, fmt.Sprintf("d%d", i))
							deps = append(deps, names[i])
						}
						base := c05Node{File: baseFile, Name: "base", Attrs: map[string]any{"image": "img-base", "depends_on": deps}}
						mid := c05Node{File: c05Main, Name: "mid", Attrs: map[string]any{"hostname": "mid"}}
						if baseFile == c05Main {
							mid.Kind, mid.Ref = 1, "base"
						} else {
							mid.Kind, mid.Ref, mid.RefFile = 3, "base", baseFile
						}
						top := c05Node{File: c05Main, Name: "top", Attrs: map[string]any{"hostname": "top"}, Kind: 1, Ref: "mid"}
						over := map[string]any{names[which]: ov.val}
						target := "mid"
						if link == 0 {
							mid.Attrs["depends_on"] = over
						} else {
							top.Attrs["depends_on"] = over
							target = "top"
						}
						nodes := []c05Node{base, mid, top}
						for _, n := range names {
							nodes = append(nodes, c05Node{File: c05Main, Name: n, Attrs: map[string]any{"image": "img-" + n, "healthcheck": map[string]any{"test": []any{"CMD", "true"}}}})
						}
						t, main := buildTree(nodes)
						want := map[string]c05DepWant{}
						for i, n := range names {
							if i == which {
								want[n] = ov.want
							} else {
								want[n] = def
							}
						}
						shape := fmt.Sprintf("%s/%d-deps/%s/link%d", map[string]string{c05Main: "same-file", "proj/o.yaml": "other-file", "proj/sub/p.yaml": "other-dir"}[baseFile], ndeps, ov.name, link)
						ctx.Count("dep-override")
						ctx.Add("c05.dep", c05DepArgs{c05Tree: t, Service: target, Want: want, Shape: shape})
						ctx.Add("c05.apply", c05ApplyArgs{c05Tree: t, Dict: core.EncodeVal(main)})
					}
				}
			}
		}
	}
	// the same aliasing hazard for `networks` (short list → mapping with nil entries) and a sibling pair
	for _, baseFile := range []string{c05Main, "proj/o.yaml"} {
		base := c05Node{File: baseFile, Name: "base", Attrs: map[string]any{"image": "img-base", "networks": []any{"n1", "n2"}, "depends_on": []any{"d0", "d1"}}}
		a := c05Node{File: c05Main, Name: "a", Attrs: map[string]any{"networks": map[string]any{"n1": map[string]any{"aliases": []any{"al-a"}}}, "depends_on": map[string]any{"d0": map[string]any{"condition": "service_healthy"}}}}
		b := c05Node{File: c05Main, Name: "b", Attrs: map[string]any{"networks": map[string]any{"n2": map[string]any{"aliases": []any{"al-b"}}}, "depends_on": map[string]any{"d1": map[string]any{"condition": "service_healthy"}}}}
		for _, n := range []*c05Node{&a, &b} {
			if baseFile == c05Main {
				n.Kind, n.Ref = 1, "base"
			} else {
				n.Kind, n.Ref, n.RefFile = 3, "base", baseFile
			}
		}
		nodes := []c05Node{base, a, b}
		for _, n := range []string{"d0", "d1"} {
			nodes = append(nodes, c05Node{File: c05Main, Name: n, Attrs: map[string]any{"image": "img-" + n}})
		}
		t, main := buildTree(nodes)
		ctx.Count("dep-siblings")
		ctx.Add("c05.apply", c05ApplyArgs{c05Tree: t, Dict: core.EncodeVal(main)})
		ctx.Add("c05.order", c05ApplyArgs{c05Tree: t, Dict: core.EncodeVal(main)})
	}
}
