package c05

// c05.base — correspondence for the file-system parameter of the extends model: the real getExtendsBaseFromFile on a
// base file that is already in canonical (long-syntax) form vs `anchoredFile` = the C12 model of
// paths.ResolveRelativePaths applied with the base file's own directory (relative to the project directory).

import (
	"encoding/json"
	"fmt"
	"os"
	"path/filepath"
	"strings"
	"time"

	"github.com/compose-spec/compose-go/v2/loader"

	"verifharness/core"
)

type c05BaseArgs struct {
	c05Tree
	File string `json:"file"` // tree-relative path of the base file
	Ref  string `json:"ref"`  // service asked for
	Doc  core.T `json:"doc"`  // the base file's document (also in Trees[File])
}

func realC05Base(raw json.RawMessage) any {
	var a c05BaseArgs
	if err := json.Unmarshal(raw, &a); err != nil {
		return map[string]any{"bad": err.Error()}
	}
	root, ctx, opts, mainAbs, err := c05Env(a.c05Tree)
	defer os.RemoveAll(root)
	if err != nil {
		return map[string]any{"bad": err.Error()}
	}
	refPath, err := filepath.Rel(a.WD, a.File)
	if err != nil {
		return map[string]any{"bad": err.Error()}
	}
	out := core.SafeCall(func() any {
		svcs, err := loader.VerifGetExtendsBaseFromFile(ctx, "x", a.Ref, mainAbs, refPath, opts)
		if err != nil {
			return map[string]any{"err": c05ErrClass(err)}
		}
		return map[string]any{"ok": core.EncodeVal(svcs)}
	})
	if m, ok := out.(map[string]any); ok {
		if site, p := m["panic"].(string); p {
			// the model names the resolver only
			m["panic"] = strings.TrimPrefix(site, "paths.(*relativePathsResolver).")
		}
	}
	return out
}

func init() {
	core.Register("c05.base", &core.CheckDef{
		Real:     realC05Base,
		DriverOp: "c05.base",
		DriverArgs: func(args, real json.RawMessage) any {
			var a c05BaseArgs
			json.Unmarshal(args, &a)
			rel, _ := filepath.Rel(a.WD, filepath.Dir(a.File))
			return map[string]any{"doc": a.Doc, "reldir": rel, "ref": a.Ref}
		},
		Judge: func(args, real, drv json.RawMessage) *core.Verdict {
			if c := core.Class(real); c == "fatal" || c == "hang" {
				return core.CrashVerdict(real)
			}
			var r, d struct {
				Panic *string `json:"panic"`
			}
			json.Unmarshal(real, &r)
			json.Unmarshal(drv, &d)
			if r.Panic != nil && d.Panic != nil && *r.Panic == *d.Panic {
				return nil
			}
			if !core.CanonEqual(real, drv) {
				return core.Disagree("getExtendsBaseFromFile ≠ baseFromFile over anchoredFile (Paths.resolve at the base file's directory)")
			}
			return nil
		},
		Timeout: 20 * time.Second,
	})
}

// genBase: base files in canonical form, in every directory of the layout, with every path-bearing attribute.
func genBase(ctx *core.Ctx) {
	r := ctx.Rng
	paths := []string{"./x", "x", "../up/x", "sub/../y", "./", ".", "/abs/p", "", "a/b/c", "./a/./b", "../../far"}
	pick := func() string { return paths[r.Intn(len(paths))] }
	for i := 0; i < ctx.Pick(1500, 40000); i++ {
		file := c05Files[1+r.Intn(len(c05Files)-1)]
		if r.Intn(6) == 0 {
			file = c05Main
		}
		// at most one way for ResolveRelativePaths to fail per document (which of several failures is reported
		// depends on Go's map order inside the resolver — C12 enumerates those)
		failKind := r.Intn(12)
		svc := func(tag string) map[string]any {
			m := map[string]any{"image": "img-" + tag}
			if r.Intn(2) == 0 {
				b := map[string]any{"context": pick()}
				if r.Intn(3) == 0 {
					b["additional_contexts"] = map[string]any{"c1": pick(), "c2": "docker-image://x"}
				}
				if r.Intn(3) == 0 {
					b["dockerfile"] = "Dockerfile." + tag
				}
				m["build"] = b
			}
			if r.Intn(2) == 0 {
				m["env_file"] = []any{map[string]any{"path": pick(), "required": r.Intn(2) == 0}}
			}
			if r.Intn(3) == 0 {
				m["label_file"] = []any{pick()}
			}
			if r.Intn(2) == 0 {
				vols := []any{map[string]any{"type": "bind", "source": pick(), "target": "/t-" + tag}}
				if r.Intn(2) == 0 {
					vols = append(vols, map[string]any{"type": "volume", "source": "named", "target": "/n"})
				}
				if failKind == 0 {
					failKind = -1
					vols = append(vols, map[string]any{"type": "bind", "target": "/nosource"})
				}
				m["volumes"] = vols
			}
			if r.Intn(3) == 0 {
				m["develop"] = map[string]any{"watch": []any{map[string]any{"action": "rebuild", "path": pick()}}}
			}
			if r.Intn(2) == 0 {
				e := map[string]any{"service": []string{"a", "b", "zz"}[r.Intn(3)]}
				if r.Intn(4) > 0 {
					e["file"] = []string{"o.yaml", "./o.yaml", "../shared/q.yaml", "sub/p.yaml", "/abs/f.yaml", ""}[r.Intn(6)]
				}
				if failKind == 1 {
					failKind = -1
					e["file"] = []any{1, true, []any{"x"}}[r.Intn(3)]
				}
				m["extends"] = e
			}
			if r.Intn(4) == 0 {
				m["command"] = []any{"run", tag}
			}
			return m
		}
		svcs := map[string]any{"a": svc("a")}
		if r.Intn(2) == 0 {
			svcs["b"] = svc("b")
		}
		doc := map[string]any{"services": svcs}
		switch r.Intn(20) {
		case 0:
			doc = map[string]any{"x-other": 1}
		case 1:
			doc["services"] = []any{"a"}
		case 2:
			doc["volumes"] = map[string]any{"v": map[string]any{"driver": "local", "driver_opts": map[string]any{"o": "bind", "device": pick()}}}
		case 3:
			doc["configs"] = map[string]any{"c": map[string]any{"file": pick()}}
		}
		t := c05Tree{Main: c05Main, WD: c05WD, Trees: map[string]core.T{file: core.EncodeVal(doc)}}
		if file != c05Main {
			t.Trees[c05Main] = core.EncodeVal(map[string]any{"services": map[string]any{}})
		}
		ctx.Count(fmt.Sprintf("base-%s", filepath.Dir(file)))
		ctx.Add("c05.base", c05BaseArgs{c05Tree: t, File: file, Ref: []string{"a", "b", "a", "zz"}[r.Intn(4)], Doc: core.EncodeVal(doc)})
	}
}
