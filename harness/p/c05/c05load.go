package c05

// Round 6 — the nested load of getExtendsBaseFromFile inside the model (Model/ExtendsLoad.lean).
//
//	c05.load    correspondence: the real getExtendsBaseFromFile on a RAW base file (short syntax, ${VAR} references, nulls and
//	            empties, every directory of the layout) vs `baseFromFile` over `loadFile` = the composed per-document
//	            pipeline (`Pipeline.processDoc` under the cloned options: no extends, no validation, no defaults, no path
//	            resolution) followed by C12's `Paths.resolve` at the file's own directory.
//	c05.applyv  correspondence over a small VIRTUAL FILE SYSTEM: the real ApplyExtends on a temp tree of raw files vs
//	            `applyExtendsOrd (loadedEnv cfg vfs)` — the model is handed the raw documents of the files (reference
//	            string ↦ directory, document), never an outcome of the real loader; same judge (spec / cycle / stuck
//	            oracles, all visit orders) as c05.apply.

import (
	"context"
	"encoding/json"
	"fmt"
	"math/rand"
	"os"
	"path/filepath"
	"sort"
	"strconv"
	"strings"
	"time"

	"github.com/compose-spec/compose-go/v2/consts"
	"github.com/compose-spec/compose-go/v2/loader"
	"github.com/compose-spec/compose-go/v2/template"
	"github.com/compose-spec/compose-go/v2/types"

	"verifharness/core"
)

// ---- the opaque float reader of the interpolation model (same rendering as harness/p/pipeline and the C08 harness)

type c05RawTables struct{ P64, P32, I64, I32 map[string]string }

func newC05RawTables() *c05RawTables {
	return &c05RawTables{P64: map[string]string{}, P32: map[string]string{}, I64: map[string]string{}, I32: map[string]string{}}
}

func (t *c05RawTables) addInt(dec string, f float64) {
	t.I64[dec] = strconv.FormatFloat(f, 'g', -1, 64)
	t.I32[dec] = strconv.FormatFloat(float64(float32(f)), 'g', -1, 32)
}

func (t *c05RawTables) add(s string) {
	plain := strings.ReplaceAll(s, "_", "")
	for _, x := range []string{s, plain} {
		if f, err := strconv.ParseFloat(x, 64); err == nil {
			t.P64[x] = strconv.FormatFloat(f, 'g', -1, 64)
		}
		if f, err := strconv.ParseFloat(x, 32); err == nil {
			t.P32[x] = strconv.FormatFloat(float64(float32(f)), 'g', -1, 32)
		}
	}
	for _, base := range []int{0, 2, 8, 10} {
		if i, err := strconv.ParseInt(plain, base, 64); err == nil {
			t.addInt(strconv.FormatInt(i, 10), float64(i))
		}
	}
	if u, err := strconv.ParseUint(plain, 0, 64); err == nil {
		t.addInt(strconv.FormatUint(u, 10), float64(u))
	}
}

func (t *c05RawTables) walk(v any, lookup template.Mapping) {
	switch x := v.(type) {
	case string:
		if s, err := template.Substitute(x, lookup); err == nil {
			t.add(s)
		}
	case map[string]any:
		for _, e := range x {
			t.walk(e, lookup)
		}
	case []any:
		for _, e := range x {
			t.walk(e, lookup)
		}
	}
}

func (t *c05RawTables) into(out map[string]any) {
	out["p64"], out["p32"], out["i64"], out["i32"] = t.P64, t.P32, t.I64, t.I32
}

// c05Home is $HOME of the real runs of these streams (`~/…` paths of a base file expand against it).
const c05Home = "/home/c05user"

// c05EnvWith is c05Env with a project environment and the interpolation switch.
func c05EnvWith(t c05Tree, env map[string]string, skipInterp bool) (root string, ctx context.Context, opts *loader.Options, mainAbs string, err error) {
	os.Setenv("HOME", c05Home)
	root, err = c05Materialize(t.render())
	if err != nil {
		return
	}
	mainAbs = filepath.Join(root, t.Main)
	e := map[string]string{}
	for k, v := range env {
		e[k] = v
	}
	details := types.ConfigDetails{WorkingDir: filepath.Join(root, t.WD), ConfigFiles: []types.ConfigFile{{Filename: mainAbs}}, Environment: e}
	opts = loader.VerifToOptions(&details, []func(*loader.Options){func(o *loader.Options) { o.SkipInterpolation = skipInterp }})
	ctx = context.WithValue(context.Background(), consts.ComposeFileKey{}, mainAbs)
	return
}

// c05CfgArgs: the configuration fields `CV.Ops.Pipeline.cfgOf` reads (the options are those of the OUTER load; the
// model derives the cloned option block of the nested load itself: `nestedOpts`).
func c05CfgArgs(out map[string]any, env map[string]string, skipInterp bool, main string, docs []core.T) {
	lookup := func(k string) (string, bool) { v, ok := env[k]; return v, ok }
	rt := newC05RawTables()
	for _, d := range docs {
		rt.walk(core.DecodeVal(d), lookup)
	}
	rt.into(out)
	if env == nil {
		env = map[string]string{}
	}
	out["env"] = env
	out["omit"] = loader.VerifOmitEmptyPatterns()
	out["opts"] = map[string]any{"skipInterpolation": skipInterp, "resolvePaths": true, "extends": true}
	out["wd"], out["home"], out["remotes"], out["name"], out["mainFile"] = "", c05Home, []string{}, "p", main
}

// ---------------------------------------------------------------- c05.load

type c05LoadArgs struct {
	c05Tree
	File       string            `json:"file"`
	Ref        string            `json:"ref"`
	Doc        core.T            `json:"doc"`
	Env        map[string]string `json:"env"`
	SkipInterp bool              `json:"skipInterp"`
}

func realC05Load(raw json.RawMessage) any {
	var a c05LoadArgs
	if err := json.Unmarshal(raw, &a); err != nil {
		return map[string]any{"bad": err.Error()}
	}
	root, ctx, opts, mainAbs, err := c05EnvWith(a.c05Tree, a.Env, a.SkipInterp)
	defer os.RemoveAll(root)
	if err != nil {
		return map[string]any{"bad": err.Error()}
	}
	refPath, err := filepath.Rel(a.WD, a.File)
	if err != nil {
		return map[string]any{"bad": err.Error()}
	}
	out := core.SafeCall(func() any {
		svcs, err := loader.VerifGetExtendsBaseFromFile(ctx, "x", a.Ref, mainAbs, refPath, opts)
		if err != nil {
			return map[string]any{"err": c05ErrClass(err), "text": err.Error()}
		}
		return map[string]any{"ok": core.EncodeVal(svcs)}
	})
	if m, ok := out.(map[string]any); ok {
		if site, p := m["panic"].(string); p {
			m["panic"] = strings.TrimPrefix(site, "paths.(*relativePathsResolver).")
		}
	}
	return map[string]any{"out": out}
}

func judgeC05Load(args, real, drv json.RawMessage) *core.Verdict {
	if c := core.Class(real); c == "fatal" || c == "hang" {
		return core.CrashVerdict(real)
	}
	var r struct {
		Out json.RawMessage `json:"out"`
	}
	if json.Unmarshal(real, &r) != nil || r.Out == nil {
		return core.Skip("bad case: " + string(real))
	}
	var ro, d struct {
		Ok    json.RawMessage `json:"ok"`
		Err   *string         `json:"err"`
		Panic *string         `json:"panic"`
		Text  string          `json:"text"`
		Stage string          `json:"stage"`
	}
	json.Unmarshal(r.Out, &ro)
	if json.Unmarshal(drv, &d) != nil {
		return core.Disagree("malformed driver outcome: " + string(drv))
	}
	c05Stat("load/nested-stage/" + d.Stage)
	switch {
	case ro.Panic != nil && d.Panic != nil:
		c05Stat("load/outcome/panic")
		if *ro.Panic != *d.Panic {
			return core.Disagree("both panic, at different sites: real " + *ro.Panic + ", model " + *d.Panic)
		}
		return nil
	case ro.Panic != nil:
		return core.Disagree("real getExtendsBaseFromFile panics at " + *ro.Panic + ", model: " + string(drv))
	case d.Panic != nil:
		return core.Disagree("model predicts a panic at " + *d.Panic + ", real: " + string(r.Out))
	case ro.Err != nil && d.Err != nil:
		c05Stat("load/outcome/err:" + *d.Err)
		if *ro.Err != *d.Err {
			return core.Disagree(fmt.Sprintf("both fail, different classes: real %s (%s), model %s (nested load: %s)", *ro.Err, ro.Text, *d.Err, d.Stage))
		}
		return nil
	case ro.Err != nil:
		return core.Disagree(fmt.Sprintf("real fails (%s: %s), model loads", *ro.Err, ro.Text))
	case d.Err != nil:
		return core.Disagree(fmt.Sprintf("model fails (%s, nested load: %s), real loads", *d.Err, d.Stage))
	}
	c05Stat("load/outcome/ok")
	a, _ := json.Marshal(map[string]any{"ok": ro.Ok})
	b, _ := json.Marshal(map[string]any{"ok": d.Ok})
	if !core.CanonEqual(a, b) {
		return core.Disagree("getExtendsBaseFromFile on a raw file ≠ baseFromFile over loadFile (processDoc under nestedOpts, then Paths.resolve at the file's directory)")
	}
	return nil
}

// ---------------------------------------------------------------- c05.applyv

type c05ApplyVArgs struct {
	c05ApplyArgs
	Env        map[string]string `json:"env"`
	SkipInterp bool              `json:"skipInterp"`
}

func realC05ApplyV(raw json.RawMessage) any {
	var a c05ApplyVArgs
	if err := json.Unmarshal(raw, &a); err != nil {
		return map[string]any{"bad": err.Error()}
	}
	root, ctx, opts, mainAbs, err := c05EnvWith(a.c05Tree, a.Env, a.SkipInterp)
	defer os.RemoveAll(root)
	if err != nil {
		return map[string]any{"bad": err.Error()}
	}
	dict, _ := core.DecodeVal(a.Dict).(map[string]any)
	var shared []string
	out := core.SafeCall(func() any {
		err := loader.VerifApplyExtends(ctx, dict, opts)
		if err == nil {
			shared = sharedStructure(dict["services"])
		}
		return c05Outcome(dict, err)
	})
	return map[string]any{"out": out, "fs": []any{}, "main": mainAbs, "shared": shared}
}

// c05VFS lists, for every reference string reachable from the main document, the file it names — computed from the
// generated tree alone (no real code): a reference r written in the main file names WD/r; after the nested load, a
// reference r' written in a file of directory D (relative to WD) reads Join(D, r') (`absExtendsPath`).
func c05VFS(t c05Tree, dict map[string]any) ([]any, []core.T) {
	todo := map[string]bool{}
	extendsFiles(dict["services"], todo)
	done := map[string]bool{}
	var table []any
	var docs []core.T
	for len(todo) > 0 {
		var refs []string
		for r := range todo {
			refs = append(refs, r)
		}
		sort.Strings(refs)
		todo = map[string]bool{}
		for _, ref := range refs {
			if done[ref] {
				continue
			}
			done[ref] = true
			file := filepath.Join(t.WD, ref)
			tr, ok := t.Trees[file]
			if !ok {
				continue // no such file: the model's `noFile`
			}
			reldir, err := filepath.Rel(t.WD, filepath.Dir(file))
			if err != nil {
				continue
			}
			table = append(table, []any{ref, map[string]any{"reldir": reldir, "doc": tr}})
			docs = append(docs, tr)
			doc, _ := core.DecodeVal(tr).(map[string]any)
			found := map[string]bool{}
			extendsFiles(doc["services"], found)
			for f := range found {
				if !filepath.IsAbs(f) {
					f = filepath.Join(reldir, f)
				}
				todo[f] = true
			}
		}
	}
	return table, docs
}

func init() {
	core.Register("c05.load", &core.CheckDef{
		Real:     realC05Load,
		DriverOp: "c05.load",
		DriverArgs: func(args, real json.RawMessage) any {
			var a c05LoadArgs
			json.Unmarshal(args, &a)
			rel, _ := filepath.Rel(a.WD, filepath.Dir(a.File))
			out := map[string]any{"doc": a.Doc, "reldir": rel, "ref": a.Ref}
			c05CfgArgs(out, a.Env, a.SkipInterp, a.Main, []core.T{a.Doc})
			return out
		},
		Judge:   judgeC05Load,
		Timeout: 20 * time.Second,
	})
	core.Register("c05.applyv", &core.CheckDef{
		Real:     realC05ApplyV,
		DriverOp: "c05.apply",
		DriverArgs: func(args, real json.RawMessage) any {
			var a c05ApplyVArgs
			json.Unmarshal(args, &a)
			var r c05ApplyReal
			json.Unmarshal(real, &r)
			dict, _ := core.DecodeVal(a.Dict).(map[string]any)
			vfs, docs := c05VFS(a.c05Tree, dict)
			if vfs == nil {
				vfs = []any{}
			}
			out := map[string]any{"main": r.Main, "dict": a.Dict, "vfs": vfs}
			c05CfgArgs(out, a.Env, a.SkipInterp, r.Main, docs)
			out["main"] = r.Main
			return out
		},
		Judge: func(args, real, drv json.RawMessage) *core.Verdict {
			v := judgeC05Apply(args, real, drv)
			if v == nil {
				c05Stat("applyv/agree")
			}
			// the branches of the model this stream reaches on its own (the judge's own statistics are shared with c05.apply)
			var r c05ApplyReal
			if json.Unmarshal(real, &r) == nil && r.Out != nil {
				c05Stat("applyv/real-outcome/" + c05OutClass(r.Out))
			}
			var d struct {
				Walk [][2]string `json:"walk"`
			}
			if json.Unmarshal(drv, &d) == nil {
				for _, w := range d.Walk {
					c05Stat("applyv/walk/" + w[1])
				}
			}
			return v
		},
		Timeout: 20 * time.Second,
	})
}

// ---------------------------------------------------------------- generators

// rawService: a service the way people write it — short syntaxes the nested load must bring into canonical form,
// ${VAR} references the nested load must interpolate, relative paths it must anchor at the file's directory.
func rawService(r *rand.Rand, tag string, broken *bool) map[string]any {
	pick := func(p float64) bool { return r.Float64() < p }
	alt := func(vs ...any) any { return vs[r.Intn(len(vs))] }
	paths := []string{"./x", "x", "../up/x", "sub/../y", ".", "/abs/p", "a/b", "./a/./b", "${DIR}", "${DIR:-dflt}/z"}
	path := func() string { return paths[r.Intn(len(paths))] }
	m := map[string]any{}
	if pick(0.7) {
		m["image"] = alt("img-"+tag, "${IMG}", "repo/${IMG:-fallback}:${TAG-latest}", "$$literal-"+tag)
	}
	if pick(0.4) {
		m["build"] = alt(path(), map[string]any{"context": path()}, map[string]any{"context": path(), "dockerfile": "Dockerfile." + tag, "args": alt([]any{"A=" + tag, "B"}, map[string]any{"A": "${IMG}", "N": 1})},
			map[string]any{"context": path(), "additional_contexts": alt([]any{"c1=" + path()}, map[string]any{"c1": path(), "c2": "docker-image://x"})},
			map[string]any{"context": path(), "ssh": alt([]any{"default", "k=" + path()}, map[string]any{"k": path()})})
	}
	if pick(0.4) {
		m["env_file"] = alt(path(), []any{path(), "./second.env"}, []any{map[string]any{"path": path(), "required": false}}, []any{map[string]any{"path": path()}, "./e.env"})
	}
	if pick(0.25) {
		m["label_file"] = alt(path(), []any{path()})
	}
	if pick(0.45) {
		m["volumes"] = alt([]any{path() + ":/data"}, []any{"named:/n:ro", "./rel-" + tag + ":/r"}, []any{"/anon"},
			[]any{map[string]any{"type": "bind", "source": path(), "target": "/t"}}, []any{"~/h:/home", "${DIR:-./d}:/d:rw"},
			[]any{map[string]any{"type": "volume", "source": "named", "target": "/n"}, path() + ":/p"})
	}
	if pick(0.35) {
		m["environment"] = alt([]any{"K=" + tag, "FROM_ENV=${IMG}", "BARE"}, map[string]any{"K": tag, "N": 1, "B": true, "E": nil, "V": "${TAG:-t}"}, []any{})
	}
	if pick(0.3) {
		m["ports"] = alt([]any{"80"}, []any{"8080:80", "127.0.0.1:9000-9001:9000-9001/udp"}, []any{map[string]any{"target": 80, "published": "${PORT:-8080}"}}, []any{"${PORT:-81}:81"})
	}
	if pick(0.3) {
		m["depends_on"] = alt([]any{"a", "b"}, map[string]any{"a": map[string]any{"condition": "service_healthy"}}, []any{})
	}
	if pick(0.3) {
		m["networks"] = alt([]any{"n1", "n2"}, map[string]any{"n1": nil, "n2": map[string]any{"aliases": []any{"al-" + tag}}})
	}
	if pick(0.25) {
		m["command"] = alt("run ${IMG} --flag", []any{"run", tag}, nil, "")
	}
	if pick(0.2) {
		m["entrypoint"] = alt("/ep "+tag, []any{"/ep"})
	}
	if pick(0.25) {
		m["labels"] = alt([]any{"l=" + tag, "bare"}, map[string]any{"l": tag, "n": 2, "e": nil})
	}
	if pick(0.2) {
		m["extra_hosts"] = alt([]any{"h:10.0.0.1", "g=10.0.0.2"}, map[string]any{"h": "10.0.0.1", "g": []any{"10.0.0.2", "::1"}})
	}
	if pick(0.2) {
		m["deploy"] = map[string]any{"replicas": alt(2, "${REPL:-3}"), "resources": map[string]any{"limits": map[string]any{"cpus": alt("0.5", 1.5, "${CPUS:-0.25}"), "memory": "64m"}}}
	}
	if pick(0.2) {
		m["healthcheck"] = map[string]any{"test": alt("exit 0", []any{"CMD", "true"}), "retries": alt(3, "${RETRIES:-2}"), "interval": "5s"}
	}
	if pick(0.2) {
		m["develop"] = map[string]any{"watch": []any{map[string]any{"action": "sync", "path": path(), "target": "/w", "ignore": alt([]any{"x/"}, nil)}}}
	}
	if pick(0.15) {
		m["secrets"] = alt([]any{"s1"}, []any{map[string]any{"source": "s1", "target": "/run/s"}})
		m["configs"] = alt([]any{"c1"}, []any{map[string]any{"source": "c1", "mode": 288}})
	}
	if pick(0.15) {
		m["ulimits"] = alt(map[string]any{"nofile": 100}, map[string]any{"nofile": map[string]any{"soft": 1, "hard": "${HARD:-2}"}})
	}
	if pick(0.15) {
		m["tmpfs"] = alt("/t-"+tag, []any{"/t", "/u"})
		m["dns"] = alt("10.0.0.1", []any{"10.0.0.2"})
	}
	if pick(0.15) {
		m["cpu_count"] = alt(2, "${CPU_COUNT:-4}", "0x10")
		m["mem_limit"] = alt("64m", 1024)
		m["privileged"] = alt(true, "${PRIV:-false}")
	}
	if pick(0.12) {
		// empties and nulls: OmitEmpty / fixEmptyNotNull territory
		m["cap_add"] = alt([]any{}, nil, []any{"NET_ADMIN"})
		m["logging"] = alt(map[string]any{}, map[string]any{"driver": "json-file", "options": map[string]any{}})
	}
	if pick(0.1) {
		m["x-ext"] = alt(map[string]any{"k": "${IMG}"}, "v", []any{1, "${TAG}"})
	}
	if !*broken && pick(0.05) {
		// one way per document for the nested load (or the later path resolution) to fail
		*broken = true
		switch r.Intn(5) {
		case 0:
			m["image"] = "${UNCLOSED"
		case 1:
			m["image"] = "${REQUIRED:?must be set}"
		case 2:
			m["ports"] = []any{"not-a-port:xx:yy:zz"}
		case 3:
			m["volumes"] = []any{map[string]any{"type": "bind", "target": "/nosource"}}
		case 4:
			m["cpu_count"] = "${NOTINT:-abc}"
		}
	}
	return m
}

var c05LoadEnvs = []map[string]string{
	{},
	{"IMG": "busybox", "TAG": "1.36", "DIR": "./envdir", "PORT": "9090"},
	{"IMG": "", "TAG": "", "DIR": "../outside", "REPL": "5", "CPUS": "0.75", "RETRIES": "7", "HARD": "9", "CPU_COUNT": "8", "PRIV": "true"},
	{"IMG": "a b", "DIR": "/abs/from/env", "PORT": "1_000", "CPUS": "1e-1"},
}

func genLoad(ctx *core.Ctx) {
	r := ctx.Rng
	// ---- c05.load: one raw base file, every directory of the layout
	for i := 0; i < ctx.Pick(900, 30000); i++ {
		file := c05Files[1+r.Intn(len(c05Files)-1)]
		broken := false
		svcs := map[string]any{"a": rawService(r, "a", &broken)}
		if r.Intn(2) == 0 {
			svcs["b"] = rawService(r, "b", &broken)
		}
		if r.Intn(3) == 0 {
			e := map[string]any{"service": []string{"a", "b", "zz"}[r.Intn(3)]}
			if r.Intn(3) > 0 {
				e["file"] = []string{"o.yaml", "./o.yaml", "../shared/q.yaml", "sub/p.yaml", "/abs/f.yaml"}[r.Intn(5)]
			}
			svcs["a"].(map[string]any)["extends"] = e
		}
		doc := map[string]any{"services": svcs}
		switch r.Intn(16) {
		case 0:
			doc = map[string]any{"x-other": 1, "name": "n"}
		case 1:
			doc["services"] = []any{"a"}
		case 2:
			doc["volumes"] = map[string]any{"v": nil, "w": map[string]any{"driver": "local", "driver_opts": map[string]any{"o": "bind", "device": "./dev"}}}
		case 3:
			doc["configs"] = map[string]any{"c1": map[string]any{"file": "./c1.txt"}}
			doc["secrets"] = map[string]any{"s1": map[string]any{"file": "${DIR:-./s}/s1.txt"}, "s2": map[string]any{"environment": "IMG"}}
		case 4:
			doc["networks"] = map[string]any{"n1": nil, "n2": map[string]any{"driver": "bridge", "ipam": map[string]any{"config": []any{map[string]any{"subnet": "10.1.0.0/16"}}}}}
		case 5:
			doc["version"] = "3.8"
			doc["name"] = "${IMG:-proj}"
		}
		env := c05LoadEnvs[r.Intn(len(c05LoadEnvs))]
		skip := r.Intn(8) == 0
		t := c05Tree{Main: c05Main, WD: c05WD, Trees: map[string]core.T{file: core.EncodeVal(doc), c05Main: core.EncodeVal(map[string]any{"services": map[string]any{}})}}
		ctx.Count(fmt.Sprintf("load-raw-%s", filepath.Dir(file)))
		if skip {
			ctx.Count("load-raw/skip-interpolation")
		}
		ctx.Add("c05.load", c05LoadArgs{c05Tree: t, File: file, Ref: []string{"a", "b", "a", "zz"}[r.Intn(4)], Doc: core.EncodeVal(doc), Env: env, SkipInterp: skip})
	}

	// ---- c05.applyv: chains through raw files of a virtual file system
	names := []string{"a", "b", "c"}
	for i := 0; i < ctx.Pick(1200, 40000); i++ {
		nf := 2 + r.Intn(3)
		files := c05Files[:nf]
		var nodes []c05Node
		broken := false
		for _, f := range files {
			for _, nm := range names[:1+r.Intn(3)] {
				if r.Float64() < 0.2 {
					continue
				}
				tag := fmt.Sprintf("%s-%s", strings.TrimSuffix(filepath.Base(f), ".yaml"), nm)
				var attrs map[string]any
				if f == c05Main {
					// the main document is handed to ApplyExtends as it is (already interpolated by the caller)
					attrs = plainAttrs(r, tag)
					for k, v := range ruleAttrs(r, tag) {
						attrs[k] = v
					}
				} else {
					attrs = rawService(r, tag, &broken)
				}
				n := c05Node{File: f, Name: nm, Attrs: attrs}
				switch x := r.Float64(); {
				case x < 0.25:
				case x < 0.45:
					n.Kind, n.Ref = 1, names[r.Intn(len(names))]
				case x < 0.55:
					n.Kind, n.Ref = 2, names[r.Intn(len(names))]
				default:
					n.Kind, n.Ref = 3, names[r.Intn(len(names))]
					n.RefFile = c05Files[1+r.Intn(len(c05Files)-1)] // may be a file that does not exist in this tree
				}
				nodes = append(nodes, n)
			}
		}
		t, main := buildTree(nodes)
		env := c05LoadEnvs[r.Intn(len(c05LoadEnvs))]
		ctx.Count(fmt.Sprintf("applyv-%dfiles", nf))
		ctx.Add("c05.applyv", c05ApplyVArgs{c05ApplyArgs: c05ApplyArgs{c05Tree: t, Dict: core.EncodeVal(main)}, Env: env, SkipInterp: r.Intn(10) == 0})
	}
}

// ---------------------------------------------------------------- the composed pipeline with extends (Props/C05Whole.lean)

// genWhole feeds the integrator's `pipeline.load` check (real loader.LoadModelWithContext vs `Pipeline.load`) with documents
// whose point is `extends` under `SkipExtends` off: same-file chains of depth 1..4 in one or several documents (extends is
// resolved per document, before the merge with the earlier ones — a base that only an earlier document declares is a
// missing base), cycles, missing bases, `file:` references (no file is reachable in the composed model), string and mapping
// forms, attributes with special merge rules and short syntaxes along the chain, all option flags.
func genWhole(ctx *core.Ctx) {
	r := ctx.Rng
	names := []string{"a", "b", "c", "d", "e"}
	pick := func(p float64) bool { return r.Float64() < p }
	alt := func(vs ...any) any { return vs[r.Intn(len(vs))] }
	svc := func(tag string) map[string]any {
		m := map[string]any{}
		if pick(0.7) {
			m["image"] = alt("img-"+tag, "${IMG:-dflt}-"+tag)
		}
		if pick(0.3) {
			m["command"] = alt("run "+tag, []any{"run", tag})
		}
		if pick(0.35) {
			m["environment"] = alt([]any{"K_" + tag + "=v", "SHARED=" + tag}, map[string]any{"K_" + tag: "v", "SHARED": tag, "N": 1})
		}
		if pick(0.3) {
			m["labels"] = alt([]any{"l." + tag + "=v", "shared=" + tag}, map[string]any{"l." + tag: "v", "shared": tag})
		}
		if pick(0.25) {
			m["volumes"] = alt([]any{"./d-" + tag + ":/data"}, []any{map[string]any{"type": "bind", "source": "./s-" + tag, "target": "/t-" + tag}}, []any{"named-" + tag + ":/n"})
		}
		if pick(0.2) {
			m["build"] = alt("./ctx-"+tag, map[string]any{"context": "./ctx-" + tag, "args": alt([]any{"A=" + tag}, map[string]any{"A": tag})})
		}
		if pick(0.2) {
			m["depends_on"] = alt([]any{"a"}, map[string]any{"a": map[string]any{"condition": "service_started"}})
		}
		if pick(0.2) {
			m["networks"] = alt([]any{"n1"}, map[string]any{"n1": map[string]any{"aliases": []any{"al-" + tag}}})
		}
		if pick(0.2) {
			m["logging"] = alt(map[string]any{"driver": "json-file", "options": map[string]any{"o-" + tag: "v"}}, map[string]any{"options": map[string]any{"max-size": tag}}, map[string]any{"driver": "syslog"})
		}
		if pick(0.15) {
			m["env_file"] = alt("./e-"+tag+".env", []any{"./e-" + tag + ".env"})
		}
		if pick(0.15) {
			m["ports"] = alt([]any{"80"}, []any{"8080:80"})
		}
		if pick(0.15) {
			m["dns"] = alt("10.0.0.1", []any{"10.0.0.2"})
			m["cap_add"] = []any{"CAP_" + tag}
		}
		return m
	}
	for i := 0; i < ctx.Pick(500, 20000); i++ {
		nd := 1 + r.Intn(3)
		if r.Intn(3) > 0 {
			nd = 1
		}
		var docs []core.T
		shape := "chain"
		for d := 0; d < nd; d++ {
			ns := names[:2+r.Intn(4)]
			svcs := map[string]any{}
			for j, nm := range ns {
				s := svc(fmt.Sprintf("d%d%s", d, nm))
				// a chain e → d → c → b → a inside the document: service j extends service j-1
				if j > 0 && pick(0.75) {
					ref := ns[j-1]
					s["extends"] = alt(ref, map[string]any{"service": ref})
				}
				svcs[nm] = s
			}
			switch x := r.Float64(); {
			case x < 0.08: // cycle of length 1..len
				k := 1 + r.Intn(len(ns))
				for j := 0; j < k; j++ {
					svcs[ns[j]].(map[string]any)["extends"] = ns[(j+1)%k]
				}
				shape = fmt.Sprintf("cycle-%d", k)
			case x < 0.14:
				svcs[ns[len(ns)-1]].(map[string]any)["extends"] = alt("nosuch", map[string]any{"service": "nosuch"})
				shape = "missing-base"
			case x < 0.20:
				svcs[ns[0]].(map[string]any)["extends"] = map[string]any{"service": "a", "file": alt("other.yaml", "./sub/o.yaml", "/abs/o.yaml")}
				shape = "file-reference"
			case x < 0.24 && d > 0:
				// the base lives only in an earlier document
				svcs = map[string]any{"z": map[string]any{"extends": "a", "image": "img-z"}}
				shape = "base-in-earlier-document"
			case x < 0.27:
				svcs[ns[0]].(map[string]any)["extends"] = alt(map[string]any{"file": "x.yaml"}, map[string]any{"service": 1}, 7, []any{"a"})
				shape = "malformed-extends"
			}
			doc := map[string]any{"services": svcs}
			if pick(0.3) {
				doc["networks"] = map[string]any{"n1": nil}
			}
			if pick(0.2) {
				doc["volumes"] = map[string]any{"named-d0a": nil}
			}
			docs = append(docs, core.EncodeVal(doc))
		}
		o := map[string]any{"resolvePaths": true, "extends": true}
		if r.Intn(4) == 0 {
			o["skipInterpolation"], o["skipValidation"], o["skipDefaultValues"] = r.Intn(3) == 0, r.Intn(3) == 0, r.Intn(3) == 0
			o["resolvePaths"], o["skipNormalization"] = r.Intn(3) > 0, r.Intn(3) == 0
		}
		env := c05LoadEnvs[r.Intn(2)]
		ctx.Count("whole/" + shape)
		ctx.Count(fmt.Sprintf("whole/docs=%d", nd))
		ctx.Add("pipeline.load", map[string]any{"docs": docs, "opts": o, "env": env, "name": "p", "wd": "/w", "home": "/h", "mainFile": "/w/f0.yaml"})
	}
}
