package c05

// C05 generators: exhaustive small scope → seeded random → malformed, for the correspondence streams;
// then the oracle streams (c05oracle.go).

import (
	"fmt"
	"math/rand"
	"os"
	"path/filepath"
	"sort"

	"verifharness/core"
)

// layout of every generated tree: working directory proj/, main file proj/compose.yaml
const (
	c05WD   = "proj"
	c05Main = "proj/compose.yaml"
)

var c05Files = []string{c05Main, "proj/o.yaml", "proj/sub/p.yaml", "shared/q.yaml"}

// relRef is the spelling of a reference to file `to` written inside file `from` (relative to from's directory).
func relRef(from, to string) string {
	r, err := filepath.Rel(filepath.Dir(from), to)
	if err != nil {
		return to
	}
	return r
}

type c05Node struct {
	File, Name string
	Attrs      map[string]any
	// extends
	Kind    int    // 0 none, 1 string form, 2 mapping form without file, 3 mapping form with file
	Ref     string // referenced service
	RefFile string // referenced file (tree-relative) for kind 3
	RawExt  any    // if non-nil: literal extends value (malformed stream)
	HasRaw  bool
}

func (n c05Node) value() map[string]any {
	m := map[string]any{}
	for k, v := range n.Attrs {
		m[k] = core.DeepCopyVal(v)
	}
	switch {
	case n.HasRaw:
		m["extends"] = n.RawExt
	case n.Kind == 1:
		m["extends"] = n.Ref
	case n.Kind == 2:
		m["extends"] = map[string]any{"service": n.Ref}
	case n.Kind == 3:
		m["extends"] = map[string]any{"service": n.Ref, "file": relRef(n.File, n.RefFile)}
	}
	return m
}

// buildTree assembles the documents of all files from the nodes.
func buildTree(nodes []c05Node) (c05Tree, map[string]any) {
	docs := map[string]map[string]any{}
	for _, n := range nodes {
		d, ok := docs[n.File]
		if !ok {
			d = map[string]any{"services": map[string]any{}}
			docs[n.File] = d
		}
		d["services"].(map[string]any)[n.Name] = n.value()
	}
	t := c05Tree{Main: c05Main, WD: c05WD, Trees: map[string]core.T{}, Raw: map[string]string{}}
	for f, d := range docs {
		t.Trees[f] = core.EncodeVal(d)
	}
	main := docs[c05Main]
	if main == nil {
		main = map[string]any{"services": map[string]any{}}
		t.Trees[c05Main] = core.EncodeVal(main)
	}
	return t, main
}

func nodeAttrs(file, name string) map[string]any {
	tag := map[string]string{c05Main: "m", "proj/o.yaml": "o", "proj/sub/p.yaml": "p", "shared/q.yaml": "q"}[file] + "-" + name
	return map[string]any{
		"image":   "img-" + tag,
		"cap_add": []any{"CAP_" + tag},
		"x-tag":   map[string]any{tag: 1, "last": tag},
	}
}

// plain (rule-free) attribute values for the random stream
func plainAttrs(r *rand.Rand, tag string) map[string]any {
	m := map[string]any{}
	pick := func(p float64) bool { return r.Float64() < p }
	if pick(0.6) {
		m["image"] = "img-" + tag
	}
	if pick(0.3) {
		m["hostname"] = "h-" + tag
	}
	if pick(0.4) {
		m["cap_add"] = []any{"CAP_" + tag}
	}
	if pick(0.3) {
		m["expose"] = []any{"80" + fmt.Sprint(r.Intn(10))}
	}
	if pick(0.3) {
		m["deploy"] = map[string]any{"resources": map[string]any{"limits": map[string]any{"cpus": "0." + fmt.Sprint(1+r.Intn(8))}}, "replicas": r.Intn(4)}
	}
	if pick(0.3) {
		m["healthcheck"] = map[string]any{"interval": fmt.Sprintf("%ds", 1+r.Intn(9)), "retries": r.Intn(5)}
	}
	if pick(0.3) {
		m["x-tag"] = map[string]any{tag: 1, "last": tag}
	}
	if pick(0.15) {
		m["mem_limit"] = []any{"64m", 128, nil}[r.Intn(3)]
	}
	if pick(0.1) {
		m["privileged"] = r.Intn(2) == 0
	}
	if pick(0.06) {
		// kind clash: the same key as a scalar here, a mapping or a list elsewhere → "cannot override"
		m["deploy"] = "scalar-" + tag
	}
	if pick(0.04) {
		m["cap_add"] = map[string]any{"k": "v"}
	}
	if pick(0.05) {
		m["stop_signal"] = nil
	}
	return m
}

// attributes with a special merge rule (mergeSpecials), in the spellings a compose file may use, plus a few shapes the
// mergers were not written for (they run before any schema validation)
func ruleAttrs(r *rand.Rand, tag string) map[string]any {
	m := map[string]any{}
	pick := func(p float64) bool { return r.Float64() < p }
	alt := func(vs ...any) any { return vs[r.Intn(len(vs))] }
	if pick(0.35) {
		m["environment"] = alt(map[string]any{"K_" + tag: "v", "SHARED": tag, "N": 1, "E": nil}, []any{"K_" + tag + "=v", "SHARED=" + tag, "BARE"})
	}
	if pick(0.3) {
		m["labels"] = alt(map[string]any{"l." + tag: "v", "shared": tag}, []any{"l." + tag + "=v", "shared=" + tag})
	}
	if pick(0.25) {
		m["command"] = alt([]any{"run", tag}, "run "+tag, nil)
	}
	if pick(0.2) {
		m["entrypoint"] = alt([]any{"/ep", tag}, "/ep "+tag)
	}
	if pick(0.25) {
		m["build"] = alt("./ctx-"+tag, map[string]any{"context": "./ctx-" + tag, "args": alt(map[string]any{"A": tag}, []any{"A=" + tag})},
			map[string]any{"dockerfile": "Dockerfile." + tag, "labels": []any{"bl=" + tag}, "extra_hosts": alt([]any{"h:1.1.1.1"}, map[string]any{"h": "1.1.1.1"})})
	}
	if pick(0.25) {
		m["depends_on"] = alt([]any{"a", "b"}, map[string]any{"a": map[string]any{"condition": "service_healthy"}}, []any{"c"})
	}
	if pick(0.25) {
		m["networks"] = alt([]any{"n1"}, map[string]any{"n1": map[string]any{"aliases": []any{"al-" + tag}}, "n2": nil}, []any{"n2", "n3"})
	}
	if pick(0.25) {
		m["logging"] = alt(map[string]any{"driver": "json-file", "options": map[string]any{"o-" + tag: "v"}}, map[string]any{"driver": "syslog"},
			map[string]any{"options": map[string]any{"max-size": tag}})
	}
	if pick(0.2) {
		m["ulimits"] = alt(map[string]any{"nofile": 100}, map[string]any{"nofile": map[string]any{"soft": 1, "hard": 2}, "nproc": 5})
	}
	if pick(0.2) {
		m["extra_hosts"] = alt([]any{"h-" + tag + ":10.0.0.1", "shared:10.0.0.2"}, map[string]any{"h-" + tag: "10.0.0.1", "shared": "10.0.0.2"}, "one:10.0.0.3")
	}
	if pick(0.2) {
		m["dns"] = alt("10.0.0.1", []any{"10.0.0.2", "10.0.0.1"})
	}
	if pick(0.2) {
		m["env_file"] = alt("./e-"+tag+".env", []any{"./e-" + tag + ".env", map[string]any{"path": "./f.env", "required": false}})
	}
	if pick(0.15) {
		m["sysctls"] = alt(map[string]any{"net.s": 1}, []any{"net.t=" + tag})
	}
	if pick(0.15) {
		m["tmpfs"] = alt("/t-"+tag, []any{"/t-" + tag, "/u"})
	}
	if pick(0.15) {
		m["healthcheck"] = map[string]any{"test": alt([]any{"CMD", tag}, "exit 0"), "retries": r.Intn(4)}
	}
	if pick(0.15) {
		m["deploy"] = map[string]any{"labels": alt(map[string]any{"dl": tag}, []any{"dl=" + tag}), "replicas": r.Intn(3)}
	}
	if pick(0.1) {
		m["annotations"] = alt(map[string]any{"an": tag}, []any{"an=" + tag})
	}
	if pick(0.1) {
		m["ports"] = alt([]any{"80:80"}, []any{map[string]any{"target": 80, "published": "8080"}})
	}
	if pick(0.08) {
		// shapes the special mergers assert away (panics / errors of the merge step; C04 and C01 own those)
		k := []string{"logging", "depends_on", "networks", "environment", "extra_hosts", "ulimits", "build", "labels"}[r.Intn(8)]
		m[k] = alt("scalar-"+tag, 3, []any{1, map[string]any{"k": "v"}}, true, map[string]any{"k": []any{1}})
	}
	return m
}

func addApply(ctx *core.Ctx, kind string, nodes []c05Node, raw map[string]string, order bool) {
	t, main := buildTree(nodes)
	for p, s := range raw {
		t.Raw[p] = s
		delete(t.Trees, p)
	}
	ctx.Count(kind)
	args := c05ApplyArgs{c05Tree: t, Dict: core.EncodeVal(main)}
	ctx.Add("c05.apply", args)
	if order {
		ctx.Count(kind + "/order")
		ctx.Add("c05.order", args)
	}
}

func runC05(ctx *core.Ctx) {
	if os.Getenv("VERIF_C05_ONLY") == "load" { // development switch: the round-6 streams alone
		genLoad(ctx)
		genWhole(ctx)
		ctx.Wait()
		return
	}
	// ------------------------------------------------------------ 0. tracker and plain ExtendService
	genTrackerAndExtend(ctx)

	// ------------------------------------------------------------ 0b. deepClone on the real heap (c05clone.go)
	genClone(ctx)

	// ------------------------------------------------------------ 1. exhaustive small scope
	// two files (main M, proj/o.yaml O) × names {a,b}; every node: absent | plain | extends a/b same file |
	// extends a/b in the other file | extends a/b in its own file through the `file:` form      (8^4 = 4096 trees)
	slots := []struct{ file, name string }{{c05Main, "a"}, {c05Main, "b"}, {"proj/o.yaml", "a"}, {"proj/o.yaml", "b"}}
	other := map[string]string{c05Main: "proj/o.yaml", "proj/o.yaml": c05Main}
	var rec func(i int, acc []c05Node)
	rec = func(i int, acc []c05Node) {
		if i == len(slots) {
			addApply(ctx, "exhaustive-2files-2names", acc, nil, true)
			return
		}
		s := slots[i]
		rec(i+1, acc) // absent
		base := c05Node{File: s.file, Name: s.name, Attrs: nodeAttrs(s.file, s.name)}
		rec(i+1, append(append([]c05Node(nil), acc...), base))
		for _, ref := range []string{"a", "b"} {
			n := base
			n.Kind, n.Ref = 1, ref
			rec(i+1, append(append([]c05Node(nil), acc...), n))
			n.Kind, n.RefFile = 3, other[s.file]
			rec(i+1, append(append([]c05Node(nil), acc...), n))
			n.RefFile = s.file
			rec(i+1, append(append([]c05Node(nil), acc...), n))
		}
	}
	rec(0, nil)
	ctx.Res.Exhaustive = true

	// ------------------------------------------------------------ 2. seeded random: ≤4 files × ≤4 names, chain-biased
	names := []string{"a", "b", "c", "d"}
	for i := 0; i < ctx.Pick(6000, 150000); i++ {
		r := ctx.Rng
		nf := 1 + r.Intn(4)
		files := c05Files[:nf]
		var nodes []c05Node
		for _, f := range files {
			for _, nm := range names[:2+r.Intn(3)] {
				if r.Float64() < 0.3 {
					continue
				}
				n := c05Node{File: f, Name: nm, Attrs: plainAttrs(r, fmt.Sprintf("%s-%s", filepath.Base(f), nm))}
				if i%2 == 1 {
					for k, v := range ruleAttrs(r, fmt.Sprintf("%s-%s", filepath.Base(f), nm)) {
						n.Attrs[k] = v
					}
				}
				switch x := r.Float64(); {
				case x < 0.3:
				case x < 0.55:
					n.Kind, n.Ref = 1, names[r.Intn(len(names))]
				case x < 0.65:
					n.Kind, n.Ref = 2, names[r.Intn(len(names))]
				default:
					n.Kind, n.Ref = 3, names[r.Intn(len(names))]
					n.RefFile = c05Files[r.Intn(len(c05Files))] // may be a file that does not exist in this tree
				}
				nodes = append(nodes, n)
			}
		}
		kind := fmt.Sprintf("random-%dfiles", nf)
		if i%2 == 1 {
			kind += "+rules"
		}
		addApply(ctx, kind, nodes, nil, i%4 == 0)
	}

	// ------------------------------------------------------------ 2b. the file-system parameter: anchoring of a base file
	genBase(ctx)

	// ------------------------------------------------------------ 2c. the nested load inside the model: raw base files, virtual file system (c05load.go)
	genLoad(ctx)

	// ------------------------------------------------------------ 2d. the composed pipeline with extends (Props/C05Whole.lean): pipeline.load
	genWhole(ctx)

	// ------------------------------------------------------------ 3. malformed stream
	genMalformed(ctx)

	// ------------------------------------------------------------ 4. oracles on the real loader
	genOracles(ctx)

	// ------------------------------------------------------------ 5. which model branches were reached (c05Stats)
	ctx.Wait()
	c05StatsMu.Lock()
	for k, n := range c05Stats {
		for i := 0; i < n; i++ {
			ctx.Count(k)
		}
	}
	c05StatsMu.Unlock()
}

func genTrackerAndExtend(ctx *core.Ctx) {
	// tracker: all key sequences of length ≤ 4 over 2 files × 2 names, then random longer ones
	fl := []string{"/m.yaml", "o.yaml"}
	nm := []string{"a", "b"}
	var keys [][2]string
	for _, f := range fl {
		for _, n := range nm {
			keys = append(keys, [2]string{f, n})
		}
	}
	var rec func(acc [][2]string, k int)
	rec = func(acc [][2]string, k int) {
		ctx.Count("tracker-exhaustive")
		ctx.Add("c05.tracker", c05TrackerArgs{Keys: append([][2]string{}, acc...)})
		if k == 0 {
			return
		}
		for _, key := range keys {
			rec(append(acc, key), k-1)
		}
	}
	rec(nil, 4)
	for i := 0; i < ctx.Pick(300, 5000); i++ {
		n := ctx.Rng.Intn(9)
		var l [][2]string
		for j := 0; j < n; j++ {
			l = append(l, [2]string{[]string{"/m.yaml", "o.yaml", "sub/p.yaml", ""}[ctx.Rng.Intn(4)], []string{"a", "b", "c", ""}[ctx.Rng.Intn(4)]})
		}
		ctx.Count("tracker-random")
		ctx.Add("c05.tracker", c05TrackerArgs{Keys: append([][2]string{}, l...)})
	}
	// plain ExtendService: random rule-free trees
	var tree func(r *rand.Rand, d int) any
	tree = func(r *rand.Rand, d int) any {
		switch k := r.Intn(9); {
		case k < 3 || d == 0:
			return []any{"s", "t", 1, 2, true, nil, 1.5, ""}[r.Intn(8)]
		case k < 5:
			n := r.Intn(3)
			l := []any{}
			for i := 0; i < n; i++ {
				l = append(l, tree(r, d-1))
			}
			return l
		default:
			n := r.Intn(4)
			m := map[string]any{}
			for i := 0; i < n; i++ {
				m[[]string{"k", "l", "x-a", "a.b", "m", "extends"}[r.Intn(6)]] = tree(r, d-1)
			}
			return m
		}
	}
	topKeys := []string{"image", "cap_add", "deploy", "healthcheck", "x-tag", "x-other", "expose", "extends", "mem_limit", "ports", "volumes", "a.b"}
	for i := 0; i < ctx.Pick(4000, 100000); i++ {
		mk := func() map[string]any {
			m := map[string]any{}
			for j := ctx.Rng.Intn(5); j > 0; j-- {
				m[topKeys[ctx.Rng.Intn(len(topKeys))]] = tree(ctx.Rng, 3)
			}
			return m
		}
		ctx.Count("extend-random")
		ctx.Add("c05.extend", c05ExtendArgs{Base: core.EncodeVal(mk()), Over: core.EncodeVal(mk())})
	}
	// ExtendService with the special rules: service-shaped trees on both sides
	for i := 0; i < ctx.Pick(2500, 100000); i++ {
		mk := func(tag string) map[string]any {
			m := plainAttrs(ctx.Rng, tag)
			for k, v := range ruleAttrs(ctx.Rng, tag) {
				m[k] = v
			}
			return m
		}
		ctx.Count("extend-rules")
		ctx.Add("c05.extend", c05ExtendArgs{Base: core.EncodeVal(mk("b")), Over: core.EncodeVal(mk("o"))})
	}
}

func genMalformed(ctx *core.Ctx) {
	o := "proj/o.yaml"
	plainB := c05Node{File: c05Main, Name: "b", Attrs: nodeAttrs(c05Main, "b")}
	oa := c05Node{File: o, Name: "a", Attrs: nodeAttrs(o, "a")}
	// every node kind as the `extends` value, as a service value, as the `services` value
	extVals := []any{}
	for _, k := range core.Kinds {
		extVals = append(extVals, core.KindValue(k, ctx.Rng))
	}
	extVals = append(extVals,
		map[string]any{}, map[string]any{"service": 1}, map[string]any{"service": nil}, map[string]any{"file": "o.yaml"},
		map[string]any{"service": "b", "file": 1}, map[string]any{"service": "b", "file": nil}, map[string]any{"service": "b", "file": ""},
		map[string]any{"service": "a", "file": []any{"o.yaml"}}, map[string]any{"service": "", "file": "o.yaml"},
		map[string]any{"service": "a", "file": "o.yaml", "extra": true}, "", "b", "nope",
		map[string]any{"service": "a", "file": "missing.yaml"}, map[string]any{"service": "a", "file": "sub"},
		map[string]any{"service": "nope", "file": "o.yaml"})
	for _, ev := range extVals {
		a := c05Node{File: c05Main, Name: "a", Attrs: nodeAttrs(c05Main, "a"), HasRaw: true, RawExt: ev}
		addApply(ctx, "malformed-extends-value", []c05Node{a, plainB, oa}, nil, false)
		// with a service named "" present (an `extends` of an unexpected type behaves like `extends: ""`)
		empty := c05Node{File: c05Main, Name: "", Attrs: nodeAttrs(c05Main, "empty")}
		addApply(ctx, "malformed-extends-value+emptyname", []c05Node{a, plainB, oa, empty}, nil, false)
		// the same value one step down a chain, in the other file
		top := c05Node{File: c05Main, Name: "t", Attrs: nodeAttrs(c05Main, "t"), Kind: 3, Ref: "a", RefFile: o}
		oa2 := c05Node{File: o, Name: "a", Attrs: nodeAttrs(o, "a"), HasRaw: true, RawExt: ev}
		ob := c05Node{File: o, Name: "b", Attrs: nodeAttrs(o, "b")}
		addApply(ctx, "malformed-extends-value-in-base-file", []c05Node{top, oa2, ob}, nil, false)
	}
	for _, k := range core.Kinds {
		v := core.KindValue(k, ctx.Rng)
		// service value of that kind: as the extending one, as the base, in the other file
		t, main := buildTree([]c05Node{{File: c05Main, Name: "a", Attrs: nodeAttrs(c05Main, "a"), Kind: 1, Ref: "b"}, oa})
		main["services"].(map[string]any)["b"] = v
		ctx.Count("malformed-base-kind")
		ctx.Add("c05.apply", c05ApplyArgs{c05Tree: t, Dict: core.EncodeVal(main)})
		t, main = buildTree([]c05Node{plainB, oa})
		main["services"].(map[string]any)["a"] = v
		ctx.Count("malformed-service-kind")
		ctx.Add("c05.apply", c05ApplyArgs{c05Tree: t, Dict: core.EncodeVal(main)})
		t, main = buildTree([]c05Node{plainB})
		main["services"] = v
		ctx.Count("malformed-services-kind")
		ctx.Add("c05.apply", c05ApplyArgs{c05Tree: t, Dict: core.EncodeVal(main)})
		// base of that kind in the other file
		t, main = buildTree([]c05Node{{File: c05Main, Name: "a", Attrs: nodeAttrs(c05Main, "a"), Kind: 3, Ref: "z", RefFile: o}, oa})
		od := map[string]any{"services": map[string]any{"z": v, "a": oa.value()}}
		t.Trees[o] = core.EncodeVal(od)
		ctx.Count("malformed-file-base-kind")
		ctx.Add("c05.apply", c05ApplyArgs{c05Tree: t, Dict: core.EncodeVal(main)})
		// `services` of that kind in the other file
		od = map[string]any{"services": v}
		t.Trees[o] = core.EncodeVal(od)
		ctx.Count("malformed-file-services-kind")
		ctx.Add("c05.apply", c05ApplyArgs{c05Tree: t, Dict: core.EncodeVal(main)})
	}
	// literal file contents
	raws := []string{"", "\n", "x: 1\n", "services:\n", "services: []\n", "services:\n  a:\n", "services:\n  a: 3\n", ": bad [yaml\n", "- a\n- b\n",
		"services:\n  a:\n    image: i\n---\nservices:\n  a:\n    hostname: second-doc\n", "services:\n  a:\n    image: ${UNSET_VARIABLE:?required}\n",
		"services:\n  a:\n    volumes:\n      - type: bind\n        target: /t\n", "services:\n  a: {image: i, extends: {file: o.yaml}}\n",
		"services:\n  a:\n    ports: 3\n", "name: other\nservices:\n  a:\n    image: i\nvolumes:\n  v: {}\n"}
	for _, raw := range raws {
		a := c05Node{File: c05Main, Name: "a", Attrs: nodeAttrs(c05Main, "a"), Kind: 3, Ref: "a", RefFile: o}
		addApply(ctx, "malformed-file-content", []c05Node{a, plainB}, map[string]string{o: raw}, false)
	}
	// a directory where a file is expected
	a := c05Node{File: c05Main, Name: "a", Attrs: nodeAttrs(c05Main, "a"), Kind: 3, Ref: "a", RefFile: "proj/sub"}
	addApply(ctx, "malformed-file-is-dir", []c05Node{a, {File: "proj/sub/p.yaml", Name: "a", Attrs: nodeAttrs("proj/sub/p.yaml", "a")}}, nil, false)
}

func sortedKeys(m map[string]any) []string {
	var l []string
	for k := range m {
		l = append(l, k)
	}
	sort.Strings(l)
	return l
}
