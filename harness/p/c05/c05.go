package c05

// C05 — extends yields base-then-local override, order-independent, cycle-safe.
//
//	c05.apply    correspondence: loader.ApplyExtends on a temp tree vs the Lean model Extends.applyExtendsOrd
//	             (the file-system parameter of the model = the real getExtendsBaseFromFile outcome per reference;
//	             merge parameter = the plain part of ExtendService, modelled in Lean; all visit orders on the model side)
//	c05.extend   correspondence: override.ExtendService on rule-free attributes vs Extends.plainExtend
//	c05.tracker  correspondence: cycleTracker.Add vs Extends.trackerAdd
//	c05.order    oracle (real code only): ApplyExtends loop under every visit order of the services map gives one outcome
//	c05.flat     oracle (real loader): chain source vs the chain flattened by hand with override.ExtendService
//	c05.reject   oracle (real loader): cyclic chains, missing bases and missing files are errors
//
// generators: c05gen.go

import (
	"context"
	"encoding/json"
	"fmt"
	"os"
	"path/filepath"
	"reflect"
	"regexp"
	"sort"
	"strings"
	"sync"
	"time"

	"github.com/compose-spec/compose-go/v2/consts"
	"github.com/compose-spec/compose-go/v2/loader"
	"github.com/compose-spec/compose-go/v2/override"
	"github.com/compose-spec/compose-go/v2/types"
	"gopkg.in/yaml.v3"

	"verifharness/core"
)

// ---------------------------------------------------------------- shared

// c05Tree is one directory tree with a main compose file.
type c05Tree struct {
	Main  string            `json:"main"`            // relative path of the main file
	WD    string            `json:"wd"`              // relative working directory
	Trees map[string]core.T `json:"trees,omitempty"` // relative path → document as a tagged tree (rendered to YAML)
	Raw   map[string]string `json:"raw,omitempty"`   // relative path → literal content
}

func (t c05Tree) render() map[string]string {
	files := map[string]string{}
	for p, tr := range t.Trees {
		b, err := yaml.Marshal(core.DecodeVal(tr))
		if err != nil {
			panic(err)
		}
		files[p] = string(b)
	}
	for p, s := range t.Raw {
		files[p] = s
	}
	return files
}

// trackerClash replays, on the harness's own view of the tree, which keys the *unchanged* cycle tracker records along
// the chain of every service of the main file — (reference string, extending name) for a `file:` step, (main file,
// extending name) for a same-file step, also inside a base file — and tells whether some acyclic chain records one key
// twice.  That is exactly the recorded defect (findings/C05.txt); failure keys carry this bit, so a false "Circular
// reference" on a chain *without* such a clash is never mistaken for the known one.
func (t c05Tree) trackerClash() string {
	docs := map[string]map[string]any{}
	for f, tr := range t.Trees {
		doc, _ := core.DecodeVal(tr).(map[string]any)
		svcs, _ := doc["services"].(map[string]any)
		docs[f] = svcs
	}
	relDir := func(file string) string {
		r, err := filepath.Rel(t.WD, filepath.Dir(file))
		if err != nil {
			return "."
		}
		return r
	}
	for start := range docs[t.Main] {
		file, name := t.Main, start
		nodes := map[string]bool{}
		keys := map[string]bool{}
		for step := 0; step < 24; step++ {
			node := file + "\x00" + name
			if nodes[node] {
				break // a genuine cycle
			}
			nodes[node] = true
			svc, _ := docs[file][name].(map[string]any)
			if svc == nil {
				break
			}
			var ref, key string
			next := file
			switch e := svc["extends"].(type) {
			case string:
				ref, key = e, "<main>\x00"+name
			case map[string]any:
				r, ok := e["service"].(string)
				if !ok {
					ref = "\x00"
					break
				}
				ref = r
				if f, ok := e["file"].(string); ok {
					spelled := f
					if file != t.Main {
						spelled = filepath.Join(relDir(file), f)
					}
					key = spelled + "\x00" + name
					next = filepath.Join(filepath.Dir(file), f)
				} else {
					key = "<main>\x00" + name
				}
			default:
				ref = "\x00"
			}
			if ref == "\x00" || key == "" {
				break
			}
			if _, ok := docs[next][ref]; !ok {
				break
			}
			if keys[key] {
				// the same key twice; is the next node new?  (a repeated node is a real cycle)
				if !nodes[next+"\x00"+ref] {
					return "key-clash"
				}
				break
			}
			keys[key] = true
			file, name = next, ref
		}
	}
	return "no-key-clash"
}

var c05ErrClasses = []struct {
	re  *regexp.Regexp
	cls string
}{
	{regexp.MustCompile(`Circular reference`), "circular"},
	{regexp.MustCompile(`cannot extend service .*: services must be a mapping`), "fileServicesNotMapping"},
	{regexp.MustCompile(`cannot extend service .*: no services section`), "noServices"},
	{regexp.MustCompile(`cannot extend service .*: service .* not found in `), "notFoundInFile"},
	{regexp.MustCompile(`cannot extend service .*: service .* not found`), "notFound"},
	{regexp.MustCompile(`^services\..*\.extends\.service must be a string`), "extendsServiceNotString"},
	{regexp.MustCompile(`^services\..*\.extends\.file must be a string`), "extendsFileNotString"},
	{regexp.MustCompile(`^services must be a mapping`), "servicesNotMapping"},
	{regexp.MustCompile(`^services\..* must be a mapping`), "serviceNotMapping"},
	{regexp.MustCompile(`cannot override `), "cannotOverride"},
	{regexp.MustCompile(`^\S+: unexpected type `), "unexpectedType"}, // override: "<path>: unexpected type %T" (the special mergers, since C04's repairs)
	{regexp.MustCompile(`no such file or directory`), "noFile"},
	{regexp.MustCompile(`^unexpected type |invalid mount config for type`), "resolveErr"},
}

func c05ErrClass(err error) string {
	s := err.Error()
	for _, c := range c05ErrClasses {
		if c.re.MatchString(s) {
			return c.cls
		}
	}
	return "loadErr"
}

func c05Outcome(dict map[string]any, err error) any {
	if err != nil {
		return map[string]any{"err": c05ErrClass(err)}
	}
	return map[string]any{"ok": core.EncodeVal(dict)}
}

// c05Env prepares the loader inputs the way LoadWithContext → loadYamlFile would for the main file.
// c05Materialize writes the files and replaces the placeholder $ROOT (the temporary root, unknown to the generator)
// in their contents: references spelled as absolute paths, in particular the main file's own name.
func c05Materialize(files map[string]string) (string, error) {
	root, err := core.Materialize(files)
	if err != nil {
		return root, err
	}
	for p, content := range files {
		if strings.Contains(content, "$ROOT") {
			if err := os.WriteFile(filepath.Join(root, p), []byte(strings.ReplaceAll(content, "$ROOT", root)), 0o644); err != nil {
				return root, err
			}
		}
	}
	return root, nil
}

// c05Subst replaces $ROOT in a tagged tree.
func c05Subst(t core.T, root string) core.T {
	b, err := json.Marshal(t)
	if err != nil || !strings.Contains(string(b), "$ROOT") {
		return t
	}
	var out any
	if json.Unmarshal([]byte(strings.ReplaceAll(string(b), "$ROOT", root)), &out) != nil {
		return t
	}
	return out
}

func c05Env(t c05Tree) (root string, ctx context.Context, opts *loader.Options, mainAbs string, err error) {
	root, err = c05Materialize(t.render())
	if err != nil {
		return
	}
	mainAbs = filepath.Join(root, t.Main)
	details := types.ConfigDetails{WorkingDir: filepath.Join(root, t.WD), ConfigFiles: []types.ConfigFile{{Filename: mainAbs}}, Environment: map[string]string{}}
	opts = loader.VerifToOptions(&details, nil)
	ctx = context.WithValue(context.Background(), consts.ComposeFileKey{}, mainAbs)
	return
}

// extendsFiles collects the `extends.file` strings of a services mapping.
func extendsFiles(services any, into map[string]bool) {
	m, ok := services.(map[string]any)
	if !ok {
		return
	}
	for _, s := range m {
		sm, ok := s.(map[string]any)
		if !ok {
			continue
		}
		if e, ok := sm["extends"].(map[string]any); ok {
			if f, ok := e["file"].(string); ok {
				into[f] = true
			}
		}
	}
}

// serviceNamesOfFile reads the service names of a file of the tree with the harness's own yaml decode.
func serviceNamesOfFile(path string) []string {
	b, err := os.ReadFile(path)
	if err != nil {
		return nil
	}
	var doc map[string]any
	if yaml.Unmarshal(b, &doc) != nil {
		return nil
	}
	m, _ := doc["services"].(map[string]any)
	var l []string
	for k := range m {
		l = append(l, k)
	}
	sort.Strings(l)
	return l
}

// c05FS builds the file-system parameter of the model: for every reference string reachable from dict, the outcome
// of the real getExtendsBaseFromFile.
func c05FS(ctx context.Context, opts *loader.Options, wdAbs, mainAbs string, dict map[string]any) []any {
	todo := map[string]bool{}
	extendsFiles(dict["services"], todo)
	done := map[string]bool{}
	var table []any
	for len(todo) > 0 {
		var refs []string
		for r := range todo {
			refs = append(refs, r)
		}
		sort.Strings(refs)
		todo = map[string]bool{}
		for _, ref := range refs {
			if done[ref] {
				continue
			}
			done[ref] = true
			abs := ref
			if !filepath.IsAbs(abs) {
				abs = filepath.Join(wdAbs, ref)
			}
			names := serviceNamesOfFile(abs)
			probe := "\x01absent"
			if len(names) > 0 {
				probe = names[0]
			}
			var entry any
			res := core.SafeCall(func() any {
				svcs, err := loader.VerifGetExtendsBaseFromFile(ctx, "x", probe, mainAbs, ref, opts)
				if err != nil {
					cls := c05ErrClass(err)
					switch {
					case cls == "notFoundInFile":
						return map[string]any{"ok": core.EncodeVal(map[string]any{"services": map[string]any{}})}
					case cls == "resolveErr":
						stub := map[string]any{}
						for _, n := range names {
							stub[n] = map[string]any{}
						}
						return map[string]any{"ok": core.EncodeVal(map[string]any{"services": stub}), "rerr": true}
					}
					return map[string]any{"err": cls}
				}
				found := map[string]bool{}
				extendsFiles(svcs, found)
				for f := range found {
					todo[f] = true
				}
				return map[string]any{"ok": core.EncodeVal(map[string]any{"services": svcs})}
			})
			entry = res
			if m, ok := res.(map[string]any); ok {
				if site, p := m["panic"].(string); p {
					entry = map[string]any{"panic": site}
					if strings.Contains(site, "relativePathsResolver") {
						// ResolveRelativePaths panicked: that is after the services / base-present checks
						stub := map[string]any{}
						for _, n := range names {
							stub[n] = map[string]any{}
						}
						entry = map[string]any{"ok": core.EncodeVal(map[string]any{"services": stub}), "rpanic": site}
					}
				}
			}
			table = append(table, []any{ref, entry})
		}
	}
	return table
}

// ---------------------------------------------------------------- c05.apply

type c05ApplyArgs struct {
	c05Tree
	Dict core.T `json:"dict"` // the main document handed to ApplyExtends (after yaml decode / interpolation)
}

func realC05Apply(raw json.RawMessage) any {
	var a c05ApplyArgs
	if err := json.Unmarshal(raw, &a); err != nil {
		return map[string]any{"bad": err.Error()}
	}
	root, ctx, opts, mainAbs, err := c05Env(a.c05Tree)
	defer os.RemoveAll(root)
	if err != nil {
		return map[string]any{"bad": err.Error()}
	}
	a.Dict = c05Subst(a.Dict, root)
	dict0, _ := core.DecodeVal(a.Dict).(map[string]any)
	fs := c05FS(ctx, opts, filepath.Join(root, a.WD), mainAbs, dict0)
	dict, _ := core.DecodeVal(a.Dict).(map[string]any)
	var shared []string
	out := core.SafeCall(func() any {
		err := loader.VerifApplyExtends(ctx, dict, opts)
		if err == nil {
			shared = sharedStructure(dict["services"])
		}
		return c05Outcome(dict, err)
	})
	return map[string]any{"out": out, "fs": fs, "main": mainAbs, "shared": shared}
}

// sharedStructure lists the pairs of paths under which one and the same non-empty mapping or sequence *object* is
// reachable in the resolved services: the result of extends must be a tree — the base is deep-cloned before the merge
// and the special mergers build fresh containers — because every later stage (canonical form, path resolution,
// normalisation) rewrites the tree in place, so a container shared by two services, or by two entries of one service,
// is cross-talk waiting to happen.  (The Lean model is value-typed; aliasing is decided here, on the real heap.)
func sharedStructure(v any) []string {
	seen := map[uintptr]string{}
	var out []string
	var walk func(v any, path string)
	walk = func(v any, path string) {
		switch x := v.(type) {
		case map[string]any:
			if len(x) == 0 {
				return
			}
			p := reflect.ValueOf(x).Pointer()
			if first, dup := seen[p]; dup {
				out = append(out, first+" = "+path)
				return
			}
			seen[p] = path
			for k, e := range x {
				walk(e, path+"."+k)
			}
		case []any:
			if len(x) == 0 {
				return
			}
			p := reflect.ValueOf(x).Pointer()
			if first, dup := seen[p]; dup {
				out = append(out, first+" = "+path)
				return
			}
			seen[p] = path
			for i, e := range x {
				walk(e, fmt.Sprintf("%s[%d]", path, i))
			}
		}
	}
	walk(v, "services")
	sort.Strings(out)
	return out
}

type c05ApplyReal struct {
	Shared []string        `json:"shared"`
	Out    json.RawMessage `json:"out"`
	FS     json.RawMessage `json:"fs"`
	Main   string          `json:"main"`
}

// c05Norm maps every way the merge step can fail — "cannot override", "<path>: unexpected type …" (the special mergers,
// errors since C04's repairs), or a panic in override.* — to one class: *which* of several failing attributes is reported first depends on Go's map order
// inside mergeMappings (that is C04's concern, where the alternatives are enumerated); a panic elsewhere keeps its site.
func c05Norm(out json.RawMessage) json.RawMessage {
	var m struct {
		Err   *string `json:"err"`
		Panic *string `json:"panic"`
	}
	if json.Unmarshal(out, &m) != nil {
		return out
	}
	switch {
	case m.Err != nil && (*m.Err == "cannotOverride" || *m.Err == "unexpectedType"), m.Panic != nil && strings.HasPrefix(*m.Panic, "override."):
		return json.RawMessage(`{"fail":"merge"}`)
	case m.Err != nil && *m.Err == "loadErr", m.Panic != nil && !strings.HasPrefix(*m.Panic, "loader."):
		// loading an extended file failed (yaml, interpolation, canonical form, path resolution): with two
		// malformed attributes in one file, which of them is reported — an error or a panic of a transformer —
		// depends on Go's map order inside that stage; file loading is the parameter of the extends model
		return json.RawMessage(`{"fail":"load"}`)
	case m.Panic != nil:
		b, _ := json.Marshal(map[string]string{"panic": *m.Panic})
		return b
	}
	return out
}

func c05MemberOf(out json.RawMessage, outs []json.RawMessage) bool {
	n := c05Norm(out)
	for _, o := range outs {
		if core.CanonEqual(n, c05Norm(o)) {
			return true
		}
	}
	return false
}

// c05Stats: which branches of the model the c05.apply stream reached (outcome classes of `applyExtendsOrd`, the
// specification's classification of the document, the real outcome class) — flushed into the evidence's
// distribution at the end of runC05 (judges run in the harness process).
var (
	c05StatsMu sync.Mutex
	c05Stats   = map[string]int{}
)

func c05Stat(k string) {
	c05StatsMu.Lock()
	c05Stats[k]++
	c05StatsMu.Unlock()
}

func c05OutClass(o json.RawMessage) string {
	var m struct {
		Ok    json.RawMessage `json:"ok"`
		Err   *string         `json:"err"`
		Panic *string         `json:"panic"`
	}
	if json.Unmarshal(o, &m) != nil {
		return "?"
	}
	switch {
	case m.Err != nil:
		return "err:" + *m.Err
	case m.Panic != nil:
		return "panic:" + *m.Panic
	case m.Ok != nil:
		return "ok"
	}
	return "?"
}

func judgeC05Apply(args, real, drv json.RawMessage) *core.Verdict {
	if c := core.Class(real); c == "fatal" || c == "hang" {
		return core.CrashVerdict(real)
	}
	var r c05ApplyReal
	if json.Unmarshal(real, &r) != nil || r.Out == nil {
		return core.Disagree("malformed real outcome: " + string(real))
	}
	var d struct {
		Outs  []json.RawMessage   `json:"outs"`
		Flat  [][]json.RawMessage `json:"flat"`
		Walk  [][2]string         `json:"walk"`
		Stuck [][]*string         `json:"stuck"`
	}
	if json.Unmarshal(drv, &d) != nil || len(d.Outs) == 0 {
		return core.Disagree("malformed driver outcome: " + string(drv))
	}
	for _, o := range d.Outs {
		c05Stat("apply/model-outcome/" + c05OutClass(o))
	}
	c05Stat("apply/real-outcome/" + c05OutClass(r.Out))
	if len(d.Outs) > 1 {
		c05Stat("apply/model-outcomes>1")
	}
	if len(r.Shared) > 0 {
		return core.Fail("result-shares-structure:"+sharedKind(r.Shared[0]), "the resolved services are not a tree: "+strings.Join(r.Shared, "; "))
	}
	// ---- spec oracle: the flatten specification (Spec/Extends.lean `flattenF`, proved equivalent to `Flat`) computed
	// by the driver for every service — no tracker, no memoisation, no visit order.  Inside its domain (every service
	// flattens) the real outcome must be exactly that: a difference is a failing input, not just a broken tie.
	if v := c05SpecVerdict(args, r.Out, d.Flat); v != nil {
		return v
	}
	// ---- cycle oracle (Props/C05Cycle.lean): `circular` is reported iff some chain runs into a cycle
	if v := c05CycleVerdict(args, r.Out, d.Flat, d.Walk); v != nil {
		return v
	}
	// ---- stuck oracle (Props/C05Stuck.lean): a chain that cannot be followed is an error, of the class of the broken link
	if v := c05StuckVerdict(r.Out, d.Stuck); v != nil {
		return v
	}
	if !c05MemberOf(r.Out, d.Outs) {
		return core.Disagree("ApplyExtends outcome is not an outcome of Extends.applyExtendsOrd under any visit order")
	}
	return nil
}

// sharedKind names the attribute path of a sharing report without service names and indices (a stable key).
func sharedKind(s string) string {
	parts := strings.Split(s, " = ")
	norm := func(p string) string {
		segs := strings.Split(p, ".")
		if len(segs) > 2 {
			segs = segs[2:] // drop "services.<name>"
		} else {
			segs = nil
		}
		for i, g := range segs {
			if j := strings.Index(g, "["); j >= 0 {
				segs[i] = g[:j] + "[]"
			}
		}
		if len(segs) > 1 {
			segs = segs[:1] // the attribute is enough for a stable key
		}
		return strings.Join(segs, ".")
	}
	if len(parts) != 2 {
		return "?"
	}
	return norm(parts[0]) + "~" + norm(parts[1])
}

// taggedMap splits a tagged mapping {"m":[[k,v]…]} into its entries.
func taggedMap(raw json.RawMessage) map[string]json.RawMessage {
	var t struct {
		M [][]json.RawMessage `json:"m"`
	}
	if json.Unmarshal(raw, &t) != nil || t.M == nil {
		return nil
	}
	out := map[string]json.RawMessage{}
	for _, kv := range t.M {
		if len(kv) != 2 {
			return nil
		}
		var k string
		if json.Unmarshal(kv[0], &k) != nil {
			return nil
		}
		out[k] = kv[1]
	}
	return out
}

func c05SpecVerdict(args, realOut json.RawMessage, flat [][]json.RawMessage) *core.Verdict {
	if len(flat) == 0 {
		return nil
	}
	want := map[string]json.RawMessage{}
	for _, e := range flat {
		if len(e) != 2 {
			return nil
		}
		var n string
		var o struct {
			Ok json.RawMessage `json:"ok"`
		}
		if json.Unmarshal(e[0], &n) != nil || json.Unmarshal(e[1], &o) != nil || o.Ok == nil {
			return nil // some service has no flattened form: outside the domain of the flatten oracle
		}
		want[n] = o.Ok
	}
	var a c05ApplyArgs
	json.Unmarshal(args, &a)
	var ro struct {
		Ok  json.RawMessage `json:"ok"`
		Err *string         `json:"err"`
	}
	if json.Unmarshal(realOut, &ro) != nil {
		return nil
	}
	if ro.Err != nil {
		return core.Fail("acyclic-rejected:"+*ro.Err+":"+a.trackerClash(), "every service has a flattened form (finite chain, bases and files exist, merges succeed) but ApplyExtends fails with "+*ro.Err)
	}
	if ro.Ok == nil {
		return nil // a panic: C01's concern, compared by the correspondence
	}
	got := taggedMap(taggedMap(ro.Ok)["services"])
	if got == nil {
		return nil
	}
	var bad []string
	for n, w := range want {
		g, ok := got[n]
		if !ok {
			bad = append(bad, "<missing:"+n+">")
			continue
		}
		if core.CanonEqual(g, w) {
			continue
		}
		gm, wm := taggedMap(g), taggedMap(w)
		keys := map[string]bool{}
		for k := range gm {
			keys[k] = true
		}
		for k := range wm {
			keys[k] = true
		}
		for k := range keys {
			if !core.CanonEqual(gm[k], wm[k]) {
				bad = append(bad, k)
			}
		}
	}
	if len(bad) == 0 {
		return nil
	}
	sort.Strings(bad)
	var u []string
	for i, b := range bad {
		if i == 0 || b != bad[i-1] {
			u = append(u, b)
		}
	}
	return core.Fail("extends-ne-flatten:"+strings.Join(u, ","), "a resolved service differs from base-then-local flattening (override rules = the C04 merge model) in "+strings.Join(u, ","))
}

// c05CycleVerdict decides `circular_sound` and `cycle_is_circular` on the real outcome.  The driver classifies every
// service: it flattens (`flattenF` = `Flat`), its link walk `walkChain` is still going after more links than there are
// distinct (mapping, name) nodes — i.e. it runs into a cycle, `walkChain_long_iff_cyclic` —, or it has another defect.
//   - the real code reports `circular` although no chain is cyclic (and no service is null / not a mapping): the tracker
//     reported a cycle that is not there                                        → circular-without-cycle
//   - every service flattens or is cyclic, at least one is cyclic, and the real code accepts the document or reports
//     something else                                                            → cycle-accepted:apply / cycle-misreported:<class>
func c05CycleVerdict(args, realOut json.RawMessage, flat [][]json.RawMessage, walk [][2]string) *core.Verdict {
	if len(flat) == 0 || len(walk) != len(flat) {
		return nil
	}
	long := map[string]bool{}
	for _, w := range walk {
		c05Stat("apply/walk/" + w[1])
		long[w[1]+"\x00"+w[0]] = true
	}
	nCyc, nOther, nNotSvc := 0, 0, 0
	for _, e := range flat {
		if len(e) != 2 {
			return nil
		}
		var o struct {
			Ok    json.RawMessage `json:"ok"`
			Err   *string         `json:"err"`
			Panic *string         `json:"panic"`
		}
		var name string
		if json.Unmarshal(e[1], &o) != nil || json.Unmarshal(e[0], &name) != nil {
			return nil
		}
		switch {
		case o.Ok != nil:
		case long["long\x00"+name]: // the link walk never ends: the chain runs into a cycle (walkChain_long_iff_cyclic)
			nCyc++
		case o.Err != nil && (*o.Err == "flatten:not-a-service" || *o.Err == "flatten:base-not-a-mapping"):
			nNotSvc++
			nOther++
		default:
			nOther++
		}
	}
	switch {
	case nCyc > 0 && nOther == 0:
		c05Stat("apply/spec/cyclic-only")
	case nCyc > 0:
		c05Stat("apply/spec/cyclic+other-defect")
	case nOther > 0:
		c05Stat("apply/spec/other-defect")
	default:
		c05Stat("apply/spec/all-flat")
	}
	var ro struct {
		Ok    json.RawMessage `json:"ok"`
		Err   *string         `json:"err"`
		Panic *string         `json:"panic"`
	}
	if json.Unmarshal(realOut, &ro) != nil || ro.Panic != nil {
		return nil
	}
	if ro.Err != nil && *ro.Err == "circular" {
		c05Stat("apply/real-circular")
	}
	var a c05ApplyArgs
	json.Unmarshal(args, &a)
	if ro.Err != nil && *ro.Err == "circular" && nCyc == 0 && nNotSvc == 0 {
		return core.Fail("circular-without-cycle:"+a.trackerClash(), "ApplyExtends reports a circular reference, but no service's chain runs into a cycle")
	}
	if nCyc > 0 && nOther == 0 {
		if ro.Ok != nil {
			return core.Fail("cycle-accepted:apply", "a chain runs into a cycle and ApplyExtends accepts the document")
		}
		if ro.Err != nil && *ro.Err != "circular" {
			return core.Fail("cycle-misreported:"+*ro.Err, "every service flattens or is cyclic, at least one is cyclic, and ApplyExtends fails with "+*ro.Err+" instead of a circular reference")
		}
	}
	return nil
}

// c05LocateClasses are the error classes that name a link which cannot be followed (as opposed to a cycle, a failing
// merge, or the loading of a file going wrong inside yaml / interpolation / canonical form).
var c05LocateClasses = map[string]bool{"notFound": true, "noFile": true, "notFoundInFile": true, "noServices": true,
	"fileServicesNotMapping": true, "serviceNotMapping": true, "extendsServiceNotString": true, "extendsFileNotString": true, "resolveErr": true}

// c05StuckVerdict decides `stuck_service_error_class` / `stuck_excludes_flat_and_cycle` on the real outcome: the driver
// says, per service, with which class its chain gets stuck (`stuckClass`: links only, no merge, no tracker).
//   - some chain is stuck and the real code accepts the document                → stuck-accepted:<class>
//   - the real code reports a link that cannot be followed, and no chain is stuck with that class → error-without-cause:<class>
func c05StuckVerdict(realOut json.RawMessage, stuck [][]*string) *core.Verdict {
	if len(stuck) == 0 {
		return nil
	}
	classes := map[string]bool{}
	var first string
	for _, e := range stuck {
		if len(e) != 2 || e[0] == nil {
			return nil
		}
		if e[1] != nil {
			c05Stat("apply/stuck/" + *e[1])
			if len(classes) == 0 {
				first = *e[1]
			}
			classes[*e[1]] = true
		} else {
			c05Stat("apply/stuck/-")
		}
	}
	var ro struct {
		Ok    json.RawMessage `json:"ok"`
		Err   *string         `json:"err"`
		Panic *string         `json:"panic"`
	}
	if json.Unmarshal(realOut, &ro) != nil || ro.Panic != nil {
		return nil
	}
	if ro.Ok != nil && len(classes) > 0 {
		return core.Fail("stuck-accepted:"+first, "the chain of a service cannot be followed ("+first+") and ApplyExtends accepts the document")
	}
	if ro.Err != nil && c05LocateClasses[*ro.Err] && !classes[*ro.Err] {
		return core.Fail("error-without-cause:"+*ro.Err, "ApplyExtends fails with "+*ro.Err+", but no service's chain gets stuck with that class")
	}
	return nil
}

// ---------------------------------------------------------------- c05.extend

type c05ExtendArgs struct {
	Base core.T `json:"base"`
	Over core.T `json:"over"`
}

func realC05Extend(raw json.RawMessage) any {
	var a c05ExtendArgs
	json.Unmarshal(raw, &a)
	b, _ := core.DecodeVal(a.Base).(map[string]any)
	o, _ := core.DecodeVal(a.Over).(map[string]any)
	m, err := override.ExtendService(b, o)
	return c05Outcome(m, err)
}

// ---------------------------------------------------------------- c05.tracker

type c05TrackerArgs struct {
	Keys [][2]string `json:"keys"`
}

// ---------------------------------------------------------------- c05.order

func permutations(l []string) [][]string {
	if len(l) <= 1 {
		return [][]string{append([]string(nil), l...)}
	}
	var out [][]string
	for i := range l {
		rest := append(append([]string(nil), l[:i]...), l[i+1:]...)
		for _, p := range permutations(rest) {
			out = append(out, append([]string{l[i]}, p...))
		}
	}
	return out
}

func realC05Order(raw json.RawMessage) any {
	var a c05ApplyArgs
	if err := json.Unmarshal(raw, &a); err != nil {
		return map[string]any{"bad": err.Error()}
	}
	root, ctx, opts, _, err := c05Env(a.c05Tree)
	defer os.RemoveAll(root)
	if err != nil {
		return map[string]any{"bad": err.Error()}
	}
	a.Dict = c05Subst(a.Dict, root)
	dict0, _ := core.DecodeVal(a.Dict).(map[string]any)
	svcs, _ := dict0["services"].(map[string]any)
	var names []string
	for k := range svcs {
		names = append(names, k)
	}
	sort.Strings(names)
	if len(names) > 5 {
		names = names[:5]
	}
	type seen struct {
		Out   any      `json:"out"`
		Order []string `json:"order"`
	}
	var distinct []seen
	var keys []string
	for _, order := range permutations(names) {
		dict, _ := core.DecodeVal(a.Dict).(map[string]any)
		out := core.SafeCall(func() any {
			err := loader.VerifApplyExtendsOrdered(ctx, dict, opts, order)
			return c05Outcome(dict, err)
		})
		b, _ := json.Marshal(out)
		k := string(b)
		dup := false
		for _, o := range keys {
			if o == k {
				dup = true
			}
		}
		if !dup {
			keys = append(keys, k)
			distinct = append(distinct, seen{Out: out, Order: order})
		}
	}
	return map[string]any{"distinct": distinct}
}

func outcomeClass(o json.RawMessage) string {
	var m map[string]json.RawMessage
	if json.Unmarshal(o, &m) != nil {
		return "?"
	}
	if e, ok := m["err"]; ok {
		var s string
		json.Unmarshal(e, &s)
		return "err:" + s
	}
	if _, ok := m["panic"]; ok {
		return "panic"
	}
	if _, ok := m["ok"]; ok {
		return "ok"
	}
	return "?"
}

func judgeC05Order(args, real, drv json.RawMessage) *core.Verdict {
	if c := core.Class(real); c == "fatal" || c == "hang" {
		return core.CrashVerdict(real)
	}
	var r struct {
		Distinct []struct {
			Out   json.RawMessage `json:"out"`
			Order []string        `json:"order"`
		} `json:"distinct"`
	}
	if json.Unmarshal(real, &r) != nil || len(r.Distinct) == 0 {
		return core.Disagree("malformed c05.order outcome: " + string(real))
	}
	if len(r.Distinct) == 1 {
		return nil
	}
	// several outcomes: classify.  Two *different errors* are not a violation (which error is reported first may
	// depend on the order); an accepted and a rejected order, or two different accepted results, are.
	classes := map[string]bool{}
	oks := 0
	for _, d := range r.Distinct {
		c := outcomeClass(d.Out)
		classes[c] = true
		if c == "ok" {
			oks++
		}
	}
	if oks == 0 {
		return nil
	}
	var cl []string
	for c := range classes {
		cl = append(cl, c)
	}
	sort.Strings(cl)
	if oks > 1 {
		return core.Fail("order-dependent:result", fmt.Sprintf("visit orders %v and %v give different resolved services", r.Distinct[0].Order, r.Distinct[1].Order))
	}
	var a c05ApplyArgs
	json.Unmarshal(args, &a)
	return core.Fail("order-dependent:"+strings.Join(cl, "|")+":"+a.trackerClash(), fmt.Sprintf("the outcome of ApplyExtends depends on the visit order of the services map: %v → %s, %v → %s",
		r.Distinct[0].Order, outcomeClass(r.Distinct[0].Out), r.Distinct[1].Order, outcomeClass(r.Distinct[1].Out)))
}

func init() {
	core.Register("c05.apply", &core.CheckDef{
		Real:     realC05Apply,
		DriverOp: "c05.apply",
		DriverArgs: func(args, real json.RawMessage) any {
			var a c05ApplyArgs
			json.Unmarshal(args, &a)
			var r c05ApplyReal
			json.Unmarshal(real, &r)
			root := strings.TrimSuffix(r.Main, "/"+a.Main)
			return map[string]any{"main": r.Main, "dict": c05Subst(a.Dict, root), "fs": r.FS}
		},
		Judge:   judgeC05Apply,
		Timeout: 20 * time.Second,
	})
	core.Register("c05.extend", &core.CheckDef{
		Real:     realC05Extend,
		DriverOp: "c05.extend",
		Judge: func(args, real, drv json.RawMessage) *core.Verdict {
			if c := core.Class(real); c == "fatal" || c == "hang" {
				return core.Disagree("ExtendService died: " + string(real))
			}
			var d struct {
				Full  json.RawMessage `json:"full"`
				Plain json.RawMessage `json:"plain"`
			}
			if json.Unmarshal(drv, &d) != nil || d.Full == nil || d.Plain == nil {
				return core.Disagree("malformed driver outcome: " + string(drv))
			}
			if !core.CanonEqual(c05Norm(real), c05Norm(d.Full)) {
				return core.Disagree("Extends.mergeExtend (CV.Merge.extendService) ≠ override.ExtendService")
			}
			// the rule-free merge of Model/Extends.lean agrees with the full model wherever it is defined
			if !strings.Contains(string(d.Plain), `"err":"special"`) && !core.CanonEqual(c05Norm(d.Plain), c05Norm(d.Full)) {
				return core.Disagree("Extends.plainExtend ≠ Extends.mergeExtend on a rule-free input")
			}
			return nil
		},
	})
	core.Register("c05.tracker", &core.CheckDef{
		Real: func(raw json.RawMessage) any {
			var a c05TrackerArgs
			json.Unmarshal(raw, &a)
			return map[string]any{"rejected": loader.VerifTrackerAdd(a.Keys)}
		},
		DriverOp: "c05.tracker",
	})
	core.Register("c05.order", &core.CheckDef{Real: realC05Order, Judge: judgeC05Order, Timeout: 30 * time.Second})
	core.RegisterProp("C05", runC05)
}
