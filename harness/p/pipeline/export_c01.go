package pipeline

// add-only (round 6, C01): the pieces of the `pipeline.load` stream that the cross-file extends stream of C01
// (harness/p/c01/c01_pipefs.go) shares — document generators, the float tables handed to the model, the error-text →
// stage map, the judge.  Nothing here changes the behaviour of the streams of this package.

import (
	"encoding/json"
	"math/rand"

	"github.com/compose-spec/compose-go/v2/loader"

	"verifharness/core"
)

type Opts = plOpts

func GenService(r *rand.Rand, n int) M                      { return genService(r, n) }
func GenDoc(r *rand.Rand, svcNames []string, density int) M { return genDoc(r, svcNames, density) }
func GenEnv(r *rand.Rand) map[string]string                 { return genEnv(r) }
func GenOpts(r *rand.Rand) Opts                             { return genOpts(r) }
func OptsKind(o Opts) string                                { return optsKind(o) }
func StageOf(text string) string                            { return stageOf(text) }
func IsSchemaFormat(text string) bool                       { return reSchemaFormat.MatchString(text) }
func EncDocs(docs []M) []core.T                             { return encDocs(docs) }

// ModelInputs: what the model is handed besides the arguments (float reader on every substituted leaf of the given
// trees, the omitempty table, the environment as the loader left it).
func ModelInputs(trees []any, env map[string]string) M {
	lookup := func(k string) (string, bool) { v, ok := env[k]; return v, ok }
	rt := newRawTables()
	for _, t := range trees {
		floatTables(t, lookup, rt)
	}
	out := M{"env": env, "omit": loader.VerifOmitEmptyPatterns()}
	rt.into(out)
	return out
}

func Judge(args, real, drv json.RawMessage) *core.Verdict { return judge(args, real, drv) }
