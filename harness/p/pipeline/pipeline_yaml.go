package pipeline

// pipeline.loadY — the composed pipeline on YAML *text*: several files, each several `---` documents, with `!reset` /
// `!override` tags (model: Pipeline.loadY over C04's Reset.readDoc / applyNull).

import (
	"bytes"
	"context"
	"encoding/json"
	"fmt"
	"math/rand"
	"os"
	"sort"
	"strconv"
	"strings"
	"time"

	"github.com/compose-spec/compose-go/v2/loader"
	"github.com/compose-spec/compose-go/v2/types"

	"verifharness/core"
)

// yNode is a YAML node with an optional custom tag (wire format of C04's YNode).
type yNode struct {
	Tag    string
	Kind   string // "scalar", "seq", "map"
	Scalar any
	Seq    []*yNode
	Keys   []string
	Vals   []*yNode
}

func (d *yNode) wire() any {
	m := map[string]any{}
	if d.Tag != "" {
		m["t"] = d.Tag
	}
	switch d.Kind {
	case "scalar":
		m["v"] = core.EncodeVal(d.Scalar)
	case "seq":
		l := make([]any, len(d.Seq))
		for i, x := range d.Seq {
			l[i] = x.wire()
		}
		m["l"] = l
	case "map":
		l := make([]any, len(d.Keys))
		for i, k := range d.Keys {
			l[i] = []any{k, d.Vals[i].wire()}
		}
		m["m"] = l
	}
	return m
}

func nodeFromWire(raw json.RawMessage) *yNode {
	var m map[string]json.RawMessage
	if json.Unmarshal(raw, &m) != nil {
		return &yNode{Kind: "scalar"}
	}
	d := &yNode{}
	if t, ok := m["t"]; ok {
		json.Unmarshal(t, &d.Tag)
	}
	if l, ok := m["l"]; ok {
		d.Kind = "seq"
		var items []json.RawMessage
		json.Unmarshal(l, &items)
		for _, it := range items {
			d.Seq = append(d.Seq, nodeFromWire(it))
		}
		return d
	}
	if mm, ok := m["m"]; ok {
		d.Kind = "map"
		var items [][]json.RawMessage
		json.Unmarshal(mm, &items)
		for _, it := range items {
			if len(it) != 2 {
				continue
			}
			var k string
			json.Unmarshal(it[0], &k)
			d.Keys = append(d.Keys, k)
			d.Vals = append(d.Vals, nodeFromWire(it[1]))
		}
		return d
	}
	d.Kind = "scalar"
	if v, ok := m["v"]; ok {
		d.Scalar = core.DecodeValRaw(v)
	}
	return d
}

func yamlQuote(s string) string {
	var b bytes.Buffer
	enc := json.NewEncoder(&b)
	enc.SetEscapeHTML(false)
	enc.Encode(s)
	return strings.TrimRight(b.String(), "\n")
}

// yaml renders the node in flow style; strings are always double-quoted, so no implicit typing applies to them.
func (d *yNode) yaml() string {
	tag := ""
	if d.Tag != "" {
		tag = "!" + d.Tag + " "
	}
	switch d.Kind {
	case "seq":
		parts := make([]string, len(d.Seq))
		for i, x := range d.Seq {
			parts[i] = x.yaml()
		}
		return tag + "[" + strings.Join(parts, ", ") + "]"
	case "map":
		parts := make([]string, len(d.Keys))
		for i, k := range d.Keys {
			parts[i] = yamlQuote(k) + ": " + d.Vals[i].yaml()
		}
		return tag + "{" + strings.Join(parts, ", ") + "}"
	}
	switch x := d.Scalar.(type) {
	case nil:
		return tag + "null"
	case bool:
		return tag + strconv.FormatBool(x)
	case int:
		return tag + strconv.Itoa(x)
	case float64:
		s := strconv.FormatFloat(x, 'g', -1, 64)
		if !strings.ContainsAny(s, ".e") {
			s += ".0"
		}
		return tag + s
	case string:
		return tag + yamlQuote(x)
	}
	return tag + yamlQuote(fmt.Sprint(d.Scalar))
}

func nodeOf(v any) *yNode {
	switch x := v.(type) {
	case []any:
		d := &yNode{Kind: "seq"}
		for _, e := range x {
			d.Seq = append(d.Seq, nodeOf(e))
		}
		return d
	case map[string]any:
		d := &yNode{Kind: "map"}
		ks := make([]string, 0, len(x))
		for k := range x {
			ks = append(ks, k)
		}
		sort.Strings(ks)
		for _, k := range ks {
			d.Keys = append(d.Keys, k)
			d.Vals = append(d.Vals, nodeOf(x[k]))
		}
		return d
	}
	return &yNode{Kind: "scalar", Scalar: v}
}

// tagNode sprinkles !reset / !override over a document (never on the root, never inside a tagged node; !override only
// on strings and collections: yaml.v3 decodes any other scalar that carries a custom tag as a string).
func tagNode(r *rand.Rand, d *yNode, depth int, rate int) *yNode {
	if d.Kind == "map" {
		for _, k := range d.Keys {
			if k == "extends" {
				// out of the composed model's domain: ApplyExtends hands the !reset / !override processors to the
				// merge of base and service (loader.applyServiceExtends), so a tag at or below a service that extends
				// another acts inside the extends stage too; `Pipeline.loadY` applies the tags to the accumulated model
				// only (design/PIPELINE.md, "Out of scope").  No tag at or below such a service.
				return d
			}
		}
	}
	if depth > 0 && r.Intn(rate) == 0 {
		c := *d
		if r.Intn(2) == 0 {
			c.Tag = "reset"
			return &c
		}
		_, isStr := d.Scalar.(string)
		if d.Kind != "scalar" || isStr {
			c.Tag = "override"
			return &c
		}
	}
	switch d.Kind {
	case "seq":
		c := &yNode{Kind: "seq"}
		for _, x := range d.Seq {
			c.Seq = append(c.Seq, tagNode(r, x, depth+1, rate))
		}
		return c
	case "map":
		c := &yNode{Kind: "map", Keys: d.Keys}
		for _, x := range d.Vals {
			c.Vals = append(c.Vals, tagNode(r, x, depth+1, rate))
		}
		return c
	}
	return d
}

type plYArgs struct {
	Files [][]any           `json:"files"`
	Opts  plOpts            `json:"opts"`
	Env   map[string]string `json:"env"`
	Name  string            `json:"name"`
	Wd    string            `json:"wd"`
	Home  string            `json:"home"`
	Main  string            `json:"mainFile"`
}

func realLoadY(raw json.RawMessage) any {
	var a struct {
		Files [][]json.RawMessage `json:"files"`
		Opts  plOpts              `json:"opts"`
		Env   map[string]string   `json:"env"`
		Name  string              `json:"name"`
		Wd    string              `json:"wd"`
		Home  string              `json:"home"`
	}
	if err := json.Unmarshal(raw, &a); err != nil {
		return M{"bad": err.Error()}
	}
	if a.Home == "" {
		os.Unsetenv("HOME")
	} else {
		os.Setenv("HOME", a.Home)
	}
	env := map[string]string{}
	for k, v := range a.Env {
		env[k] = v
	}
	details := types.ConfigDetails{WorkingDir: a.Wd, Environment: env}
	var texts []string
	var trees []any
	for i, f := range a.Files {
		var docs []string
		for _, d := range f {
			n := nodeFromWire(d)
			docs = append(docs, n.yaml())
			trees = append(trees, plain(n))
		}
		text := strings.Join(docs, "\n---\n") + "\n"
		texts = append(texts, text)
		details.ConfigFiles = append(details.ConfigFiles, types.ConfigFile{Filename: fmt.Sprintf("%s/f%d.yaml", a.Wd, i), Content: []byte(text)})
	}
	dict, err := loader.LoadModelWithContext(context.Background(), details, func(o *loader.Options) {
		o.SkipExtends, o.SkipInclude = !a.Opts.Extends, true
		o.SkipInterpolation = a.Opts.SkipInterpolation
		o.SkipValidation = a.Opts.SkipValidation
		o.SkipDefaultValues = a.Opts.SkipDefaultValues
		o.ResolvePaths = a.Opts.ResolvePaths
		o.SkipNormalization = a.Opts.SkipNormalization
		o.SetProjectName(a.Name, true)
	})
	lookup := func(k string) (string, bool) { v, ok := env[k]; return v, ok }
	rt := newRawTables()
	for _, t := range trees {
		floatTables(t, lookup, rt)
	}
	out := M{"env": env, "omit": loader.VerifOmitEmptyPatterns(), "texts": texts}
	rt.into(out)
	if err != nil {
		out["err"] = stageOf(err.Error())
		out["text"] = err.Error()
		if reSchemaFormat.MatchString(err.Error()) {
			out["format"] = true
		}
	} else {
		out["ok"] = core.EncodeVal(dict)
	}
	return out
}

// plain is the node's tree with the tags ignored (only used to enumerate the string leaves for the float reader)
func plain(n *yNode) any {
	switch n.Kind {
	case "seq":
		l := make([]any, len(n.Seq))
		for i, x := range n.Seq {
			l[i] = plain(x)
		}
		return l
	case "map":
		m := map[string]any{}
		for i, k := range n.Keys {
			m[k] = plain(n.Vals[i])
		}
		return m
	}
	return n.Scalar
}

func addCaseY(ctx *core.Ctx, kind string, files [][]*yNode, o plOpts, env map[string]string, name, wd, home string) {
	ctx.Count("pipelineY:" + kind)
	ctx.Count("pipelineY:" + optsKind(o))
	nd, tags := 0, 0
	w := make([][]any, len(files))
	for i, f := range files {
		w[i] = make([]any, len(f))
		for j, d := range f {
			w[i][j] = d.wire()
			nd++
			tags += countTags(d)
		}
	}
	ctx.Count(fmt.Sprintf("pipelineY:files=%d", len(files)))
	ctx.Count(fmt.Sprintf("pipelineY:docs=%d", nd))
	if tags == 0 {
		ctx.Count("pipelineY:tags=0")
	} else {
		ctx.Count("pipelineY:tags>0")
	}
	ctx.Add("pipeline.loadY", plYArgs{Files: w, Opts: o, Env: env, Name: name, Wd: wd, Home: home, Main: wd + "/f0.yaml"})
}

func countTags(d *yNode) int {
	n := 0
	if d.Tag != "" {
		n++
	}
	for _, x := range d.Seq {
		n += countTags(x)
	}
	for _, x := range d.Vals {
		n += countTags(x)
	}
	return n
}

// StreamY: random layered documents, split into files × documents at random, tags sprinkled over the non-first documents.
func StreamY(ctx *core.Ctx) {
	r := ctx.Rng
	wd, home := "/nonexistent-verif/proj", "/nonexistent-verif/home"
	n := ctx.Pick(1200, 30000)
	for i := 0; i < n; i++ {
		total := 1 + r.Intn(4)
		var files [][]*yNode
		var cur []*yNode
		for j := 0; j < total; j++ {
			d := nodeOf(genDoc(r, []string{"a", "b", "c"}, 1+r.Intn(6)))
			if j > 0 && r.Intn(3) > 0 {
				d = tagNode(r, d, 0, 6+r.Intn(10))
			}
			cur = append(cur, d)
			if r.Intn(2) == 0 {
				files = append(files, cur)
				cur = nil
			}
		}
		if len(cur) > 0 {
			files = append(files, cur)
		}
		addCaseY(ctx, "layered", files, genOpts(r), genEnv(r), "proj", wd, home)
	}
	// the metamorphic pair behind `loadY_flatten`: the same documents as one file and as one file each — checked on the real code
	m := ctx.Pick(200, 4000)
	for i := 0; i < m; i++ {
		var docs []*yNode
		for j := 1 + r.Intn(3); j >= 0; j-- {
			d := nodeOf(genDoc(r, []string{"a", "b"}, 1+r.Intn(5)))
			if len(docs) > 0 {
				d = tagNode(r, d, 0, 8)
			}
			docs = append(docs, d)
		}
		o, env := genOpts(r), genEnv(r)
		addCaseY(ctx, "one-file", [][]*yNode{docs}, o, env, "proj", wd, home)
		split := make([][]*yNode, len(docs))
		for k, d := range docs {
			split[k] = []*yNode{d}
		}
		addCaseY(ctx, "file-per-document", split, o, env, "proj", wd, home)
	}
	// degenerate: a root-level !reset (nothing left to decode: not a mapping), an empty file list
	addCaseY(ctx, "degenerate", [][]*yNode{{{Kind: "map", Tag: "reset"}}}, plOpts{ResolvePaths: true}, map[string]string{}, "proj", wd, home)
	addCaseY(ctx, "degenerate", [][]*yNode{}, plOpts{ResolvePaths: true}, map[string]string{}, "proj", wd, home)
	addCaseY(ctx, "degenerate", [][]*yNode{{nodeOf(M{"services": M{"a": M{"image": "x"}}}), {Kind: "scalar", Scalar: "text"}}}, plOpts{ResolvePaths: true}, map[string]string{}, "proj", wd, home)
}

func driverArgsY(args, real json.RawMessage) any { return driverArgs(args, real) }

func init() {
	core.Register("pipeline.loadY", &core.CheckDef{
		Real:       realLoadY,
		DriverOp:   "pipeline.loadY",
		DriverArgs: driverArgsY,
		Judge:      judge,
		Timeout:    20 * time.Second,
	})
	core.RegisterProp("PIPEY", StreamY)
	core.RegisterPropExtra("C04", StreamY)
	core.RegisterPropExtra("C01", StreamY)
}
