package pipeline

// The composed loader pipeline (lean/ComposeVerif/Model/Pipeline.lean) against loader.LoadModelWithContext.
//
//	pipeline.load   LoadModelWithContext(ConfigFiles = already-parsed documents, SkipExtends, SkipInclude)
//	                vs  Pipeline.load   (the glue of loadYamlFile / loadYamlModel / load over the owners' stage models)
//
// This is the one correspondence stream in which *every dictionary stage runs in the order and under the option flags of the
// real loader*, on the tree the previous stage really produced: the per-stage streams of the owners tie each stage model to
// its Go function, this one ties the composition (and the glue no stage owns: option flags, `version` dropped only under
// validation, `name` forced before Normalize, ResolveEnvironment after path resolution, empty-model / empty-name errors).
// It runs as an extra stream of C01 (totality of the whole pipeline) and C02 (determinism of the whole pipeline).

import (
	"context"
	"encoding/json"
	"fmt"
	"math/rand"
	"os"
	"regexp"
	"sort"
	"strconv"
	"strings"
	"time"

	"github.com/compose-spec/compose-go/v2/loader"
	"github.com/compose-spec/compose-go/v2/template"
	"github.com/compose-spec/compose-go/v2/types"

	"verifharness/core"
)

type M = map[string]any
type L = []any

type plOpts struct {
	SkipInterpolation bool `json:"skipInterpolation"`
	SkipValidation    bool `json:"skipValidation"`
	SkipDefaultValues bool `json:"skipDefaultValues"`
	ResolvePaths      bool `json:"resolvePaths"`
	SkipNormalization bool `json:"skipNormalization"`
	Extends           bool `json:"extends"` // !SkipExtends (same-file bases only can resolve)
}

type plArgs struct {
	Docs []core.T          `json:"docs"`
	Opts plOpts            `json:"opts"`
	Env  map[string]string `json:"env"`
	Name string            `json:"name"`
	Wd   string            `json:"wd"`
	Home string            `json:"home"`
	Main string            `json:"mainFile"`
}

func fmt64(f float64) string { return strconv.FormatFloat(f, 'g', -1, 64) }
func fmt32(f float32) string { return strconv.FormatFloat(float64(f), 'g', -1, 32) }

// rawTables is the opaque part of the model's float casters (Model/InterpFloat.lean `RawFloat`; same rendering as the C08
// harness): strconv.ParseFloat on a text and on the text without underscores, and the conversions float64(i) /
// float32(float64(i)) of every integer some reading of the text yields.  Which reading applies is the model's business.
type rawTables struct {
	P64 map[string]string
	P32 map[string]string
	I64 map[string]string
	I32 map[string]string
}

func newRawTables() *rawTables {
	return &rawTables{P64: map[string]string{}, P32: map[string]string{}, I64: map[string]string{}, I32: map[string]string{}}
}

func (t *rawTables) addInt(dec string, f float64) {
	t.I64[dec] = fmt64(f)
	t.I32[dec] = fmt32(float32(f))
}

func (t *rawTables) add(s string) {
	plain := strings.ReplaceAll(s, "_", "")
	for _, x := range []string{s, plain} {
		if f, err := strconv.ParseFloat(x, 64); err == nil {
			t.P64[x] = fmt64(f)
		}
		if f, err := strconv.ParseFloat(x, 32); err == nil {
			t.P32[x] = fmt32(float32(f))
		}
	}
	for _, base := range []int{0, 2, 8, 10} {
		if i, err := strconv.ParseInt(plain, base, 64); err == nil {
			t.addInt(strconv.FormatInt(i, 10), float64(i))
		}
	}
	if u, err := strconv.ParseUint(plain, 0, 64); err == nil {
		t.addInt(strconv.FormatUint(u, 10), float64(u))
	}
	// whatever the real integer caster reads (yaml.v3's sign-after-prefix spellings `0b+1`, `0o-7`)
	for pat, c := range loader.VerifCastTable() {
		if string(pat) == "services.*.cpu_count" {
			if v, err := c(s); err == nil {
				if i, ok := v.(int64); ok {
					t.addInt(strconv.FormatInt(i, 10), float64(i))
				}
			}
		}
	}
}

func (t *rawTables) into(out M) {
	out["p64"], out["p32"], out["i64"], out["i32"] = t.P64, t.P32, t.I64, t.I32
}

func floatTables(v any, lookup template.Mapping, t *rawTables) {
	switch x := v.(type) {
	case string:
		s, err := template.Substitute(x, lookup)
		if err != nil {
			return
		}
		t.add(s)
	case map[string]any:
		for _, e := range x {
			floatTables(e, lookup, t)
		}
	case []any:
		for _, e := range x {
			floatTables(e, lookup, t)
		}
	}
}

var (
	reSchemaFormat = regexp.MustCompile(`Does not match format|does not match format`)
)

// stageOf maps an error text of the loader to the stage of the model that reports it ("" = not recognised).
func stageOf(text string) string {
	switch {
	case strings.Contains(text, "No files specified"):
		return "nofiles"
	case strings.Contains(text, "empty compose file"):
		return "empty"
	case strings.Contains(text, "project name must not be empty"):
		return "name"
	case strings.HasPrefix(text, "validating "):
		return "schema"
	case strings.Contains(text, "cannot override"):
		return "merge"
	case strings.Contains(text, "invalid interpolation format"), strings.Contains(text, "error while interpolating"),
		strings.Contains(text, "required variable"):
		return "interpolate"
	case strings.Contains(text, "cannot extend service"), strings.Contains(text, "ircular reference"), strings.Contains(text, "extends"):
		return "extends"
	}
	return ""
}

func realLoad(raw json.RawMessage) any {
	var a struct {
		Docs []json.RawMessage `json:"docs"`
		Opts plOpts            `json:"opts"`
		Env  map[string]string `json:"env"`
		Name string            `json:"name"`
		Wd   string            `json:"wd"`
		Home string            `json:"home"`
	}
	if err := json.Unmarshal(raw, &a); err != nil {
		return M{"bad": err.Error()}
	}
	if a.Home == "" {
		os.Unsetenv("HOME")
	} else {
		os.Setenv("HOME", a.Home)
	}
	env := map[string]string{}
	for k, v := range a.Env {
		env[k] = v
	}
	details := types.ConfigDetails{WorkingDir: a.Wd, Environment: env}
	var trees []any
	for i, d := range a.Docs {
		t, ok := core.DecodeValRaw(d).(map[string]any)
		if !ok {
			return M{"bad": "document is not a mapping"}
		}
		trees = append(trees, core.DeepCopyVal(t))
		details.ConfigFiles = append(details.ConfigFiles, types.ConfigFile{Filename: fmt.Sprintf("%s/f%d.yaml", a.Wd, i), Config: t})
	}
	dict, err := loader.LoadModelWithContext(context.Background(), details, func(o *loader.Options) {
		o.SkipExtends, o.SkipInclude = !a.Opts.Extends, true
		o.SkipInterpolation = a.Opts.SkipInterpolation
		o.SkipValidation = a.Opts.SkipValidation
		o.SkipDefaultValues = a.Opts.SkipDefaultValues
		o.ResolvePaths = a.Opts.ResolvePaths
		o.SkipNormalization = a.Opts.SkipNormalization
		o.SetProjectName(a.Name, true)
	})
	// what the model is handed besides the arguments: the environment as `projectName` leaves it (it stores
	// COMPOSE_PROJECT_NAME: the C17 model's business), the float reader on every substituted leaf, the omitempty table
	lookup := func(k string) (string, bool) { v, ok := env[k]; return v, ok }
	rt := newRawTables()
	for _, t := range trees {
		floatTables(t, lookup, rt)
	}
	out := M{"env": env, "omit": loader.VerifOmitEmptyPatterns()}
	rt.into(out)
	if err != nil {
		out["err"] = stageOf(err.Error())
		out["text"] = err.Error()
		if reSchemaFormat.MatchString(err.Error()) {
			out["format"] = true
		}
	} else {
		out["ok"] = core.EncodeVal(dict)
	}
	return out
}

func driverArgs(args, real json.RawMessage) any {
	var a map[string]json.RawMessage
	json.Unmarshal(args, &a)
	var r map[string]json.RawMessage
	json.Unmarshal(real, &r)
	out := M{}
	for k, v := range a {
		out[k] = v
	}
	for _, k := range []string{"env", "p64", "p32", "i64", "i32", "omit"} {
		if v, ok := r[k]; ok {
			out[k] = v
		}
	}
	out["remotes"] = []string{}
	return out
}

func judge(args, real, drv json.RawMessage) *core.Verdict {
	switch core.Class(real) {
	case "fatal", "hang":
		return core.CrashVerdict(real)
	case "panic":
		// a Go panic of the whole pipeline is a violation of C01 whatever the model says
		return core.CrashVerdict(real)
	}
	var r struct {
		Ok     json.RawMessage `json:"ok"`
		Err    *string         `json:"err"`
		Text   string          `json:"text"`
		Format bool            `json:"format"`
		Bad    string          `json:"bad"`
	}
	if err := json.Unmarshal(real, &r); err != nil || r.Bad != "" {
		return core.Skip("bad case: " + r.Bad)
	}
	var d struct {
		Ok    json.RawMessage `json:"ok"`
		Err   *string         `json:"err"`
		Panic *string         `json:"panic"`
		Bad   string          `json:"bad"`
	}
	if err := json.Unmarshal(drv, &d); err != nil || d.Bad != "" {
		return core.Disagree("driver rejected the case: " + d.Bad)
	}
	if r.Format {
		return core.Skip("schema format checker (duration / ports / expose / subnet): formats are outside the schema model")
	}
	switch {
	case d.Panic != nil:
		return core.Disagree("model predicts a panic at " + *d.Panic + ", the real pipeline returned normally")
	case r.Err != nil && d.Err != nil:
		if *r.Err != "" && *r.Err != *d.Err && orderDependentFailure(args, *r.Err, *d.Err) {
			// several services fail inside ApplyExtends' loop over the services map (a missing base, a base file that does
			// not interpolate, a merge that fails): the real code reports whichever Go's map iteration meets first, the
			// model the first in list order.  Both agree that the load fails; which failure is named is not decided by
			// the input (DESIGN §15.9) — a counted skip, never a disagreement.
			return core.Skip("several services fail under extends: the failure reported depends on Go's map iteration order")
		}
		if *r.Err != "" && *r.Err != *d.Err {
			return core.Disagree(fmt.Sprintf("both fail, at different stages: real %q (%s), model %q", *r.Err, clip(r.Text), *d.Err))
		}
		return nil
	case r.Err != nil:
		return core.Disagree(fmt.Sprintf("real fails (%s: %s), model loads", *r.Err, clip(r.Text)))
	case d.Err != nil:
		return core.Disagree("model fails at stage " + *d.Err + ", real loads")
	}
	a, _ := json.Marshal(M{"ok": r.Ok})
	b, _ := json.Marshal(M{"ok": d.Ok})
	if !core.CanonEqual(a, b) {
		return core.Disagree("both load, different models")
	}
	return nil
}

// orderDependentFailure: extends is on and both failures belong to the per-service loop of ApplyExtends (the nested load of
// a base file interpolates and merges), so more than one service may fail and the map order picks the one reported.
func orderDependentFailure(args json.RawMessage, realStage, modelStage string) bool {
	var a struct {
		Opts struct {
			Extends bool `json:"extends"`
		} `json:"opts"`
	}
	if json.Unmarshal(args, &a) != nil || !a.Opts.Extends {
		return false
	}
	loop := map[string]bool{"extends": true, "interpolate": true, "merge": true}
	return loop[realStage] && loop[modelStage]
}

func clip(s string) string {
	if len(s) > 160 {
		return s[:160]
	}
	return s
}

// ---------------------------------------------------------------- generators

var svcCatalogue = map[string][]any{
	"image":             {"alpine", "${IMG}", "${IMG:-busybox}", "r/${TAG-x}:1"},
	"command":           {"", "echo a", L{"echo", "a"}, nil, L{}, "echo ${V}"},
	"entrypoint":        {"/bin/sh -c", L{"sh"}},
	"build":             {".", "./dir", M{"context": "./ctx", "dockerfile": "D", "args": M{"A": "1", "B": nil}}, M{"context": "https://example.com/r.git", "args": L{"A=1", "B"}}, M{"dockerfile_inline": "FROM x", "ssh": L{"default"}, "additional_contexts": L{"c=./d"}}, M{"context": "~/c", "additional_contexts": M{"c": "./d", "e": "docker-image://x"}}},
	"environment":       {L{"A=1", "A=2", "B=1", "B=2"}, L{"B=3", "C", "A"}, L{"A", 1}, L{"A=1", "B", "V"}, M{"A": "1", "B": nil, "C": "${V}"}, L{"A=${V:-d}", "HOMEV"}},
	"env_file":          {L{"a.env", "a.env", "b.env", "b.env"}, L{M{"path": "a.env"}, "a.env"}, "a.env", L{"a.env", "b.env"}, L{M{"path": "c.env", "required": false}, "d.env"}, L{M{"path": "./e.env", "format": "raw"}}},
	"labels":            {L{"a=1", "a=2", "c=1", "c=2"}, L{"c=3", "a"}, M{"a": "b"}, L{"a=b", "c"}, M{"x": 1, "y": true}},
	"label_file":        {"l.labels", L{"l1", "./l2"}},
	"ports":             {L{"80", "80", "81/udp", "81/udp"}, L{M{"target": 80, "protocol": "tcp"}, M{"target": 80}}, L{"80-81-82"}, L{"80/tcp/x"}, L{"80"}, L{"8080:80", "127.0.0.1:81:81/udp"}, L{8080}, L{M{"target": 80, "published": "8080", "protocol": "tcp", "mode": "host"}}, L{"3000-3002:3000-3002"}, L{M{"target": 80}, "80"}},
	"expose":            {L{"80", 81}, L{"80/udp"}},
	"volumes":           {L{"./a:/data", "./b:/data", "./c:/e", "./d:/e"}, L{"a:b:c:d"}, L{"./data:/data:ro,z,rshared"}, L{"./data:/data"}, L{"data:/data:ro"}, L{"/abs:/c:z"}, L{M{"type": "bind", "source": "./src", "target": "/t"}}, L{M{"type": "volume", "source": "data", "target": "/d", "volume": M{"nocopy": true}}}, L{"~/h:/h"}, L{"/anon"}, L{M{"type": "tmpfs", "target": "/tmp", "tmpfs": M{"size": "1m"}}}},
	"networks":          {L{"n1"}, M{"n1": nil}, M{"n1": M{"aliases": L{"a"}, "priority": 2}, "n2": M{}}, L{"n1", "n2"}},
	"depends_on":        {L{"b", "c", "b"}, M{"c": M{"condition": "service_completed_successfully"}}, L{"b"}, M{"b": M{"condition": "service_healthy"}}, M{"b": M{"condition": "service_started", "restart": true, "required": false}}, L{"b", "c"}},
	"deploy":            {M{"replicas": 2}, M{"resources": M{"limits": M{"cpus": "0.5", "memory": "10M"}}}, M{"replicas": "${N:-1}"}, M{"resources": M{"reservations": M{"devices": L{M{"capabilities": L{"gpu"}, "count": "all"}}}}}},
	"healthcheck":       {M{"test": "curl x", "interval": "10s"}, M{"test": L{"CMD", "true"}, "retries": 3}, M{"disable": true}, M{"test": L{"NONE"}}},
	"logging":           {M{"driver": "syslog"}, M{"driver": "json-file", "options": M{"max-size": "2m", "x": "y"}}, M{"driver": "json-file", "options": M{"max-size": "1m"}}, M{"options": M{"a": 1}}},
	"ulimits":           {M{"nofile": nil}, M{"nofile": -1}, M{"nofile": 1024}, M{"nofile": M{"soft": 1, "hard": 2}, "nproc": "3"}},
	"secrets":           {L{"s1", "s1", "s2", "s2"}, L{M{"source": "s1"}, "s1"}, L{"s1"}, L{M{"source": "s1", "target": "/t", "mode": 288}}},
	"configs":           {L{"c1"}, L{M{"source": "c1", "target": "/c"}}},
	"extra_hosts":       {L{"h:1.2.3.4", "h:5.6.7.8", "g=::1"}, L{1}, M{}, L{"h:1.2.3.4"}, M{"h": "1.2.3.4"}, M{"h": L{"1.2.3.4", "::1"}}, L{"h=1.2.3.4"}},
	"dns":               {"1.1.1.1", L{"1.1.1.1", ""}, L{}},
	"dns_search":        {"s", L{"s"}},
	"tmpfs":             {"/t", L{"/t", "/u"}},
	"sysctls":           {M{"a": 1}, L{"a=1"}},
	"cap_add":           {L{"A", "B", "A", "B"}, L{"ALL", "ALL"}, L{"NET_ADMIN"}},
	"devices":           {L{"/dev/a"}, L{"/dev/a:/dev/b:rw:x"}, L{"a:b:c:d:e"}, L{"/dev/a:/dev/b:rw"}, L{M{"source": "/dev/a", "target": "/dev/b"}}},
	"profiles":          {L{"p"}, L{"p", "q"}},
	"container_name":    {"c1", "${V}"},
	"privileged":        {true, "true", "${B:-false}"},
	"read_only":         {false, "yes"},
	"mem_limit":         {"10m", 1024, "${MEM:-1g}"},
	"cpus":              {0.5, "0.5", "${CPUS:-1}"},
	"scale":             {2, "2"},
	"stop_grace_period": {"10s", "1m30s"},
	"restart":           {"always", "on-failure:3"},
	"pid":               {"host", "service:b"},
	"network_mode":      {"host", "service:b", "none"},
	"ipc":               {"shareable", "service:b"},
	"volumes_from":      {L{"b", "container:x:ro"}},
	"links":             {L{"b", "b:alias"}},
	"external_links":    {L{"x:y"}},
	"annotations":       {M{"a": "b"}, L{"a=b"}},
	"hostname":          {"h"},
	"user":              {"1000:1000", "${UID:-0}"},
	"working_dir":       {"/w"},
	"platform":          {"linux/amd64"},
	"pull_policy":       {"always"},
	"init":              {true},
	"tty":               {"on"},
	"stdin_open":        {true},
	"shm_size":          {"64m", 1024},
	"develop":           {M{"watch": L{M{"path": "./src", "action": "sync", "target": "/t"}, M{"path": "p", "action": "rebuild", "ignore": L{"x"}}}}},
	"post_start":        {L{M{"command": "echo a"}, M{"command": L{"echo", "b"}, "user": "u"}}},
	"blkio_config":      {M{"weight": 10, "device_read_bps": L{M{"path": "/dev/a", "rate": "1mb"}}}},
	"credential_spec":   {M{"file": "f.json"}, M{"registry": "r"}},
	"gpus":              {"all", L{M{"count": 1}}},
	"extends":           {"b", M{"service": "c"}, M{"service": "a"}, M{"service": "b", "file": "other.yaml"}, "nosuch", M{"service": "c"}},
	"x-custom":          {M{"a": L{1, "two"}}, "v", nil},
}

var topCatalogue = map[string][]any{
	"networks": {M{"n1": nil}, M{"n1": M{"driver": "bridge"}, "n2": M{"external": true}}, M{"n1": M{"ipam": M{"config": L{M{"subnet": "10.0.0.0/24"}}}}, "n2": M{"name": "real", "external": "true"}}, M{"default": M{"name": "${NET:-d}"}}},
	"volumes":  {M{"data": nil}, M{"data": M{"driver": "local", "driver_opts": M{"o": 1}}}, M{"data": M{"external": true, "name": "ext"}}, M{"data": M{"labels": L{"a=b"}}}},
	"secrets":  {M{"s1": M{"file": "./s.txt"}}, M{"s1": M{"environment": "SECRET"}}, M{"s1": M{"external": true}}, M{"s1": M{"file": "~/s"}, "s2": M{"environment": ""}}},
	"configs":  {M{"c1": M{"file": "./c.txt"}}, M{"c1": M{"content": "inline ${V}"}}, M{"c1": M{"environment": "CFG"}}, M{"c1": M{"external": true, "name": "x"}}},
	"version":  {"3.8", "2"},
	"name":     {"proj", "${PN:-x}"},
	"x-top":    {M{"k": "v"}, L{1, 2}},
	"include":  {L{"inc.yaml"}},
}

var envPool = map[string][]string{
	"V": {"val", "", "a b", "$x"}, "IMG": {"nginx"}, "TAG": {"2", ""}, "N": {"3", "x"}, "B": {"true", "yes", "maybe"}, "MEM": {"512m", "1_000"},
	"CPUS": {"1.5", "0x10", "abc"}, "UID": {"1000"}, "PN": {"myproj"}, "NET": {"net0"}, "SECRET": {"s3cr3t"}, "CFG": {"cfg body"}, "HOMEV": {"/root"},
	"A": {"from-env"}, "B2": {"x"}, "c": {"label-from-env"},
}

func keysOf[V any](m map[string]V) []string {
	ks := make([]string, 0, len(m))
	for k := range m {
		ks = append(ks, k)
	}
	sort.Strings(ks)
	return ks
}

func genService(r *rand.Rand, n int) M {
	s := M{}
	ks := keysOf(svcCatalogue)
	for i := 0; i < n; i++ {
		k := ks[r.Intn(len(ks))]
		vs := svcCatalogue[k]
		s[k] = core.DeepCopyVal(vs[r.Intn(len(vs))])
	}
	if r.Intn(4) > 0 {
		if _, ok := s["image"]; !ok {
			if _, ok := s["build"]; !ok {
				s["image"] = "alpine"
			}
		}
	}
	return s
}

func genDoc(r *rand.Rand, svcNames []string, density int) M {
	d := M{}
	svcs := M{}
	for _, n := range svcNames {
		if r.Intn(5) == 0 {
			continue
		}
		svcs[n] = genService(r, r.Intn(density+1))
	}
	if len(svcs) > 0 || r.Intn(3) > 0 {
		d["services"] = svcs
	}
	ks := keysOf(topCatalogue)
	for i := r.Intn(3); i > 0; i-- {
		k := ks[r.Intn(len(ks))]
		vs := topCatalogue[k]
		d[k] = core.DeepCopyVal(vs[r.Intn(len(vs))])
	}
	return d
}

func genEnv(r *rand.Rand) map[string]string {
	e := map[string]string{}
	for _, k := range keysOf(envPool) {
		if r.Intn(2) == 0 {
			vs := envPool[k]
			e[k] = vs[r.Intn(len(vs))]
		}
	}
	return e
}

func genOpts(r *rand.Rand) plOpts {
	o := plOpts{ResolvePaths: true, Extends: r.Intn(2) == 0}
	if r.Intn(3) == 0 { // non-default flag combinations
		o.SkipInterpolation = r.Intn(3) == 0
		o.SkipValidation = r.Intn(3) == 0
		o.SkipDefaultValues = r.Intn(3) == 0
		o.ResolvePaths = r.Intn(3) > 0
		o.SkipNormalization = r.Intn(3) == 0
	}
	return o
}

func optsKind(o plOpts) string {
	if o == (plOpts{ResolvePaths: true, Extends: true}) {
		return "opts:default"
	}
	s := "opts:"
	if !o.Extends {
		s += "noExtends,"
	}
	for _, f := range []struct {
		b bool
		n string
	}{{o.SkipInterpolation, "noInterp,"}, {o.SkipValidation, "noValid,"}, {o.SkipDefaultValues, "noDefaults,"}, {!o.ResolvePaths, "noPaths,"}, {o.SkipNormalization, "noNorm,"}} {
		if f.b {
			s += f.n
		}
	}
	return s
}

func encDocs(docs []M) []core.T {
	out := make([]core.T, len(docs))
	for i, d := range docs {
		out[i] = core.EncodeVal(d)
	}
	return out
}

func addCase(ctx *core.Ctx, kind string, docs []M, o plOpts, env map[string]string, name, wd, home string) {
	ctx.Count("pipeline:" + kind)
	ctx.Count("pipeline:" + optsKind(o))
	ctx.Count(fmt.Sprintf("pipeline:docs=%d", len(docs)))
	ctx.Add("pipeline.load", plArgs{Docs: encDocs(docs), Opts: o, Env: env, Name: name, Wd: wd, Home: home, Main: wd + "/f0.yaml"})
}

// Stream is the extra stream registered for C01 and C02.
func Stream(ctx *core.Ctx) {
	r := ctx.Rng
	wds := []string{"/nonexistent-verif/proj", "/nonexistent-verif/a/../b", "/"}
	homes := []string{"/nonexistent-verif/home", "", "/h"}
	names := []string{"proj", "a-b_c", "p1", ""}
	// 1. every catalogue variant alone, default options (a variant that does not load alone is still a valid case: both sides must agree)
	if ctx.Prop == "C01" || ctx.Thorough() {
		for _, k := range keysOf(svcCatalogue) {
			for _, v := range svcCatalogue[k] {
				svc := M{"image": "alpine", k: core.DeepCopyVal(v)}
				addCase(ctx, "single-attribute", []M{{"services": M{"a": svc, "b": M{"image": "x"}, "c": M{"image": "y"}}}}, plOpts{ResolvePaths: true}, map[string]string{"V": "val"}, "proj", wds[0], homes[0])
			}
		}
		for _, k := range keysOf(topCatalogue) {
			for _, v := range topCatalogue[k] {
				addCase(ctx, "single-top", []M{{"services": M{"a": M{"image": "alpine"}}, k: core.DeepCopyVal(v)}}, plOpts{ResolvePaths: true}, map[string]string{"V": "val"}, "proj", wds[0], homes[0])
			}
		}
	}
	// 2. random layered documents, mostly default options
	n := ctx.Pick(1500, 40000)
	for i := 0; i < n; i++ {
		nd := 1 + r.Intn(3)
		docs := make([]M, nd)
		for j := range docs {
			docs[j] = genDoc(r, []string{"a", "b", "c"}, 1+r.Intn(6))
		}
		name := names[0]
		if r.Intn(12) == 0 {
			name = names[r.Intn(len(names))]
		}
		addCase(ctx, "layered", docs, genOpts(r), genEnv(r), name, wds[r.Intn(len(wds))], homes[r.Intn(len(homes))])
	}
	// 3. schema-directed documents (every attribute of the schema, any shape the schema allows)
	g := core.NewSchemaGen(ctx.RepoDir, r)
	m := ctx.Pick(400, 10000)
	for i := 0; i < m; i++ {
		d := g.Document(3+r.Intn(3), 0.15+r.Float64()*0.3)
		docs := []M{d}
		if r.Intn(3) == 0 {
			docs = append(docs, g.Document(3, 0.2))
		}
		addCase(ctx, "schema-directed", docs, genOpts(r), genEnv(r), "proj", wds[0], homes[0])
	}
	// 4. degenerate inputs of the glue
	addCase(ctx, "degenerate", []M{}, plOpts{ResolvePaths: true}, map[string]string{}, "proj", wds[0], homes[0])
	addCase(ctx, "degenerate", []M{{}}, plOpts{ResolvePaths: true}, map[string]string{}, "proj", wds[0], homes[0])
	addCase(ctx, "degenerate", []M{{"version": "3"}}, plOpts{ResolvePaths: true}, map[string]string{}, "proj", wds[0], homes[0])
	addCase(ctx, "degenerate", []M{{"version": "3"}}, plOpts{ResolvePaths: true, SkipValidation: true}, map[string]string{}, "proj", wds[0], homes[0])
	addCase(ctx, "degenerate", []M{{"services": M{}}}, plOpts{ResolvePaths: true}, map[string]string{}, "", wds[0], homes[0])
	addCase(ctx, "degenerate", []M{{"services": M{"a": M{"image": "x"}}}, {}}, plOpts{ResolvePaths: true, SkipNormalization: true}, map[string]string{}, "", wds[0], homes[0])
}

func init() {
	core.Register("pipeline.load", &core.CheckDef{
		Real:       realLoad,
		DriverOp:   "pipeline.load",
		DriverArgs: driverArgs,
		Judge:      judge,
		Timeout:    20 * time.Second,
	})
	core.RegisterProp("PIPE", Stream)
	core.RegisterPropExtra("C01", Stream)
	core.RegisterPropExtra("C02", Stream)
}
