package c14

// C14 — projects are immutable values: derivations copy, never alias or mutate.
//
//	c14.copy     correspondence: the generated deep copy (Project.deepCopy / ServiceConfig.deepCopy) run on a
//	             reflection-populated value vs the Lean model `exec (resolved plan)` on the same heap value
//	             (joint encoding with memory identities); the Lean spec also decides isolation of the pair.
//	c14.history  direct oracle on the real code: a history of ≤ 4 derivation operations; after every step the
//	             receiver must be bit-for-bit what it was, the result must share no memory with any earlier
//	             project and must carry every field the operation does not affect; at the end everything
//	             reachable from the last result is mutated (and then everything reachable from the first
//	             project) and every other project of the history must still be what it was.
//	c14.spec     the same single-step facts decided by the Lean spec (addresses of result ∩ receiver = ∅,
//	             receiver before = receiver after) on the joint heap encoding, cross-checked with the Go scan.

import (
	"context"
	"encoding/json"
	"errors"
	"fmt"
	"math/rand"
	"os"
	"path/filepath"
	"reflect"
	"runtime"
	"runtime/debug"
	"sort"
	"strings"
	"sync"
	"time"

	"github.com/compose-spec/compose-go/v2/types"
	"github.com/distribution/reference"
	godigest "github.com/opencontainers/go-digest"

	"verifharness/core"
)

// ---------------------------------------------------------------- project construction

type c14Proj struct {
	Mode  string `json:"mode"` // full | sparse | slot | loaded
	Seed  int64  `json:"seed,omitempty"`
	Size  int    `json:"size,omitempty"`
	Slot  string `json:"slot,omitempty"`
	State int    `json:"state,omitempty"`
	Plain bool   `json:"plain,omitempty"` // skip the semantic fix-ups (names, references, env files)
	Yaml  string `json:"yaml,omitempty"`  // mode loaded
}

var c14FilesOnce sync.Once
var c14Dir string

// c14Files creates the env / label files the environment and label resolvers read.
func c14Files() string {
	c14FilesOnce.Do(func() {
		base := os.Getenv("VERIF_SCRATCH")
		d, err := os.MkdirTemp(base, "c14-")
		if err != nil {
			panic(err)
		}
		c14Dir = d
		os.WriteFile(filepath.Join(d, "a.env"), []byte("A=1\nB=two words\nSHARED=from-a\n"), 0o644)
		os.WriteFile(filepath.Join(d, "b.env"), []byte("C=${A:-dflt}\nD\nSHARED=from-b\n"), 0o644)
		os.WriteFile(filepath.Join(d, "l.labels"), []byte("com.example.l=1\nL=2\ncom.example.m=${L:-x}\n"), 0o644)
	})
	return c14Dir
}

func rekey[V any](m map[string]V, names func(i int, old string) string) map[string]V {
	if m == nil {
		return nil
	}
	keys := make([]string, 0, len(m))
	for k := range m {
		keys = append(keys, k)
	}
	sort.Strings(keys)
	out := make(map[string]V, len(m))
	for i, k := range keys {
		out[names(i, k)] = m[k]
	}
	return out
}

func sortedKeys[V any](m map[string]V) []string {
	keys := make([]string, 0, len(m))
	for k := range m {
		keys = append(keys, k)
	}
	sort.Strings(keys)
	return keys
}

// fixup turns a structurally populated project into a referentially sensible one: service names match their keys,
// depends_on / networks / volumes / secrets / configs refer to things that (mostly) exist, images parse, env files exist.
func c14Fixup(p *types.Project, rng *rand.Rand, plain bool) {
	p.Services = rekey(p.Services, func(i int, _ string) string { return fmt.Sprintf("svc%d", i) })
	p.DisabledServices = rekey(p.DisabledServices, func(i int, _ string) string { return fmt.Sprintf("dis%d", i) })
	for _, m := range []types.Services{p.Services, p.DisabledServices} {
		for k, s := range m {
			if s.Name != "" || !plain {
				s.Name = k
			}
			m[k] = s
		}
	}
	if plain {
		return
	}
	dir := c14Files()
	var all []string
	all = append(all, sortedKeys(p.Services)...)
	all = append(all, sortedKeys(p.DisabledServices)...)
	nets, vols, secs, cfgs := sortedKeys(p.Networks), sortedKeys(p.Volumes), sortedKeys(p.Secrets), sortedKeys(p.Configs)
	pick := func(l []string, ghost string) string {
		if len(l) == 0 || rng.Intn(6) == 0 {
			return ghost
		}
		return l[rng.Intn(len(l))]
	}
	profs := [][]string{nil, {"p1"}, {"p2"}, {"p1", "p2"}, nil}
	envFiles := []types.EnvFile{{Path: filepath.Join(dir, "a.env"), Required: true}, {Path: filepath.Join(dir, "b.env"), Required: false},
		{Path: filepath.Join(dir, "missing.env"), Required: false}}
	if p.Environment != nil {
		p.Environment["FROMPROJECT"] = "pv"
		p.Environment["A"] = "project-a"
	}
	idx := 0
	for _, m := range []types.Services{p.Services, p.DisabledServices} {
		for _, k := range sortedKeys(m) {
			s := m[k]
			idx++
			if s.DependsOn != nil {
				j := 0
				nd := types.DependsOnConfig{}
				for _, dk := range sortedKeys(s.DependsOn) {
					d := s.DependsOn[dk]
					name := pick(all, "ghost")
					if name == k {
						name = "ghost"
					}
					if _, enabled := p.Services[name]; !enabled && rng.Intn(8) > 0 {
						// a dependency on a missing or disabled service is usually optional
						d.Required = false
					}
					nd[name] = d
					j++
				}
				s.DependsOn = nd
			}
			if s.Profiles != nil || rng.Intn(2) == 0 {
				s.Profiles = append([]string(nil), profs[rng.Intn(len(profs))]...)
			}
			if s.Image != "" {
				s.Image = fmt.Sprintf("registry.example/team/img%d:1.%d", idx, rng.Intn(9))
				if rng.Intn(5) == 0 {
					s.Image = "busybox@sha256:" + strings.Repeat("ab", 32)
				}
			}
			if s.Networks != nil {
				s.Networks = rekey(s.Networks, func(i int, old string) string {
					if i < len(nets) {
						return nets[i]
					}
					return old
				})
			}
			for i := range s.Volumes {
				if rng.Intn(3) > 0 {
					s.Volumes[i].Type = types.VolumeTypeVolume
					s.Volumes[i].Source = pick(vols, "ghostvol")
				}
			}
			for i := range s.Secrets {
				s.Secrets[i].Source = pick(secs, "ghostsecret")
			}
			for i := range s.Configs {
				s.Configs[i].Source = pick(cfgs, "ghostconfig")
			}
			if s.Build != nil {
				for i := range s.Build.Secrets {
					s.Build.Secrets[i].Source = pick(secs, "ghostsecret")
				}
			}
			for i := range s.EnvFiles {
				s.EnvFiles[i] = envFiles[rng.Intn(len(envFiles))]
			}
			for i := range s.LabelFiles {
				s.LabelFiles[i] = filepath.Join(dir, "l.labels")
			}
			if s.Environment != nil {
				s.Environment["FROMPROJECT"] = nil
				s.Environment["UNSET"] = nil
				v := "explicit"
				s.Environment["SHARED"] = &v
			}
			m[k] = s
		}
	}
	if p.Profiles != nil {
		p.Profiles = append([]string(nil), profs[1+rng.Intn(3)]...)
	}
}

var c14Yamls = map[string]string{
	"anchors": `
name: c14
x-common: &common
  labels: {a: b, c: d}
  environment: {K: v, N: null}
  dns: [1.1.1.1, 8.8.8.8]
  ulimits: {nofile: {soft: 1, hard: 2}}
services:
  web:
    <<: *common
    image: nginx
    depends_on: {db: {condition: service_started}, cache: {condition: service_started, required: false}}
    networks: {front: {aliases: [w]}, back: {}}
    volumes: [data:/data, ./src:/src]
    secrets: [s1]
    configs: [c1]
    build: {context: ., args: {X: "1"}, secrets: [s2]}
    deploy: {resources: {limits: {cpus: "0.5"}, reservations: {devices: [{capabilities: [gpu], count: 1}]}}}
    x-ext: {deep: [1, 2, {k: v}]}
  db:
    <<: *common
    image: postgres
    profiles: [data]
    networks: [back]
    volumes: [data:/var/lib]
  cache:
    <<: *common
    image: redis
    profiles: [extra]
networks: {front: {labels: {n: "1"}, ipam: {config: [{subnet: 10.0.0.0/24, aux_addresses: {h: 10.0.0.5}}]}}, back: {driver_opts: {o: "1"}}, unused: {}}
volumes: {data: {labels: {v: "1"}, driver_opts: {o: "2"}}, unusedvol: {}}
secrets: {s1: {environment: HOME, labels: {s: "1"}}, s2: {environment: HOME}, s3: {environment: HOME}}
configs: {c1: {content: hello, labels: {c: "1"}}, c2: {content: other}}
x-top: {list: [a, b], m: {k: v}}
`,
	"minimal": "name: c14\nservices:\n  a:\n    image: busybox\n",
	"deps": `
name: c14
services:
  a: {image: a, depends_on: [b, c], labels: [x=1], environment: [A, B=2]}
  b: {image: b, depends_on: [c], extra_hosts: ["h:1.2.3.4", "h:5.6.7.8"]}
  c: {image: c, sysctls: {net.core.somaxconn: "1"}, healthcheck: {test: [CMD, "true"], interval: 5s}}
  d: {image: d, profiles: [p1], depends_on: {a: {condition: service_healthy, restart: true}}}
`,
}

func c14Build(a c14Proj) (*types.Project, error) {
	if a.Mode == "loaded" {
		req := core.LoadReq{Files: map[string]string{"compose.yaml": c14Yamls[a.Yaml], "src/.keep": ""}, ConfigFiles: []string{"compose.yaml"},
			Env: map[string]string{"HOME": "/home/u"}, Profiles: []string{"data"}}
		p, _, err := req.Load()
		return p, err
	}
	rng := rand.New(rand.NewSource(a.Seed))
	var pol fillPolicy
	switch a.Mode {
	case "full":
		pol = fullPolicy{size: a.Size}
	case "slot":
		pol = slotPolicy{target: a.Slot, state: a.State}
	default:
		pol = sparsePolicy{rng: rng, pNil: 25}
	}
	p := &types.Project{}
	f := &filler{pol: pol}
	f.fill(reflect.ValueOf(p).Elem(), "", 0)
	c14Fixup(p, rng, a.Plain || a.Mode == "slot")
	return p, nil
}

// ---------------------------------------------------------------- operations

type c14Op struct {
	Op    string   `json:"op"`
	Names []string `json:"names,omitempty"`
	Flag  bool     `json:"flag,omitempty"`
	Opt   string   `json:"opt,omitempty"` // dependency option / variant
	Back  int      `json:"back,omitempty"` // histories: the receiver is the project Back steps before the latest one (0 = the latest: a chain; > 0: a branch)
}

func depOpt(o string) []types.DependencyOption {
	switch o {
	case "dependents":
		return []types.DependencyOption{types.IncludeDependents}
	case "ignore":
		return []types.DependencyOption{types.IgnoreDependencies}
	case "deps":
		return []types.DependencyOption{types.IncludeDependencies}
	}
	return nil
}

// c14Visited collects what a ForEachService visitor was handed.
type c14Visited struct {
	names []string
	svcs  []*types.ServiceConfig
}

// applyOp runs one public derivation on p.  res == nil when the operation returns no project (error, ForEachService).
func c14Apply(p *types.Project, op c14Op) (res *types.Project, vis *c14Visited, err error) {
	// "@i" = the i-th enabled service of the receiver, "%i" = the i-th disabled one (so that names exist whatever built the project)
	if len(op.Names) > 0 {
		en, dis := sortedKeys(p.Services), sortedKeys(p.DisabledServices)
		names := make([]string, len(op.Names))
		for i, n := range op.Names {
			names[i] = n
			var l []string
			switch {
			case strings.HasPrefix(n, "@"):
				l = en
			case strings.HasPrefix(n, "%"):
				l = dis
			default:
				continue
			}
			k := int(n[1] - '0')
			if len(l) > 0 {
				names[i] = l[k%len(l)]
			} else {
				names[i] = "ghost"
			}
		}
		op.Names = names
	}
	switch op.Op {
	case "Copy":
		return types.VerifDeepCopy(p), nil, nil
	case "WithProfiles":
		if op.Opt == "self" {
			// the caller hands the receiver's own slice
			res, err = p.WithProfiles(p.Profiles)
		} else {
			res, err = p.WithProfiles(append([]string{}, op.Names...))
		}
	case "WithServicesEnabled":
		res, err = p.WithServicesEnabled(op.Names...)
	case "WithServicesDisabled":
		res = p.WithServicesDisabled(op.Names...)
	case "WithSelectedServices":
		res, err = p.WithSelectedServices(append([]string{}, op.Names...), depOpt(op.Opt)...)
	case "WithoutUnnecessaryResources":
		res = p.WithoutUnnecessaryResources()
	case "WithImagesResolved":
		res, err = p.WithImagesResolved(func(named reference.Named) (godigest.Digest, error) {
			if op.Opt == "error" && strings.HasSuffix(reference.Path(named), "1") {
				return "", errors.New("resolver failed")
			}
			return godigest.Digest("sha256:" + strings.Repeat("cd", 32)), nil
		})
	case "WithServicesEnvironmentResolved":
		res, err = p.WithServicesEnvironmentResolved(op.Flag)
	case "WithServicesLabelsResolved":
		res, err = p.WithServicesLabelsResolved(op.Flag)
	case "WithServicesTransform":
		res, err = p.WithServicesTransform(func(name string, s types.ServiceConfig) (types.ServiceConfig, error) {
			switch op.Opt {
			case "label":
				// the usual way callers edit a service: through the maps of the value they were handed
				s.Labels = s.Labels.Add("c14.transformed", name)
			case "mutate":
				mutateAll(reflect.ValueOf(&s), 0)
				s.Name = name
			case "error":
				if strings.HasSuffix(name, "0") {
					return s, errors.New("transform failed")
				}
			}
			return s, nil
		})
	case "ForEachService":
		vis = &c14Visited{}
		var mu sync.Mutex
		err = p.ForEachService(append([]string{}, op.Names...), func(name string, s *types.ServiceConfig) error {
			mu.Lock()
			vis.names = append(vis.names, name)
			vis.svcs = append(vis.svcs, s)
			mu.Unlock()
			return nil
		}, depOpt(op.Opt)...)
		return nil, vis, err
	case "MarshalApply":
		// the project MarshalYAML / MarshalJSON hand to their encoder: with the option a derivation, without it the receiver itself
		r := types.VerifApplyMarshallOptions(p, op.Flag)
		if !op.Flag && r == p {
			return nil, nil, nil
		}
		return r, nil, nil
	case "MarshalPlain":
		_, err = p.MarshalYAML()
		if _, err2 := p.MarshalJSON(); err == nil {
			err = err2
		}
		return nil, nil, err
	case "Accessors":
		// the read-only methods: whatever they return, the receiver must be what it was
		p.ServiceNames()
		p.DisabledServiceNames()
		p.VolumeNames()
		p.NetworkNames()
		p.SecretNames()
		p.ConfigNames()
		p.ServicesWithBuild()
		p.ServicesWithExtends()
		p.ServicesWithDependsOn()
		p.ServicesWithCapabilities()
		p.AllServices()
		p.RelativePath("x/y")
		_, err = p.GetServices(op.Names...)
		for _, n := range op.Names {
			if s, e := p.GetService(n); e == nil {
				p.GetDependentsForService(s)
				s.GetDependents(p)
			}
			p.GetDisabledService(n)
		}
		return nil, nil, nil
	case "MarshalWithSecrets":
		_, err = p.MarshalYAML(types.WithSecretContent)
		if _, err2 := p.MarshalJSON(types.WithSecretContent); err == nil {
			err = err2
		}
		return nil, nil, err
	default:
		panic("c14: unknown op " + op.Op)
	}
	if err != nil && op.Op != "WithServicesTransform" && op.Op != "WithImagesResolved" {
		res = nil
	}
	return res, nil, err
}

// affected: is this path class of the result one the operation is allowed to change?
// Paths are relative to the project with Services/DisabledServices merged into ".All" for the operations that move services.
func c14Affected(op c14Op, path string) bool {
	has := func(pre string) bool { return path == pre || strings.HasPrefix(path, pre+".") || strings.HasPrefix(path, pre+" ") }
	switch op.Op {
	case "WithProfiles":
		return has(".Profiles")
	case "WithServicesEnabled":
		return has(".Profiles") || has(".All.*.Environment") || has(".All.*.EnvFiles")
	case "WithServicesDisabled", "WithSelectedServices":
		return has(".All.*.DependsOn")
	case "WithoutUnnecessaryResources":
		return false // resources are compared as subsets
	case "WithImagesResolved":
		return has(".Services.*.Image")
	case "WithServicesEnvironmentResolved":
		return has(".Services.*.Environment") || has(".Services.*.EnvFiles")
	case "WithServicesLabelsResolved":
		return has(".Services.*.Labels") || has(".Services.*.LabelFiles")
	case "MarshalApply":
		return has(".Secrets.*.marshallContent")
	case "WithServicesTransform":
		switch op.Opt {
		case "label":
			return has(".Services.*.Labels")
		case "mutate":
			return has(".Services")
		}
	}
	return false
}

func c14MovesServices(op string) bool {
	switch op {
	case "WithProfiles", "WithServicesEnabled", "WithServicesDisabled", "WithSelectedServices":
		return true
	}
	return false
}

// projView: the erased encoding of a project as field → value, optionally with the two service maps merged.
func projView(enc any, merge bool, prune bool) map[string]any {
	out := map[string]any{}
	t := enc.(map[string]any)["p"].([]any)[1].(map[string]any)["t"].([]any)
	for _, f := range t {
		fv := f.([]any)
		out[fv[0].(string)] = fv[1]
	}
	entries := func(v any) []any {
		if v == nil {
			return nil
		}
		return v.(map[string]any)["m"].([]any)[1].([]any)
	}
	if merge {
		all := map[string]any{}
		for _, e := range entries(out["Services"]) {
			all[e.([]any)[0].(string)] = e.([]any)[1]
		}
		for _, e := range entries(out["DisabledServices"]) {
			all[e.([]any)[0].(string)] = e.([]any)[1]
		}
		var l []any
		for _, k := range sortedKeys(all) {
			l = append(l, []any{k, all[k]})
		}
		out["All"] = map[string]any{"m": []any{0, l}}
		delete(out, "Services")
		delete(out, "DisabledServices")
	}
	_ = prune
	return out
}

// frameDiff: first path class at which the result differs from the receiver's snapshot outside what the op may change.
func c14FrameDiff(op c14Op, before, after any) string {
	merge := c14MovesServices(op.Op)
	// nil and empty containers are the same thing here (the exact nil/empty behaviour of the copy is compared by c14.copy)
	b, a := projView(nilEmpty(eraseIDs(before)), merge, false), projView(nilEmpty(eraseIDs(after)), merge, false)
	names := sortedKeys(b)
	for _, f := range names {
		if _, ok := a[f]; !ok {
			return "." + f + " (missing)"
		}
		if op.Op == "WithoutUnnecessaryResources" && (f == "Networks" || f == "Volumes" || f == "Secrets" || f == "Configs") {
			// every resource kept must be the original resource
			orig := map[string]any{}
			if b[f] != nil {
				for _, e := range b[f].(map[string]any)["m"].([]any)[1].([]any) {
					orig[e.([]any)[0].(string)] = e.([]any)[1]
				}
			}
			if a[f] != nil {
				for _, e := range a[f].(map[string]any)["m"].([]any)[1].([]any) {
					k := e.([]any)[0].(string)
					o, ok := orig[k]
					if !ok {
						return "." + f + " (resource appeared)"
					}
					if d := diffPath(o, e.([]any)[1], "."+f+".*"); d != "" {
						return d
					}
				}
			}
			continue
		}
		if d := c14MaskedDiff(op, b[f], a[f], "."+f); d != "" {
			return d
		}
	}
	return ""
}

// maskedDiff walks two erased encodings and reports the first difference at a path the op may not change.
func c14MaskedDiff(op c14Op, x, y any, path string) string {
	if c14Affected(op, path) {
		return ""
	}
	xm, xok := x.(map[string]any)
	ym, yok := y.(map[string]any)
	if !xok || !yok {
		return diffPath(x, y, path)
	}
	for k, xv := range xm {
		yv, ok := ym[k]
		if !ok {
			return path + " (kind)"
		}
		xl, yl := xv.([]any), yv.([]any)
		switch k {
		case "t":
			if len(xl) != len(yl) {
				return path + " (fields)"
			}
			for i := range xl {
				xf, yf := xl[i].([]any), yl[i].([]any)
				if d := c14MaskedDiff(op, xf[1], yf[1], path+"."+xf[0].(string)); d != "" {
					return d
				}
			}
		case "p":
			return c14MaskedDiff(op, xl[1], yl[1], path)
		case "o":
			if xl[1] != yl[1] {
				return path + " (payload)"
			}
		case "l":
			xs, ys := xl[1].([]any), yl[1].([]any)
			if len(xs) != len(ys) {
				return path + " (length)"
			}
			for i := range xs {
				if d := c14MaskedDiff(op, xs[i], ys[i], path+".*"); d != "" {
					return d
				}
			}
		case "m":
			xs, ys := xl[1].([]any), yl[1].([]any)
			if len(xs) != len(ys) {
				return path + " (keys)"
			}
			for i := range xs {
				xe, ye := xs[i].([]any), ys[i].([]any)
				if xe[0] != ye[0] {
					return path + " (keys)"
				}
				if d := c14MaskedDiff(op, xe[1], ye[1], path+".*"); d != "" {
					return d
				}
			}
		}
	}
	return ""
}

// nilEmpty maps empty slices and maps to nil.
func nilEmpty(a any) any {
	x, ok := a.(map[string]any)
	if !ok {
		return a
	}
	out := map[string]any{}
	for k, v := range x {
		l := v.([]any)
		switch k {
		case "t":
			n := make([]any, len(l))
			for i := range l {
				f := l[i].([]any)
				n[i] = []any{f[0], nilEmpty(f[1])}
			}
			out[k] = n
		case "p":
			out[k] = []any{l[0], nilEmpty(l[1])}
		case "o":
			out[k] = l
		case "l":
			xs := l[1].([]any)
			if len(xs) == 0 {
				return nil
			}
			n := make([]any, len(xs))
			for i := range xs {
				n[i] = nilEmpty(xs[i])
			}
			out[k] = []any{l[0], n}
		case "m":
			xs := l[1].([]any)
			if len(xs) == 0 {
				return nil
			}
			n := make([]any, len(xs))
			for i := range xs {
				e := xs[i].([]any)
				n[i] = []any{e[0], nilEmpty(e[1])}
			}
			out[k] = []any{l[0], n}
		}
	}
	return out
}

func topField(path string) string {
	p := strings.TrimPrefix(path, ".")
	if i := strings.IndexAny(p, ". "); i >= 0 {
		p = p[:i]
	}
	if p == "" {
		return "-"
	}
	return p
}

// ---------------------------------------------------------------- the history oracle

type c14HistArgs struct {
	Proj c14Proj `json:"proj"`
	Ops  []c14Op `json:"ops"`
	Spec bool    `json:"spec,omitempty"` // also return the joint heap encoding of the first step for the Lean spec
}

type c14Violation struct {
	Key  string `json:"key"`
	What string `json:"what"`
}

type c14HistOut struct {
	Steps      []string       `json:"steps"` // per op: ok | err | none
	Violations []c14Violation `json:"violations"`
	Nodes      int            `json:"nodes"`
	Spec       map[string]any `json:"spec,omitempty"`
	BuildErr   string         `json:"build_err,omitempty"`
	Errs       []string       `json:"errs,omitempty"`
	// what the Go scan found for the first step only (compared with the Lean spec's decision)
	Step0Mutated bool `json:"step0_mutated"`
	Step0Alias   bool `json:"step0_alias"`
}

func errClass(err error) string {
	if err == nil {
		return "ok"
	}
	return "err"
}

func c14History(raw json.RawMessage) any {
	var a c14HistArgs
	if err := json.Unmarshal(raw, &a); err != nil {
		return map[string]any{"bad": err.Error()}
	}
	// memory identities are compared across the whole case: no collection while it runs
	old := debug.SetGCPercent(-1)
	defer func() { debug.SetGCPercent(old); runtime.GC() }()

	p0, err := c14Build(a.Proj)
	out := &c14HistOut{Steps: []string{}, Violations: []c14Violation{}}
	if err != nil || p0 == nil {
		out.BuildErr = fmt.Sprint(err)
		return out
	}
	add := func(key, what string) {
		for _, v := range out.Violations {
			if v.Key == key {
				return
			}
		}
		out.Violations = append(out.Violations, c14Violation{key, what})
	}
	e := newEncoder()
	chain := []*types.Project{p0}
	snaps := []any{e.enc(reflect.ValueOf(p0))}
	lastOp := []string{"build"}
	for i, op := range a.Ops {
		ri := len(chain) - 1 - op.Back
		if ri < 0 || op.Back < 0 {
			ri = 0
		}
		recv := chain[ri]
		before := snaps[ri]
		// (the other projects of the history are watched too: a step must not change any of them)
		res, vis, err := c14Apply(recv, op)
		step := errClass(err)
		if res == nil && vis == nil {
			step += "/none"
		}
		out.Steps = append(out.Steps, step)
		if err != nil {
			t := err.Error()
			out.Errs = append(out.Errs, op.Op+": "+t[:min(len(t), 120)])
		}
		// 1. the receiver is what it was
		after := e.enc(reflect.ValueOf(recv))
		if d := diffPath(before, after, ""); d != "" {
			add("receiver-mutated:"+op.Op+":"+topField(d), fmt.Sprintf("step %d %s changed its receiver at %s", i, op.Op, d))
			snaps[ri] = after
			if i == 0 {
				out.Step0Mutated = true
			}
		}
		if a.Spec && i == 0 {
			out.Spec = map[string]any{"before": before, "after": after}
		}
		// 1b. nor is any other project of the history (siblings and ancestors of a branching history)
		for j := range chain {
			if j == ri {
				continue
			}
			now := e.enc(reflect.ValueOf(chain[j]))
			if d := diffPath(snaps[j], now, ""); d != "" {
				add("bystander-mutated:"+op.Op+":"+topField(d), fmt.Sprintf("step %d %s (on project #%d) changed project #%d of the history at %s", i, op.Op, ri, j, d))
				snaps[j] = now
			}
		}
		if vis != nil {
			// the visitor's copies: isolated from the receiver and from each other, and deeply equal to the services
			for j, s := range vis.svcs {
				if sh := sharedMemory(reflect.ValueOf(recv), reflect.ValueOf(s)); len(sh) > 0 {
					add("visitor-alias:"+op.Op+":"+topField(strings.TrimPrefix(sh[0], ".")), fmt.Sprintf("step %d: the service handed to the visitor (%s) shares memory with the project: %v", i, vis.names[j], sh))
				}
				if orig, ok := recv.Services[vis.names[j]]; ok {
					if d := diffPath(eraseIDs(e.enc(reflect.ValueOf(&orig))), eraseIDs(e.enc(reflect.ValueOf(s))), ""); d != "" {
						add("visitor-frame:"+op.Op+":"+strings.Fields(d)[0], fmt.Sprintf("step %d: the visitor's copy of %s differs from the service at %s", i, vis.names[j], d))
					}
				}
				mutateAll(reflect.ValueOf(s), 0)
			}
			if d := diffPath(snaps[ri], e.enc(reflect.ValueOf(recv)), ""); d != "" {
				add("mutation-leak:"+op.Op+":"+topField(d), fmt.Sprintf("step %d: mutating the visitor's services changed the project at %s", i, d))
				snaps[ri] = e.enc(reflect.ValueOf(recv))
			}
			continue
		}
		if res == nil {
			continue
		}
		if res == recv {
			add("alias:"+op.Op+":self", fmt.Sprintf("step %d %s returned its receiver", i, op.Op))
			continue
		}
		// 2. no memory shared with any earlier project of the history
		for j, earlier := range chain {
			if sh := sharedMemory(reflect.ValueOf(earlier), reflect.ValueOf(res)); len(sh) > 0 {
				add("alias:"+op.Op+":"+topField(sh[0]), fmt.Sprintf("step %d: result of %s shares memory with project #%d of the history: %s (%d shared in total)", i, op.Op, j, sh[0], len(sh)))
				if i == 0 {
					out.Step0Alias = true
				}
				break
			}
		}
		resEnc := e.enc(reflect.ValueOf(res))
		if a.Spec && i == 0 {
			out.Spec["result"] = resEnc
		}
		// 3. the result carries every field the operation does not affect
		if err == nil {
			if d := c14FrameDiff(op, before, resEnc); d != "" {
				add("frame:"+op.Op+":"+strings.Fields(d)[0], fmt.Sprintf("step %d: result of %s lost or changed %s, which the operation does not affect", i, op.Op, d))
			}
		}
		chain = append(chain, res)
		snaps = append(snaps, resEnc)
		lastOp = append(lastOp, op.Op)
	}
	out.Nodes = e.next
	if len(chain) > 1 {
		// 4. mutate everything reachable from each project of the history in turn — the latest first, the original last —
		//    and after each: every *other* project is what it was (the mutated one is re-read, it stays in the comparison
		//    set for the later rounds).  "Mutating either afterwards never changes the other", for every pair.
		last := len(chain) - 1
		for k := last; k >= 0; k-- {
			for j := 0; j <= last; j++ {
				snaps[j] = e.enc(reflect.ValueOf(chain[j]))
			}
			mutateAll(reflect.ValueOf(chain[k]), 0)
			for j := 0; j <= last; j++ {
				if j == k {
					continue
				}
				if d := diffPath(snaps[j], e.enc(reflect.ValueOf(chain[j])), ""); d != "" {
					// the key names the later of the two (the derivation that made the sharing)
					who := lastOp[max(j, k)]
					add("mutation-leak:"+who+":"+topField(d), fmt.Sprintf("mutating project #%d (%s) changed project #%d (%s) of the history at %s", k, lastOp[k], j, lastOp[j], d))
				}
			}
		}
	}
	// the most causal kind first (the judge reports the first key): mutation of the receiver, shared memory, leaks, lost fields
	rank := func(k string) int {
		for i, pre := range []string{"receiver-mutated:", "bystander-mutated:", "alias:", "visitor-alias:", "mutation-leak:", "visitor-frame:", "frame:"} {
			if strings.HasPrefix(k, pre) {
				return i
			}
		}
		return 9
	}
	sort.SliceStable(out.Violations, func(i, j int) bool {
		ri, rj := rank(out.Violations[i].Key), rank(out.Violations[j].Key)
		if ri != rj {
			return ri < rj
		}
		return out.Violations[i].Key < out.Violations[j].Key
	})
	return out
}

// c14Ctx lets the judges record the distribution of what the operations did (ok / error / no project).
var c14Ctx *core.Ctx

func c14HistJudge(args, real, drv json.RawMessage) *core.Verdict {
	if v := core.CrashVerdict(real); v != nil {
		return v
	}
	var o c14HistOut
	if err := json.Unmarshal(real, &o); err != nil || o.Steps == nil {
		return core.Disagree("malformed history outcome: " + string(real[:min(len(real), 200)]))
	}
	if c14Ctx != nil {
		var a c14HistArgs
		json.Unmarshal(args, &a)
		for i, st := range o.Steps {
			if i < len(a.Ops) {
				c14Ctx.Count("step:" + a.Ops[i].Op + ":" + st)
			}
		}
		if os.Getenv("C14_DEBUG") != "" {
			for _, e := range o.Errs {
				c14Ctx.Count("errtext:" + e[:min(len(e), 70)])
			}
		}
		switch {
		case o.Nodes < 200:
			c14Ctx.Count("heap-cells<200")
		case o.Nodes < 2000:
			c14Ctx.Count("heap-cells<2000")
		default:
			c14Ctx.Count("heap-cells>=2000")
		}
	}
	if o.BuildErr != "" {
		return core.Skip("project could not be built: " + o.BuildErr)
	}
	if drv != nil {
		// the Lean spec's decision on the first step must be the Go scan's decision
		var d struct {
			Unchanged bool  `json:"unchanged"`
			Shared    []int `json:"shared"`
			Bad       string `json:"bad"`
		}
		if err := json.Unmarshal(drv, &d); err != nil || d.Bad != "" {
			return core.Disagree("spec op failed: " + string(drv[:min(len(drv), 200)]))
		}
		goMut, goAlias := o.Step0Mutated, o.Step0Alias
		if d.Unchanged == goMut || (len(d.Shared) > 0) != goAlias {
			return core.Disagree(fmt.Sprintf("Lean spec (unchanged=%v shared=%v) and Go scan (mutated=%v alias=%v) decide differently", d.Unchanged, d.Shared, goMut, goAlias))
		}
	}
	if len(o.Violations) > 0 {
		var keys []string
		for _, v := range o.Violations {
			keys = append(keys, v.Key)
		}
		return core.Fail(o.Violations[0].Key, o.Violations[0].What+" [all: "+strings.Join(keys, ", ")+"]")
	}
	return nil
}

// ---------------------------------------------------------------- the copy correspondence

type c14CopyArgs struct {
	Root string  `json:"root"` // Project | ServiceConfig
	Proj c14Proj `json:"proj"`
	Svc  string  `json:"svc,omitempty"`
}

func c14Copy(raw json.RawMessage) any {
	var a c14CopyArgs
	if err := json.Unmarshal(raw, &a); err != nil {
		return map[string]any{"bad": err.Error()}
	}
	old := debug.SetGCPercent(-1)
	defer func() { debug.SetGCPercent(old); runtime.GC() }()
	p, err := c14Build(a.Proj)
	if err != nil || p == nil {
		return map[string]any{"build_err": fmt.Sprint(err)}
	}
	e := newEncoder()
	var src, dst reflect.Value
	if a.Root == "ServiceConfig" {
		names := sortedKeys(p.AllServices())
		if len(names) == 0 {
			return map[string]any{"build_err": "no service"}
		}
		s := p.AllServices()[names[int(a.Proj.Seed%int64(len(names))+int64(len(names)))%len(names)]]
		src = reflect.ValueOf(&s)
		srcEnc := e.enc(src)
		c := types.VerifDeepCopyService(&s)
		dst = reflect.ValueOf(c)
		return map[string]any{"src": srcEnc, "dst": e.enc(dst), "srcAgain": e.enc(src), "nodes": e.next}
	}
	src = reflect.ValueOf(p)
	srcEnc := e.enc(src)
	c := types.VerifDeepCopy(p)
	dst = reflect.ValueOf(c)
	return map[string]any{"src": srcEnc, "dst": e.enc(dst), "srcAgain": e.enc(src), "nodes": e.next}
}

func c14CopyJudge(args, real, drv json.RawMessage) *core.Verdict {
	if v := core.CrashVerdict(real); v != nil {
		return v
	}
	var r struct {
		Src, Dst, SrcAgain json.RawMessage
		BuildErr           string `json:"build_err"`
	}
	if err := json.Unmarshal(real, &r); err != nil {
		return core.Disagree("malformed copy outcome")
	}
	if r.BuildErr != "" {
		return core.Skip(r.BuildErr)
	}
	var d struct {
		Dst      json.RawMessage `json:"dst"`
		HasTy    bool            `json:"hasTy"`
		Isolated bool            `json:"isolated"`
		Equal    bool            `json:"equal"`
		Bad      string          `json:"bad"`
	}
	if err := json.Unmarshal(drv, &d); err != nil || d.Bad != "" || d.Dst == nil {
		return core.Disagree("driver: " + string(drv[:min(len(drv), 300)]))
	}
	if !d.HasTy {
		return core.Disagree("the encoded value does not have the type the regenerated type table gives the root")
	}
	if !core.CanonEqual(r.Src, r.SrcAgain) {
		return core.Fail("receiver-mutated:Copy", "deepCopy changed its source")
	}
	if core.CanonEqual(r.Dst, d.Dst) {
		// real = model: what the spec says about the model's copy holds for the real one
		if !d.Isolated {
			return core.Fail("copy:shares-memory", "the deep copy shares memory with its source")
		}
		if !d.Equal {
			return core.Fail("copy:not-deep-equal", "the deep copy is not deeply equal to its source (a field is not copied)")
		}
	}
	if !core.CanonEqual(r.Dst, d.Dst) {
		// real ≠ model; when the model's copy is the deep-equal isolated one, the real copy is not: a failing input
		var x, y any
		json.Unmarshal(r.Dst, &x)
		json.Unmarshal(d.Dst, &y)
		where := jsonDiff(x, y, "")
		if d.Isolated && d.Equal {
			return core.Fail("copy:"+where, "the generated deep copy differs from an isolated deep-equal copy at "+where)
		}
		return core.Disagree("exec(plan) ≠ generated deep copy at " + where)
	}
	return nil
}

// jsonDiff: path class of the first difference of two decoded encodings.
func jsonDiff(a, b any, path string) string {
	switch x := a.(type) {
	case map[string]any:
		y, ok := b.(map[string]any)
		if !ok {
			return path + "(kind)"
		}
		for k, xv := range x {
			yv, ok := y[k]
			if !ok {
				return path + "(kind)"
			}
			xl, _ := xv.([]any)
			yl, _ := yv.([]any)
			switch k {
			case "t":
				if len(xl) != len(yl) {
					return path + "(fields)"
				}
				for i := range xl {
					xf, yf := xl[i].([]any), yl[i].([]any)
					if xf[0] != yf[0] {
						return path + "(fields)"
					}
					if d := jsonDiff(xf[1], yf[1], path+"."+xf[0].(string)); d != "" {
						return d
					}
				}
			case "p":
				if xl[0] != yl[0] {
					return path + "(identity)"
				}
				return jsonDiff(xl[1], yl[1], path)
			case "o":
				if !reflect.DeepEqual(xl, yl) {
					return path + "(payload)"
				}
			case "l", "m":
				if xl[0] != yl[0] {
					return path + "(identity)"
				}
				xs, _ := xl[1].([]any)
				ys, _ := yl[1].([]any)
				if len(xs) != len(ys) {
					return path + "(length)"
				}
				for i := range xs {
					if k == "l" {
						if d := jsonDiff(xs[i], ys[i], path+".*"); d != "" {
							return d
						}
					} else {
						xe, ye := xs[i].([]any), ys[i].([]any)
						if xe[0] != ye[0] {
							return path + "(keys)"
						}
						if d := jsonDiff(xe[1], ye[1], path+".*"); d != "" {
							return d
						}
					}
				}
			}
		}
		return ""
	}
	if reflect.DeepEqual(a, b) {
		return ""
	}
	if a == nil || b == nil {
		return path + "(nil)"
	}
	return path
}

// ---------------------------------------------------------------- registration and generators

func init() {
	core.Register("c14.copy", &core.CheckDef{
		Real:     c14Copy,
		DriverOp: "c14.copy",
		DriverArgs: func(args, real json.RawMessage) any {
			var a c14CopyArgs
			json.Unmarshal(args, &a)
			var r struct {
				Src json.RawMessage `json:"src"`
			}
			json.Unmarshal(real, &r)
			return map[string]any{"root": a.Root, "src": r.Src}
		},
		Judge:   c14CopyJudge,
		Timeout: 30 * time.Second,
	})
	core.Register("c14.history", &core.CheckDef{Real: c14History, Judge: c14HistJudge, Timeout: 30 * time.Second})
	core.Register("c14.spec", &core.CheckDef{
		Real:     c14History,
		DriverOp: "c14.spec",
		DriverArgs: func(args, real json.RawMessage) any {
			var o c14HistOut
			json.Unmarshal(real, &o)
			if o.Spec == nil {
				return map[string]any{}
			}
			return o.Spec
		},
		Judge:   c14HistJudge,
		Timeout: 30 * time.Second,
	})
	core.RegisterProp("C14", runC14)
}

var c14OpPool = []c14Op{
	{Op: "Copy"},
	{Op: "WithProfiles", Names: nil},
	{Op: "WithProfiles", Names: []string{"p1"}},
	{Op: "WithProfiles", Names: []string{"*"}},
	{Op: "WithProfiles", Names: []string{"p2", "data"}},
	{Op: "WithProfiles", Opt: "self"},
	{Op: "WithServicesEnabled", Names: []string{"%0"}},
	{Op: "WithServicesEnabled", Names: []string{"@0", "%1", "ghost"}},
	{Op: "WithServicesEnabled"},
	{Op: "WithServicesDisabled", Names: []string{"@0"}},
	{Op: "WithServicesDisabled", Names: []string{"@1", "ghost", "%0"}},
	{Op: "WithServicesDisabled"},
	{Op: "WithSelectedServices", Names: []string{"@0"}},
	{Op: "WithSelectedServices", Names: []string{"@1", "@2"}, Opt: "ignore"},
	{Op: "WithSelectedServices", Names: []string{"@0"}, Opt: "dependents"},
	{Op: "WithSelectedServices", Names: []string{"@1"}, Opt: "deps"},
	{Op: "WithSelectedServices"},
	{Op: "WithSelectedServices", Names: []string{"ghost"}},
	{Op: "WithoutUnnecessaryResources"},
	{Op: "WithImagesResolved"},
	{Op: "WithImagesResolved", Opt: "error"},
	{Op: "WithServicesEnvironmentResolved", Flag: true},
	{Op: "WithServicesEnvironmentResolved", Flag: false},
	{Op: "WithServicesLabelsResolved", Flag: true},
	{Op: "WithServicesLabelsResolved", Flag: false},
	{Op: "WithServicesTransform", Opt: "identity"},
	{Op: "WithServicesTransform", Opt: "label"},
	{Op: "WithServicesTransform", Opt: "mutate"},
	{Op: "WithServicesTransform", Opt: "error"},
	{Op: "ForEachService", Names: []string{"@0"}},
	{Op: "ForEachService", Names: []string{"@0", "@1"}, Opt: "ignore"},
	{Op: "ForEachService", Names: []string{"@1"}, Opt: "dependents"},
	{Op: "ForEachService"},
	{Op: "MarshalWithSecrets"},
	{Op: "MarshalApply", Flag: true},
	{Op: "MarshalApply", Flag: false},
	{Op: "MarshalPlain"},
	{Op: "Accessors", Names: []string{"@0", "%0", "ghost"}},
}

func runC14(ctx *core.Ctx) {
	c14Ctx = ctx
	// ---- 1. exhaustive small scope: every reference position of the model × {nil, empty, one element}
	//         through the copy correspondence (Project root), and every single operation on a full project.
	slots := refSlots(reflect.TypeOf(types.Project{}))
	for _, s := range slots {
		for st := 0; st <= 2; st++ {
			ctx.Count("copy-slot-exhaustive")
			ctx.Add("c14.copy", c14CopyArgs{Root: "Project", Proj: c14Proj{Mode: "slot", Slot: s, State: st}})
		}
	}
	ctx.Note("reference positions in the type tree of types.Project: %d (each in 3 states)", len(slots))
	ctx.Res.Exhaustive = true
	for _, y := range []string{"anchors", "deps", "minimal"} {
		ctx.Count("copy-loaded")
		ctx.Add("c14.copy", c14CopyArgs{Root: "Project", Proj: c14Proj{Mode: "loaded", Yaml: y}})
	}
	bases := []c14Proj{{Mode: "full", Size: 1, Seed: 1}, {Mode: "full", Size: 2, Seed: 2}, {Mode: "loaded", Yaml: "anchors"}, {Mode: "loaded", Yaml: "deps"}}
	for _, b := range bases {
		ctx.Count("copy-" + b.Mode)
		ctx.Add("c14.copy", c14CopyArgs{Root: "Project", Proj: b})
		ctx.Add("c14.copy", c14CopyArgs{Root: "ServiceConfig", Proj: b})
		for _, op := range c14OpPool {
			ctx.Count("history-1-exhaustive")
			ctx.Add("c14.spec", c14HistArgs{Proj: b, Ops: []c14Op{op}, Spec: true})
		}
	}
	// every derivation that has a heap program, on every base: real method vs program on the encoded memory graph
	for _, b := range bases {
		for _, op := range c14DerivOps() {
			ctx.Count("deriv-exhaustive")
			ctx.Add("c14.deriv", c14DerivArgs{Proj: b, Op: op})
		}
	}
	// visiting services: real ForEachService vs the walk of Model/HeapVisit.lean
	runC14Visit(ctx, bases)
	// every pair of operations on the first two bases
	for _, b := range bases[:ctx.Pick(2, 4)] {
		if b.Size == 2 {
			b.Size = 1
			b.Seed = 3
		}
		for _, o1 := range c14OpPool {
			for _, o2 := range c14OpPool {
				ctx.Count("history-2-exhaustive")
				ctx.Add("c14.history", c14HistArgs{Proj: b, Ops: []c14Op{o1, o2}})
			}
		}
	}
	// ---- 2. seeded random: sparse / full projects, copy correspondence and histories of up to 4 operations
	for i := 0; i < ctx.Pick(120, 4000); i++ {
		pr := c14Proj{Mode: "sparse", Seed: ctx.Rng.Int63n(1 << 40)}
		if ctx.Rng.Intn(4) == 0 {
			pr.Plain = true // malformed stream: names, references and files are whatever reflection produced
		}
		root := "Project"
		if ctx.Rng.Intn(3) == 0 {
			root = "ServiceConfig"
		}
		ctx.Count("copy-random-" + root)
		ctx.Add("c14.copy", c14CopyArgs{Root: root, Proj: pr})
	}
	for i := 0; i < ctx.Pick(1500, 60000); i++ {
		var pr c14Proj
		switch r := ctx.Rng.Intn(10); {
		case r < 6:
			pr = c14Proj{Mode: "sparse", Seed: ctx.Rng.Int63n(1 << 40)}
		case r < 7:
			pr = c14Proj{Mode: "sparse", Seed: ctx.Rng.Int63n(1 << 40), Plain: true}
			ctx.Count("history-malformed-project")
		case r < 8:
			pr = c14Proj{Mode: "full", Size: 1, Seed: ctx.Rng.Int63n(1 << 40)}
		default:
			ys := []string{"anchors", "deps", "minimal"}
			pr = c14Proj{Mode: "loaded", Yaml: ys[ctx.Rng.Intn(len(ys))]}
		}
		n := 1 + ctx.Rng.Intn(4)
		ops := make([]c14Op, n)
		for j := range ops {
			ops[j] = c14OpPool[ctx.Rng.Intn(len(c14OpPool))]
			// randomise the names now and then
			if ctx.Rng.Intn(3) == 0 && len(ops[j].Names) > 0 {
				pool := []string{"@0", "@1", "@2", "@3", "%0", "%1", "ghost", "p1", "p2", "*", "data"}
				k := 1 + ctx.Rng.Intn(3)
				nm := make([]string, k)
				for x := range nm {
					nm[x] = pool[ctx.Rng.Intn(len(pool))]
				}
				ops[j].Names = nm
			}
		}
		// a branching history now and then: a step derives from an earlier project, not from the latest one
		branched := false
		if ctx.Rng.Intn(3) == 0 {
			for j := 1; j < len(ops); j++ {
				if ctx.Rng.Intn(2) == 0 {
					ops[j].Back = 1 + ctx.Rng.Intn(j)
					branched = true
				}
			}
		}
		if branched {
			ctx.Count("history-random-branching")
		} else {
			ctx.Count("history-random-chain")
		}
		ctx.Count(fmt.Sprintf("history-random-len-%d", n))
		ctx.Count("history-random-" + pr.Mode)
		if i%10 == 0 {
			ctx.Add("c14.spec", c14HistArgs{Proj: pr, Ops: ops, Spec: true})
		} else {
			ctx.Add("c14.history", c14HistArgs{Proj: pr, Ops: ops})
		}
	}
	dops := c14DerivOps()
	for i := 0; i < ctx.Pick(500, 15000); i++ {
		var pr c14Proj
		switch r := ctx.Rng.Intn(10); {
		case r < 6:
			pr = c14Proj{Mode: "sparse", Seed: ctx.Rng.Int63n(1 << 40)}
		case r < 8:
			pr = c14Proj{Mode: "full", Size: 1 + ctx.Rng.Intn(2), Seed: ctx.Rng.Int63n(1 << 40)}
		default:
			ys := []string{"anchors", "deps", "minimal"}
			pr = c14Proj{Mode: "loaded", Yaml: ys[ctx.Rng.Intn(len(ys))]}
		}
		op := dops[ctx.Rng.Intn(len(dops))]
		if ctx.Rng.Intn(2) == 0 && len(op.Names) > 0 {
			pool := []string{"@0", "@1", "@2", "@3", "%0", "%1", "ghost", "p1", "p2", "*", "data"}
			k := 1 + ctx.Rng.Intn(3)
			nm := make([]string, k)
			for x := range nm {
				nm[x] = pool[ctx.Rng.Intn(len(pool))]
			}
			op.Names = nm
		}
		ctx.Count("deriv-random-" + pr.Mode)
		ctx.Add("c14.deriv", c14DerivArgs{Proj: pr, Op: op})
	}
	_ = context.Background
}
