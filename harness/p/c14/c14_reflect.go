package c14

// C14 — reflection machinery: populate every field of every model type, encode a Go value as
// the heap value `CV.Heap.GoVal` (references carry the identity of the memory they point at),
// scan two values for shared mutable memory, and mutate everything reachable from a value.
//
// Nothing here names a field of the model: a field added to a struct is populated, encoded,
// scanned and mutated automatically.

import (
	"fmt"
	"math/rand"
	"reflect"
	"sort"
	"strconv"
	"strings"
	"unsafe"
)

// ---------------------------------------------------------------- populate

// fillPolicy decides the state of each reference position, by path class
// ("Services.*.Build.Args": map values / slice elements are "*", pointers are transparent).
type fillPolicy interface {
	// ref: 0 = nil, 1 = empty (non-nil, no element), n ≥ 2 = n-1 elements
	ref(path string, k reflect.Kind) int
	scalar(path string) bool // populate this scalar with a non-zero value?
}

type filler struct {
	pol fillPolicy
	n   int // unique token counter
}

func settable(v reflect.Value) reflect.Value {
	if v.CanSet() {
		return v
	}
	// unexported field: reach it through its address
	return reflect.NewAt(v.Type(), unsafe.Pointer(v.UnsafeAddr())).Elem()
}

func (f *filler) fill(v reflect.Value, path string, depth int) {
	if depth > 16 {
		return
	}
	v = settable(v)
	switch v.Kind() {
	case reflect.Bool:
		if f.pol.scalar(path) {
			v.SetBool(true)
		}
	case reflect.Int, reflect.Int8, reflect.Int16, reflect.Int32, reflect.Int64:
		if f.pol.scalar(path) {
			f.n++
			v.SetInt(int64(f.n%100 + 1))
		}
	case reflect.Uint, reflect.Uint8, reflect.Uint16, reflect.Uint32, reflect.Uint64, reflect.Uintptr:
		if f.pol.scalar(path) {
			f.n++
			v.SetUint(uint64(f.n%100 + 1))
		}
	case reflect.Float32, reflect.Float64:
		if f.pol.scalar(path) {
			f.n++
			v.SetFloat(float64(f.n%100) + 0.5)
		}
	case reflect.String:
		if f.pol.scalar(path) {
			f.n++
			v.SetString("v" + strconv.Itoa(f.n))
		}
	case reflect.Ptr:
		if f.pol.ref(path, reflect.Ptr) == 0 {
			return
		}
		p := reflect.New(v.Type().Elem())
		f.fill(p.Elem(), path, depth+1)
		v.Set(p)
	case reflect.Slice:
		st := f.pol.ref(path, reflect.Slice)
		if st == 0 {
			return
		}
		s := reflect.MakeSlice(v.Type(), st-1, st-1)
		for i := 0; i < st-1; i++ {
			f.fill(s.Index(i), path+".*", depth+1)
		}
		v.Set(s)
	case reflect.Map:
		st := f.pol.ref(path, reflect.Map)
		if st == 0 {
			return
		}
		m := reflect.MakeMapWithSize(v.Type(), st-1)
		for i := 0; i < st-1; i++ {
			if v.Type().Key().Kind() != reflect.String {
				break
			}
			f.n++
			k := reflect.New(v.Type().Key()).Elem()
			k.SetString("k" + strconv.Itoa(f.n))
			e := reflect.New(v.Type().Elem()).Elem()
			f.fill(e, path+".*", depth+1)
			m.SetMapIndex(k, e)
		}
		v.Set(m)
	case reflect.Struct:
		for i := 0; i < v.NumField(); i++ {
			f.fill(v.Field(i), path+"."+v.Type().Field(i).Name, depth+1)
		}
	case reflect.Interface:
		// opaque payload (extension values): a scalar, a map or a list
		st := f.pol.ref(path, reflect.Interface)
		if st == 0 {
			return
		}
		f.n++
		switch f.n % 3 {
		case 0:
			v.Set(reflect.ValueOf("x" + strconv.Itoa(f.n)))
		case 1:
			v.Set(reflect.ValueOf(map[string]any{"ext": "v" + strconv.Itoa(f.n), "n": f.n}))
		default:
			v.Set(reflect.ValueOf([]any{"e" + strconv.Itoa(f.n), f.n}))
		}
	}
}

// fullPolicy: every field non-zero, containers with `size` elements.
type fullPolicy struct{ size int }

func (p fullPolicy) ref(string, reflect.Kind) int { return p.size + 1 }
func (p fullPolicy) scalar(string) bool           { return true }

// sparsePolicy: every reference position independently nil / empty / populated.
type sparsePolicy struct {
	rng  *rand.Rand
	pNil int // percent
}

func (p sparsePolicy) ref(_ string, k reflect.Kind) int {
	r := p.rng.Intn(100)
	switch {
	case r < p.pNil:
		return 0
	case r < p.pNil+12 && k != reflect.Ptr && k != reflect.Interface:
		return 1
	default:
		return 2 + p.rng.Intn(2)
	}
}
func (p sparsePolicy) scalar(string) bool { return p.rng.Intn(100) < 70 }

// slotPolicy: the exhaustive small-scope stream — exactly one reference position (`target`) is put
// in `state`; its ancestors hold one element; everything else stays zero.
type slotPolicy struct {
	target string
	state  int
}

func isPrefixPath(p, of string) bool { return p == of || strings.HasPrefix(of, p+".") }

func (p slotPolicy) ref(path string, _ reflect.Kind) int {
	if path == p.target {
		return p.state
	}
	if isPrefixPath(path, p.target) {
		return 2
	}
	return 0
}
func (p slotPolicy) scalar(path string) bool {
	// scalars directly inside the target or on the way to it
	i := strings.LastIndex(path, ".")
	if i < 0 {
		return false
	}
	parent := path[:i]
	return isPrefixPath(parent, p.target) || strings.HasPrefix(parent, p.target)
}

// refSlots lists the path class of every reference position (pointer, slice, map, interface) in the type tree.
func refSlots(t reflect.Type) []string {
	var out []string
	seen := map[string]bool{}
	var walk func(t reflect.Type, path string, depth int)
	walk = func(t reflect.Type, path string, depth int) {
		if depth > 16 {
			return
		}
		switch t.Kind() {
		case reflect.Ptr:
			if !seen[path] {
				seen[path] = true
				out = append(out, path)
			}
			walk(t.Elem(), path, depth+1)
		case reflect.Slice, reflect.Map:
			if !seen[path] {
				seen[path] = true
				out = append(out, path)
			}
			walk(t.Elem(), path+".*", depth+1)
		case reflect.Interface:
			if !seen[path] {
				seen[path] = true
				out = append(out, path)
			}
		case reflect.Struct:
			for i := 0; i < t.NumField(); i++ {
				walk(t.Field(i).Type, path+"."+t.Field(i).Name, depth+1)
			}
		}
	}
	walk(t, "", 0)
	return out
}

// ---------------------------------------------------------------- encode (Go value → CV.Heap.GoVal wire format)

// encoder numbers memory identities in first-visit order; one encoder is shared by all values of a case,
// so that equal numbers mean the same memory.
type encoder struct {
	ids  map[uintptr]int
	next int
}

func newEncoder() *encoder { return &encoder{ids: map[uintptr]int{}, next: 1} }

func (e *encoder) id(p uintptr) int {
	if p == 0 {
		return 0
	}
	if n, ok := e.ids[p]; ok {
		return n
	}
	n := e.next
	e.next++
	e.ids[p] = n
	return n
}

func scalarRepr(v reflect.Value) string {
	if v.IsZero() {
		return ""
	}
	switch v.Kind() {
	case reflect.Bool:
		return "b:true"
	case reflect.Int, reflect.Int8, reflect.Int16, reflect.Int32, reflect.Int64:
		return "i:" + strconv.FormatInt(v.Int(), 10)
	case reflect.Uint, reflect.Uint8, reflect.Uint16, reflect.Uint32, reflect.Uint64, reflect.Uintptr:
		return "u:" + strconv.FormatUint(v.Uint(), 10)
	case reflect.Float32, reflect.Float64:
		return "f:" + strconv.FormatFloat(v.Float(), 'g', -1, 64)
	case reflect.String:
		return "s:" + v.String()
	}
	return "?:" + fmt.Sprint(v.Interface())
}

// enc: scalar = JSON string · nil = null · {"p":[a,V]} · {"l":[a,[V…]]} · {"m":[a,[[k,V]…]]} (keys sorted) ·
// {"t":[[field,V]…]} · {"o":[a,repr]} (reference held by an interface: not descended into).
func (e *encoder) enc(v reflect.Value) any {
	switch v.Kind() {
	case reflect.Ptr:
		if v.IsNil() {
			return nil
		}
		return map[string]any{"p": []any{e.id(v.Pointer()), e.enc(v.Elem())}}
	case reflect.Slice:
		if v.IsNil() {
			return nil
		}
		a := 0
		if v.Len() > 0 {
			a = e.id(v.Pointer())
		}
		l := make([]any, v.Len())
		for i := range l {
			l[i] = e.enc(v.Index(i))
		}
		return map[string]any{"l": []any{a, l}}
	case reflect.Map:
		if v.IsNil() {
			return nil
		}
		a := e.id(v.Pointer())
		keys := v.MapKeys()
		sort.Slice(keys, func(i, j int) bool { return keys[i].String() < keys[j].String() })
		l := make([]any, len(keys))
		for i, k := range keys {
			l[i] = []any{k.String(), e.enc(v.MapIndex(k))}
		}
		return map[string]any{"m": []any{a, l}}
	case reflect.Struct:
		l := make([]any, v.NumField())
		for i := range l {
			l[i] = []any{v.Type().Field(i).Name, e.enc(v.Field(i))}
		}
		return map[string]any{"t": l}
	case reflect.Interface:
		if v.IsNil() {
			return nil
		}
		x := v.Elem()
		switch x.Kind() {
		case reflect.Map, reflect.Slice, reflect.Ptr:
			if x.IsNil() {
				return nil
			}
			return map[string]any{"o": []any{e.id(x.Pointer()), fmt.Sprintf("%v", x.Interface())}}
		case reflect.Bool, reflect.Int, reflect.Int8, reflect.Int16, reflect.Int32, reflect.Int64, reflect.Uint, reflect.Uint8, reflect.Uint16,
			reflect.Uint32, reflect.Uint64, reflect.Uintptr, reflect.Float32, reflect.Float64, reflect.String:
			if x.IsZero() {
				// a typed zero inside an interface is not the nil interface
				return "z:" + x.Kind().String()
			}
			return scalarRepr(x)
		}
		return "?:" + fmt.Sprintf("%v", x.Interface())
	}
	return scalarRepr(v)
}

// diffPath returns the path class of the first difference between two encodings ("" = equal).
func diffPath(a, b any, path string) string {
	switch x := a.(type) {
	case nil:
		if b == nil {
			return ""
		}
		return path + " (nil ≠ non-nil)"
	case string:
		if y, ok := b.(string); ok && x == y {
			return ""
		}
		return path
	case int:
		if y, ok := b.(int); ok && x == y {
			return ""
		}
		return path + " (identity)"
	case map[string]any:
		y, ok := b.(map[string]any)
		if !ok {
			return path + " (kind)"
		}
		for k, xv := range x {
			yv, ok := y[k]
			if !ok {
				return path + " (kind)"
			}
			xl, yl := xv.([]any), yv.([]any)
			switch k {
			case "t":
				if len(xl) != len(yl) {
					return path + " (fields)"
				}
				for i := range xl {
					xf, yf := xl[i].([]any), yl[i].([]any)
					if d := diffPath(xf[1], yf[1], path+"."+xf[0].(string)); d != "" {
						return d
					}
				}
			case "p":
				if xl[0] != yl[0] {
					return path + " (identity)"
				}
				return diffPath(xl[1], yl[1], path)
			case "o":
				if xl[0] != yl[0] || xl[1] != yl[1] {
					return path + " (payload)"
				}
			case "l":
				if xl[0] != yl[0] {
					return path + " (identity)"
				}
				xs, ys := xl[1].([]any), yl[1].([]any)
				if len(xs) != len(ys) {
					return path + " (length)"
				}
				for i := range xs {
					if d := diffPath(xs[i], ys[i], path+".*"); d != "" {
						return d
					}
				}
			case "m":
				if xl[0] != yl[0] {
					return path + " (identity)"
				}
				xs, ys := xl[1].([]any), yl[1].([]any)
				if len(xs) != len(ys) {
					return path + " (keys)"
				}
				for i := range xs {
					xe, ye := xs[i].([]any), ys[i].([]any)
					if xe[0] != ye[0] {
						return path + " (keys)"
					}
					if d := diffPath(xe[1], ye[1], path+".*"); d != "" {
						return d
					}
				}
			}
		}
		return ""
	}
	if reflect.DeepEqual(a, b) {
		return ""
	}
	return path
}

// eraseIDs returns the encoding with every identity set to 0 (= CV.Heap.erase: deep equality).
func eraseIDs(a any) any {
	switch x := a.(type) {
	case map[string]any:
		out := map[string]any{}
		for k, v := range x {
			l := v.([]any)
			switch k {
			case "t":
				n := make([]any, len(l))
				for i := range l {
					f := l[i].([]any)
					n[i] = []any{f[0], eraseIDs(f[1])}
				}
				out[k] = n
			case "p":
				out[k] = []any{0, eraseIDs(l[1])}
			case "o":
				out[k] = []any{0, l[1]}
			case "l":
				xs := l[1].([]any)
				n := make([]any, len(xs))
				for i := range xs {
					n[i] = eraseIDs(xs[i])
				}
				out[k] = []any{0, n}
			case "m":
				xs := l[1].([]any)
				n := make([]any, len(xs))
				for i := range xs {
					e := xs[i].([]any)
					n[i] = []any{e[0], eraseIDs(e[1])}
				}
				out[k] = []any{0, n}
			}
		}
		return out
	}
	return a
}

// ---------------------------------------------------------------- alias scan

type memRef struct {
	lo, hi uintptr // [lo, hi)
	path   string
}

// memRefs lists the mutable memory reachable from v (pointees, slice backing arrays in use, map headers);
// interface payloads are opaque and not listed.
func memRefs(v reflect.Value, path string, out *[]memRef) {
	switch v.Kind() {
	case reflect.Ptr:
		if v.IsNil() {
			return
		}
		sz := v.Type().Elem().Size()
		if sz > 0 {
			*out = append(*out, memRef{v.Pointer(), v.Pointer() + sz, path})
		}
		memRefs(v.Elem(), path, out)
	case reflect.Slice:
		if v.IsNil() || v.Len() == 0 {
			return
		}
		sz := v.Type().Elem().Size() * uintptr(v.Len())
		if sz > 0 {
			*out = append(*out, memRef{v.Pointer(), v.Pointer() + sz, path})
		}
		for i := 0; i < v.Len(); i++ {
			memRefs(v.Index(i), path+".*", out)
		}
	case reflect.Map:
		if v.IsNil() {
			return
		}
		*out = append(*out, memRef{v.Pointer(), v.Pointer() + 1, path})
		it := v.MapRange()
		for it.Next() {
			memRefs(it.Value(), path+".*", out)
		}
	case reflect.Struct:
		for i := 0; i < v.NumField(); i++ {
			memRefs(v.Field(i), path+"."+v.Type().Field(i).Name, out)
		}
	}
}

// sharedMemory returns, for every piece of memory reachable from both a and b, "pathInB <- pathInA".
func sharedMemory(a, b reflect.Value) []string {
	var ra, rb []memRef
	memRefs(a, "", &ra)
	memRefs(b, "", &rb)
	sort.Slice(ra, func(i, j int) bool { return ra[i].lo < ra[j].lo })
	// prefix maximum of hi, so that overlap search is a binary search
	maxHi := make([]uintptr, len(ra))
	var m uintptr
	for i, r := range ra {
		if r.hi > m {
			m = r.hi
		}
		maxHi[i] = m
	}
	seen := map[string]bool{}
	var out []string
	for _, r := range rb {
		// candidates: refs of a with lo < r.hi; walk back while maxHi > r.lo
		i := sort.Search(len(ra), func(i int) bool { return ra[i].lo >= r.hi }) - 1
		for ; i >= 0 && maxHi[i] > r.lo; i-- {
			if ra[i].hi > r.lo && ra[i].lo < r.hi {
				s := r.path + " <- " + ra[i].path
				if !seen[s] {
					seen[s] = true
					out = append(out, s)
				}
				break
			}
		}
	}
	sort.Strings(out)
	return out
}

// ---------------------------------------------------------------- mutate everything reachable

// mutateAll changes every scalar stored in memory reachable through a pointer, slice or map of v, and
// inserts a key into every map.  Interface payloads are replaced, never modified in place.
// Scalars held directly by v itself (not behind a reference) are changed too when v is addressable.
func mutateAll(v reflect.Value, depth int) {
	if depth > 24 {
		return
	}
	if v.CanAddr() && !v.CanSet() {
		v = settable(v)
	}
	switch v.Kind() {
	case reflect.Bool:
		if v.CanSet() {
			v.SetBool(!v.Bool())
		}
	case reflect.Int, reflect.Int8, reflect.Int16, reflect.Int32, reflect.Int64:
		if v.CanSet() {
			v.SetInt(v.Int() + 7)
		}
	case reflect.Uint, reflect.Uint8, reflect.Uint16, reflect.Uint32, reflect.Uint64, reflect.Uintptr:
		if v.CanSet() {
			v.SetUint(v.Uint() + 7)
		}
	case reflect.Float32, reflect.Float64:
		if v.CanSet() {
			v.SetFloat(v.Float() + 7)
		}
	case reflect.String:
		if v.CanSet() {
			v.SetString(v.String() + "~mutated")
		}
	case reflect.Ptr:
		if !v.IsNil() {
			mutateAll(v.Elem(), depth+1)
		}
	case reflect.Slice:
		for i := 0; i < v.Len(); i++ {
			mutateAll(v.Index(i), depth+1)
		}
	case reflect.Map:
		if v.IsNil() {
			return
		}
		for _, k := range v.MapKeys() {
			// map values are not addressable: mutate an addressable copy (which shares every reference) and store it back
			e := reflect.New(v.Type().Elem()).Elem()
			e.Set(v.MapIndex(k))
			mutateAll(e, depth+1)
			v.SetMapIndex(k, e)
		}
		if v.Type().Key().Kind() == reflect.String {
			k := reflect.New(v.Type().Key()).Elem()
			k.SetString("~inserted")
			v.SetMapIndex(k, reflect.New(v.Type().Elem()).Elem())
		}
	case reflect.Struct:
		for i := 0; i < v.NumField(); i++ {
			mutateAll(v.Field(i), depth+1)
		}
	case reflect.Interface:
		if v.CanSet() {
			v.Set(reflect.ValueOf("~replaced"))
		}
	}
}
