package c14

// c14.visit — correspondence of Project.ForEachService / withServices with its heap model
// (lean/ComposeVerif/Model/HeapVisit.lean: walk): the real method runs with a recording visitor on a reflection-built or
// loaded project, receiver (before and after) and the services handed to the visitor are encoded as one memory graph,
// the Lean walk runs on the encoded receiver, and the two sets of visited services are compared in full — names, values,
// nil-vs-empty, and which memory is new and which is the receiver's.  The visit does not start from a project copy: it
// reads the receiver itself, and with the default policy its local `dependencies` IS the receiver's DependsOn map.

import (
	"encoding/json"
	"fmt"
	"reflect"
	"runtime"
	"runtime/debug"
	"sort"
	"strings"
	"sync"
	"time"

	"github.com/compose-spec/compose-go/v2/types"

	"verifharness/core"
)

type c14VisitArgs struct {
	Proj c14Proj `json:"proj"`
	Op   c14Op   `json:"op"` // Op = "ForEachService"; Names; Opt = "" | deps | ignore | dependents
}

// c14VisitShape classifies the receiver by the branches of withServices it can reach (input distribution)
func c14VisitShape(p *types.Project, names []string) []string {
	var out []string
	optMissing, reqMissing, hasDeps, nameKey := false, false, false, true
	for k, s := range p.Services {
		if s.Name != k {
			nameKey = false
		}
		for d, dep := range s.DependsOn {
			hasDeps = true
			if _, ok := p.Services[d]; !ok {
				if dep.Required {
					reqMissing = true
				} else {
					optMissing = true
				}
			}
		}
	}
	if optMissing {
		out = append(out, "optional-dependency-not-enabled")
	}
	if reqMissing {
		out = append(out, "required-dependency-not-enabled")
	}
	if hasDeps {
		out = append(out, "has-dependencies")
	} else {
		out = append(out, "no-dependencies")
	}
	if !nameKey {
		out = append(out, "name-differs-from-key")
	}
	if len(names) == 0 {
		out = append(out, "all-services")
	}
	for _, n := range names {
		if _, ok := p.Services[n]; !ok {
			out = append(out, "top-level-name-missing")
			break
		}
	}
	return out
}

func c14Visit(raw json.RawMessage) any {
	var a c14VisitArgs
	if err := json.Unmarshal(raw, &a); err != nil {
		return map[string]any{"bad": err.Error()}
	}
	old := debug.SetGCPercent(-1)
	defer func() { debug.SetGCPercent(old); runtime.GC() }()
	p, err := c14Build(a.Proj)
	if err != nil || p == nil {
		return map[string]any{"build_err": fmt.Sprint(err)}
	}
	names := c14ResolveNames(p, a.Op.Names)
	pol := a.Op.Opt
	if pol == "" {
		pol = "deps"
	}
	shape := c14VisitShape(p, names)
	e := newEncoder()
	before := e.enc(reflect.ValueOf(p))
	k := e.next
	var mu sync.Mutex
	var order []string
	vis := types.Services{}
	dup := false
	opErr := p.ForEachService(append([]string{}, names...), func(name string, s *types.ServiceConfig) error {
		mu.Lock()
		defer mu.Unlock()
		if _, ok := vis[name]; ok {
			dup = true
		}
		order = append(order, name)
		if s != nil {
			vis[name] = *s
		}
		return nil
	}, depOpt(a.Op.Opt)...)
	after := e.enc(reflect.ValueOf(p))
	where := diffPath(before, after, "")
	out := map[string]any{"src": before, "k": k, "names": append([]string{}, names...), "policy": pol, "unchanged": where == "",
		"where": where, "shape": shape, "dup": dup, "visited": len(order)}
	if opErr != nil {
		out["err"] = "err"
	}
	out["res"] = e.enc(reflect.ValueOf(vis))
	return out
}

func c14VisitJudge(args, real, drv json.RawMessage) *core.Verdict {
	if v := core.CrashVerdict(real); v != nil {
		return v
	}
	var r struct {
		Res       any      `json:"res"`
		Err       string   `json:"err"`
		K         int      `json:"k"`
		Policy    string   `json:"policy"`
		Unchanged bool     `json:"unchanged"`
		Where     string   `json:"where"`
		Shape     []string `json:"shape"`
		Dup       bool     `json:"dup"`
		Visited   int      `json:"visited"`
		BuildErr  string   `json:"build_err"`
	}
	if err := json.Unmarshal(real, &r); err != nil {
		return core.Disagree("malformed visit outcome")
	}
	if r.BuildErr != "" {
		return core.Skip(r.BuildErr)
	}
	var d struct {
		Res            any      `json:"res"`
		Err            *string  `json:"err"`
		Confined       bool     `json:"confined"`
		Writes         int      `json:"writes"`
		Branches       []string `json:"branches"`
		SelectedAgrees bool     `json:"selectedAgrees"`
		Bad            string   `json:"bad"`
	}
	if err := json.Unmarshal(drv, &d); err != nil || d.Bad != "" {
		return core.Disagree("driver: " + string(drv[:min(len(drv), 300)]))
	}
	if c14Ctx != nil {
		st := "ok"
		if r.Err != "" {
			st = "err"
		}
		c14Ctx.Count("visit:" + r.Policy + ":" + st)
		for _, s := range r.Shape {
			c14Ctx.Count("visit-shape:" + s)
		}
		for _, b := range d.Branches {
			c14Ctx.Count("visit-branch:" + b)
		}
		if r.Visited > 1 {
			c14Ctx.Count("visit-shape:more-than-one-visited")
		}
	}
	if !r.Unchanged {
		return core.Fail("receiver-mutated:ForEachService:visit", "visiting services changed the receiver at "+r.Where)
	}
	if d.Err != nil && strings.HasPrefix(*d.Err, "stuck:") {
		return core.Disagree("the visit model got stuck: " + *d.Err)
	}
	if !d.Confined {
		return core.Disagree("the visit model wrote below the frontier on this input")
	}
	if !d.SelectedAgrees {
		return core.Disagree("the walk (Model/HeapVisit.lean) and the pure closure `selected` of the WithSelectedServices program visit different sets")
	}
	if r.Dup {
		return core.Disagree("the real walk visited a service twice")
	}
	if (r.Err != "") != (d.Err != nil) {
		return core.Disagree(fmt.Sprintf("error class: real %q, model %v", r.Err, d.Err))
	}
	if r.Err != "" {
		return nil // what was visited before the error depends on Go's map order
	}
	x, y := c14Renumber(r.Res, r.K, nil), c14Renumber(d.Res, r.K, nil)
	if where := jsonDiff(x, y, ""); where != "" {
		if c14SharesBelow(x, r.K) && !c14SharesBelow(y, r.K) {
			return core.Fail("visitor-alias:ForEachService:visit", "a service handed to the visitor reaches the receiver's memory, the model's copy does not; first difference at "+where)
		}
		return core.Disagree("visit model ≠ real ForEachService at " + where)
	}
	return nil
}

// c14SharesBelow: some model identity of the encoding is one of the receiver's (0 < id < k)
func c14SharesBelow(v any, k int) bool {
	found := false
	var walk func(v any)
	num := func(x any) int {
		switch t := x.(type) {
		case float64:
			return int(t)
		case int:
			return t
		}
		return 0
	}
	walk = func(v any) {
		x, ok := v.(map[string]any)
		if !ok || found {
			return
		}
		for key, val := range x {
			l, _ := val.([]any)
			switch key {
			case "t":
				for i := range l {
					walk(l[i].([]any)[1])
				}
			case "p":
				if n := num(l[0]); n > 0 && n < k {
					found = true
				}
				walk(l[1])
			case "l", "m":
				if n := num(l[0]); n > 0 && n < k {
					found = true
				}
				xs, _ := l[1].([]any)
				for _, e := range xs {
					if key == "l" {
						walk(e)
					} else {
						walk(e.([]any)[1])
					}
				}
			}
		}
	}
	walk(v)
	return found
}

func init() {
	core.Register("c14.visit", &core.CheckDef{
		Real:     c14Visit,
		DriverOp: "c14.visit",
		DriverArgs: func(args, real json.RawMessage) any {
			var r struct {
				Src    json.RawMessage `json:"src"`
				Names  []string        `json:"names"`
				Policy string          `json:"policy"`
			}
			json.Unmarshal(real, &r)
			return map[string]any{"src": r.Src, "names": r.Names, "policy": r.Policy}
		},
		Judge:   c14VisitJudge,
		Timeout: 30 * time.Second,
	})
}

// c14VisitOps: every name-list shape × every dependency policy
func c14VisitOps() []c14Op {
	var out []c14Op
	for _, names := range [][]string{nil, {"@0"}, {"@1"}, {"@0", "@1"}, {"@2", "@0", "@2"}, {"ghost"}, {"@1", "ghost"}, {"%0"}} {
		for _, opt := range []string{"", "ignore", "dependents"} {
			out = append(out, c14Op{Op: "ForEachService", Names: names, Opt: opt})
		}
	}
	sort.SliceStable(out, func(i, j int) bool { return out[i].Opt < out[j].Opt })
	return out
}

// runC14Visit: exhaustive shapes on the base projects, then seeded random projects / names / policies
func runC14Visit(ctx *core.Ctx, bases []c14Proj) {
	for _, b := range bases {
		for _, op := range c14VisitOps() {
			ctx.Count("visit-exhaustive")
			ctx.Add("c14.visit", c14VisitArgs{Proj: b, Op: op})
		}
	}
	pool := []string{"@0", "@1", "@2", "@3", "@4", "%0", "ghost"}
	for i := 0; i < ctx.Pick(400, 12000); i++ {
		var pr c14Proj
		switch r := ctx.Rng.Intn(10); {
		case r < 6:
			pr = c14Proj{Mode: "sparse", Seed: ctx.Rng.Int63n(1 << 40)}
		case r < 8:
			pr = c14Proj{Mode: "full", Size: 1 + ctx.Rng.Intn(2), Seed: ctx.Rng.Int63n(1 << 40)}
		default:
			ys := []string{"anchors", "deps", "minimal"}
			pr = c14Proj{Mode: "loaded", Yaml: ys[ctx.Rng.Intn(len(ys))]}
		}
		op := c14Op{Op: "ForEachService", Opt: []string{"", "deps", "ignore", "dependents"}[ctx.Rng.Intn(4)]}
		if ctx.Rng.Intn(5) > 0 {
			k := 1 + ctx.Rng.Intn(3)
			for x := 0; x < k; x++ {
				n := pool[ctx.Rng.Intn(5)] // an enabled service
				if ctx.Rng.Intn(8) == 0 {
					n = pool[5+ctx.Rng.Intn(2)] // now and then a disabled or unknown one (top-level names are required)
				}
				op.Names = append(op.Names, n)
			}
		}
		ctx.Count("visit-random-" + pr.Mode)
		ctx.Add("c14.visit", c14VisitArgs{Proj: pr, Op: op})
	}
}
