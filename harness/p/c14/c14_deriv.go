package c14

// c14.deriv — correspondence of the nine derivations with their heap programs (lean/ComposeVerif/Model/Derivations.lean):
// the real method runs on a reflection-built project, receiver and result are encoded as one memory graph, the Lean
// program runs on the encoded receiver, and the two results are compared *including* which memory is new and which is
// shared.  Domain: services whose env files are absent-and-optional and that have no label files (reading files is C16).

import (
	"encoding/json"
	"fmt"
	"reflect"
	"runtime"
	"runtime/debug"
	"sort"
	"strings"
	"time"

	"github.com/compose-spec/compose-go/v2/types"
	"github.com/distribution/reference"
	godigest "github.com/opencontainers/go-digest"

	"verifharness/core"
)

type c14DerivArgs struct {
	Proj c14Proj `json:"proj"`
	Op   c14Op   `json:"op"`
}

const c14Digest = "sha256:cdcdcdcdcdcdcdcdcdcdcdcdcdcdcdcdcdcdcdcdcdcdcdcdcdcdcdcdcdcdcdcd"

// c14DerivDomain removes what the heap programs do not model: files that would be read.
func c14DerivDomain(p *types.Project) {
	for _, m := range []types.Services{p.Services, p.DisabledServices} {
		for k, s := range m {
			for i := range s.EnvFiles {
				s.EnvFiles[i].Path = "/nonexistent/c14/" + k + ".env"
				s.EnvFiles[i].Required = false
				s.EnvFiles[i].Format = ""
			}
			s.LabelFiles = nil
			m[k] = s
		}
	}
}

// resolveNames: "@i" / "%i" → names of the receiver (same rule as c14Apply)
func c14ResolveNames(p *types.Project, in []string) []string {
	en, dis := sortedKeys(p.Services), sortedKeys(p.DisabledServices)
	names := make([]string, len(in))
	for i, n := range in {
		names[i] = n
		var l []string
		switch {
		case strings.HasPrefix(n, "@"):
			l = en
		case strings.HasPrefix(n, "%"):
			l = dis
		default:
			continue
		}
		k := int(n[1] - '0')
		if len(l) > 0 {
			names[i] = l[k%len(l)]
		} else {
			names[i] = "ghost"
		}
	}
	return names
}

func c14Deriv(raw json.RawMessage) any {
	var a c14DerivArgs
	if err := json.Unmarshal(raw, &a); err != nil {
		return map[string]any{"bad": err.Error()}
	}
	old := debug.SetGCPercent(-1)
	defer func() { debug.SetGCPercent(old); runtime.GC() }()
	p, err := c14Build(a.Proj)
	if err != nil || p == nil {
		return map[string]any{"build_err": fmt.Sprint(err)}
	}
	c14DerivDomain(p)
	op := a.Op
	op.Names = c14ResolveNames(p, op.Names)
	pargs := map[string]any{}
	strs := func(l []string) []string {
		if l == nil {
			return []string{}
		}
		return l
	}
	progOp := op.Op
	switch op.Op {
	case "WithProfiles":
		if op.Opt == "self" {
			if p.Profiles != nil {
				pargs["profiles"] = strs(p.Profiles)
			}
		} else {
			pargs["profiles"] = strs(op.Names)
		}
	case "WithServicesEnabled", "WithServicesDisabled":
		pargs["names"] = strs(op.Names)
	case "WithSelectedServices":
		pargs["names"] = strs(op.Names)
		pol := op.Opt
		if pol == "" {
			pol = "deps"
		}
		pargs["policy"] = []string{pol}
	case "WithServicesEnvironmentResolved", "WithServicesLabelsResolved":
		if op.Flag {
			pargs["discard"] = []string{"1"}
		} else {
			pargs["discard"] = []string{"0"}
		}
	case "WithServicesTransform":
		pargs["variant"] = []string{op.Opt}
		var en []string
		if op.Opt == "error" {
			for _, n := range sortedKeys(p.Services) {
				if strings.HasSuffix(n, "0") {
					en = append(en, n)
				}
			}
		}
		pargs["errnames"] = strs(en)
	case "WithImagesResolved":
		// what the resolver-based transform does to every image, computed here with the reference library alone
		pargs["variant"] = []string{"image"}
		var imgs, en []string
		for _, n := range sortedKeys(p.Services) {
			img := p.Services[n].Image
			if img == "" {
				continue
			}
			named, err := reference.ParseDockerRef(img)
			if err != nil {
				en = append(en, n)
				continue
			}
			if _, ok := named.(reference.Canonical); !ok {
				if op.Opt == "error" && strings.HasSuffix(reference.Path(named), "1") {
					en = append(en, n)
					continue
				}
				named, err = reference.WithDigest(named, godigest.Digest(c14Digest))
				if err != nil {
					en = append(en, n)
					continue
				}
			}
			imgs = append(imgs, n, named.String())
		}
		pargs["images"] = strs(imgs)
		pargs["errnames"] = strs(en)
	case "WithoutUnnecessaryResources":
	case "MarshalApply":
		if op.Flag {
			pargs["secretsContent"] = []string{"1"}
		} else {
			pargs["secretsContent"] = []string{"0"}
		}
	default:
		return map[string]any{"build_err": "no heap program for " + op.Op}
	}
	e := newEncoder()
	before := e.enc(reflect.ValueOf(p))
	k := e.next
	res, _, opErr := c14Apply(p, op)
	if op.Op == "MarshalApply" && !op.Flag && res == nil {
		res = p // without the option the encoders are handed the receiver itself (c14Apply reports that as "no project")
	}
	after := e.enc(reflect.ValueOf(p))
	out := map[string]any{"src": before, "k": k, "op": progOp, "pargs": pargs, "unchanged": diffPath(before, after, "") == "", "nodes": k}
	if opErr != nil {
		out["err"] = "err"
	}
	if res != nil {
		out["res"] = e.enc(reflect.ValueOf(res))
	}
	return out
}

// c14Renumber makes the identities of a result canonical: identities < k (memory of the receiver) stay, the others are
// numbered in first-visit order from k; empty slices have none.  mask(path) = true drops the subtree.
func c14Renumber(v any, k int, mask func(string) bool) any {
	ids := map[int]int{}
	next := k
	id := func(x any) int {
		n := 0
		switch t := x.(type) {
		case float64:
			n = int(t)
		case int:
			n = t
		}
		if n < k {
			return n
		}
		if m, ok := ids[n]; ok {
			return m
		}
		ids[n] = next
		next++
		return ids[n]
	}
	var walk func(v any, path string) any
	walk = func(v any, path string) any {
		if mask != nil && mask(path) {
			return "<masked>"
		}
		x, ok := v.(map[string]any)
		if !ok {
			return v
		}
		out := map[string]any{}
		for key, val := range x {
			l, _ := val.([]any)
			switch key {
			case "t":
				n := make([]any, len(l))
				for i := range l {
					f := l[i].([]any)
					n[i] = []any{f[0], walk(f[1], path+"."+f[0].(string))}
				}
				out[key] = n
			case "p":
				i := id(l[0])
				out[key] = []any{i, walk(l[1], path)}
			case "o":
				out[key] = []any{id(l[0]), l[1]}
			case "l":
				xs, _ := l[1].([]any)
				if len(xs) == 0 {
					out[key] = []any{0, []any{}}
					continue
				}
				i := id(l[0])
				n := make([]any, len(xs))
				for j := range xs {
					n[j] = walk(xs[j], path+".*")
				}
				out[key] = []any{i, n}
			case "m":
				xs, _ := l[1].([]any)
				i := id(l[0])
				n := make([]any, len(xs))
				for j := range xs {
					en := xs[j].([]any)
					n[j] = []any{en[0], walk(en[1], path+".*")}
				}
				out[key] = []any{i, n}
			}
		}
		return out
	}
	return walk(v, "")
}

func c14DerivJudge(args, real, drv json.RawMessage) *core.Verdict {
	if v := core.CrashVerdict(real); v != nil {
		return v
	}
	var r struct {
		Res       any    `json:"res"`
		Err       string `json:"err"`
		K         int    `json:"k"`
		Op        string `json:"op"`
		Unchanged bool   `json:"unchanged"`
		BuildErr  string `json:"build_err"`
	}
	if err := json.Unmarshal(real, &r); err != nil {
		return core.Disagree("malformed deriv outcome")
	}
	if r.BuildErr != "" {
		return core.Skip(r.BuildErr)
	}
	var d struct {
		Res           any       `json:"res"`
		Err           *string   `json:"err"`
		RecvUnchanged bool      `json:"recvUnchanged"`
		Confined      bool      `json:"confined"`
		WellTyped     bool      `json:"wellTyped"`
		RF            bool      `json:"rf"`
		Affected      *[]string `json:"affected"`
		Bad           string    `json:"bad"`
	}
	if err := json.Unmarshal(drv, &d); err != nil || d.Bad != "" {
		return core.Disagree("driver: " + string(drv[:min(len(drv), 300)]))
	}
	if c14Ctx != nil {
		st := "ok"
		if r.Err != "" {
			st = "err"
		}
		c14Ctx.Count("deriv:" + r.Op + ":" + st)
	}
	if !r.Unchanged {
		return core.Fail("receiver-mutated:"+r.Op+":deriv", "the derivation changed its receiver")
	}
	if d.Err != nil && strings.HasPrefix(*d.Err, "stuck:") {
		return core.Disagree("the heap program got stuck: " + *d.Err)
	}
	if !d.RF || !d.Confined || !d.RecvUnchanged {
		return core.Disagree(fmt.Sprintf("the heap program is not receiver free / confined on this input (rf=%v confined=%v receiver unchanged=%v)", d.RF, d.Confined, d.RecvUnchanged))
	}
	if !d.WellTyped {
		return core.Disagree("the heap program's result does not have the type of a project (type preservation fails on this input)")
	}
	if (r.Err != "") != (d.Err != nil) {
		return core.Disagree(fmt.Sprintf("error class: real %q, model %v", r.Err, d.Err))
	}
	// the hypothesis of carry_partial (Props/C14Carry.lean), evaluated by the driver on the program's own write log:
	// the fields of the copy the writes do not keep must lie inside the operation's frame
	if d.Affected == nil {
		if c14Ctx != nil {
			c14Ctx.Count("carry:" + r.Op + ":not-applicable(several copies or error)")
		}
	} else {
		if c14Ctx != nil {
			c14Ctx.Count(fmt.Sprintf("carry:%s:checked(%d fields affected)", r.Op, len(*d.Affected)))
		}
		for _, f := range *d.Affected {
			if !c14CarryFrame[r.Op][f] {
				return core.Disagree("the heap program of " + r.Op + " does not keep field " + f + ", which is outside the operation's frame")
			}
		}
	}
	if (r.Res == nil) != (d.Res == nil) {
		return core.Disagree("one side returns no project")
	}
	if r.Res == nil {
		return nil
	}
	// (no mask: since C15's repair WithSelectedServices disables the unselected services in name order, the result is order independent)
	var mask func(string) bool
	x, y := c14Renumber(r.Res, r.K, mask), c14Renumber(d.Res, r.K, mask)
	if where := jsonDiff(x, y, ""); where != "" {
		// a result that shares memory with the receiver where the (receiver-free, confined) program does not is a failing input
		sharesReal, sharesModel := c14MinID(x) < r.K && c14MinID(x) > 0, c14MinID(y) < r.K && c14MinID(y) > 0
		if sharesReal && !sharesModel {
			return core.Fail("alias:"+r.Op+":deriv", "the real result reaches the receiver's memory, the heap program's does not; first difference at "+where)
		}
		return core.Disagree("heap program ≠ real derivation at " + where)
	}
	return nil
}

// c14CarryFrame: the top-level fields of Project each derivation may change (everything else must be carried)
var c14CarryFrame = map[string]map[string]bool{
	"WithProfiles":                    {"Services": true, "DisabledServices": true, "Profiles": true},
	"WithServicesEnabled":             {"Services": true, "DisabledServices": true, "Profiles": true},
	"WithServicesDisabled":            {"Services": true, "DisabledServices": true},
	"WithSelectedServices":            {"Services": true, "DisabledServices": true},
	"WithoutUnnecessaryResources":     {"Networks": true, "Volumes": true, "Secrets": true, "Configs": true},
	"WithServicesTransform":           {"Services": true},
	"WithImagesResolved":              {"Services": true},
	"WithServicesEnvironmentResolved": {"Services": true},
	"WithServicesLabelsResolved":      {"Services": true},
	"MarshalApply":                    {"Secrets": true},
}

// c14MinID: the smallest non-zero model identity in an encoding (opaque payloads excluded)
func c14MinID(v any) int {
	best := 1 << 30
	var walk func(v any)
	walk = func(v any) {
		x, ok := v.(map[string]any)
		if !ok {
			return
		}
		for key, val := range x {
			l, _ := val.([]any)
			switch key {
			case "t":
				for i := range l {
					walk(l[i].([]any)[1])
				}
			case "p":
				if n, ok := l[0].(int); ok && n > 0 && n < best {
					best = n
				}
				walk(l[1])
			case "l", "m":
				if n, ok := l[0].(int); ok && n > 0 && n < best {
					best = n
				}
				xs, _ := l[1].([]any)
				for _, e := range xs {
					if key == "l" {
						walk(e)
					} else {
						walk(e.([]any)[1])
					}
				}
			}
		}
	}
	walk(v)
	return best
}

func init() {
	core.Register("c14.deriv", &core.CheckDef{
		Real:     c14Deriv,
		DriverOp: "c14.deriv",
		DriverArgs: func(args, real json.RawMessage) any {
			var r struct {
				Src   json.RawMessage `json:"src"`
				Op    string          `json:"op"`
				PArgs json.RawMessage `json:"pargs"`
			}
			json.Unmarshal(real, &r)
			return map[string]any{"op": r.Op, "src": r.Src, "pargs": r.PArgs}
		},
		Judge:   c14DerivJudge,
		Timeout: 30 * time.Second,
	})
}

// c14DerivOps: the operations that have a heap program (the visitor, the plain copy and the marshalling are not derivations)
func c14DerivOps() []c14Op {
	var out []c14Op
	for _, op := range c14OpPool {
		switch op.Op {
		case "Copy", "ForEachService", "MarshalWithSecrets", "MarshalPlain", "Accessors":
			continue
		case "WithServicesTransform":
			if op.Opt == "mutate" {
				continue
			}
		}
		out = append(out, op)
	}
	sort.SliceStable(out, func(i, j int) bool { return out[i].Op < out[j].Op })
	return out
}
