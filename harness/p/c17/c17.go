package c17

// C17 — project name and project environment follow the documented precedence.
//
//	c17load       cli.NewProjectOptions(opts…) + LoadProject on a temp tree under a controlled OS environment
//	              vs (a) the Lean model Name.run (correspondence) and (b) the Lean specification
//	              Spec.decide / Spec.dotenvLayers computed from the options syntactically (direct oracle)
//	c17norm       loader.NormalizeProjectName on a string vs Name.normalize (+ laws checked on the real function)
//	c17normRange  loader.NormalizeProjectName on every single-rune string of a code-point block

import (
	"encoding/json"
	"fmt"
	"regexp"
	"sort"
	"strings"
	"time"
	"unicode/utf8"

	"github.com/compose-spec/compose-go/v2/loader"

	"verifharness/core"
)

type c17Doc struct {
	Name *string `json:"name,omitempty"` // template of the `name:` key; nil = key absent
}

type c17EnvFile struct {
	N     string      `json:"n,omitempty"`
	Dir   bool        `json:"dir,omitempty"`
	Lines [][2]string `json:"lines"`          // simple KEY=VALUE lines (nil when Text is free-form)
	Text  *string     `json:"text,omitempty"` // free-form content (no structured form: spec oracle off)
}

type c17Opt struct {
	Op string   `json:"op"` // name | env | osenv | envfiles | dotenv | workdir | cfgenv | defcfg | interp | envfile | loname
	V  string   `json:"v,omitempty"`
	B  bool     `json:"b,omitempty"`   // interp: WithInterpolation(b); loname: imperativelySet
	A  bool     `json:"alt,omitempty"` // workdir (builder): true = the alternative directory, false = ""
	D  *int     `json:"d,omitempty"`   // workdir (wire): directory index; absent = ""
	L  []string `json:"l,omitempty"`
}

type c17Args struct {
	Dir      string       `json:"dir"`   // base name of the project directory
	OS       []string     `json:"os"`    // the whole OS environment, "K=V"
	Files    [][]c17Doc   `json:"files"` // compose files → documents
	EnvFiles []c17EnvFile `json:"envfiles"`
	DotEnv   *c17EnvFile  `json:"dotenv"` // <project dir>/.env
	Opts     []c17Opt     `json:"opts"`
	Probe    string       `json:"probe"`
	AltDir   string       `json:"altdir,omitempty"`    // base name of the directory handed to WithWorkingDirectory
	AltDot   *c17EnvFile  `json:"altdotenv,omitempty"` // its .env
	LM       bool         `json:"lm,omitempty"`        // also observe ProjectOptions.LoadModel
	DirLink  bool         `json:"dirlink,omitempty"`   // the project directory is a symbolic link
	AltLink  bool         `json:"altlink,omitempty"`   // the working directory is a symbolic link
}

var c17ErrClasses = []struct {
	re  *regexp.Regexp
	cls string
}{
	{regexp.MustCompile(`invalid project name`), "invalidName"},
	{regexp.MustCompile(`project name must not be empty`), "emptyName"},
	{regexp.MustCompile(`Couldn't find env file`), "envNotFound"},
	{regexp.MustCompile(`^read .*: is a directory`), "configIsDir"},
	{regexp.MustCompile(`no configuration file provided`), "noConfig"},
	{regexp.MustCompile(`^(stat|open) .*: no such file or directory`), "configNotFound"},
	{regexp.MustCompile(`is a directory`), "envIsDir"},
	{regexp.MustCompile(`^failed to read .*`), "dotenvParse"},
	{regexp.MustCompile(`strconv\.ParseBool`), "disableParse"},
	{regexp.MustCompile(`invalid interpolation format|required variable .* is missing a value|error while interpolating`), "interp"},
}

func c17ErrClass(err error) string {
	s := err.Error()
	for _, c := range c17ErrClasses {
		if c.re.MatchString(s) {
			return c.cls
		}
	}
	return "other: " + s
}

func c17Yaml(probe string, fi, di int, d c17Doc) string {
	var b strings.Builder
	if d.Name != nil {
		q, _ := json.Marshal(*d.Name)
		b.WriteString("name: " + string(q) + "\n")
	}
	if di == 0 {
		q, _ := json.Marshal(probe)
		b.WriteString("services:\n  s:\n    image: x\n    labels:\n      probe: " + string(q) + "\n" + c17ExtrasYaml)
	} else {
		b.WriteString(fmt.Sprintf("x-doc: \"%d.%d\"\n", fi, di))
	}
	return b.String()
}

func c17EnvText(f c17EnvFile) string {
	if f.Text != nil {
		return *f.Text
	}
	var b strings.Builder
	for _, l := range f.Lines {
		b.WriteString(l[0] + "=" + l[1] + "\n")
	}
	return b.String()
}

var c17NameRe = regexp.MustCompile(`^[a-z0-9][a-z0-9_-]*$`)

type c17Real struct {
	Ok *struct {
		Name     string            `json:"name"`
		Env      map[string]string `json:"env"`
		Probe    string            `json:"probe"`
		Profiles []string          `json:"profiles"`
		Enabled  map[string]bool   `json:"enabled"`
		Res      map[string]string `json:"res"`
		LM       *struct {
			Name  string            `json:"name"`
			Probe string            `json:"probe"`
			Res   map[string]string `json:"res"`
			Err   string            `json:"err"`
		} `json:"lm"`
	} `json:"ok"`
	Err string `json:"err"`
	At  string `json:"at"`
	Bad string `json:"bad"`
}

type c17Spec struct {
	Documented bool            `json:"documented"`
	BadName    bool            `json:"badName"`
	Decision   json.RawMessage `json:"decision"`
	Candidates struct {
		Explicit string  `json:"explicit"`
		Env      string  `json:"env"`
		File     *string `json:"file"`
		Dir      string  `json:"dir"`
	} `json:"candidates"`
	Layers     []map[string]string `json:"layers"`
	Env        map[string]string   `json:"env"`
	PipelineOk *bool               `json:"pipelineOk"`
	Probe      string              `json:"probe"`
	FinalEnv   map[string]string   `json:"finalEnv"`
}

// c17Source names the source a project name equals (for failure keys): explicit, env, file, dir, or other.
func c17Source(s c17Spec, name string) string {
	switch {
	case s.Candidates.Explicit != "" && name == s.Candidates.Explicit:
		return "explicit"
	case s.Candidates.Env != "" && name == s.Candidates.Env:
		return "env"
	case s.Candidates.File != nil && *s.Candidates.File != "" && name == *s.Candidates.File:
		return "file"
	case name == s.Candidates.Dir:
		return "dir"
	}
	return "other"
}

func c17LayerName(i int) string {
	switch i {
	case 0:
		return "explicit"
	case 1:
		return "os"
	}
	return "dotenv"
}

// c17EnvSource names the layer a value of key k comes from.
func c17EnvSource(s c17Spec, k string, v string, present bool) string {
	if !present {
		return "absent"
	}
	n := len(s.Layers)
	for i, l := range s.Layers {
		if lv, ok := l[k]; ok && lv == v {
			if i >= 2 {
				// layers[2] is the LAST env file
				if i == 2 && n > 3 {
					return "dotenv-last"
				}
				if i > 2 {
					return "dotenv-earlier"
				}
			}
			return c17LayerName(i)
		}
	}
	return "other"
}

func c17Judge(args, real, drv json.RawMessage) *core.Verdict {
	if v := core.CrashVerdict(real); v != nil {
		return v
	}
	var r c17Real
	var d struct {
		Model json.RawMessage `json:"model"`
		Spec  c17Spec         `json:"spec"`
	}
	if json.Unmarshal(real, &r) != nil || json.Unmarshal(drv, &d) != nil || d.Model == nil {
		return core.Disagree("malformed c17load exchange")
	}
	if r.Bad != "" {
		return core.Skip("world not materialisable: " + r.Bad)
	}
	s := d.Spec
	// ---- direct oracle, part 1: what holds for every sequence of options
	if r.Ok != nil {
		if !c17NameRe.MatchString(r.Ok.Name) {
			return core.Fail("invalid-name-loaded", fmt.Sprintf("load succeeded with project name %q", r.Ok.Name))
		}
		if v, ok := r.Ok.Env["COMPOSE_PROJECT_NAME"]; !ok || v != r.Ok.Name {
			return core.Fail("name-not-exported", fmt.Sprintf("Project.Name=%q but Environment[COMPOSE_PROJECT_NAME]=%q (set=%v)", r.Ok.Name, v, ok))
		}
		// the name decided above is the name of the project *everywhere*: resources without a `name:` of their own
		for _, k := range c17ResKeys {
			if got, want := r.Ok.Res[k], r.Ok.Name+"_"+k; got != want {
				return core.Fail("implicit-resource-name:expected="+c17Source(s, r.Ok.Name)+",got="+c17ResSource(s, got, k),
					fmt.Sprintf("Project.Name=%q but the unnamed resource %q is called %q (want %q)", r.Ok.Name, k, got, want))
			}
		}
		// the raw-model entry (ProjectOptions.LoadModel) decides the same name and names the resources after it
		if lm := r.Ok.LM; lm != nil {
			if lm.Err != "" {
				return core.Fail("load-model:fails-where-load-project-succeeds", "LoadModel: "+lm.Err)
			}
			if lm.Name != r.Ok.Name {
				return core.Fail("load-model:name-precedence:expected="+c17Source(s, r.Ok.Name)+",got="+c17Source(s, lm.Name), fmt.Sprintf("LoadProject names the project %q, LoadModel %q", r.Ok.Name, lm.Name))
			}
			if lm.Probe != r.Ok.Probe {
				return core.Fail("load-model:interpolation-sees-other-environment", fmt.Sprintf("LoadProject interpolates the probe to %q, LoadModel to %q", r.Ok.Probe, lm.Probe))
			}
			for _, k := range c17ResKeys {
				if got, want := lm.Res[k], lm.Name+"_"+k; got != want {
					return core.Fail("load-model:implicit-resource-name:got="+c17ResSource(s, got, k), fmt.Sprintf("LoadModel: name %q but the unnamed resource %q is called %q", lm.Name, k, got))
				}
			}
		}
		if v := c17ProfileOracle(args, r.Ok.Profiles, r.Ok.Enabled, s); v != nil {
			return v
		}
		if s.BadName {
			return core.Fail("invalid-explicit-name-accepted", "an explicitly requested name that is not [a-z0-9][a-z0-9_-]* was accepted")
		}
		if len(s.Layers) > 0 {
			for k, v := range s.Layers[0] {
				if k == "COMPOSE_PROJECT_NAME" {
					continue
				}
				if got, ok := r.Ok.Env[k]; !ok || got != v {
					return core.Fail("env-precedence:expected=explicit,got="+c17EnvSource(s, k, got, ok), fmt.Sprintf("explicit variable %s=%q but the project environment has %q (set=%v)", k, v, got, ok))
				}
			}
		}
	}
	// ---- direct oracle, part 2: the documented option order, decided against the specification
	if s.Documented {
		var dn struct {
			Name *string `json:"name"`
		}
		var ds string
		json.Unmarshal(s.Decision, &dn)
		json.Unmarshal(s.Decision, &ds)
		switch {
		case dn.Name != nil:
			want := *dn.Name
			wsrc := c17Source(s, want)
			if r.Ok != nil {
				if r.Ok.Name != want {
					return core.Fail("name-precedence:expected="+wsrc+",got="+c17Source(s, r.Ok.Name), fmt.Sprintf("the property selects %q (%s), the load produced %q", want, wsrc, r.Ok.Name))
				}
				if s.PipelineOk != nil && *s.PipelineOk {
					// environment, pointwise
					keys := map[string]bool{}
					for k := range s.FinalEnv {
						keys[k] = true
					}
					for k := range r.Ok.Env {
						keys[k] = true
					}
					var ks []string
					for k := range keys {
						ks = append(ks, k)
					}
					sort.Strings(ks)
					for _, k := range ks {
						wv, wok := s.FinalEnv[k]
						gv, gok := r.Ok.Env[k]
						if wok != gok || wv != gv {
							return core.Fail("env-precedence:expected="+c17EnvSource(s, k, wv, wok)+",got="+c17EnvSource(s, k, gv, gok),
								fmt.Sprintf("variable %s: the documented precedence gives %q (set=%v), the project environment has %q (set=%v)", k, wv, wok, gv, gok))
						}
					}
					if r.Ok.Probe != s.Probe {
						return core.Fail("interpolation-sees-other-environment", fmt.Sprintf("probe interpolated to %q, the project environment gives %q", r.Ok.Probe, s.Probe))
					}
				} else {
					return core.Fail("uninterpolable-model-loaded", "a name/probe template that cannot be interpolated was accepted")
				}
			} else {
				if s.PipelineOk != nil && *s.PipelineOk {
					return core.Fail("name-precedence:expected="+wsrc+",got=err:"+r.Err, fmt.Sprintf("the property selects %q (%s), the load failed with %s at %s", want, wsrc, r.Err, r.At))
				}
			}
		case ds == "rejected":
			if r.Ok != nil {
				return core.Fail("invalid-requested-name-accepted:got="+c17Source(s, r.Ok.Name), fmt.Sprintf("requested name (explicit %q / COMPOSE_PROJECT_NAME %q) is not [a-z0-9][a-z0-9_-]*, the load produced %q", s.Candidates.Explicit, s.Candidates.Env, r.Ok.Name))
			}
			if r.Err != "invalidName" {
				return core.Fail("invalid-requested-name:err="+r.Err, "invalid requested name fails with another error class: "+r.Err)
			}
		case ds == "failed" || ds == "noName":
			if r.Ok != nil {
				return core.Fail("name-precedence:expected="+ds+",got="+c17Source(s, r.Ok.Name), fmt.Sprintf("no source yields a name (%s), the load produced %q", ds, r.Ok.Name))
			}
		}
	}
	// ---- correspondence
	if !core.CanonEqual(real, d.Model) {
		return core.Disagree("Name.run ≠ cli.NewProjectOptions+LoadProject")
	}
	return nil
}

// ---------------------------------------------------------------- normalisation

type c17NormArgs struct {
	S string `json:"s"`
}

func init() {
	core.Register("c17load", &core.CheckDef{Real: realC17Load, DriverOp: "c17load", Judge: c17Judge, Timeout: 180 * time.Second})
	core.Register("c17norm", &core.CheckDef{
		Real: func(raw json.RawMessage) any {
			var a c17NormArgs
			json.Unmarshal(raw, &a)
			out := loader.NormalizeProjectName(a.S)
			return map[string]any{"out": out, "again": loader.NormalizeProjectName(out), "valid": c17NameRe.MatchString(a.S)}
		},
		DriverOp: "c17norm",
		Judge: func(args, real, drv json.RawMessage) *core.Verdict {
			if v := core.CrashVerdict(real); v != nil {
				return v
			}
			var r struct {
				Out, Again string
				Valid      bool
			}
			var d struct {
				Out   string
				Valid bool
			}
			if json.Unmarshal(real, &r) != nil || json.Unmarshal(drv, &d) != nil {
				return core.Disagree("malformed c17norm exchange")
			}
			// laws, on the real function
			if r.Out != "" && !c17NameRe.MatchString(r.Out) {
				return core.Fail("normalize-not-valid", fmt.Sprintf("NormalizeProjectName gives %q", r.Out))
			}
			if r.Again != r.Out {
				return core.Fail("normalize-not-idempotent", fmt.Sprintf("NormalizeProjectName(%q) = %q", r.Out, r.Again))
			}
			var a c17NormArgs
			json.Unmarshal(args, &a)
			if r.Valid && r.Out != a.S {
				return core.Fail("normalize-changes-valid-name", fmt.Sprintf("NormalizeProjectName(%q) = %q", a.S, r.Out))
			}
			if r.Out != d.Out || r.Valid != d.Valid {
				return core.Disagree("Name.normalize ≠ loader.NormalizeProjectName")
			}
			return nil
		},
	})
	core.Register("c17normRange", &core.CheckDef{
		Real: func(raw json.RawMessage) any {
			var a struct{ From, To int }
			json.Unmarshal(raw, &a)
			hits := [][]any{}
			for cp := a.From; cp < a.To; cp++ {
				if !utf8.ValidRune(rune(cp)) {
					continue
				}
				if out := loader.NormalizeProjectName(string(rune(cp))); out != "" {
					hits = append(hits, []any{cp, out})
				}
			}
			return map[string]any{"hits": hits}
		},
		DriverOp: "c17normRange",
	})
	core.RegisterProp("C17", runC17)
}
