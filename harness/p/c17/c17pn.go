package c17

// c17pn — the loader-level entry of the name decision (round 5): loader.LoadWithContext with
// Options.SetProjectName(name, imperativelySet), Options.SkipInterpolation and a ConfigDetails.Environment that may
// be nil, on in-memory files (or files projectName has to read itself: Content nil), vs Name.loadL (correspondence)
// and vs Spec.decide over the sources of that entry (direct oracle).

import (
	"context"
	"encoding/json"
	"fmt"
	"os"
	"path/filepath"
	"strings"
	"time"

	"github.com/compose-spec/compose-go/v2/loader"
	"github.com/compose-spec/compose-go/v2/types"

	"verifharness/core"
)

type c17PnArgs struct {
	Files  [][]c17Doc   `json:"files"`
	Env    *[][2]string `json:"env"` // null = a nil ConfigDetails.Environment; keys distinct
	Name   string       `json:"name"`
	Imp    bool         `json:"imp"`
	Skip   bool         `json:"skip"`
	Probe  string       `json:"probe"`
	OnDisk bool         `json:"ondisk,omitempty"` // ConfigFile{Filename} without Content: projectName reads the file
}

func realC17Pn(raw json.RawMessage) any {
	var a c17PnArgs
	if err := json.Unmarshal(raw, &a); err != nil {
		return c17Bad("%v", err)
	}
	root := os.TempDir()
	if a.OnDisk {
		r, err := os.MkdirTemp(os.Getenv("VERIF_SCRATCH"), "c17pn-")
		if err != nil {
			return c17Bad("%v", err)
		}
		defer os.RemoveAll(r)
		root = r
	}
	var cfs []types.ConfigFile
	for fi, docs := range a.Files {
		var parts []string
		for di, doc := range docs {
			parts = append(parts, c17Yaml(a.Probe, fi, di, doc))
		}
		text := strings.Join(parts, "---\n")
		fn := filepath.Join(root, fmt.Sprintf("compose%d.yaml", fi))
		if a.OnDisk {
			if err := os.WriteFile(fn, []byte(text), 0o644); err != nil {
				return c17Bad("%v", err)
			}
			cfs = append(cfs, types.ConfigFile{Filename: fn})
		} else {
			cfs = append(cfs, types.ConfigFile{Filename: fn, Content: []byte(text)})
		}
	}
	var env map[string]string
	if a.Env != nil {
		env = map[string]string{}
		for _, kv := range *a.Env {
			if _, dup := env[kv[0]]; dup {
				return c17Bad("duplicate environment key")
			}
			env[kv[0]] = kv[1]
		}
	}
	p, err := loader.LoadWithContext(context.Background(), types.ConfigDetails{
		ConfigFiles: cfs,
		WorkingDir:  root,
		Environment: env,
	}, func(o *loader.Options) {
		o.SetProjectName(a.Name, a.Imp)
		o.SkipInterpolation = a.Skip
	})
	if err != nil {
		return map[string]any{"err": c17ErrClass(err)}
	}
	out := map[string]string{}
	for k, v := range p.Environment {
		out[k] = v
	}
	s, ok := p.Services["s"]
	if !ok {
		return c17Bad("service s missing")
	}
	return map[string]any{"ok": c17Observe(p, map[string]any{"name": p.Name, "env": out, "probe": s.Labels["probe"]})}
}

func c17PnJudge(args, real, drv json.RawMessage) *core.Verdict {
	if v := core.CrashVerdict(real); v != nil {
		return v
	}
	var a c17PnArgs
	var r c17Real
	var d struct {
		Model    json.RawMessage `json:"model"`
		Decision json.RawMessage `json:"decision"`
	}
	if json.Unmarshal(args, &a) != nil || json.Unmarshal(real, &r) != nil || json.Unmarshal(drv, &d) != nil || d.Model == nil {
		return core.Disagree("malformed c17pn exchange")
	}
	if r.Bad != "" {
		return core.Skip("case not materialisable: " + r.Bad)
	}
	how := "guess"
	if a.Imp {
		how = "imperative"
	}
	// ---- direct oracle, part 1: the clauses that hold for every input of the entry
	if r.Ok != nil {
		if !c17NameRe.MatchString(r.Ok.Name) {
			return core.Fail("loader-entry:invalid-name-loaded:"+how, fmt.Sprintf("loader.LoadWithContext with SetProjectName(%q, %v) succeeded with project name %q", a.Name, a.Imp, r.Ok.Name))
		}
		if v, ok := r.Ok.Env["COMPOSE_PROJECT_NAME"]; !ok || v != r.Ok.Name {
			return core.Fail("loader-entry:name-not-exported", fmt.Sprintf("Project.Name=%q but Environment[COMPOSE_PROJECT_NAME]=%q (set=%v)", r.Ok.Name, v, ok))
		}
		for _, k := range c17ResKeys {
			if got, want := r.Ok.Res[k], r.Ok.Name+"_"+k; got != want {
				return core.Fail("loader-entry:implicit-resource-name:"+how, fmt.Sprintf("Project.Name=%q but the unnamed resource %q is called %q (want %q)", r.Ok.Name, k, got, want))
			}
		}
		if a.Imp && r.Ok.Name != a.Name {
			return core.Fail("loader-entry:name-precedence:expected=explicit,got=other", fmt.Sprintf("imperatively set name %q, the load produced %q", a.Name, r.Ok.Name))
		}
		if a.Env != nil {
			for _, kv := range *a.Env {
				if kv[0] == "COMPOSE_PROJECT_NAME" {
					continue
				}
				if got, ok := r.Ok.Env[kv[0]]; !ok || got != kv[1] {
					return core.Fail("loader-entry:environment-changed", fmt.Sprintf("variable %s=%q became %q (set=%v)", kv[0], kv[1], got, ok))
				}
			}
		}
	}
	// ---- direct oracle, part 2: the decision of the specification over the sources of this entry
	if !(a.Imp && a.Name == "") {
		var dn struct {
			Name *string `json:"name"`
		}
		var ds string
		json.Unmarshal(d.Decision, &dn)
		json.Unmarshal(d.Decision, &ds)
		switch {
		case dn.Name != nil:
			if r.Ok != nil && r.Ok.Name != *dn.Name {
				return core.Fail("loader-entry:name-precedence:"+how, fmt.Sprintf("the property selects %q, the load produced %q", *dn.Name, r.Ok.Name))
			}
		case ds == "rejected":
			if r.Ok != nil {
				return core.Fail("loader-entry:invalid-requested-name-accepted", fmt.Sprintf("imperatively set name %q is not [a-z0-9][a-z0-9_-]*, the load produced %q", a.Name, r.Ok.Name))
			}
			if r.Err != "invalidName" {
				return core.Fail("loader-entry:invalid-requested-name:err="+r.Err, "invalid requested name fails with another error class: "+r.Err)
			}
		case ds == "failed" || ds == "noName":
			if r.Ok != nil {
				return core.Fail("loader-entry:name-precedence:expected="+ds, fmt.Sprintf("no source yields a name (%s), the load produced %q", ds, r.Ok.Name))
			}
		}
	}
	// ---- correspondence
	if !core.CanonEqual(real, d.Model) {
		return core.Disagree("Name.loadL ≠ loader.LoadWithContext")
	}
	return nil
}

var c17PnNames = []string{"", "dir", "my-app_1", "My App", "FOO", "_lead", "-x", "a.b", "...", "日本", "KelvinK", "9lives"}

var c17PnFileNames = []*string{nil, sp(""), sp("one"), sp("Two.Name"), sp("${X}"), sp("$X-app"), sp("${COMPOSE_PROJECT_NAME}x"), sp("___"), sp("${UNSET}"), sp("${UNSET:-Dflt}"), sp("${X:?need}"), sp("${bad")}

func c17PnLattice(ctx *core.Ctx) {
	envs := []*[][2]string{
		nil,
		{},
		{{"X", "Val"}},
		{{"X", "_"}, {"COMPOSE_PROJECT_NAME", "fromenv"}},
		{{"COMPOSE_PROJECT_NAME", "Bad Name"}, {"X", ""}},
	}
	probes := []string{"lit", "${COMPOSE_PROJECT_NAME}-p", "${X:-d}", "${UNSET:?probe}"}
	n := 0
	for _, name := range c17PnNames {
		for _, imp := range []bool{false, true} {
			for _, skip := range []bool{false, true} {
				for ei, env := range envs {
					for fi, fn := range c17PnFileNames {
						// file layouts: the name in a single file; and (every third) in the first of two files / second document
						layouts := [][][]c17Doc{{{{Name: fn}}}}
						if (fi+ei)%3 == 0 {
							layouts = append(layouts, [][]c17Doc{{{Name: fn}}, {{Name: nil}}}, [][]c17Doc{{{Name: sp("first")}, {Name: fn}}})
						}
						tmpl := "absent"
						if fn != nil {
							tmpl = *fn
						}
						ctx.Count("pn-file-name=" + tmpl)
						for li, files := range layouts {
							a := c17PnArgs{Files: files, Env: env, Name: name, Imp: imp, Skip: skip, Probe: probes[(n+li)%len(probes)]}
							n++
							ctx.Count("pn-lattice")
							ctx.Count(fmt.Sprintf("pn-imp=%v,skip=%v", imp, skip))
							if env == nil {
								ctx.Count("pn-env=nil")
							}
							ctx.Add("c17pn", a)
						}
					}
				}
			}
		}
	}
}

func c17PnRandom(ctx *core.Ctx) {
	r := ctx.Rng
	for i := 0; i < ctx.Pick(1500, 60000); i++ {
		a := c17PnArgs{Name: c17RandName(r), Imp: r.Intn(3) == 0, Skip: r.Intn(4) == 0, Probe: pick(r, c17Probes), OnDisk: r.Intn(8) == 0}
		if a.Imp && r.Intn(2) == 0 {
			a.Name = pick(r, c17ValidNames)
		}
		if r.Intn(5) > 0 {
			env := [][2]string{}
			seen := map[string]bool{}
			for j, n := 0, r.Intn(4); j < n; j++ {
				k := pick(r, c17EnvKeys)
				if seen[k] {
					continue
				}
				seen[k] = true
				v := pick(r, c17EnvValues)
				if k == "COMPOSE_PROJECT_NAME" {
					v = c17RandName(r)
				}
				// values are literal here (no .env expansion on this entry)
				env = append(env, [2]string{k, v})
			}
			a.Env = &env
		} else {
			ctx.Count("pn-env=nil")
		}
		for f, nf := 0, 1+r.Intn(3); f < nf; f++ {
			var docs []c17Doc
			for d, nd := 0, 1+r.Intn(2); d < nd; d++ {
				switch r.Intn(5) {
				case 0, 1:
					docs = append(docs, c17Doc{})
				case 2:
					docs = append(docs, c17Doc{Name: c17PnFileNames[r.Intn(len(c17PnFileNames))]})
				default:
					docs = append(docs, c17Doc{Name: sp(c17RandName(r))})
				}
			}
			a.Files = append(a.Files, docs)
		}
		ctx.Count("pn-random")
		ctx.Count(fmt.Sprintf("pn-imp=%v,skip=%v", a.Imp, a.Skip))
		if a.OnDisk {
			ctx.Count("pn-content-read-by-projectName")
		}
		ctx.Add("c17pn", a)
	}
}

func init() {
	core.Register("c17pn", &core.CheckDef{Real: realC17Pn, DriverOp: "c17pn", Judge: c17PnJudge, Timeout: 120 * time.Second})
}
