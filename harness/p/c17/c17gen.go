package c17

// Generators of C17: the exhaustive lattices of the property first, then seeded random worlds, then a malformed stream.

import (
	"fmt"
	"math/rand"
	"os"
	"strings"

	"verifharness/core"
)

func sp(s string) *string { return &s }

var (
	c17ValidNames   = []string{"a", "proj", "my-app_1", "0x", "k8s"}
	c17InvalidNames = []string{"Up", "_lead", "-x", "a.b", "a b", "é", "K", "a/b", "xİ", "__"}
	// name: templates of compose files
	c17FileNames    = []string{"fromfile", "My.App", "___", "${NM}", "${NM:-dflt}", "${COMPOSE_PROJECT_NAME:-viacpn}", "pre-${V}", "$$x", "", "${UNSET_VAR}", "-_Lead9", "Kelvin", "日本"}
	c17BadFileNames = []string{"${", "${REQ?need}", "${NM:?}", "$ {x}", "${NM", "a$b", "${1}", "${V:-${", "${}"}
	c17DirNames     = []string{"proj", "MyProj.Dir", "_-lead", "日本", "K8s", "...", "ÀB", "UPPER", "with space", "-", "a-b_c", "xİz", "9", "é1"}
	c17EnvKeys      = []string{"V", "W", "R", "NM", "COMPOSE_PROJECT_NAME"}
	c17EnvValues    = []string{"v1", "", "${V}", "${V:-d}", "x${W}y", "${COMPOSE_PROJECT_NAME}", "$$", "Val_2", "${R}", "${NM-n}"}
	c17BadEnvValues = []string{"${U?e}", "${", "${V:?}", "${V", "${1x}"}
	c17Probes       = []string{"${COMPOSE_PROJECT_NAME}", "${V}|${W}|${R}", "${NM:-none}/${COMPOSE_PROJECT_NAME}", "lit", "${V:+set}${W-unset}"}
)

func c17Lattice(ctx *core.Ctx) {
	type cpnLoc struct {
		tag string
		os  []string
		env []string
		dot [][2]string
	}
	// ---- 1. the name lattice: explicit × COMPOSE_PROJECT_NAME × file names × directory × position of WithName
	explicits := []struct {
		tag string
		ops []c17Opt
	}{
		{"unset", nil},
		{"valid", []c17Opt{{Op: "name", V: "expl"}}},
		{"reset", []c17Opt{{Op: "name", V: "expl"}, {Op: "name", V: ""}}},
		{"invalid", []c17Opt{{Op: "name", V: "Bad.Name"}}},
		{"invalid-lead", []c17Opt{{Op: "name", V: "_x"}}},
	}
	var cpns []cpnLoc
	cpns = append(cpns, cpnLoc{tag: "absent"})
	for _, v := range []string{"envname", "Inv.Name", ""} {
		e := "COMPOSE_PROJECT_NAME=" + v
		cpns = append(cpns,
			cpnLoc{tag: "os:" + v, os: []string{e}},
			cpnLoc{tag: "explicit:" + v, env: []string{e}},
			cpnLoc{tag: "dotenv:" + v, dot: [][2]string{{"COMPOSE_PROJECT_NAME", v}}},
		)
	}
	cpns = append(cpns,
		cpnLoc{tag: "os+dotenv", os: []string{"COMPOSE_PROJECT_NAME=fromos"}, dot: [][2]string{{"COMPOSE_PROJECT_NAME", "fromdot"}}},
		cpnLoc{tag: "explicit+os", os: []string{"COMPOSE_PROJECT_NAME=fromos"}, env: []string{"COMPOSE_PROJECT_NAME=fromexpl"}},
		cpnLoc{tag: "dotenv-ref", os: []string{"NM=viaref"}, dot: [][2]string{{"COMPOSE_PROJECT_NAME", "${NM}"}}},
	)
	fileSets := []struct {
		tag   string
		files [][]c17Doc
	}{
		{"none", [][]c17Doc{{{}}, {{}}}},
		{"first", [][]c17Doc{{{Name: sp("first")}}, {{}}}},
		{"last", [][]c17Doc{{{}}, {{Name: sp("last")}}}},
		{"several", [][]c17Doc{{{Name: sp("first")}}, {{Name: sp("second")}}, {{Name: sp("third")}}}},
		{"several-docs", [][]c17Doc{{{Name: sp("d1")}, {Name: sp("d2")}}, {{}}}},
		{"last-empty-literal", [][]c17Doc{{{Name: sp("first")}}, {{Name: sp("")}}}},
		{"last-normalises-empty", [][]c17Doc{{{Name: sp("first")}}, {{Name: sp("_.-")}}}},
		{"last-interpolates-empty", [][]c17Doc{{{Name: sp("first")}}, {{Name: sp("${UNSET_VAR}")}}}},
		{"interpolated", [][]c17Doc{{{Name: sp("${NM:-dflt}")}}}},
		{"interpolated-cpn", [][]c17Doc{{{Name: sp("${COMPOSE_PROJECT_NAME:-viacpn}")}}}},
		{"normalisable", [][]c17Doc{{{Name: sp("My.App")}}}},
		{"uninterpolable-last", [][]c17Doc{{{}}, {{Name: sp("${REQ?need}")}}}},
		{"uninterpolable-first", [][]c17Doc{{{Name: sp("${REQ?need}")}}, {{Name: sp("ok")}}}},
	}
	dirs := []string{"proj", "MyProj.Dir", "_-lead", "日本", "K8s", "..."}
	for _, ex := range explicits {
		for _, cp := range cpns {
			for _, fs := range fileSets {
				for _, dir := range dirs {
					for pos := 0; pos < 2; pos++ {
						envOpts := []c17Opt{}
						if cp.env != nil {
							envOpts = append(envOpts, c17Opt{Op: "env", L: cp.env})
						}
						envOpts = append(envOpts, c17Opt{Op: "osenv"}, c17Opt{Op: "envfiles"}, c17Opt{Op: "dotenv"})
						var opts []c17Opt
						if pos == 0 {
							opts = append(append(opts, ex.ops...), envOpts...)
						} else {
							opts = append(append(opts, envOpts...), ex.ops...)
						}
						a := c17Args{Dir: dir, OS: append([]string{}, cp.os...), Files: fs.files, Opts: opts, Probe: "${COMPOSE_PROJECT_NAME}"}
						if cp.dot != nil {
							a.DotEnv = &c17EnvFile{Lines: cp.dot}
						}
						ctx.Count("lattice-name")
						ctx.Count("explicit=" + ex.tag)
						ctx.Count("cpn=" + strings.SplitN(cp.tag, ":", 2)[0])
						ctx.Count("files=" + fs.tag)
						ctx.Add("c17load", a.wire())
					}
				}
			}
		}
	}
	// ---- 2. the environment lattice: V defined in every non-empty subset of {explicit, OS, .env #1, .env #2},
	//         in every order of the four environment options, with references from both env files
	perms := c17Perms([]c17Opt{{Op: "env"}, {Op: "osenv"}, {Op: "envfiles"}, {Op: "dotenv"}})
	for mask := 1; mask < 16; mask++ {
		for _, perm := range perms {
			for variant := 0; variant < 2; variant++ {
				a := c17Args{Dir: "proj", Files: [][]c17Doc{{{}}}, Probe: "${V}|${R1}|${R2}|${W}"}
				f1 := c17EnvFile{N: "one.env", Lines: [][2]string{{"W", "w1"}}}
				f2 := c17EnvFile{N: "two.env", Lines: [][2]string{{"W", "w2"}}}
				var expl []string
				if mask&1 != 0 {
					expl = append(expl, "V=explicit")
				}
				if mask&2 != 0 {
					a.OS = append(a.OS, "V=os")
				}
				if mask&4 != 0 {
					f1.Lines = append(f1.Lines, [2]string{"V", "file1"})
				}
				if mask&8 != 0 {
					f2.Lines = append(f2.Lines, [2]string{"V", "file2"})
				}
				f1.Lines = append(f1.Lines, [2]string{"R1", "${V}"})
				f2.Lines = append(f2.Lines, [2]string{"R2", "${V}/${R1}/${W}"})
				if variant == 1 {
					// references placed before the definition in the same file
					f1.Lines = append([][2]string{{"R1", "${V-unset}"}}, f1.Lines[:len(f1.Lines)-1]...)
					a.OS = append(a.OS, "W=wos")
				}
				a.EnvFiles = []c17EnvFile{f1, f2}
				for _, o := range perm {
					switch o.Op {
					case "env":
						if expl == nil {
							continue
						}
						a.Opts = append(a.Opts, c17Opt{Op: "env", L: expl})
					case "envfiles":
						a.Opts = append(a.Opts, c17Opt{Op: "envfiles", L: []string{"one.env", "two.env"}})
					default:
						a.Opts = append(a.Opts, o)
					}
				}
				ctx.Count("lattice-env")
				ctx.Count(fmt.Sprintf("env-subset=%04b", mask))
				ctx.Add("c17load", a.wire())
			}
		}
	}
}

// c17WorkdirLattice: the project directory is the one given to WithWorkingDirectory when there is one
// (name fallback and default .env), whatever the position of the option among the others.
func c17WorkdirLattice(ctx *core.Ctx) {
	for _, mode := range []string{"none", "alt-first", "alt-before-dotenv", "alt-last", "empty-path", "alt-then-empty"} {
		for _, dir := range []string{"proj", "MyProj.Dir", "日本"} {
			for _, alt := range []string{"AltProj", "_.", "Ω-alt", "proj"} {
				for _, named := range []bool{false, true} {
					for _, withDot := range []int{0, 1, 2, 3} {
						a := c17Args{Dir: dir, AltDir: alt, OS: []string{"W=os"}, Probe: "${V-unset}|${COMPOSE_PROJECT_NAME}",
							DirLink: withDot == 1 || withDot == 2, AltLink: withDot >= 2}
						if a.DirLink || a.AltLink {
							ctx.Count("symlinked-project-directory")
						}
						if named {
							a.Files = [][]c17Doc{{{}}, {{Name: sp("${V:-fromfile}")}}}
						} else {
							a.Files = [][]c17Doc{{{}}}
						}
						if withDot&1 != 0 {
							a.DotEnv = &c17EnvFile{Lines: [][2]string{{"V", "cfg"}}}
						}
						if withDot&2 != 0 {
							a.AltDot = &c17EnvFile{Lines: [][2]string{{"V", "alt"}, {"X", "${W}"}}}
						}
						env := []c17Opt{{Op: "osenv"}, {Op: "envfiles"}, {Op: "dotenv"}}
						wd := c17Opt{Op: "workdir", A: true}
						switch mode {
						case "none":
							a.Opts = env
						case "alt-first":
							a.Opts = append([]c17Opt{wd}, env...)
						case "alt-before-dotenv":
							a.Opts = []c17Opt{env[0], env[1], wd, env[2]}
						case "alt-last":
							a.Opts = append(append([]c17Opt{}, env...), wd)
						case "empty-path":
							a.Opts = append([]c17Opt{{Op: "workdir"}}, env...)
						case "alt-then-empty":
							a.Opts = append([]c17Opt{wd, {Op: "workdir"}}, env...)
						}
						ctx.Count("lattice-workdir")
						ctx.Count("workdir=" + mode)
						ctx.Add("c17load", a.wire())
					}
				}
			}
		}
	}
}

func c17Perms(l []c17Opt) [][]c17Opt {
	if len(l) <= 1 {
		return [][]c17Opt{append([]c17Opt{}, l...)}
	}
	var out [][]c17Opt
	for i := range l {
		rest := append(append([]c17Opt{}, l[:i]...), l[i+1:]...)
		for _, p := range c17Perms(rest) {
			out = append(out, append([]c17Opt{l[i]}, p...))
		}
	}
	return out
}

func pick(r *rand.Rand, l []string) string { return l[r.Intn(len(l))] }

func c17RandName(r *rand.Rand) string {
	switch r.Intn(10) {
	case 0, 1, 2, 3:
		return pick(r, c17ValidNames)
	case 4, 5:
		return pick(r, c17InvalidNames)
	case 6:
		return ""
	default:
		alpha := []string{"a", "b", "z", "0", "9", "_", "-", "A", ".", " ", "é", "K", "İ", "日"}
		n := 1 + r.Intn(5)
		var b strings.Builder
		for i := 0; i < n; i++ {
			b.WriteString(pick(r, alpha))
		}
		return b.String()
	}
}

func c17RandEnvFile(r *rand.Rand, name string, malformed bool) c17EnvFile {
	if r.Intn(6) == 0 {
		t := c17FreeFormEnv(r, malformed)
		return c17EnvFile{N: name, Text: &t}
	}
	f := c17EnvFile{N: name, Lines: [][2]string{}}
	for i, n := 0, r.Intn(5); i < n; i++ {
		v := pick(r, c17EnvValues)
		if malformed && r.Intn(6) == 0 {
			v = pick(r, c17BadEnvValues)
		}
		k := pick(r, c17EnvKeys)
		if k == "COMPOSE_PROJECT_NAME" && r.Intn(2) == 0 {
			v = c17RandName(r)
			if strings.ContainsAny(v, " ") || v == "" {
				v = "dotname"
			}
		}
		f.Lines = append(f.Lines, [2]string{k, v})
	}
	return f
}

// c17Random builds one random world + option sequence.  documented=true keeps the option order the API documents.
func c17Random(r *rand.Rand, documented, malformed bool) c17Args {
	a := c17Args{Dir: pick(r, c17DirNames), Probe: pick(r, c17Probes), OS: []string{}, EnvFiles: []c17EnvFile{}}
	if r.Intn(4) == 0 {
		alpha := []string{"a", "B", "_", "-", ".", "é", "K", "İ", "日", "0", " ", "Z"}
		var b strings.Builder
		for i, n := 0, 1+r.Intn(6); i < n; i++ {
			b.WriteString(pick(r, alpha))
		}
		if s := b.String(); s != "." && s != ".." {
			a.Dir = s
		}
	}
	// OS environment
	for _, k := range c17EnvKeys {
		if r.Intn(3) == 0 {
			v := "os-" + k
			switch {
			case k == "COMPOSE_PROJECT_NAME":
				v = c17RandName(r)
			case r.Intn(4) == 0:
				v = ""
			case r.Intn(4) == 0:
				v = "a=b"
			}
			a.OS = append(a.OS, k+"="+v)
		}
	}
	switch r.Intn(12) {
	case 0:
		a.OS = append(a.OS, "COMPOSE_DISABLE_ENV_FILE="+pick(r, []string{"1", "true", "T", "TRUE"}))
	case 1:
		a.OS = append(a.OS, "COMPOSE_DISABLE_ENV_FILE="+pick(r, []string{"0", "false", "F"}))
	case 2:
		if malformed {
			a.OS = append(a.OS, "COMPOSE_DISABLE_ENV_FILE="+pick(r, []string{"yes", "", "tRuE", "2"}))
		}
	}
	// compose files
	nf := 1 + r.Intn(3)
	for i := 0; i < nf; i++ {
		var docs []c17Doc
		for j, nd := 0, 1+r.Intn(5)/4; j <= nd-1; j++ {
			d := c17Doc{}
			if r.Intn(2) == 0 {
				t := pick(r, c17FileNames)
				if malformed && r.Intn(4) == 0 {
					t = pick(r, c17BadFileNames)
				}
				if r.Intn(6) == 0 {
					t = c17RandName(r)
				}
				d.Name = &t
			}
			docs = append(docs, d)
		}
		a.Files = append(a.Files, docs)
	}
	// env files
	names := []string{"one.env", "two.env", "three.env"}
	for _, n := range names {
		switch r.Intn(8) {
		case 0: // missing
		case 1:
			if malformed {
				a.EnvFiles = append(a.EnvFiles, c17EnvFile{N: n, Dir: true, Lines: [][2]string{}})
			}
		default:
			a.EnvFiles = append(a.EnvFiles, c17RandEnvFile(r, n, malformed))
		}
	}
	switch r.Intn(4) {
	case 0, 1:
		f := c17RandEnvFile(r, "", malformed)
		a.DotEnv = &f
	case 2:
		if malformed && r.Intn(3) == 0 {
			a.DotEnv = &c17EnvFile{Dir: true, Lines: [][2]string{}}
		}
	}
	randEnvOpt := func() c17Opt {
		var l []string
		for i, n := 0, 1+r.Intn(3); i < n; i++ {
			k := pick(r, c17EnvKeys)
			v := "x-" + k
			if k == "COMPOSE_PROJECT_NAME" {
				v = c17RandName(r)
			}
			e := k + "=" + v
			if malformed {
				switch r.Intn(8) {
				case 0:
					e = k // no '=': dropped
				case 1:
					e = "=" + v
				case 2:
					e = k + "=a=b"
				}
			}
			l = append(l, e)
		}
		return c17Opt{Op: "env", L: l}
	}
	randFilesOpt := func() c17Opt {
		var l []string
		if r.Intn(3) > 0 {
			for _, n := range names {
				if r.Intn(2) == 0 {
					l = append(l, n)
				}
			}
			if r.Intn(4) == 0 && len(l) > 1 {
				l[0], l[len(l)-1] = l[len(l)-1], l[0]
			}
		}
		return c17Opt{Op: "envfiles", L: l}
	}
	if documented {
		for i, n := 0, r.Intn(3); i < n; i++ {
			a.Opts = append(a.Opts, randEnvOpt())
		}
		if r.Intn(5) > 0 {
			a.Opts = append(a.Opts, c17Opt{Op: "osenv"})
		}
		if r.Intn(3) == 0 {
			a.Opts = append(a.Opts, randEnvOpt())
		}
		// shuffle the explicit/OS part: precedence must not depend on it
		r.Shuffle(len(a.Opts), func(i, j int) { a.Opts[i], a.Opts[j] = a.Opts[j], a.Opts[i] })
		if r.Intn(6) > 0 {
			a.Opts = append(a.Opts, randFilesOpt())
			if r.Intn(8) > 0 {
				a.Opts = append(a.Opts, c17Opt{Op: "dotenv"})
			}
		}
	} else {
		for i, n := 0, r.Intn(8); i < n; i++ {
			switch r.Intn(5) {
			case 0:
				a.Opts = append(a.Opts, randEnvOpt())
			case 1:
				a.Opts = append(a.Opts, c17Opt{Op: "osenv"})
			case 2:
				a.Opts = append(a.Opts, randFilesOpt())
			case 3:
				a.Opts = append(a.Opts, c17Opt{Op: "dotenv"})
			case 4:
				a.Opts = append(a.Opts, c17Opt{Op: "name", V: c17RandName(r)})
			}
		}
	}
	// WithWorkingDirectory: first (documented) or anywhere
	if r.Intn(4) == 0 {
		a.AltDir = pick(r, c17DirNames)
		if r.Intn(2) == 0 {
			f := c17RandEnvFile(r, "", malformed)
			a.AltDot = &f
		}
		wd := []c17Opt{{Op: "workdir", A: r.Intn(5) > 0}}
		if r.Intn(6) == 0 {
			wd = append(wd, c17Opt{Op: "workdir", A: r.Intn(2) == 0})
		}
		at := 0
		if !documented {
			at = r.Intn(len(a.Opts) + 1)
		}
		a.Opts = append(a.Opts[:at:at], append(wd, a.Opts[at:]...)...)
	}
	if r.Intn(6) == 0 {
		a.DirLink = true
	}
	if r.Intn(6) == 0 {
		a.AltLink = true
	}
	// WithName anywhere
	if r.Intn(3) == 0 {
		v := pick(r, c17ValidNames)
		if r.Intn(4) == 0 {
			v = c17RandName(r)
		}
		at := r.Intn(len(a.Opts) + 1)
		a.Opts = append(a.Opts[:at], append([]c17Opt{{Op: "name", V: v}}, a.Opts[at:]...)...)
	}
	return a
}

// c17Glue decorates a world with the options that only travel through the cli into loader.Options.
func c17Glue(ctx *core.Ctx, a c17Args) c17Args {
	r := ctx.Rng
	ins := func(o c17Opt) {
		at := r.Intn(len(a.Opts) + 1)
		a.Opts = append(a.Opts[:at:at], append([]c17Opt{o}, a.Opts[at:]...)...)
	}
	// names of compose files carry templates more often here
	for fi := range a.Files {
		for di := range a.Files[fi] {
			if r.Intn(3) == 0 {
				a.Files[fi][di].Name = c17PnFileNames[r.Intn(len(c17PnFileNames))]
			}
		}
	}
	for i := range a.Opts {
		if a.Opts[i].Op == "envfiles" && len(a.Opts[i].L) <= 1 && r.Intn(2) == 0 {
			v := ""
			if len(a.Opts[i].L) == 1 {
				v = a.Opts[i].L[0]
			}
			a.Opts[i] = c17Opt{Op: "envfile", V: v}
			ctx.Count("glue-WithEnvFile")
		}
	}
	switch r.Intn(4) {
	case 0:
		ins(c17Opt{Op: "interp", B: false})
		ctx.Count("glue-interp=false")
	case 1:
		ins(c17Opt{Op: "interp", B: false})
		ins(c17Opt{Op: "interp", B: true})
		ctx.Count("glue-interp=two-calls")
	case 2:
		ins(c17Opt{Op: "interp", B: true})
		ctx.Count("glue-interp=true")
	}
	if r.Intn(3) == 0 {
		ins(c17Opt{Op: "loname", V: pick(r, []string{"smuggled", "Bad Name", ""}), B: r.Intn(2) == 0})
		ctx.Count("glue-WithLoadOptions(SetProjectName)")
	}
	return a
}

func runC17(ctx *core.Ctx) {
	if os.Getenv("VERIF_C17_DEV") == "prof" { // development: only the round-6 streams
		c17ProfileLattice(ctx)
		for i := 0; i < 600; i++ {
			a := c17ProfileGlue(ctx, c17Random(ctx.Rng, i%3 != 0, false))
			if i%4 == 0 {
				a = c17Glue(ctx, a)
			}
			ctx.Add("c17load", a.wire())
		}
		c17PnLattice(ctx)
		return
	}
	// 0. NormalizeProjectName on every code point (blocks), then on strings
	blocks := 0
	for from := 0; from < 0x110000; from += 0x1000 {
		if !ctx.Thorough() && from >= 0x30000 && from < 0xE0000 {
			continue // unassigned planes: thorough tier only
		}
		ctx.Add("c17normRange", map[string]int{"from": from, "to": from + 0x1000})
		blocks++
	}
	ctx.Count(fmt.Sprintf("norm-codepoint-blocks=%d", blocks))
	alpha := []string{"a", "Z", "0", "_", "-", ".", "K", "é"}
	var rec func(prefix string, n int)
	rec = func(prefix string, n int) {
		ctx.Add("c17norm", c17NormArgs{S: prefix})
		ctx.Count("norm-exhaustive")
		if n == 0 {
			return
		}
		for _, c := range alpha {
			rec(prefix+c, n-1)
		}
	}
	rec("", ctx.Pick(4, 5))
	wide := []string{"a", "b", "y", "z", "A", "M", "Z", "0", "5", "9", "_", "-", ".", " ", "/", "K", "İ", "ı", "ſ", "é", "É", "日", "😀", "\t", "`", "{", "@", "[", ":"}
	for i := 0; i < ctx.Pick(8000, 400000); i++ {
		var b strings.Builder
		for j, n := 0, 1+ctx.Rng.Intn(12); j < n; j++ {
			b.WriteString(wide[ctx.Rng.Intn(len(wide))])
		}
		ctx.Count("norm-random")
		ctx.Add("c17norm", c17NormArgs{S: b.String()})
	}

	// 1. exhaustive lattices of the property
	c17Lattice(ctx)
	c17WorkdirLattice(ctx)
	c17ConfigLattice(ctx)
	c17ProfileLattice(ctx)
	ctx.Res.Exhaustive = true

	// 2. seeded random worlds: documented order (spec oracle applies), then any order (model correspondence + invariants)
	for i := 0; i < ctx.Pick(6000, 150000); i++ {
		ctx.Count("random-documented-order")
		ctx.Add("c17load", c17Random(ctx.Rng, true, false).wire())
	}
	for i := 0; i < ctx.Pick(4000, 100000); i++ {
		ctx.Count("random-any-order")
		ctx.Add("c17load", c17Random(ctx.Rng, false, false).wire())
	}
	for i := 0; i < ctx.Pick(3000, 80000); i++ {
		ctx.Count("random-config-selection")
		ctx.Add("c17load", c17RandomCfg(ctx.Rng, i%2 == 0))
	}
	// 2b. the glue between the cli and the loader (round 5): WithInterpolation anywhere (the last call decides),
	// the deprecated WithEnvFile, a SetProjectName passed through WithLoadOptions (overridden by the precedence)
	for i := 0; i < ctx.Pick(1500, 60000); i++ {
		a := c17Glue(ctx, c17Random(ctx.Rng, i%3 != 0, false))
		ctx.Count("glue")
		ctx.Add("c17load", a.wire())
	}
	// 2b'. round 6: WithProfiles / WithDefaultProfiles anywhere among the other options (the last call decides; the
	// fallback reads COMPOSE_PROFILES of the project environment as it is at that point)
	for i := 0; i < ctx.Pick(1500, 40000); i++ {
		a := c17ProfileGlue(ctx, c17Random(ctx.Rng, i%3 != 0, false))
		if i%4 == 0 {
			a = c17Glue(ctx, a)
		}
		ctx.Count("profile-glue")
		ctx.Add("c17load", a.wire())
	}
	// 2c. the loader-level entry: SetProjectName(name, imperative) × SkipInterpolation × nil/non-nil environment
	c17PnLattice(ctx)
	c17PnRandom(ctx)
	// 3. malformed stream
	for i := 0; i < ctx.Pick(2500, 50000); i++ {
		ctx.Count("malformed")
		ctx.Add("c17load", c17Random(ctx.Rng, ctx.Rng.Intn(2) == 0, true).wire())
	}
}
