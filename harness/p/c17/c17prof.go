package c17

// Round 6: the profile options of cli/options.go (WithProfiles, WithDefaultProfiles → COMPOSE_PROFILES of the
// project environment *at the time the option runs*) and the implicit resource names of the loaded project
// (every unnamed network / volume / config / secret is <Project.Name>_<key>, whatever a losing source of the
// name says).  Every compose file of the C17 streams carries the same extras; the Lean driver knows them as
// `harnessExtras`.

import (
	"encoding/json"
	"fmt"
	"sort"
	"strings"

	"github.com/compose-spec/compose-go/v2/types"

	"verifharness/core"
)

const c17ExtrasYaml = "  q:\n    image: x\n    profiles: [\"dev\", \"qa\"]\n  t:\n    image: x\n    profiles: [\"test\"]\n" +
	"networks:\n  n: {}\nvolumes:\n  v: {}\nconfigs:\n  c:\n    content: \"x\"\nsecrets:\n  k:\n    environment: \"K\"\n"

var c17ResKeys = []string{"default", "n", "v", "c", "k"}

var c17SvcProfiles = map[string][]string{"q": {"dev", "qa"}, "t": {"test"}}

// c17Observe adds Project.Profiles, the enabled/disabled state of the probe services and the names of the unnamed
// resources to an observation.
func c17Observe(p *types.Project, m map[string]any) map[string]any {
	profs := []string{}
	profs = append(profs, p.Profiles...)
	m["profiles"] = profs
	en := map[string]bool{}
	for k := range c17SvcProfiles {
		_, on := p.Services[k]
		_, off := p.DisabledServices[k]
		if on == off {
			m["enabled"] = fmt.Sprintf("service %s: enabled=%v disabled=%v", k, on, off)
			return m
		}
		en[k] = on
	}
	m["enabled"] = en
	m["res"] = map[string]string{
		"default": p.Networks["default"].Name, "n": p.Networks["n"].Name, "v": p.Volumes["v"].Name,
		"c": p.Configs["c"].Name, "k": p.Secrets["k"].Name,
	}
	return m
}

// c17ObserveModel: the raw model of ProjectOptions.LoadModel at `name` and at the names of the unnamed resources.
func c17ObserveModel(m map[string]any) map[string]any {
	get := func(section, key string) string {
		sec, _ := m[section].(map[string]any)
		r, _ := sec[key].(map[string]any)
		n, _ := r["name"].(string)
		return n
	}
	name, _ := m["name"].(string)
	svcs, _ := m["services"].(map[string]any)
	svc, _ := svcs["s"].(map[string]any)
	probe := ""
	switch l := svc["labels"].(type) { // the raw model keeps labels as written (mapping) or canonical (after normalisation)
	case map[string]any:
		probe, _ = l["probe"].(string)
	case map[string]string:
		probe = l["probe"]
	case []any:
		for _, e := range l {
			if kv, ok := e.(string); ok && strings.HasPrefix(kv, "probe=") {
				probe = strings.TrimPrefix(kv, "probe=")
			}
		}
	}
	return map[string]any{"name": name, "probe": probe, "res": map[string]string{
		"default": get("networks", "default"), "n": get("networks", "n"), "v": get("volumes", "v"),
		"c": get("configs", "c"), "k": get("secrets", "k"),
	}}
}

// c17ResSource names the source whose name an implicit resource name was built from.
func c17ResSource(s c17Spec, got, key string) string {
	if !strings.HasSuffix(got, "_"+key) {
		return "other"
	}
	return c17Source(s, strings.TrimSuffix(got, "_"+key))
}

// c17ProfileOracle: the selection of profiles, judged from the option list syntactically.
//   - the last WithProfiles / WithDefaultProfiles(non-empty) call decides, wherever it stands;
//   - WithDefaultProfiles() last, placed after every option that writes the environment, in the documented order:
//     COMPOSE_PROFILES of the layered environment explicit > OS > .env, split at ',' and trimmed (Go's own
//     strings.Split / strings.TrimSpace — not compose-go code);
//   - no profile option: no profile; a service with `profiles:` is enabled iff one selected profile is `*` or listed.
func c17ProfileOracle(args json.RawMessage, got []string, enabled map[string]bool, s c17Spec) *core.Verdict {
	var a struct {
		Opts []c17Opt `json:"opts"`
	}
	if json.Unmarshal(args, &a) != nil {
		return nil
	}
	last, lastEnvWrite := -1, -1
	for i, o := range a.Opts {
		switch o.Op {
		case "profiles", "defprofiles":
			last = i
		case "env", "osenv", "dotenv":
			lastEnvWrite = i
		}
	}
	var want []string
	src := "none"
	switch {
	case last < 0:
		want = []string{}
	case a.Opts[last].Op == "profiles" || len(a.Opts[last].L) > 0:
		want, src = append([]string{}, a.Opts[last].L...), "explicit"
	case s.Documented && last > lastEnvWrite:
		for _, e := range strings.Split(s.Env["COMPOSE_PROFILES"], ",") {
			want = append(want, strings.TrimSpace(e))
		}
		src = "COMPOSE_PROFILES"
	default:
		want = nil // read from the environment at some intermediate point: model correspondence only
	}
	if want != nil {
		if strings.Join(got, "\x00") != strings.Join(want, "\x00") || len(got) != len(want) {
			return core.Fail("profiles-precedence:expected="+src, fmt.Sprintf("selected profiles %q, the options select %q (%s)", got, want, src))
		}
	}
	keys := []string{}
	for k := range c17SvcProfiles {
		keys = append(keys, k)
	}
	sort.Strings(keys)
	for _, k := range keys {
		on := false
		for _, p := range got {
			if p == "*" {
				on = true
			}
			for _, sp := range c17SvcProfiles[k] {
				if sp == p {
					on = true
				}
			}
		}
		if e, ok := enabled[k]; !ok || e != on {
			return core.Fail("profile-selection-not-applied", fmt.Sprintf("Project.Profiles=%q, service %s (profiles %q) enabled=%v", got, k, c17SvcProfiles[k], e))
		}
	}
	return nil
}

var c17ProfileValues = []string{"dev", "dev,qa", " dev , test ", "", "*", "x,,test", "\u00a0qa\u3000", "none", "a\tb,\ttest\n", "qa,", ",", " ", "dev;qa", "\u2003dev\u0085,\u200bqa", "DEV"}

// c17ProfileLattice: COMPOSE_PROFILES in every subset of {explicit, OS, .env} × values × placements of the
// profile options among the environment options.
func c17ProfileLattice(ctx *core.Ctx) {
	type seq struct {
		tag  string
		opts func(expl []string) []c17Opt
	}
	envOpts := func(expl []string) []c17Opt {
		o := []c17Opt{}
		if expl != nil {
			o = append(o, c17Opt{Op: "env", L: expl})
		}
		return append(o, c17Opt{Op: "osenv"}, c17Opt{Op: "envfiles", L: []string{"p.env"}}, c17Opt{Op: "dotenv"})
	}
	at := func(l []c17Opt, i int, o ...c17Opt) []c17Opt {
		if i > len(l) {
			i = len(l)
		}
		return append(append(append([]c17Opt{}, l[:i]...), o...), l[i:]...)
	}
	def := c17Opt{Op: "defprofiles"}
	seqs := []seq{
		{"none", func(e []string) []c17Opt { return envOpts(e) }},
		{"default-last", func(e []string) []c17Opt { return append(envOpts(e), def) }},
		{"default-first", func(e []string) []c17Opt { return at(envOpts(e), 0, def) }},
		{"default-before-dotenv", func(e []string) []c17Opt { l := envOpts(e); return at(l, len(l)-1, def) }},
		{"default-before-osenv", func(e []string) []c17Opt { l := envOpts(e); return at(l, len(l)-3, def) }},
		{"default-given", func(e []string) []c17Opt {
			return append(envOpts(e), c17Opt{Op: "defprofiles", L: []string{"test", " raw "}})
		}},
		{"profiles-then-default", func(e []string) []c17Opt { return append(envOpts(e), c17Opt{Op: "profiles", L: []string{"test"}}, def) }},
		{"default-then-profiles", func(e []string) []c17Opt { return append(envOpts(e), def, c17Opt{Op: "profiles", L: []string{"qa"}}) }},
		{"default-then-empty-profiles", func(e []string) []c17Opt { return append(envOpts(e), def, c17Opt{Op: "profiles"}) }},
		{"profiles-star-first", func(e []string) []c17Opt { return at(envOpts(e), 0, c17Opt{Op: "profiles", L: []string{"*"}}) }},
		{"default-twice-around-env", func(e []string) []c17Opt {
			return append(envOpts(e), def, c17Opt{Op: "env", L: []string{"COMPOSE_PROFILES=test"}}, def)
		}},
		{"default-then-env", func(e []string) []c17Opt {
			return append(envOpts(e), def, c17Opt{Op: "env", L: []string{"COMPOSE_PROFILES=test"}})
		}},
	}
	for mask := 0; mask < 8; mask++ {
		for vi, v := range c17ProfileValues {
			for si, sq := range seqs {
				a := c17Args{Dir: "proj", Files: [][]c17Doc{{{}}}, Probe: "${COMPOSE_PROFILES-unset}", OS: []string{}}
				var expl []string
				if mask&1 != 0 {
					expl = []string{"COMPOSE_PROFILES=" + v}
				}
				if mask&2 != 0 {
					ov := v
					if mask&1 != 0 {
						ov = "qa"
					}
					a.OS = append(a.OS, "COMPOSE_PROFILES="+ov)
				}
				f := c17EnvFile{N: "p.env", Lines: [][2]string{{"Z", "z"}}}
				if mask&4 != 0 {
					fv := "test,dev"
					if mask == 4 && strings.Trim(v, "abcdefghijklmnopqrstuvwxyz,*") == "" {
						fv = v // a plain value may sit in the env file alone
					}
					f.Lines = append(f.Lines, [2]string{"COMPOSE_PROFILES", fv})
				}
				a.EnvFiles = []c17EnvFile{f}
				a.Opts = sq.opts(expl)
				if (vi+si)%5 == 0 {
					a.Opts = append([]c17Opt{{Op: "name", V: "expl"}}, a.Opts...)
					a.Files = [][]c17Doc{{{Name: sp("fromfile")}}}
				}
				a.LM = (vi+si)%2 == 0
				if a.LM {
					ctx.Count("lattice-profiles-LoadModel")
				}
				ctx.Count("lattice-profiles")
				ctx.Count("profiles-seq=" + sq.tag)
				ctx.Count(fmt.Sprintf("profiles-sources=%03b", mask))
				ctx.Add("c17load", a.wire())
			}
		}
	}
}

// c17ProfileGlue drops profile options (and COMPOSE_PROFILES bindings) at random positions of a random world.
func c17ProfileGlue(ctx *core.Ctx, a c17Args) c17Args {
	r := ctx.Rng
	ins := func(o c17Opt) {
		at := r.Intn(len(a.Opts) + 1)
		a.Opts = append(a.Opts[:at:at], append([]c17Opt{o}, a.Opts[at:]...)...)
	}
	if r.Intn(2) == 0 {
		a.OS = append(a.OS, "COMPOSE_PROFILES="+pick(r, c17ProfileValues))
		ctx.Count("profglue-os")
	}
	if r.Intn(3) == 0 {
		ins(c17Opt{Op: "env", L: []string{"COMPOSE_PROFILES=" + pick(r, c17ProfileValues)}})
		ctx.Count("profglue-explicit")
	}
	for i, n := 0, 1+r.Intn(3); i < n; i++ {
		switch r.Intn(4) {
		case 0:
			ins(c17Opt{Op: "profiles", L: strings.Split(pick(r, c17ProfileValues), ",")})
			ctx.Count("profglue-WithProfiles")
		case 1:
			ins(c17Opt{Op: "defprofiles", L: []string{pick(r, []string{"dev", "test", "*", " qa"})}})
			ctx.Count("profglue-WithDefaultProfiles(given)")
		default:
			if r.Intn(2) == 0 {
				a.Opts = append(a.Opts, c17Opt{Op: "defprofiles"})
				ctx.Count("profglue-WithDefaultProfiles()-last")
			} else {
				ins(c17Opt{Op: "defprofiles"})
				ctx.Count("profglue-WithDefaultProfiles()-anywhere")
			}
		}
	}
	if r.Intn(2) == 0 {
		a.LM = true
		ctx.Count("profglue-LoadModel")
	}
	return a
}
