package c17

// Wire format of one C17 world (what the Lean driver and the real runner both read) and the real runner.

import (
	"context"
	"encoding/json"
	"fmt"
	"os"
	"path/filepath"
	"strings"

	"github.com/compose-spec/compose-go/v2/cli"
	"github.com/compose-spec/compose-go/v2/loader"
)

type c17WEnv struct {
	N     string      `json:"n,omitempty"`
	Dir   bool        `json:"dir,omitempty"`
	Text  string      `json:"text"`
	Lines [][2]string `json:"lines"` // null = free-form text
}

type c17WFile struct {
	Name string
	Docs []c17Doc
}

func (f c17WFile) MarshalJSON() ([]byte, error) { return json.Marshal([]any{f.Name, f.Docs}) }
func (f *c17WFile) UnmarshalJSON(b []byte) error {
	var raw []json.RawMessage
	if err := json.Unmarshal(b, &raw); err != nil || len(raw) != 2 {
		return fmt.Errorf("bad file entry")
	}
	if err := json.Unmarshal(raw[0], &f.Name); err != nil {
		return err
	}
	return json.Unmarshal(raw[1], &f.Docs)
}

type c17WDir struct {
	Name   string     `json:"name"`
	Parent *int       `json:"parent,omitempty"`
	DotEnv *c17WEnv   `json:"dotenv,omitempty"`
	Files  []c17WFile `json:"files"`
	// Link: the directory is reached through a symbolic link of this name (the real directory is <name>.target);
	// the model is unaffected: the project directory's base name is the link's own name
	Link bool `json:"link,omitempty"`
}

type c17WRef struct {
	D     int     `json:"d"`
	F     *string `json:"f,omitempty"`     // nil: the path denotes a directory whose parent is D
	Stdin bool    `json:"stdin,omitempty"` // the path "-"
}

type c17WPath struct {
	P   string
	Ref c17WRef
}

func (p c17WPath) MarshalJSON() ([]byte, error) { return json.Marshal([]any{p.P, p.Ref}) }
func (p *c17WPath) UnmarshalJSON(b []byte) error {
	var raw []json.RawMessage
	if err := json.Unmarshal(b, &raw); err != nil || len(raw) != 2 {
		return fmt.Errorf("bad path entry")
	}
	if err := json.Unmarshal(raw[0], &p.P); err != nil {
		return err
	}
	return json.Unmarshal(raw[1], &p.Ref)
}

type c17Wire struct {
	Dirs     []c17WDir  `json:"dirs"`
	Cwd      int        `json:"cwd"`
	Given    []c17WRef  `json:"given"`
	Paths    []c17WPath `json:"paths"`
	OS       []string   `json:"os"`
	EnvFiles []c17WEnv  `json:"envfiles"`
	Opts     []c17Opt   `json:"opts"`
	Probe    string     `json:"probe"`
	Stdin    []c17Doc   `json:"stdin,omitempty"` // documents of the compose file on standard input (config path "-")
	// LM: after LoadProject, a fresh NewProjectOptions + LoadModel (the raw-model entry) is observed at the same points
	LM bool `json:"lm,omitempty"`
}

func c17WEnvOf(f c17EnvFile) c17WEnv {
	w := c17WEnv{N: f.N, Dir: f.Dir, Text: c17EnvText(f)}
	if f.Text == nil && !f.Dir {
		w.Lines = f.Lines
		if w.Lines == nil {
			w.Lines = [][2]string{}
		}
	}
	return w
}

// wire converts the builder form (one project directory + an alternative working directory) into the wire
// form: directory 0 = project directory with the given files, 1 = alternative directory, 2 = process directory.
func (a c17Args) wire() c17Wire {
	w := c17Wire{OS: a.OS, Probe: a.Probe, Paths: []c17WPath{}, Given: []c17WRef{}, EnvFiles: []c17WEnv{}, LM: a.LM}
	if w.OS == nil {
		w.OS = []string{}
	}
	d0 := c17WDir{Name: a.Dir, Files: []c17WFile{}, Link: a.DirLink}
	for fi, docs := range a.Files {
		n := fmt.Sprintf("compose%d.yaml", fi)
		d0.Files = append(d0.Files, c17WFile{Name: n, Docs: docs})
		nn := n
		w.Given = append(w.Given, c17WRef{D: 0, F: &nn})
	}
	if a.DotEnv != nil {
		e := c17WEnvOf(*a.DotEnv)
		d0.DotEnv = &e
	}
	alt := a.AltDir
	if alt == "" {
		alt = "alt"
	}
	d1 := c17WDir{Name: alt, Files: []c17WFile{}, Link: a.AltLink}
	if a.AltDot != nil {
		e := c17WEnvOf(*a.AltDot)
		d1.DotEnv = &e
	}
	w.Dirs = []c17WDir{d0, d1, {Name: "cwd", Files: []c17WFile{}}}
	w.Cwd = 2
	for _, f := range a.EnvFiles {
		w.EnvFiles = append(w.EnvFiles, c17WEnvOf(f))
	}
	for _, o := range a.Opts {
		if o.Op == "workdir" {
			o2 := c17Opt{Op: "workdir"}
			if o.A {
				one := 1
				o2.D = &one
			}
			w.Opts = append(w.Opts, o2)
		} else {
			w.Opts = append(w.Opts, o)
		}
	}
	if w.Opts == nil {
		w.Opts = []c17Opt{}
	}
	return w
}

func c17Bad(format string, a ...any) any { return map[string]any{"bad": fmt.Sprintf(format, a...)} }

// realC17Load materialises the world, replaces the process environment and working directory for the duration
// of the case, and runs the real option functions and the load.
func realC17Load(raw json.RawMessage) any {
	var a c17Wire
	if err := json.Unmarshal(raw, &a); err != nil {
		return c17Bad("%v", err)
	}
	root, err := os.MkdirTemp(os.Getenv("VERIF_SCRATCH"), "c17-")
	if err != nil {
		return c17Bad("%v", err)
	}
	defer os.RemoveAll(root)
	if r, err := filepath.EvalSymlinks(root); err == nil {
		root = r
	}
	// directories
	paths := make([]string, len(a.Dirs))
	var pathOf func(i, depth int) (string, bool)
	pathOf = func(i, depth int) (string, bool) {
		if i < 0 || i >= len(a.Dirs) || depth > len(a.Dirs) {
			return "", false
		}
		if paths[i] != "" {
			return paths[i], true
		}
		d := a.Dirs[i]
		if d.Name == "" || d.Name == "." || d.Name == ".." || strings.ContainsAny(d.Name, "/\x00") {
			return "", false
		}
		base := filepath.Join(root, fmt.Sprintf("t%d", i))
		if d.Parent != nil {
			p, ok := pathOf(*d.Parent, depth+1)
			if !ok {
				return "", false
			}
			base = p
		}
		paths[i] = filepath.Join(base, d.Name)
		return paths[i], true
	}
	made := make([]bool, len(a.Dirs))
	var mk func(i int) bool
	mk = func(i int) bool {
		if made[i] {
			return true
		}
		p, ok := pathOf(i, 0)
		if !ok {
			return false
		}
		d := a.Dirs[i]
		if d.Parent != nil && !mk(*d.Parent) {
			return false
		}
		if d.Link {
			if err := os.MkdirAll(filepath.Dir(p), 0o755); err != nil {
				return false
			}
			if err := os.MkdirAll(p+".target", 0o755); err != nil {
				return false
			}
			if err := os.Symlink(filepath.Base(p)+".target", p); err != nil {
				return false
			}
		} else if err := os.MkdirAll(p, 0o755); err != nil {
			return false
		}
		made[i] = filepath.Base(p) == d.Name
		return made[i]
	}
	for i := range a.Dirs {
		if !mk(i) {
			return c17Bad("directory %d not usable", i)
		}
	}
	// the process directory must not be reached through a link (os.Getwd would report the physical path)
	for i, n := a.Cwd, 0; i >= 0 && i < len(a.Dirs) && n <= len(a.Dirs); n++ {
		if a.Dirs[i].Link {
			return c17Bad("process directory under a symbolic link")
		}
		if a.Dirs[i].Parent == nil {
			break
		}
		i = *a.Dirs[i].Parent
	}
	for i, d := range a.Dirs {
		for _, f := range d.Files {
			var parts []string
			for di, doc := range f.Docs {
				parts = append(parts, c17Yaml(a.Probe, 0, di, doc))
			}
			if err := os.WriteFile(filepath.Join(paths[i], f.Name), []byte(strings.Join(parts, "---\n")), 0o644); err != nil {
				return c17Bad("%v", err)
			}
		}
		if d.DotEnv != nil {
			p := filepath.Join(paths[i], ".env")
			if d.DotEnv.Dir {
				os.MkdirAll(p, 0o755)
			} else if err := os.WriteFile(p, []byte(d.DotEnv.Text), 0o644); err != nil {
				return c17Bad("%v", err)
			}
		}
	}
	edir := filepath.Join(root, "e")
	os.MkdirAll(edir, 0o755)
	for _, f := range a.EnvFiles {
		p := filepath.Join(edir, f.N)
		if f.Dir {
			os.MkdirAll(p, 0o755)
		} else if err := os.WriteFile(p, []byte(f.Text), 0o644); err != nil {
			return c17Bad("%v", err)
		}
	}
	refPath := func(r c17WRef) (string, bool) {
		if r.D < 0 || r.D >= len(paths) {
			return "", false
		}
		if r.F == nil {
			return "", false
		}
		return filepath.Join(paths[r.D], *r.F), true
	}
	var configs []string
	for _, g := range a.Given {
		if g.Stdin {
			configs = append(configs, "-")
			continue
		}
		p, ok := refPath(g)
		if !ok {
			return c17Bad("given config not a file reference")
		}
		configs = append(configs, p)
	}
	// the option values are built afresh for every NewProjectOptions (WithDefaultProfiles' closure keeps state)
	var mkFns func() ([]cli.ProjectOptionsFn, any)
	mkFns = func() ([]cli.ProjectOptionsFn, any) {
		var fns []cli.ProjectOptionsFn
		for _, o := range a.Opts {
			switch o.Op {
			case "name":
				fns = append(fns, cli.WithName(o.V))
			case "env":
				fns = append(fns, cli.WithEnv(append([]string(nil), o.L...)))
			case "osenv":
				fns = append(fns, cli.WithOsEnv)
			case "envfiles":
				var l []string
				for _, n := range o.L {
					l = append(l, filepath.Join(edir, n))
				}
				fns = append(fns, cli.WithEnvFiles(l...))
			case "dotenv":
				fns = append(fns, cli.WithDotEnv)
			case "workdir":
				if o.D != nil {
					if *o.D < 0 || *o.D >= len(paths) {
						return nil, c17Bad("workdir index")
					}
					fns = append(fns, cli.WithWorkingDirectory(paths[*o.D]))
				} else {
					fns = append(fns, cli.WithWorkingDirectory(""))
				}
			case "cfgenv":
				fns = append(fns, cli.WithConfigFileEnv)
			case "defcfg":
				fns = append(fns, cli.WithDefaultConfigPath)
			case "interp":
				fns = append(fns, cli.WithInterpolation(o.B))
			case "envfile": // deprecated singular form; the empty path selects the default .env
				if o.V == "" {
					fns = append(fns, cli.WithEnvFile(""))
				} else {
					fns = append(fns, cli.WithEnvFile(filepath.Join(edir, o.V)))
				}
			case "profiles":
				fns = append(fns, cli.WithProfiles(append([]string{}, o.L...)))
			case "defprofiles":
				fns = append(fns, cli.WithDefaultProfiles(append([]string(nil), o.L...)...))
			case "loname": // a SetProjectName smuggled in through WithLoadOptions: withNamePrecedenceLoad runs after it
				v, b := o.V, o.B
				fns = append(fns, cli.WithLoadOptions(func(lo *loader.Options) { lo.SetProjectName(v, b) }))
			default:
				return nil, c17Bad("unknown option %s", o.Op)
			}
		}
		return fns, nil
	}
	fns, bad := mkFns()
	if bad != nil {
		return bad
	}
	if a.Cwd < 0 || a.Cwd >= len(paths) {
		return c17Bad("cwd index")
	}
	// the process directory and the OS environment of this (single-threaded) child become the case's for its duration
	oldwd, err := os.Getwd()
	if err != nil {
		return c17Bad("%v", err)
	}
	if err := os.Chdir(paths[a.Cwd]); err != nil {
		return c17Bad("%v", err)
	}
	defer os.Chdir(oldwd)
	// self-check of the generator's path table: every listed path denotes what it says, relative to the process directory
	for _, p := range a.Paths {
		abs, err := filepath.Abs(p.P)
		if err != nil {
			return c17Bad("%v", err)
		}
		if p.Ref.F != nil {
			want, ok := refPath(p.Ref)
			if !ok || abs != want {
				return c17Bad("path table: %q is %q, not %q", p.P, abs, want)
			}
		} else {
			st, err := os.Stat(abs)
			if err != nil || !st.IsDir() || p.Ref.D < 0 || p.Ref.D >= len(paths) || filepath.Dir(abs) != paths[p.Ref.D] {
				return c17Bad("path table: %q is not a directory under directory %d", p.P, p.Ref.D)
			}
		}
	}
	saved := os.Environ()
	os.Clearenv()
	defer func() {
		os.Clearenv()
		for _, kv := range saved {
			if k, v, ok := strings.Cut(kv, "="); ok {
				os.Setenv(k, v)
			}
		}
	}()
	for _, kv := range a.OS {
		k, v, ok := strings.Cut(kv, "=")
		if !ok || os.Setenv(k, v) != nil {
			return c17Bad("os env entry not settable")
		}
	}
	po, err := cli.NewProjectOptions(configs, fns...)
	if err != nil {
		return map[string]any{"err": c17ErrClass(err), "at": "options"}
	}
	nStdin := 0
	for _, cp := range po.ConfigPaths {
		if cp == "-" {
			nStdin++
			continue
		}
		if !strings.HasPrefix(cp, root+string(filepath.Separator)) {
			return c17Bad("config path outside the test tree: %s", cp)
		}
	}
	if nStdin > 1 {
		return c17Bad("more than one stdin config path")
	}
	if nStdin == 1 {
		// standard input of this child is the harness' own protocol pipe (the server holds its *os.File): the
		// package variable is pointed at a file with the case's content for the duration of the load
		var parts []string
		for di, doc := range a.Stdin {
			parts = append(parts, c17Yaml(a.Probe, 0, di, doc))
		}
		sp := filepath.Join(root, "stdin.yaml")
		if err := os.WriteFile(sp, []byte(strings.Join(parts, "---\n")), 0o644); err != nil {
			return c17Bad("%v", err)
		}
		f, err := os.Open(sp)
		if err != nil {
			return c17Bad("%v", err)
		}
		old := os.Stdin
		os.Stdin = f
		defer func() { os.Stdin = old; f.Close() }()
	}
	p, err := po.LoadProject(context.Background())
	if err != nil {
		return map[string]any{"err": c17ErrClass(err), "at": "load"}
	}
	env := map[string]string{}
	for k, v := range p.Environment {
		env[k] = v
	}
	s, ok := p.Services["s"]
	if !ok {
		return c17Bad("service s missing")
	}
	obs := c17Observe(p, map[string]any{"name": p.Name, "env": env, "probe": s.Labels["probe"]})
	if a.LM && nStdin == 0 {
		fns2, _ := mkFns()
		po2, err := cli.NewProjectOptions(configs, fns2...)
		if err != nil {
			return c17Bad("second NewProjectOptions fails: %v", err)
		}
		m, err := po2.LoadModel(context.Background())
		if err != nil {
			obs["lm"] = map[string]any{"err": c17ErrClass(err)}
		} else {
			obs["lm"] = c17ObserveModel(m)
		}
	}
	return map[string]any{"ok": obs}
}
