package c17

// Generators for the selection of compose files (WithConfigFileEnv, WithDefaultConfigPath, WithWorkingDirectory
// over a directory tree) and for free-form env-file text.

import (
	"fmt"
	"math/rand"
	"strings"

	"verifharness/core"
)

func ip(i int) *int { return &i }

func c17File(name string, nm *string) c17WFile {
	return c17WFile{Name: name, Docs: []c17Doc{{Name: nm}}}
}

// c17CfgTree: 0 = Top (default names + .env), 1 = mid (child of Top), 2 = cwd (child of mid, process directory,
// holds x.yaml and sub/), 3 = sub (child of cwd, holds y.yaml), 4 = alt (separate tree, own compose.yaml),
// 5 = given (separate tree, the file handed to NewProjectOptions).
func c17CfgTree(midHas, cwdHas int) c17Wire {
	w := c17Wire{Probe: "${V-unset}|${COMPOSE_PROJECT_NAME}", OS: []string{}, EnvFiles: []c17WEnv{}, Given: []c17WRef{},
		Stdin: []c17Doc{{Name: sp("fromstdin")}}}
	top := c17WDir{Name: "Top.Dir", Files: []c17WFile{c17File("compose.yaml", sp("top")), c17File("compose.override.yml", sp("over")), c17File("docker-compose.override.yaml", sp("over2"))},
		DotEnv: &c17WEnv{Text: "V=topenv\n", Lines: [][2]string{{"V", "topenv"}}}}
	mid := c17WDir{Name: "mid", Parent: ip(0), Files: []c17WFile{}}
	switch midHas {
	case 1:
		mid.Files = append(mid.Files, c17File("docker-compose.yml", sp("mid")))
	case 2:
		mid.Files = append(mid.Files, c17File("docker-compose.yaml", nil), c17File("compose.yml", sp("midyml")), c17File("compose.override.yaml", sp("midover")))
	}
	cwd := c17WDir{Name: "Cwd_Dir", Parent: ip(1), Files: []c17WFile{c17File("x.yaml", sp("xfile"))},
		DotEnv: &c17WEnv{Text: "V=cwdenv\n", Lines: [][2]string{{"V", "cwdenv"}}}}
	switch cwdHas {
	case 1:
		cwd.Files = append(cwd.Files, c17File("compose.yml", sp("cwdyml")), c17File("compose.yaml", sp("cwdyaml")))
	case 2:
		cwd.Files = append(cwd.Files, c17File("compose.override.yml", sp("orphan-override")))
	}
	sub := c17WDir{Name: "sub", Parent: ip(2), Files: []c17WFile{c17File("y.yaml", sp("yfile"))}}
	alt := c17WDir{Name: "Alt-Dir", Files: []c17WFile{c17File("compose.yaml", sp("altc"))},
		DotEnv: &c17WEnv{Text: "V=altenv\n", Lines: [][2]string{{"V", "altenv"}}}}
	giv := c17WDir{Name: "Given.Dir", Files: []c17WFile{c17File("g.yaml", sp("given"))}}
	w.Dirs = []c17WDir{top, mid, cwd, sub, alt, giv}
	w.Cwd = 2
	x, y, c := "x.yaml", "y.yaml", "compose.yaml"
	w.Paths = []c17WPath{
		{P: "x.yaml", Ref: c17WRef{D: 2, F: &x}},
		{P: "./x.yaml", Ref: c17WRef{D: 2, F: &x}},
		{P: "sub/y.yaml", Ref: c17WRef{D: 3, F: &y}},
		{P: "../../compose.yaml", Ref: c17WRef{D: 0, F: &c}},
		{P: "sub", Ref: c17WRef{D: 2}},
		{P: "", Ref: c17WRef{D: 1}},
	}
	return w
}

var c17ComposeFileValues = []struct{ v, sep string }{
	{"-", ""}, {"-:x.yaml", ""}, {"x.yaml:-", ""},
	{"x.yaml", ""}, {"x.yaml:sub/y.yaml", ""}, {"sub/y.yaml:x.yaml", ""}, {"missing.yaml", ""}, {"x.yaml:missing.yaml", ""},
	{"x.yaml;sub/y.yaml", ";"}, {"x.yaml:sub/y.yaml", ";"}, {"./x.yaml::../../compose.yaml", "::"}, {"sub", ""}, {"", ""}, {"x.yaml:", ""},
}

func c17ConfigLattice(ctx *core.Ctx) {
	g := "g.yaml"
	cfgOrders := [][]c17Opt{{}, {{Op: "cfgenv"}}, {{Op: "defcfg"}}, {{Op: "cfgenv"}, {Op: "defcfg"}}, {{Op: "defcfg"}, {Op: "cfgenv"}}}
	for _, given := range []bool{false, true} {
		for ci, cfg := range cfgOrders {
			for _, where := range []string{"absent", "os", "explicit", "dotenv"} {
				for vi, cf := range c17ComposeFileValues {
					if where == "absent" && vi > 0 {
						continue
					}
					for _, wd := range []int{-1, 4} {
						for _, envFirst := range []bool{true, false} {
							for tree := 0; tree < 3; tree++ {
								if (given || where == "absent" && ci == 0) && tree > 0 {
									continue
								}
								w := c17CfgTree(tree, (tree+vi)%3)
								if given {
									w.Given = []c17WRef{{D: 5, F: &g}}
									if vi%4 == 1 {
										w.Given = []c17WRef{{Stdin: true}, {D: 5, F: &g}} // stdin first: the project directory is g's
									} else if vi%4 == 2 {
										w.Given = []c17WRef{{Stdin: true}} // stdin only: the process directory
									}
								}
								var envOpts []c17Opt
								kv := []string{"COMPOSE_FILE=" + cf.v}
								if cf.sep != "" {
									kv = append(kv, "COMPOSE_PATH_SEPARATOR="+cf.sep)
								}
								switch where {
								case "os":
									w.OS = append(w.OS, kv...)
								case "explicit":
									envOpts = append(envOpts, c17Opt{Op: "env", L: kv})
								case "dotenv":
									if strings.Contains(cf.v, " ") || cf.v == "" {
										continue
									}
									lines := [][2]string{}
									for _, e := range kv {
										k, v, _ := strings.Cut(e, "=")
										lines = append(lines, [2]string{k, v})
									}
									f := c17EnvFile{N: "cf.env", Lines: lines}
									w.EnvFiles = append(w.EnvFiles, c17WEnvOf(f))
								}
								envOpts = append(envOpts, c17Opt{Op: "osenv"})
								if where == "dotenv" {
									envOpts = append(envOpts, c17Opt{Op: "envfiles", L: []string{"cf.env"}}, c17Opt{Op: "dotenv"})
								} else {
									envOpts = append(envOpts, c17Opt{Op: "envfiles"}, c17Opt{Op: "dotenv"})
								}
								var opts []c17Opt
								if wd >= 0 {
									opts = append(opts, c17Opt{Op: "workdir", D: ip(wd)})
								}
								if envFirst {
									opts = append(append(opts, envOpts...), cfg...)
								} else {
									opts = append(append(opts, cfg...), envOpts...)
								}
								w.Opts = opts
								ctx.Count("lattice-config")
								ctx.Count(fmt.Sprintf("config: given=%v opts=%d COMPOSE_FILE=%s", given, ci, where))
								ctx.Add("c17load", w)
							}
						}
					}
				}
			}
		}
	}
}

// c17RandomCfg: a random chain of directories with random default-named files, random COMPOSE_FILE, random option order.
func c17RandomCfg(r *rand.Rand, documented bool) c17Wire {
	w := c17CfgTree(r.Intn(3), r.Intn(3))
	// perturb which default names exist where
	names := []string{"compose.yaml", "compose.yml", "docker-compose.yml", "docker-compose.yaml", "compose.override.yml", "compose.override.yaml", "docker-compose.override.yml", "docker-compose.override.yaml"}
	for d := 0; d < 3; d++ {
		if r.Intn(2) == 0 {
			w.Dirs[d].Files = nil
			for _, n := range names {
				if r.Intn(4) == 0 {
					var nm *string
					if r.Intn(3) > 0 {
						t := pick(r, c17FileNames)
						if r.Intn(3) == 0 {
							t = fmt.Sprintf("d%d-%s", d, strings.TrimSuffix(n, ".yaml"))
						}
						nm = &t
					}
					w.Dirs[d].Files = append(w.Dirs[d].Files, c17File(n, nm))
				}
			}
			if d == 2 {
				w.Dirs[d].Files = append(w.Dirs[d].Files, c17File("x.yaml", sp("xfile")))
			}
			if d == 0 {
				// "../../compose.yaml" of the path table must keep denoting a file
				has := false
				for _, f := range w.Dirs[0].Files {
					has = has || f.Name == "compose.yaml"
				}
				if !has {
					w.Dirs[0].Files = append(w.Dirs[0].Files, c17File("compose.yaml", sp("top")))
				}
			}
			if w.Dirs[d].Files == nil {
				w.Dirs[d].Files = []c17WFile{}
			}
		}
	}
	for d := range w.Dirs {
		if d == 3 {
			continue // "sub" is named by the path table
		}
		w.Dirs[d].Name = pick(r, c17DirNames) + fmt.Sprintf("%d", d) // distinct among siblings
		if r.Intn(3) == 0 {
			w.Dirs[d].Name = fmt.Sprintf("%d", d) + pick(r, c17DirNames)
		}
	}
	if r.Intn(3) == 0 {
		g := "g.yaml"
		w.Given = []c17WRef{{D: 5, F: &g}}
	}
	if r.Intn(8) == 0 {
		g := "g.yaml"
		w.Given = [][]c17WRef{{{Stdin: true}}, {{Stdin: true}, {D: 5, F: &g}}, {{D: 5, F: &g}, {Stdin: true}}}[r.Intn(3)]
		w.Stdin = []c17Doc{{Name: sp(pick(r, c17FileNames))}}
	}
	w.Dirs[4].Link = r.Intn(4) == 0
	w.Dirs[5].Link = r.Intn(4) == 0
	cf := c17ComposeFileValues[r.Intn(len(c17ComposeFileValues))]
	kv := []string{"COMPOSE_FILE=" + cf.v}
	if cf.sep != "" && r.Intn(4) > 0 {
		kv = append(kv, "COMPOSE_PATH_SEPARATOR="+cf.sep)
	}
	var envOpts []c17Opt
	switch r.Intn(4) {
	case 0:
		w.OS = append(w.OS, kv...)
	case 1:
		envOpts = append(envOpts, c17Opt{Op: "env", L: kv})
	}
	if r.Intn(3) == 0 {
		w.OS = append(w.OS, "COMPOSE_PROJECT_NAME="+c17RandName(r))
	}
	if r.Intn(4) > 0 {
		envOpts = append(envOpts, c17Opt{Op: "osenv"})
	}
	if r.Intn(2) == 0 {
		envOpts = append(envOpts, c17Opt{Op: "envfiles"}, c17Opt{Op: "dotenv"})
	}
	var cfg []c17Opt
	switch r.Intn(5) {
	case 0:
		cfg = []c17Opt{{Op: "cfgenv"}}
	case 1:
		cfg = []c17Opt{{Op: "defcfg"}}
	case 2, 3:
		cfg = []c17Opt{{Op: "cfgenv"}, {Op: "defcfg"}}
	}
	var opts []c17Opt
	if r.Intn(3) == 0 {
		opts = append(opts, c17Opt{Op: "workdir", D: ip([]int{0, 1, 3, 4}[r.Intn(4)])})
	}
	opts = append(append(opts, envOpts...), cfg...)
	if !documented {
		r.Shuffle(len(opts), func(i, j int) { opts[i], opts[j] = opts[j], opts[i] })
		if r.Intn(3) == 0 {
			opts = append(opts, c17Opt{Op: pick(r, []string{"cfgenv", "defcfg", "osenv"})})
		}
	}
	if r.Intn(4) == 0 {
		at := r.Intn(len(opts) + 1)
		opts = append(opts[:at:at], append([]c17Opt{{Op: "name", V: c17RandName(r)}}, opts[at:]...)...)
	}
	if opts == nil {
		opts = []c17Opt{}
	}
	w.Opts = opts
	return w
}

// c17FreeFormEnv: env-file text beyond KEY=VALUE lines (quotes, comments, export, `:` separator, bare keys,
// inline comments, blank lines, CRLF) — judged by correspondence with the parser model only.
func c17FreeFormEnv(r *rand.Rand, malformed bool) string {
	var b strings.Builder
	for i, n := 0, 1+r.Intn(5); i < n; i++ {
		k := pick(r, c17EnvKeys)
		v := pick(r, c17EnvValues)
		switch r.Intn(12) {
		case 0:
			b.WriteString("# comment " + v + "\n")
		case 1:
			b.WriteString("\n")
		case 2:
			b.WriteString("export " + k + "=" + v + "\n")
		case 3:
			b.WriteString(k + ": " + v + "\n")
		case 4:
			b.WriteString(k + "=\"" + v + " q\\n\\$x\"\n")
		case 5:
			b.WriteString(k + "='" + v + " $V'\n")
		case 6:
			b.WriteString(k + " = " + v + " # inline\n")
		case 7:
			b.WriteString(k + "\n") // bare key: inherited from the lookup
		case 8:
			b.WriteString("  " + k + "=" + v + "  \r\n")
		case 9:
			if malformed {
				b.WriteString(pick(r, []string{k + "=\"unterminated\n", "bad key=" + v + "\n", "=" + v + "\n", k + "=${\n", "a%b=1\n"}))
			} else {
				b.WriteString(k + "=" + v + "\n")
			}
		default:
			b.WriteString(k + "=" + v + "\n")
		}
	}
	if r.Intn(5) == 0 {
		s := b.String()
		return strings.TrimSuffix(s, "\n")
	}
	if r.Intn(12) == 0 {
		return "\ufeff" + b.String()
	}
	return b.String()
}
